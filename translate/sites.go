package main

import (
	"crypto/sha256"
	"fmt"
	"go/ast"
	"go/importer"
	"go/parser"
	"go/token"
	"go/types"
	"os"
	"os/exec"
	"path/filepath"
	"sort"
	"strings"
)

func init() { extraGens = append(extraGens, gen{"sites", genSites}) }

// simulatorDir says whether a directory (relative to the repo root) belongs to the simulator
// proper (as opposed to workloads, sample mains and test drivers).
func simulatorDir(rel string) bool {
	if !strings.HasPrefix(rel, "amd") {
		return false
	}
	for _, p := range []string{"amd/benchmarks", "amd/tests"} {
		if strings.HasPrefix(rel, p) {
			return false
		}
	}
	if strings.HasPrefix(rel, "amd/samples") && !strings.HasPrefix(rel, "amd/samples/runner") {
		return false
	}
	return true
}

// ---------------------------------------------------------------- site records

type mapSite struct {
	file, fn, operand string
	key, val          string
	body              string   // normalised source of the whole range statement
	context           string   // following statements of the same block that mention a variable written in the body
	writes            []string // assignment targets in the body that the body does not declare itself
	locals            []string // variables the body declares (:=)
	calls             []string // called functions in the body
	exits             []string // return / break / continue / goto / panic inside the body
	callees           []string // same-package functions called from the body, `name#hash-of-their-source`
	fieldsWritten     []string // struct fields assigned by the body or by those callees (pkg.Type.field)
	hash              string   // sha256 (first 16 hex) of body, context and callee sources
}

type clockSite struct {
	file, fn, what string
	kind           string // how the value is consumed: field | local | arg | stmt | return | import | other
	consumer       string // field: pkg.Type.field ; arg: callee ; local: variable
	stmt           string // normalised enclosing statement
}

type fieldRead struct{ field, file, fn, use, callee, pkg, stmt string }

type goSite struct {
	file, fn, started string
	hash              string
	skeleton          []string
}

type simpleSite struct{ file, fn, what string }

// sources of values that differ from run to run: package path -> function names ("*" = all)
var nondetFuncs = map[string][]string{
	"time":                   {"Now", "Since", "Until", "Sleep", "After", "Tick", "NewTimer", "NewTicker", "AfterFunc"},
	"math/rand":              {"*"},
	"math/rand/v2":           {"*"},
	"crypto/rand":            {"*"},
	"github.com/rs/xid":      {"New", "NewWithTime"},
	"github.com/google/uuid": {"*"},
	"os":                     {"Getpid", "Getppid", "Hostname"},
	"runtime":                {"NumCPU", "NumGoroutine", "GOMAXPROCS"},
}

func isNondet(pkg, name string) bool {
	l, ok := nondetFuncs[pkg]
	if !ok {
		return false
	}
	for _, n := range l {
		if n == "*" || n == name {
			return true
		}
	}
	return false
}

func shortPkg(p string) string {
	if i := strings.LastIndex(p, "/"); i >= 0 {
		return p[i+1:]
	}
	return p
}

func normText(n ast.Node) string { return strings.Join(strings.Fields(nodeString(n)), " ") }

func hash16(parts ...string) string {
	h := sha256.New()
	for _, p := range parts {
		h.Write([]byte(p))
		h.Write([]byte{0})
	}
	return fmt.Sprintf("%x", h.Sum(nil))[:16]
}

// leanPairList renders "op\x00arg" tokens as a Lean list of pairs.
func leanPairList(l []string) string {
	q := make([]string, len(l))
	for i, t := range l {
		op, arg, _ := strings.Cut(t, "\x00")
		q[i] = "(" + leanStr(op) + ", " + leanStr(arg) + ")"
	}
	return "[" + strings.Join(q, ", ") + "]"
}

func uniqSorted(l []string) []string {
	m := map[string]bool{}
	var out []string
	for _, s := range l {
		if !m[s] {
			m[s] = true
			out = append(out, s)
		}
	}
	sort.Strings(out)
	return out
}

// baseIdent returns the leftmost identifier of a selector / index / star expression.
func baseIdent(e ast.Expr) string {
	for {
		switch x := e.(type) {
		case *ast.Ident:
			return x.Name
		case *ast.SelectorExpr:
			e = x.X
		case *ast.IndexExpr:
			e = x.X
		case *ast.StarExpr:
			e = x.X
		case *ast.ParenExpr:
			e = x.X
		default:
			return ""
		}
	}
}

// pkgCtx is what the per-package passes need.
type pkgCtx struct {
	fset  *token.FileSet
	info  *types.Info
	decls map[*types.Func]*ast.FuncDecl
	root  string
}

func (c *pkgCtx) calleeFunc(call *ast.CallExpr) *types.Func {
	var id *ast.Ident
	switch f := call.Fun.(type) {
	case *ast.Ident:
		id = f
	case *ast.SelectorExpr:
		id = f.Sel
	}
	if id == nil {
		return nil
	}
	if fn, ok := c.info.Uses[id].(*types.Func); ok {
		return fn
	}
	return nil
}

// fieldKey names a struct field as pkg.Type.field (the struct that DECLARES the field).
func (c *pkgCtx) fieldKey(sel *ast.SelectorExpr) string {
	s, ok := c.info.Selections[sel]
	if !ok || s.Kind() != types.FieldVal {
		return ""
	}
	v, ok := s.Obj().(*types.Var)
	if !ok || !v.IsField() {
		return ""
	}
	// find the struct type that declares the field by walking the selection path
	t := s.Recv()
	idx := s.Index()
	owner := ""
	for i, k := range idx {
		for {
			if p, ok := t.(*types.Pointer); ok {
				t = p.Elem()
				continue
			}
			break
		}
		if n, ok := t.(*types.Named); ok {
			owner = n.Obj().Name()
			if n.Obj().Pkg() != nil {
				owner = shortPkg(n.Obj().Pkg().Path()) + "." + owner
			}
		}
		st, ok := t.Underlying().(*types.Struct)
		if !ok {
			return ""
		}
		f := st.Field(k)
		if i == len(idx)-1 {
			return owner + "." + f.Name()
		}
		t = f.Type()
	}
	return ""
}

// ---------------------------------------------------------------- map sites

func (c *pkgCtx) analyseMapLoop(rel, fn string, x *ast.RangeStmt, parents []ast.Node) mapSite {
	s := mapSite{file: rel, fn: fn, operand: nodeString(x.X)}
	if x.Key != nil {
		s.key = nodeString(x.Key)
	}
	if x.Value != nil {
		s.val = nodeString(x.Value)
	}
	s.body = normText(x)
	written := map[string]bool{}
	var calleeSrc []string
	seenCallee := map[*types.Func]bool{}
	fieldWrites := func(n ast.Node) {
		ast.Inspect(n, func(nd ast.Node) bool {
			var lhs []ast.Expr
			switch y := nd.(type) {
			case *ast.AssignStmt:
				lhs = y.Lhs
			case *ast.IncDecStmt:
				lhs = []ast.Expr{y.X}
			}
			for _, l := range lhs {
				for {
					if ix, ok := l.(*ast.IndexExpr); ok {
						l = ix.X
						continue
					}
					break
				}
				if sel, ok := l.(*ast.SelectorExpr); ok {
					if k := c.fieldKey(sel); k != "" {
						s.fieldsWritten = append(s.fieldsWritten, k)
					}
				}
			}
			return true
		})
	}
	fieldWrites(x.Body)
	ast.Inspect(x.Body, func(nd ast.Node) bool {
		switch y := nd.(type) {
		case *ast.AssignStmt:
			for _, l := range y.Lhs {
				t := normText(l)
				if t == "_" {
					continue
				}
				if y.Tok == token.DEFINE {
					s.locals = append(s.locals, t)
				} else {
					s.writes = append(s.writes, t)
					written[baseIdent(l)] = true
				}
			}
		case *ast.IncDecStmt:
			s.writes = append(s.writes, normText(y.X))
			written[baseIdent(y.X)] = true
		case *ast.ReturnStmt:
			s.exits = append(s.exits, "return")
		case *ast.BranchStmt:
			s.exits = append(s.exits, y.Tok.String())
		case *ast.GoStmt:
			s.exits = append(s.exits, "go")
		case *ast.SendStmt:
			s.writes = append(s.writes, "send:"+normText(y.Chan))
		case *ast.CallExpr:
			name := normText(y.Fun)
			s.calls = append(s.calls, name)
			if name == "panic" {
				s.exits = append(s.exits, "panic")
			}
			if name == "delete" && len(y.Args) > 0 {
				s.writes = append(s.writes, "delete:"+normText(y.Args[0]))
				written[baseIdent(y.Args[0])] = true
			}
			if f := c.calleeFunc(y); f != nil && !seenCallee[f] {
				seenCallee[f] = true
				if d, ok := c.decls[f]; ok {
					h := hash16(normText(d))
					s.callees = append(s.callees, f.Name()+"#"+h)
					calleeSrc = append(calleeSrc, h)
					fieldWrites(d.Body)
				}
			}
		}
		return true
	})
	s.writes = uniqSorted(s.writes)
	s.locals = uniqSorted(s.locals)
	s.calls = uniqSorted(s.calls)
	s.exits = uniqSorted(s.exits)
	s.fieldsWritten = uniqSorted(s.fieldsWritten)
	sort.Strings(s.callees)
	sort.Strings(calleeSrc)
	// context: the statements that follow the loop in its block, while they mention a variable
	// the body writes (sorting / returning the collected slice, …)
	if len(parents) > 0 {
		if blk, ok := parents[len(parents)-1].(*ast.BlockStmt); ok {
			after := false
			var ctx []string
			for _, st := range blk.List {
				if st == ast.Stmt(x) {
					after = true
					continue
				}
				if !after {
					continue
				}
				mentions := false
				ast.Inspect(st, func(nd ast.Node) bool {
					if id, ok := nd.(*ast.Ident); ok && written[id.Name] {
						mentions = true
					}
					return !mentions
				})
				if !mentions {
					break
				}
				ctx = append(ctx, normText(st))
			}
			s.context = strings.Join(ctx, " ; ")
		}
	}
	s.hash = hash16(append([]string{s.body, s.context}, calleeSrc...)...)
	return s
}

// ---------------------------------------------------------------- goroutine skeletons

// skeleton lists, in source order, the synchronisation operations and the writes to fields of
// the receiver / captured variables of a function body, with block structure.
func (c *pkgCtx) skeleton(body *ast.BlockStmt, recv string) []string {
	var out []string
	var walkStmt func(st ast.Stmt)
	var walkExpr func(e ast.Node)
	walkExpr = func(e ast.Node) {
		if e == nil {
			return
		}
		ast.Inspect(e, func(nd ast.Node) bool {
			switch y := nd.(type) {
			case *ast.FuncLit:
				out = append(out, "open\x00func")
				for _, st := range y.Body.List {
					walkStmt(st)
				}
				out = append(out, "close\x00")
				return false
			case *ast.UnaryExpr:
				if y.Op == token.ARROW {
					out = append(out, "recv\x00"+normText(y.X))
				}
			case *ast.CallExpr:
				name := normText(y.Fun)
				switch {
				case strings.HasSuffix(name, ".Lock") || strings.HasSuffix(name, ".RLock"):
					out = append(out, "lock\x00"+strings.TrimSuffix(strings.TrimSuffix(name, ".Lock"), ".RLock"))
				case strings.HasSuffix(name, ".Unlock") || strings.HasSuffix(name, ".RUnlock"):
					out = append(out, "unlock\x00"+strings.TrimSuffix(strings.TrimSuffix(name, ".Unlock"), ".RUnlock"))
				case name == "verifYield" || name == "recover":
				default:
					for _, a := range y.Args {
						walkExpr(a)
					}
					if _, isLit := y.Fun.(*ast.FuncLit); isLit {
						walkExpr(y.Fun)
					}
					out = append(out, "call\x00"+name)
					return false
				}
			}
			return true
		})
	}
	block := func(tag string, l []ast.Stmt) {
		out = append(out, tag)
		for _, st := range l {
			walkStmt(st)
		}
		out = append(out, "close\x00")
	}
	walkStmt = func(st ast.Stmt) {
		switch y := st.(type) {
		case nil:
		case *ast.BlockStmt:
			for _, s2 := range y.List {
				walkStmt(s2)
			}
		case *ast.ExprStmt:
			walkExpr(y.X)
		case *ast.SendStmt:
			walkExpr(y.Value)
			out = append(out, "send\x00"+normText(y.Chan))
		case *ast.AssignStmt:
			for _, r := range y.Rhs {
				walkExpr(r)
			}
			for _, l := range y.Lhs {
				if y.Tok == token.DEFINE {
					continue
				}
				if _, isSel := l.(*ast.SelectorExpr); isSel || baseIdent(l) == recv {
					out = append(out, "write\x00"+normText(l))
				} else if id, ok := l.(*ast.Ident); ok && id.Name != "_" {
					out = append(out, "writelocal\x00"+id.Name)
				}
			}
		case *ast.IncDecStmt:
			if _, isSel := y.X.(*ast.SelectorExpr); isSel {
				out = append(out, "write\x00"+normText(y.X))
			}
		case *ast.GoStmt:
			out = append(out, "go\x00"+normText(y.Call.Fun))
		case *ast.DeferStmt:
			name := normText(y.Call.Fun)
			switch {
			case strings.HasSuffix(name, ".Unlock"):
				out = append(out, "defer-unlock\x00"+strings.TrimSuffix(name, ".Unlock"))
			default:
				if lit, ok := y.Call.Fun.(*ast.FuncLit); ok {
					out = append(out, "open\x00defer")
					for _, s2 := range lit.Body.List {
						walkStmt(s2)
					}
					out = append(out, "close\x00")
				} else {
					out = append(out, "defer-call\x00"+name)
				}
			}
		case *ast.ReturnStmt:
			for _, r := range y.Results {
				walkExpr(r)
			}
			out = append(out, "term\x00return")
		case *ast.BranchStmt:
			out = append(out, "term\x00"+y.Tok.String())
		case *ast.IfStmt:
			walkStmt(y.Init)
			walkExpr(y.Cond)
			block("open\x00if", y.Body.List)
			if y.Else != nil {
				switch e := y.Else.(type) {
				case *ast.BlockStmt:
					block("open\x00else", e.List)
				default:
					out = append(out, "open\x00else")
					walkStmt(e)
					out = append(out, "close\x00")
				}
			}
		case *ast.ForStmt:
			walkStmt(y.Init)
			walkExpr(y.Cond)
			block("open\x00for", y.Body.List)
		case *ast.RangeStmt:
			walkExpr(y.X)
			block("open\x00for", y.Body.List)
		case *ast.SelectStmt:
			out = append(out, "open\x00select")
			for _, cc := range y.Body.List {
				cl := cc.(*ast.CommClause)
				if cl.Comm == nil {
					out = append(out, "open\x00default")
				} else {
					out = append(out, "open\x00case")
					walkStmt(cl.Comm)
				}
				for _, s2 := range cl.Body {
					walkStmt(s2)
				}
				out = append(out, "close\x00")
			}
			out = append(out, "close\x00")
		case *ast.SwitchStmt:
			walkStmt(y.Init)
			walkExpr(y.Tag)
			for _, cc := range y.Body.List {
				block("open\x00if", cc.(*ast.CaseClause).Body)
			}
		case *ast.TypeSwitchStmt:
			for _, cc := range y.Body.List {
				block("open\x00if", cc.(*ast.CaseClause).Body)
			}
		case *ast.DeclStmt, *ast.EmptyStmt, *ast.LabeledStmt:
		default:
			out = append(out, "stmt\x00"+normText(st))
		}
	}
	for _, st := range body.List {
		walkStmt(st)
	}
	return out
}

// ---------------------------------------------------------------- clock / random consumers

func (c *pkgCtx) classifyConsumer(call ast.Node, parents []ast.Node) (kind, consumer, stmt string) {
	// innermost enclosing statement, and the node directly above the (possibly chained) call
	var encl ast.Stmt
	for i := len(parents) - 1; i >= 0; i-- {
		if st, ok := parents[i].(ast.Stmt); ok {
			encl = st
			break
		}
	}
	if encl == nil {
		return "other", "", ""
	}
	stmt = normText(encl)
	switch y := encl.(type) {
	case *ast.AssignStmt:
		if len(y.Lhs) == 1 {
			l := y.Lhs[0]
			if sel, ok := l.(*ast.SelectorExpr); ok {
				if k := c.fieldKey(sel); k != "" {
					// value passed through a call first? (e.g. byte(rand.Int()))
					return "field", k, stmt
				}
				return "field", normText(l), stmt
			}
			if id, ok := l.(*ast.Ident); ok {
				return "local", id.Name, stmt
			}
			return "store", normText(l), stmt
		}
		return "other", "", stmt
	case *ast.ExprStmt:
		if ce, ok := y.X.(*ast.CallExpr); ok {
			if ce == call {
				return "stmt", normText(ce.Fun), stmt
			}
			return "arg", normText(ce.Fun), stmt
		}
		return "other", "", stmt
	case *ast.ReturnStmt:
		return "return", "", stmt
	}
	return "other", "", stmt
}

// genSites lists (with go/types, so that types decide) every `range` over a map (and the other
// ways of enumerating a map), every use of a wall-clock / random / per-process source with its
// consumer, every `go` statement with the synchronisation skeleton of the started function,
// every `select` with more than one communication, and every ordering of strings, in the
// simulator packages.
func genSites() {
	root, _ := filepath.Abs(*repo)
	cwd, _ := os.Getwd()
	os.Chdir(root)
	defer os.Chdir(cwd)
	fset := token.NewFileSet()
	imp := importer.ForCompiler(fset, "source", nil)
	var dirs []string
	filepath.Walk(filepath.Join(root, "amd"), func(p string, info os.FileInfo, err error) error {
		if err == nil && info.IsDir() {
			rel, _ := filepath.Rel(root, p)
			if simulatorDir(rel) {
				dirs = append(dirs, p)
			}
		}
		return nil
	})
	sort.Strings(dirs)
	var maps []mapSite
	var clocks []clockSite
	var gos []goSite
	var selects, strOrders, reuses []simpleSite
	var reads []fieldRead
	var allReads []fieldRead
	scan := func(dirs []string) {
		for _, d := range dirs {
			pkgs, err := parser.ParseDir(fset, d, func(fi os.FileInfo) bool {
				return productFile(filepath.Join(d, fi.Name()))
			}, 0)
			if err != nil || len(pkgs) == 0 {
				continue
			}
			var pkgNames []string
			for n := range pkgs {
				pkgNames = append(pkgNames, n)
			}
			sort.Strings(pkgNames)
			for _, pn := range pkgNames {
				pkg := pkgs[pn]
				var files []*ast.File
				var names []string
				for n := range pkg.Files {
					names = append(names, n)
				}
				sort.Strings(names)
				for _, n := range names {
					files = append(files, pkg.Files[n])
				}
				info := &types.Info{
					Types:      map[ast.Expr]types.TypeAndValue{},
					Uses:       map[*ast.Ident]types.Object{},
					Defs:       map[*ast.Ident]types.Object{},
					Selections: map[*ast.SelectorExpr]*types.Selection{},
				}
				nerr := 0
				var firstErr error
				conf := types.Config{Importer: imp, Error: func(err error) {
					if nerr == 0 {
						firstErr = err
					}
					nerr++
				}}
				conf.Check(d, fset, files, info)
				if nerr > 0 {
					fatalf("sites: package %s does not type-check (%d errors, first: %v); cannot decide which ranges are over maps", d, nerr, firstErr)
				}
				ctx := &pkgCtx{fset: fset, info: info, decls: map[*types.Func]*ast.FuncDecl{}, root: root}
				for _, f := range files {
					for _, decl := range f.Decls {
						if fd, ok := decl.(*ast.FuncDecl); ok {
							if fn, ok := info.Defs[fd.Name].(*types.Func); ok {
								ctx.decls[fn] = fd
							}
						}
					}
				}
				for _, f := range files {
					rel, _ := filepath.Rel(root, fset.Position(f.Pos()).Filename)
					// imports of random sources
					for _, im := range f.Imports {
						p := strings.Trim(im.Path.Value, `"`)
						if p == "math/rand" || p == "math/rand/v2" || p == "crypto/rand" {
							clocks = append(clocks, clockSite{file: rel, fn: "import", what: p, kind: "import"})
						}
					}
					for _, decl := range f.Decls {
						fd, ok := decl.(*ast.FuncDecl)
						if !ok || fd.Body == nil {
							continue
						}
						fn := fd.Name.Name
						recv := ""
						if fd.Recv != nil && len(fd.Recv.List) == 1 {
							fn = strings.TrimPrefix(nodeString(fd.Recv.List[0].Type), "*") + "." + fn
							if len(fd.Recv.List[0].Names) == 1 {
								recv = fd.Recv.List[0].Names[0].Name
							}
						}
						var parents []ast.Node
						lhsOf := map[ast.Expr]bool{}
						ast.Inspect(fd.Body, func(nd ast.Node) bool {
							if nd == nil {
								parents = parents[:len(parents)-1]
								return true
							}
							switch x := nd.(type) {
							case *ast.AssignStmt:
								for _, l := range x.Lhs {
									lhsOf[l] = true
								}
							case *ast.RangeStmt:
								if tv, ok := info.Types[x.X]; ok {
									if _, isMap := tv.Type.Underlying().(*types.Map); isMap {
										maps = append(maps, ctx.analyseMapLoop(rel, fn, x, parents))
									}
								}
							case *ast.GoStmt:
								started := nodeString(x.Call.Fun)
								g := goSite{file: rel, fn: fn, started: started}
								if lit, isLit := x.Call.Fun.(*ast.FuncLit); isLit {
									g.started = "func literal"
									g.skeleton = ctx.skeleton(lit.Body, recv)
									g.hash = hash16(normText(lit))
								} else if f := ctx.calleeFunc(x.Call); f != nil {
									if dcl, ok := ctx.decls[f]; ok {
										r2 := ""
										if dcl.Recv != nil && len(dcl.Recv.List) == 1 && len(dcl.Recv.List[0].Names) == 1 {
											r2 = dcl.Recv.List[0].Names[0].Name
										}
										g.skeleton = ctx.skeleton(dcl.Body, r2)
										g.hash = hash16(normText(dcl))
									}
								}
								gos = append(gos, g)
							case *ast.SelectStmt:
								n := 0
								hasDefault := false
								for _, cc := range x.Body.List {
									if cc.(*ast.CommClause).Comm != nil {
										n++
									} else {
										hasDefault = true
									}
								}
								if n >= 2 {
									var cs []string
									for _, cc := range x.Body.List {
										if cm := cc.(*ast.CommClause).Comm; cm != nil {
											cs = append(cs, normText(cm))
										}
									}
									if hasDefault {
										cs = append(cs, "default")
									}
									selects = append(selects, simpleSite{rel, fn, strings.Join(cs, " | ")})
								}
							case *ast.BinaryExpr:
								if x.Op == token.LSS || x.Op == token.GTR || x.Op == token.LEQ || x.Op == token.GEQ {
									if tv, ok := info.Types[x.X]; ok {
										if b, ok := tv.Type.Underlying().(*types.Basic); ok && b.Info()&types.IsString != 0 {
											strOrders = append(strOrders, simpleSite{rel, fn, normText(x)})
										}
									}
								}
							case *ast.CallExpr:
								if f := ctx.calleeFunc(x); f != nil && f.Pkg() != nil {
									pp, name := f.Pkg().Path(), f.Name()
									if isNondet(pp, name) {
										k, cons, st := ctx.classifyConsumer(x, parents)
										clocks = append(clocks, clockSite{file: rel, fn: fn, what: shortPkg(pp) + "." + name, kind: k, consumer: cons, stmt: st})
									}
									// other ways of enumerating a map / ordering strings
									full := pp + "." + name
									if sig, ok := f.Type().(*types.Signature); ok && sig.Recv() != nil {
										rt := sig.Recv().Type().String()
										full = strings.TrimPrefix(rt, "*") + "." + name
									}
									switch full {
									case "maps.Keys", "maps.Values", "maps.All", "golang.org/x/exp/maps.Keys", "golang.org/x/exp/maps.Values",
										"reflect.Value.MapKeys", "reflect.Value.MapRange", "sync.Map.Range":
										maps = append(maps, mapSite{file: rel, fn: fn, operand: normText(x), body: normText(x), hash: hash16(normText(x))})
									case "sort.Strings", "strings.Compare", "sort.StringSlice.Sort", "sort.StringSlice.Less":
										strOrders = append(strOrders, simpleSite{rel, fn, normText(x)})
									case "sync.Pool.Get", "sync.Pool.Put", "runtime.SetFinalizer", "runtime.AddCleanup",
										"reflect.Value.Pointer", "reflect.Value.UnsafeAddr", "reflect.Value.UnsafePointer":
										// objects recycled across uses (their old content / identity is schedule dependent),
										// finalizers (run when the collector decides), addresses as values
										reuses = append(reuses, simpleSite{rel, fn, normText(x)})
									}
								}
								// an address turned into a number: uintptr(unsafe.Pointer(p)) — its value and order differ from run to run
								if tv, ok := info.Types[x.Fun]; ok && tv.IsType() && len(x.Args) == 1 {
									if bt, ok := tv.Type.Underlying().(*types.Basic); ok && bt.Kind() == types.Uintptr {
										if at, ok := info.Types[x.Args[0]]; ok && at.Type != nil {
											if ab, ok := at.Type.Underlying().(*types.Basic); ok && ab.Kind() == types.UnsafePointer {
												reuses = append(reuses, simpleSite{rel, fn, normText(x)})
											}
										}
									}
								}
							case *ast.BasicLit:
								if x.Kind == token.STRING && strings.Contains(x.Value, "%p") {
									reuses = append(reuses, simpleSite{rel, fn, "format verb %p in " + x.Value})
								}
							case *ast.SelectorExpr:
								if k := ctx.fieldKey(x); k != "" {
									use, callee, cpkg := "read", "", ""
									if lhsOf[ast.Expr(x)] {
										use = "write"
									} else if len(parents) > 0 {
										switch p := parents[len(parents)-1].(type) {
										case *ast.CallExpr:
											if p.Fun != ast.Expr(x) {
												use = "arg"
												callee = normText(p.Fun)
												if f := ctx.calleeFunc(p); f != nil && f.Pkg() != nil {
													cpkg = f.Pkg().Path()
												}
											}
										}
									}
									st := ""
									for i := len(parents) - 1; i >= 0; i-- {
										if s2, ok := parents[i].(ast.Stmt); ok {
											if _, isBlk := s2.(*ast.BlockStmt); !isBlk {
												st = normText(s2)
												break
											}
										}
									}
									allReads = append(allReads, fieldRead{field: k, file: rel, fn: fn, use: use, callee: callee, pkg: cpkg, stmt: st})
								}
							}
							parents = append(parents, nd)
							return true
						})
					}
				}
			}
		}
	}
	scan(dirs)

	// the simulator's dependency Akita (engine, ports, memory system, tracing, …): the packages the
	// runner links, scanned the same way; their sites are listed separately (audited, not modelled)
	simMaps, simClocks, simGos, simSelects, simStr, simReads := maps, clocks, gos, selects, strOrders, allReads
	simReuses := reuses
	maps, clocks, gos, selects, strOrders, allReads = nil, nil, nil, nil, nil, nil
	listCmd := exec.Command("go", "list", "-f", "{{.ImportPath}} {{.Dir}}", "-deps", "github.com/sarchlab/mgpusim/v4/amd/samples/runner")
	listCmd.Dir = root
	listOut, err := listCmd.Output()
	if err != nil {
		fatalf("sites: cannot list the packages the runner links (go list -deps): %v", err)
	}
	var depDirs []string
	depPrefix := ""
	for _, ln := range strings.Split(string(listOut), "\n") {
		f := strings.Fields(ln)
		if len(f) == 2 && strings.HasPrefix(f[0], "github.com/sarchlab/akita/") {
			depDirs = append(depDirs, f[1])
			if k := strings.Index(f[1], "github.com/sarchlab/akita/"); k >= 0 {
				depPrefix = f[1][:k]
			}
		}
	}
	if len(depDirs) == 0 {
		fatalf("sites: go list found no Akita package among the runner's dependencies")
	}
	sort.Strings(depDirs)
	scan(depDirs)
	depMaps, depClocks, depGos := maps, clocks, gos
	maps, clocks, gos, selects, strOrders, allReads = simMaps, simClocks, simGos, simSelects, simStr, simReads
	reuses = simReuses
	depName := func(file string) string {
		abs := file
		if !filepath.IsAbs(abs) {
			abs = filepath.Join(root, file)
		}
		return strings.TrimPrefix(filepath.Clean(abs), depPrefix)
	}
	// reads of the fields that receive a wall-clock / random value, when the field is declared
	// in a simulator package (fields of Akita types — message ids — are classified as a whole)
	tainted := map[string]bool{}
	for _, cs := range clocks {
		if cs.kind == "field" {
			tainted[cs.consumer] = true
		}
	}
	for _, rd := range allReads {
		if tainted[rd.field] && rd.use != "write" && !strings.HasPrefix(rd.field, "sim.") && !strings.HasPrefix(rd.field, "mem.") {
			reads = append(reads, rd)
		}
	}

	orderFields := map[string]bool{}
	for _, m := range maps {
		for _, f := range m.fieldsWritten {
			orderFields[f] = true
		}
	}
	var orderUses []fieldRead
	for _, rd := range allReads {
		if orderFields[rd.field] {
			orderUses = append(orderUses, rd)
		}
	}

	var b strings.Builder
	b.WriteString("-- GENERATED by /verif/translate (sites) from the simulator packages under amd/; do not edit\nnamespace Gen\n\n")
	b.WriteString(`/-- one ` + "`range`" + ` over a map (or other enumeration of a map): where it is, what the loop is
    (normalised source, the statements after it that use what it wrote, same-package callees) and
    ` + "`hash`" + ` over all of that — an edit of the loop, of the sort that follows it or of a callee changes it -/
structure MapSite where
  file : String
  fn : String
  operand : String
  key : String
  val : String
  hash : String
  body : String
  context : String
  writes : List String
  locals : List String
  calls : List String
  exits : List String
  callees : List String
  fieldsWritten : List String
deriving Repr, DecidableEq

/-- one use of a wall-clock / random / per-process source and what consumes the value -/
structure ClockSite where
  file : String
  fn : String
  what : String
  kind : String
  consumer : String
  stmt : String
deriving Repr, DecidableEq

/-- one ` + "`go`" + ` statement: the started function's source hash and its synchronisation skeleton,
    a list of (operation, argument): lock / unlock / defer-unlock m, write field, recv / send channel,
    call / go / defer-call function, open block-kind, close, term return|continue|break -/
structure GoSite where
  file : String
  fn : String
  started : String
  hash : String
  skeleton : List (String × String)
deriving Repr, DecidableEq

/-- one use of a struct field -/
structure FieldUse where
  field : String
  file : String
  fn : String
  use : String
  callee : String
  calleePkg : String
  stmt : String
deriving Repr, DecidableEq

`)
	fmt.Fprintf(&b, "def mapSiteInfos : List MapSite := [\n")
	for i, s := range maps {
		sep := ","
		if i == len(maps)-1 {
			sep = ""
		}
		fmt.Fprintf(&b, "  { file := %s, fn := %s, operand := %s, key := %s, val := %s,\n    hash := %s,\n    body := %s,\n    context := %s,\n    writes := %s, locals := %s, calls := %s, exits := %s, callees := %s, fieldsWritten := %s }%s\n",
			leanStr(s.file), leanStr(s.fn), leanStr(s.operand), leanStr(s.key), leanStr(s.val), leanStr(s.hash), leanStr(s.body), leanStr(s.context),
			leanStrList(s.writes), leanStrList(s.locals), leanStrList(s.calls), leanStrList(s.exits), leanStrList(s.callees), leanStrList(s.fieldsWritten), sep)
	}
	b.WriteString("]\n\n")
	b.WriteString("/-- every `range` whose operand has map type: (file, enclosing function, operand) -/\ndef mapSites : List (String × String × String) := mapSiteInfos.map fun s => (s.file, s.fn, s.operand)\n\n")

	fmt.Fprintf(&b, "def clockSiteInfos : List ClockSite := [\n")
	for i, s := range clocks {
		sep := ","
		if i == len(clocks)-1 {
			sep = ""
		}
		fmt.Fprintf(&b, "  { file := %s, fn := %s, what := %s, kind := %s, consumer := %s,\n    stmt := %s }%s\n",
			leanStr(s.file), leanStr(s.fn), leanStr(s.what), leanStr(s.kind), leanStr(s.consumer), leanStr(s.stmt), sep)
	}
	b.WriteString("]\n\n")
	b.WriteString("/-- every use of a wall-clock, random or per-process source: (file, function or `import`, what) -/\ndef clockSites : List (String × String × String) := clockSiteInfos.map fun s => (s.file, s.fn, s.what)\n\n")

	fmt.Fprintf(&b, "/-- every read of a simulator-declared field that receives such a value: `use` is read | write | arg (then `callee` / `calleePkg` say of which call) -/\ndef taintedFieldReads : List FieldUse := [\n")
	for i, s := range reads {
		sep := ","
		if i == len(reads)-1 {
			sep = ""
		}
		fmt.Fprintf(&b, "  { field := %s, file := %s, fn := %s, use := %s, callee := %s, calleePkg := %s,\n    stmt := %s }%s\n", leanStr(s.field), leanStr(s.file), leanStr(s.fn), leanStr(s.use), leanStr(s.callee), leanStr(s.pkg), leanStr(s.stmt), sep)
	}
	b.WriteString("]\n\n")

	fmt.Fprintf(&b, "/-- every use (read, write, argument) of a struct field that a map loop (or a function it calls) assigns — the only places where the iteration order could be carried on: `use` is read | write | arg (then `callee` / `calleePkg` say of which call) -/\ndef orderFieldUses : List FieldUse := [\n")
	for i, s := range orderUses {
		sep := ","
		if i == len(orderUses)-1 {
			sep = ""
		}
		fmt.Fprintf(&b, "  { field := %s, file := %s, fn := %s, use := %s, callee := %s, calleePkg := %s,\n    stmt := %s }%s\n", leanStr(s.field), leanStr(s.file), leanStr(s.fn), leanStr(s.use), leanStr(s.callee), leanStr(s.pkg), leanStr(s.stmt), sep)
	}
	b.WriteString("]\n\n")

	fmt.Fprintf(&b, "def goSiteInfos : List GoSite := [\n")
	for i, s := range gos {
		sep := ","
		if i == len(gos)-1 {
			sep = ""
		}
		fmt.Fprintf(&b, "  { file := %s, fn := %s, started := %s, hash := %s,\n    skeleton := %s }%s\n",
			leanStr(s.file), leanStr(s.fn), leanStr(s.started), leanStr(s.hash), leanPairList(s.skeleton), sep)
	}
	b.WriteString("]\n\n")
	b.WriteString("/-- every `go` statement: (file, enclosing function, started function) -/\ndef goSites : List (String × String × String) := goSiteInfos.map fun s => (s.file, s.fn, s.started)\n\n")

	emit := func(name, doc string, l []simpleSite) {
		fmt.Fprintf(&b, "/-- %s -/\ndef %s : List (String × String × String) := [\n", doc, name)
		for i, s := range l {
			sep := ","
			if i == len(l)-1 {
				sep = ""
			}
			fmt.Fprintf(&b, "  (%s, %s, %s)%s\n", leanStr(s.file), leanStr(s.fn), leanStr(s.what), sep)
		}
		b.WriteString("]\n\n")
	}
	fmt.Fprintf(&b, "/-- map iteration in the Akita packages the runner links: (file, function, operand, source hash) -/\ndef depMapSites : List (String × String × String × String) := [\n")
	for i, s := range depMaps {
		sep := ","
		if i == len(depMaps)-1 {
			sep = ""
		}
		fmt.Fprintf(&b, "  (%s, %s, %s, %s)%s\n", leanStr(depName(s.file)), leanStr(s.fn), leanStr(s.operand), leanStr(s.hash), sep)
	}
	b.WriteString("]\n\n")
	fmt.Fprintf(&b, "/-- wall-clock / random / per-process sources in those packages: (file, function, what, consumer kind, consumer) -/\ndef depClockSites : List (String × String × String × String × String) := [\n")
	for i, s := range depClocks {
		sep := ","
		if i == len(depClocks)-1 {
			sep = ""
		}
		fmt.Fprintf(&b, "  (%s, %s, %s, %s, %s)%s\n", leanStr(depName(s.file)), leanStr(s.fn), leanStr(s.what), leanStr(s.kind), leanStr(s.consumer), sep)
	}
	b.WriteString("]\n\n")
	fmt.Fprintf(&b, "/-- `go` statements in those packages: (file, function, started) -/\ndef depGoSites : List (String × String × String) := [\n")
	for i, s := range depGos {
		sep := ","
		if i == len(depGos)-1 {
			sep = ""
		}
		fmt.Fprintf(&b, "  (%s, %s, %s)%s\n", leanStr(depName(s.file)), leanStr(s.fn), leanStr(s.started), sep)
	}
	b.WriteString("]\n\n")

	emit("selectSites", "every `select` with at least two communications (Go picks among ready ones at random): (file, function, cases)", selects)
	emit("reuseSites", "every recycling of objects (sync.Pool), finalizer, and address used as a value (uintptr(unsafe.Pointer), reflect pointers) — `%p` verbs in format strings included: (file, function, expression)", reuses)
	emit("stringOrderSites", "every ordering of strings (`<` on strings, sort.Strings, strings.Compare): (file, function, expression)", strOrders)
	b.WriteString("end Gen\n")
	writeIfChanged("Sites.lean", b.String())
	fmt.Printf("NOTE sites: %d map ranges, %d clock/random uses, %d go statements, %d multi-way selects, %d string orderings in %d simulator directories; %d / %d / %d in %d linked Akita packages\n",
		len(maps), len(clocks), len(gos), len(selects), len(strOrders), len(dirs), len(depMaps), len(depClocks), len(depGos), len(depDirs))
}
