package main

import (
	"fmt"
	"go/ast"
	"go/parser"
	"go/token"
	"os/exec"
	"path/filepath"
	"strings"
)

// genC05 (property C05) reads the straight-line parts of the code that decides the ORDER in which
// simulation events are handled and the hand-off between the application thread and the engine:
//
//   - Akita sim/eventqueue.go: the comparison operator of eventHeap.Less;
//   - Akita sim/serialengine.go: the operators of the two "event in the past" guards (Schedule,
//     Run) and of the primary/secondary tie rule of nextEvent;
//   - Akita sim/ticker.go: the operators of the "a tick is already scheduled" guards of TickLater /
//     TickNow;
//   - Akita sim/parallelengine.go: the tie rule of determineWhatToRun, the "belongs to this round"
//     test of runEventsUntilConflict;
//   - GOROOT container/heap/heap.go: the parent / child index formulas of up and down;
//   - a hash of the normalised source of every function the Lean models C05.Eng / C05.Par / C05.T
//     (through C12.step) transcribe by hand.
//
// MgpuProofs/Props/C05Engine.lean proves that the operators are the ones the theorems are about and
// that the formulas are the ones the model uses; a changed operator or formula breaks a proof
// obligation, not only the sampled correspondence. Unknown shapes are refused.
func init() { extraGens = append(extraGens, gen{"c05", genC05}) }

type c05File struct {
	rel  string
	fset *token.FileSet
	f    *ast.File
}

func c05Parse(abs, rel string) *c05File {
	fset := token.NewFileSet()
	f, err := parser.ParseFile(fset, abs, nil, 0)
	if err != nil {
		fatalf("c05: parse %s: %v", abs, err)
	}
	return &c05File{rel: rel, fset: fset, f: f}
}

func c05RecvName(fd *ast.FuncDecl) string {
	if fd.Recv == nil || len(fd.Recv.List) == 0 {
		return ""
	}
	t := fd.Recv.List[0].Type
	if s, ok := t.(*ast.StarExpr); ok {
		t = s.X
	}
	if id, ok := t.(*ast.Ident); ok {
		return id.Name
	}
	return "?"
}

// fn finds `Recv.Name` (or a plain function when there is no dot).
func (c *c05File) fn(name string) *ast.FuncDecl {
	recv, meth := "", name
	if i := strings.Index(name, "."); i >= 0 {
		recv, meth = name[:i], name[i+1:]
	}
	for _, d := range c.f.Decls {
		if fd, ok := d.(*ast.FuncDecl); ok && fd.Name.Name == meth && c05RecvName(fd) == recv && fd.Body != nil {
			return fd
		}
	}
	fatalf("c05: function %s not found in %s", name, c.rel)
	return nil
}

func c05Text(n ast.Node) string { return strings.Join(strings.Fields(nodeString(n)), " ") }

var c05CmpOps = map[token.Token]bool{token.LSS: true, token.LEQ: true, token.GTR: true, token.GEQ: true, token.EQL: true, token.NEQ: true}

// cmpOf returns the operator of the unique comparison `x OP y` inside fd whose operands have the
// given normalised texts.
func (c *c05File) cmpOf(fd *ast.FuncDecl, x, y string) string {
	found := c.cmpAll(fd, x, y)
	if len(found) != 1 {
		fatalf("c05: %s %s: expected exactly one comparison `%s OP %s`, found %d", c.rel, fd.Name.Name, x, y, len(found))
	}
	return found[0]
}

// cmpAll returns the operators of all comparisons `x OP y` inside fd, in source order.
func (c *c05File) cmpAll(fd *ast.FuncDecl, x, y string) []string {
	var found []string
	ast.Inspect(fd.Body, func(n ast.Node) bool {
		if b, ok := n.(*ast.BinaryExpr); ok && c05CmpOps[b.Op] && c05Text(b.X) == x && c05Text(b.Y) == y {
			found = append(found, b.Op.String())
		}
		return true
	})
	return found
}

// leanNatExpr renders an integer expression over one variable as a Lean Nat term.
func c05LeanNat(e ast.Expr, v string) string {
	switch x := e.(type) {
	case *ast.BasicLit:
		if x.Kind == token.INT {
			return x.Value
		}
	case *ast.Ident:
		if x.Name == v {
			return v
		}
	case *ast.ParenExpr:
		return "(" + c05LeanNat(x.X, v) + ")"
	case *ast.BinaryExpr:
		switch x.Op {
		case token.ADD, token.SUB, token.MUL, token.QUO:
			return c05LeanNat(x.X, v) + " " + x.Op.String() + " " + c05LeanNat(x.Y, v)
		}
	}
	fatalf("c05: index formula %q over %s has an unsupported shape", c05Text(e), v)
	return ""
}

// defOf returns the right-hand side of the unique `name := expr` inside fd.
func (c *c05File) defOf(fd *ast.FuncDecl, name string) ast.Expr {
	var found []ast.Expr
	ast.Inspect(fd.Body, func(n ast.Node) bool {
		if a, ok := n.(*ast.AssignStmt); ok && a.Tok == token.DEFINE && len(a.Lhs) == 1 && len(a.Rhs) == 1 {
			if id, ok := a.Lhs[0].(*ast.Ident); ok && id.Name == name {
				found = append(found, a.Rhs[0])
			}
		}
		return true
	})
	if len(found) != 1 {
		fatalf("c05: %s %s: expected exactly one definition of %s, found %d", c.rel, fd.Name.Name, name, len(found))
	}
	return found[0]
}

func c05GoList(root, format, pkg string) string {
	cmd := exec.Command("go", "list", "-f", format, pkg)
	cmd.Dir = root
	out, err := cmd.Output()
	if err != nil {
		fatalf("c05: go list %s: %v", pkg, err)
	}
	return strings.TrimSpace(string(out))
}

func genC05() {
	root, _ := filepath.Abs(*repo)
	simDir := c05GoList(root, "{{.Dir}}", "github.com/sarchlab/akita/v4/sim")
	heapDir := c05GoList(root, "{{.Dir}}", "container/heap")
	evq := c05Parse(filepath.Join(simDir, "eventqueue.go"), "akita/sim/eventqueue.go")
	ser := c05Parse(filepath.Join(simDir, "serialengine.go"), "akita/sim/serialengine.go")
	par := c05Parse(filepath.Join(simDir, "parallelengine.go"), "akita/sim/parallelengine.go")
	tick := c05Parse(filepath.Join(simDir, "ticker.go"), "akita/sim/ticker.go")
	heap := c05Parse(filepath.Join(heapDir, "heap.go"), "container/heap/heap.go")
	drv := c05Parse(filepath.Join(root, "amd/driver/driver.go"), "amd/driver/driver.go")
	api := c05Parse(filepath.Join(root, "amd/driver/api.go"), "amd/driver/api.go")
	cq := c05Parse(filepath.Join(root, "amd/driver/commandqueue.go"), "amd/driver/commandqueue.go")

	var b strings.Builder
	b.WriteString("-- GENERATED by translate/c05.go from the Akita, Go runtime and mgpusim sources. Do not edit.\n")
	b.WriteString("namespace Gen\nnamespace C05Engine\n\n")
	op := func(name, doc, v string) {
		fmt.Fprintf(&b, "/-- %s -/\ndef %s : String := %s\n", doc, name, leanStr(v))
	}
	op("eventHeapLess", "`sim.eventHeap.Less`: `h[i].Time() OP h[j].Time()`",
		evq.cmpOf(evq.fn("eventHeap.Less"), "h[i].Time()", "h[j].Time()"))
	op("scheduleReject", "`SerialEngine.Schedule`: `if evt.Time() OP now { log.Panic }`",
		ser.cmpOf(ser.fn("SerialEngine.Schedule"), "evt.Time()", "now"))
	op("runReject", "`SerialEngine.Run`: `if evt.Time() OP now { log.Panicf }`",
		ser.cmpOf(ser.fn("SerialEngine.Run"), "evt.Time()", "now"))
	op("nextEventPrimaryFirst", "`SerialEngine.nextEvent`: `if primaryEvt.Time() OP secondaryEvt.Time()` pops the primary queue",
		ser.cmpOf(ser.fn("SerialEngine.nextEvent"), "primaryEvt.Time()", "secondaryEvt.Time()"))
	op("tickLaterKeep", "`TickScheduler.TickLater`: `if t.nextTickTime OP time { return }`",
		tick.cmpOf(tick.fn("TickScheduler.TickLater"), "t.nextTickTime", "time"))
	op("tickNowKeep", "`TickScheduler.TickNow`: `if t.nextTickTime OP time { return }`",
		tick.cmpOf(tick.fn("TickScheduler.TickNow"), "t.nextTickTime", "time"))
	op("parPrimaryFirst", "`ParallelEngine.determineWhatToRun`: `if primaryTime OP secondaryTime` runs a primary round",
		par.cmpOf(par.fn("ParallelEngine.determineWhatToRun"), "primaryTime", "secondaryTime"))
	inRound := par.cmpAll(par.fn("ParallelEngine.runEventsUntilConflict"), "evt.Time()", "now")
	if len(inRound) != 2 {
		fatalf("c05: ParallelEngine.runEventsUntilConflict: expected two comparisons of evt.Time() with now, found %d", len(inRound))
	}
	op("parInRound", "`ParallelEngine.runEventsUntilConflict`: `if evt.Time() OP now` the event belongs to the round", inRound[0])
	op("parPast", "`ParallelEngine.runEventsUntilConflict`: `else if evt.Time() OP now { log.Panicf }`", inRound[1])
	op("parEarliest", "`ParallelEngine.earliestTimeInQueueGroup`: `if t OP earliestTime`",
		par.cmpOf(par.fn("ParallelEngine.earliestTimeInQueueGroup"), "t", "earliestTime"))
	op("heapUpStop", "`container/heap.up`: `if i OP j || !h.Less(j, i) { break }`",
		heap.cmpOf(heap.fn("up"), "i", "j"))
	op("heapDownStop", "`container/heap.down`: `if j1 OP n || j1 < 0 { break }`",
		heap.cmpOf(heap.fn("down"), "j1", "n"))
	op("heapRightExists", "`container/heap.down`: `j2 OP n && h.Less(j2, j1)`",
		heap.cmpOf(heap.fn("down"), "j2", "n"))
	b.WriteString("\n")
	fmt.Fprintf(&b, "/-- `container/heap.up`: `i := %s` -/\ndef heapParent (j : Nat) : Nat := %s\n",
		c05Text(heap.defOf(heap.fn("up"), "i")), c05LeanNat(heap.defOf(heap.fn("up"), "i"), "j"))
	fmt.Fprintf(&b, "/-- `container/heap.down`: `j1 := %s` -/\ndef heapLeft (i : Nat) : Nat := %s\n",
		c05Text(heap.defOf(heap.fn("down"), "j1")), c05LeanNat(heap.defOf(heap.fn("down"), "j1"), "i"))
	fmt.Fprintf(&b, "/-- `container/heap.down`: `j2 := %s` -/\ndef heapRight (j1 : Nat) : Nat := %s\n",
		c05Text(heap.defOf(heap.fn("down"), "j2")), c05LeanNat(heap.defOf(heap.fn("down"), "j2"), "j1"))
	fmt.Fprintf(&b, "/-- `container/heap.Pop`: `n := %s` with `l = h.Len()` -/\ndef heapLast (l : Nat) : Nat := %s\n",
		c05Text(heap.defOf(heap.fn("Pop"), "n")), strings.ReplaceAll(c05Text(heap.defOf(heap.fn("Pop"), "n")), "h.Len()", "l"))
	if c05Text(heap.defOf(heap.fn("Pop"), "n")) != "h.Len() - 1" {
		fatalf("c05: container/heap.Pop: n := %s (expected h.Len() - 1)", c05Text(heap.defOf(heap.fn("Pop"), "n")))
	}

	// hashes of the hand-transcribed functions
	type hf struct {
		c     *c05File
		names []string
	}
	b.WriteString("\n/-- (file, function, hash of the normalised source) of every function the models `C05.Eng`, `C05.Par`,\n    `C05.T` / `C12.step` transcribe by hand -/\ndef modelledFuncs : List (String × String × String) := [\n")
	var rows []string
	for _, h := range []hf{
		{evq, []string{"EventQueueImpl.Push", "EventQueueImpl.Pop", "EventQueueImpl.Len", "EventQueueImpl.Peek", "eventHeap.Len", "eventHeap.Less", "eventHeap.Swap", "eventHeap.Push", "eventHeap.Pop"}},
		{heap, []string{"Push", "Pop", "up", "down"}},
		{ser, []string{"SerialEngine.Schedule", "SerialEngine.Run", "SerialEngine.noMoreEvent", "SerialEngine.nextEvent", "SerialEngine.Pause", "SerialEngine.Continue", "SerialEngine.CurrentTime"}},
		{tick, []string{"TickScheduler.TickLater", "TickScheduler.TickNow", "TickingComponent.Handle", "TickingComponent.NotifyRecv", "TickingComponent.NotifyPortFree"}},
		{par, []string{"ParallelEngine.Schedule", "ParallelEngine.Run", "ParallelEngine.determineWhatToRun", "ParallelEngine.earliestTimeInQueueGroup", "ParallelEngine.runRound", "ParallelEngine.emptyQueueChan", "ParallelEngine.hasMoreEvents", "ParallelEngine.runEventsUntilConflict", "ParallelEngine.runEventWithTempWorker", "ParallelEngine.tempWorkerRun"}},
		{drv, []string{"Driver.Run", "Driver.Terminate", "Driver.runAsync", "Driver.runEngine"}},
		{api, []string{"Driver.DrainCommandQueue"}},
		{cq, []string{"CommandQueue.Subscribe", "CommandQueue.Unsubscribe", "CommandQueue.NotifyAllSubscribers", "CommandQueue.Enqueue", "CommandQueue.Dequeue", "CommandQueue.Peek", "CommandQueue.NumCommand", "Driver.Enqueue", "CommandQueueStatusListener.Notify", "CommandQueueStatusListener.Wait", "CommandQueueStatusListener.Close"}},
	} {
		for _, n := range h.names {
			fd := h.c.fn(n)
			rows = append(rows, fmt.Sprintf("  (%s, %s, %s)", leanStr(h.c.rel), leanStr(n), leanStr(hash16(c05Text(fd)))))
		}
	}
	b.WriteString(strings.Join(rows, ",\n"))
	b.WriteString("]\n\nend C05Engine\nend Gen\n")
	writeIfChanged("C05Engine.lean", b.String())
}
