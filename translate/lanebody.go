package main

// C06 — lane bodies of the straight-line integer vector handlers -> Lean (`Gen/LaneBodies.lean`).
//
// For every vector handler record of lanes.go this file decides, from the type-checked source, one of
//   * translated: the function is `[prologue] for i := 0; i < 64; i++ { guard; BODY } [sink]` (possibly
//     under `if inst.IsSdwa {…} else {…}` with a `log.Panicf` arm); BODY — assignments, if/else, switch,
//     WriteOperand(inst.Dst, i, ·), updates of the mask accumulator — is translated LITERALLY with the
//     expression translator of alu.go into `raw_<arch>_<name> : Uni → RawIn → RawOut` (the loop variable,
//     the 64-bit VCC value and the 64-bit accumulator are inputs; nothing is pattern-matched);
//   * a documented category that is outside the translated subset and stays covered by the syntactic
//     fit + the extensional test only: float (any float32/float64 value or a math.* call), memory
//     (LDS / storageAccessor / ReadOperandBytes / WriteOperandBytes), helper (per-lane address helper
//     with a laneID parameter), innerLoop (a loop inside the lane loop), crossLane (v_readfirstlane),
//     noLaneCode (no loop and no operand access), wrapper (only calls other handlers with `state`).
// A handler in none of the categories that does not translate is a REFUSAL (exit 1): the translator
// never guesses.

import (
	"fmt"
	"go/ast"
	"go/constant"
	"go/token"
	"go/types"
	"math"
	"os"
	"path/filepath"
	"sort"
	"strings"
)

type lbLeaf struct {
	fault   bool
	guard   string
	accInit string
	sink    string
	usesVCC bool
	usesS2  bool
	accVar  string
	raw     string
	inexact bool // uses a float operation whose Lean stand-in is not bit-exact, or a field the case line does not carry
	partial bool // calls a helper with a data-dependent panic path
}

type lbTree struct {
	cond string
	a, b *lbTree
	leaf *lbLeaf
}

type lbResult struct {
	arch, name, file string
	line             int
	cov              string // translated | wrapper | float | memory | helper | innerLoop | crossLane | noLaneCode
	callees          []string
	guard            string
	accInit          string
	msrc             string
	sink             string
	ok               string
	raw              string
	inexact          bool
	partial          bool
	setVCC           string // noLane: the constant handed to SetVCC ("none" when there is no write)
}

type lbArch struct {
	name        string
	path        string
	info        *types.Info
	fset        *token.FileSet
	funcs       map[string]*ast.FuncDecl // methods and package-level functions by name
	fnFile      map[string]string
	pure        map[string]string // translated pure helpers: lean name -> definition text
	pureOrder   []string
	emu         *lbArch // the arch whose package is amd/emu (helpers called as emu.F from cdna3)
	pureInexact map[string]bool
	purePartial map[string]bool // helpers with a data-dependent panic path (the path yields zero in the model)
}

var lbInstFields = map[string][2]string{ // Go field -> (Lean field, Lean type)
	"IsSdwa": {"u.isSdwa", "Bool"}, "Clamp": {"u.clamp", "Bool"},
	"Abs": {"u.abs", "BitVec 64"}, "Neg": {"u.neg", "BitVec 64"}, "Omod": {"u.omod", "BitVec 64"},
	"Src0Sel": {"u.src0Sel", "BitVec 32"}, "Src1Sel": {"u.src1Sel", "BitVec 32"}, "DstSel": {"u.dstSel", "BitVec 32"},
	"DstUnused": {"u.dstUnused", "BitVec 8"},
	"OpSel":     {"u.opSel", "BitVec 64"}, "OpSelHi": {"u.opSelHi", "BitVec 64"},
	"Src0Neg": {"u.src0Neg", "Bool"}, "Src1Neg": {"u.src1Neg", "Bool"}, "Src2Neg": {"u.src2Neg", "Bool"},
	"Src0Abs": {"u.src0Abs", "Bool"}, "Src1Abs": {"u.src1Abs", "Bool"}, "Src2Abs": {"u.src2Abs", "Bool"},
}

// instruction fields the `c06 body` case line carries
var lbCaseLineFields = map[string]bool{"IsSdwa": true, "Clamp": true, "Abs": true, "Neg": true, "Omod": true, "Src0Sel": true,
	"Src1Sel": true, "DstSel": true, "DstUnused": true}

var lbOperandField = map[string]string{"inst.Src0": "r.src0", "inst.Src1": "r.src1", "inst.Src2": "r.src2", "inst.Dst": "r.dstOld"}

const lbLoopVarLean = "(BitVec.ofNat 64 r.i)"

// ---------------------------------------------------------------- categories

// every method of the DS / FLAT files is a memory handler or one of its address helpers
var lbMemoryFiles = map[string]bool{"aluds.go": true, "alu_flat.go": true, "ds.go": true, "flat.go": true}

func lbIsFloat(ty types.Type) bool {
	if ty == nil {
		return false
	}
	b, ok := ty.Underlying().(*types.Basic)
	return ok && b.Info()&(types.IsFloat|types.IsComplex) != 0
}

// lbCategory returns "" when the function has to be translated.
func (a *lbArch) category(fd *ast.FuncDecl, h *lfHandler) (string, []string) {
	if h.name == "runVREADFIRSTLANEB32" {
		return "crossLane", nil
	}
	if h.laneParam != "" {
		if lbMemoryFiles[filepath.Base(h.file)] {
			return "helper", nil
		}
		return "operandRead", nil // a per-lane operand read wrapper of the ALU files (readF64)
	}
	float, mem, inner, lib := false, false, false, false
	var callees []string
	seen := map[string]bool{}
	var scan func(body *ast.BlockStmt, top bool)
	scan = func(body *ast.BlockStmt, top bool) {
		ast.Inspect(body, func(n ast.Node) bool {
			switch x := n.(type) {
			case ast.Expr:
				if lbIsFloat(a.info.TypeOf(x)) {
					float = true
				}
				if _, ok := x.(*ast.CompositeLit); ok {
					lib = true
				}
				if ce, ok := x.(*ast.CallExpr); ok {
					name := types.ExprString(ce.Fun)
					if strings.HasPrefix(name, "sort.") {
						lib = true
					}
					// helpers of the same package: what they use counts for the caller
					if g, ok := a.funcs[strings.TrimPrefix(name, "u.")]; ok && !seen[g.Name.Name] && !stateParam(g) {
						seen[g.Name.Name] = true
						scan(g.Body, false)
					}
					if !top {
						return true
					}
					if strings.HasPrefix(name, "math.") && !strings.HasPrefix(name, "math.Max") && !strings.HasPrefix(name, "math.Min") {
						float = true
					}
					if strings.HasPrefix(name, "u.storageAccessor.") || name == "u.LDS" || name == "state.ReadOperandBytes" || name == "state.WriteOperandBytes" {
						mem = true
					}
					if strings.HasPrefix(name, "u.") {
						for _, arg := range ce.Args {
							if id, ok := arg.(*ast.Ident); ok && id.Name == "state" {
								callees = append(callees, strings.TrimPrefix(name, "u."))
							}
						}
					}
				}
				if se, ok := x.(*ast.SelectorExpr); ok && types.ExprString(se) == "u.lds" {
					mem = true
				}
			}
			return true
		})
	}
	scan(fd.Body, true)
	if lbMemoryFiles[filepath.Base(h.file)] {
		mem = true
	}
	// a loop nested in the lane loop
	ast.Inspect(fd.Body, func(n ast.Node) bool {
		if fs, ok := n.(*ast.ForStmt); ok {
			ast.Inspect(fs.Body, func(m ast.Node) bool {
				switch m.(type) {
				case *ast.ForStmt, *ast.RangeStmt:
					inner = true
				}
				return true
			})
			return false
		}
		return true
	})
	switch {
	case mem || h.ldsIn+h.ldsOut+h.memIn+h.memOut > 0:
		return "memory", nil
	case float:
		return "float", nil
	case len(callees) > 0:
		if len(h.loops) != 0 || len(h.uses) != 0 {
			fatalf("lanebody: %s %s (%s:%d): calls other handlers with `state` AND has its own lane code (unknown shape)", h.arch, h.name, h.file, h.line)
		}
		return "wrapper", callees
	case lib:
		return "library", nil
	case inner:
		return "innerLoop", nil
	case len(h.loops) == 0 && len(h.uses) == 0:
		return "noLaneCode", nil
	}
	return "", nil
}

// ---------------------------------------------------------------- statements

type lbCtx struct {
	a       *lbArch
	t       *aluTr
	pos     func(ast.Node) string
	mode    string // "lane" | "pure"
	loopVar string
	accVar  string
	immut   map[string]bool // outer variables a lane body must not assign
	leaf    *lbLeaf
	named   []string // named results of a pure helper
	mem     *lmCtx   // memory bodies (lanemem.go)
	memPure bool     // translating flatAddrWithScalar: the lane's address operand is a parameter
	// inner loops (second deepening): inside the body of a `for` with constant bounds nested in the lane loop
	// (or in a pure helper) `break` / `continue` / the end of the body yield the loop state
	innerFinish func(env map[string]string, ind string, brk bool) string
	inUnrolled  int      // inside an unrolled `range` over an array literal: break / continue are refused
	retZero     string   // pure helper: the zero value of its result (what a path that panics returns)
	partial     bool     // the helper / body has a data-dependent `log.Panic` path that is not modelled
	loopRange   map[string][2]int // inner loop variables (never assigned in the body) with their constant range
}

// lbCont is a synthetic last statement of a statement list: the continuation of an inner loop iteration
type lbCont struct {
	*ast.EmptyStmt
	run func(env map[string]string, ind string) string
}

func (c *lbCtx) fail(n ast.Node, f string, args ...any) string { return c.t.fail(n, f, args...) }

func (c *lbCtx) hooks() {
	c.t.exprHook = func(e ast.Expr, env map[string]string) (string, bool) {
		if s, ok := c.deepExpr(e, env); ok {
			return s, true
		}
		return c.floatHook(e, env)
	}
	c.t.shiftOK = func(e ast.Expr) bool {
		lo, _, ok := c.interval(e)
		return ok && lo >= 0
	}
	c.t.selHook = func(e *ast.SelectorExpr, env map[string]string) (string, bool) {
		if id, ok := e.X.(*ast.Ident); ok && id.Name == "inst" {
			if f, ok := lbInstFields[e.Sel.Name]; ok {
				if !lbCaseLineFields[e.Sel.Name] {
					c.leaf.inexact = true
				}
				return f[0], true
			}
			return c.fail(e, "instruction field inst.%s is not in the uniform record", e.Sel.Name), true
		}
		return "", false
	}
	c.t.callHook = func(e *ast.CallExpr, env map[string]string) (string, bool) {
		if tv, ok := c.t.info.Types[e.Fun]; ok && tv.IsType() {
			return "", false
		}
		name := types.ExprString(e.Fun)
		switch {
		case name == "state.ReadOperand":
			if c.mode == "uniform" && types.ExprString(e.Args[0]) == "inst.Src2" && types.ExprString(e.Args[1]) == "0" {
				c.leaf.inexact = true
				return "u.k2", true // the literal K of v_madak_f32 / v_fmamk_f32 / v_fmaak_f32 (a LiteralConstant operand)
			}
			if c.mode != "lane" {
				return c.fail(e, "operand read outside a lane body"), true
			}
			f, ok := lbOperandField[types.ExprString(e.Args[0])]
			if id, isId := e.Args[1].(*ast.Ident); !ok || !isId || id.Name != c.loopVar {
				return c.fail(e, "ReadOperand(%s, %s): not (inst.Src0|Src1|Src2|Dst, loop variable)", types.ExprString(e.Args[0]), types.ExprString(e.Args[1])), true
			}
			if f == "r.dstOld" {
				if _, w := env["$dst"]; w {
					return c.fail(e, "destination read after it was written"), true
				}
			}
			if f == "r.src2" {
				c.leaf.usesS2 = true
			}
			return f, true
		case name == "u.readF64" && len(e.Args) == 3 && types.ExprString(e.Args[0]) == "state":
			// the operand read of the double-precision handlers: ReadOperand, except that an inline float constant
			// yields its binary64 encoding — still "what the handler's read of this operand returns for lane i"
			f, ok := lbOperandField[types.ExprString(e.Args[1])]
			if id, isId := e.Args[2].(*ast.Ident); c.mode != "lane" || !ok || f == "r.dstOld" || !isId || id.Name != c.loopVar {
				return c.fail(e, "readF64(%s, %s): not (inst.Src0|Src1|Src2, loop variable)", types.ExprString(e.Args[1]), types.ExprString(e.Args[2])), true
			}
			if f == "r.src2" {
				c.leaf.usesS2 = true
			}
			c.leaf.inexact = true // the case line carries ReadOperand values
			return f, true
		case name == "state.VCC":
			if c.mode != "lane" {
				return c.fail(e, "state.VCC() outside a lane body"), true
			}
			c.leaf.usesVCC = true
			return "r.vcc", true
		case strings.HasPrefix(name, "state."):
			return c.fail(e, "call of %s in an expression", name), true
		case name == "bitops.ExtractBitsFromU64" || name == "bitops.ExtractBitsFromU32" || name == "bitops.SignExt":
			lean := map[string]string{"bitops.ExtractBitsFromU64": "C06.Go.extractBitsU64", "bitops.ExtractBitsFromU32": "C06.Go.extractBitsU32", "bitops.SignExt": "C06.Go.signExt"}[name]
			args := []string{}
			for k, arg := range e.Args {
				if k > 0 {
					if tv, ok := c.t.info.Types[arg]; !ok || tv.Value == nil {
						return c.fail(e, "%s with a non-constant bit position", name), true
					}
				}
				args = append(args, c.t.expr(arg, env))
			}
			return "(" + lean + " " + strings.Join(args, " ") + ")", true
		case aluReinterpret[name]:
			return "", false
		}
		// a pure helper of the same package: method `u.f(…)` or function `f(…)`; or `emu.F(…)` from cdna3
		fname := strings.TrimPrefix(name, "u.")
		owner := c.a
		if strings.HasPrefix(fname, "emu.") && c.a.emu != nil && c.a.emu != c.a {
			fname, owner = strings.TrimPrefix(fname, "emu."), c.a.emu
		}
		if fd, ok := owner.funcs[fname]; ok && !strings.Contains(fname, ".") {
			lean, err := owner.pureFunc(fd)
			if err != nil {
				return c.fail(e, "helper %s: %v", fname, err), true
			}
			if owner.pureInexact[lean] {
				c.leaf.inexact = true
			}
			if owner.purePartial[lean] {
				c.partial = true
				c.leaf.partial = true
			}
			args := []string{}
			k := 0
			for _, p := range fd.Type.Params.List {
				for range p.Names {
					if types.ExprString(p.Type) == "*insts.Inst" {
						args = append(args, "u")
					} else {
						arg := c.t.expr(e.Args[k], env)
						if strings.Contains(arg, ".toBits") {
							// the bits of a float go on into integer code: Lean's `toBits` canonicalises NaNs, Go keeps them
							c.leaf.inexact = true
						}
						args = append(args, arg)
					}
					k++
				}
			}
			return "(" + lean + " " + strings.Join(args, " ") + ")", true
		}
		return "", false
	}
}

func lbZero(ty string) string {
	switch ty {
	case "Bool":
		return "false"
	case "Float32", "Float":
		return "(" + ty + ".ofBits 0)"
	}
	return "(0#" + strings.TrimPrefix(ty, "BitVec ") + ")"
}

func lbLeanType(ty types.Type) (string, bool) {
	if k := lbFloatKind(ty); k != 0 {
		return lbFloatTy(k), true
	}
	w, _, ok := basicWS(ty)
	if !ok {
		return "", false
	}
	if w == 1 {
		return "Bool", true
	}
	return fmt.Sprintf("BitVec %d", w), true
}

// pureFunc translates a helper without side effects (basic integer parameters, optionally *insts.Inst).
func (a *lbArch) pureFunc(fd *ast.FuncDecl) (string, error) {
	lean := "fn_" + a.name + "_" + fd.Name.Name
	if _, ok := a.pure[lean]; ok {
		return lean, nil
	}
	if fd.Type.Results == nil || len(fd.Type.Results.List) == 0 {
		return "", fmt.Errorf("no result")
	}
	var rtys []string
	var named []string
	for _, rl := range fd.Type.Results.List {
		ty, ok := lbLeanType(a.info.TypeOf(rl.Type))
		if !ok {
			return "", fmt.Errorf("result type %s", types.ExprString(rl.Type))
		}
		if len(rl.Names) == 0 {
			rtys = append(rtys, ty)
		}
		for _, nm := range rl.Names {
			rtys = append(rtys, ty)
			named = append(named, nm.Name+":"+ty)
		}
	}
	rty := strings.Join(rtys, " × ")
	env := map[string]string{}
	var params []string
	for _, p := range fd.Type.Params.List {
		for _, nm := range p.Names {
			if types.ExprString(p.Type) == "*insts.Inst" {
				if nm.Name != "inst" {
					return "", fmt.Errorf("instruction parameter is not called inst")
				}
				params = append(params, "(u : Uni)")
				continue
			}
			if nm.Name == "state" {
				return "", fmt.Errorf("takes the emulation state")
			}
			pty, ok := lbLeanType(a.info.TypeOf(p.Type))
			if !ok {
				return "", fmt.Errorf("parameter %s of type %s", nm.Name, types.ExprString(p.Type))
			}
			env[nm.Name] = "p_" + nm.Name
			params = append(params, fmt.Sprintf("(p_%s : %s)", nm.Name, pty))
		}
	}
	a.pure[lean] = "" // recursion guard
	c := &lbCtx{a: a, t: &aluTr{info: a.info, fset: a.fset}, mode: "pure", leaf: &lbLeaf{}, immut: map[string]bool{}}
	c.hooks()
	{
		var zs []string
		for _, ty := range rtys {
			zs = append(zs, lbZero(ty))
		}
		c.retZero = zs[0]
		if len(zs) > 1 {
			c.retZero = "(" + strings.Join(zs, ", ") + ")"
		}
	}
	pre := ""
	for _, nt := range named { // named results start at zero
		nm, ty, _ := strings.Cut(nt, ":")
		val := lbZero(ty)
		env[nm] = nm + "_0"
		pre += fmt.Sprintf("  let %s_0 : %s := %s\n", nm, ty, val)
		c.named = append(c.named, nm)
	}
	body := pre + c.stmts(fd.Body.List, env, "  ")
	if c.t.err != nil {
		delete(a.pure, lean)
		return "", c.t.err
	}
	a.pure[lean] = fmt.Sprintf("/-- %s -/\ndef %s %s : %s :=\n%s\n\n", a.relPos(fd), lean, strings.Join(params, " "), rty, body)
	if a.pureInexact == nil {
		a.pureInexact = map[string]bool{}
	}
	a.pureInexact[lean] = c.leaf.inexact
	if c.partial {
		if a.purePartial == nil {
			a.purePartial = map[string]bool{}
		}
		a.purePartial[lean] = true
	}
	a.pureOrder = append(a.pureOrder, lean)
	return lean, nil
}

func (a *lbArch) relPos(n ast.Node) string {
	return strings.TrimPrefix(a.fset.Position(n.Pos()).String(), filepath.Clean(*repo)+"/")
}

func (c *lbCtx) finish(env map[string]string, ind string) string {
	if c.mode == "pure" {
		return "UNSUPPORTED-fallthrough"
	}
	if c.mode == "mem" {
		return c.memFinish(env, ind, false)
	}
	d, ok := env["$dst"]
	if !ok {
		d = "none"
	}
	acc := "r.acc"
	if c.accVar != "" {
		acc = env[c.accVar]
	}
	return fmt.Sprintf("%s{ dst := %s, acc := %s }", ind, d, acc)
}

var lbOpAssign = map[token.Token]token.Token{token.ADD_ASSIGN: token.ADD, token.SUB_ASSIGN: token.SUB, token.MUL_ASSIGN: token.MUL,
	token.AND_ASSIGN: token.AND, token.OR_ASSIGN: token.OR, token.XOR_ASSIGN: token.XOR, token.SHL_ASSIGN: token.SHL,
	token.SHR_ASSIGN: token.SHR, token.AND_NOT_ASSIGN: token.AND_NOT}

// stmts: continuation style (the rest of the list is duplicated into both arms of an if; bodies are tiny)
func (c *lbCtx) stmts(list []ast.Stmt, env map[string]string, ind string) string {
	t := c.t
	if len(list) == 0 {
		if c.mode == "pure" {
			return t.fail(&ast.BadStmt{}, "pure helper can fall off its end without a return")
		}
		return c.finish(env, ind)
	}
	s, rest := list[0], list[1:]
	if k, ok := s.(*lbCont); ok {
		return k.run(env, ind)
	}
	if out, ok := c.deepStmt(s, rest, env, ind); ok {
		return out
	}
	if c.mode == "mem" && c.mem != nil {
		if out, ok := c.mem.memStmt(s, rest, env, ind); ok {
			return out
		}
	}
	switch s := s.(type) {
	case *ast.EmptyStmt:
		return c.stmts(rest, env, ind)
	case *ast.BlockStmt:
		return t.fail(s, "nested block")
	case *ast.ReturnStmt:
		if c.mode != "pure" || (len(s.Results) == 0 && len(c.named) == 0) {
			return t.fail(s, "return inside a lane loop")
		}
		if c.innerFinish != nil {
			return t.fail(s, "return inside an inner for loop")
		}
		var rs []string
		for _, r := range s.Results {
			rs = append(rs, t.expr(r, env))
		}
		if len(s.Results) == 0 {
			for _, nm := range c.named {
				rs = append(rs, env[nm])
			}
		}
		if len(rs) == 1 {
			return ind + rs[0]
		}
		return ind + "(" + strings.Join(rs, ", ") + ")"
	case *ast.BranchStmt:
		if c.innerFinish != nil && s.Label == nil && c.inUnrolled == 0 && (s.Tok == token.CONTINUE || s.Tok == token.BREAK) {
			return c.innerFinish(env, ind, s.Tok == token.BREAK)
		}
		if c.inUnrolled > 0 {
			return t.fail(s, "%s inside an unrolled range loop", s.Tok)
		}
		if s.Tok == token.CONTINUE && s.Label == nil && (c.mode == "lane" || c.mode == "mem") {
			return c.finish(env, ind)
		}
		return t.fail(s, "%s", s.Tok)
	case *ast.IncDecStmt:
		op := token.ADD_ASSIGN
		if s.Tok == token.DEC {
			op = token.SUB_ASSIGN
		}
		one := &ast.BasicLit{Kind: token.INT, Value: "1"}
		w, _, ok := basicWS(t.info.TypeOf(s.X))
		if !ok || w == 1 {
			return t.fail(s, "++/-- on %v", t.info.TypeOf(s.X))
		}
		// the literal 1 has the variable's type
		t.info.Types[one] = types.TypeAndValue{Type: t.info.TypeOf(s.X), Value: constant.MakeInt64(1)}
		return c.stmts(append([]ast.Stmt{&ast.AssignStmt{Lhs: []ast.Expr{s.X}, Tok: op, Rhs: []ast.Expr{one}}}, rest...), env, ind)
	case *ast.AssignStmt:
		if len(s.Lhs) != 1 || len(s.Rhs) != 1 {
			return c.tupleAssign(s, rest, env, ind)
		}
		id, ok := s.Lhs[0].(*ast.Ident)
		if !ok {
			return t.fail(s, "assignment to %T", s.Lhs[0])
		}
		bop, isOp := lbOpAssign[s.Tok]
		if s.Tok != token.DEFINE && s.Tok != token.ASSIGN && !isOp {
			return t.fail(s, "assignment operator %s", s.Tok)
		}
		if s.Tok != token.DEFINE {
			if _, ok := env[id.Name]; !ok {
				return t.fail(s, "assignment to unknown variable %s", id.Name)
			}
			if c.immut[id.Name] {
				return t.fail(s, "assignment to %s, which lives outside the lane loop (a channel between iterations)", id.Name)
			}
		}
		if s.Tok == token.DEFINE {
			if _, shadow := env[id.Name]; shadow {
				return t.fail(s, "%s := … shadows an existing variable", id.Name)
			}
		}
		var rhs string
		if isOp {
			rhs = t.expr(&ast.BinaryExpr{X: s.Lhs[0], Op: bop, Y: s.Rhs[0]}, env)
		} else {
			rhs = t.expr(s.Rhs[0], env)
		}
		ty, ok := lbLeanType(t.info.TypeOf(s.Lhs[0]))
		if !ok {
			return t.fail(s, "variable %s of type %v", id.Name, t.info.TypeOf(s.Lhs[0]))
		}
		env2 := copyEnv(env)
		v := freshName(id.Name, env)
		env2[id.Name] = v
		return fmt.Sprintf("%slet %s : %s := %s\n%s", ind, v, ty, rhs, c.stmts(rest, env2, ind))
	case *ast.DeclStmt:
		gd, ok := s.Decl.(*ast.GenDecl)
		if !ok {
			return t.fail(s, "declaration")
		}
		if gd.Tok == token.CONST {
			return c.stmts(rest, env, ind) // uses are constants for the type checker
		}
		if gd.Tok != token.VAR {
			return t.fail(s, "declaration")
		}
		env2 := copyEnv(env)
		out := ""
		for _, sp := range gd.Specs {
			vs := sp.(*ast.ValueSpec)
			if len(vs.Values) != 0 && len(vs.Values) != len(vs.Names) {
				return t.fail(s, "var with tuple value")
			}
			for i, n := range vs.Names {
				if _, shadow := env2[n.Name]; shadow {
					return t.fail(s, "var %s shadows an existing variable", n.Name)
				}
				ty, ok := lbLeanType(t.info.Defs[n].Type())
				if !ok {
					return t.fail(s, "var %s of type %v", n.Name, t.info.Defs[n].Type())
				}
				val := lbZero(ty)
				if len(vs.Values) != 0 {
					val = t.expr(vs.Values[i], env2)
				}
				v := freshName(n.Name, env2)
				env2[n.Name] = v
				out += fmt.Sprintf("%slet %s : %s := %s\n", ind, v, ty, val)
			}
		}
		return out + c.stmts(rest, env2, ind)
	case *ast.ExprStmt:
		call, ok := s.X.(*ast.CallExpr)
		if ok && c.mode == "pure" && lbIsPanic(s) && c.retZero != "" {
			// a data-dependent abort inside a helper: the path yields the zero value; the helper is marked partial
			c.partial = true
			c.leaf.inexact = true
			return ind + c.retZero
		}
		if !ok || c.mode != "lane" {
			return t.fail(s, "expression statement")
		}
		if c.innerFinish != nil {
			return t.fail(s, "call statement inside an inner loop")
		}
		if name := types.ExprString(call.Fun); name != "state.WriteOperand" {
			return t.fail(s, "call statement %s", name)
		}
		if id, isId := call.Args[1].(*ast.Ident); types.ExprString(call.Args[0]) != "inst.Dst" || !isId || id.Name != c.loopVar {
			return t.fail(s, "WriteOperand(%s, %s, …): not (inst.Dst, loop variable)", types.ExprString(call.Args[0]), types.ExprString(call.Args[1]))
		}
		if _, w := env["$dst"]; w {
			return t.fail(s, "second WriteOperand to the destination on one path")
		}
		if w, _, ok := basicWS(t.info.TypeOf(call.Args[2])); !ok || w != 64 {
			return t.fail(s, "WriteOperand value of type %v", t.info.TypeOf(call.Args[2]))
		}
		env2 := copyEnv(env)
		env2["$dst"] = "(some " + t.expr(call.Args[2], env) + ")"
		return c.stmts(rest, env2, ind)
	case *ast.IfStmt:
		if s.Init != nil {
			return t.fail(s, "if with init statement")
		}
		cond := t.expr(s.Cond, env)
		thenS := c.stmts(append(append([]ast.Stmt{}, s.Body.List...), rest...), env, ind+"  ")
		var elseList []ast.Stmt
		switch el := s.Else.(type) {
		case nil:
		case *ast.BlockStmt:
			elseList = el.List
		case *ast.IfStmt:
			elseList = []ast.Stmt{el}
		}
		elseS := c.stmts(append(append([]ast.Stmt{}, elseList...), rest...), env, ind+"  ")
		return fmt.Sprintf("%sif %s then\n%s\n%selse\n%s", ind, cond, thenS, ind, elseS)
	case *ast.SwitchStmt:
		if s.Init != nil {
			return t.fail(s, "switch with init")
		}
		tag := ""
		if s.Tag != nil {
			tag = t.expr(s.Tag, env)
		}
		var deflt []ast.Stmt
		type arm struct {
			cond string
			body []ast.Stmt
		}
		var arms []arm
		for _, cl := range s.Body.List {
			cc := cl.(*ast.CaseClause)
			for _, b := range cc.Body {
				bad := false
				ast.Inspect(b, func(n ast.Node) bool {
					if br, ok := n.(*ast.BranchStmt); ok && (br.Tok == token.BREAK || br.Tok == token.FALLTHROUGH) {
						bad = true
					}
					return true
				})
				if bad {
					return t.fail(b, "break/fallthrough inside a switch")
				}
			}
			if cc.List == nil {
				deflt = cc.Body
				continue
			}
			var cs []string
			for _, v := range cc.List {
				if s.Tag == nil { // `switch { case cond: … }`: the first true condition
					cs = append(cs, t.expr(v, env))
					continue
				}
				if tv, ok := t.info.Types[v]; !ok || tv.Value == nil {
					return t.fail(v, "non-constant case label")
				}
				cs = append(cs, fmt.Sprintf("(%s == %s)", tag, t.expr(v, env)))
			}
			arms = append(arms, arm{strings.Join(cs, " || "), cc.Body})
		}
		out := c.stmts(append(append([]ast.Stmt{}, deflt...), rest...), env, ind+"  ")
		for k := len(arms) - 1; k >= 0; k-- {
			thenS := c.stmts(append(append([]ast.Stmt{}, arms[k].body...), rest...), env, ind+"  ")
			out = fmt.Sprintf("%sif %s then\n%s\n%selse\n%s", ind, arms[k].cond, thenS, ind, out)
		}
		return out
	}
	return t.fail(s, "statement %T", s)
}

// tupleAssign: `a, b = b, a` / `a, b := x, y` (right-hand sides evaluated first) and
// `a, b, c := f(…)` for a translated pure helper with several results
func (c *lbCtx) tupleAssign(s *ast.AssignStmt, rest []ast.Stmt, env map[string]string, ind string) string {
	t := c.t
	if s.Tok != token.DEFINE && s.Tok != token.ASSIGN {
		return t.fail(s, "tuple assignment with operator %s", s.Tok)
	}
	var ids []*ast.Ident
	for _, l := range s.Lhs {
		id, ok := l.(*ast.Ident)
		if !ok {
			return t.fail(s, "assignment to %T", l)
		}
		if s.Tok == token.DEFINE {
			if _, shadow := env[id.Name]; shadow {
				return t.fail(s, "%s := … shadows an existing variable", id.Name)
			}
		} else {
			if _, ok := env[id.Name]; !ok {
				return t.fail(s, "assignment to unknown variable %s", id.Name)
			}
			if c.immut[id.Name] || id.Name == c.accVar {
				return t.fail(s, "tuple assignment to %s, which lives outside the lane loop", id.Name)
			}
		}
		ids = append(ids, id)
	}
	var rhs []string
	switch {
	case len(s.Rhs) == len(s.Lhs):
		for _, r := range s.Rhs {
			rhs = append(rhs, t.expr(r, env))
		}
	case len(s.Rhs) == 1:
		call := t.expr(s.Rhs[0], env)
		tmp := freshName("tup", env)
		env = copyEnv(env)
		env["$"+tmp] = tmp
		out := fmt.Sprintf("%slet %s := %s\n", ind, tmp, call)
		for k := range ids {
			proj := tmp
			for j := 0; j < k; j++ {
				proj += ".2"
			}
			if k < len(ids)-1 {
				proj += ".1"
			}
			rhs = append(rhs, proj)
		}
		ind2 := ind
		defer func() { _ = ind2 }()
		return out + c.bindAll(s, ids, rhs, rest, env, ind)
	default:
		return t.fail(s, "assignment count mismatch")
	}
	return c.bindAll(s, ids, rhs, rest, env, ind)
}

func (c *lbCtx) bindAll(s *ast.AssignStmt, ids []*ast.Ident, rhs []string, rest []ast.Stmt, env map[string]string, ind string) string {
	t := c.t
	env2 := copyEnv(env)
	out := ""
	// first bind temporaries (parallel assignment), then the variables
	var tmps []string
	for k, id := range ids {
		ty, ok := lbLeanType(t.info.TypeOf(id))
		if !ok {
			return t.fail(s, "variable %s of type %v", id.Name, t.info.TypeOf(id))
		}
		tmp := freshName("par", env2)
		env2["$"+tmp] = tmp
		tmps = append(tmps, tmp)
		out += fmt.Sprintf("%slet %s : %s := %s\n", ind, tmp, ty, rhs[k])
	}
	for k, id := range ids {
		if id.Name == "_" {
			continue
		}
		ty, _ := lbLeanType(t.info.TypeOf(id))
		v := freshName(id.Name, env2)
		env2[id.Name] = v
		out += fmt.Sprintf("%slet %s : %s := %s\n", ind, v, ty, tmps[k])
	}
	return out + c.stmts(rest, env2, ind)
}

// ---------------------------------------------------------------- function level

type lbFn struct {
	a       *lbArch
	h       *lfHandler
	fd      *ast.FuncDecl
	sunk    map[string]bool
	execVar string
	vccVars map[string]bool
	zeroVar map[string]bool
	uniEnv  map[string]string // uniform locals defined before the loop: Go name -> Lean name
	uniLets []string          // their `let` lines
	inexact *bool
}

type lbRefusal struct{ msg string }

func (f *lbFn) refuse(n ast.Node, format string, args ...any) {
	panic(lbRefusal{fmt.Sprintf("lanebody: %s %s (%s): %s", f.a.name, f.h.name, f.a.relPos(n), fmt.Sprintf(format, args...))})
}

func (f *lbFn) clone() *lbFn {
	g := *f
	g.vccVars, g.zeroVar = map[string]bool{}, map[string]bool{}
	g.uniEnv = map[string]string{}
	for k, v := range f.uniEnv {
		g.uniEnv[k] = v
	}
	g.uniLets = append([]string{}, f.uniLets...)
	for k := range f.vccVars {
		g.vccVars[k] = true
	}
	for k := range f.zeroVar {
		g.zeroVar[k] = true
	}
	return &g
}

func lbIsPanic(s ast.Stmt) bool {
	es, ok := s.(*ast.ExprStmt)
	if !ok {
		return false
	}
	ce, ok := es.X.(*ast.CallExpr)
	if !ok {
		return false
	}
	switch types.ExprString(ce.Fun) {
	case "log.Panicf", "log.Panic", "panic", "log.Panicln":
		return true
	}
	return false
}

func (f *lbFn) uniformCond(e ast.Expr) string {
	c := &lbCtx{a: f.a, t: &aluTr{info: f.a.info, fset: f.a.fset}, mode: "uniform", leaf: &lbLeaf{}}
	c.hooks()
	env := map[string]string{}
	for k, v := range f.uniEnv {
		env[k] = v
	}
	s := c.t.expr(e, env)
	if c.t.err != nil {
		f.refuse(e, "condition outside the lane loop is not a function of the instruction fields: %v", c.t.err)
	}
	if c.leaf.inexact && f.inexact != nil {
		*f.inexact = true
	}
	return s
}

// wrapper: `inst := state.Inst(); if <instruction fields> { u.A(state) } else { u.B(state) }` -> which handler runs
func (f *lbFn) wrapper(list []ast.Stmt, ind string) string {
	for k, st := range list {
		switch s := st.(type) {
		case *ast.AssignStmt:
			if types.ExprString(s.Lhs[0]) == "inst" && types.ExprString(s.Rhs[0]) == "state.Inst()" {
				continue
			}
		case *ast.IfStmt:
			if s.Init == nil && k == len(list)-1 {
				if el, ok := s.Else.(*ast.BlockStmt); ok {
					return fmt.Sprintf("%sif %s then\n%s\n%selse\n%s", ind, f.uniformCond(s.Cond), f.wrapper(s.Body.List, ind+"  "), ind, f.wrapper(el.List, ind+"  "))
				}
			}
		case *ast.ExprStmt:
			if ce, ok := s.X.(*ast.CallExpr); ok && k == len(list)-1 && len(ce.Args) == 1 && types.ExprString(ce.Args[0]) == "state" && strings.HasPrefix(types.ExprString(ce.Fun), "u.") {
				return ind + leanStr(strings.TrimPrefix(types.ExprString(ce.Fun), "u."))
			}
		}
		f.refuse(st, "wrapper is not `if <instruction fields> { u.A(state) } else { u.B(state) }`")
	}
	f.refuse(f.fd, "wrapper path without a call")
	return ""
}

func (f *lbFn) level(list []ast.Stmt) *lbTree {
	for k, st := range list {
		rest := list[k+1:]
		switch s := st.(type) {
		case *ast.AssignStmt:
			if s.Tok == token.DEFINE && len(s.Lhs) == 1 && len(s.Rhs) == 1 {
				id, _ := s.Lhs[0].(*ast.Ident)
				switch rhs := types.ExprString(s.Rhs[0]); {
				case id != nil && id.Name == "inst" && rhs == "state.Inst()":
					continue
				case id != nil && rhs == "state.EXEC()":
					if f.execVar != "" && f.execVar != id.Name {
						f.refuse(s, "second EXEC variable")
					}
					f.execVar = id.Name
					continue
				case id != nil && rhs == "state.VCC()":
					f.vccVars[id.Name] = true
					continue
				case id != nil && rhs == "uint64(0)" && f.sunk[id.Name]:
					f.zeroVar[id.Name] = true
					continue
				}
			}
			// a uniform local: a function of the instruction fields and of the literal operand
			// `state.ReadOperand(inst.Src2, 0)` (v_madak / v_fmamk / v_fmaak: K)
			if s.Tok == token.DEFINE && len(s.Lhs) == 1 && len(s.Rhs) == 1 {
				if id, ok := s.Lhs[0].(*ast.Ident); ok {
					c := &lbCtx{a: f.a, t: &aluTr{info: f.a.info, fset: f.a.fset}, mode: "uniform", leaf: &lbLeaf{}}
					c.hooks()
					env := map[string]string{}
					for k, v := range f.uniEnv {
						env[k] = v
					}
					val := c.t.expr(s.Rhs[0], env)
					ty, okT := lbLeanType(f.a.info.TypeOf(s.Lhs[0]))
					if c.t.err == nil && okT {
						if c.leaf.inexact && f.inexact != nil {
							*f.inexact = true
						}
						if _, dup := f.uniEnv[id.Name]; dup {
							f.refuse(s, "uniform local %s defined twice", id.Name)
						}
						if f.uniEnv == nil {
							f.uniEnv = map[string]string{}
						}
						f.uniEnv[id.Name] = "k_" + id.Name
						f.uniLets = append(f.uniLets, fmt.Sprintf("let k_%s : %s := %s", id.Name, ty, val))
						continue
					}
				}
			}
			f.refuse(s, "statement before the lane loop: %s", nodeString(s))
		case *ast.DeclStmt:
			gd := s.Decl.(*ast.GenDecl)
			if gd.Tok == token.CONST {
				continue
			}
			if gd.Tok == token.VAR && len(gd.Specs) == 1 {
				vs := gd.Specs[0].(*ast.ValueSpec)
				if len(vs.Names) == 1 && len(vs.Values) == 0 && vs.Type != nil && types.ExprString(vs.Type) == "uint64" && f.sunk[vs.Names[0].Name] {
					f.zeroVar[vs.Names[0].Name] = true
					continue
				}
			}
			f.refuse(s, "declaration before the lane loop: %s", nodeString(s))
		case *ast.IfStmt:
			if s.Init != nil {
				f.refuse(s, "if with init statement outside the lane loop")
			}
			cond := f.uniformCond(s.Cond)
			var elseList []ast.Stmt
			switch el := s.Else.(type) {
			case nil:
			case *ast.BlockStmt:
				elseList = el.List
			case *ast.IfStmt:
				elseList = []ast.Stmt{el}
			}
			ta := f.clone().level(append(append([]ast.Stmt{}, s.Body.List...), rest...))
			tb := f.clone().level(append(append([]ast.Stmt{}, elseList...), rest...))
			return &lbTree{cond: cond, a: ta, b: tb}
		case *ast.ForStmt:
			return &lbTree{leaf: f.loop(s, rest)}
		case *ast.ExprStmt:
			if lbIsPanic(s) {
				return &lbTree{leaf: &lbLeaf{fault: true}}
			}
			f.refuse(s, "statement outside the lane loop: %s", nodeString(s))
		case *ast.ReturnStmt:
			if len(s.Results) == 0 {
				return &lbTree{leaf: &lbLeaf{fault: false, guard: "", accInit: "nothing"}}
			}
			f.refuse(s, "return with a value")
		default:
			f.refuse(st, "statement outside the lane loop: %T", st)
		}
	}
	// fell off the end without a loop on this path: the handler does nothing here
	return &lbTree{leaf: &lbLeaf{accInit: "nothing"}}
}

func (f *lbFn) loop(fs *ast.ForStmt, after []ast.Stmt) *lbLeaf {
	// header: for v := 0; v < 64; v++
	v := ""
	if as, ok := fs.Init.(*ast.AssignStmt); ok && as.Tok == token.DEFINE && len(as.Lhs) == 1 && types.ExprString(as.Rhs[0]) == "0" {
		if id, ok := as.Lhs[0].(*ast.Ident); ok {
			v = id.Name
		}
	}
	cond, _ := fs.Cond.(*ast.BinaryExpr)
	inc, _ := fs.Post.(*ast.IncDecStmt)
	if v == "" || cond == nil || cond.Op != token.LSS || types.ExprString(cond.X) != v || types.ExprString(cond.Y) != "64" ||
		inc == nil || inc.Tok != token.INC || types.ExprString(inc.X) != v {
		f.refuse(fs, "lane loop header is not `for v := 0; v < 64; v++`")
	}
	if w, sg, ok := basicWS(f.a.info.TypeOf(cond.X)); !ok || w != 64 || !sg {
		f.refuse(fs, "loop variable is not an int")
	}
	leaf := &lbLeaf{}
	// guard
	if len(fs.Body.List) == 0 || f.execVar == "" {
		f.refuse(fs, "lane loop without EXEC guard")
	}
	g, ok := fs.Body.List[0].(*ast.IfStmt)
	isCont := ok && g.Init == nil && g.Else == nil && len(g.Body.List) == 1
	if isCont {
		bs, ok := g.Body.List[0].(*ast.BranchStmt)
		isCont = ok && bs.Tok == token.CONTINUE && bs.Label == nil
	}
	if !isCont {
		f.refuse(fs, "first statement of the lane loop is not `if <guard> { continue }`")
	}
	switch normExpr(g.Cond) {
	case f.execVar + "&(1<<uint(" + v + "))==0":
		leaf.guard = "bitZero"
	case "!laneMasked(" + f.execVar + ",uint(" + v + "))", "!emu.LaneMasked(" + f.execVar + ",uint(" + v + "))":
		leaf.guard = "notLaneMasked"
	default:
		f.refuse(g, "unknown lane guard %s", normExpr(g.Cond))
	}
	// sink
	leaf.accInit, leaf.sink = "none", "none"
	accVar := ""
	switch len(after) {
	case 0:
	case 1:
		es, _ := after[0].(*ast.ExprStmt)
		var ce *ast.CallExpr
		if es != nil {
			ce, _ = es.X.(*ast.CallExpr)
		}
		if ce == nil {
			f.refuse(after[0], "statement after the lane loop: %s", nodeString(after[0]))
		}
		switch name := types.ExprString(ce.Fun); {
		case name == "state.SetVCC" && len(ce.Args) == 1:
			leaf.sink = "vcc"
			accVar = types.ExprString(ce.Args[0])
		case name == "state.WriteOperand" && len(ce.Args) == 3 && types.ExprString(ce.Args[1]) == "0" && types.ExprString(ce.Args[0]) == "inst.SDst":
			leaf.sink = "sdst"
			accVar = types.ExprString(ce.Args[2])
		case name == "state.WriteOperand" && len(ce.Args) == 3 && types.ExprString(ce.Args[1]) == "0" && types.ExprString(ce.Args[0]) == "inst.Dst":
			leaf.sink = "dst"
			accVar = types.ExprString(ce.Args[2])
		default:
			f.refuse(after[0], "statement after the lane loop: %s", nodeString(after[0]))
		}
		switch {
		case f.zeroVar[accVar]:
			leaf.accInit = "zero"
		case f.vccVars[accVar]:
			leaf.accInit = "vcc"
		default:
			f.refuse(after[0], "written-back value %s is neither `var x uint64` nor `x := state.VCC()`", accVar)
		}
	default:
		f.refuse(after[0], "more than one statement after the lane loop")
	}
	for z := range f.zeroVar {
		if z != accVar {
			f.refuse(fs, "zero-initialised uint64 %s is declared outside the loop but not written back", z)
		}
	}
	// body
	leaf.accVar = accVar
	c := &lbCtx{a: f.a, t: &aluTr{info: f.a.info, fset: f.a.fset}, mode: "lane", loopVar: v, accVar: accVar, leaf: leaf, immut: map[string]bool{v: true}}
	c.hooks()
	env := map[string]string{v: lbLoopVarLean}
	for x := range f.vccVars {
		if x != accVar {
			env[x] = "r.vcc"
			c.immut[x] = true
		}
	}
	if accVar != "" {
		env[accVar] = "r.acc"
	}
	for k, v := range f.uniEnv {
		if _, clash := env[k]; clash {
			f.refuse(fs, "uniform local %s clashes with a loop variable", k)
		}
		env[k] = v
		c.immut[k] = true
	}
	raw := c.stmts(fs.Body.List[1:], env, "  ")
	for k := len(f.uniLets) - 1; k >= 0; k-- {
		raw = "  " + f.uniLets[k] + "\n" + raw
	}
	if c.t.err != nil {
		f.refuse(fs, "lane body outside the translated subset: %v", c.t.err)
	}
	leaf.raw = raw
	if strings.Contains(raw, "r.vcc") {
		leaf.usesVCC = true
	}
	return leaf
}

func (t *lbTree) leaves(f func(*lbLeaf)) {
	if t.leaf != nil {
		f(t.leaf)
		return
	}
	t.a.leaves(f)
	t.b.leaves(f)
}

func (t *lbTree) render(ind string, leafText func(*lbLeaf, string) string) string {
	if t.leaf != nil {
		return leafText(t.leaf, ind)
	}
	return fmt.Sprintf("%sif %s then\n%s\n%selse\n%s", ind, t.cond, t.a.render(ind+"  ", leafText), ind, t.b.render(ind+"  ", leafText))
}

func lbReindent(s, ind string) string {
	lines := strings.Split(s, "\n")
	for i, l := range lines {
		lines[i] = ind + l
	}
	return strings.Join(lines, "\n")
}

func (a *lbArch) translate(h *lfHandler) (res *lbResult) {
	res = &lbResult{arch: h.arch, name: h.name, file: h.file, line: h.line}
	fd, ok := a.funcs[h.name]
	if !ok {
		fatalf("lanebody: %s %s: function not found in the type-checked package", h.arch, h.name)
	}
	cat, callees := a.category(fd, h)
	if cat == "float" {
		// try: integer skeleton + float data path as Lean Float32/Float; what does not translate stays `float`
		if r := a.tryFloat(h, fd); r != nil {
			return r
		}
	}
	if cat == "library" || cat == "innerLoop" {
		// second deepening: inner loops with constant bounds (folds), three-element slices + sort.Ints
		if r := a.tryDeep(h, fd, cat); r != nil {
			return r
		}
	}
	if cat == "noLaneCode" {
		if r := a.tryNoLane(h, fd); r != nil {
			return r
		}
	}
	if cat != "" {
		res.cov, res.callees = cat, callees
		if cat == "wrapper" {
			f := &lbFn{a: a, h: h, fd: fd}
			res.raw = f.wrapper(fd.Body.List, "  ")
		}
		return res
	}
	defer func() {
		if e := recover(); e != nil {
			r, ok := e.(lbRefusal)
			if !ok {
				panic(e)
			}
			if os.Getenv("LANEBODY_REPORT") == "" {
				fatalf("%s", r.msg)
			}
			fmt.Println("WOULD REFUSE:", r.msg)
			res.cov = "refused"
		}
	}()
	a.core(h, fd, res)
	res.cov = "translated"
	return res
}

func (a *lbArch) tryFloat(h *lfHandler, fd *ast.FuncDecl) (res *lbResult) {
	res = &lbResult{arch: h.arch, name: h.name, file: h.file, line: h.line}
	defer func() {
		if e := recover(); e != nil {
			r, ok := e.(lbRefusal)
			if !ok {
				panic(e)
			}
			fmt.Printf("NOTE lanebody: %s.%s stays in the float category: %s\n", h.arch, h.name, strings.TrimPrefix(r.msg, "lanebody: "))
			res = nil
		}
	}()
	a.core(h, fd, res)
	res.cov = "translatedF"
	return res
}

func (a *lbArch) core(h *lfHandler, fd *ast.FuncDecl, res *lbResult) {
	f := &lbFn{a: a, h: h, fd: fd, sunk: map[string]bool{}, vccVars: map[string]bool{}, zeroVar: map[string]bool{}, inexact: &res.inexact}
	ast.Inspect(fd.Body, func(n ast.Node) bool {
		if ce, ok := n.(*ast.CallExpr); ok {
			switch name := types.ExprString(ce.Fun); {
			case name == "state.SetVCC" && len(ce.Args) == 1:
				f.sunk[types.ExprString(ce.Args[0])] = true
			case name == "state.WriteOperand" && len(ce.Args) == 3 && types.ExprString(ce.Args[1]) == "0":
				f.sunk[types.ExprString(ce.Args[2])] = true
			}
		}
		return true
	})
	tree := f.level(fd.Body.List)
	var loops []*lbLeaf
	tree.leaves(func(l *lbLeaf) {
		if !l.fault && l.accInit != "nothing" {
			loops = append(loops, l)
		}
	})
	if len(loops) == 0 {
		f.refuse(fd, "no lane loop on any path (unknown shape)")
	}
	res.guard, res.accInit, res.sink = loops[0].guard, loops[0].accInit, loops[0].sink
	res.msrc = "none"
	for _, l := range loops {
		if l.inexact {
			res.inexact = true
		}
		if l.partial {
			res.partial = true
		}
		if l.guard != res.guard || l.accInit != res.accInit || l.sink != res.sink {
			f.refuse(fd, "the lane loops on different instruction-field paths disagree on guard / accumulator / write-back")
		}
		// which 64-bit input is used as a lane mask (a declaration only: Lean proves `LaneUniform` against it)
		m := "none"
		switch {
		case l.usesVCC:
			m = "vcc"
		case l.accInit == "vcc":
			m = "acc"
		case l.usesS2 && strings.Count(l.raw, "r.i)") > strings.Count(lbAccUpdates(l.raw, l.accVar), "r.i)"):
			m = "src2" // the loop variable occurs in the data path of a body that reads src2
		}
		if m != "none" {
			if res.msrc != "none" && res.msrc != m {
				f.refuse(fd, "different mask sources on different paths")
			}
			res.msrc = m
		}
	}
	res.raw = tree.render("  ", func(l *lbLeaf, ind string) string {
		if l.fault || l.accInit == "nothing" {
			return ind + "{ dst := none, acc := r.acc }"
		}
		return lbReindent(l.raw, ind[2:])
	})
	res.ok = tree.render("  ", func(l *lbLeaf, ind string) string {
		if l.fault {
			return ind + "false"
		}
		return ind + "true"
	})
	if tree.leaf != nil {
		res.ok = "  true"
	}
}

// lbAccUpdates returns the lines of a raw body that rebind the accumulator (`let <acc>_k : BitVec 64 := …`)
func lbAccUpdates(raw, accVar string) string {
	if accVar == "" {
		return ""
	}
	var out []string
	for _, l := range strings.Split(raw, "\n") {
		if strings.HasPrefix(strings.TrimSpace(l), "let "+accVar+"_") {
			out = append(out, l)
		}
	}
	return strings.Join(out, "\n")
}

// ---------------------------------------------------------------- driver

func genLaneBodies(handlers []*lfHandler) {
	imp := newSrcImporter()
	archs := map[string]*lbArch{}
	for _, ar := range []struct{ name, path string }{{"gcn3", mgpuPrefix + "amd/emu"}, {"cdna3", mgpuPrefix + "amd/emu/cdna3"}} {
		if _, err := imp.Import(ar.path); err != nil {
			fatalf("load %s: %v", ar.path, err)
		}
		a := &lbArch{name: ar.name, path: ar.path, info: imp.infos[ar.path], fset: imp.fset, funcs: map[string]*ast.FuncDecl{}, fnFile: map[string]string{}, pure: map[string]string{}}
		for _, file := range imp.files[ar.path] {
			for _, d := range file.Decls {
				if fd, ok := d.(*ast.FuncDecl); ok && fd.Body != nil {
					if fd.Recv != nil { // only the methods of the ALU itself (other types: Wavefront, …)
						rt := strings.TrimPrefix(types.ExprString(fd.Recv.List[0].Type), "*")
						if rt != "ALUImpl" && rt != "ALU" {
							continue
						}
					}
					if _, dup := a.funcs[fd.Name.Name]; dup {
						fatalf("lanebody: %s: two functions called %s", ar.name, fd.Name.Name)
					}
					a.funcs[fd.Name.Name] = fd
				}
			}
		}
		archs[ar.name] = a
	}
	archs["gcn3"].emu, archs["cdna3"].emu = archs["gcn3"], archs["gcn3"]
	var results []*lbResult
	var memFacts []*lbMemFact
	var memBodies []*lmResult
	for _, h := range handlers {
		res := archs[h.arch].translate(h)
		results = append(results, res)
		if lbMemoryFiles[filepath.Base(h.file)] {
			memFacts = append(memFacts, archs[h.arch].memFact(h))
			if mb := archs[h.arch].memTranslate(h); mb != nil {
				memBodies = append(memBodies, mb)
			}
		}
	}
	for _, fn := range lbForcedPure {
		fd, ok := archs["gcn3"].funcs[fn]
		if !ok {
			fatalf("lanebody: function %s of amd/emu (used by the C06 model of the SDWA wrapper / lane guard) not found", fn)
		}
		if _, err := archs["gcn3"].pureFunc(fd); err != nil {
			fatalf("lanebody: function %s of amd/emu is outside the translated subset: %v", fn, err)
		}
	}
	var b strings.Builder
	b.WriteString("-- GENERATED by /verif/translate (lanebody.go) from amd/emu/aluv*.go and amd/emu/cdna3/v*.go; do not edit\n")
	b.WriteString("import MgpuModel.C06_Body\nimport MgpuModel.C06_Mem\nset_option linter.unusedVariables false\nnamespace Gen.Lane\nopen C06\n\n")
	for _, an := range []string{"gcn3", "cdna3"} {
		a := archs[an]
		for _, p := range a.pureOrder {
			b.WriteString(a.pure[p])
		}
	}
	idx := map[string]int{}
	n := 0
	for _, r := range results {
		if r.cov != "translated" && r.cov != "translatedF" {
			continue
		}
		fmt.Fprintf(&b, "/-- %s:%d -/\ndef raw_%s_%s (u : Uni) (r : RawIn) : RawOut :=\n%s\n\n", r.file, r.line, r.arch, r.name, r.raw)
		fmt.Fprintf(&b, "def lh_%s_%s : LaneHandler :=\n  { arch := %s, name := %s, guard := .%s, accInit := .%s, msrc := .%s, sink := .%s\n    ok := fun u =>\n%s\n    raw := raw_%s_%s }\n\n",
			r.arch, r.name, leanStr(r.arch), leanStr(r.name), r.guard, r.accInit, r.msrc, r.sink, lbReindent(r.ok, "    "), r.arch, r.name)
		idx[r.arch+"."+r.name] = n
		n++
	}
	b.WriteString("/-- handlers that only select another handler by instruction fields: (arch, name, which handler runs) -/\ndef wrappers : List (String × String × (Uni → String)) := [")
	first := true
	for _, r := range results {
		if r.cov == "wrapper" {
			if !first {
				b.WriteString(",")
			}
			first = false
			fmt.Fprintf(&b, "\n  (%s, %s, fun u =>\n%s)", leanStr(r.arch), leanStr(r.name), lbReindent(r.raw, "  "))
		}
	}
	b.WriteString("]\n\n")
	b.WriteString("/-- every translated handler -/\ndef laneHandlers : List LaneHandler := [\n")
	k := 0
	for _, r := range results {
		if r.cov != "translated" && r.cov != "translatedF" {
			continue
		}
		k++
		sep := ","
		if k == n {
			sep = ""
		}
		fmt.Fprintf(&b, "  lh_%s_%s%s\n", r.arch, r.name, sep)
	}
	b.WriteString("]\n\n/-- one row per vector handler record, in the order of `Gen.vectorHandlers`: how it is covered -/\ndef coverage : List CovRow := [\n")
	counts := map[string]int{}
	nConst := 0
	for i, r := range results {
		counts[r.cov]++
		sep := ","
		if i == len(results)-1 {
			sep = ""
		}
		cov := "." + r.cov
		switch r.cov {
		case "translated", "translatedF":
			cov = fmt.Sprintf(".%s %d", r.cov, idx[r.arch+"."+r.name])
		case "constant":
			cov = fmt.Sprintf(".constant %d", nConst)
			nConst++
		case "wrapper":
			cs := append([]string{}, r.callees...)
			sort.Strings(cs)
			cov = ".wrapper " + leanStrList(cs)
		}
		fmt.Fprintf(&b, "  ⟨%s, %s, %s⟩%s\n", leanStr(r.arch), leanStr(r.name), cov, sep)
	}
	b.WriteString("]\n\n/-- float handlers whose body uses only operations that are bit-exact in Lean's Float32/Float (IEEE +,-,*,/,\n    comparisons, conversions, abs, sqrt) and only the instruction fields a case line carries: tied by `c06 body` too -/\ndef exactFloat : List (String × String) := [")
	nx := 0
	for _, r := range results {
		if r.cov == "translatedF" && !r.inexact {
			if nx > 0 {
				b.WriteString(",")
			}
			nx++
			fmt.Fprintf(&b, "\n  (%s, %s)", leanStr(r.arch), leanStr(r.name))
		}
	}
	b.WriteString("]\n\n")
	lbWriteDeep(&b, archs, imp, results)
	lbWriteMemFacts(&b, memFacts)
	lbWriteMemHandlers(&b, memBodies)
	b.WriteString("end Gen.Lane\n")
	writeIfChanged("LaneBodies.lean", b.String())
	var cs []string
	for c, k := range counts {
		cs = append(cs, fmt.Sprintf("%s=%d", c, k))
	}
	sort.Strings(cs)
	fmt.Printf("NOTE lanebody: %d records: %s\n", len(results), strings.Join(cs, " "))
}

// ---------------------------------------------------------------- memory access facts (DS / FLAT files)

type lbMemAccess struct {
	line                 int
	isLds, isWrite, loop bool
}

type lbMemFact struct {
	arch, name string
	acc        []lbMemAccess
	callees    []string
}

var lbReadOnlySliceFuncs = map[string]bool{"insts.BytesToUint32": true, "insts.BytesToUint64": true, "binary.LittleEndian.Uint32": true,
	"binary.LittleEndian.Uint64": true, "len": true}

// memFact classifies every LDS / storageAccessor access of a method of the DS / FLAT files by direction.
// Anything whose direction is not evident from the syntax (an LDS slice stored in a variable or handed to
// an unknown function, the LDS slice itself passed on, …) is a refusal.
func (a *lbArch) memFact(h *lfHandler) *lbMemFact {
	fd := a.funcs[h.name]
	mf := &lbMemFact{arch: h.arch, name: h.name}
	refuse := func(n ast.Node, format string, args ...any) {
		fatalf("lanebody (memory): %s %s (%s): %s", a.name, h.name, a.relPos(n), fmt.Sprintf(format, args...))
	}
	ldsVars := map[string]bool{}
	ast.Inspect(fd.Body, func(n ast.Node) bool {
		if as, ok := n.(*ast.AssignStmt); ok && len(as.Lhs) == 1 && len(as.Rhs) == 1 {
			if rhs := types.ExprString(as.Rhs[0]); rhs == "u.LDS()" || rhs == "u.lds" {
				id, ok := as.Lhs[0].(*ast.Ident)
				if !ok || as.Tok != token.DEFINE {
					refuse(as, "LDS stored somewhere else than a fresh local variable")
				}
				ldsVars[id.Name] = true
			}
		}
		return true
	})
	isLds := func(e ast.Expr) bool {
		r := rootIdent(e)
		if ldsVars[r] {
			return true
		}
		s := types.ExprString(e)
		return strings.HasPrefix(s, "u.lds[") || strings.HasPrefix(s, "u.LDS()[")
	}
	handled := map[ast.Node]bool{}
	var walk func(n ast.Node, inLoop bool)
	add := func(n ast.Node, lds, write, inLoop bool) {
		mf.acc = append(mf.acc, lbMemAccess{a.fset.Position(n.Pos()).Line, lds, write, inLoop})
	}
	walk = func(n ast.Node, inLoop bool) {
		if n == nil || handled[n] {
			return
		}
		switch x := n.(type) {
		case *ast.ForStmt:
			walk(x.Init, inLoop)
			walk(x.Cond, inLoop)
			walk(x.Post, inLoop)
			walk(x.Body, true)
			return
		case *ast.RangeStmt:
			walk(x.X, inLoop)
			walk(x.Body, true)
			return
		case *ast.AssignStmt:
			if len(x.Rhs) == 1 {
				if rhs := types.ExprString(x.Rhs[0]); rhs == "u.LDS()" || rhs == "u.lds" {
					return
				}
			}
			for _, l := range x.Lhs {
				switch l.(type) {
				case *ast.IndexExpr, *ast.SliceExpr:
					if isLds(l) {
						add(l, true, true, inLoop)
						if x.Tok != token.ASSIGN {
							add(l, true, false, inLoop) // lds[a] += v reads too
						}
						handled[l] = true
						// the index expressions are ordinary reads of other things
						if ie, ok := l.(*ast.IndexExpr); ok {
							walk(ie.Index, inLoop)
						}
						continue
					}
				}
				walk(l, inLoop)
			}
			for _, r := range x.Rhs {
				if se, ok := r.(*ast.SliceExpr); ok && isLds(se) {
					refuse(se, "an LDS slice is stored in a variable (alias)")
				}
				walk(r, inLoop)
			}
			return
		case *ast.CallExpr:
			name := types.ExprString(x.Fun)
			switch {
			case name == "u.storageAccessor.Read":
				add(x, false, false, inLoop)
			case name == "u.storageAccessor.Write":
				add(x, false, true, inLoop)
			case strings.HasPrefix(name, "u.storageAccessor"):
				refuse(x, "unknown storage accessor method %s", name)
			case name == "copy" && len(x.Args) == 2:
				for k, arg := range x.Args {
					if isLds(arg) {
						if _, ok := arg.(*ast.Ident); ok {
							refuse(x, "copy of the whole LDS")
						}
						add(arg, true, k == 0, inLoop)
						handled[arg] = true
						if se, ok := arg.(*ast.SliceExpr); ok {
							walk(se.Low, inLoop)
							walk(se.High, inLoop)
						}
					}
				}
			case name == "u.LDS":
				if len(mf.acc) >= 0 {
					// u.LDS() outside `x := u.LDS()`: only as len(u.LDS()) or an indexed use (classified below)
				}
			default:
				for _, arg := range x.Args {
					if isLds(arg) && !lbReadOnlySliceFuncs[name] {
						refuse(x, "LDS (or a slice of it) passed to %s", name)
					}
				}
				if strings.HasPrefix(name, "u.") {
					for _, arg := range x.Args {
						if id, ok := arg.(*ast.Ident); ok && id.Name == "state" {
							mf.callees = append(mf.callees, strings.TrimPrefix(name, "u."))
						}
					}
				}
			}
		case *ast.IndexExpr:
			if isLds(x) {
				add(x, true, false, inLoop)
				walk(x.Index, inLoop)
				return
			}
		case *ast.SliceExpr:
			if isLds(x) {
				add(x, true, false, inLoop)
				walk(x.Low, inLoop)
				walk(x.High, inLoop)
				return
			}
		case *ast.UnaryExpr:
			if x.Op == token.AND && isLds(x.X) {
				refuse(x, "address of an LDS cell taken")
			}
		}
		for _, c := range children(n) {
			walk(c, inLoop)
		}
	}
	walk(fd.Body, false)
	// cross-check with the syntactic counters of lanes.go (an access this walk did not see is a refusal)
	nl, nm := 0, 0
	for _, ac := range mf.acc {
		if ac.isLds {
			nl++
		} else {
			nm++
		}
	}
	if nl != h.ldsIn+h.ldsOut || nm != h.memIn+h.memOut {
		fatalf("lanebody (memory): %s %s (%s:%d): direction scan saw %d LDS / %d memory accesses, lanes.go counted %d / %d",
			h.arch, h.name, h.file, h.line, nl, nm, h.ldsIn+h.ldsOut, h.memIn+h.memOut)
	}
	sort.Strings(mf.callees)
	return mf
}

func lbWriteMemFacts(b *strings.Builder, facts []*lbMemFact) {
	b.WriteString("/-- every LDS / memory access of the methods of the DS / FLAT files, with its direction -/\ndef memFacts : List MemFact := [\n")
	for i, f := range facts {
		sep := ","
		if i == len(facts)-1 {
			sep = ""
		}
		var as []string
		for _, ac := range f.acc {
			as = append(as, fmt.Sprintf("⟨%d, %s, %s, %s⟩", ac.line, leanBool(ac.isLds), leanBool(ac.isWrite), leanBool(ac.loop)))
		}
		fmt.Fprintf(b, "  { arch := %s, name := %s, accesses := [%s], callees := %s }%s\n", leanStr(f.arch), leanStr(f.name), strings.Join(as, ", "), leanStrList(f.callees), sep)
	}
	b.WriteString("]\n\n")
}

// ---------------------------------------------------------------- float32 / float64 data paths
//
// Float values are translated to Lean's `Float32` / `Float` (IEEE binary32/64, opaque to the kernel): the
// proofs about a float handler (`LaneUniform`) concern only how it uses the loop variable, the masks and
// the accumulator; its arithmetic is an uninterpreted function of the lane's own operand values. These
// bodies are NOT tied by the `c06 body` correspondence (NaN payloads, libm vs Go's math package).

func lbFloatKind(ty types.Type) int { // 0 none, 32, 64
	if ty == nil {
		return 0
	}
	b, ok := ty.Underlying().(*types.Basic)
	if !ok {
		return 0
	}
	switch b.Kind() {
	case types.Float32:
		return 32
	case types.Float64, types.UntypedFloat:
		return 64
	}
	return 0
}

func lbFloatTy(k int) string {
	if k == 32 {
		return "Float32"
	}
	return "Float"
}

var lbFloatFromBits = map[string]int{"math.Float32frombits": 32, "asFloat32": 32, "emu.AsFloat32": 32, "AsFloat32": 32,
	"math.Float64frombits": 64, "asFloat64": 64, "emu.AsFloat64": 64, "AsFloat64": 64}
var lbFloatToBits = map[string]int{"math.Float32bits": 32, "float32ToBits": 32, "emu.Float32ToBits": 32, "Float32ToBits": 32,
	"math.Float64bits": 64, "float64ToBits": 64, "emu.Float64ToBits": 64, "Float64ToBits": 64}

// float64 -> float64 functions of Go's math package and their Lean stand-ins (C06.GoF.*)
var lbMath1 = map[string]string{"math.Abs": "Float.abs", "math.Sqrt": "Float.sqrt", "math.Log2": "Float.log2", "math.Exp2": "Float.exp2",
	"math.Trunc": "C06.GoF.trunc", "math.RoundToEven": "C06.GoF.roundToEven", "math.Floor": "Float.floor", "math.Ceil": "Float.ceil",
	"math.Log": "Float.log", "math.Exp": "Float.exp", "math.Sin": "Float.sin", "math.Cos": "Float.cos"}
var lbMath2 = map[string]string{"math.Pow": "Float.pow", "math.Min": "C06.GoF.min", "math.Max": "C06.GoF.max"}

func (c *lbCtx) floatHook(e ast.Expr, env map[string]string) (string, bool) {
	t := c.t
	info := t.info
	if tv, ok := info.Types[e]; ok && tv.Value != nil && lbFloatKind(tv.Type) != 0 {
		// a float constant: exact bits
		f64, _ := constant.Float64Val(constant.ToFloat(tv.Value))
		if lbFloatKind(tv.Type) == 32 {
			return fmt.Sprintf("(Float32.ofBits %d)", math.Float32bits(float32(f64))), true
		}
		return fmt.Sprintf("(Float.ofBits %d)", math.Float64bits(f64)), true
	}
	switch x := e.(type) {
	case *ast.BinaryExpr:
		kx, ky := lbFloatKind(info.TypeOf(x.X)), lbFloatKind(info.TypeOf(x.Y))
		if tv, ok := info.Types[e]; ok && tv.Value != nil && lbFloatKind(tv.Type) != 0 {
			break // float constant expression: literal below
		}
		if kx == 0 && ky == 0 {
			return "", false
		}
		a, b := t.expr(x.X, env), t.expr(x.Y, env)
		switch x.Op {
		case token.ADD:
			return fmt.Sprintf("(%s + %s)", a, b), true
		case token.SUB:
			return fmt.Sprintf("(%s - %s)", a, b), true
		case token.MUL:
			return fmt.Sprintf("(%s * %s)", a, b), true
		case token.QUO:
			return fmt.Sprintf("(%s / %s)", a, b), true
		case token.LSS:
			return fmt.Sprintf("(decide (%s < %s))", a, b), true
		case token.GTR:
			return fmt.Sprintf("(decide (%s < %s))", b, a), true
		case token.LEQ:
			return fmt.Sprintf("(decide (%s ≤ %s))", a, b), true
		case token.GEQ:
			return fmt.Sprintf("(decide (%s ≤ %s))", b, a), true
		case token.EQL:
			return fmt.Sprintf("(%s == %s)", a, b), true
		case token.NEQ:
			return fmt.Sprintf("(%s != %s)", a, b), true
		}
		return t.fail(e, "float operator %s", x.Op), true
	case *ast.UnaryExpr:
		if lbFloatKind(info.TypeOf(x.X)) == 0 {
			return "", false
		}
		if tv, ok := info.Types[e]; ok && tv.Value != nil {
			break
		}
		switch x.Op {
		case token.SUB:
			return "(-" + t.expr(x.X, env) + ")", true
		case token.ADD:
			return t.expr(x.X, env), true
		}
		return t.fail(e, "float unary %s", x.Op), true
	case *ast.CallExpr:
		if tv, ok := info.Types[e]; ok && tv.Value != nil && lbFloatKind(tv.Type) != 0 {
			break
		}
		if tv, ok := info.Types[x.Fun]; ok && tv.IsType() && len(x.Args) == 1 { // conversion
			dk, sk := lbFloatKind(tv.Type), lbFloatKind(info.TypeOf(x.Args[0]))
			if dk == 0 && sk == 0 {
				return "", false
			}
			arg := t.expr(x.Args[0], env)
			switch {
			case dk != 0 && sk != 0:
				switch {
				case dk == sk:
					return arg, true
				case dk == 64:
					return "(Float32.toFloat " + arg + ")", true
				default:
					return "(Float.toFloat32 " + arg + ")", true
				}
			case dk != 0: // integer -> float
				w, sg, ok := basicWS(info.TypeOf(x.Args[0]))
				if !ok || w == 1 {
					return t.fail(e, "conversion of %v to a float", info.TypeOf(x.Args[0])), true
				}
				conv := "BitVec.toNat"
				of := lbFloatTy(dk) + ".ofNat"
				if sg {
					conv, of = "BitVec.toInt", lbFloatTy(dk)+".ofInt"
				}
				return fmt.Sprintf("(%s (%s %s))", of, conv, arg), true
			default: // float -> integer: truncation toward zero (out-of-range values are implementation specific in Go)
				w, sg, ok := basicWS(tv.Type)
				if !ok || w == 1 {
					return t.fail(e, "conversion of a float to %v", tv.Type), true
				}
				if sk == 32 {
					arg = "(Float32.toFloat " + arg + ")"
				}
				c.leaf.inexact = true
				return fmt.Sprintf("(C06.GoF.toInt %d %s %s)", w, leanBool(sg), arg), true
			}
		}
		name := types.ExprString(x.Fun)
		if k, ok := lbFloatFromBits[name]; ok && len(x.Args) == 1 {
			return fmt.Sprintf("(%s.ofBits (UInt%d.ofBitVec %s))", lbFloatTy(k), k, t.expr(x.Args[0], env)), true
		}
		if k, ok := lbFloatToBits[name]; ok && len(x.Args) == 1 {
			return fmt.Sprintf("(%s.toBits %s).toBitVec", lbFloatTy(k), t.expr(x.Args[0], env)), true
		}
		if f, ok := lbMath1[name]; ok && len(x.Args) == 1 {
			if name != "math.Abs" && name != "math.Sqrt" {
				c.leaf.inexact = true
			}
			return fmt.Sprintf("(%s %s)", f, t.expr(x.Args[0], env)), true
		}
		if f, ok := lbMath2[name]; ok && len(x.Args) == 2 {
			c.leaf.inexact = true
			return fmt.Sprintf("(%s %s %s)", f, t.expr(x.Args[0], env), t.expr(x.Args[1], env)), true
		}
		switch name {
		case "math.IsNaN":
			return "(Float.isNaN " + t.expr(x.Args[0], env) + ")", true
		case "math.IsInf":
			c.leaf.inexact = true
			return fmt.Sprintf("(C06.GoF.isInf %s %s)", t.expr(x.Args[0], env), t.expr(x.Args[1], env)), true
		case "math.Signbit":
			c.leaf.inexact = true
			return "(C06.GoF.signbit " + t.expr(x.Args[0], env) + ")", true
		case "math.Inf":
			c.leaf.inexact = true
			return "(C06.GoF.inf " + t.expr(x.Args[0], env) + ")", true
		case "math.NaN":
			c.leaf.inexact = true
			return "C06.GoF.nan", true
		}
		if strings.HasPrefix(name, "math.") {
			return t.fail(e, "call of %s (no Lean stand-in)", name), true
		}
		return "", false
	default:
		return "", false
	}
	return "", false
}
