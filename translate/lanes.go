package main

// C06 — fact records of every vector handler of both ALUs (syntactic, go/parser only).
//
// For each method with a `state` parameter in the vector files of amd/emu and amd/emu/cdna3 this
// extracts: the lane loops (bounds, step, guard on the EXEC bit of the loop variable, break/return),
// every lane-index expression used in ReadOperand/WriteOperand/ReadOperandBytes/WriteOperandBytes and
// in calls of lane-parameterised helpers, how 64-bit mask results (VCC / SGPR pair) are built and where
// they are written back, every use of EXEC/VCC, LDS and memory accesses inside/outside the loop, and
// variables that carry a value from one loop iteration to the next. Plus the opcode switches
// (arch, format, opcode -> handler) of all vector AND scalar formats and, for the scalar handlers,
// whether they touch EXEC. Output: lean/MgpuModel/Gen/VectorHandlers.lean. What the records must
// satisfy is decided in Lean (`C06.FitsSkeleton`, theorem `all_vector_handlers_fit`).
//
// A construct the extractor cannot classify (function literal, goto, `state` handed to an unknown
// function, an unknown `state.` method, a dispatcher without an opcode switch…) is a refusal: exit 1.

import (
	"fmt"
	"go/ast"
	"go/token"
	"regexp"
	"sort"
	"strconv"
	"strings"
)

func init() { extraGens = append(extraGens, gen{"lanes", genLanes}) }

var lanesDispatchers = map[string]string{
	"runVOP1": "vop1", "runVOP2": "vop2", "runVOP3A": "vop3a", "runVOP3B": "vop3b", "runVOPC": "vopc",
	"runDS": "ds", "runFlat": "flat",
	"runSOP1": "sop1", "runSOP2": "sop2", "runSOPC": "sopc", "runSOPK": "sopk", "runSOPP": "sopp", "runSMEM": "smem",
}

var lanesVectorFormats = map[string]bool{"vop1": true, "vop2": true, "vop3a": true, "vop3b": true, "vopc": true, "ds": true, "flat": true}

type lanesArch struct {
	name    string
	dir     string
	vector  []string
	scalar  []string
	recvTyp string
}

var lanesArchs = []lanesArch{
	{"gcn3", "amd/emu", []string{"aluvop1.go", "aluvop2.go", "aluvop3a.go", "aluvop3b.go", "aluvopc.go", "aluds.go", "alu_flat.go"},
		[]string{"alu.go", "alusop1.go", "alusop2.go", "alusopc.go", "alusopk.go"}, "ALUImpl"},
	{"cdna3", "amd/emu/cdna3", []string{"vop1.go", "vop2.go", "vop3a.go", "vop3b.go", "vopc.go", "ds.go", "flat.go"},
		[]string{"sop.go", "sop1.go", "sop2.go", "sopc.go", "sopk.go"}, "ALU"},
}

type lfLoop struct {
	line       int
	lo, hi     int64
	lt, inc    bool
	guard      int // 0 none, 1 `exec&(1<<uint(i)) == 0 {continue}` / `!laneMasked(exec, uint(i))`, 2 other
	hasBreak   bool
	varWritten bool
}

type lfUse struct {
	line    int
	call    string
	operand string
	idx     string // "var" | "lit:N" | "param" | "other:<expr>"
	inLoop  bool
	sink    bool // WriteOperand(<op>, 0, <mask accumulator>)
}

type lfMask struct {
	name       string
	init       int // 0 zero (`var x uint64`), 1 state.VCC(), 2 other
	updBit     int
	updOther   int
	readBit    int
	readOther  int
	sinkAfter  int
	sinkInLoop int
	declaredIn bool // declared inside the lane loop
}

type lfCall struct {
	line    int
	cidx    int // index of the callee's record in vectorHandlers
	callee  string
	laneArg string // "" when the callee has no lane parameter
	inLoop  bool
}

type lfHandler struct {
	name, arch, file string
	line             int
	laneParam        string
	loops            []lfLoop
	uses             []lfUse
	masks            []*lfMask
	calls            []lfCall
	vccInlineBit     int
	vccInlineOther   int
	sinkOther        int
	execAssigns      int
	execOther        int
	setExec          int
	setScc           int
	setPc            int
	ldsIn, ldsOut    int
	memIn, memOut    int
	carried          []string
	staging          []string
}

type lfDispatch struct {
	arch, format string
	op           int64
	handler      string
	hidx         int // index of the handler's record in vectorHandlers / scalarHandlers (witness checked in Lean)
}

type lfScalar struct {
	name, arch, file string
	line             int
	execReads        int
	execWrites       int
	didx             int // index of a dispatch entry that names this handler (witness checked in Lean)
}

func normExpr(n ast.Node) string {
	s := nodeString(n)
	s = strings.Join(strings.Fields(s), "")
	return s
}

// guard / bit patterns; V is replaced by the loop variable
func bitPatterns(v string, x string) (guard, upd, clr, read []*regexp.Regexp) {
	q := regexp.QuoteMeta
	bit := `\(?1<<(uint|uint32|uint64)?\(?` + q(v) + `\)?\)?`
	ubit := `\(?(uint64\(1\)|1)<<(uint|uint32|uint64)?\(?` + q(v) + `\)?\)?`
	sh := `(uint|uint32|uint64)?\(?` + q(v) + `\)?`
	mk := func(p string) *regexp.Regexp { return regexp.MustCompile("^" + p + "$") }
	guard = []*regexp.Regexp{
		mk(`\(?` + q(x) + `&` + bit + `\)?==0`),
		mk(`!(emu\.)?[lL]aneMasked\(` + q(x) + `,uint\(` + q(v) + `\)\)`),
	}
	upd = []*regexp.Regexp{mk(bit), mk(ubit), mk(`[A-Za-z_][A-Za-z0-9_]*<<` + sh)}
	clr = []*regexp.Regexp{mk(`\^` + ubit)}
	read = []*regexp.Regexp{
		mk(q(x) + `&` + bit),
		mk(`\(` + q(x) + `&` + bit + `\)>>` + sh),
		mk(`\(` + q(x) + `>>` + sh + `\)&1`),
		mk(q(x) + `>>` + sh + `&1`),
		mk(`\(?` + q(x) + `&` + bit + `\)?(>0|!=0)`),
	}
	return
}

// selfBitUpdate: `x & ^(uint64(1) << uint(v))` or `x | (1 << uint(v))`
func selfBitUpdate(x, v, rhs string) bool {
	q := regexp.QuoteMeta
	ubit := `\(?(uint64\(1\)|1)<<(uint|uint32|uint64)?\(?` + q(v) + `\)?\)?`
	return regexp.MustCompile(`^`+q(x)+`&\^`+ubit+`$`).MatchString(rhs) || regexp.MustCompile(`^`+q(x)+`\|`+ubit+`$`).MatchString(rhs)
}

func matchAny(rs []*regexp.Regexp, s string) bool {
	for _, r := range rs {
		if r.MatchString(s) {
			return true
		}
	}
	return false
}

type lanesWalker struct {
	h        *lfHandler
	fset     *token.FileSet
	methods  map[string]*ast.FuncDecl
	loopVar  string          // "" outside a lane loop
	loop     *lfLoop         // current lane loop (nil outside)
	brk      bool            // would a `break` here leave the lane loop?
	declIn   map[string]bool // names declared inside the current lane loop
	execVar  string
	ldsVar   string
	maskVars map[string]*lfMask
	bufVars  map[string]bool // `var x [N]byte` declared outside the loop
	parents  []ast.Node
}

func (w *lanesWalker) line(n ast.Node) int { return w.fset.Position(n.Pos()).Line }

func (w *lanesWalker) refuse(n ast.Node, format string, a ...interface{}) {
	fatalf("lanes: %s %s (%s:%d): %s", w.h.arch, w.h.name, w.h.file, w.line(n), fmt.Sprintf(format, a...))
}

func isStateCall(e ast.Expr) (string, *ast.CallExpr) {
	ce, ok := e.(*ast.CallExpr)
	if !ok {
		return "", nil
	}
	se, ok := ce.Fun.(*ast.SelectorExpr)
	if !ok {
		return "", nil
	}
	if id, ok := se.X.(*ast.Ident); ok && id.Name == "state" {
		return se.Sel.Name, ce
	}
	return "", nil
}

func (w *lanesWalker) classifyIdx(e ast.Expr) string {
	switch x := e.(type) {
	case *ast.Ident:
		if w.loopVar != "" && x.Name == w.loopVar {
			return "var"
		}
		if w.h.laneParam != "" && x.Name == w.h.laneParam {
			return "param"
		}
		return "other:" + x.Name
	case *ast.BasicLit:
		if x.Kind == token.INT {
			return "lit:" + x.Value
		}
	}
	return "other:" + normExpr(e)
}

// prescan finds exec / lds / mask-accumulator / staging-buffer variables of the function.
func (w *lanesWalker) prescan(body *ast.BlockStmt) {
	w.maskVars = map[string]*lfMask{}
	w.bufVars = map[string]bool{}
	sunk := map[string]bool{}
	ast.Inspect(body, func(n ast.Node) bool {
		switch x := n.(type) {
		case *ast.FuncLit:
			w.refuse(n, "function literal")
		case *ast.GoStmt, *ast.DeferStmt, *ast.SelectStmt, *ast.LabeledStmt:
			w.refuse(n, "go/defer/select/label statement")
		case *ast.BranchStmt:
			if x.Tok == token.GOTO || x.Label != nil {
				w.refuse(n, "goto / labelled branch")
			}
		case *ast.CallExpr:
			if name, ce := isStateCall(x); ce != nil {
				switch name {
				case "SetVCC":
					if id, ok := ce.Args[0].(*ast.Ident); ok {
						sunk[id.Name] = true
					}
				case "WriteOperand":
					if len(ce.Args) == 3 {
						if bl, ok := ce.Args[1].(*ast.BasicLit); ok && bl.Value == "0" {
							if id, ok := ce.Args[2].(*ast.Ident); ok {
								sunk[id.Name] = true
							}
						}
					}
				}
			}
		}
		return true
	})
	ast.Inspect(body, func(n ast.Node) bool {
		switch x := n.(type) {
		case *ast.AssignStmt:
			if x.Tok == token.DEFINE && len(x.Lhs) == 1 && len(x.Rhs) == 1 {
				id, ok := x.Lhs[0].(*ast.Ident)
				if !ok {
					return true
				}
				if name, _ := isStateCall(x.Rhs[0]); name == "EXEC" {
					w.h.execAssigns++
					w.execVar = id.Name
				} else if name == "VCC" {
					w.maskVars[id.Name] = &lfMask{name: id.Name, init: 1}
				} else if ns := normExpr(x.Rhs[0]); ns == "u.LDS()" || ns == "u.lds" {
					w.ldsVar = id.Name
				} else if sunk[id.Name] {
					in := 2
					if ns == "uint64(0)" {
						in = 0
					}
					w.maskVars[id.Name] = &lfMask{name: id.Name, init: in}
				}
			}
		case *ast.DeclStmt:
			gd := x.Decl.(*ast.GenDecl)
			if gd.Tok != token.VAR {
				return true
			}
			for _, sp := range gd.Specs {
				vs := sp.(*ast.ValueSpec)
				for _, nm := range vs.Names {
					if at, ok := vs.Type.(*ast.ArrayType); ok && at.Len != nil && normExpr(at.Elt) == "byte" {
						w.bufVars[nm.Name] = true
					}
					if sunk[nm.Name] {
						in := 2
						if len(vs.Values) == 0 && vs.Type != nil && normExpr(vs.Type) == "uint64" {
							in = 0
						}
						w.maskVars[nm.Name] = &lfMask{name: nm.Name, init: in}
					}
				}
			}
		}
		return true
	})
	names := []string{}
	for k := range w.maskVars {
		names = append(names, k)
	}
	sort.Strings(names)
	for _, k := range names {
		w.h.masks = append(w.h.masks, w.maskVars[k])
	}
}

func containsInteresting(n ast.Node, execVar string) bool {
	found := false
	ast.Inspect(n, func(m ast.Node) bool {
		switch x := m.(type) {
		case *ast.Ident:
			if x.Name == "state" || x.Name == "storageAccessor" || (execVar != "" && x.Name == execVar) || x.Name == "lds" {
				found = true
			}
		}
		return !found
	})
	return found
}

func (w *lanesWalker) enterLoop(fs *ast.ForStmt) {
	lp := lfLoop{line: w.line(fs), lo: -1, hi: -1}
	v := ""
	if as, ok := fs.Init.(*ast.AssignStmt); ok && as.Tok == token.DEFINE && len(as.Lhs) == 1 && len(as.Rhs) == 1 {
		if id, ok := as.Lhs[0].(*ast.Ident); ok {
			v = id.Name
			if c, ok := constInt(as.Rhs[0], nil); ok {
				lp.lo = c
			}
		}
	}
	if v == "" {
		w.refuse(fs, "lane loop without `v := <const>` initialisation")
	}
	if be, ok := fs.Cond.(*ast.BinaryExpr); ok {
		if id, ok := be.X.(*ast.Ident); ok && id.Name == v {
			if c, ok := constInt(be.Y, nil); ok {
				lp.hi = c
			}
			lp.lt = be.Op == token.LSS
		}
	}
	if inc, ok := fs.Post.(*ast.IncDecStmt); ok && inc.Tok == token.INC {
		if id, ok := inc.X.(*ast.Ident); ok && id.Name == v {
			lp.inc = true
		}
	}
	// guard: first statement of the body
	if len(fs.Body.List) > 0 {
		if is, ok := fs.Body.List[0].(*ast.IfStmt); ok && is.Init == nil && is.Else == nil && w.execVar != "" {
			g, _, _, _ := bitPatterns(v, w.execVar)
			isCont := len(is.Body.List) == 1
			if isCont {
				bs, ok := is.Body.List[0].(*ast.BranchStmt)
				isCont = ok && bs.Tok == token.CONTINUE
			}
			if matchAny(g, normExpr(is.Cond)) && isCont {
				lp.guard = 1
			} else if strings.Contains(normExpr(is.Cond), w.execVar) {
				lp.guard = 2
			}
		}
	}
	w.h.loops = append(w.h.loops, lp)
	w.loop = &w.h.loops[len(w.h.loops)-1]
	w.brk = true
	w.loopVar = v
	w.declIn = map[string]bool{}
	// names declared in the loop body
	ast.Inspect(fs.Body, func(n ast.Node) bool {
		switch x := n.(type) {
		case *ast.AssignStmt:
			if x.Tok == token.DEFINE {
				for _, l := range x.Lhs {
					if id, ok := l.(*ast.Ident); ok {
						w.declIn[id.Name] = true
					}
				}
			}
		case *ast.DeclStmt:
			for _, sp := range x.Decl.(*ast.GenDecl).Specs {
				if vs, ok := sp.(*ast.ValueSpec); ok {
					for _, nm := range vs.Names {
						w.declIn[nm.Name] = true
						if m, ok := w.maskVars[nm.Name]; ok {
							m.declaredIn = true
						}
					}
				}
			}
		case *ast.RangeStmt:
			for _, e := range []ast.Expr{x.Key, x.Value} {
				if id, ok := e.(*ast.Ident); ok {
					w.declIn[id.Name] = true
				}
			}
		}
		return true
	})
}

func rootIdent(e ast.Expr) string {
	for {
		switch x := e.(type) {
		case *ast.Ident:
			return x.Name
		case *ast.IndexExpr:
			e = x.X
		case *ast.SliceExpr:
			e = x.X
		case *ast.ParenExpr:
			e = x.X
		case *ast.StarExpr:
			e = x.X
		case *ast.SelectorExpr:
			e = x.X
		default:
			return ""
		}
	}
}

func (w *lanesWalker) noteOuterWrite(name string) {
	if name == "" || name == "_" || w.loopVar == "" || w.declIn[name] {
		return
	}
	if name == w.loopVar {
		w.loop.varWritten = true
		return
	}
	if _, ok := w.maskVars[name]; ok {
		return
	}
	if name == w.ldsVar || name == "lds" {
		return
	}
	add := func(l *[]string) {
		for _, x := range *l {
			if x == name {
				return
			}
		}
		*l = append(*l, name)
	}
	if w.bufVars[name] {
		add(&w.h.staging)
	} else {
		add(&w.h.carried)
	}
}

// maskOccurrence classifies one occurrence of a tracked mask variable that is not an update / sink.
func (w *lanesWalker) maskRead(m *lfMask, id *ast.Ident) {
	if w.loopVar == "" {
		m.readOther++
		return
	}
	_, _, _, read := bitPatterns(w.loopVar, m.name)
	// try the enclosing expressions, innermost first
	for k := len(w.parents) - 2; k >= 0 && k >= len(w.parents)-6; k-- {
		switch w.parents[k].(type) {
		case *ast.BinaryExpr, *ast.ParenExpr:
			if matchAny(read, normExpr(w.parents[k])) {
				m.readBit++
				return
			}
		default:
			k = -1
		}
	}
	m.readOther++
}

func (w *lanesWalker) walk(n ast.Node) {
	if n == nil {
		return
	}
	w.parents = append(w.parents, n)
	defer func() { w.parents = w.parents[:len(w.parents)-1] }()
	inLoop := w.loopVar != ""
	switch x := n.(type) {
	case *ast.ForStmt:
		if !inLoop && containsInteresting(x, w.execVar) {
			w.enterLoop(x)
			w.walk(x.Body)
			w.loopVar, w.loop, w.declIn, w.brk = "", nil, nil, false
			return
		}
		// an inner loop (or a plain computation loop): a break inside it belongs to it
		save := w.brk
		w.brk = false
		for _, c := range children(n) {
			w.walk(c)
		}
		w.brk = save
		return
	case *ast.RangeStmt:
		if !inLoop && containsInteresting(x, w.execVar) {
			w.refuse(x, "range loop touching state/exec/memory outside a lane loop")
		}
		save := w.brk
		w.brk = false
		w.walk(x.X)
		w.walk(x.Body)
		w.brk = save
		return
	case *ast.SwitchStmt, *ast.TypeSwitchStmt:
		save := w.brk
		w.brk = false // a break inside a switch leaves the switch
		for _, c := range children(n) {
			w.walk(c)
		}
		w.brk = save
		return
	case *ast.BranchStmt:
		if x.Tok == token.BREAK && w.brk && w.loop != nil {
			w.loop.hasBreak = true
		}
		return
	case *ast.ReturnStmt:
		if w.loop != nil {
			w.loop.hasBreak = true
		}
	case *ast.DeclStmt:
		for _, sp := range x.Decl.(*ast.GenDecl).Specs {
			if vs, ok := sp.(*ast.ValueSpec); ok {
				for _, v := range vs.Values {
					w.walk(v)
				}
			}
		}
		return
	case *ast.IncDecStmt:
		w.noteOuterWrite(rootIdent(x.X))
	case *ast.AssignStmt:
		// mask updates
		if len(x.Lhs) == 1 && len(x.Rhs) == 1 {
			if id, ok := x.Lhs[0].(*ast.Ident); ok {
				if m, ok := w.maskVars[id.Name]; ok && x.Tok != token.DEFINE {
					_, upd, clr, _ := bitPatterns(w.loopVar, m.name)
					rhs := normExpr(x.Rhs[0])
					switch {
					case inLoop && x.Tok == token.OR_ASSIGN && matchAny(upd, rhs):
						m.updBit++
					case inLoop && x.Tok == token.AND_ASSIGN && matchAny(clr, rhs):
						m.updBit++
					case inLoop && x.Tok == token.AND_NOT_ASSIGN && matchAny(upd, rhs):
						m.updBit++
					case inLoop && x.Tok == token.ASSIGN && selfBitUpdate(m.name, w.loopVar, rhs):
						m.updBit++
						return // the right-hand side mentions the variable itself only as `x & ^bit` / `x | bit`
					default:
						m.updOther++
					}
					w.walk(x.Rhs[0])
					return
				}
			}
		}
		if x.Tok != token.DEFINE {
			for _, l := range x.Lhs {
				w.noteOuterWrite(rootIdent(l))
			}
		}
		for _, l := range x.Lhs {
			if _, ok := l.(*ast.Ident); !ok {
				w.walk(l)
			}
		}
		for _, r := range x.Rhs {
			w.walk(r)
		}
		return
	case *ast.CallExpr:
		w.call(x)
		return
	case *ast.IndexExpr, *ast.SliceExpr:
		if id := rootIdent(x.(ast.Expr)); id != "" && (id == w.ldsVar || id == "lds") {
			if inLoop {
				w.h.ldsIn++
			} else {
				w.h.ldsOut++
			}
			// walk only the index expressions
			switch y := x.(type) {
			case *ast.IndexExpr:
				w.walk(y.Index)
			case *ast.SliceExpr:
				w.walk(y.Low)
				w.walk(y.High)
			}
			return
		}
	case *ast.Ident:
		if x.Name == w.execVar && w.execVar != "" {
			// allowed only inside the guard of a lane loop (handled in enterLoop: the guard `if` is walked too)
			ok := false
			for k := len(w.parents) - 2; k >= 0; k-- {
				if is, isIf := w.parents[k].(*ast.IfStmt); isIf {
					g, _, _, _ := bitPatterns(w.loopVar, w.execVar)
					if inLoop && matchAny(g, normExpr(is.Cond)) {
						ok = true
					}
					break
				}
			}
			if !ok {
				w.h.execOther++
			}
		}
		if m, ok := w.maskVars[x.Name]; ok {
			w.maskRead(m, x)
		}
		if x.Name == "state" {
			// `state` as a bare value (not state.Method(...)): handled in call(); anything else is unknown
			if len(w.parents) >= 2 {
				switch p := w.parents[len(w.parents)-2].(type) {
				case *ast.SelectorExpr:
					_ = p
				default:
					w.refuse(x, "`state` used as a value outside a recognised call")
				}
			}
		}
		return
	}
	// generic descent
	for _, c := range children(n) {
		w.walk(c)
	}
}

func children(n ast.Node) []ast.Node {
	var out []ast.Node
	first := true
	ast.Inspect(n, func(m ast.Node) bool {
		if first {
			first = false
			return true
		}
		if m != nil {
			out = append(out, m)
		}
		return false
	})
	return out
}

var lanesOperandCalls = map[string]bool{"ReadOperand": true, "WriteOperand": true, "ReadOperandBytes": true, "WriteOperandBytes": true}

func (w *lanesWalker) call(ce *ast.CallExpr) {
	inLoop := w.loopVar != ""
	walkArgs := func(skip map[int]bool) {
		for i, a := range ce.Args {
			if !skip[i] {
				w.walk(a)
			}
		}
	}
	if name, _ := isStateCall(ce); name != "" {
		switch {
		case lanesOperandCalls[name]:
			op := normExpr(ce.Args[0])
			op = strings.TrimPrefix(op, "inst.")
			u := lfUse{line: w.line(ce), call: name, operand: op, idx: w.classifyIdx(ce.Args[1]), inLoop: inLoop}
			skip := map[int]bool{0: true, 1: true}
			if name == "WriteOperand" && len(ce.Args) == 3 {
				if id, ok := ce.Args[2].(*ast.Ident); ok {
					if m, ok := w.maskVars[id.Name]; ok && u.idx == "lit:0" {
						u.sink = true
						skip[2] = true
						if inLoop {
							m.sinkInLoop++
						} else {
							m.sinkAfter++
						}
					}
				}
			}
			w.h.uses = append(w.h.uses, u)
			walkArgs(skip)
		case name == "SetVCC":
			if id, ok := ce.Args[0].(*ast.Ident); ok {
				if m, ok := w.maskVars[id.Name]; ok {
					if inLoop {
						m.sinkInLoop++
					} else {
						m.sinkAfter++
					}
					return
				}
			}
			if bl, ok := ce.Args[0].(*ast.BasicLit); ok && bl.Value == "0" && !inLoop {
				return // SetVCC(0) outside a loop: the all-false mask (v_cmp_f_*)
			}
			w.h.sinkOther++
			walkArgs(nil)
		case name == "VCC":
			// inline read: must be `state.VCC() & (1<<uint(i))`-like
			ok := false
			if inLoop {
				_, _, _, read := bitPatterns(w.loopVar, "state.VCC()")
				for k := len(w.parents) - 2; k >= 0 && k >= len(w.parents)-6; k-- {
					switch w.parents[k].(type) {
					case *ast.BinaryExpr, *ast.ParenExpr:
						if matchAny(read, normExpr(w.parents[k])) {
							ok = true
						}
					default:
						k = -1
					}
				}
			}
			// `x := state.VCC()` is recorded as a mask variable in prescan
			if len(w.parents) >= 2 {
				if as, isAs := w.parents[len(w.parents)-2].(*ast.AssignStmt); isAs && as.Tok == token.DEFINE {
					return
				}
			}
			if ok {
				w.h.vccInlineBit++
			} else {
				w.h.vccInlineOther++
			}
		case name == "EXEC":
			if len(w.parents) >= 2 {
				if as, isAs := w.parents[len(w.parents)-2].(*ast.AssignStmt); isAs && as.Tok == token.DEFINE {
					return
				}
			}
			w.h.execOther++
		case name == "SetEXEC":
			w.h.setExec++
			walkArgs(nil)
		case name == "SetSCC":
			w.h.setScc++
			walkArgs(nil)
		case name == "SetPC":
			w.h.setPc++
			walkArgs(nil)
		case name == "SCC" || name == "PC" || name == "Inst" || name == "PID":
		default:
			w.refuse(ce, "unknown method state.%s", name)
		}
		return
	}
	// u.<method>(...)
	if se, ok := ce.Fun.(*ast.SelectorExpr); ok {
		if ns := normExpr(se); ns == "u.storageAccessor.Read" || ns == "u.storageAccessor.Write" {
			if inLoop {
				w.h.memIn++
			} else {
				w.h.memOut++
			}
			walkArgs(nil)
			return
		}
		if id, ok := se.X.(*ast.Ident); ok && id.Name == "u" {
			passesState := false
			for _, a := range ce.Args {
				if aid, ok := a.(*ast.Ident); ok && aid.Name == "state" {
					passesState = true
				}
			}
			callee := se.Sel.Name
			if passesState {
				fd, ok := w.methods[callee]
				if !ok {
					w.refuse(ce, "`state` passed to unknown method u.%s", callee)
				}
				c := lfCall{line: w.line(ce), callee: callee, inLoop: inLoop}
				pos := 0
				skip := map[int]bool{}
				for _, f := range fd.Type.Params.List {
					for _, nm := range f.Names {
						if isLaneParamName(nm.Name) && normExpr(f.Type) == "int" && pos < len(ce.Args) {
							c.laneArg = w.classifyIdx(ce.Args[pos])
							skip[pos] = true
						}
						if nm.Name == "state" {
							skip[pos] = true
						}
						pos++
					}
				}
				w.h.calls = append(w.h.calls, c)
				walkArgs(skip)
				return
			}
			walkArgs(nil)
			return
		}
	}
	// copy(dst, src): a write to dst
	if id, ok := ce.Fun.(*ast.Ident); ok && id.Name == "copy" && len(ce.Args) == 2 {
		w.noteOuterWrite(rootIdent(ce.Args[0]))
	}
	for _, a := range ce.Args {
		if aid, ok := a.(*ast.Ident); ok && aid.Name == "state" {
			w.refuse(ce, "`state` passed to an unknown function %s", normExpr(ce.Fun))
		}
	}
	w.walk(ce.Fun)
	walkArgs(nil)
}

func isLaneParamName(s string) bool { return s == "laneID" || s == "lane" || s == "laneId" }

func stateParam(fd *ast.FuncDecl) bool {
	if fd.Type.Params == nil {
		return false
	}
	for _, f := range fd.Type.Params.List {
		for _, nm := range f.Names {
			if nm.Name == "state" {
				return true
			}
		}
		if t := normExpr(f.Type); strings.HasSuffix(t, "InstEmuState") && len(f.Names) == 0 {
			return true
		}
	}
	return false
}

func lanesDispatch(arch string, fd *ast.FuncDecl, format string, fset *token.FileSet) []lfDispatch {
	var out []lfDispatch
	found := false
	ast.Inspect(fd.Body, func(n ast.Node) bool {
		sw, ok := n.(*ast.SwitchStmt)
		if !ok {
			return true
		}
		if sw.Tag == nil || normExpr(sw.Tag) != "inst.Opcode" {
			fatalf("lanes: %s %s: switch on %s instead of inst.Opcode", arch, fd.Name.Name, normExpr(sw.Tag))
		}
		if found {
			fatalf("lanes: %s %s: more than one opcode switch", arch, fd.Name.Name)
		}
		found = true
		for _, st := range sw.Body.List {
			cc := st.(*ast.CaseClause)
			if cc.List == nil {
				continue // default
			}
			handler := ""
			for _, b := range cc.Body {
				ast.Inspect(b, func(m ast.Node) bool {
					if ce, ok := m.(*ast.CallExpr); ok && handler == "" {
						if se, ok := ce.Fun.(*ast.SelectorExpr); ok {
							if id, ok := se.X.(*ast.Ident); ok && id.Name == "u" {
								handler = se.Sel.Name
							}
						}
					}
					return true
				})
			}
			for _, e := range cc.List {
				v, ok := constInt(e, nil)
				if !ok {
					fatalf("lanes: %s %s: case label %s is not an integer literal", arch, fd.Name.Name, normExpr(e))
				}
				out = append(out, lfDispatch{arch, format, v, handler, 0})
			}
		}
		return false
	})
	if !found {
		fatalf("lanes: %s %s: no `switch inst.Opcode`", arch, fd.Name.Name)
	}
	return out
}

func leanIdx(s string) string {
	switch {
	case s == "var":
		return ".loopVar"
	case s == "param":
		return ".param"
	case strings.HasPrefix(s, "lit:"):
		v, err := strconv.ParseInt(s[4:], 0, 64)
		if err != nil || v < 0 {
			return ".other " + leanStr(s[4:])
		}
		return fmt.Sprintf(".lit %d", v)
	case s == "":
		return ".noLane"
	}
	return ".other " + leanStr(strings.TrimPrefix(s, "other:"))
}

func leanBool(b bool) string {
	if b {
		return "true"
	}
	return "false"
}

func leanStrList(l []string) string {
	q := make([]string, len(l))
	for i, s := range l {
		q[i] = leanStr(s)
	}
	return "[" + strings.Join(q, ", ") + "]"
}

func genLanes() {
	var handlers []*lfHandler
	var dispatch []lfDispatch
	var scalars []lfScalar
	for _, ar := range lanesArchs {
		type fileDecl struct {
			file string
			fd   *ast.FuncDecl
			fset *token.FileSet
			vec  bool
		}
		var decls []fileDecl
		methods := map[string]*ast.FuncDecl{}
		for pass, files := range [][]string{ar.vector, ar.scalar} {
			for _, fn := range files {
				fset, f := parseFile(ar.dir + "/" + fn)
				for _, d := range f.Decls {
					fd, ok := d.(*ast.FuncDecl)
					if !ok || fd.Body == nil {
						continue
					}
					if fd.Recv == nil {
						if stateParam(fd) {
							fatalf("lanes: %s/%s: plain function %s takes the emulation state (unknown shape)", ar.dir, fn, fd.Name.Name)
						}
						continue
					}
					if rt := normExpr(fd.Recv.List[0].Type); rt != "*"+ar.recvTyp {
						fatalf("lanes: %s/%s: method %s has receiver %s, expected *%s", ar.dir, fn, fd.Name.Name, rt, ar.recvTyp)
					}
					methods[fd.Name.Name] = fd
					rel := fn
					if ar.name == "cdna3" {
						rel = "cdna3/" + fn
					}
					decls = append(decls, fileDecl{rel, fd, fset, pass == 0})
				}
			}
		}
		for _, d := range decls {
			fd := d.fd
			if format, ok := lanesDispatchers[fd.Name.Name]; ok {
				if d.vec != lanesVectorFormats[format] {
					fatalf("lanes: %s: dispatcher %s found in an unexpected file %s", ar.name, fd.Name.Name, d.file)
				}
				dispatch = append(dispatch, lanesDispatch(ar.name, fd, format, d.fset)...)
				continue
			}
			if !stateParam(fd) {
				continue // pure helper (sdwaSrcSelect, …): cannot touch lanes
			}
			line := d.fset.Position(fd.Pos()).Line
			if !d.vec {
				sc := lfScalar{name: fd.Name.Name, arch: ar.name, file: d.file, line: line}
				ast.Inspect(fd.Body, func(n ast.Node) bool {
					if name, ce := isStateCall2(n); ce != nil {
						switch name {
						case "EXEC":
							sc.execReads++
						case "SetEXEC":
							sc.execWrites++
						}
					}
					return true
				})
				scalars = append(scalars, sc)
				continue
			}
			h := &lfHandler{name: fd.Name.Name, arch: ar.name, file: d.file, line: line}
			for _, f := range fd.Type.Params.List {
				for _, nm := range f.Names {
					if isLaneParamName(nm.Name) && normExpr(f.Type) == "int" {
						h.laneParam = nm.Name
					}
				}
			}
			w := &lanesWalker{h: h, fset: d.fset, methods: methods}
			w.prescan(fd.Body)
			w.walk(fd.Body)
			if len(h.loops) == 0 && len(h.uses) == 0 && len(h.calls) == 0 && h.laneParam == "" && h.execAssigns+h.execOther > 0 {
				fatalf("lanes: %s %s (%s:%d): reads EXEC but has no lane loop, operand access or helper call (cannot classify)", ar.name, h.name, h.file, h.line)
			}
			handlers = append(handlers, h)
		}
	}
	sort.SliceStable(dispatch, func(i, j int) bool {
		a, b := dispatch[i], dispatch[j]
		if a.arch != b.arch {
			return a.arch < b.arch
		}
		if a.format != b.format {
			return a.format < b.format
		}
		return a.op < b.op
	})

	// witnesses (indices) so that Lean checks name resolution with one comparison instead of a search
	vidx, sidx := map[string]int{}, map[string]int{}
	for i, h := range handlers {
		vidx[h.arch+"."+h.name] = i
	}
	for i, s := range scalars {
		sidx[s.arch+"."+s.name] = i
	}
	none := 1000000
	for i := range dispatch {
		d := &dispatch[i]
		d.hidx = none
		m := sidx
		if lanesVectorFormats[d.format] {
			m = vidx
		}
		if k, ok := m[d.arch+"."+d.handler]; ok {
			d.hidx = k
		}
	}
	for i := range scalars {
		scalars[i].didx = none
		for k, d := range dispatch {
			if d.arch == scalars[i].arch && d.handler == scalars[i].name {
				scalars[i].didx = k
				break
			}
		}
	}
	for _, h := range handlers {
		for i := range h.calls {
			h.calls[i].cidx = none
			if k, ok := vidx[h.arch+"."+h.calls[i].callee]; ok {
				h.calls[i].cidx = k
			}
		}
	}

	var b strings.Builder
	b.WriteString("-- GENERATED by /verif/translate (lanes.go) from amd/emu/{aluv*,aluds,alu_flat,alusop*,alu}.go and amd/emu/cdna3/*.go; do not edit\n")
	b.WriteString("import MgpuModel.C06_Facts\nnamespace Gen\nopen C06Facts\n\n")
	for _, h := range handlers {
		fmt.Fprintf(&b, "def vh_%s_%s : VectorHandler :=\n", h.arch, h.name)
		fmt.Fprintf(&b, "  { name := %s, arch := %s, file := %s, line := %d, isHelper := %s\n", leanStr(h.name), leanStr(h.arch), leanStr(h.file), h.line, leanBool(h.laneParam != ""))
		b.WriteString("    loops := [")
		for i, l := range h.loops {
			if i > 0 {
				b.WriteString(", ")
			}
			fmt.Fprintf(&b, "{ line := %d, lo := %d, hi := %d, lt := %s, inc := %s, guard := %d, hasBreak := %s, varWritten := %s }",
				l.line, l.lo, l.hi, leanBool(l.lt), leanBool(l.inc), l.guard, leanBool(l.hasBreak), leanBool(l.varWritten))
		}
		b.WriteString("]\n    uses := [")
		for i, u := range h.uses {
			if i > 0 {
				b.WriteString(", ")
			}
			fmt.Fprintf(&b, "{ line := %d, call := %s, operand := %s, idx := %s, inLoop := %s, sink := %s }",
				u.line, leanStr(u.call), leanStr(u.operand), leanIdx(u.idx), leanBool(u.inLoop), leanBool(u.sink))
		}
		b.WriteString("]\n    masks := [")
		for i, m := range h.masks {
			if i > 0 {
				b.WriteString(", ")
			}
			fmt.Fprintf(&b, "{ name := %s, init := %d, updBit := %d, updOther := %d, readBit := %d, readOther := %d, sinkAfter := %d, sinkInLoop := %d, declaredInLoop := %s }",
				leanStr(m.name), m.init, m.updBit, m.updOther, m.readBit, m.readOther, m.sinkAfter, m.sinkInLoop, leanBool(m.declaredIn))
		}
		b.WriteString("]\n    calls := [")
		for i, c := range h.calls {
			if i > 0 {
				b.WriteString(", ")
			}
			fmt.Fprintf(&b, "{ line := %d, callee := %s, calleeIdx := %d, laneArg := %s, inLoop := %s }", c.line, leanStr(c.callee), c.cidx, leanIdx(c.laneArg), leanBool(c.inLoop))
		}
		fmt.Fprintf(&b, "]\n    vccInlineBit := %d, vccInlineOther := %d, sinkOther := %d, execAssigns := %d, execOther := %d, setExec := %d, setScc := %d, setPc := %d\n",
			h.vccInlineBit, h.vccInlineOther, h.sinkOther, h.execAssigns, h.execOther, h.setExec, h.setScc, h.setPc)
		fmt.Fprintf(&b, "    ldsIn := %d, ldsOut := %d, memIn := %d, memOut := %d, carried := %s, staging := %s }\n\n",
			h.ldsIn, h.ldsOut, h.memIn, h.memOut, leanStrList(h.carried), leanStrList(h.staging))
	}
	b.WriteString("def vectorHandlers : List VectorHandler := [\n")
	for i, h := range handlers {
		sep := ","
		if i == len(handlers)-1 {
			sep = ""
		}
		fmt.Fprintf(&b, "  vh_%s_%s%s\n", h.arch, h.name, sep)
	}
	b.WriteString("]\n\n")
	b.WriteString("/-- the opcode switches: (arch, format, opcode, handler called) -/\ndef dispatch : List Dispatch := [\n")
	for i, d := range dispatch {
		sep := ","
		if i == len(dispatch)-1 {
			sep = ""
		}
		fmt.Fprintf(&b, "  ⟨%s, %s, %d, %s, %d⟩%s\n", leanStr(d.arch), leanStr(d.format), d.op, leanStr(d.handler), d.hidx, sep)
	}
	b.WriteString("]\n\n")
	b.WriteString("/-- scalar handlers and their direct uses of EXEC -/\ndef scalarHandlers : List ScalarHandler := [\n")
	for i, s := range scalars {
		sep := ","
		if i == len(scalars)-1 {
			sep = ""
		}
		fmt.Fprintf(&b, "  ⟨%s, %s, %s, %d, %d, %d, %d⟩%s\n", leanStr(s.name), leanStr(s.arch), leanStr(s.file), s.line, s.execReads, s.execWrites, s.didx, sep)
	}
	b.WriteString("]\n\nend Gen\n")
	writeIfChanged("VectorHandlers.lean", b.String())
	fmt.Printf("NOTE lanes: %d vector handler records, %d dispatch entries, %d scalar handlers\n", len(handlers), len(dispatch), len(scalars))
	genLaneBodies(handlers)
}

func isStateCall2(n ast.Node) (string, *ast.CallExpr) {
	if e, ok := n.(ast.Expr); ok {
		return isStateCall(e)
	}
	return "", nil
}
