package main

import (
	"fmt"
	"go/ast"
	"go/token"
	"path/filepath"
	"strconv"
	"strings"
)

// genC07 (property C07) reads the table-like and straight-line parts of the code behind the two
// register stores and the code that initialises / releases a wavefront's registers:
//
//   - amd/emu/wavefront.go: the sizes of the two files NewWavefront allocates, the length of ReadReg's
//     buffer, the SGPR / VGPR offset formulas of ReadReg, WriteReg and readRegOperand, the masks and
//     shifts of the half-register writes of WriteReg, the offset formula of VRegValue;
//   - amd/timing/cu/registerfile.go: the two offset formulas of getRegOffset, the size formulas of
//     Read and Write;
//   - amd/timing/cu/regfileaccessor.go: the masks and shifts of WriteReg;
//   - amd/timing/cu/cubuilder.go, computeunit.go: the lane strides and sizes of the register files the
//     builder creates, the builder's default register counts, what the CU reports to the dispatcher
//     (WfPoolSizes, VRegCounts, SRegCount, LDSBytes), the RegCount of a returning scalar load;
//   - amd/timing/cp/internal/resource: the byte offsets of a WfLocation, the granularities, the mask
//     sizes;
//   - amd/timing/cu/scheduler.go: resetRegisterValue (lane loop bound, lane offset, data lengths);
//   - amd/timing/cu/wfdispatcher.go initRegisters and amd/emu/computeunit.go initWfRegs: the sequence
//     of ABI blocks (`if co.EnableSgpr… { [write] SGPRPtr += n }`), refused unless both functions give
//     the same sequence; the V5 packing shifts, the VGPR indices, the work-item-id thresholds, the
//     number of lanes;
//   - amd/timing/cu/scalarunit.go, amd/insts/reg.go: the destination register of a scalar load piece,
//     RegIndex's fall-through value, SReg / VReg.
//
// MgpuProofs/Props/C07Tie.lean proves that the hand-written model (MgpuModel/C07_Core.lean,
// C07_Disp.lean, C09_Res.lean) uses exactly these constants and formulas: a changed constant breaks a
// proof obligation, not only the sampled correspondence. Unknown shapes are refused.
func init() { extraGens = append(extraGens, gen{"c07", genC07}) }

func c07Fail(format string, a ...interface{}) { fatalf("c07: "+format, a...) }

// c07Lean renders an integer expression as a Lean Nat term. `vars` maps the normalised text of a Go
// sub-expression to a Lean variable; conversions uint64(x) / int(x) / uint32(x) are dropped (the
// caller knows the values are non-negative and in range); only literals, + * / and parentheses are
// accepted besides.
func c07Lean(e ast.Expr, vars map[string]string, where string) string {
	if v, ok := vars[c05Text(e)]; ok {
		return v
	}
	switch x := e.(type) {
	case *ast.BasicLit:
		if x.Kind == token.INT {
			v, err := strconv.ParseUint(x.Value, 0, 64)
			if err != nil {
				c07Fail("%s: literal %s", where, x.Value)
			}
			return strconv.FormatUint(v, 10)
		}
	case *ast.ParenExpr:
		return c07Lean(x.X, vars, where)
	case *ast.CallExpr:
		if id, ok := x.Fun.(*ast.Ident); ok && len(x.Args) == 1 && (id.Name == "uint64" || id.Name == "int" || id.Name == "uint32") {
			return c07Lean(x.Args[0], vars, where)
		}
	case *ast.BinaryExpr:
		switch x.Op {
		case token.ADD, token.MUL, token.QUO:
			return "(" + c07Lean(x.X, vars, where) + " " + x.Op.String() + " " + c07Lean(x.Y, vars, where) + ")"
		}
	}
	c07Fail("%s: expression %q has an unsupported shape", where, c05Text(e))
	return ""
}

func c07Lit(e ast.Expr, where string) uint64 {
	for {
		p, ok := e.(*ast.ParenExpr)
		if !ok {
			break
		}
		e = p.X
	}
	if c, ok := e.(*ast.CallExpr); ok && len(c.Args) == 1 {
		if id, ok := c.Fun.(*ast.Ident); ok && (id.Name == "uint64" || id.Name == "int" || id.Name == "uint32") {
			return c07Lit(c.Args[0], where)
		}
	}
	l, ok := e.(*ast.BasicLit)
	if !ok || l.Kind != token.INT {
		c07Fail("%s: %q is not an integer literal", where, c05Text(e))
	}
	v, err := strconv.ParseUint(l.Value, 0, 64)
	if err != nil {
		c07Fail("%s: literal %s", where, l.Value)
	}
	return v
}

// c07Walk visits every statement of a statement list together with the path of conditions that
// guard it. An else-if chain is flat (the path element is the condition of the branch), a final
// else is `!(cond)`, a case clause is `case a, b`; loops add nothing.
func c07Walk(list []ast.Stmt, path []string, f func(list []ast.Stmt, i int, path []string)) {
	for i, s := range list {
		f(list, i, path)
		switch x := s.(type) {
		case *ast.IfStmt:
			c07WalkIf(x, path, f)
		case *ast.ForStmt:
			c07Walk(x.Body.List, path, f)
		case *ast.RangeStmt:
			c07Walk(x.Body.List, path, f)
		case *ast.BlockStmt:
			c07Walk(x.List, path, f)
		case *ast.SwitchStmt:
			for _, c := range x.Body.List {
				cc := c.(*ast.CaseClause)
				var names []string
				for _, e := range cc.List {
					names = append(names, c05Text(e))
				}
				c07Walk(cc.Body, append(append([]string{}, path...), "case "+strings.Join(names, ", ")), f)
			}
		}
	}
}

func c07WalkIf(x *ast.IfStmt, path []string, f func(list []ast.Stmt, i int, path []string)) {
	cond := c05Text(x.Cond)
	c07Walk(x.Body.List, append(append([]string{}, path...), cond), f)
	switch e := x.Else.(type) {
	case nil:
	case *ast.IfStmt:
		c07WalkIf(e, path, f)
	case *ast.BlockStmt:
		c07Walk(e.List, append(append([]string{}, path...), "!("+cond+")"), f)
	default:
		c07Fail("else of unsupported shape")
	}
}

func c07Path(p []string) string { return strings.Join(p, " / ") }

// c07DefUnder returns the right-hand side of the unique `name := expr` whose innermost guard is cond.
func c07DefUnder(c *c05File, fd *ast.FuncDecl, cond, name string) ast.Expr {
	var found []ast.Expr
	c07Walk(fd.Body.List, nil, func(list []ast.Stmt, i int, path []string) {
		a, ok := list[i].(*ast.AssignStmt)
		if !ok || a.Tok != token.DEFINE || len(a.Lhs) != 1 || len(a.Rhs) != 1 {
			return
		}
		if id, ok := a.Lhs[0].(*ast.Ident); ok && id.Name == name && len(path) > 0 && path[len(path)-1] == cond {
			found = append(found, a.Rhs[0])
		}
	})
	if len(found) != 1 {
		c07Fail("%s %s: expected exactly one `%s := …` under `%s`, found %d", c.rel, fd.Name.Name, name, cond, len(found))
	}
	return found[0]
}

// c07Assign returns the right-hand side of the unique `lhs = expr` inside n.
func c07Assign(c *c05File, n ast.Node, what, lhs string) ast.Expr {
	var found []ast.Expr
	ast.Inspect(n, func(m ast.Node) bool {
		if a, ok := m.(*ast.AssignStmt); ok && a.Tok == token.ASSIGN && len(a.Lhs) == 1 && len(a.Rhs) == 1 && c05Text(a.Lhs[0]) == lhs {
			found = append(found, a.Rhs[0])
		}
		return true
	})
	if len(found) != 1 {
		c07Fail("%s %s: expected exactly one assignment to %s, found %d", c.rel, what, lhs, len(found))
	}
	return found[0]
}

// c07MakeLen returns the length argument of `make([]byte, n)`.
func c07MakeLen(e ast.Expr, where string) ast.Expr {
	call, ok := e.(*ast.CallExpr)
	if !ok || c05Text(call.Fun) != "make" || len(call.Args) != 2 || c05Text(call.Args[0]) != "[]byte" {
		c07Fail("%s: %q is not make([]byte, n)", where, c05Text(e))
	}
	return call.Args[1]
}

// c07Calls returns the calls of the function with the given text inside n, in source order.
func c07Calls(n ast.Node, fun string) []*ast.CallExpr {
	var found []*ast.CallExpr
	ast.Inspect(n, func(m ast.Node) bool {
		if c, ok := m.(*ast.CallExpr); ok && c05Text(c.Fun) == fun {
			found = append(found, c)
		}
		return true
	})
	return found
}

func c07CountOp(n ast.Node, op token.Token) int {
	k := 0
	ast.Inspect(n, func(m ast.Node) bool {
		if b, ok := m.(*ast.BinaryExpr); ok && b.Op == op {
			k++
		}
		return true
	})
	return k
}

// c07Return returns the single result of the single return statement of fd.
func c07Return(c *c05File, fd *ast.FuncDecl) ast.Expr {
	if len(fd.Body.List) != 1 {
		c07Fail("%s %s: expected a single return statement", c.rel, fd.Name.Name)
	}
	r, ok := fd.Body.List[0].(*ast.ReturnStmt)
	if !ok || len(r.Results) != 1 {
		c07Fail("%s %s: expected a single return statement with one result", c.rel, fd.Name.Name)
	}
	return r.Results[0]
}

func c07IntList(e ast.Expr, where string) string {
	cl, ok := e.(*ast.CompositeLit)
	if !ok || c05Text(cl.Type) != "[]int" {
		c07Fail("%s: %q is not a []int literal", where, c05Text(e))
	}
	var xs []string
	for _, el := range cl.Elts {
		xs = append(xs, strconv.FormatUint(c07Lit(el, where), 10))
	}
	return "[" + strings.Join(xs, ", ") + "]"
}

// one ABI block of initRegisters / initWfRegs
type c07Block struct {
	cond string
	rc   uint64 // RegCount of the register written at SGPRPtr (0: nothing is written)
	inc  uint64 // SGPRPtr += inc (0: no increment)
}

// c07AbiBlocks reads the top-level `if co.EnableSgpr… { … }` statements of fd. `write` recognises the
// statement that writes the register at SGPRPtr and returns its RegCount and the divisor of SGPRPtr
// (0 when the statement is something else that may be ignored; it refuses unknown statements itself).
func c07AbiBlocks(c *c05File, fd *ast.FuncDecl, write func(s ast.Stmt) (bool, uint64)) []c07Block {
	var blocks []c07Block
	seenInit := false
	for _, s := range fd.Body.List {
		if a, ok := s.(*ast.AssignStmt); ok && a.Tok == token.DEFINE && len(a.Lhs) == 1 && c05Text(a.Lhs[0]) == "SGPRPtr" {
			if c05Text(a.Rhs[0]) != "0" || len(blocks) != 0 {
				c07Fail("%s %s: SGPRPtr must start at 0 before the first block", c.rel, fd.Name.Name)
			}
			seenInit = true
			continue
		}
		ifs, ok := s.(*ast.IfStmt)
		if !ok || !strings.HasPrefix(c05Text(ifs.Cond), "co.EnableSgpr") {
			if strings.Contains(c05Text(s), "SGPRPtr") {
				c07Fail("%s %s: SGPRPtr used outside an `if co.EnableSgpr…` block: %s", c.rel, fd.Name.Name, c05Text(s))
			}
			continue
		}
		if !seenInit || ifs.Else != nil || ifs.Init != nil {
			c07Fail("%s %s: block `%s` has an unsupported shape", c.rel, fd.Name.Name, c05Text(ifs.Cond))
		}
		b := c07Block{cond: c05Text(ifs.Cond)}
		for _, t := range ifs.Body.List {
			if a, ok := t.(*ast.AssignStmt); ok && len(a.Lhs) == 1 && c05Text(a.Lhs[0]) == "SGPRPtr" {
				if a.Tok != token.ADD_ASSIGN || b.inc != 0 {
					c07Fail("%s %s: block `%s`: unsupported update of SGPRPtr", c.rel, fd.Name.Name, b.cond)
				}
				b.inc = c07Lit(a.Rhs[0], "SGPRPtr +=")
				if b.inc == 0 {
					c07Fail("%s %s: block `%s`: SGPRPtr += 0", c.rel, fd.Name.Name, b.cond)
				}
				continue
			}
			isWrite, rc := write(t)
			if isWrite {
				if b.rc != 0 || b.inc != 0 {
					c07Fail("%s %s: block `%s`: a second write, or a write after the increment", c.rel, fd.Name.Name, b.cond)
				}
				b.rc = rc
				continue
			}
			if strings.Contains(c05Text(t), "SGPRPtr") {
				c07Fail("%s %s: block `%s`: unsupported use of SGPRPtr: %s", c.rel, fd.Name.Name, b.cond, c05Text(t))
			}
		}
		blocks = append(blocks, b)
	}
	if len(blocks) == 0 {
		c07Fail("%s %s: no ABI blocks found", c.rel, fd.Name.Name)
	}
	return blocks
}

func genC07() {
	root, _ := filepath.Abs(*repo)
	p := func(rel string) *c05File { return c05Parse(filepath.Join(root, rel), rel) }
	ewf := p("amd/emu/wavefront.go")
	ecu := p("amd/emu/computeunit.go")
	trf := p("amd/timing/cu/registerfile.go")
	tacc := p("amd/timing/cu/regfileaccessor.go")
	tb := p("amd/timing/cu/cubuilder.go")
	tcu := p("amd/timing/cu/computeunit.go")
	tsch := p("amd/timing/cu/scheduler.go")
	tdisp := p("amd/timing/cu/wfdispatcher.go")
	tsu := p("amd/timing/cu/scalarunit.go")
	rimpl := p("amd/timing/cp/internal/resource/curesourceimpl.go")
	rpool := p("amd/timing/cp/internal/resource/curesourcepool.go")
	ireg := p("amd/insts/reg.go")

	var b strings.Builder
	b.WriteString("-- GENERATED by translate/c07.go from the mgpusim sources. Do not edit.\n")
	b.WriteString("set_option linter.unusedVariables false\nnamespace Gen\nnamespace C07R\n\n")
	def := func(doc, sig, body string) { fmt.Fprintf(&b, "/-- %s -/\ndef %s := %s\n", doc, sig, body) }

	// ---- a. amd/emu/wavefront.go
	b.WriteString("/-! ## amd/emu/wavefront.go -/\n\n")
	nw := ewf.fn("NewWavefront")
	for _, f := range [][2]string{{"wf.SRegFile", "emuSFileBytes"}, {"wf.VRegFile", "emuVFileBytes"}} {
		e := c07MakeLen(c07Assign(ewf, nw, "NewWavefront", f[0]), "NewWavefront "+f[0])
		def(fmt.Sprintf("`NewWavefront`: `%s = make([]byte, %s)`", f[0], c05Text(e)), f[1]+" : Nat", c07Lean(e, nil, "NewWavefront"))
	}
	rr := ewf.fn("Wavefront.ReadReg")
	{
		n := 0
		ast.Inspect(rr.Body, func(m ast.Node) bool {
			vs, ok := m.(*ast.ValueSpec)
			if !ok || len(vs.Names) != 1 || vs.Names[0].Name != "buf" {
				return true
			}
			at, ok := vs.Type.(*ast.ArrayType)
			if !ok || at.Len == nil || c05Text(at.Elt) != "byte" {
				c07Fail("ReadReg: `var buf` is not a byte array")
			}
			n++
			def(fmt.Sprintf("`Wavefront.ReadReg`: `var buf [%s]byte`", c05Text(at.Len)), "emuReadBuf : Nat", c07Lean(at.Len, nil, "ReadReg buf"))
			return true
		})
		if n != 1 {
			c07Fail("ReadReg: expected exactly one `var buf [N]byte`, found %d", n)
		}
	}
	offVars := map[string]string{"laneID": "lane", "reg.RegIndex()": "idx"}
	for _, f := range [][2]string{{"Wavefront.ReadReg", "emuRead"}, {"Wavefront.WriteReg", "emuWrite"}, {"Wavefront.readRegOperand", "emuOperand"}} {
		fd := ewf.fn(f[0])
		s := c07DefUnder(ewf, fd, "reg.IsSReg()", "offset")
		v := c07DefUnder(ewf, fd, "reg.IsVReg()", "offset")
		def(fmt.Sprintf("`%s`, `if reg.IsSReg()`: `offset := %s`", f[0], c05Text(s)), f[1]+"SOff (lane idx : Nat) : Nat", c07Lean(s, offVars, f[0]))
		def(fmt.Sprintf("`%s`, `if reg.IsVReg()`: `offset := %s`", f[0], c05Text(v)), f[1]+"VOff (lane idx : Nat) : Nat", c07Lean(v, offVars, f[0]))
	}
	{
		// half-register writes of WriteReg: `X &= uint64(MASK)` immediately followed by `X |= uint64(…) [<< S]`
		wr := ewf.fn("Wavefront.WriteReg")
		var rows []string
		nAnd, nShl := 0, 0
		c07Walk(wr.Body.List, nil, func(list []ast.Stmt, i int, path []string) {
			a, ok := list[i].(*ast.AssignStmt)
			if !ok || a.Tok != token.AND_ASSIGN {
				return
			}
			nAnd++
			if i+1 >= len(list) {
				c07Fail("emu WriteReg: `%s` is not followed by `|=`", c05Text(a))
			}
			o, ok := list[i+1].(*ast.AssignStmt)
			if !ok || o.Tok != token.OR_ASSIGN || c05Text(o.Lhs[0]) != c05Text(a.Lhs[0]) {
				c07Fail("emu WriteReg: `%s` is not followed by `%s |= …`", c05Text(a), c05Text(a.Lhs[0]))
			}
			mask := c07Lit(a.Rhs[0], "emu WriteReg mask")
			shift := uint64(0)
			rhs := o.Rhs[0]
			if be, ok := rhs.(*ast.BinaryExpr); ok && be.Op == token.SHL {
				shift = c07Lit(be.Y, "emu WriteReg shift")
				nShl++
				rhs = be.X
			}
			if c05Text(rhs) != "uint64(insts.BytesToUint32(data))" {
				c07Fail("emu WriteReg: `%s`: unsupported right-hand side", c05Text(o))
			}
			rows = append(rows, fmt.Sprintf("(%s, %s, 0x%016X, %d)", leanStr(c07Path(path)), leanStr(c05Text(a.Lhs[0])), mask, shift))
		})
		if nAnd == 0 || nShl != c07CountOp(wr.Body, token.SHL) || c07CountOp(wr.Body, token.AND) != 0 {
			c07Fail("emu WriteReg: masks / shifts outside the `&=` / `|=` pairs")
		}
		def("`WriteReg`: every half-register write `X &= uint64(MASK); X |= uint64(BytesToUint32(data)) << SHIFT` in source order: (guards, X, MASK, SHIFT)",
			"emuHalfWrites : List (String × String × Nat × Nat)", "[\n   "+strings.Join(rows, ",\n   ")+"]")
	}
	{
		e := ewf.defOf(ewf.fn("Wavefront.VRegValue"), "offset")
		def(fmt.Sprintf("`VRegValue`: `offset := %s`", c05Text(e)), "emuVRegValueOff (lane i : Nat) : Nat", c07Lean(e, map[string]string{"lane": "lane", "i": "i"}, "VRegValue"))
	}

	// ---- b. amd/timing/cu/registerfile.go
	b.WriteString("\n/-! ## amd/timing/cu/registerfile.go -/\n\n")
	{
		fd := trf.fn("SimpleRegisterFile.getRegOffset")
		vars := map[string]string{"reg.RegIndex()": "idx", "laneID": "lane", "r.ByteSizePerLane": "stride", "offset": "offset"}
		var sRet ast.Expr
		n := 0
		c07Walk(fd.Body.List, nil, func(list []ast.Stmt, i int, path []string) {
			if r, ok := list[i].(*ast.ReturnStmt); ok && len(path) == 1 && path[0] == "reg.IsSReg()" {
				if len(r.Results) != 1 {
					c07Fail("getRegOffset: return of unsupported shape")
				}
				sRet = r.Results[0]
				n++
			}
		})
		if n != 1 {
			c07Fail("getRegOffset: expected exactly one return under `reg.IsSReg()`, found %d", n)
		}
		vRet := c07DefUnder(trf, fd, "reg.IsVReg()", "regOffset")
		def(fmt.Sprintf("`getRegOffset`, `if reg.IsSReg()`: `return %s`", c05Text(sRet)), "timSOff (idx lane stride offset : Nat) : Nat", c07Lean(sRet, vars, "getRegOffset"))
		def(fmt.Sprintf("`getRegOffset`, `if reg.IsVReg()`: `regOffset := %s`", c05Text(vRet)), "timVOff (idx lane stride offset : Nat) : Nat", c07Lean(vRet, vars, "getRegOffset"))
		for _, f := range [][2]string{{"SimpleRegisterFile.Write", "timWriteSize"}, {"SimpleRegisterFile.Read", "timReadSize"}} {
			e := trf.defOf(trf.fn(f[0]), "size")
			def(fmt.Sprintf("`%s`: `size := %s`", f[0], c05Text(e)), f[1]+" (rc : Nat) : Nat", c07Lean(e, map[string]string{"access.RegCount": "rc"}, f[0]))
		}
		// `access.Data[0:access.RegCount*4]` of Write
		n = 0
		ast.Inspect(trf.fn("SimpleRegisterFile.Write").Body, func(m ast.Node) bool {
			if se, ok := m.(*ast.SliceExpr); ok && c05Text(se.X) == "access.Data" {
				if se.Low == nil || c05Text(se.Low) != "0" || se.High == nil || se.Max != nil {
					c07Fail("SimpleRegisterFile.Write: slice of access.Data of unsupported shape")
				}
				n++
				def(fmt.Sprintf("`SimpleRegisterFile.Write`: `%s`", c05Text(se)), "timWriteDataLen (rc : Nat) : Nat", c07Lean(se.High, map[string]string{"access.RegCount": "rc"}, "Write data"))
			}
			return true
		})
		if n != 1 {
			c07Fail("SimpleRegisterFile.Write: expected exactly one slice of access.Data, found %d", n)
		}
	}

	// ---- c. amd/timing/cu/regfileaccessor.go
	b.WriteString("\n/-! ## amd/timing/cu/regfileaccessor.go -/\n\n")
	{
		wr := tacc.fn("CURegFileAccessor.WriteReg")
		var masks, shifts []string
		c07Walk(wr.Body.List, nil, func(list []ast.Stmt, i int, path []string) {
			a, ok := list[i].(*ast.AssignStmt)
			if !ok || a.Tok != token.DEFINE || len(a.Lhs) != 1 || len(a.Rhs) != 1 {
				return
			}
			be, ok := a.Rhs[0].(*ast.BinaryExpr)
			if !ok {
				return
			}
			switch be.Op {
			case token.AND:
				masks = append(masks, fmt.Sprintf("(%s, %s, 0x%016X)", leanStr(c07Path(path)), leanStr(c05Text(a.Lhs[0])+" := "+c05Text(be.X)+" &"), c07Lit(be.Y, "timing WriteReg mask")))
			case token.SHL:
				if c05Text(be.X) != "uint64(insts.BytesToUint32(data))" {
					c07Fail("timing WriteReg: `%s`: unsupported shifted value", c05Text(a))
				}
				shifts = append(shifts, fmt.Sprintf("(%s, %s, %d)", leanStr(c07Path(path)), leanStr(c05Text(a.Lhs[0])), c07Lit(be.Y, "timing WriteReg shift")))
			}
		})
		if len(masks) == 0 || len(masks) != c07CountOp(wr.Body, token.AND) || len(shifts) != c07CountOp(wr.Body, token.SHL) {
			c07Fail("timing WriteReg: `&` / `<<` outside the recognised `x := … & MASK` / `x := … << S` definitions")
		}
		def("`CURegFileAccessor.WriteReg`: every `x := REG() & MASK` in source order: (guards, text, MASK)",
			"timMasks : List (String × String × Nat)", "[\n   "+strings.Join(masks, ",\n   ")+"]")
		def("`CURegFileAccessor.WriteReg`: every `x := uint64(insts.BytesToUint32(data)) << S` in source order: (guards, x, S)",
			"timShifts : List (String × String × Nat)", "[\n   "+strings.Join(shifts, ",\n   ")+"]")
	}

	// ---- d. cubuilder.go, computeunit.go
	b.WriteString("\n/-! ## amd/timing/cu/cubuilder.go, computeunit.go -/\n\n")
	{
		calls := c07Calls(tb.fn("Builder.equipRegisterFiles"), "NewSimpleRegisterFile")
		if len(calls) != 2 || len(calls[0].Args) != 2 || len(calls[1].Args) != 2 {
			c07Fail("equipRegisterFiles: expected two calls NewSimpleRegisterFile(size, byteSizePerLane), found %d", len(calls))
		}
		def(fmt.Sprintf("`equipRegisterFiles`: `%s`: the size", c05Text(calls[0])), "cuSFileBytes (count : Nat) : Nat", c07Lean(calls[0].Args[0], map[string]string{"b.sgprCount": "count"}, "equipRegisterFiles"))
		def(fmt.Sprintf("`equipRegisterFiles`: `%s`: `byteSizePerLane`", c05Text(calls[0])), "cuSStride : Nat", c07Lean(calls[0].Args[1], nil, "equipRegisterFiles"))
		def(fmt.Sprintf("`equipRegisterFiles`: `%s`: the size", c05Text(calls[1])), "cuVFileBytes (count : Nat) : Nat", c07Lean(calls[1].Args[0], map[string]string{"b.vgprCount[i]": "count"}, "equipRegisterFiles"))
		def(fmt.Sprintf("`equipRegisterFiles`: `%s`: `byteSizePerLane`", c05Text(calls[1])), "cuVStride : Nat", c07Lean(calls[1].Args[1], nil, "equipRegisterFiles"))
		mb := tb.fn("MakeBuilder")
		def("`MakeBuilder`: `b.sgprCount = …`", "builderSgprCount : Nat", c07Lean(c07Assign(tb, mb, "MakeBuilder", "b.sgprCount"), nil, "MakeBuilder"))
		def("`MakeBuilder`: `b.vgprCount = []int{…}`", "builderVgprCount : List Nat", c07IntList(c07Assign(tb, mb, "MakeBuilder", "b.vgprCount"), "MakeBuilder"))
		def("`MakeBuilder`: `b.simdCount = …`", "builderSimdCount : Nat", c07Lean(c07Assign(tb, mb, "MakeBuilder", "b.simdCount"), nil, "MakeBuilder"))
		def("`ComputeUnit.WfPoolSizes`", "cuWfPoolSizes : List Nat", c07IntList(c07Return(tcu, tcu.fn("ComputeUnit.WfPoolSizes")), "WfPoolSizes"))
		def("`ComputeUnit.VRegCounts`", "cuVRegCounts : List Nat", c07IntList(c07Return(tcu, tcu.fn("ComputeUnit.VRegCounts")), "VRegCounts"))
		def("`ComputeUnit.SRegCount`", "cuSRegCount : Nat", c07Lean(c07Return(tcu, tcu.fn("ComputeUnit.SRegCount")), nil, "SRegCount"))
		def("`ComputeUnit.LDSBytes`", "cuLDSBytes : Nat", c07Lean(c07Return(tcu, tcu.fn("ComputeUnit.LDSBytes")), nil, "LDSBytes"))
		// handleScalarDataLoadReturn: wf.RegAccessor.WriteReg(info.DstSGPR, len(rsp.Data)/4, 0, wf.SRegOffset, rsp.Data)
		wr := c07Calls(tcu.fn("ComputeUnit.handleScalarDataLoadReturn"), "wf.RegAccessor.WriteReg")
		if len(wr) != 1 || len(wr[0].Args) != 5 {
			c07Fail("handleScalarDataLoadReturn: expected exactly one wf.RegAccessor.WriteReg(reg, regCount, laneID, waveOffset, data), found %d", len(wr))
		}
		if len(c07Calls(tcu.fn("ComputeUnit.handleScalarDataLoadReturn"), "cu.SRegFile.Write")) != 0 {
			c07Fail("handleScalarDataLoadReturn writes the scalar register file directly")
		}
		for i, want := range map[int]string{0: "info.DstSGPR", 3: "wf.SRegOffset", 4: "rsp.Data"} {
			if c05Text(wr[0].Args[i]) != want {
				c07Fail("handleScalarDataLoadReturn: argument %d of WriteReg is `%s`, expected `%s`", i, c05Text(wr[0].Args[i]), want)
			}
		}
		if c05Text(tcu.defOf(tcu.fn("ComputeUnit.handleScalarDataLoadReturn"), "wf")) != "info.Wavefront" {
			c07Fail("handleScalarDataLoadReturn: wf := %s", c05Text(tcu.defOf(tcu.fn("ComputeUnit.handleScalarDataLoadReturn"), "wf")))
		}
		def(fmt.Sprintf("`handleScalarDataLoadReturn`: `%s`: the register count", c05Text(wr[0])), "smemRegCount (len : Nat) : Nat", c07Lean(wr[0].Args[1], map[string]string{"len(rsp.Data)": "len"}, "handleScalarDataLoadReturn"))
		def(fmt.Sprintf("`handleScalarDataLoadReturn`: `%s`: the lane", c05Text(wr[0])), "smemLane : Nat", c07Lean(wr[0].Args[2], nil, "handleScalarDataLoadReturn"))
	}

	// ---- e. amd/timing/cp/internal/resource
	b.WriteString("\n/-! ## amd/timing/cp/internal/resource -/\n\n")
	{
		s := c07Assign(rimpl, rimpl.fn("CUResourceImpl.withinSGPRLimitation"), "withinSGPRLimitation", "location.SGPROffset")
		def(fmt.Sprintf("`withinSGPRLimitation`: `location.SGPROffset = %s`", c05Text(s)), "resSGPROffset (offset : Nat) : Nat", c07Lean(s, map[string]string{"offset": "offset"}, "SGPROffset"))
		v := c07Assign(rimpl, rimpl.fn("CUResourceImpl.matchWfWithSIMDs"), "matchWfWithSIMDs", "location.VGPROffset")
		def(fmt.Sprintf("`matchWfWithSIMDs`: `location.VGPROffset = %s`", c05Text(v)), "resVGPROffset (offset gran : Nat) : Nat", c07Lean(v, map[string]string{"offset": "offset", "r.vregGranularity": "gran"}, "VGPROffset"))
		l := c07Assign(rimpl, rimpl.fn("CUResourceImpl.withinLDSLimitation"), "withinLDSLimitation", "location.LDSOffset")
		def(fmt.Sprintf("`withinLDSLimitation`: `location.LDSOffset = %s`", c05Text(l)), "resLDSOffset (offset gran : Nat) : Nat", c07Lean(l, map[string]string{"offset": "offset", "r.ldsGranularity": "gran"}, "LDSOffset"))
		sm := rpool.fn("CUResourcePoolImpl.createSRegMask")
		vm := rpool.fn("CUResourcePoolImpl.createVRegMasks")
		lm := rpool.fn("CUResourcePoolImpl.createLDSMask")
		def("`createSRegMask`: `r.sregGranularity = …`", "resSGran : Nat", c07Lean(c07Assign(rpool, sm, "createSRegMask", "r.sregGranularity"), nil, "sregGranularity"))
		def("`createVRegMasks`: `r.vregGranularity = …`", "resVGran : Nat", c07Lean(c07Assign(rpool, vm, "createVRegMasks", "r.vregGranularity"), nil, "vregGranularity"))
		def("`createLDSMask`: `r.ldsGranularity = …`", "resLGran : Nat", c07Lean(c07Assign(rpool, lm, "createLDSMask", "r.ldsGranularity"), nil, "ldsGranularity"))
		one := func(fd *ast.FuncDecl, fun string) *ast.CallExpr {
			cs := c07Calls(fd, fun)
			if len(cs) != 1 {
				c07Fail("%s: expected exactly one call of %s, found %d", fd.Name.Name, fun, len(cs))
			}
			return cs[0]
		}
		svars := map[string]string{"r.sregCount": "count", "r.sregGranularity": "gran"}
		vvars := map[string]string{"r.vregCounts[i]": "count", "r.vregGranularity": "gran"}
		c := one(sm, "newResourceMask")
		def(fmt.Sprintf("`createSRegMask`: `%s`", c05Text(c)), "resSMaskUnits (count gran : Nat) : Nat", c07Lean(c.Args[0], svars, "createSRegMask"))
		c = one(vm, "newResourceMask")
		def(fmt.Sprintf("`createVRegMasks`: `%s`", c05Text(c)), "resVMaskUnits (count gran : Nat) : Nat", c07Lean(c.Args[0], vvars, "createVRegMasks"))
		c = one(vm, "p.countMustBeAMultipleOfGranularity")
		if len(c.Args) != 2 || c05Text(c.Args[0]) != "r.vregCounts[i]" {
			c07Fail("createVRegMasks: countMustBeAMultipleOfGranularity call of unsupported shape")
		}
		def(fmt.Sprintf("`createVRegMasks`: `%s`: the granularity checked", c05Text(c)), "resVMultiple (gran : Nat) : Nat", c07Lean(c.Args[1], vvars, "createVRegMasks"))
	}

	// ---- f. amd/timing/cu/scheduler.go resetRegisterValue
	b.WriteString("\n/-! ## amd/timing/cu/scheduler.go `resetRegisterValue` -/\n\n")
	{
		fd := tsch.fn("SchedulerImpl.resetRegisterValue")
		n := 0
		ast.Inspect(fd.Body, func(m ast.Node) bool {
			fs, ok := m.(*ast.ForStmt)
			if !ok {
				return true
			}
			n++
			cond, ok := fs.Cond.(*ast.BinaryExpr)
			if !ok || cond.Op != token.LSS || c05Text(cond.X) != "i" || c05Text(fs.Init) != "i := 0" || c05Text(fs.Post) != "i++" {
				c07Fail("resetRegisterValue: lane loop of unsupported shape")
			}
			def(fmt.Sprintf("`resetRegisterValue`: `for %s; %s; %s`", c05Text(fs.Init), c05Text(fs.Cond), c05Text(fs.Post)), "resetLanes : Nat", c07Lean(cond.Y, nil, "resetRegisterValue"))
			return true
		})
		if n != 1 {
			c07Fail("resetRegisterValue: expected exactly one for loop, found %d", n)
		}
		vcond, scond := "wf.CodeObject.WIVgprCount > 0", "wf.CodeObject.WFSgprCount > 0"
		e := c07DefUnder(tsch, fd, vcond, "offset")
		def(fmt.Sprintf("`resetRegisterValue`: `offset := %s`", c05Text(e)), "resetLaneOff (voff stride i : Nat) : Nat",
			c07Lean(e, map[string]string{"wf.VRegOffset": "voff", "vRegFile.ByteSizePerLane": "stride", "i": "i"}, "resetRegisterValue"))
		e = c07MakeLen(c07DefUnder(tsch, fd, vcond, "data"), "resetRegisterValue")
		def(fmt.Sprintf("`resetRegisterValue`, vector half: `data := make([]byte, %s)`", c05Text(e)), "resetVBytes (n : Nat) : Nat", c07Lean(e, map[string]string{"wf.CodeObject.WIVgprCount": "n"}, "resetRegisterValue"))
		e = c07MakeLen(c07DefUnder(tsch, fd, scond, "data"), "resetRegisterValue")
		def(fmt.Sprintf("`resetRegisterValue`, scalar half: `data := make([]byte, %s)`", c05Text(e)), "resetSBytes (n : Nat) : Nat", c07Lean(e, map[string]string{"wf.CodeObject.WFSgprCount": "n"}, "resetRegisterValue"))
		e = c07DefUnder(tsch, fd, scond, "offset")
		def(fmt.Sprintf("`resetRegisterValue`, scalar half: `offset := %s`", c05Text(e)), "resetSOff (soff : Nat) : Nat", c07Lean(e, map[string]string{"wf.SRegOffset": "soff"}, "resetRegisterValue"))
	}

	// ---- g. initRegisters / initWfRegs
	b.WriteString("\n/-! ## amd/timing/cu/wfdispatcher.go `initRegisters`, amd/emu/computeunit.go `initWfRegs` -/\n\n")
	{
		tfd := tdisp.fn("WfDispatcherImpl.initRegisters")
		efd := ecu.fn("ComputeUnit.initWfRegs")
		ptrDiv := uint64(0)
		tBlocks := c07AbiBlocks(tdisp, tfd, func(s ast.Stmt) (bool, uint64) {
			es, ok := s.(*ast.ExprStmt)
			if !ok {
				return false, 0
			}
			call, ok := es.X.(*ast.CallExpr)
			if !ok || c05Text(call.Fun) != "d.cu.SRegFile.Write" {
				return false, 0
			}
			if len(call.Args) != 1 {
				c07Fail("initRegisters: `%s`: unsupported shape", c05Text(call))
			}
			cl, ok := call.Args[0].(*ast.CompositeLit)
			if !ok || c05Text(cl.Type) != "RegisterAccess" || len(cl.Elts) != 7 {
				c07Fail("initRegisters: `%s`: expected an unkeyed RegisterAccess literal with 7 fields", c05Text(call))
			}
			// Time, Reg, RegCount, LaneID, WaveOffset, Data, OK
			reg, ok := cl.Elts[1].(*ast.CallExpr)
			if !ok || c05Text(reg.Fun) != "insts.SReg" || len(reg.Args) != 1 {
				c07Fail("initRegisters: register `%s` is not insts.SReg(…)", c05Text(cl.Elts[1]))
			}
			q, ok := reg.Args[0].(*ast.BinaryExpr)
			if !ok || q.Op != token.QUO || c05Text(q.X) != "SGPRPtr" {
				c07Fail("initRegisters: register index `%s` is not SGPRPtr / n", c05Text(reg.Args[0]))
			}
			d := c07Lit(q.Y, "initRegisters SGPRPtr divisor")
			if ptrDiv != 0 && ptrDiv != d {
				c07Fail("initRegisters: different divisors of SGPRPtr")
			}
			ptrDiv = d
			if c05Text(cl.Elts[3]) != "0" || c05Text(cl.Elts[4]) != "wf.SRegOffset" {
				c07Fail("initRegisters: `%s`: lane must be 0 and the wave offset wf.SRegOffset", c05Text(call))
			}
			rc := c07Lit(cl.Elts[2], "initRegisters RegCount")
			if rc == 0 {
				c07Fail("initRegisters: RegCount 0")
			}
			return true, rc
		})
		putBytes := uint64(0) // bytes per register implied by the emulator's PutUintNN slices
		eBlocks := c07AbiBlocks(ecu, efd, func(s ast.Stmt) (bool, uint64) {
			es, ok := s.(*ast.ExprStmt)
			if !ok {
				return false, 0
			}
			call, ok := es.X.(*ast.CallExpr)
			if !ok || !strings.HasPrefix(c05Text(call.Fun), "binary.LittleEndian.PutUint") {
				return false, 0
			}
			bits, err := strconv.ParseUint(strings.TrimPrefix(c05Text(call.Fun), "binary.LittleEndian.PutUint"), 10, 64)
			if err != nil || len(call.Args) != 2 {
				c07Fail("initWfRegs: `%s`: unsupported shape", c05Text(call))
			}
			se, ok := call.Args[0].(*ast.SliceExpr)
			if !ok || c05Text(se.X) != "wf.SRegFile" || se.Low == nil || c05Text(se.Low) != "SGPRPtr" || se.High == nil || se.Max != nil {
				c07Fail("initWfRegs: `%s`: destination is not wf.SRegFile[SGPRPtr:SGPRPtr+n]", c05Text(call))
			}
			hi, ok := se.High.(*ast.BinaryExpr)
			if !ok || hi.Op != token.ADD || c05Text(hi.X) != "SGPRPtr" {
				c07Fail("initWfRegs: `%s`: destination is not wf.SRegFile[SGPRPtr:SGPRPtr+n]", c05Text(call))
			}
			n := c07Lit(hi.Y, "initWfRegs slice length")
			if n*8 != bits || n == 0 || n%4 != 0 {
				c07Fail("initWfRegs: `%s`: slice length and PutUint width differ", c05Text(call))
			}
			putBytes = 4
			return true, n / 4
		})
		if ptrDiv == 0 || putBytes == 0 {
			c07Fail("initRegisters / initWfRegs: no register write found")
		}
		if len(tBlocks) != len(eBlocks) {
			c07Fail("initRegisters has %d ABI blocks, initWfRegs %d", len(tBlocks), len(eBlocks))
		}
		var rows, incs []string
		for i := range tBlocks {
			if tBlocks[i] != eBlocks[i] {
				c07Fail("ABI block %d differs: initRegisters %+v, initWfRegs %+v", i, tBlocks[i], eBlocks[i])
			}
			rows = append(rows, fmt.Sprintf("(%s, %d, %d)", leanStr(tBlocks[i].cond), tBlocks[i].rc, tBlocks[i].inc))
			if tBlocks[i].inc != 0 {
				incs = append(incs, fmt.Sprintf("(%s, %d)", leanStr(tBlocks[i].cond), tBlocks[i].inc))
			}
		}
		def("`initRegisters` = `initWfRegs` (refused unless equal): the ABI blocks `if COND { [write RegCount registers at SGPRPtr] [SGPRPtr += n] }` in source order: (COND, RegCount or 0, n or 0); a write always precedes the increment of its block",
			"sgprBlocks : List (String × Nat × Nat)", "[\n   "+strings.Join(rows, ",\n   ")+"]")
		def("the `SGPRPtr += n` statements in source order with the condition of the enclosing `if`",
			"sgprIncs : List (String × Nat)", "[\n   "+strings.Join(incs, ",\n   ")+"]")
		def("`initRegisters`: the register written is `insts.SReg(SGPRPtr / n)`", "sgprPtrDiv : Nat", strconv.FormatUint(ptrDiv, 10))
		def("`initWfRegs`: the bytes written start at `wf.SRegFile[SGPRPtr]`; a register is this many bytes (`PutUint64` ↔ `RegCount` 2, `PutUint32` ↔ 1)", "sgprPutBytes : Nat", strconv.FormatUint(putBytes, 10))

		// lane part
		tp, ep := tdisp.defOf(tfd, "packed"), ecu.defOf(efd, "packed")
		if c05Text(tp) != c05Text(ep) {
			c07Fail("`packed := …` differs between initRegisters (%s) and initWfRegs (%s)", c05Text(tp), c05Text(ep))
		}
		{
			// shape: uint32(x) | (uint32(y) << A) | (uint32(z) << B)
			or1, ok := tp.(*ast.BinaryExpr)
			if !ok || or1.Op != token.OR {
				c07Fail("`packed := %s`: unsupported shape", c05Text(tp))
			}
			or0, ok := or1.X.(*ast.BinaryExpr)
			if !ok || or0.Op != token.OR || c05Text(or0.X) != "uint32(x)" {
				c07Fail("`packed := %s`: unsupported shape", c05Text(tp))
			}
			sh := func(e ast.Expr, v string) uint64 {
				for {
					pe, ok := e.(*ast.ParenExpr)
					if !ok {
						break
					}
					e = pe.X
				}
				be, ok := e.(*ast.BinaryExpr)
				if !ok || be.Op != token.SHL || c05Text(be.X) != "uint32("+v+")" {
					c07Fail("`packed := %s`: unsupported shape", c05Text(tp))
				}
				return c07Lit(be.Y, "packed shift")
			}
			def(fmt.Sprintf("`initRegisters` = `initWfRegs`: `packed := %s`: the shifts of y and z", c05Text(tp)), "v5Shifts : List Nat",
				fmt.Sprintf("[%d, %d]", sh(or0.Y, "y"), sh(or1.Y, "z")))
		}
		vregs := func(c *c05File, fd *ast.FuncDecl) string {
			var xs []string
			for _, call := range c07Calls(fd, "insts.VReg") {
				if len(call.Args) != 1 {
					c07Fail("%s: insts.VReg call of unsupported shape", fd.Name.Name)
				}
				xs = append(xs, strconv.FormatUint(c07Lit(call.Args[0], "insts.VReg"), 10))
			}
			return "[" + strings.Join(xs, ", ") + "]"
		}
		if vregs(tdisp, tfd) != vregs(ecu, efd) {
			c07Fail("the VGPRs written differ: initRegisters %s, initWfRegs %s", vregs(tdisp, tfd), vregs(ecu, efd))
		}
		def("`initRegisters` = `initWfRegs`: the `insts.VReg(n)` written, in source order (V5: packed; otherwise x, y, z)", "vgprIdRegs : List Nat", vregs(tdisp, tfd))
		thr := func(c *c05File, fd *ast.FuncDecl) string {
			var xs []string
			ast.Inspect(fd.Body, func(m ast.Node) bool {
				if be, ok := m.(*ast.BinaryExpr); ok && c05Text(be.X) == "co.EnableVgprWorkItemID()" {
					if be.Op != token.GTR {
						c07Fail("%s: comparison `%s` is not `>`", fd.Name.Name, c05Text(be))
					}
					xs = append(xs, strconv.FormatUint(c07Lit(be.Y, "EnableVgprWorkItemID threshold"), 10))
				}
				return true
			})
			return "[" + strings.Join(xs, ", ") + "]"
		}
		if thr(tdisp, tfd) != thr(ecu, efd) {
			c07Fail("the work-item-id thresholds differ: initRegisters %s, initWfRegs %s", thr(tdisp, tfd), thr(ecu, efd))
		}
		def("`initRegisters` = `initWfRegs`: the `n` of `if co.EnableVgprWorkItemID() > n` in source order (guards of y, z)", "vgprIdThresholds : List Nat", thr(tdisp, tfd))
		lanes := func(c *c05File, fd *ast.FuncDecl) uint64 {
			var out []uint64
			ast.Inspect(fd.Body, func(m ast.Node) bool {
				fs, ok := m.(*ast.ForStmt)
				if !ok {
					return true
				}
				cond, ok := fs.Cond.(*ast.BinaryExpr)
				if !ok || cond.Op != token.LSS || c05Text(cond.X) != "i" || c05Text(fs.Init) != "i := wf.FirstWiFlatID" || c05Text(fs.Post) != "i++" {
					c07Fail("%s: lane loop of unsupported shape", fd.Name.Name)
				}
				y, ok := cond.Y.(*ast.BinaryExpr)
				if !ok || y.Op != token.ADD || c05Text(y.X) != "wf.FirstWiFlatID" {
					c07Fail("%s: lane loop bound `%s` of unsupported shape", fd.Name.Name, c05Text(cond.Y))
				}
				out = append(out, c07Lit(y.Y, "lane loop bound"))
				return true
			})
			if len(out) != 1 {
				c07Fail("%s: expected exactly one for loop, found %d", fd.Name.Name, len(out))
			}
			if c05Text(c.defOf(fd, "laneID")) != "i - wf.FirstWiFlatID" {
				c07Fail("%s: laneID := %s", fd.Name.Name, c05Text(c.defOf(fd, "laneID")))
			}
			return out[0]
		}
		if lanes(tdisp, tfd) != lanes(ecu, efd) {
			c07Fail("the lane loops differ")
		}
		def("`initRegisters` = `initWfRegs`: `for i := wf.FirstWiFlatID; i < wf.FirstWiFlatID+N; i++`, `laneID := i - wf.FirstWiFlatID`", "initLanes : Nat", strconv.FormatUint(lanes(tdisp, tfd), 10))
	}

	// ---- h. scalarunit.go, insts/reg.go
	b.WriteString("\n/-! ## amd/timing/cu/scalarunit.go `executeSMEMLoad`, amd/insts/reg.go -/\n\n")
	{
		fd := tsu.fn("ScalarUnit.executeSMEMLoad")
		n := 0
		ast.Inspect(fd.Body, func(m ast.Node) bool {
			kv, ok := m.(*ast.KeyValueExpr)
			if !ok || c05Text(kv.Key) != "DstSGPR" {
				return true
			}
			n++
			call, ok := kv.Value.(*ast.CallExpr)
			if !ok || c05Text(call.Fun) != "smemDstReg" || len(call.Args) != 2 || c05Text(call.Args[0]) != "inst.Data.Register" {
				c07Fail("executeSMEMLoad: DstSGPR `%s` is not smemDstReg(inst.Data.Register, …)", c05Text(kv.Value))
			}
			def(fmt.Sprintf("`executeSMEMLoad`: `DstSGPR: %s`: the dword offset; `bytes` = `curr-start`", c05Text(kv.Value)),
				"smemDstOffset (bytes : Nat) : Nat",
				c07Lean(call.Args[1], map[string]string{"curr - start": "bytes", "(curr - start)": "bytes"}, "executeSMEMLoad"))
			return true
		})
		if n != 1 {
			c07Fail("executeSMEMLoad: expected exactly one `DstSGPR: …`, found %d", n)
		}
		// smemDstReg: if data.IsSReg() { return insts.SReg(data.RegIndex() + dwordOffset) }; return insts.Regs[data.RegType+insts.RegType(dwordOffset)]
		sd := tsu.fn("smemDstReg")
		if len(sd.Body.List) != 2 {
			c07Fail("smemDstReg: expected `if data.IsSReg() { return … }; return …`, found %d statements", len(sd.Body.List))
		}
		ifs, ok1 := sd.Body.List[0].(*ast.IfStmt)
		ret2, ok2 := sd.Body.List[1].(*ast.ReturnStmt)
		if !ok1 || !ok2 || ifs.Else != nil || ifs.Init != nil || c05Text(ifs.Cond) != "data.IsSReg()" || len(ifs.Body.List) != 1 || len(ret2.Results) != 1 {
			c07Fail("smemDstReg: unexpected shape")
		}
		ret1, ok := ifs.Body.List[0].(*ast.ReturnStmt)
		if !ok || len(ret1.Results) != 1 {
			c07Fail("smemDstReg: the SGPR branch does not return")
		}
		c1, ok := ret1.Results[0].(*ast.CallExpr)
		if !ok || c05Text(c1.Fun) != "insts.SReg" || len(c1.Args) != 1 {
			c07Fail("smemDstReg: the SGPR branch returns `%s`, not insts.SReg(…)", c05Text(ret1.Results[0]))
		}
		def(fmt.Sprintf("`smemDstReg`, `data.IsSReg()`: `return %s`: the index", c05Text(ret1.Results[0])),
			"smemDstSgprIndex (regIndex dwordOffset : Nat) : Nat",
			c07Lean(c1.Args[0], map[string]string{"data.RegIndex()": "regIndex", "dwordOffset": "dwordOffset"}, "smemDstReg"))
		ix, ok := ret2.Results[0].(*ast.IndexExpr)
		if !ok || c05Text(ix.X) != "insts.Regs" {
			c07Fail("smemDstReg: the other branch returns `%s`, not insts.Regs[…]", c05Text(ret2.Results[0]))
		}
		def(fmt.Sprintf("`smemDstReg`, otherwise: `return %s`: the register number", c05Text(ret2.Results[0])),
			"smemDstOther (regType dwordOffset : Nat) : Nat",
			c07Lean(ix.Index, map[string]string{"data.RegType": "regType", "insts.RegType(dwordOffset)": "dwordOffset"}, "smemDstReg"))
		// RegIndex: the final return
		ri := ireg.fn("Reg.RegIndex")
		last, ok := ri.Body.List[len(ri.Body.List)-1].(*ast.ReturnStmt)
		if !ok || len(last.Results) != 1 {
			c07Fail("RegIndex: the last statement is not a return")
		}
		val := ""
		if u, ok := last.Results[0].(*ast.UnaryExpr); ok && u.Op == token.SUB {
			val = "-" + strconv.FormatUint(c07Lit(u.X, "RegIndex"), 10)
		} else {
			val = strconv.FormatUint(c07Lit(last.Results[0], "RegIndex"), 10)
		}
		def(fmt.Sprintf("`Reg.RegIndex`: the final `return %s` (neither `s` nor `v`)", c05Text(last.Results[0])), "regIndexNone : Int", val)
		_, env := iotaConsts(ireg.f, "InvalidRegType")
		for _, f := range [][3]string{{"SReg", "S0", "sregBase"}, {"VReg", "V0", "vregBase"}} {
			r := c07Return(ireg, ireg.fn(f[0]))
			if c05Text(r) != "Regs["+f[1]+"+RegType(index)]" {
				c07Fail("insts.%s returns %s", f[0], c05Text(r))
			}
			v, ok := env[f[1]]
			if !ok {
				c07Fail("constant %s not found in the RegType block", f[1])
			}
			def(fmt.Sprintf("`insts.%s`: `return %s`: the value of `%s` in the `RegType` iota block", f[0], c05Text(r), f[1]), f[2]+" : Nat", strconv.FormatInt(v, 10))
		}
	}

	b.WriteString("\nend C07R\nend Gen\n")
	writeIfChanged("C07Regs.lean", b.String())
}
