package main

import (
	"fmt"
	"go/ast"
	"go/token"
	"strings"
)

// genC18 (property C18) reads the table-like / straight-line parts of what decides "which GPU serves an
// address" and "which GPU runs a work-group" and writes them as Lean definitions
// (lean/MgpuModel/Gen/C18Plat.lean):
//
//   - amd/samples/runner/timingconfig/builder.go: the default sizes of MakeBuilder (number of GPUs, CPU /
//     GPU memory size, page size), the capacity of the global storage, the "sizes must be equal" guard, the
//     bank size and first entry of the RDMA address table, the loop that creates the GPUs, the address
//     offset every GPU is built with, the builder calls of createGPU (no WithDramSize: the GPU builder's
//     default decides the width of the local range), the entry configRDMAEngine appends;
//   - amd/samples/runner/timingconfig/{r9nano,mi300a}/builder.go: the defaults of MakeBuilder (number of
//     memory banks, interleaving, DRAM size, address offset), the L1→L2 mapper Build creates (interleaving
//     size, LowAddress, HighAddress, address-space limitation), what connectL1ToL2 / buildRDMAEngine /
//     buildL2Caches / connectL2AndDRAM plug into it;
//   - amd/timing/rdma/builder.go: the defaults of MakeBuilder (buffer size, per-cycle widths);
//   - amd/driver/driver.go: numWGInDim, the arithmetic of distributeWGToGPUs (total, work-groups per CU,
//     per-GPU share, the "not all wg allocated" guard) and of the work-group filter of
//     processUnifiedMultiGPULaunchKernelCommand (flattened id, acceptance test, the skip of empty ranges);
//   - amd/samples/runner/runner.go: the number of GPUs the runner builds for a GPU list, what it unifies.
//
// MgpuProofs/Props/C18Plat.lean proves that the hand-written platform model is built from exactly these
// values and expressions: a changed constant or formula breaks a proof obligation, not only the sampled
// correspondence. Unknown shapes are refused (non-zero exit = broken tie).
func init() { extraGens = append(extraGens, gen{"c18", genC18}) }

// c18Const evaluates a constant integer expression; mem.KB / mem.MB / mem.GB are Akita's 1<<10/20/30.
func c18Const(file string, e ast.Expr) int64 {
	env := map[string]int64{}
	var walk func(e ast.Expr) ast.Expr
	walk = func(e ast.Expr) ast.Expr {
		switch x := e.(type) {
		case *ast.SelectorExpr:
			if id, ok := x.X.(*ast.Ident); ok && id.Name == "mem" {
				switch x.Sel.Name {
				case "KB":
					env["mem_KB"] = 1 << 10
					return ast.NewIdent("mem_KB")
				case "MB":
					env["mem_MB"] = 1 << 20
					return ast.NewIdent("mem_MB")
				case "GB":
					env["mem_GB"] = 1 << 30
					return ast.NewIdent("mem_GB")
				}
			}
		case *ast.BinaryExpr:
			return &ast.BinaryExpr{X: walk(x.X), Op: x.Op, Y: walk(x.Y)}
		case *ast.ParenExpr:
			return &ast.ParenExpr{X: walk(x.X)}
		}
		return e
	}
	v, ok := constInt(walk(e), env)
	if !ok {
		fatalf("c18: %s: `%s` is not a constant this translator can evaluate", file, nodeString(e))
	}
	return v
}

func (o *c10Out) c18Num(name, doc string, v int64) {
	if o.names[name] {
		fatalf("c18: duplicate definition %s", name)
	}
	o.names[name] = true
	fmt.Fprintf(&o.b, "/-- %s -/\ndef %s : Nat := %d\n\n", doc, name, v)
}

// c18Chain returns the method names of a call chain `x.A(..).B(..).C(..)` from the outermost receiver on.
func c18Chain(e ast.Expr) []string {
	var out []string
	for {
		c, ok := e.(*ast.CallExpr)
		if !ok {
			break
		}
		s, ok := c.Fun.(*ast.SelectorExpr)
		if !ok {
			break
		}
		out = append([]string{s.Sel.Name}, out...)
		e = s.X
	}
	return out
}

// c18GPUBuilder emits the defaults and the mapper wiring of one GPU builder package.
func c18GPUBuilder(o *c10Out, pfx, file string) {
	_, f := parseFile(file)
	mk := c10Func(f, file, "", "MakeBuilder")
	for _, k := range []string{"numMemoryBank", "log2CacheLineSize", "log2PageSize", "log2MemoryBankInterleavingSize", "memAddrOffset", "dramSize"} {
		o.c18Num(pfx+"_"+k, file+": MakeBuilder, "+k, c18Const(file, c10KeyValue(mk, file, k, 0)))
	}
	b := c10Func(f, file, "Builder", "Build")
	o.def(file, pfx+"_l1Interleave", "Build, interleaving size of the L1→L2 mapper", c10Call(b, file, "mem.NewInterleavedAddressPortMapper", 0)[0], false, nil)
	e, _ := c10Assign(b, file, "b.l1AddressMapper.LowAddress", 0)
	o.def(file, pfx+"_l1Low", "Build, LowAddress of the L1→L2 mapper", e, false, nil)
	e, _ = c10Assign(b, file, "b.l1AddressMapper.HighAddress", 0)
	o.def(file, pfx+"_l1High", "Build, HighAddress of the L1→L2 mapper", e, false, nil)
	e, _ = c10Assign(b, file, "b.l1AddressMapper.UseAddressSpaceLimitation", 0)
	o.strs(pfx+"_l1Limit", file+": Build, UseAddressSpaceLimitation of the L1→L2 mapper", []string{nodeString(e)})

	l2 := c10Func(f, file, "Builder", "buildL2Caches")
	fr := c10For(l2, file, 0)
	iv, ie := c10ForInit(fr, file)
	pv, pe := c10ForPost(fr, file)
	o.strs(pfx+"_l2Loop", file+": buildL2Caches, loop header and the module appended to the L1→L2 mapper per iteration",
		append([]string{iv, nodeString(ie), nodeString(fr.Cond), pv, pe}, c10ArgStrings(c10Call(l2, file, "append", 1))...))

	c := c10Func(f, file, "Builder", "connectL1ToL2")
	e, _ = c10Assign(c, file, "b.l1AddressMapper.ModuleForOtherAddresses", 0)
	o.strs(pfx+"_l1Other", file+": connectL1ToL2, the engine's local-module finder and ModuleForOtherAddresses of the L1→L2 mapper",
		append(c10ArgStrings(c10Call(c, file, "b.rdmaEngine.SetLocalModuleFinder", 0)), nodeString(e)))

	d := c10Func(f, file, "Builder", "connectL2AndDRAM")
	o.def(file, pfx+"_dramInterleave", "connectL2AndDRAM, interleaving size of the DMA / PMC mapper over the DRAM controllers",
		c10Call(d, file, "mem.NewInterleavedAddressPortMapper", 0)[0], false, nil)
	o.strs(pfx+"_l2ToDram", file+": connectL2AndDRAM, the DRAM controller L2 bank i writes back to and the module appended to the DMA / PMC mapper",
		[]string{nodeString(c10KeyValue(d, file, "Port", 0)), c10ArgStrings(c10Call(d, file, "append", 0))[1]})

	r := c10Func(f, file, "Builder", "buildRDMAEngine")
	e, _ = c10Assign(r, file, "b.rdmaEngine", 0)
	e2, _ := c10Assign(r, file, "b.rdmaEngine.RemoteRDMAAddressTable", 0)
	o.strs(pfx+"_rdmaBuild", file+": buildRDMAEngine, builder calls, the local-module mapper and the remote table",
		append(c18Chain(e), c18ChainArg(e, "WithLocalModules"), nodeString(e2)))

	p := c10Func(f, file, "Builder", "populateExternalPorts")
	o.strs(pfx+"_extPorts", file+": populateExternalPorts, the engine ports exported as RDMARequest / RDMAData",
		append(c10ArgStrings(c10Call(p, file, "b.gpu.AddPort", 1)), c10ArgStrings(c10Call(p, file, "b.gpu.AddPort", 2))...))
}

func genC18() {
	o := &c10Out{names: map[string]bool{}}
	o.b.WriteString("-- GENERATED by /verif/translate (c18.go) from amd/samples/runner/timingconfig/{builder,r9nano/builder,mi300a/builder}.go, amd/timing/rdma/builder.go, amd/driver/driver.go, amd/samples/runner/runner.go; do not edit\n")
	o.b.WriteString("namespace Gen.C18Plat\n\n")

	// ---------------------------------------------------------------- timingconfig/builder.go
	const tb = "amd/samples/runner/timingconfig/builder.go"
	_, ftb := parseFile(tb)
	mk := c10Func(ftb, tb, "", "MakeBuilder")
	for _, k := range []string{"numGPUs", "cpuMemSize", "gpuMemSize", "log2PageSize"} {
		o.c18Num(k, tb+": MakeBuilder, "+k, c18Const(tb, c10KeyValue(mk, tb, k, 0)))
	}
	gt := c10KeyValue(mk, tb, "gpuType", 0)
	o.strs("defaultGPUType", tb+": MakeBuilder, gpuType", []string{nodeString(gt)})
	bd := c10Func(ftb, tb, "Builder", "Build")
	o.def(tb, "storageCap", "Build, capacity of the global storage", c10Call(bd, tb, "mem.NewStorage", 0)[0], false, nil)
	o.def(tb, "sizesDiffer", "cpuGPUMemSizeMustEqual panics when", c10IfCond(c10Func(ftb, tb, "Builder", "cpuGPUMemSizeMustEqual"), tb, 0), true, nil)
	am := c10Func(ftb, tb, "Builder", "createRDMAAddressMapper")
	e, _ := c10Assign(am, tb, "b.rdmaAddressMapper.BankSize", 0)
	o.def(tb, "rdmaBankSize", "createRDMAAddressMapper, BankSize of the RDMA address table", e, false, nil)
	o.strs("rdmaFirstModule", tb+": createRDMAAddressMapper, first entry of the table", c10ArgStrings(c10Call(am, tb, "append", 0))[1:])
	cg := c10Func(ftb, tb, "Builder", "createGPUs")
	fr := c10For(cg, tb, 0)
	iv, ie := c10ForInit(fr, tb)
	pv, pe := c10ForPost(fr, tb)
	if iv != "i" || pv != "i" || pe != "++" {
		fatalf("c18: %s: createGPUs: loop header changed", tb)
	}
	o.def(tb, "gpuLoopStart", "createGPUs, index of the first GPU", ie, false, nil)
	o.def(tb, "gpuLoopCond", "createGPUs, loop condition", fr.Cond, true, nil)
	o.strs("gpuLoopBody", tb+": createGPUs, arguments of createGPU", c10ArgStrings(c10Call(cg, tb, "b.createGPU", 0)))
	g := c10Func(ftb, tb, "Builder", "createGPU")
	e, _ = c10Assign(g, tb, "memAddrOffset", 0)
	o.def(tb, "memAddrOffset", "createGPU, address offset of GPU `index`", e, false, nil)
	e, _ = c10Assign(g, tb, "gpu", 0)
	o.strs("gpuBuildCalls", tb+": createGPU, builder calls (no WithDramSize / WithNumMemoryBank / WithLog2MemoryBankInterleavingSize: the GPU builder's defaults apply)", c18Chain(e))
	o.strs("gpuBuildArgs", tb+": createGPU, arguments of WithGPUID / WithMemAddrOffset / WithRDMAAddressMapper",
		append(append(c10ArgStrings(c10Call(g, tb, "gpuBuilder.WithGPUID", 0)), c18ChainArg(e, "WithMemAddrOffset")), c18ChainArg(e, "WithRDMAAddressMapper")))
	o.strs("registerDramSize", tb+": createGPU, DRAMSize the driver's allocator is told", []string{nodeString(c10KeyValue(g, tb, "DRAMSize", 0))})
	o.strs("rdmaAppend", tb+": configRDMAEngine, entry appended to the RDMA address table per GPU",
		c10ArgStrings(c10Call(c10Func(ftb, tb, "Builder", "configRDMAEngine"), tb, "append", 0))[1:])
	sw := c10Func(ftb, tb, "Builder", "createGPUBuilder")
	o.strs("gpuBuilderCalls", tb+": createGPUBuilder, builder calls of the mi300a / r9nano builder",
		append(c18Chain(c10Return(sw, tb, 0)), c18Chain(c10Return(sw, tb, 1))...))

	c18GPUBuilder(o, "r9nano", "amd/samples/runner/timingconfig/r9nano/builder.go")
	c18GPUBuilder(o, "mi300a", "amd/samples/runner/timingconfig/mi300a/builder.go")

	// ---------------------------------------------------------------- rdma/builder.go
	const rb = "amd/timing/rdma/builder.go"
	_, frb := parseFile(rb)
	rmk := c10Func(frb, rb, "", "MakeBuilder")
	for _, k := range []string{"bufferSize", "incomingReqPerCycle", "incomingRspPerCycle", "outgoingReqPerCycle", "outgoingRspPerCycle"} {
		o.c18Num("rdma_"+k, rb+": MakeBuilder, "+k, c18Const(rb, c10KeyValue(rmk, rb, k, 0)))
	}
	rbd := c10Func(frb, rb, "Builder", "Build")
	var caps []string
	for i := 0; i < 5; i++ {
		a := c10ArgStrings(c10Call(rbd, rb, "sim.NewPort", i))
		caps = append(caps, a[1], a[2])
	}
	o.strs("rdma_portCaps", rb+": Build, incoming / outgoing capacity of the five ports", caps)

	// ---------------------------------------------------------------- driver.go
	const dr = "amd/driver/driver.go"
	_, fdr := parseFile(dr)
	o.def(dr, "numWGInDim", "numWGInDim", c10Return(c10Func(fdr, dr, "", "numWGInDim"), dr, 0), false, nil)
	dw := c10Func(fdr, dr, "Driver", "distributeWGToGPUs")
	e, _ = c10Assign(dw, dr, "totalWGCount", 0)
	o.def(dr, "totalWGCount", "distributeWGToGPUs, total number of work-groups", e, false, nil)
	e, _ = c10Assign(dw, dr, "wgPerCU", 0)
	o.def(dr, "wgPerCU", "distributeWGToGPUs, work-groups per compute unit", e, false, nil)
	e, _ = c10Assign(dw, dr, "wgToAllocate", 0)
	o.def(dr, "wgToAllocate", "distributeWGToGPUs, share of one GPU", e, false, nil)
	e1, _ := c10Assign(dw, dr, "wgDist[i+1]", 0)
	e2, tk := c10Assign(dw, dr, "wgAllocated", 1)
	o.strs("wgAccumulate", dr+": distributeWGToGPUs, next boundary and running sum", []string{nodeString(e1), tk.String(), nodeString(e2)})
	o.def(dr, "wgNotAll", "distributeWGToGPUs panics (not all wg allocated) when", c10IfCond(dw, dr, 0), true, nil)
	var dims []string
	for _, v := range []string{"numWGX", "numWGY", "numWGZ"} {
		e, _ = c10Assign(dw, dr, v, 0)
		dims = append(dims, nodeString(e))
	}
	o.strs("wgDims", dr+": distributeWGToGPUs, work-groups per dimension", dims)
	pu := c10Func(fdr, dr, "Driver", "processUnifiedMultiGPULaunchKernelCommand")
	e, _ = c10Assign(pu, dr, "flattenedID", 0)
	o.def(dr, "flattenedID", "work-group filter, flattened work-group id", e, false, nil)
	dims = nil
	for _, v := range []string{"numWGX", "numWGY"} {
		e, _ = c10Assign(pu, dr, v, 0)
		dims = append(dims, nodeString(e))
	}
	o.strs("filterDims", dr+": work-group filter, work-groups per dimension", dims)
	o.strs("filterTests", dr+": processUnifiedMultiGPULaunchKernelCommand, GPU i is skipped when / the filter accepts when / the command completes at once when",
		[]string{nodeString(c10IfCond(pu, dr, 0)), nodeString(c10IfCond(pu, dr, 1)), nodeString(c10IfCond(pu, dr, 2))})

	// ---------------------------------------------------------------- runner.go
	const rn = "amd/samples/runner/runner.go"
	_, frn := parseFile(rn)
	var nums []string
	for _, fn := range []string{"buildEmuPlatform", "buildTimingPlatform"} {
		e, _ = c10Assign(c10Func(frn, rn, "Runner", fn), rn, "b", 0)
		nums = append(nums, c18ChainArg(e, "WithNumGPUs"))
	}
	o.strs("runnerNumGPUs", rn+": buildEmuPlatform / buildTimingPlatform, the number of GPUs the platform is built with", nums)
	// the helper both builders call for that number (`r.numGPUsToBuild()`): its statements, whitespace-normalised
	var body []string
	if len(nums) > 0 && strings.HasPrefix(nums[0], "r.") && strings.HasSuffix(nums[0], "()") {
		h := c10Func(frn, rn, "Runner", strings.TrimSuffix(strings.TrimPrefix(nums[0], "r."), "()"))
		for _, st := range h.Body.List {
			body = append(body, strings.Join(strings.Fields(nodeString(st)), " "))
		}
	}
	o.strs("runnerNumGPUsBody", rn+": the statements of the helper that computes the number of GPUs (empty: the number is an expression)", body)
	cu := c10Func(frn, rn, "Runner", "createUnifiedGPUs")
	e, _ = c10Assign(cu, rn, "r.GPUIDs", 0)
	o.strs("runnerUnified", rn+": createUnifiedGPUs, the GPUs unified and the list the benchmarks get",
		append(c10ArgStrings(c10Call(cu, rn, "driver.CreateUnifiedGPU", 0)), nodeString(e)))

	o.b.WriteString("end Gen.C18Plat\n")
	writeIfChanged("C18Plat.lean", o.b.String())
}

// c18ChainArg returns the single argument of method `name` in a call chain.
func c18ChainArg(e ast.Expr, name string) string {
	for {
		c, ok := e.(*ast.CallExpr)
		if !ok {
			break
		}
		s, ok := c.Fun.(*ast.SelectorExpr)
		if !ok {
			break
		}
		if s.Sel.Name == name {
			if len(c.Args) != 1 {
				fatalf("c18: call of %s has %d arguments", name, len(c.Args))
			}
			return nodeString(c.Args[0])
		}
		e = s.X
	}
	fatalf("c18: call of %s not found in `%s`", name, strings.ReplaceAll(nodeString(e), "\n", " "))
	return ""
}

var _ = token.ADD
