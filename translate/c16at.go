package main

// addrtrans: regenerates lean/MgpuModel/Gen/AddrTrans.lean from
// amd/timing/mem/addresstranslator/{addresstranslator.go,builder.go} (property C16).
//
// What is generated (and proved equal to the hand-written model in MgpuProofs/Props/C16Gen.lean):
//   * the uint64 address arithmetic of addrToPageID / createTranslatedReadReq /
//     createTranslatedWriteReq as Lean functions (each Go operator becomes the Nat operator
//     reduced modulo 2^64);
//   * the stage order of middleware.Tick / runPipeline (which stage functions are called, in which
//     order, with which per-cycle bound, in normal and in flushing mode);
//   * the builder-call chains that construct every message the translator sends (method name,
//     argument expression) and the assignments of handleFlushReq / handleRestartReq;
//   * the port capacities of Builder.createPorts and the defaults of MakeBuilder.
// Anything that does not have the expected shape is refused loudly.

import (
	"fmt"
	"go/ast"
	"go/token"
	"strings"
)

func init() { extraGens = append(extraGens, gen{"addrtrans", genAddrTrans}) }

const c16Dir = "amd/timing/mem/addresstranslator/"

func c16Func(f *ast.File, recv, name string) *ast.FuncDecl {
	for _, d := range f.Decls {
		fd, ok := d.(*ast.FuncDecl)
		if !ok || fd.Name.Name != name {
			continue
		}
		r := ""
		if fd.Recv != nil && len(fd.Recv.List) == 1 {
			t := fd.Recv.List[0].Type
			if st, ok := t.(*ast.StarExpr); ok {
				t = st.X
			}
			if id, ok := t.(*ast.Ident); ok {
				r = id.Name
			}
		}
		if r == recv {
			return fd
		}
	}
	fatalf("addrtrans: func (%s) %s not found", recv, name)
	return nil
}

// c16U64 translates a Go uint64 expression into a Lean Nat expression with wrap-around.
func c16U64(e ast.Expr, env map[string]string) string {
	switch x := e.(type) {
	case *ast.ParenExpr:
		return c16U64(x.X, env)
	case *ast.BasicLit:
		if x.Kind == token.INT {
			return x.Value
		}
	case *ast.Ident:
		if v, ok := env[x.Name]; ok {
			return v
		}
	case *ast.SelectorExpr:
		if v, ok := env[nodeString(x)]; ok {
			return v
		}
	case *ast.BinaryExpr:
		a, b := c16U64(x.X, env), c16U64(x.Y, env)
		switch x.Op {
		case token.SHR:
			return fmt.Sprintf("((%s >>> %s) %% U64)", a, b)
		case token.SHL:
			return fmt.Sprintf("((%s <<< %s) %% U64)", a, b)
		case token.ADD:
			return fmt.Sprintf("((%s + %s) %% U64)", a, b)
		case token.REM:
			return fmt.Sprintf("(%s %% %s)", a, b)
		}
	}
	fatalf("addrtrans: unsupported uint64 expression %s", nodeString(e))
	return ""
}

// c16Chain flattens `pkg.XBuilder{}.WithA(a).WithB(b).Build()` into the builder type and the
// (method, argument) list in call order.
func c16Chain(e ast.Expr) (string, [][2]string, bool) {
	var calls [][2]string
	for {
		call, ok := e.(*ast.CallExpr)
		if !ok {
			break
		}
		sel, ok := call.Fun.(*ast.SelectorExpr)
		if !ok {
			return "", nil, false
		}
		args := []string{}
		for _, a := range call.Args {
			args = append(args, strings.Join(strings.Fields(nodeString(a)), " "))
		}
		calls = append([][2]string{{sel.Sel.Name, strings.Join(args, ", ")}}, calls...)
		e = sel.X
	}
	cl, ok := e.(*ast.CompositeLit)
	if !ok {
		return "", nil, false
	}
	return nodeString(cl.Type), calls, true
}

type c16Msg struct {
	fn      string
	builder string
	calls   [][2]string
}

// every builder chain in a function body, in source order, plus `x.F = e` assignments to fields of
// the freshly built message (recorded as method "=F")
func c16Chains(fd *ast.FuncDecl) []c16Msg {
	var out []c16Msg
	built := map[string]int{} // variable -> index in out
	ast.Inspect(fd.Body, func(n ast.Node) bool {
		as, ok := n.(*ast.AssignStmt)
		if !ok || len(as.Lhs) != 1 || len(as.Rhs) != 1 {
			return true
		}
		if b, calls, ok := c16Chain(as.Rhs[0]); ok && strings.HasSuffix(b, "Builder") {
			out = append(out, c16Msg{fd.Name.Name, b, calls})
			if id, ok := as.Lhs[0].(*ast.Ident); ok {
				built[id.Name] = len(out) - 1
			}
			return false
		}
		if sel, ok := as.Lhs[0].(*ast.SelectorExpr); ok {
			if id, ok := sel.X.(*ast.Ident); ok {
				if i, ok := built[id.Name]; ok {
					out[i].calls = append(out[i].calls, [2]string{"=" + sel.Sel.Name,
						strings.Join(strings.Fields(nodeString(as.Rhs[0])), " ")})
				}
			}
		}
		return true
	})
	return out
}

// c16StageLoop recognises
//
//	for i := 0; i < m.numReqPerCycle; i++ { madeProgress = m.F() || madeProgress }
func c16StageLoop(s ast.Stmt) (string, bool) {
	fs, ok := s.(*ast.ForStmt)
	if !ok || fs.Init == nil || fs.Cond == nil || fs.Post == nil || len(fs.Body.List) != 1 {
		return "", false
	}
	if strings.Join(strings.Fields(nodeString(fs.Init)), "") != "i:=0" ||
		strings.Join(strings.Fields(nodeString(fs.Cond)), "") != "i<m.numReqPerCycle" ||
		strings.Join(strings.Fields(nodeString(fs.Post)), "") != "i++" {
		return "", false
	}
	return c16StageAssign(fs.Body.List[0])
}

// madeProgress = m.F() || madeProgress
func c16StageAssign(s ast.Stmt) (string, bool) {
	as, ok := s.(*ast.AssignStmt)
	if !ok || len(as.Lhs) != 1 || nodeString(as.Lhs[0]) != "madeProgress" || as.Tok != token.ASSIGN {
		return "", false
	}
	be, ok := as.Rhs[0].(*ast.BinaryExpr)
	if !ok || be.Op != token.LOR || nodeString(be.Y) != "madeProgress" {
		return "", false
	}
	return c16Call(be.X)
}

func c16Call(e ast.Expr) (string, bool) {
	call, ok := e.(*ast.CallExpr)
	if !ok || len(call.Args) != 0 {
		return "", false
	}
	sel, ok := call.Fun.(*ast.SelectorExpr)
	if !ok || nodeString(sel.X) != "m" {
		return "", false
	}
	return sel.Sel.Name, true
}

func c16IsInitFalse(s ast.Stmt) bool {
	return strings.Join(strings.Fields(nodeString(s)), "") == "madeProgress:=false"
}

func c16IsReturn(s ast.Stmt) bool {
	return strings.Join(strings.Fields(nodeString(s)), "") == "returnmadeProgress"
}

func c16StrList(xs []string) string {
	q := make([]string, len(xs))
	for i, x := range xs {
		q[i] = leanStr(x)
	}
	return "[" + strings.Join(q, ", ") + "]"
}

func genAddrTrans() {
	_, fa := parseFile(c16Dir + "addresstranslator.go")
	_, fb := parseFile(c16Dir + "builder.go")
	var b strings.Builder
	b.WriteString("-- GENERATED by /verif/translate (addrtrans) from " + c16Dir + "{addresstranslator.go,builder.go}; do not edit\n")
	b.WriteString("namespace Gen.AT\n\n")
	b.WriteString("/-- 2^64: Go's uint64 arithmetic wraps -/\ndef U64 : Nat := 18446744073709551616\n\n")

	// ---- addrToPageID
	fd := c16Func(fa, "middleware", "addrToPageID")
	if len(fd.Body.List) != 1 {
		fatalf("addrtrans: addrToPageID: expected a single return")
	}
	ret, ok := fd.Body.List[0].(*ast.ReturnStmt)
	if !ok || len(ret.Results) != 1 {
		fatalf("addrtrans: addrToPageID: expected a single return")
	}
	env := map[string]string{"addr": "addr", "m.log2PageSize": "lg"}
	fmt.Fprintf(&b, "/-- `%s` -/\ndef addrToPageID (lg addr : Nat) : Nat := %s\n\n",
		strings.Join(strings.Fields(nodeString(ret)), " "), c16U64(ret.Results[0], env))

	// ---- createTranslatedReadReq / createTranslatedWriteReq: offset and addr
	for _, k := range []string{"Read", "Write"} {
		fd := c16Func(fa, "middleware", "createTranslated"+k+"Req")
		var offE, addrE ast.Expr
		for _, s := range fd.Body.List {
			as, ok := s.(*ast.AssignStmt)
			if !ok || as.Tok != token.DEFINE || len(as.Lhs) != 1 {
				continue
			}
			switch nodeString(as.Lhs[0]) {
			case "offset":
				offE = as.Rhs[0]
			case "addr":
				addrE = as.Rhs[0]
			}
		}
		if offE == nil || addrE == nil {
			fatalf("addrtrans: createTranslated%sReq: `offset := …` / `addr := …` not found", k)
		}
		env := map[string]string{"req.Address": "vaddr", "m.log2PageSize": "lg", "page.PAddr": "paddr"}
		off := c16U64(offE, env)
		env["offset"] = fmt.Sprintf("(offset%s lg vaddr)", k)
		fmt.Fprintf(&b, "/-- `offset := %s` in createTranslated%sReq -/\ndef offset%s (lg vaddr : Nat) : Nat := %s\n\n",
			strings.Join(strings.Fields(nodeString(offE)), " "), k, k, off)
		fmt.Fprintf(&b, "/-- `addr := %s` in createTranslated%sReq -/\ndef addr%s (lg paddr vaddr : Nat) : Nat := %s\n\n",
			strings.Join(strings.Fields(nodeString(addrE)), " "), k, k, c16U64(addrE, env))
	}

	// ---- stage order of Tick / runPipeline
	rp := c16Func(fa, "middleware", "runPipeline")
	var pipeline []string
	{
		l := rp.Body.List
		if len(l) < 3 || !c16IsInitFalse(l[0]) || !c16IsReturn(l[len(l)-1]) {
			fatalf("addrtrans: runPipeline: unexpected shape")
		}
		for _, s := range l[1 : len(l)-1] {
			f, ok := c16StageLoop(s)
			if !ok {
				fatalf("addrtrans: runPipeline: statement is not a per-cycle stage loop: %s", nodeString(s))
			}
			pipeline = append(pipeline, f)
		}
	}
	tk := c16Func(fa, "middleware", "Tick")
	var flushing, after []string
	{
		l := tk.Body.List
		if len(l) < 4 || !c16IsInitFalse(l[0]) || !c16IsReturn(l[len(l)-1]) {
			fatalf("addrtrans: Tick: unexpected shape")
		}
		is, ok := l[1].(*ast.IfStmt)
		if !ok || strings.Join(strings.Fields(nodeString(is.Cond)), "") != "!m.isFlushing" || is.Else == nil {
			fatalf("addrtrans: Tick: expected `if !m.isFlushing { … } else { … }`")
		}
		if len(is.Body.List) != 1 || strings.Join(strings.Fields(nodeString(is.Body.List[0])), "") != "madeProgress=m.runPipeline()" {
			fatalf("addrtrans: Tick: the non-flushing branch is not `madeProgress = m.runPipeline()`")
		}
		eb, ok := is.Else.(*ast.BlockStmt)
		if !ok {
			fatalf("addrtrans: Tick: else branch is not a block")
		}
		for _, s := range eb.List {
			f, ok := c16StageLoop(s)
			if !ok {
				fatalf("addrtrans: Tick: flushing branch statement is not a per-cycle stage loop: %s", nodeString(s))
			}
			flushing = append(flushing, f)
		}
		for _, s := range l[2 : len(l)-1] {
			f, ok := c16StageAssign(s)
			if !ok {
				fatalf("addrtrans: Tick: unexpected statement %s", nodeString(s))
			}
			after = append(after, f)
		}
	}
	fmt.Fprintf(&b, "/-- runPipeline: one `for i < numReqPerCycle` loop per entry, in this order -/\ndef pipelineStages : List String := %s\n\n", c16StrList(pipeline))
	fmt.Fprintf(&b, "/-- Tick while flushing: one per-cycle loop per entry -/\ndef flushingStages : List String := %s\n\n", c16StrList(flushing))
	fmt.Fprintf(&b, "/-- Tick, after the pipeline, in both modes: called once each -/\ndef afterStages : List String := %s\n\n", c16StrList(after))

	// ---- handleCtrlRequest dispatch: which flag selects which handler, in which order
	hc := c16Func(fa, "middleware", "handleCtrlRequest")
	var dispatch [][2]string
	ast.Inspect(hc.Body, func(n ast.Node) bool {
		is, ok := n.(*ast.IfStmt)
		if !ok {
			return true
		}
		if len(is.Body.List) == 1 {
			if r, ok := is.Body.List[0].(*ast.ReturnStmt); ok && len(r.Results) == 1 {
				if call, ok := r.Results[0].(*ast.CallExpr); ok {
					if sel, ok := call.Fun.(*ast.SelectorExpr); ok {
						dispatch = append(dispatch, [2]string{strings.Join(strings.Fields(nodeString(is.Cond)), " "), sel.Sel.Name})
					}
				}
			}
		}
		return true
	})
	b.WriteString("/-- handleCtrlRequest: (condition, handler) in test order -/\ndef ctlDispatch : List (String × String) := [")
	for i, d := range dispatch {
		if i > 0 {
			b.WriteString(", ")
		}
		fmt.Fprintf(&b, "(%s, %s)", leanStr(d[0]), leanStr(d[1]))
	}
	b.WriteString("]\n\n")

	// ---- the field assignments and incoming-buffer drains of the two control handlers
	for _, h := range []string{"handleFlushReq", "handleRestartReq"} {
		fd := c16Func(fa, "middleware", h)
		var assigns [][2]string
		var drains []string
		order := []string{} // order of the observable actions: send / retrieve-ctl / drains / assignments
		for _, s := range fd.Body.List {
			switch x := s.(type) {
			case *ast.AssignStmt:
				if len(x.Lhs) == 1 && x.Tok == token.ASSIGN {
					if sel, ok := x.Lhs[0].(*ast.SelectorExpr); ok && nodeString(sel.X) == "m" {
						assigns = append(assigns, [2]string{sel.Sel.Name, nodeString(x.Rhs[0])})
						order = append(order, "set:"+sel.Sel.Name)
					}
				}
				if len(x.Lhs) == 1 && nodeString(x.Lhs[0]) == "err" {
					order = append(order, "send:"+strings.Join(strings.Fields(nodeString(x.Rhs[0])), ""))
				}
			case *ast.ForStmt:
				c := strings.Join(strings.Fields(nodeString(x.Cond)), "")
				if x.Init == nil && x.Post == nil && len(x.Body.List) == 0 &&
					strings.HasPrefix(c, "m.") && strings.HasSuffix(c, ".RetrieveIncoming()!=nil") {
					p := strings.TrimSuffix(strings.TrimPrefix(c, "m."), ".RetrieveIncoming()!=nil")
					drains = append(drains, p)
					order = append(order, "drain:"+p)
				} else {
					fatalf("addrtrans: %s: unexpected loop %s", h, nodeString(x))
				}
			case *ast.ExprStmt:
				order = append(order, "do:"+strings.Join(strings.Fields(nodeString(x.X)), ""))
			case *ast.IfStmt:
				order = append(order, "if:"+strings.Join(strings.Fields(nodeString(x.Cond)), "")+"{"+strings.Join(strings.Fields(nodeString(x.Body)), "")+"}")
			case *ast.ReturnStmt:
				order = append(order, "return:"+strings.Join(strings.Fields(nodeString(x.Results[0])), ""))
			}
		}
		fmt.Fprintf(&b, "def %sAssigns : List (String × String) := [", h)
		for i, a := range assigns {
			if i > 0 {
				b.WriteString(", ")
			}
			fmt.Fprintf(&b, "(%s, %s)", leanStr(a[0]), leanStr(a[1]))
		}
		b.WriteString("]\n")
		fmt.Fprintf(&b, "def %sDrains : List String := %s\n", h, c16StrList(drains))
		fmt.Fprintf(&b, "def %sOrder : List String := %s\n\n", h, c16StrList(order))
	}

	// ---- every message the translator builds
	b.WriteString("/-- one message construction: function, builder type, (method, argument) calls in order;\n    `=F` is an assignment to field F of the built message -/\nstructure Msg where\n  fn : String\n  builder : String\n  calls : List (String × String)\nderiving Repr, DecidableEq\n\n")
	b.WriteString("def msgs : List Msg := [\n")
	first := true
	for _, fn := range []string{"translate", "respond", "createTranslatedReadReq", "createTranslatedWriteReq", "handleFlushReq", "handleRestartReq"} {
		for _, m := range c16Chains(c16Func(fa, "middleware", fn)) {
			if !first {
				b.WriteString(",\n")
			}
			first = false
			fmt.Fprintf(&b, "  { fn := %s, builder := %s,\n    calls := [", leanStr(m.fn), leanStr(m.builder))
			for i, c := range m.calls {
				if i > 0 {
					b.WriteString(", ")
				}
				fmt.Fprintf(&b, "(%s, %s)", leanStr(c[0]), leanStr(c[1]))
			}
			b.WriteString("] }")
		}
	}
	b.WriteString("]\n\n")

	// ---- the conditions of every scan (`for … range` + `if`) of the middleware
	b.WriteString("/-- (function, range operand, condition) of every `if` directly inside a `for … range` -/\ndef scanConds : List (String × String × String) := [")
	firstc := true
	for _, d := range fa.Decls {
		fd, ok := d.(*ast.FuncDecl)
		if !ok || fd.Body == nil {
			continue
		}
		ast.Inspect(fd.Body, func(n ast.Node) bool {
			rs, ok := n.(*ast.RangeStmt)
			if !ok {
				return true
			}
			for _, s := range rs.Body.List {
				if is, ok := s.(*ast.IfStmt); ok {
					if !firstc {
						b.WriteString(",\n  ")
					}
					firstc = false
					fmt.Fprintf(&b, "(%s, %s, %s)", leanStr(fd.Name.Name), leanStr(nodeString(rs.X)),
						leanStr(strings.Join(strings.Fields(nodeString(is.Cond)), " ")))
				}
			}
			return true
		})
	}
	b.WriteString("]\n\n")

	// ---- ports and defaults of the builder
	b.WriteString("/-- a port-buffer capacity: the per-cycle width or a constant -/\ninductive Cap\n  | width\n  | const (n : Nat)\nderiving Repr, DecidableEq\n\n")
	cp := c16Func(fb, "Builder", "createPorts")
	type port struct{ name, in, out string }
	var ports []port
	vars := map[string][2]string{}
	ast.Inspect(cp.Body, func(n ast.Node) bool {
		switch x := n.(type) {
		case *ast.AssignStmt:
			if len(x.Rhs) == 1 {
				if call, ok := x.Rhs[0].(*ast.CallExpr); ok && nodeString(call.Fun) == "sim.NewPort" && len(call.Args) == 4 {
					vars[nodeString(x.Lhs[0])] = [2]string{nodeString(call.Args[1]), nodeString(call.Args[2])}
				}
			}
		case *ast.CallExpr:
			if nodeString(x.Fun) == "t.AddPort" && len(x.Args) == 2 {
				v, ok := vars[nodeString(x.Args[1])]
				if !ok {
					fatalf("addrtrans: createPorts: AddPort of an unknown port %s", nodeString(x.Args[1]))
				}
				ports = append(ports, port{strings.Trim(nodeString(x.Args[0]), "\""), v[0], v[1]})
			}
		}
		return true
	})
	capE := func(s string) string {
		if s == "b.numReqPerCycle" {
			return "Cap.width"
		}
		if v, ok := constInt(&ast.BasicLit{Kind: token.INT, Value: s}, nil); ok {
			return fmt.Sprintf("Cap.const %d", v)
		}
		fatalf("addrtrans: createPorts: unsupported capacity expression %s", s)
		return ""
	}
	b.WriteString("/-- Builder.createPorts: (port name, incoming capacity, outgoing capacity) -/\ndef ports : List (String × Cap × Cap) := [")
	for i, p := range ports {
		if i > 0 {
			b.WriteString(", ")
		}
		fmt.Fprintf(&b, "(%s, %s, %s)", leanStr(p.name), capE(p.in), capE(p.out))
	}
	b.WriteString("]\n\n")

	mb := c16Func(fb, "", "MakeBuilder")
	var defs [][2]string
	ast.Inspect(mb.Body, func(n ast.Node) bool {
		kv, ok := n.(*ast.KeyValueExpr)
		if !ok {
			return true
		}
		if v, ok := constInt(kv.Value, nil); ok {
			defs = append(defs, [2]string{nodeString(kv.Key), fmt.Sprint(v)})
		}
		return true
	})
	b.WriteString("/-- MakeBuilder: integer defaults -/\ndef defaults : List (String × Nat) := [")
	for i, d := range defs {
		if i > 0 {
			b.WriteString(", ")
		}
		fmt.Fprintf(&b, "(%s, %s)", leanStr(d[0]), d[1])
	}
	b.WriteString("]\n\n")

	// Build: which builder field feeds which component field
	bd := c16Func(fb, "Builder", "Build")
	var wiring [][2]string
	for _, s := range bd.Body.List {
		as, ok := s.(*ast.AssignStmt)
		if !ok || len(as.Lhs) != 1 || as.Tok != token.ASSIGN {
			continue
		}
		if sel, ok := as.Lhs[0].(*ast.SelectorExpr); ok && nodeString(sel.X) == "t" {
			wiring = append(wiring, [2]string{sel.Sel.Name, strings.Join(strings.Fields(nodeString(as.Rhs[0])), " ")})
		}
	}
	b.WriteString("/-- Builder.Build: component field := builder expression -/\ndef wiring : List (String × String) := [")
	for i, d := range wiring {
		if i > 0 {
			b.WriteString(", ")
		}
		fmt.Fprintf(&b, "(%s, %s)", leanStr(d[0]), leanStr(d[1]))
	}
	b.WriteString("]\n\nend Gen.AT\n")
	writeIfChanged("AddrTrans.lean", b.String())
}
