package main

// C06 — lane bodies of the DS / FLAT handlers -> Lean (`mraw_<arch>_<name> : MemUni → MemRawIn → MemRawOut` in
// Gen/LaneBodies.lean).  Shape: `inst/exec/pid/lds prologue; [hasSAddr, scalarBase := u.flatPrecomputeScalarBase(state)];
// [var buf [N]byte]; for i := 0; i < 64; i++ { guard; BODY }`.  BODY: integer address arithmetic (alu.go's expression
// translator), byte slices as `List (BitVec 8)`:
//   x := state.ReadOperandBytes(inst.Data|inst.Data1, i, N)      x := u.storageAccessor.Read(pid, a, N)   (load)
//   x := insts.Uint32ToBytes(e) / Uint64ToBytes(e)               var x [N]byte
//   copy(lds[a:b], x)  lds[a] = e  u.storageAccessor.Write(pid, a, x)                                    (stores)
//   copy(x[c:d], lds[a:b])                                                                               (load)
//   x[k] = e   binary.LittleEndian.PutUint32(x[:], e)   state.WriteOperandBytes(inst.Dst, i, x[:])
//   if cond { log.Panicf(…) }                                                                            (fault)
// A `var buf [N]byte` declared OUTSIDE the loop is an input and an output of the body (`stage`): that no lane sees
// what an earlier lane left there is proved in Lean, not assumed. Anything else: refusal (exit 1).

import (
	"fmt"
	"go/ast"
	"go/constant"
	"go/token"
	"go/types"
	"strings"
)

type lmResult struct {
	arch, name, file string
	line             int
	isLds            bool
	stageLen         int64
	raw              string
}

func lbIsBytes(ty types.Type) bool {
	if ty == nil {
		return false
	}
	switch t := ty.Underlying().(type) {
	case *types.Slice:
		b, ok := t.Elem().Underlying().(*types.Basic)
		return ok && b.Kind() == types.Uint8
	case *types.Array:
		b, ok := t.Elem().Underlying().(*types.Basic)
		return ok && b.Kind() == types.Uint8
	}
	return false
}

type lmCtx struct {
	*lbCtx
	f        *lbFn
	ldsVar   string
	stageVar string
	usesLds  bool
	usesMem  bool
}

func (m *lmCtx) refuseT(n ast.Node, format string, args ...any) string {
	return m.t.fail(n, format, args...)
}

func constIntOf(info *types.Info, e ast.Expr) (int64, bool) {
	if e == nil {
		return 0, false
	}
	tv, ok := info.Types[e]
	if !ok || tv.Value == nil {
		return 0, false
	}
	return constant.Int64Val(constant.ToInt(tv.Value))
}

// memHooks extends the integer hooks with the operands / fields of memory instructions
func (m *lmCtx) memHooks() {
	c := m.lbCtx
	c.hooks()
	baseCall, baseSel, baseExpr := c.t.callHook, c.t.selHook, c.t.exprHook
	c.t.selHook = func(e *ast.SelectorExpr, env map[string]string) (string, bool) {
		switch types.ExprString(e) {
		case "inst.Offset0":
			return "u.offset0", true
		case "inst.Offset1":
			return "u.offset1", true
		}
		if id, ok := e.X.(*ast.Ident); ok && id.Name == "inst" {
			return c.fail(e, "instruction field inst.%s is not an input of a memory body", e.Sel.Name), true
		}
		return baseSel(e, env)
	}
	c.t.exprHook = func(e ast.Expr, env map[string]string) (string, bool) {
		if ie, ok := e.(*ast.IndexExpr); ok {
			if id, ok := ie.X.(*ast.Ident); ok && lbIsBytes(c.t.info.TypeOf(ie.X)) && id.Name != m.ldsVar {
				k, isC := constIntOf(c.t.info, ie.Index)
				v, known := env[id.Name]
				if !isC || !known || k < 0 {
					return c.fail(e, "byte index %s: not a constant index into a known byte slice", types.ExprString(e)), true
				}
				return fmt.Sprintf("(GoB.getByte %s %d)", v, k), true
			}
			return c.fail(e, "index expression %s", types.ExprString(e)), true
		}
		return baseExpr(e, env)
	}
	c.t.callHook = func(e *ast.CallExpr, env map[string]string) (string, bool) {
		if tv, ok := c.t.info.Types[e.Fun]; ok && tv.IsType() {
			return "", false
		}
		name := types.ExprString(e.Fun)
		switch {
		case name == "state.ReadOperand":
			idx := types.ExprString(e.Args[1])
			if types.ExprString(e.Args[0]) == "inst.Addr" && ((!c.memPure && idx == c.loopVar) || (c.memPure && idx == "laneID")) {
				if c.memPure {
					return "p_addr", true
				}
				return "r.addr", true
			}
			return c.fail(e, "ReadOperand(%s, %s) in a memory body", types.ExprString(e.Args[0]), idx), true
		case name == "binary.LittleEndian.Uint16" || name == "binary.LittleEndian.Uint32" || name == "binary.LittleEndian.Uint64" ||
			name == "insts.BytesToUint32" || name == "insts.BytesToUint64":
			fn := "GoB.u16"
			if strings.HasSuffix(name, "32") {
				fn = "GoB.u32"
			} else if strings.HasSuffix(name, "64") {
				fn = "GoB.u64"
			}
			return fmt.Sprintf("(%s %s)", fn, m.bytes(e.Args[0], env)), true
		case name == "len" && len(e.Args) == 1 && types.ExprString(e.Args[0]) == m.ldsVar && m.ldsVar != "":
			return "u.ldsLen", true
		case name == "u.flatAddrWithScalar" && len(e.Args) == 4 && types.ExprString(e.Args[0]) == "state" && types.ExprString(e.Args[1]) == c.loopVar:
			fd, ok := c.a.funcs["flatAddrWithScalar"]
			if !ok {
				return c.fail(e, "flatAddrWithScalar not found"), true
			}
			lean, err := m.memPure(fd)
			if err != nil {
				return c.fail(e, "helper flatAddrWithScalar: %v", err), true
			}
			return fmt.Sprintf("(%s u r.addr %s %s)", lean, c.t.expr(e.Args[2], env), c.t.expr(e.Args[3], env)), true
		case strings.HasPrefix(name, "state.") || strings.HasPrefix(name, "u.storageAccessor"):
			return c.fail(e, "call of %s inside an expression", name), true
		}
		return baseCall(e, env)
	}
}

// memPure: `flatAddrWithScalar(state, laneID, hasSAddr, scalarBase) uint64` as a function of the lane's address operand
func (m *lmCtx) memPure(fd *ast.FuncDecl) (string, error) {
	a := m.a
	lean := "fnm_" + a.name + "_" + fd.Name.Name
	if _, ok := a.pure[lean]; ok {
		return lean, nil
	}
	var ps []string
	env := map[string]string{}
	for _, p := range fd.Type.Params.List {
		for _, nm := range p.Names {
			switch {
			case nm.Name == "state":
			case nm.Name == "laneID" && types.ExprString(p.Type) == "int":
			default:
				ty, ok := lbLeanType(a.info.TypeOf(p.Type))
				if !ok {
					return "", fmt.Errorf("parameter %s of type %s", nm.Name, types.ExprString(p.Type))
				}
				env[nm.Name] = "p_" + nm.Name
				ps = append(ps, fmt.Sprintf("(p_%s : %s)", nm.Name, ty))
			}
		}
	}
	if fd.Type.Results == nil || len(fd.Type.Results.List) != 1 {
		return "", fmt.Errorf("not a single result")
	}
	rty, ok := lbLeanType(a.info.TypeOf(fd.Type.Results.List[0].Type))
	if !ok {
		return "", fmt.Errorf("result type")
	}
	c2 := &lbCtx{a: a, t: &aluTr{info: a.info, fset: a.fset}, mode: "pure", leaf: &lbLeaf{}, immut: map[string]bool{}, memPure: true}
	m2 := &lmCtx{lbCtx: c2, f: m.f}
	m2.memHooks()
	// `inst := state.Inst()` carries no information
	var body []ast.Stmt
	for _, st := range fd.Body.List {
		if as, ok := st.(*ast.AssignStmt); ok && len(as.Lhs) == 1 && types.ExprString(as.Lhs[0]) == "inst" && types.ExprString(as.Rhs[0]) == "state.Inst()" {
			continue
		}
		body = append(body, st)
	}
	txt := c2.stmts(body, env, "  ")
	if c2.t.err != nil {
		return "", c2.t.err
	}
	a.pure[lean] = fmt.Sprintf("/-- %s -/\ndef %s (u : MemUni) (p_addr : BitVec 64) %s : %s :=\n%s\n\n", a.relPos(fd), lean, strings.Join(ps, " "), rty, txt)
	a.pureOrder = append(a.pureOrder, lean)
	return lean, nil
}

// bytes translates an expression of type []byte / [N]byte that is READ
func (m *lmCtx) bytes(e ast.Expr, env map[string]string) string {
	c := m.lbCtx
	info := c.t.info
	switch x := e.(type) {
	case *ast.ParenExpr:
		return m.bytes(x.X, env)
	case *ast.Ident:
		if v, ok := env[x.Name]; ok && lbIsBytes(info.TypeOf(x)) && x.Name != m.ldsVar {
			return v
		}
	case *ast.SliceExpr:
		id, ok := x.X.(*ast.Ident)
		if ok && id.Name != m.ldsVar && x.Max == nil {
			v, known := env[id.Name]
			if known && lbIsBytes(info.TypeOf(id)) {
				if x.Low == nil && x.High == nil {
					return v
				}
				lo, okL := int64(0), true
				if x.Low != nil {
					lo, okL = constIntOf(info, x.Low)
				}
				hi, okH := constIntOf(info, x.High)
				if okL && okH && x.High != nil && lo >= 0 && hi >= lo {
					return fmt.Sprintf("((%s.drop %d).take %d)", v, lo, hi-lo)
				}
			}
		}
	case *ast.CallExpr:
		switch types.ExprString(x.Fun) {
		case "insts.Uint32ToBytes":
			return "(GoB.le32 " + c.t.expr(x.Args[0], env) + ")"
		case "insts.Uint64ToBytes":
			return "(GoB.le64 " + c.t.expr(x.Args[0], env) + ")"
		}
	}
	return c.fail(e, "byte-slice expression %s", types.ExprString(e))
}

// ldsRange: `lds[a:b]` -> (address as Nat, length as Nat)
func (m *lmCtx) ldsRange(e ast.Expr, env map[string]string) (string, string, bool) {
	se, ok := e.(*ast.SliceExpr)
	if !ok || se.Low == nil || se.High == nil || se.Max != nil {
		return "", "", false
	}
	if id, ok := se.X.(*ast.Ident); !ok || id.Name != m.ldsVar || m.ldsVar == "" {
		return "", "", false
	}
	lo, hi := m.t.expr(se.Low, env), m.t.expr(se.High, env)
	m.usesLds = true
	return "(" + lo + ").toNat", fmt.Sprintf("((%s) - (%s)).toNat", hi, lo), true
}

func lmAppend(env map[string]string, key, item string) map[string]string {
	e2 := copyEnv(env)
	if cur, ok := env[key]; ok && cur != "[]" {
		e2[key] = cur + " ++ " + item
	} else {
		e2[key] = item
	}
	return e2
}

// rebind a byte variable
func (m *lmCtx) rebind(name, val string, env map[string]string, ind string) (map[string]string, string) {
	env2 := copyEnv(env)
	v := freshName(name, env)
	env2[name] = v
	return env2, fmt.Sprintf("%slet %s : Bytes := %s\n", ind, v, val)
}

// memStmt handles the statements specific to memory bodies; ok=false: not one of them (generic integer statement)
func (m *lmCtx) memStmt(s ast.Stmt, rest []ast.Stmt, env map[string]string, ind string) (string, bool) {
	c := m.lbCtx
	t := c.t
	info := t.info
	cont := func(env2 map[string]string, pre string) (string, bool) { return pre + c.stmts(rest, env2, ind), true }
	switch s := s.(type) {
	case *ast.DeclStmt:
		gd, ok := s.Decl.(*ast.GenDecl)
		if !ok || gd.Tok != token.VAR || len(gd.Specs) != 1 {
			return "", false
		}
		vs := gd.Specs[0].(*ast.ValueSpec)
		if len(vs.Names) != 1 || len(vs.Values) != 0 || !lbIsBytes(info.TypeOf(vs.Names[0])) {
			return "", false
		}
		at, ok := info.TypeOf(vs.Names[0]).Underlying().(*types.Array)
		if !ok {
			return t.fail(s, "var %s: a nil byte slice", vs.Names[0].Name), true
		}
		if _, shadow := env[vs.Names[0].Name]; shadow {
			return t.fail(s, "var %s shadows an existing variable", vs.Names[0].Name), true
		}
		env2, pre := m.rebind(vs.Names[0].Name, fmt.Sprintf("(List.replicate %d 0#8)", at.Len()), env, ind)
		return cont(env2, pre)
	case *ast.AssignStmt:
		if len(s.Lhs) != 1 || len(s.Rhs) != 1 {
			return "", false
		}
		switch lhs := s.Lhs[0].(type) {
		case *ast.Ident:
			if !lbIsBytes(info.TypeOf(lhs)) {
				return "", false
			}
			if s.Tok != token.DEFINE {
				return t.fail(s, "re-assignment of the byte slice %s (aliasing)", lhs.Name), true
			}
			if _, shadow := env[lhs.Name]; shadow {
				return t.fail(s, "%s := … shadows an existing variable", lhs.Name), true
			}
			call, isCall := s.Rhs[0].(*ast.CallExpr)
			if !isCall {
				return t.fail(s, "byte slice %s bound to %s (aliasing)", lhs.Name, types.ExprString(s.Rhs[0])), true
			}
			switch name := types.ExprString(call.Fun); name {
			case "state.ReadOperandBytes":
				op := types.ExprString(call.Args[0])
				n, okN := constIntOf(info, call.Args[2])
				if (op != "inst.Data" && op != "inst.Data1") || types.ExprString(call.Args[1]) != c.loopVar || !okN || n < 0 || n > 16 {
					return t.fail(s, "ReadOperandBytes(%s, %s, %s)", op, types.ExprString(call.Args[1]), types.ExprString(call.Args[2])), true
				}
				src := map[string]string{"inst.Data": "r.data", "inst.Data1": "r.data1"}[op]
				env2, pre := m.rebind(lhs.Name, fmt.Sprintf("(%s.take %d)", src, n), env, ind)
				return cont(env2, pre)
			case "u.storageAccessor.Read":
				n, okN := constIntOf(info, call.Args[2])
				if len(call.Args) != 3 || types.ExprString(call.Args[0]) != "pid" || !okN || n < 0 {
					return t.fail(s, "storageAccessor.Read with these arguments"), true
				}
				m.usesMem = true
				ad := "(" + t.expr(call.Args[1], env) + ").toNat"
				env2 := lmAppend(env, "$loads", fmt.Sprintf("[(%s, %d)]", ad, n))
				env2, pre := m.rebind(lhs.Name, fmt.Sprintf("(GoB.readMem r.mem %s %d)", ad, n), env2, ind)
				return cont(env2, pre)
			case "insts.Uint32ToBytes", "insts.Uint64ToBytes":
				env2, pre := m.rebind(lhs.Name, m.bytes(call, env), env, ind)
				return cont(env2, pre)
			}
			return t.fail(s, "byte slice %s bound to a call of %s", lhs.Name, types.ExprString(call.Fun)), true
		case *ast.IndexExpr:
			id, ok := lhs.X.(*ast.Ident)
			if !ok || !lbIsBytes(info.TypeOf(lhs.X)) {
				return "", false
			}
			if s.Tok != token.ASSIGN {
				return t.fail(s, "%s on a byte cell", s.Tok), true
			}
			if w, _, okW := basicWS(info.TypeOf(s.Rhs[0])); !okW || w != 8 {
				return t.fail(s, "byte cell assigned a value of type %v", info.TypeOf(s.Rhs[0])), true
			}
			val := t.expr(s.Rhs[0], env)
			if id.Name == m.ldsVar && m.ldsVar != "" {
				m.usesLds = true
				return cont(lmAppend(env, "$stores", fmt.Sprintf("[((%s).toNat, %s)]", t.expr(lhs.Index, env), val)), "")
			}
			k, isC := constIntOf(info, lhs.Index)
			cur, known := env[id.Name]
			if !isC || !known || k < 0 {
				return t.fail(s, "%s: not a constant index into a known byte slice", types.ExprString(lhs)), true
			}
			env2, pre := m.rebind(id.Name, fmt.Sprintf("(GoB.setByte %s %d %s)", cur, k, val), env, ind)
			return cont(env2, pre)
		}
		return "", false
	case *ast.ExprStmt:
		call, ok := s.X.(*ast.CallExpr)
		if !ok {
			return "", false
		}
		switch name := types.ExprString(call.Fun); name {
		case "log.Panicf", "log.Panic", "panic":
			return c.memFinish(env, ind, true), true
		case "copy":
			if len(call.Args) != 2 {
				return t.fail(s, "copy"), true
			}
			if ad, n, isL := m.ldsRange(call.Args[0], env); isL { // store to LDS
				src := m.bytes(call.Args[1], env)
				return cont(lmAppend(env, "$stores", fmt.Sprintf("GoB.storeBytes %s (%s.take %s)", ad, src, n)), "")
			}
			// destination: a slice of a local / staging array
			var dst *ast.Ident
			lo, hi := int64(0), int64(-1)
			switch d := call.Args[0].(type) {
			case *ast.SliceExpr:
				dst, _ = d.X.(*ast.Ident)
				okL, okH := true, true
				if d.Low != nil {
					lo, okL = constIntOf(info, d.Low)
				}
				if d.High != nil {
					hi, okH = constIntOf(info, d.High)
				}
				if !okL || !okH || d.Max != nil {
					dst = nil
				}
			}
			if dst == nil || dst.Name == m.ldsVar || !lbIsBytes(info.TypeOf(dst)) {
				return t.fail(s, "copy into %s", types.ExprString(call.Args[0])), true
			}
			cur, known := env[dst.Name]
			at, isArr := info.TypeOf(dst).Underlying().(*types.Array)
			if !known || !isArr {
				return t.fail(s, "copy into %s: not a known byte array", dst.Name), true
			}
			if hi < 0 {
				hi = at.Len()
			}
			var src string
			env2 := env
			if ad, n, isL := m.ldsRange(call.Args[1], env); isL { // load from LDS
				env2 = lmAppend(env, "$loads", fmt.Sprintf("[(%s, %s)]", ad, n))
				src = fmt.Sprintf("(GoB.readMem r.mem %s %s)", ad, n)
			} else {
				src = m.bytes(call.Args[1], env)
			}
			env3, pre := m.rebind(dst.Name, fmt.Sprintf("(GoB.copyInto %s %d %d %s)", cur, lo, hi, src), env2, ind)
			return cont(env3, pre)
		case "binary.LittleEndian.PutUint32", "binary.LittleEndian.PutUint64":
			se, ok := call.Args[0].(*ast.SliceExpr)
			var dst *ast.Ident
			if ok && se.Low == nil && se.High == nil {
				dst, _ = se.X.(*ast.Ident)
			}
			if dst == nil || dst.Name == m.ldsVar || !lbIsBytes(info.TypeOf(dst)) {
				return t.fail(s, "%s into %s", name, types.ExprString(call.Args[0])), true
			}
			cur, known := env[dst.Name]
			if !known {
				return t.fail(s, "%s into an unknown array", name), true
			}
			n, le := 4, "GoB.le32"
			if strings.HasSuffix(name, "64") {
				n, le = 8, "GoB.le64"
			}
			env2, pre := m.rebind(dst.Name, fmt.Sprintf("(GoB.copyInto %s 0 %d (%s %s))", cur, n, le, t.expr(call.Args[1], env)), env, ind)
			return cont(env2, pre)
		case "u.storageAccessor.Write":
			if len(call.Args) != 3 || types.ExprString(call.Args[0]) != "pid" {
				return t.fail(s, "storageAccessor.Write with these arguments"), true
			}
			m.usesMem = true
			ad := "(" + t.expr(call.Args[1], env) + ").toNat"
			return cont(lmAppend(env, "$stores", fmt.Sprintf("GoB.storeBytes %s %s", ad, m.bytes(call.Args[2], env))), "")
		case "state.WriteOperandBytes":
			if types.ExprString(call.Args[0]) != "inst.Dst" || types.ExprString(call.Args[1]) != c.loopVar {
				return t.fail(s, "WriteOperandBytes(%s, %s, …)", types.ExprString(call.Args[0]), types.ExprString(call.Args[1])), true
			}
			if _, w := env["$dst"]; w {
				return t.fail(s, "second WriteOperandBytes on one path"), true
			}
			env2 := copyEnv(env)
			env2["$dst"] = "(some " + m.bytes(call.Args[2], env) + ")"
			return cont(env2, "")
		}
		return t.fail(s, "call statement %s in a memory body", types.ExprString(call.Fun)), true
	}
	return "", false
}

func (c *lbCtx) memFinish(env map[string]string, ind string, fault bool) string {
	get := func(k, d string) string {
		if v, ok := env[k]; ok {
			return v
		}
		return d
	}
	stage := "r.stage"
	if c.mem != nil && c.mem.stageVar != "" {
		stage = env[c.mem.stageVar]
	}
	return fmt.Sprintf("%s{ dst := %s, loads := %s, stores := %s, stage := %s, fault := %s }", ind, get("$dst", "none"), get("$loads", "[]"), get("$stores", "[]"), stage, leanBool(fault))
}

// memTranslate translates one method of the DS / FLAT files that has a lane loop; nil: helper / dispatcher without loop
func (a *lbArch) memTranslate(h *lfHandler) *lmResult {
	fd := a.funcs[h.name]
	if len(h.loops) == 0 {
		return nil
	}
	res := &lmResult{arch: h.arch, name: h.name, file: h.file, line: h.line}
	f := &lbFn{a: a, h: h, fd: fd, vccVars: map[string]bool{}, zeroVar: map[string]bool{}}
	fail := func(n ast.Node, format string, args ...any) {
		fatalf("lanebody (memory body): %s %s (%s): %s", a.name, h.name, a.relPos(n), fmt.Sprintf(format, args...))
	}
	c := &lbCtx{a: a, t: &aluTr{info: a.info, fset: a.fset}, mode: "mem", leaf: &lbLeaf{}, immut: map[string]bool{}}
	m := &lmCtx{lbCtx: c, f: f}
	c.mem = m
	env := map[string]string{}
	var loop *ast.ForStmt
	for k, st := range fd.Body.List {
		switch s := st.(type) {
		case *ast.AssignStmt:
			lhs := []string{}
			for _, l := range s.Lhs {
				lhs = append(lhs, types.ExprString(l))
			}
			rhs := types.ExprString(s.Rhs[0])
			switch {
			case s.Tok == token.DEFINE && len(lhs) == 1 && lhs[0] == "inst" && rhs == "state.Inst()":
			case s.Tok == token.DEFINE && len(lhs) == 1 && rhs == "state.EXEC()":
				f.execVar = lhs[0]
			case s.Tok == token.DEFINE && len(lhs) == 1 && lhs[0] == "pid" && rhs == "state.PID()":
			case s.Tok == token.DEFINE && len(lhs) == 1 && (rhs == "u.LDS()" || rhs == "u.lds"):
				m.ldsVar = lhs[0]
			case s.Tok == token.DEFINE && len(lhs) == 2 && rhs == "u.flatPrecomputeScalarBase(state)":
				env[lhs[0]], env[lhs[1]] = "u.hasSAddr", "u.scalarBase"
				c.immut[lhs[0]], c.immut[lhs[1]] = true, true
			default:
				fail(s, "statement before the lane loop: %s", nodeString(s))
			}
		case *ast.DeclStmt:
			gd := s.Decl.(*ast.GenDecl)
			ok := gd.Tok == token.VAR && len(gd.Specs) == 1
			if ok {
				vs := gd.Specs[0].(*ast.ValueSpec)
				at, isArr := a.info.TypeOf(vs.Names[0]).Underlying().(*types.Array)
				ok = len(vs.Names) == 1 && len(vs.Values) == 0 && isArr && lbIsBytes(a.info.TypeOf(vs.Names[0])) && m.stageVar == ""
				if ok {
					m.stageVar = vs.Names[0].Name
					res.stageLen = at.Len()
					env[m.stageVar] = "r.stage"
				}
			}
			if !ok {
				fail(s, "declaration before the lane loop: %s", nodeString(s))
			}
		case *ast.ForStmt:
			if k != len(fd.Body.List)-1 {
				fail(fd.Body.List[k+1], "statement after the lane loop")
			}
			loop = s
		default:
			fail(st, "statement outside the lane loop: %T", st)
		}
	}
	if loop == nil {
		fail(fd, "no lane loop")
	}
	// header and guard: the same shapes as the ALU handlers
	v := ""
	if as, ok := loop.Init.(*ast.AssignStmt); ok && as.Tok == token.DEFINE && len(as.Lhs) == 1 && types.ExprString(as.Rhs[0]) == "0" {
		v = types.ExprString(as.Lhs[0])
	}
	cond, _ := loop.Cond.(*ast.BinaryExpr)
	inc, _ := loop.Post.(*ast.IncDecStmt)
	if v == "" || cond == nil || cond.Op != token.LSS || types.ExprString(cond.X) != v || types.ExprString(cond.Y) != "64" ||
		inc == nil || inc.Tok != token.INC || types.ExprString(inc.X) != v || len(loop.Body.List) == 0 {
		fail(loop, "lane loop header is not `for v := 0; v < 64; v++`")
	}
	g, ok := loop.Body.List[0].(*ast.IfStmt)
	if !ok || g.Init != nil || g.Else != nil || len(g.Body.List) != 1 || nodeString(g.Body.List[0]) != "continue" ||
		normExpr(g.Cond) != f.execVar+"&(1<<uint("+v+"))==0" {
		// the model of the memory loop (`C06.goMemIter`) has this guard, the one every DS / FLAT handler uses
		fail(loop, "first statement of the lane loop is not the EXEC guard `exec&(1<<uint(i)) == 0`")
	}
	c.loopVar = v
	c.immut[v] = true
	m.memHooks()
	c.mode = "mem"
	raw := c.stmts(loop.Body.List[1:], env, "  ")
	if c.t.err != nil {
		fail(loop, "memory body outside the translated subset: %v", c.t.err)
	}
	if strings.Contains(raw, lbLoopVarLean) {
		fail(loop, "the loop variable is used in the data path of a memory body")
	}
	if m.usesLds && m.usesMem {
		fail(loop, "a body that touches both LDS and memory")
	}
	res.isLds = m.usesLds
	res.raw = raw
	return res
}

func lbWriteMemHandlers(b *strings.Builder, rs []*lmResult) {
	for _, r := range rs {
		fmt.Fprintf(b, "/-- %s:%d -/\ndef mraw_%s_%s (u : MemUni) (r : MemRawIn) : MemRawOut :=\n%s\n\n", r.file, r.line, r.arch, r.name, r.raw)
		fmt.Fprintf(b, "def mh_%s_%s : MemHandler :=\n  { arch := %s, name := %s, isLds := %s, stageLen := %d, raw := mraw_%s_%s }\n\n",
			r.arch, r.name, leanStr(r.arch), leanStr(r.name), leanBool(r.isLds), r.stageLen, r.arch, r.name)
	}
	b.WriteString("/-- every translated DS / FLAT handler -/\ndef memHandlers : List MemHandler := [")
	for i, r := range rs {
		if i > 0 {
			b.WriteString(",")
		}
		fmt.Fprintf(b, "\n  mh_%s_%s", r.arch, r.name)
	}
	b.WriteString("]\n\n")
}
