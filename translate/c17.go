package main

import (
	"fmt"
	"go/ast"
	"go/token"
	"os/exec"
	"path/filepath"
	"strings"
)

// genC17 (property C17) reads the constants and the straight-line arithmetic of the DRAM model
// amd/timing/mem/simplebankedmemory and of the MI300A platform that instantiates it, and writes them as Lean
// definitions (lean/MgpuModel/Gen/C17Dram.lean):
//
//   - comp.go: the phase order of middleware.Tick; in dispatchPending the converter chosen for the address, the
//     arguments of Select, the row-mode condition, the row-address block, the row-hit and park conditions, the two
//     initial values of cyclesLeft; bank.canAccept; the decrement and the release condition of tickDelayQueues;
//   - selector.go: interleavedBankSelector.Select;
//   - builder.go: the defaults of MakeBuilder, the field every With… method sets, the fields
//     configurationMustBeValid checks, the builder field Build passes to every pipeline / buffer / port /
//     component parameter, the selector names of determineBankSelector;
//   - mi300a/builder.go: the constant arguments of the builder chain of buildDRAMControllers, the
//     InterleavingConverter it installs (resolved through the defaults of that file's MakeBuilder);
//   - timingconfig/builder.go: the methods the runner calls on mi300a.MakeBuilder() (none changes those defaults).
//
// MgpuProofs/Props/C17Tie.lean proves, for all arguments, that the hand-written model MgpuModel/C17.lean computes
// exactly these expressions. Every statement the definitions are read from is located by its shape; a different
// shape is refused (non-zero exit = broken tie), a different constant or formula changes the generated definition
// and breaks the theorem that uses it.
func init() { extraGens = append(extraGens, gen{"c17", genC17}) }

type c17Param struct{ name, ty string }

// c17Tr extends c10Tr (free-variable bookkeeping, call table) by let-bound names, typed variables and the
// operators c10Tr.expr does not know (& >> || !). Every compound operand is parenthesised: Go and Lean do not
// give the shift / and / multiplication operators the same precedence.
type c17Tr struct {
	*c10Tr
	bound map[string]bool   // let-bound names (not parameters)
	types map[string]string // name -> "Bool" for Boolean variables; everything else is Nat
}

func c17Lower(s string) string {
	if s == "" {
		return s
	}
	return strings.ToLower(s[:1]) + s[1:]
}

func c17Flat(n ast.Node) string { return strings.Join(strings.Fields(nodeString(n)), " ") }

func (t *c17Tr) variable(name string) (string, bool) {
	if t.bound[name] {
		return name, t.types[name] == "Bool"
	}
	n := c17Lower(name)
	return t.param(n), t.types[n] == "Bool"
}

func (t *c17Tr) atom(e ast.Expr, wantBool bool) string {
	s, b := t.expr(e)
	if b != wantBool {
		fatalf("c17: %s: `%s` is used as %s", t.file, c17Flat(e), map[bool]string{true: "a Boolean but is a number", false: "a number but is a Boolean"}[wantBool])
	}
	for { // parentheses and conversions print nothing: look at what is below them
		if p, ok := e.(*ast.ParenExpr); ok {
			e = p.X
			continue
		}
		if c, ok := e.(*ast.CallExpr); ok && len(c.Args) == 1 {
			if id, isID := c.Fun.(*ast.Ident); isID && (id.Name == "uint64" || id.Name == "int" || id.Name == "uint32" || id.Name == "int64") {
				e = c.Args[0]
				continue
			}
		}
		break
	}
	switch x := e.(type) {
	case *ast.UnaryExpr:
		return "(" + s + ")"
	case *ast.BinaryExpr:
		switch x.Op {
		case token.LAND, token.LOR: // already in parentheses
		case token.LSS, token.GTR, token.LEQ, token.GEQ, token.EQL, token.NEQ: // `decide (…)`: an application
		default:
			return "(" + s + ")"
		}
	}
	return s
}

// expr translates an integer / Boolean Go expression; the second result says whether it is Boolean.
func (t *c17Tr) expr(e ast.Expr) (string, bool) {
	switch x := e.(type) {
	case *ast.BasicLit:
		if x.Kind == token.INT {
			return x.Value, false
		}
	case *ast.Ident:
		switch x.Name {
		case "true", "false":
			return x.Name, true
		}
		return t.variable(x.Name)
	case *ast.ParenExpr:
		return t.expr(x.X)
	case *ast.SelectorExpr:
		return t.variable(x.Sel.Name)
	case *ast.CallExpr:
		if id, ok := x.Fun.(*ast.Ident); ok && len(x.Args) == 1 {
			switch id.Name {
			case "uint64", "int", "uint32", "int64":
				return t.expr(x.Args[0])
			case "len":
				switch a := x.Args[0].(type) {
				case *ast.Ident:
					return t.variable(a.Name + "_len")
				case *ast.SelectorExpr:
					return t.variable(a.Sel.Name + "_len")
				}
			}
		}
		if p, ok := t.calls[c10Norm(nodeString(x))]; ok {
			return t.variable(p)
		}
	case *ast.UnaryExpr:
		if x.Op == token.NOT {
			a := t.atom(x.X, true)
			if strings.HasPrefix(a, "decide ") {
				a = "(" + a + ")"
			}
			return "!" + a, true
		}
	case *ast.BinaryExpr:
		nat := map[token.Token]string{token.ADD: "+", token.SUB: "-", token.MUL: "*", token.QUO: "/", token.REM: "%",
			token.SHL: "<<<", token.SHR: ">>>", token.AND: "&&&"}
		cmp := map[token.Token]string{token.LSS: "<", token.GTR: ">", token.LEQ: "≤", token.GEQ: "≥", token.EQL: "=", token.NEQ: "≠"}
		log := map[token.Token]string{token.LAND: "&&", token.LOR: "||"}
		if op, ok := nat[x.Op]; ok {
			return t.atom(x.X, false) + " " + op + " " + t.atom(x.Y, false), false
		}
		if op, ok := cmp[x.Op]; ok {
			return "decide (" + t.atom(x.X, false) + " " + op + " " + t.atom(x.Y, false) + ")", true
		}
		if op, ok := log[x.Op]; ok {
			return "(" + t.atom(x.X, true) + " " + op + " " + t.atom(x.Y, true) + ")", true
		}
	}
	fatalf("c17: %s: unsupported expression `%s`", t.file, c17Flat(e))
	return "", false
}

// lets translates `name_i := e_i` (exactly these names, in this order) into Lean `let` lines.
func (t *c17Tr) lets(stmts []ast.Stmt, names []string) string {
	if len(stmts) != len(names) {
		fatalf("c17: %s: expected %d definitions (%s), found %d statements", t.file, len(names), strings.Join(names, ", "), len(stmts))
	}
	var b strings.Builder
	for i, s := range stmts {
		as, ok := s.(*ast.AssignStmt)
		if !ok || as.Tok != token.DEFINE || len(as.Lhs) != 1 || len(as.Rhs) != 1 || c10Norm(nodeString(as.Lhs[0])) != names[i] {
			fatalf("c17: %s: expected `%s := …`, found `%s`", t.file, names[i], c17Flat(s))
		}
		body, isBool := t.expr(as.Rhs[0])
		fmt.Fprintf(&b, "  let %s := %s\n", names[i], body)
		t.bound[names[i]] = true
		if isBool {
			t.types[names[i]] = "Bool"
		}
	}
	return b.String()
}

type c17Out struct {
	c10Out
}

// fn emits `def name (params) : ret := body`. build returns the body (lines of `let`s and the result); the free
// variables it met must be exactly the declared parameters.
func (o *c17Out) fn(file, name, doc string, params []c17Param, ret string, calls map[string]string, build func(t *c17Tr) string) {
	if o.names[name] {
		fatalf("c17: duplicate definition %s", name)
	}
	o.names[name] = true
	t := &c17Tr{c10Tr: &c10Tr{file: file, seen: map[string]bool{}, calls: calls}, bound: map[string]bool{}, types: map[string]string{}}
	decl := map[string]bool{}
	var sig []string
	for _, p := range params {
		decl[p.name] = true
		t.types[p.name] = p.ty
		sig = append(sig, fmt.Sprintf("(%s : %s)", p.name, p.ty))
	}
	body := build(t)
	for _, p := range t.params {
		if !decl[p] {
			fatalf("c17: %s: %s: the Go text reads `%s`, which is not one of the expected inputs (%v)", file, name, p, params)
		}
		delete(decl, p)
	}
	for p := range decl {
		fatalf("c17: %s: %s: the Go text no longer reads the expected input `%s`", file, name, p)
	}
	sp := ""
	if len(sig) > 0 {
		sp = " " + strings.Join(sig, " ")
	}
	fmt.Fprintf(&o.b, "/-- %s -/\ndef %s%s : %s :=\n%s\n\n", doc, name, sp, ret, body)
}

// one expression of the given kind
func (o *c17Out) ex(file, name, doc string, params []c17Param, ret string, calls map[string]string, e ast.Expr) {
	o.fn(file, name, doc+": `"+c17Flat(e)+"`", params, ret, calls, func(t *c17Tr) string {
		s, isBool := t.expr(e)
		if isBool != (ret == "Bool") {
			fatalf("c17: %s: %s: `%s` does not have type %s", file, name, c17Flat(e), ret)
		}
		return "  " + s
	})
}

func (o *c17Out) pairsNat(name, doc string, ks []string, vs []string) {
	q := make([]string, len(ks))
	for i := range ks {
		q[i] = fmt.Sprintf("(%s, %s)", leanStr(ks[i]), vs[i])
	}
	fmt.Fprintf(&o.b, "/-- %s -/\ndef %s : List (String × Nat) := [%s]\n\n", doc, name, strings.Join(q, ", "))
}

func (o *c17Out) pairsStr(name, doc string, ks []string, vs []string) {
	q := make([]string, len(ks))
	for i := range ks {
		q[i] = fmt.Sprintf("(%s, %s)", leanStr(ks[i]), leanStr(vs[i]))
	}
	fmt.Fprintf(&o.b, "/-- %s -/\ndef %s : List (String × String) := [%s]\n\n", doc, name, strings.Join(q, ", "))
}

func c17N(ps ...string) []c17Param {
	out := make([]c17Param, len(ps))
	for i, p := range ps {
		out[i] = c17Param{p, "Nat"}
	}
	return out
}

// c17Block wraps a block as a function so that the c10 statement finders can be used on a part of a body.
func c17Block(name string, b *ast.BlockStmt) *ast.FuncDecl {
	return &ast.FuncDecl{Name: ast.NewIdent(name), Body: b}
}

// c17Is: the statement prints (white space removed) as want
func c17Is(file, where string, s ast.Stmt, want string) {
	flat := func(x string) string { return strings.ReplaceAll(c10Norm(x), ";", "") }
	if flat(nodeString(s)) != flat(want) {
		fatalf("c17: %s: %s: expected `%s`, found `%s`", file, where, want, c17Flat(s))
	}
}

func c17Stmts(file, where string, b *ast.BlockStmt, n int) []ast.Stmt {
	if b == nil || len(b.List) != n {
		k := -1
		if b != nil {
			k = len(b.List)
		}
		fatalf("c17: %s: %s: expected %d statements, found %d", file, where, n, k)
	}
	return b.List
}

func c17If(file, where string, s ast.Stmt) *ast.IfStmt {
	i, ok := s.(*ast.IfStmt)
	if !ok || i.Init != nil {
		fatalf("c17: %s: %s: expected a plain if statement, found `%s`", file, where, c17Flat(s))
	}
	return i
}

func c17Else(file, where string, i *ast.IfStmt) *ast.BlockStmt {
	b, ok := i.Else.(*ast.BlockStmt)
	if !ok {
		fatalf("c17: %s: %s: expected `if … { … } else { … }`", file, where)
	}
	return b
}

// c17Field: `recv.f` gives f
func c17Field(file, where, recv string, e ast.Expr) string {
	s, ok := e.(*ast.SelectorExpr)
	if ok {
		if id, isID := s.X.(*ast.Ident); isID && id.Name == recv {
			return s.Sel.Name
		}
	}
	fatalf("c17: %s: %s: expected a field of `%s`, found `%s`", file, where, recv, c17Flat(e))
	return ""
}

type c17Link struct {
	name string
	args []ast.Expr
}

// c17Chain unrolls `base.A(x).B(y)…` into A, B, … (source order); the innermost expression must print as base.
func c17Chain(file, where string, e ast.Expr, base string) []c17Link {
	var out []c17Link
	for {
		if c10Norm(nodeString(e)) == c10Norm(base) {
			break
		}
		c, ok := e.(*ast.CallExpr)
		if !ok {
			fatalf("c17: %s: %s: the call chain does not start with `%s` (found `%s`)", file, where, base, c17Flat(e))
		}
		s, ok := c.Fun.(*ast.SelectorExpr)
		if !ok {
			fatalf("c17: %s: %s: the call chain does not start with `%s` (found `%s`)", file, where, base, c17Flat(e))
		}
		out = append([]c17Link{{s.Sel.Name, c.Args}}, out...)
		e = s.X
	}
	return out
}

// c17Literal: the composite literal returned by a function whose body is a single return
func c17Literal(file string, fd *ast.FuncDecl) *ast.CompositeLit {
	if len(fd.Body.List) == 1 {
		if r, ok := fd.Body.List[0].(*ast.ReturnStmt); ok && len(r.Results) == 1 {
			if cl, isCL := r.Results[0].(*ast.CompositeLit); isCL {
				return cl
			}
		}
	}
	fatalf("c17: %s: %s is not a single `return T{…}`", file, fd.Name.Name)
	return nil
}

func c17KVs(file, where string, cl *ast.CompositeLit) ([]string, []ast.Expr) {
	var ks []string
	var vs []ast.Expr
	for _, el := range cl.Elts {
		kv, ok := el.(*ast.KeyValueExpr)
		if !ok {
			fatalf("c17: %s: %s: composite literal without field names", file, where)
		}
		id, ok := kv.Key.(*ast.Ident)
		if !ok {
			fatalf("c17: %s: %s: composite literal key `%s`", file, where, c17Flat(kv.Key))
		}
		ks = append(ks, id.Name)
		vs = append(vs, kv.Value)
	}
	return ks, vs
}

// c17AkitaConst resolves a constant of Akita's package mem/mem (KB, MB, GB, TB: `1 << (10 * iota)`) from the source
// of the Akita version the simulator is built with.
func c17AkitaConst(name string) int64 {
	cmd := exec.Command("go", "list", "-f", "{{.Dir}}", "github.com/sarchlab/akita/v4/mem/mem")
	cmd.Dir = *repo
	out, err := cmd.Output()
	if err != nil {
		fatalf("c17: cannot locate the Akita package mem/mem (go list): %v", err)
	}
	dir := strings.TrimSpace(string(out))
	files, _ := filepath.Glob(filepath.Join(dir, "*.go"))
	for _, p := range files {
		if strings.HasSuffix(p, "_test.go") {
			continue
		}
		save := *repo
		*repo = ""
		_, f := parseFile(p)
		*repo = save
		for _, d := range f.Decls {
			gd, ok := d.(*ast.GenDecl)
			if !ok || gd.Tok != token.CONST {
				continue
			}
			var tmpl ast.Expr
			for i, s := range gd.Specs {
				vs := s.(*ast.ValueSpec)
				if len(vs.Values) == 1 {
					tmpl = vs.Values[0]
				} else if len(vs.Values) != 0 {
					tmpl = nil
				}
				if len(vs.Names) == 1 && vs.Names[0].Name == name {
					if tmpl == nil {
						fatalf("c17: %s: constant %s has no value expression", p, name)
					}
					v, ok := constInt(tmpl, map[string]int64{"iota": int64(i)})
					if !ok {
						fatalf("c17: %s: cannot evaluate `%s` for %s", p, c17Flat(tmpl), name)
					}
					return v
				}
			}
		}
	}
	fatalf("c17: constant mem.%s not found in %s", name, dir)
	return 0
}

// c17Const evaluates an integer constant expression; `mem.X` is resolved from the Akita source, `recv.f` from env.
func c17Const(file, where string, e ast.Expr, recv string, env map[string]int64) int64 {
	full := map[string]int64{}
	ast.Inspect(e, func(n ast.Node) bool {
		s, ok := n.(*ast.SelectorExpr)
		if !ok {
			return true
		}
		id, ok := s.X.(*ast.Ident)
		if !ok {
			return true
		}
		switch {
		case id.Name == "mem":
			full["mem."+s.Sel.Name] = c17AkitaConst(s.Sel.Name)
		case recv != "" && id.Name == recv:
			v, ok := env[s.Sel.Name]
			if !ok {
				fatalf("c17: %s: %s: `%s` has no default in MakeBuilder", file, where, c17Flat(s))
			}
			full[recv+"."+s.Sel.Name] = v
		}
		return false
	})
	v, ok := constInt(c17Subst(e), full)
	if !ok {
		fatalf("c17: %s: %s: `%s` is not a constant expression", file, where, c17Flat(e))
	}
	return v
}

// c17Subst replaces `a.b` by the identifier "a.b" so that constInt can look it up.
func c17Subst(e ast.Expr) ast.Expr {
	switch x := e.(type) {
	case *ast.SelectorExpr:
		if id, ok := x.X.(*ast.Ident); ok {
			return ast.NewIdent(id.Name + "." + x.Sel.Name)
		}
	case *ast.ParenExpr:
		return &ast.ParenExpr{X: c17Subst(x.X)}
	case *ast.BinaryExpr:
		return &ast.BinaryExpr{X: c17Subst(x.X), Op: x.Op, Y: c17Subst(x.Y)}
	case *ast.CallExpr:
		if len(x.Args) == 1 {
			return &ast.CallExpr{Fun: x.Fun, Args: []ast.Expr{c17Subst(x.Args[0])}}
		}
	}
	return e
}

func genC17() {
	o := &c17Out{c10Out{names: map[string]bool{}}}
	o.b.WriteString("-- GENERATED by /verif/translate (c17.go) from amd/timing/mem/simplebankedmemory/{comp,selector,builder}.go, amd/samples/runner/timingconfig/mi300a/builder.go, amd/samples/runner/timingconfig/builder.go; do not edit\n")
	o.b.WriteString("namespace Gen.C17Dram\n\n")

	// ---------------------------------------------------------------- comp.go: middleware.Tick
	const comp = "amd/timing/mem/simplebankedmemory/comp.go"
	_, fcomp := parseFile(comp)
	fd := c10Func(fcomp, comp, "middleware", "Tick")
	if len(fd.Body.List) < 2 {
		fatalf("c17: %s: middleware.Tick has no phases", comp)
	}
	var phases []string
	for _, s := range fd.Body.List[:len(fd.Body.List)-1] {
		as, ok := s.(*ast.AssignStmt)
		okShape := ok && as.Tok == token.ASSIGN && len(as.Lhs) == 1 && len(as.Rhs) == 1 && c10Norm(nodeString(as.Lhs[0])) == "madeProgress"
		var name string
		if okShape {
			be, isBin := as.Rhs[0].(*ast.BinaryExpr)
			okShape = isBin && be.Op == token.LOR && c10Norm(nodeString(be.Y)) == "madeProgress"
			if okShape {
				call, isCall := be.X.(*ast.CallExpr)
				okShape = isCall && len(call.Args) == 0
				if okShape {
					name = c17Field(comp, "middleware.Tick", "m", call.Fun)
				}
			}
		}
		if !okShape {
			fatalf("c17: %s: middleware.Tick: `%s` is not of the shape `madeProgress = m.X() || madeProgress`", comp, c17Flat(s))
		}
		phases = append(phases, name)
	}
	c17Is(comp, "middleware.Tick, last statement", fd.Body.List[len(fd.Body.List)-1], "return madeProgress")
	o.strs("tickPhases", "comp.go `middleware.Tick`: the methods X of the statements `madeProgress = m.X() || madeProgress`, in source order (every phase runs in every tick: the call is the left operand of `||`)", phases)

	// ---------------------------------------------------------------- selector.go
	const sel = "amd/timing/mem/simplebankedmemory/selector.go"
	_, fsel := parseFile(sel)
	fd = c10Func(fsel, sel, "interleavedBankSelector", "Select")
	ss := c17Stmts(sel, "Select", fd.Body, 4)
	guard := c17If(sel, "Select, statement 1", ss[0])
	if guard.Else != nil {
		fatalf("c17: %s: Select: the numBanks guard has an else branch", sel)
	}
	gret, ok := c17Stmts(sel, "Select, numBanks guard", guard.Body, 1)[0].(*ast.ReturnStmt)
	if !ok || len(gret.Results) != 1 {
		fatalf("c17: %s: Select: the numBanks guard does not return one value", sel)
	}
	pan := c17If(sel, "Select, statement 3", ss[2])
	if pan.Else != nil || !strings.HasPrefix(c10Norm(nodeString(c17Stmts(sel, "Select, interleaveSize guard", pan.Body, 1)[0])), "panic(") {
		fatalf("c17: %s: Select: the interleaveSize guard is not `if … { panic(…) }`", sel)
	}
	ret, ok := ss[3].(*ast.ReturnStmt)
	if !ok || len(ret.Results) != 1 {
		fatalf("c17: %s: Select: the last statement is not a return of one value", sel)
	}
	o.fn(sel, "select", "selector.go `interleavedBankSelector.Select`: `"+c17Flat(ss[0])+"`; `"+c17Flat(ss[1])+"`; `"+c17Flat(ss[3])+"` (the panic guard between them is `selectPanic`)",
		c17N("address", "log2InterleaveSize", "numBanks"), "Nat", nil, func(t *c17Tr) string {
			g, gb := t.expr(guard.Cond)
			if !gb {
				fatalf("c17: %s: Select: guard `%s` is not Boolean", sel, c17Flat(guard.Cond))
			}
			r0 := t.atom(gret.Results[0], false)
			l := t.lets(ss[1:2], []string{"interleaveSize"})
			r := t.atom(ret.Results[0], false)
			return "  if " + g + " then " + r0 + " else\n" + l + "  " + r
		})
	o.fn(sel, "selectPanic", "selector.go `interleavedBankSelector.Select`, the condition of the panic: `"+c17Flat(ss[1])+"`; `if "+c17Flat(pan.Cond)+" { panic(…) }` (uint64: true only for a shift by 64 or more; never true on Nat)",
		c17N("log2InterleaveSize"), "Bool", nil, func(t *c17Tr) string {
			l := t.lets(ss[1:2], []string{"interleaveSize"})
			return l + "  " + t.atom(pan.Cond, true)
		})

	// ---------------------------------------------------------------- comp.go: dispatchPending
	fd = c10Func(fcomp, comp, "middleware", "dispatchPending")
	var loop *ast.RangeStmt
	for _, s := range fd.Body.List {
		if r, isRange := s.(*ast.RangeStmt); isRange && c10Norm(nodeString(r.X)) == "m.pendingReqs" {
			if loop != nil {
				fatalf("c17: %s: dispatchPending: two loops over m.pendingReqs", comp)
			}
			loop = r
		}
	}
	if loop == nil || c10Norm(nodeString(loop.Value)) != "req" {
		fatalf("c17: %s: dispatchPending: `for _, req := range m.pendingReqs` not found", comp)
	}
	ls := c17Stmts(comp, "dispatchPending, loop body", loop.Body, 7)
	c17Is(comp, "dispatchPending, loop statement 1", ls[0], "addr := req.GetAddress()")
	// the converter chain: if m.A != nil { addr = m.A.ConvertExternalToInternal(addr) } else if m.B != nil { … }
	var convs []string
	var cur ast.Stmt = ls[1]
	for cur != nil {
		ci := c17If(comp, "dispatchPending, converter choice", cur)
		be, isBin := ci.Cond.(*ast.BinaryExpr)
		if !isBin || be.Op != token.NEQ || c10Norm(nodeString(be.Y)) != "nil" {
			fatalf("c17: %s: dispatchPending: converter condition `%s`", comp, c17Flat(ci.Cond))
		}
		f := c17Field(comp, "dispatchPending, converter choice", "m", be.X)
		c17Is(comp, "dispatchPending, converter use", c17Stmts(comp, "dispatchPending, converter use", ci.Body, 1)[0],
			"addr = m."+f+".ConvertExternalToInternal(addr)")
		convs = append(convs, f)
		cur = ci.Else
	}
	o.strs("addrConverters", "comp.go `dispatchPending`: the address used for bank and row is `req.GetAddress()` passed through the first installed converter of this list (`if m.X != nil { addr = m.X.ConvertExternalToInternal(addr) } else if …`), unchanged when none is installed", convs)
	c17Is(comp, "dispatchPending, loop statement 4", ls[3], "b := &m.banks[bankID]")
	c17Is(comp, "dispatchPending, loop statement 5", ls[4], "item := &bankPipelineItem{req: req}")
	c17Is(comp, "dispatchPending, loop statement 7", ls[6], "madeProgress = true")
	bid, isAs := ls[2].(*ast.AssignStmt)
	if !isAs || len(bid.Lhs) != 1 || c10Norm(nodeString(bid.Lhs[0])) != "bankID" || len(bid.Rhs) != 1 {
		fatalf("c17: %s: dispatchPending: `bankID := …` not found", comp)
	}
	o.strs("selectCall", "comp.go `dispatchPending`: the bank is `"+c17Flat(ls[2])+"` — callee and arguments", append([]string{nodeString(bid.Rhs[0].(*ast.CallExpr).Fun)}, c10ArgStrings(c10Call(c17Block("dispatchPending", loop.Body), comp, "m.bankSelector.Select", 0))...))

	rm := c17If(comp, "dispatchPending, loop statement 6", ls[5])
	o.ex(comp, "rowMode", "comp.go `dispatchPending`, row-buffer timing is on when", c17N("rowBufferSizeLog2", "rowMissDelay"), "Bool", nil, rm.Cond)
	rs := c17Stmts(comp, "dispatchPending, row-mode branch", rm.Body, 9)
	rowNames := []string{"interleaveSize", "bankBlockIndex", "bankLocalBlock", "offset", "bankLocalAddr", "rowAddr"}
	var rowText []string
	for _, s := range rs[:6] {
		rowText = append(rowText, "`"+c17Flat(s)+"`")
	}
	o.fn(comp, "rowAddr", "comp.go `dispatchPending`, the row address of a request: "+strings.Join(rowText, "; "),
		c17N("addr", "log2InterleaveSize", "banks_len", "rowBufferSizeLog2"), "Nat", nil, func(t *c17Tr) string {
			l := t.lets(rs[:5], rowNames[:5])
			as, isA := rs[5].(*ast.AssignStmt)
			if !isA || as.Tok != token.DEFINE || len(as.Lhs) != 1 || len(as.Rhs) != 1 || c10Norm(nodeString(as.Lhs[0])) != "rowAddr" {
				fatalf("c17: %s: dispatchPending: expected `rowAddr := …`, found `%s`", comp, c17Flat(rs[5]))
			}
			return l + "  " + t.atom(as.Rhs[0], false)
		})
	hit := c17If(comp, "dispatchPending, row hit test", rs[6])
	o.ex(comp, "rowHit", "comp.go `dispatchPending`, row hit when", []c17Param{{"rowValid", "Bool"}, {"lastRowAddr", "Nat"}, {"rowAddr", "Nat"}}, "Bool", nil, hit.Cond)
	park := c17If(comp, "dispatchPending, row hit branch", c17Stmts(comp, "dispatchPending, row hit branch", hit.Body, 1)[0])
	o.ex(comp, "parkCond", "comp.go `dispatchPending`, a row hit is put into the delay queue (instead of the pipeline) when", []c17Param{{"delayQueue_len", "Nat"}, {"canAccept", "Bool"}}, "Bool",
		map[string]string{"b.canAccept()": "canAccept"}, park.Cond)
	appendShape := func(where string, s ast.Stmt) ast.Expr {
		blk := &ast.BlockStmt{List: []ast.Stmt{s}}
		as, isA := s.(*ast.AssignStmt)
		if !isA || len(as.Lhs) != 1 || c10Norm(nodeString(as.Lhs[0])) != "b.delayQueue" || as.Tok != token.ASSIGN {
			fatalf("c17: %s: dispatchPending, %s: expected `b.delayQueue = append(b.delayQueue, delayedItem{…})`, found `%s`", comp, where, c17Flat(s))
		}
		args := c10Call(c17Block("dispatchPending", blk), comp, "append", 0)
		if len(args) != 2 || c10Norm(nodeString(args[0])) != "b.delayQueue" {
			fatalf("c17: %s: dispatchPending, %s: `%s` does not append one element to b.delayQueue", comp, where, c17Flat(s))
		}
		if c10Norm(nodeString(c10KeyValue(c17Block("dispatchPending", blk), comp, "item", 0))) != "item" {
			fatalf("c17: %s: dispatchPending, %s: the queued item is not `item`", comp, where)
		}
		return c10KeyValue(c17Block("dispatchPending", blk), comp, "cyclesLeft", 0)
	}
	o.ex(comp, "hitParkCycles", "comp.go `dispatchPending`, cyclesLeft of a parked row hit", nil, "Nat", nil,
		appendShape("parked row hit", c17Stmts(comp, "dispatchPending, parked row hit", park.Body, 1)[0]))
	c17Is(comp, "dispatchPending, row hit that is not parked", c17Stmts(comp, "dispatchPending, row hit that is not parked", c17Else(comp, "dispatchPending, park test", park), 1)[0], "b.accept(item)")
	o.ex(comp, "missCycles", "comp.go `dispatchPending`, cyclesLeft of a row miss", c17N("rowMissDelay"), "Nat", nil,
		appendShape("row miss", c17Stmts(comp, "dispatchPending, row miss", c17Else(comp, "dispatchPending, row hit test", hit), 1)[0]))
	c17Is(comp, "dispatchPending, after the row decision", rs[7], "b.lastRowAddr = rowAddr")
	c17Is(comp, "dispatchPending, after the row decision", rs[8], "b.rowValid = true")
	ns := c17Stmts(comp, "dispatchPending, branch without row timing", c17Else(comp, "dispatchPending, row-mode test", rm), 2)
	c17Is(comp, "dispatchPending, branch without row timing", ns[0], "if !b.canAccept() { remaining = append(remaining, req); continue }")
	c17Is(comp, "dispatchPending, branch without row timing", ns[1], "b.accept(item)")

	// ---------------------------------------------------------------- comp.go: bank.canAccept, accept, tickDelayQueues
	fd = c10Func(fcomp, comp, "bank", "canAccept")
	c17Stmts(comp, "bank.canAccept", fd.Body, 1)
	o.ex(comp, "canAccept", "comp.go `bank.canAccept`", []c17Param{{"numSetAside", "Nat"}, {"pipelineCanAccept", "Bool"}}, "Bool",
		map[string]string{"b.pipeline.CanAccept()": "pipelineCanAccept"}, c10Return(fd, comp, 0))
	fd = c10Func(fcomp, comp, "bank", "accept")
	as2 := c17Stmts(comp, "bank.accept", fd.Body, 2)
	c17Is(comp, "bank.accept", as2[0], "b.pipeline.Accept(item)")
	c17Is(comp, "bank.accept", as2[1], "b.inOrder = append(b.inOrder, item)")

	fd = c10Func(fcomp, comp, "middleware", "tickDelayQueues")
	var inner *ast.RangeStmt
	ast.Inspect(fd.Body, func(n ast.Node) bool {
		if r, isRange := n.(*ast.RangeStmt); isRange && c10Norm(nodeString(r.X)) == "b.delayQueue" {
			if inner != nil {
				fatalf("c17: %s: tickDelayQueues: two loops over b.delayQueue", comp)
			}
			inner = r
		}
		return true
	})
	if inner == nil || c10Norm(nodeString(inner.Value)) != "di" {
		fatalf("c17: %s: tickDelayQueues: `for _, di := range b.delayQueue` not found", comp)
	}
	ds := c17Stmts(comp, "tickDelayQueues, loop over the delay queue", inner.Body, 2)
	dec, isDec := ds[0].(*ast.IncDecStmt)
	if !isDec || dec.Tok != token.DEC || c10Norm(nodeString(dec.X)) != "di.cyclesLeft" {
		fatalf("c17: %s: tickDelayQueues: expected `di.cyclesLeft--` first, found `%s`", comp, c17Flat(ds[0]))
	}
	o.fn(comp, "cyclesLeftStep", "comp.go `tickDelayQueues`, first statement for every queue entry: `"+c17Flat(ds[0])+"`. `cyclesLeft` is an `int` in Go and goes below zero for an entry that keeps waiting; the model keeps the counter in Nat with truncated decrement `n - 1` — the two agree on everything the code asks (`cyclesLeft <= 0`)",
		c17N("cyclesLeft"), "Nat", nil, func(t *c17Tr) string {
			s, _ := t.expr(&ast.BinaryExpr{X: dec.X, Op: token.SUB, Y: &ast.BasicLit{Kind: token.INT, Value: "1"}})
			return "  " + s
		})
	rel := c17If(comp, "tickDelayQueues, release test", ds[1])
	o.ex(comp, "releaseCond", "comp.go `tickDelayQueues`, an entry may leave the queue when (tested after the decrement; Go `int` counter, Nat in the model: `n ≤ 0` is `n = 0`)",
		c17N("cyclesLeft", "remaining_len"), "Bool", nil, rel.Cond)
	c17Is(comp, "tickDelayQueues, released entry", c17Stmts(comp, "tickDelayQueues, released entry", rel.Body, 1)[0],
		"if b.canAccept() { b.accept(di.item) } else { remaining = append(remaining, di) }")
	c17Is(comp, "tickDelayQueues, entry that stays", c17Stmts(comp, "tickDelayQueues, entry that stays", c17Else(comp, "tickDelayQueues, release test", rel), 1)[0],
		"remaining = append(remaining, di)")

	// ---------------------------------------------------------------- builder.go
	const bld = "amd/timing/mem/simplebankedmemory/builder.go"
	_, fbld := parseFile(bld)
	fd = c10Func(fbld, bld, "", "MakeBuilder")
	ks, vs := c17KVs(bld, "MakeBuilder", c17Literal(bld, fd))
	var dk, dv []string
	selectorType := ""
	for i, k := range ks {
		switch k {
		case "freq":
			continue
		case "bankSelectorType":
			l, isLit := vs[i].(*ast.BasicLit)
			if !isLit || l.Kind != token.STRING {
				fatalf("c17: %s: MakeBuilder: bankSelectorType is not a string literal", bld)
			}
			selectorType = strings.Trim(l.Value, "\"`")
			continue
		}
		dk = append(dk, k)
		dv = append(dv, fmt.Sprint(c17Const(bld, "MakeBuilder, "+k, vs[i], "", nil)))
	}
	o.pairsNat("builderDefaults", "builder.go `MakeBuilder`: the numeric defaults (`capacity: 4 * mem.GB` with `mem.GB` = 1 << 30 read from the Akita source; `freq` and `bankSelectorType` are not numbers; a field not listed has Go's zero value)", dk, dv)
	fmt.Fprintf(&o.b, "/-- builder.go `MakeBuilder`: `bankSelectorType` -/\ndef defaultSelectorType : String := %s\n\n", leanStr(selectorType))

	var wk, wv []string
	for _, d := range fbld.Decls {
		f, isF := d.(*ast.FuncDecl)
		if !isF || f.Recv == nil || !strings.HasPrefix(f.Name.Name, "With") || f.Body == nil {
			continue
		}
		if len(f.Recv.List) != 1 || nodeString(f.Recv.List[0].Type) != "Builder" || len(f.Recv.List[0].Names) != 1 || f.Recv.List[0].Names[0].Name != "b" {
			fatalf("c17: %s: %s: receiver is not `b Builder`", bld, f.Name.Name)
		}
		if len(f.Type.Params.List) != 1 || len(f.Type.Params.List[0].Names) != 1 {
			fatalf("c17: %s: %s does not take one parameter", bld, f.Name.Name)
		}
		p := f.Type.Params.List[0].Names[0].Name
		st := c17Stmts(bld, f.Name.Name, f.Body, 2)
		c17Is(bld, f.Name.Name, st[1], "return b")
		as, isA := st[0].(*ast.AssignStmt)
		if !isA || as.Tok != token.ASSIGN || len(as.Lhs) != 1 || len(as.Rhs) != 1 || c10Norm(nodeString(as.Rhs[0])) != p {
			fatalf("c17: %s: %s: `%s` does not store the parameter in one field", bld, f.Name.Name, c17Flat(st[0]))
		}
		wk = append(wk, f.Name.Name)
		wv = append(wv, c17Field(bld, f.Name.Name, "b", as.Lhs[0]))
	}
	o.pairsStr("withSetters", "builder.go: every method `func (b Builder) WithX(p T) Builder { b.f = p; return b }` with the field f it sets", wk, wv)

	fd = c10Func(fbld, bld, "Builder", "configurationMustBeValid")
	var pos []string
	for i, s := range fd.Body.List {
		ci := c17If(bld, "configurationMustBeValid", s)
		if ci.Else != nil || !strings.HasPrefix(c10Norm(nodeString(c17Stmts(bld, "configurationMustBeValid", ci.Body, 1)[0])), "panic(") {
			fatalf("c17: %s: configurationMustBeValid: `%s` is not `if … { panic(…) }`", bld, c17Flat(s))
		}
		if i == 0 && c10Norm(nodeString(ci.Cond)) == "b.engine==nil" {
			continue
		}
		be, isBin := ci.Cond.(*ast.BinaryExpr)
		if !isBin || be.Op != token.LEQ || c10Norm(nodeString(be.Y)) != "0" {
			fatalf("c17: %s: configurationMustBeValid: condition `%s` is not `b.f <= 0`", bld, c17Flat(ci.Cond))
		}
		pos = append(pos, c17Field(bld, "configurationMustBeValid", "b", be.X))
	}
	o.strs("mustBePositive", "builder.go `configurationMustBeValid`: the fields f of the checks `if b.f <= 0 { panic(…) }`, in source order (the check `b.engine == nil` precedes them)", pos)

	fd = c10Func(fbld, bld, "Builder", "Build")
	c17Is(bld, "Build, first statement", fd.Body.List[0], "b.configurationMustBeValid()")
	pe, _ := c10Assign(fd, bld, "pipeline", 0)
	wk, wv = nil, nil
	for _, l := range c17Chain(bld, "Build, pipeline", pe, "pipelining.MakeBuilder()") {
		switch l.name {
		case "Build":
			continue
		case "WithPostPipelineBuffer":
			if len(l.args) != 1 || c10Norm(nodeString(l.args[0])) != "postPipelineBuf" {
				fatalf("c17: %s: Build: WithPostPipelineBuffer does not get postPipelineBuf", bld)
			}
			continue
		}
		if len(l.args) != 1 {
			fatalf("c17: %s: Build: pipeline builder call %s has %d arguments", bld, l.name, len(l.args))
		}
		wk = append(wk, l.name)
		wv = append(wv, c17Field(bld, "Build, "+l.name, "b", l.args[0]))
	}
	ppb, _ := c10Assign(fd, bld, "postPipelineBuf", 0)
	if c10Norm(nodeString(ppb.(*ast.CallExpr).Fun)) != "sim.NewBuffer" {
		fatalf("c17: %s: Build: postPipelineBuf is not a sim.NewBuffer", bld)
	}
	a := c10Call(fd, bld, "sim.NewBuffer", 0)
	if len(a) != 2 {
		fatalf("c17: %s: Build: sim.NewBuffer has %d arguments", bld, len(a))
	}
	wk, wv = append(wk, "NewBuffer"), append(wv, c17Field(bld, "Build, NewBuffer", "b", a[1]))
	tp, _ := c10Assign(fd, bld, "c.topPort", 0)
	if c10Norm(nodeString(tp.(*ast.CallExpr).Fun)) != "sim.NewPort" {
		fatalf("c17: %s: Build: c.topPort is not a sim.NewPort", bld)
	}
	a = c10Call(fd, bld, "sim.NewPort", 0)
	if len(a) != 4 {
		fatalf("c17: %s: Build: sim.NewPort has %d arguments", bld, len(a))
	}
	wk, wv = append(wk, "NewPort.in", "NewPort.out"), append(wv, c17Field(bld, "Build, NewPort", "b", a[1]), c17Field(bld, "Build, NewPort", "b", a[2]))
	bk, _ := c10Assign(fd, bld, "c.banks", 0)
	bc, isCall := bk.(*ast.CallExpr)
	if !isCall || c10Norm(nodeString(bc.Fun)) != "make" || len(bc.Args) != 2 || c10Norm(nodeString(bc.Args[0])) != "[]bank" {
		fatalf("c17: %s: Build: c.banks is not `make([]bank, n)`", bld)
	}
	wk, wv = append(wk, "make.banks"), append(wv, c17Field(bld, "Build, make", "b", bc.Args[1]))
	for _, k := range []string{"rowBufferSizeLog2", "rowMissDelay", "log2InterleaveSize", "numBanks", "AddressConverter", "BankAddressConverter"} {
		wk, wv = append(wk, "Comp."+k), append(wv, c17Field(bld, "Build, Comp."+k, "b", c10KeyValue(fd, bld, k, 0)))
	}
	if c10Norm(nodeString(c10KeyValue(fd, bld, "bankSelector", 0))) != "b.determineBankSelector()" {
		fatalf("c17: %s: Build: bankSelector is not b.determineBankSelector()", bld)
	}
	fd = c10Func(fbld, bld, "Builder", "determineBankSelector")
	wk, wv = append(wk, "Selector.Log2InterleaveSize"), append(wv, c17Field(bld, "determineBankSelector", "b", c10KeyValue(fd, bld, "Log2InterleaveSize", 0)))
	o.pairsStr("buildWiring", "builder.go `Build` / `determineBankSelector`: the builder field passed to every parameter — the calls of the `pipelining` builder chain, the capacity of `sim.NewBuffer` (post-pipeline buffer), the two capacities of `sim.NewPort` (Top port), the length of `make([]bank, …)`, the fields of the `Comp` literal and of the `interleavedBankSelector` literal", wk, wv)
	var sw *ast.SwitchStmt
	ast.Inspect(fd.Body, func(n ast.Node) bool {
		if s, isSw := n.(*ast.SwitchStmt); isSw && sw == nil {
			sw = s
		}
		return true
	})
	var selNames []string
	if sw != nil {
		for _, c := range sw.Body.List {
			cc := c.(*ast.CaseClause)
			if len(cc.Body) == 1 && strings.HasPrefix(c10Norm(nodeString(cc.Body[0])), "returninterleavedBankSelector{") {
				for _, v := range cc.List {
					l, isLit := v.(*ast.BasicLit)
					if !isLit || l.Kind != token.STRING {
						fatalf("c17: %s: determineBankSelector: case `%s`", bld, c17Flat(v))
					}
					selNames = append(selNames, strings.Trim(l.Value, "\"`"))
				}
			}
		}
	}
	if len(selNames) == 0 {
		fatalf("c17: %s: determineBankSelector: no case returns an interleavedBankSelector", bld)
	}
	q := make([]string, len(selNames))
	for i, s := range selNames {
		q[i] = leanStr(s)
	}
	fmt.Fprintf(&o.b, "/-- builder.go `determineBankSelector`: the (lower-cased) selector type names that give an `interleavedBankSelector` (no custom selector installed) -/\ndef interleavedSelectorTypes : List String := [%s]\n\n", strings.Join(q, ", "))

	// ---------------------------------------------------------------- mi300a/builder.go
	const mi = "amd/samples/runner/timingconfig/mi300a/builder.go"
	_, fmi := parseFile(mi)
	fd = c10Func(fmi, mi, "", "MakeBuilder")
	ks, vs = c17KVs(mi, "MakeBuilder", c17Literal(mi, fd))
	env := map[string]int64{}
	dk, dv = nil, nil
	for i, k := range ks {
		switch k {
		case "numMemoryBank", "log2MemoryBankInterleavingSize", "memAddrOffset", "dramSize":
			env[k] = c17Const(mi, "MakeBuilder, "+k, vs[i], "", nil)
			dk, dv = append(dk, k), append(dv, fmt.Sprint(env[k]))
		}
	}
	if len(dk) != 4 {
		fatalf("c17: %s: MakeBuilder: expected defaults for numMemoryBank, log2MemoryBankInterleavingSize, memAddrOffset, dramSize; found %v", mi, dk)
	}
	o.pairsNat("mi300aDefaults", "mi300a/builder.go `MakeBuilder`: the defaults the DRAM controllers are built from", dk, dv)

	fd = c10Func(fmi, mi, "Builder", "buildDRAMControllers")
	fr := c10For(fd, mi, 0)
	lv, li := c10ForInit(fr, mi)
	pv, pp := c10ForPost(fr, mi)
	cond, isBin := fr.Cond.(*ast.BinaryExpr)
	if lv != "i" || pv != "i" || pp != "++" || c10Norm(nodeString(li)) != "0" || !isBin || cond.Op != token.LSS || c10Norm(nodeString(cond.X)) != "i" {
		fatalf("c17: %s: buildDRAMControllers: loop header is not `for i := 0; i < n; i++`", mi)
	}
	fmt.Fprintf(&o.b, "/-- mi300a/builder.go `buildDRAMControllers`: `for %s; %s; %s` builds DRAM[i] for every i below this number -/\ndef mi300aDramCount : Nat := %d\n\n",
		c17Flat(fr.Init), c17Flat(fr.Cond), c17Flat(fr.Post), c17Const(mi, "buildDRAMControllers, loop bound", cond.Y, "b", env))
	me, tok := c10Assign(fd, mi, "memBuilder", 0)
	if tok != token.DEFINE {
		fatalf("c17: %s: buildDRAMControllers: `memBuilder := …` not found", mi)
	}
	dk, dv = nil, nil
	var conv *ast.CompositeLit
	for _, l := range c17Chain(mi, "buildDRAMControllers", me, "simplebankedmemory.MakeBuilder()") {
		if len(l.args) != 1 {
			fatalf("c17: %s: buildDRAMControllers: %s has %d arguments", mi, l.name, len(l.args))
		}
		switch l.name {
		case "WithEngine", "WithFreq":
			continue
		case "WithBankAddressConverter":
			u, isU := l.args[0].(*ast.UnaryExpr)
			if isU && u.Op == token.AND {
				if cl, isCL := u.X.(*ast.CompositeLit); isCL && c10Norm(nodeString(cl.Type)) == "mem.InterleavingConverter" && conv == nil {
					conv = cl
					continue
				}
			}
			fatalf("c17: %s: buildDRAMControllers: WithBankAddressConverter(%s) is not one `&mem.InterleavingConverter{…}`", mi, c17Flat(l.args[0]))
		}
		lit, isLit := l.args[0].(*ast.BasicLit)
		if !isLit || lit.Kind != token.INT {
			fatalf("c17: %s: buildDRAMControllers: %s(%s): the argument is not an integer literal", mi, l.name, c17Flat(l.args[0]))
		}
		dk, dv = append(dk, l.name), append(dv, lit.Value)
	}
	// later statements may only choose the storage
	n := 0
	ast.Inspect(fd.Body, func(nd ast.Node) bool {
		as, isA := nd.(*ast.AssignStmt)
		if !isA || len(as.Lhs) != 1 || c10Norm(nodeString(as.Lhs[0])) != "memBuilder" {
			return true
		}
		n++
		if n == 1 {
			return true
		}
		s := c10Norm(nodeString(as.Rhs[0]))
		if !strings.HasPrefix(s, "memBuilder.WithStorage(") && !strings.HasPrefix(s, "memBuilder.WithNewStorage(") {
			fatalf("c17: %s: buildDRAMControllers: `%s` changes the builder after the chain", mi, c17Flat(as))
		}
		return true
	})
	o.pairsNat("mi300aDram", "mi300a/builder.go `buildDRAMControllers`: the calls with a constant argument of the chain `memBuilder := simplebankedmemory.MakeBuilder().…`, in source order (besides them: WithEngine, WithFreq, WithBankAddressConverter; afterwards only WithStorage / WithNewStorage)", dk, dv)
	if conv == nil {
		fatalf("c17: %s: buildDRAMControllers: no WithBankAddressConverter in the chain", mi)
	}
	ks, vs = c17KVs(mi, "buildDRAMControllers, InterleavingConverter", conv)
	o.strs("mi300aConvFields", "mi300a/builder.go `buildDRAMControllers`: the fields set in `&mem.InterleavingConverter{…}` (`Offset` is not among them: Go's zero value 0)", ks)
	for i, k := range ks {
		switch k {
		case "InterleavingSize":
			fmt.Fprintf(&o.b, "/-- mi300a/builder.go `buildDRAMControllers`: `InterleavingSize: %s` with the default `log2MemoryBankInterleavingSize: %d` of `MakeBuilder` -/\ndef mi300aConvSize : Nat := %d\n\n",
				c17Flat(vs[i]), env["log2MemoryBankInterleavingSize"], c17Const(mi, "InterleavingSize", vs[i], "b", env))
		case "TotalNumOfElements":
			fmt.Fprintf(&o.b, "/-- mi300a/builder.go `buildDRAMControllers`: `TotalNumOfElements: %s` with the default `numMemoryBank: %d` of `MakeBuilder` -/\ndef mi300aConvElems : Nat := %d\n\n",
				c17Flat(vs[i]), env["numMemoryBank"], c17Const(mi, "TotalNumOfElements", vs[i], "b", env))
		case "CurrentElementIndex":
			fmt.Fprintf(&o.b, "/-- mi300a/builder.go `buildDRAMControllers`: `CurrentElementIndex: %s` — \"i\" is the loop variable, DRAM[i] gets index i -/\ndef mi300aConvIndex : String := %s\n\n",
				c17Flat(vs[i]), leanStr(c10Norm(nodeString(vs[i]))))
		case "Offset":
			fmt.Fprintf(&o.b, "/-- mi300a/builder.go `buildDRAMControllers`: `Offset: %s` -/\ndef mi300aConvOffset : Nat := %d\n\n", c17Flat(vs[i]), c17Const(mi, "Offset", vs[i], "b", env))
		default:
			fatalf("c17: %s: buildDRAMControllers: unknown InterleavingConverter field %s", mi, k)
		}
	}

	// ---------------------------------------------------------------- timingconfig/builder.go
	const tc = "amd/samples/runner/timingconfig/builder.go"
	_, ftc := parseFile(tc)
	fd = c10Func(ftc, tc, "Builder", "createGPUBuilder")
	var chain []string
	ast.Inspect(fd.Body, func(nd ast.Node) bool {
		r, isRet := nd.(*ast.ReturnStmt)
		if !isRet || len(r.Results) != 1 || !strings.HasPrefix(c10Norm(nodeString(r.Results[0])), "mi300a.MakeBuilder()") {
			return true
		}
		if chain != nil {
			fatalf("c17: %s: createGPUBuilder: mi300a.MakeBuilder() is used twice", tc)
		}
		chain = []string{}
		for _, l := range c17Chain(tc, "createGPUBuilder", r.Results[0], "mi300a.MakeBuilder()") {
			chain = append(chain, l.name)
		}
		return true
	})
	if chain == nil {
		fatalf("c17: %s: createGPUBuilder: `return mi300a.MakeBuilder().…` not found", tc)
	}
	o.strs("mi300aRunnerChain", "timingconfig/builder.go `createGPUBuilder`: the methods the runner calls on `mi300a.MakeBuilder()` (none of WithNumMemoryBank, WithLog2MemoryBankInterleavingSize, WithDramSize: the defaults above are what the shipped platform uses)", chain)

	o.b.WriteString("end Gen.C17Dram\n")
	writeIfChanged("C17Dram.lean", o.b.String())
}
