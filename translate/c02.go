package main

import (
	"fmt"
	"go/ast"
	"go/parser"
	"go/token"
	"sort"
	"strconv"
	"strings"
)

// genC02 (property C02: timing mode computes what emulation computes) reads the table-like and straight-line parts of
// the timing compute unit, of the two emulator ALUs and of the command processor and writes them as Lean definitions
// (lean/MgpuModel/Gen/C02Cu.lean):
//
//   - amd/timing/cu/defaultcoalescer.go: instRegCount, storeByteSize, cacheLineID, addrOffsetInCacheLine, isLoadInst,
//     the address of register j of a lane in generateReadReqs / generateWriteReqs;
//   - amd/timing/cu/vectormemoryunit.go: the FLAT opcodes executeFlatInsts sends to executeFlatLoad / executeFlatStore;
//   - amd/timing/cu/computeunit.go: the per-opcode value expressions of handleVectorDataLoadReturn (typed: every Go
//     integer conversion becomes a truncation or a sign extension), removeStaleInstBuffer, handleFetchReturn;
//   - amd/emu/alu_flat.go, amd/emu/cdna3/flat.go: the FLAT opcodes runFlat has a case for, with the handler;
//   - amd/timing/cu/scalarunit.go executeSMEMInst / executeSMEMLoad and amd/emu/alu.go, amd/emu/cdna3/sop.go runSMEM /
//     runSLOADDWORD*: opcode -> byte count, the address expression `(base + offset) &^ 3`;
//   - amd/timing/cu/wfdispatcher.go initRegisters and amd/emu/computeunit.go initWfRegs: the order of the enable-flag
//     tests of the SGPR cursor, how far each advances it, what is written at the cursor;
//   - amd/timing/cu/cubuilder.go, fetcharbiter.go, scheduler.go, branchunit.go and the platform builders: cache-line
//     size, instruction-buffer size, the line mask, the fetch size, the bytes DecodeNextInst needs, barrierBufferSize;
//   - amd/timing/cu/scheduler.go EvaluateInternalInst (SOPP opcodes with their own case), evalSWaitCnt, evalSEndPgm;
//   - amd/timing/cp/cpMiddleware.go: the cache groups processFlushReq flushes, the groups
//     invalidateL1CachesBeforeKernel invalidates, the guards of processLaunchKernelReq.
//
// MgpuProofs/Props/C02Tie.lean proves that the hand-written model (MgpuModel/C02.lean, C02Wf.lean) uses exactly these
// tables and expressions. Every statement is located by its shape; another shape is refused (non-zero exit = broken
// tie); another constant changes the generated definition and breaks the theorem that uses it.
func init() { extraGens = append(extraGens, gen{"c02", genC02}) }

func c02Refuse(file, format string, a ...interface{}) {
	fatalf("c02: %s: %s", file, fmt.Sprintf(format, a...))
}

type c02Case struct {
	ops  []int64
	body []ast.Stmt
}

// c02Switch: the only switch statement of the function whose tag prints as tag; its cases (integer literals only)
// and the body of `default:` (nil when there is none).
func c02Switch(fd *ast.FuncDecl, file, tag string) ([]c02Case, []ast.Stmt) {
	var sw *ast.SwitchStmt
	ast.Inspect(fd.Body, func(n ast.Node) bool {
		s, ok := n.(*ast.SwitchStmt)
		if !ok || s.Tag == nil || c10Norm(nodeString(s.Tag)) != tag {
			return true
		}
		if sw != nil {
			c02Refuse(file, "%s: two switch statements on `%s`", fd.Name.Name, tag)
		}
		sw = s
		return true
	})
	if sw == nil || sw.Init != nil {
		c02Refuse(file, "%s: `switch %s { … }` not found", fd.Name.Name, tag)
	}
	var cases []c02Case
	var def []ast.Stmt
	seen := map[int64]bool{}
	hasDef := false
	for _, c := range sw.Body.List {
		cc := c.(*ast.CaseClause)
		if cc.List == nil {
			if hasDef {
				c02Refuse(file, "%s: two default clauses", fd.Name.Name)
			}
			hasDef = true
			def = cc.Body
			if def == nil {
				def = []ast.Stmt{}
			}
			continue
		}
		var ops []int64
		for _, v := range cc.List {
			l, ok := v.(*ast.BasicLit)
			if !ok || l.Kind != token.INT {
				c02Refuse(file, "%s: case value `%s` is not an integer literal", fd.Name.Name, c17Flat(v))
			}
			n, err := strconv.ParseInt(l.Value, 0, 64)
			if err != nil || n < 0 {
				c02Refuse(file, "%s: case value `%s`", fd.Name.Name, l.Value)
			}
			if seen[n] {
				c02Refuse(file, "%s: opcode %d has two cases", fd.Name.Name, n)
			}
			seen[n] = true
			ops = append(ops, n)
		}
		for _, s := range cc.Body {
			if b, isBr := s.(*ast.BranchStmt); isBr && b.Tok == token.FALLTHROUGH {
				c02Refuse(file, "%s: fallthrough", fd.Name.Name)
			}
		}
		cases = append(cases, c02Case{ops, cc.Body})
	}
	return cases, def
}

func c02IntLit(file, where string, e ast.Expr) int64 {
	l, ok := e.(*ast.BasicLit)
	if !ok || l.Kind != token.INT {
		c02Refuse(file, "%s: `%s` is not an integer literal", where, c17Flat(e))
	}
	n, err := strconv.ParseInt(l.Value, 0, 64)
	if err != nil {
		c02Refuse(file, "%s: integer literal `%s`", where, l.Value)
	}
	return n
}

// c02RetLit: the statements are one `return <integer literal>`
func c02RetLit(file, where string, body []ast.Stmt) int64 {
	if len(body) == 1 {
		if r, ok := body[0].(*ast.ReturnStmt); ok && len(r.Results) == 1 {
			return c02IntLit(file, where, r.Results[0])
		}
	}
	c02Refuse(file, "%s: expected a single `return <integer literal>`", where)
	return 0
}

// c02IsPanic: the statements are one panic(…) / log.Panicf(…) / log.Panic(…)
func c02IsPanic(body []ast.Stmt) bool {
	if len(body) != 1 {
		return false
	}
	s := c10Norm(nodeString(body[0]))
	return strings.HasPrefix(s, "panic(") || strings.HasPrefix(s, "log.Panicf(") || strings.HasPrefix(s, "log.Panic(")
}

// c02OneCall: the statements are one call `recv.NAME(arg)` (as a statement, or returned when ret); gives NAME and
// the arguments.
func c02OneCall(file, where, recv string, ret bool, body []ast.Stmt) (string, []ast.Expr) {
	if len(body) == 1 {
		var e ast.Expr
		switch s := body[0].(type) {
		case *ast.ExprStmt:
			if !ret {
				e = s.X
			}
		case *ast.ReturnStmt:
			if ret && len(s.Results) == 1 {
				e = s.Results[0]
			}
		}
		if c, ok := e.(*ast.CallExpr); ok {
			if sel, isSel := c.Fun.(*ast.SelectorExpr); isSel {
				if id, isID := sel.X.(*ast.Ident); isID && id.Name == recv {
					return sel.Sel.Name, c.Args
				}
			}
		}
	}
	c02Refuse(file, "%s: expected a single call `%s.F(…)`", where, recv)
	return "", nil
}

type c02KV struct {
	k, v int64
}

func c02Sorted(m map[int64]int64) []c02KV {
	var out []c02KV
	for k, v := range m {
		out = append(out, c02KV{k, v})
	}
	sort.Slice(out, func(i, j int) bool { return out[i].k < out[j].k })
	return out
}

func (o *c17Out) c02Pairs(name, doc string, kvs []c02KV) {
	if o.names[name] {
		fatalf("c02: duplicate definition %s", name)
	}
	o.names[name] = true
	q := make([]string, len(kvs))
	for i, p := range kvs {
		q[i] = fmt.Sprintf("(%d, %d)", p.k, p.v)
	}
	fmt.Fprintf(&o.b, "/-- %s -/\ndef %s : List (Nat × Nat) := [%s]\n\n", doc, name, strings.Join(q, ", "))
}

func (o *c17Out) c02Nats(name, doc string, xs []int64) {
	if o.names[name] {
		fatalf("c02: duplicate definition %s", name)
	}
	o.names[name] = true
	q := make([]string, len(xs))
	for i, x := range xs {
		q[i] = fmt.Sprint(x)
	}
	fmt.Fprintf(&o.b, "/-- %s -/\ndef %s : List Nat := [%s]\n\n", doc, name, strings.Join(q, ", "))
}

func (o *c17Out) c02Nat(name, doc string, v int64) {
	if o.names[name] {
		fatalf("c02: duplicate definition %s", name)
	}
	o.names[name] = true
	fmt.Fprintf(&o.b, "/-- %s -/\ndef %s : Nat := %d\n\n", doc, name, v)
}

func (o *c17Out) c02NatStr(name, doc string, ks []int64, vs []string) {
	if o.names[name] {
		fatalf("c02: duplicate definition %s", name)
	}
	o.names[name] = true
	q := make([]string, len(ks))
	for i := range ks {
		q[i] = fmt.Sprintf("(%d, %s)", ks[i], leanStr(vs[i]))
	}
	fmt.Fprintf(&o.b, "/-- %s -/\ndef %s : List (Nat × String) := [%s]\n\n", doc, name, strings.Join(q, ", "))
}

func (o *c17Out) c02Raw(name, text string) {
	if o.names[name] {
		fatalf("c02: duplicate definition %s", name)
	}
	o.names[name] = true
	o.b.WriteString(text)
}

func c02SortInts(xs []int64) []int64 {
	out := append([]int64{}, xs...)
	sort.Slice(out, func(i, j int) bool { return out[i] < out[j] })
	return out
}

func genC02() {
	o := &c17Out{c10Out{names: map[string]bool{}}}
	o.b.WriteString("-- GENERATED by /verif/translate (c02.go) from amd/timing/cu/{defaultcoalescer,vectormemoryunit,computeunit,scalarunit,wfdispatcher,cubuilder,fetcharbiter,scheduler,branchunit}.go, amd/emu/{alu_flat,alu,computeunit}.go, amd/emu/cdna3/{flat,sop}.go, amd/timing/cp/cpMiddleware.go, amd/samples/runner/timingconfig/{r9nano,mi300a,shaderarray}/builder.go; do not edit\n")
	o.b.WriteString("namespace Gen.C02Cu\n\n")
	c02Flat(o)
	c02LoadReturn(o)
	c02Smem(o)
	c02Sgpr(o)
	c02Fetch(o)
	c02Internal(o)
	c02Cp(o)
	o.b.WriteString("end Gen.C02Cu\n")
	writeIfChanged("C02Cu.lean", o.b.String())
}

// ---------------------------------------------------------------- (a), (c): FLAT opcode tables
func c02Flat(o *c17Out) {
	const co = "amd/timing/cu/defaultcoalescer.go"
	_, fco := parseFile(co)
	const vm = "amd/timing/cu/vectormemoryunit.go"
	_, fvm := parseFile(vm)

	// executeFlatInsts: which opcodes are loads, which are stores
	fd := c10Func(fvm, vm, "VectorMemoryUnit", "executeFlatInsts")
	cases, def := c02Switch(fd, vm, "inst.Opcode")
	if def == nil || !c02IsPanic(def) {
		c02Refuse(vm, "executeFlatInsts: the default clause is not a panic")
	}
	var loads, stores []int64
	for _, c := range cases {
		name, args := c02OneCall(vm, "executeFlatInsts", "u", true, c.body)
		if len(args) != 1 || c10Norm(nodeString(args[0])) != "wavefront" {
			c02Refuse(vm, "executeFlatInsts: `%s` does not pass the wavefront", c17Flat(c.body[0]))
		}
		switch name {
		case "executeFlatLoad":
			loads = append(loads, c.ops...)
		case "executeFlatStore":
			stores = append(stores, c.ops...)
		default:
			c02Refuse(vm, "executeFlatInsts: unknown callee %s", name)
		}
	}
	loads, stores = c02SortInts(loads), c02SortInts(stores)
	o.c02Nats("timingFlatLoadOpcodes", "vectormemoryunit.go `executeFlatInsts`: the opcodes whose case is `return u.executeFlatLoad(wavefront)` (every other opcode without a case panics)", loads)
	o.c02Nats("timingFlatStoreOpcodes", "vectormemoryunit.go `executeFlatInsts`: the opcodes whose case is `return u.executeFlatStore(wavefront)`", stores)

	// instRegCount
	fd = c10Func(fco, co, "defaultCoalescer", "instRegCount")
	cases, def = c02Switch(fd, co, "inst.Opcode")
	if def == nil || !c02IsPanic(def) {
		c02Refuse(co, "instRegCount: the default clause is not a panic")
	}
	cnt := map[int64]int64{}
	for _, c := range cases {
		v := c02RetLit(co, "instRegCount", c.body)
		for _, op := range c.ops {
			cnt[op] = v
		}
	}
	pick := func(ops []int64, what string) []c02KV {
		var out []c02KV
		in := map[int64]bool{}
		for _, op := range ops {
			in[op] = true
			v, ok := cnt[op]
			if !ok {
				c02Refuse(co, "instRegCount has no case for the %s opcode %d of executeFlatInsts (it would panic)", what, op)
			}
			out = append(out, c02KV{op, v})
		}
		return out
	}
	lr, sr := pick(loads, "load"), pick(stores, "store")
	for op := range cnt {
		isL, isS := false, false
		for _, x := range loads {
			isL = isL || x == op
		}
		for _, x := range stores {
			isS = isS || x == op
		}
		if !isL && !isS {
			c02Refuse(co, "instRegCount has a case for opcode %d, which executeFlatInsts does not execute", op)
		}
	}
	o.c02Pairs("loadRegCount", "defaultcoalescer.go `instRegCount` on the load opcodes of `executeFlatInsts`: (opcode, number of destination registers), by opcode", lr)
	o.c02Pairs("storeRegCount", "defaultcoalescer.go `instRegCount` on the store opcodes of `executeFlatInsts`: (opcode, number of data registers), by opcode", sr)

	// storeByteSize
	fd = c10Func(fco, co, "defaultCoalescer", "storeByteSize")
	cases, def = c02Switch(fd, co, "inst.Opcode")
	if def == nil {
		c02Refuse(co, "storeByteSize: no default clause")
	}
	dflt := c02RetLit(co, "storeByteSize, default", def)
	sb := map[int64]int64{}
	for _, c := range cases {
		v := c02RetLit(co, "storeByteSize", c.body)
		for _, op := range c.ops {
			sb[op] = v
		}
	}
	var sbl []c02KV
	for _, op := range stores {
		v, ok := sb[op]
		if !ok {
			v = dflt
		}
		sbl = append(sbl, c02KV{op, v})
		delete(sb, op)
	}
	for op := range sb {
		c02Refuse(co, "storeByteSize has a case for opcode %d, which is not a store opcode of executeFlatInsts", op)
	}
	o.c02Pairs("storeBytes", fmt.Sprintf("defaultcoalescer.go `storeByteSize` on the store opcodes of `executeFlatInsts`: (opcode, bytes of each data register that are written); opcodes without their own case get the `default:` value %d", dflt), sbl)
	o.c02Nat("storeBytesDefault", "defaultcoalescer.go `storeByteSize`: the value of `default:`", dflt)
	// generateWriteReqs uses it as the length of the slice of the 4 data bytes
	fd = c10Func(fco, co, "defaultCoalescer", "generateWriteReqs")
	wargs := c10Call(fd, co, "c.findOrCreateWriteReq", 0)
	if len(wargs) != 3 || c10Norm(nodeString(wargs[2])) != "insts.Uint32ToBytes(dataVal)[:c.storeByteSize(inst)]" {
		c02Refuse(co, "generateWriteReqs: the data passed to findOrCreateWriteReq is not `insts.Uint32ToBytes(dataVal)[:c.storeByteSize(inst)]`")
	}
	o.ex(co, "writeAccAddr", "defaultcoalescer.go `generateWriteReqs`: the address data register j of a lane is stored to", c17N("addr", "j"), "Nat", nil, wargs[1])
	fd = c10Func(fco, co, "defaultCoalescer", "generateReadReqs")
	rargs := c10Call(fd, co, "c.findOrCreateReadReq", 0)
	if len(rargs) != 2 {
		c02Refuse(co, "generateReadReqs: findOrCreateReadReq has %d arguments", len(rargs))
	}
	o.ex(co, "readAccAddr", "defaultcoalescer.go `generateReadReqs`: the address destination register j of a lane is loaded from", c17N("addr", "j"), "Nat", nil, rargs[1])
	for _, g := range []string{"generateReadReqs", "generateWriteReqs"} {
		fd = c10Func(fco, co, "defaultCoalescer", g)
		fr := c10For(fd, co, 0)
		if c10Norm(nodeString(fr.Init)) != "i:=uint(0)" || c10Norm(nodeString(fr.Cond)) != "i<64" || c10Norm(nodeString(fr.Post)) != "i++" {
			c02Refuse(co, "%s: the lane loop is not `for i := uint(0); i < 64; i++`", g)
		}
	}
	fd = c10Func(fco, co, "defaultCoalescer", "isLoadInst")
	c17Stmts(co, "isLoadInst", fd.Body, 1)
	o.ex(co, "isLoadInst", "defaultcoalescer.go `isLoadInst` (decides between read and write requests in `generateMemTransactions`)", c17N("opcode"), "Bool", nil, c10Return(fd, co, 0))
	fd = c10Func(fco, co, "defaultCoalescer", "cacheLineID")
	c17Stmts(co, "cacheLineID", fd.Body, 1)
	o.ex(co, "cacheLineID", "defaultcoalescer.go `cacheLineID`", c17N("addr", "log2CacheLineSize"), "Nat", nil, c10Return(fd, co, 0))
	fd = c10Func(fco, co, "defaultCoalescer", "addrOffsetInCacheLine")
	c17Stmts(co, "addrOffsetInCacheLine", fd.Body, 1)
	o.ex(co, "addrOffsetInCacheLine", "defaultcoalescer.go `addrOffsetInCacheLine`", c17N("addr", "log2CacheLineSize"), "Nat", nil, c10Return(fd, co, 0))

	// the emulator ALUs
	for _, a := range []struct{ file, recv, suffix string }{{"amd/emu/alu_flat.go", "ALUImpl", ""}, {"amd/emu/cdna3/flat.go", "ALU", "CDNA3"}} {
		_, f := parseFile(a.file)
		fd = c10Func(f, a.file, a.recv, "runFlat")
		cases, def = c02Switch(fd, a.file, "inst.Opcode")
		if def == nil || !c02IsPanic(def) {
			c02Refuse(a.file, "runFlat: the default clause is not a panic")
		}
		hm := map[int64]string{}
		var ops []int64
		for _, c := range cases {
			name, args := c02OneCall(a.file, "runFlat", "u", false, c.body)
			if len(args) != 1 || c10Norm(nodeString(args[0])) != "state" {
				c02Refuse(a.file, "runFlat: `%s` does not pass the state", c17Flat(c.body[0]))
			}
			c10Func(f, a.file, a.recv, name) // the handler exists in the same file
			for _, op := range c.ops {
				hm[op] = name
				ops = append(ops, op)
			}
		}
		ops = c02SortInts(ops)
		hs := make([]string, len(ops))
		for i, op := range ops {
			hs[i] = hm[op]
		}
		o.c02Nats("emuFlatOpcodes"+a.suffix, a.file+" `runFlat`: the FLAT opcodes with a case (any other opcode panics), by opcode", ops)
		o.c02NatStr("emuFlatHandlers"+a.suffix, a.file+" `runFlat`: (opcode, the method its case calls)", ops, hs)
	}
}

// ---------------------------------------------------------------- (b): handleVectorDataLoadReturn
type c02Ty struct {
	bits   int
	signed bool
}

var c02Types = map[string]c02Ty{"uint8": {8, false}, "byte": {8, false}, "int8": {8, true}, "uint16": {16, false}, "int16": {16, true},
	"uint32": {32, false}, "int32": {32, true}, "uint64": {64, false}, "int64": {64, true}}

func c02Pow2(n int) string {
	if n >= 64 {
		return "18446744073709551616"
	}
	return fmt.Sprint(uint64(1) << uint(n))
}

// c02Typed translates an integer expression over the bytes `rsp.Data[offset+k]` (written `g k`, a number below 256)
// into a Nat expression on the bit patterns: a value of a w-bit type is its unsigned pattern below 2^w. A conversion
// to a narrower type truncates (`% 2^w`), to a wider type from a signed type sign-extends (`sext half add x` = x + add
// when x ≥ half), from an unsigned type does nothing; `|` is `|||`; `<< k` is `<<< k` truncated to the width.
func c02Typed(file string, e ast.Expr) (string, c02Ty) {
	switch x := e.(type) {
	case *ast.ParenExpr:
		s, t := c02Typed(file, x.X)
		return s, t
	case *ast.IndexExpr:
		if c10Norm(nodeString(x.X)) == "rsp.Data" {
			ix := c10Norm(nodeString(x.Index))
			if ix == "offset" {
				return "g 0", c02Ty{8, false}
			}
			if strings.HasPrefix(ix, "offset+") {
				if k, err := strconv.Atoi(ix[len("offset+"):]); err == nil && k >= 0 {
					return fmt.Sprintf("g %d", k), c02Ty{8, false}
				}
			}
		}
	case *ast.CallExpr:
		if id, ok := x.Fun.(*ast.Ident); ok && len(x.Args) == 1 {
			to, known := c02Types[id.Name]
			if known {
				s, from := c02Typed(file, x.Args[0])
				switch {
				case to.bits < from.bits:
					return fmt.Sprintf("(%s) %% %s", s, c02Pow2(to.bits)), to
				case to.bits == from.bits || !from.signed:
					return s, to
				default:
					half := uint64(1) << uint(from.bits-1)
					var add uint64
					if to.bits == 64 {
						add = -(uint64(1) << uint(from.bits)) // 2^64 - 2^from
					} else {
						add = (uint64(1) << uint(to.bits)) - (uint64(1) << uint(from.bits))
					}
					return fmt.Sprintf("sext %d %d (%s)", half, add, s), to
				}
			}
		}
	case *ast.BinaryExpr:
		switch x.Op {
		case token.OR:
			a, ta := c02Typed(file, x.X)
			b, tb := c02Typed(file, x.Y)
			if ta != tb {
				c02Refuse(file, "handleVectorDataLoadReturn: the operands of `%s` have different types", c17Flat(e))
			}
			return fmt.Sprintf("(%s) ||| (%s)", a, b), ta
		case token.SHL:
			a, ta := c02Typed(file, x.X)
			k := c02IntLit(file, "handleVectorDataLoadReturn, shift count", x.Y)
			if k < 0 || k >= int64(ta.bits) {
				c02Refuse(file, "handleVectorDataLoadReturn: shift count of `%s`", c17Flat(e))
			}
			return fmt.Sprintf("((%s) <<< %d) %% %s", a, k, c02Pow2(ta.bits)), ta
		}
	}
	c02Refuse(file, "handleVectorDataLoadReturn: unsupported value expression `%s`", c17Flat(e))
	return "", c02Ty{}
}

func c02LoadReturn(o *c17Out) {
	const cu = "amd/timing/cu/computeunit.go"
	_, f := parseFile(cu)
	fd := c10Func(f, cu, "ComputeUnit", "handleVectorDataLoadReturn")
	var loop *ast.RangeStmt
	for _, s := range fd.Body.List {
		if r, ok := s.(*ast.RangeStmt); ok && c10Norm(nodeString(r.X)) == "info.laneInfo" {
			if loop != nil {
				c02Refuse(cu, "handleVectorDataLoadReturn: two loops over info.laneInfo")
			}
			loop = r
		}
	}
	if loop == nil || c10Norm(nodeString(loop.Value)) != "laneInfo" {
		c02Refuse(cu, "handleVectorDataLoadReturn: `for _, laneInfo := range info.laneInfo` not found")
	}
	body := loop.Body.List
	if len(body) < 3 {
		c02Refuse(cu, "handleVectorDataLoadReturn: loop body too short")
	}
	c17Is(cu, "handleVectorDataLoadReturn, loop statement 1", body[0], "offset := laneInfo.addrOffsetInCacheLine")
	c17Is(cu, "handleVectorDataLoadReturn, last loop statement", body[len(body)-1], "cu.VRegFile[wf.SIMDID].Write(access)")
	chain, ok := body[len(body)-2].(*ast.IfStmt)
	if !ok {
		c02Refuse(cu, "handleVectorDataLoadReturn: the statement before the register write is not the opcode if-chain")
	}
	for _, s := range body[1 : len(body)-2] { // only the fields of `access` that do not depend on the opcode
		t := c10Norm(nodeString(s))
		if !strings.HasPrefix(t, "access:=RegisterAccess{}") && !strings.HasPrefix(t, "access.WaveOffset=") && !strings.HasPrefix(t, "access.Reg=") &&
			!strings.HasPrefix(t, "access.RegCount=") && !strings.HasPrefix(t, "access.LaneID=") {
			c02Refuse(cu, "handleVectorDataLoadReturn: unexpected loop statement `%s`", c17Flat(s))
		}
	}
	var ops []int64
	var exprs, srcs []string
	var cur ast.Stmt = chain
	var last *ast.BlockStmt
	for cur != nil {
		if b, isBlock := cur.(*ast.BlockStmt); isBlock {
			last = b
			break
		}
		ci := c17If(cu, "handleVectorDataLoadReturn, opcode chain", cur)
		cond := c10Norm(nodeString(ci.Cond))
		const pre = "inst.FormatType==insts.FLAT&&inst.Opcode=="
		if !strings.HasPrefix(cond, pre) {
			c02Refuse(cu, "handleVectorDataLoadReturn: condition `%s` is not `inst.FormatType == insts.FLAT && inst.Opcode == N`", c17Flat(ci.Cond))
		}
		n, err := strconv.ParseInt(cond[len(pre):], 0, 64)
		if err != nil {
			c02Refuse(cu, "handleVectorDataLoadReturn: condition `%s`", c17Flat(ci.Cond))
		}
		as, isAs := c17Stmts(cu, "handleVectorDataLoadReturn, opcode branch", ci.Body, 1)[0].(*ast.AssignStmt)
		if !isAs || as.Tok != token.ASSIGN || len(as.Lhs) != 1 || len(as.Rhs) != 1 || c10Norm(nodeString(as.Lhs[0])) != "access.Data" {
			c02Refuse(cu, "handleVectorDataLoadReturn: the branch of opcode %d is not `access.Data = …`", n)
		}
		call, isCall := as.Rhs[0].(*ast.CallExpr)
		if !isCall || c10Norm(nodeString(call.Fun)) != "insts.Uint32ToBytes" || len(call.Args) != 1 {
			c02Refuse(cu, "handleVectorDataLoadReturn: opcode %d: the data is not `insts.Uint32ToBytes(…)`", n)
		}
		s, ty := c02Typed(cu, call.Args[0])
		if ty != (c02Ty{32, false}) {
			c02Refuse(cu, "handleVectorDataLoadReturn: opcode %d: the argument of Uint32ToBytes is not a uint32", n)
		}
		for _, p := range ops {
			if p == n {
				c02Refuse(cu, "handleVectorDataLoadReturn: opcode %d has two branches", n)
			}
		}
		ops, exprs, srcs = append(ops, n), append(exprs, s), append(srcs, c17Flat(call.Args[0]))
		cur = ci.Else
	}
	if last == nil || len(last.List) != 3 {
		c02Refuse(cu, "handleVectorDataLoadReturn: the final else branch (raw copy) does not have 3 statements")
	}
	endAs, isAs := last.List[0].(*ast.AssignStmt)
	if !isAs || endAs.Tok != token.DEFINE || c10Norm(nodeString(endAs.Lhs[0])) != "end" {
		c02Refuse(cu, "handleVectorDataLoadReturn: the else branch does not start with `end := …`")
	}
	endText := c10Norm(nodeString(endAs.Rhs[0]))
	const ep, es = "offset+uint64(", "*laneInfo.regCount)"
	if !strings.HasPrefix(endText, ep) || !strings.HasSuffix(endText, es) {
		c02Refuse(cu, "handleVectorDataLoadReturn: `%s` is not `end := offset + uint64(K*laneInfo.regCount)`", c17Flat(endAs))
	}
	perReg, err := strconv.ParseInt(endText[len(ep):len(endText)-len(es)], 0, 64)
	if err != nil {
		c02Refuse(cu, "handleVectorDataLoadReturn: `%s`", c17Flat(endAs))
	}
	c17Is(cu, "handleVectorDataLoadReturn, else branch, clamp", last.List[1], "if end > uint64(len(rsp.Data)) { end = uint64(len(rsp.Data)); if offset >= end { continue } }")
	c17Is(cu, "handleVectorDataLoadReturn, else branch, data", last.List[2], "access.Data = rsp.Data[offset:end]")

	var b strings.Builder
	b.WriteString("/-- sign extension on bit patterns: `half` = 2^(w-1) of the source width, `add` = 2^w' - 2^w -/\ndef sext (half add x : Nat) : Nat := if x ≥ half then x + add else x\n\n")
	b.WriteString("/-- computeunit.go `handleVectorDataLoadReturn`: the 32-bit value written to the destination register of a lane, from the bytes `g k` = `rsp.Data[offset+k]` of the response (`offset` = the lane's offset in the cache line), for the opcodes with their own branch `if inst.FormatType == insts.FLAT && inst.Opcode == N`:")
	for i, n := range ops {
		fmt.Fprintf(&b, " %d: `%s`;", n, srcs[i])
	}
	b.WriteString(" `none` = the final else branch, which copies the bytes `rsp.Data[offset:end]` unchanged (`loadReturnRawBytesPerReg`) -/\n")
	b.WriteString("def loadReturn (opcode : Nat) (g : Nat → Nat) : Option Nat :=\n")
	for i, n := range ops {
		fmt.Fprintf(&b, "  if opcode = %d then some (%s) else\n", n, exprs[i])
	}
	b.WriteString("  none\n\n")
	o.c02Raw("loadReturn", b.String())
	o.c02Nats("loadReturnOpcodes", "computeunit.go `handleVectorDataLoadReturn`: the FLAT opcodes with their own branch, in source order", ops)
	o.c02Nat("loadReturnRawBytesPerReg", "computeunit.go `handleVectorDataLoadReturn`, final else branch: `"+c17Flat(endAs)+"` — bytes copied per destination register", perReg)
}

// ---------------------------------------------------------------- (d): SMEM
// c02AndNot emits `x &^ K` (K an integer literal) as `x - (x &&& K)` (exact on Nat for every K).
func c02AndNot(file, where string, t *c17Tr, e ast.Expr) string {
	for {
		p, ok := e.(*ast.ParenExpr)
		if !ok {
			break
		}
		e = p.X
	}
	be, ok := e.(*ast.BinaryExpr)
	if !ok || be.Op != token.AND_NOT {
		c02Refuse(file, "%s: `%s` is not of the shape `x &^ K`", where, c17Flat(e))
	}
	k := c02IntLit(file, where, be.Y)
	x := t.atom(be.X, false)
	return fmt.Sprintf("  %s - (%s &&& %d)", x, x, k)
}

func c02Smem(o *c17Out) {
	const su = "amd/timing/cu/scalarunit.go"
	_, fsu := parseFile(su)
	fd := c10Func(fsu, su, "ScalarUnit", "executeSMEMInst")
	cases, def := c02Switch(fd, su, "inst.Opcode")
	if def == nil || !c02IsPanic(def) {
		c02Refuse(su, "executeSMEMInst: the default clause is not a panic")
	}
	tb := map[int64]int64{}
	for _, c := range cases {
		name, args := c02OneCall(su, "executeSMEMInst", "u", true, c.body)
		if name != "executeSMEMLoad" || len(args) != 1 {
			c02Refuse(su, "executeSMEMInst: `%s` is not `return u.executeSMEMLoad(K)`", c17Flat(c.body[0]))
		}
		v := c02IntLit(su, "executeSMEMInst", args[0])
		for _, op := range c.ops {
			tb[op] = v
		}
	}
	o.c02Pairs("smemTimingBytes", "scalarunit.go `executeSMEMInst`: (opcode, K) of the cases `return u.executeSMEMLoad(K)`, by opcode (any other opcode panics)", c02Sorted(tb))
	fd = c10Func(fsu, su, "ScalarUnit", "executeSMEMLoad")
	c17Is(su, "executeSMEMLoad", fd.Body.List[2], "baseVal := u.toExec.ReadOperand(rawInst.Base, 0)")
	c17Is(su, "executeSMEMLoad", fd.Body.List[3], "offsetVal := u.toExec.ReadOperand(rawInst.Offset, 0)")
	st, tok := c10Assign(fd, su, "start", 0)
	if tok != token.DEFINE {
		c02Refuse(su, "executeSMEMLoad: `start := …` not found")
	}
	c17Is(su, "executeSMEMLoad", fd.Body.List[7], "curr := start")
	c17Is(su, "executeSMEMLoad", fd.Body.List[8], "bytesLeft := uint64(byteSize)")
	o.fn(su, "smemTimingAddr", "scalarunit.go `executeSMEMLoad`: `start := "+c17Flat(st)+"` — the address of the first byte read (`x &^ K` is written `x - (x &&& K)`)",
		c17N("baseVal", "offsetVal"), "Nat", nil, func(t *c17Tr) string { return c02AndNot(su, "executeSMEMLoad, start", t, st) })
	// DstSGPR: `smemDstReg(inst.Data.Register, <dword offset of the chunk>)`; for an SGPR destination
	// smemDstReg returns `insts.SReg(data.RegIndex() + dwordOffset)`, otherwise the register that follows
	// SDATA in the register list (vcc_lo -> vcc_hi, …)
	dst := c10KeyValue(fd, su, "DstSGPR", 0)
	dcall, okc := dst.(*ast.CallExpr)
	if !okc || len(dcall.Args) != 2 || c10Norm(nodeString(dcall.Fun)) != "smemDstReg" ||
		c10Norm(nodeString(dcall.Args[0])) != "inst.Data.Register" || c10Norm(nodeString(dcall.Args[1])) != "int((curr-start)/4)" {
		c02Refuse(su, "executeSMEMLoad: DstSGPR is `%s`, expected `smemDstReg(inst.Data.Register, int((curr-start)/4))`", c17Flat(dst))
	}
	sd := c10Func(fsu, su, "", "smemDstReg")
	sds := c17Stmts(su, "smemDstReg", sd.Body, 2)
	c17Is(su, "smemDstReg", sds[0], "if data.IsSReg() { return insts.SReg(data.RegIndex() + dwordOffset) }")
	c17Is(su, "smemDstReg", sds[1], "return insts.Regs[data.RegType+insts.RegType(dwordOffset)]")
	if len(sd.Type.Params.List) != 2 || nodeString(sd.Type.Params.List[0].Names[0]) != "data" || nodeString(sd.Type.Params.List[1].Names[0]) != "dwordOffset" {
		c02Refuse(su, "smemDstReg: parameters are not (data, dwordOffset)")
	}
	chunkReg, perr := parser.ParseExpr("regIndex + " + nodeString(dcall.Args[1]))
	if perr != nil {
		c02Refuse(su, "executeSMEMLoad: cannot rebuild the SGPR index expression: %v", perr)
	}
	o.ex(su, "smemChunkReg", "scalarunit.go `executeSMEMLoad` + `smemDstReg`, SGPR destination (`regIndex` = `inst.Data.Register.RegIndex()`): the first SGPR of the chunk that starts at `curr` (DstSGPR = `insts.SReg(data.RegIndex() + dwordOffset)` with dwordOffset = `int((curr-start)/4)`)", c17N("regIndex", "curr", "start"), "Nat", nil, chunkReg)
	o.c02Raw("smemDstNonSgpr", fmt.Sprintf("/-- scalarunit.go `smemDstReg`, destination that is not an SGPR (VCC, EXEC, M0 …): the statement that returns the register -/\ndef smemDstNonSgpr : String := %s\n\n", leanStr(c17Flat(sds[1]))))

	for _, a := range []struct{ file, recv, suffix string }{{"amd/emu/alu.go", "ALUImpl", ""}, {"amd/emu/cdna3/sop.go", "ALU", "CDNA3"}} {
		_, f := parseFile(a.file)
		fd = c10Func(f, a.file, a.recv, "runSMEM")
		cases, def = c02Switch(fd, a.file, "inst.Opcode")
		if def == nil || !c02IsPanic(def) {
			c02Refuse(a.file, "runSMEM: the default clause is not a panic")
		}
		eb := map[int64]int64{}
		var addr ast.Expr
		for _, c := range cases {
			name, args := c02OneCall(a.file, "runSMEM", "u", false, c.body)
			if len(args) != 1 || c10Norm(nodeString(args[0])) != "state" {
				c02Refuse(a.file, "runSMEM: `%s` does not pass the state", c17Flat(c.body[0]))
			}
			h := c10Func(f, a.file, a.recv, name)
			hs := c17Stmts(a.file, name, h.Body, 6)
			c17Is(a.file, name, hs[0], "inst := state.Inst()")
			c17Is(a.file, name, hs[1], "base := state.ReadOperand(inst.Base, 0)")
			c17Is(a.file, name, hs[2], "offset := state.ReadOperand(inst.Offset, 0)")
			c17Is(a.file, name, hs[3], "pid := state.PID()")
			c17Is(a.file, name, hs[5], "state.WriteOperandBytes(inst.Data, 0, buf)")
			buf, btok := c10Assign(h, a.file, "buf", 0)
			bc, isCall := buf.(*ast.CallExpr)
			if btok != token.DEFINE || !isCall || c10Norm(nodeString(bc.Fun)) != "u.storageAccessor.Read" || len(bc.Args) != 3 || c10Norm(nodeString(bc.Args[0])) != "pid" {
				c02Refuse(a.file, "%s: `buf := u.storageAccessor.Read(pid, addr, n)` not found", name)
			}
			if addr == nil {
				addr = bc.Args[1]
			} else if c10Norm(nodeString(addr)) != c10Norm(nodeString(bc.Args[1])) {
				c02Refuse(a.file, "%s reads from `%s`, another handler from `%s`", name, c17Flat(bc.Args[1]), c17Flat(addr))
			}
			v := c02IntLit(a.file, name+", byte count", bc.Args[2])
			for _, op := range c.ops {
				eb[op] = v
			}
		}
		if addr == nil {
			c02Refuse(a.file, "runSMEM has no case")
		}
		o.c02Pairs("smemEmuBytes"+a.suffix, a.file+" `runSMEM` + `runSLOADDWORD*`: (opcode, n) with n the byte count of `u.storageAccessor.Read(pid, addr, n)` in the handler of the opcode's case, by opcode (any other opcode panics); the n bytes go to `inst.Data` unchanged", c02Sorted(eb))
		ad := addr
		o.fn(a.file, "smemEmuAddr"+a.suffix, a.file+" `runSLOADDWORD*` (the same text in every handler): the address read, `"+c17Flat(ad)+"`",
			c17N("base", "offset"), "Nat", nil, func(t *c17Tr) string { return c02AndNot(a.file, "runSLOADDWORD*, address", t, ad) })
	}
}

// ---------------------------------------------------------------- (e): SGPR cursor
type c02Cur struct {
	flag  string
	adv   int64
	bytes int64  // bytes written at the cursor (0: nothing is written)
	value string // what is written
}

// c02Cursor walks `SGPRPtr := 0` and the `if co.Flag { … }` statements that follow it. timing: a write is
// `d.cu.SRegFile.Write(RegisterAccess{0, insts.SReg(SGPRPtr / 4), n, 0, wf.SRegOffset, insts.Uint{32,64}ToBytes(v), false})`;
// emulator: `binary.LittleEndian.PutUint{32,64}(wf.SRegFile[SGPRPtr:SGPRPtr+k], v)`.
func c02Cursor(file string, fd *ast.FuncDecl, timing bool) []c02Cur {
	start := -1
	for i, s := range fd.Body.List {
		if c10Norm(nodeString(s)) == "SGPRPtr:=0" {
			if start >= 0 {
				c02Refuse(file, "%s: `SGPRPtr := 0` twice", fd.Name.Name)
			}
			start = i
		}
	}
	if start < 0 {
		c02Refuse(file, "%s: `SGPRPtr := 0` not found", fd.Name.Name)
	}
	var out []c02Cur
	end := len(fd.Body.List)
	for i := start + 1; i < len(fd.Body.List); i++ {
		ci, ok := fd.Body.List[i].(*ast.IfStmt)
		if !ok {
			end = i
			break
		}
		if ci.Init != nil || ci.Else != nil {
			c02Refuse(file, "%s: `%s`: flag test with an init statement or an else branch", fd.Name.Name, c17Flat(ci.Cond))
		}
		cond := c10Norm(nodeString(ci.Cond))
		if !strings.HasPrefix(cond, "co.Enable") {
			c02Refuse(file, "%s: `if %s` is not a test of a code-object enable flag", fd.Name.Name, c17Flat(ci.Cond))
		}
		flag := strings.TrimSuffix(strings.TrimPrefix(cond, "co."), "()")
		for _, r := range flag {
			if !(r >= 'a' && r <= 'z' || r >= 'A' && r <= 'Z' || r >= '0' && r <= '9') {
				c02Refuse(file, "%s: `if %s` is not a test of one enable flag", fd.Name.Name, c17Flat(ci.Cond))
			}
		}
		e := c02Cur{flag: flag}
		locals := map[string]string{}
		for k, s := range ci.Body.List {
			t := c10Norm(nodeString(s))
			switch {
			case strings.HasPrefix(t, "log.Printf("):
			case strings.HasPrefix(t, "SGPRPtr+="):
				if k != len(ci.Body.List)-1 {
					c02Refuse(file, "%s, %s: the cursor is advanced before the end of the branch", fd.Name.Name, flag)
				}
				e.adv = c02IntLit(file, fd.Name.Name+", "+flag, s.(*ast.AssignStmt).Rhs[0])
			case strings.Contains(t, "SGPRPtr") && !strings.HasPrefix(t, "d.cu.SRegFile.Write(") && !strings.HasPrefix(t, "binary.LittleEndian.PutUint"):
				c02Refuse(file, "%s, %s: unexpected use of the cursor: `%s`", fd.Name.Name, flag, c17Flat(s))
			default:
				if as, isAs := s.(*ast.AssignStmt); isAs && as.Tok == token.DEFINE && len(as.Lhs) == 1 && len(as.Rhs) == 1 {
					locals[c10Norm(nodeString(as.Lhs[0]))] = c10Norm(nodeString(as.Rhs[0]))
					continue
				}
				es, isExpr := s.(*ast.ExprStmt)
				var call *ast.CallExpr
				if isExpr {
					call, _ = es.X.(*ast.CallExpr)
				}
				if call == nil || e.bytes != 0 {
					c02Refuse(file, "%s, %s: unexpected statement `%s`", fd.Name.Name, flag, c17Flat(s))
				}
				var val ast.Expr
				if timing {
					if c10Norm(nodeString(call.Fun)) != "d.cu.SRegFile.Write" || len(call.Args) != 1 {
						c02Refuse(file, "%s, %s: `%s` is not a write to the SGPR file", fd.Name.Name, flag, c17Flat(s))
					}
					cl, isCL := call.Args[0].(*ast.CompositeLit)
					if !isCL || c10Norm(nodeString(cl.Type)) != "RegisterAccess" || len(cl.Elts) != 7 {
						c02Refuse(file, "%s, %s: the argument is not `RegisterAccess{…7 positional fields…}`", fd.Name.Name, flag)
					}
					conv, isCall := cl.Elts[5].(*ast.CallExpr)
					if !isCall || len(conv.Args) != 1 {
						c02Refuse(file, "%s, %s: the data is not insts.UintNNToBytes(v)", fd.Name.Name, flag)
					}
					var regs string
					switch c10Norm(nodeString(conv.Fun)) {
					case "insts.Uint64ToBytes":
						e.bytes, regs = 8, "2"
					case "insts.Uint32ToBytes":
						e.bytes, regs = 4, "1"
					default:
						c02Refuse(file, "%s, %s: the data is not insts.UintNNToBytes(v)", fd.Name.Name, flag)
					}
					want := []string{"0", "insts.SReg(SGPRPtr/4)", regs, "0", "wf.SRegOffset", "", "false"}
					for j, w := range want {
						if j != 5 && c10Norm(nodeString(cl.Elts[j])) != w {
							c02Refuse(file, "%s, %s: field %d of the RegisterAccess is `%s`, expected `%s`", fd.Name.Name, flag, j+1, c17Flat(cl.Elts[j]), w)
						}
					}
					val = conv.Args[0]
				} else {
					switch c10Norm(nodeString(call.Fun)) {
					case "binary.LittleEndian.PutUint64":
						e.bytes = 8
					case "binary.LittleEndian.PutUint32":
						e.bytes = 4
					default:
						c02Refuse(file, "%s, %s: `%s` is not binary.LittleEndian.PutUintNN", fd.Name.Name, flag, c17Flat(s))
					}
					if len(call.Args) != 2 || c10Norm(nodeString(call.Args[0])) != fmt.Sprintf("wf.SRegFile[SGPRPtr:SGPRPtr+%d]", e.bytes) {
						c02Refuse(file, "%s, %s: the destination is not `wf.SRegFile[SGPRPtr:SGPRPtr+%d]`", fd.Name.Name, flag, e.bytes)
					}
					val = call.Args[1]
				}
				e.value = c10Norm(nodeString(val))
				if l, isLocal := locals[e.value]; isLocal {
					e.value = l
				}
				for strings.HasPrefix(e.value, "(") && strings.HasSuffix(e.value, ")") && c02Balanced(e.value[1:len(e.value)-1]) {
					e.value = e.value[1 : len(e.value)-1]
				}
			}
		}
		out = append(out, e)
	}
	// nothing after the flag tests touches the cursor
	for _, s := range fd.Body.List[end:] {
		if strings.Contains(c10Norm(nodeString(s)), "SGPRPtr") {
			c02Refuse(file, "%s: the cursor is used after the flag tests: `%s`", fd.Name.Name, c17Flat(s))
		}
	}
	for _, s := range fd.Body.List[:start] {
		if strings.Contains(c10Norm(nodeString(s)), "SRegFile") {
			c02Refuse(file, "%s: the SGPR file is written before the cursor starts: `%s`", fd.Name.Name, c17Flat(s))
		}
	}
	return out
}

func c02Balanced(s string) bool {
	d := 0
	for _, r := range s {
		switch r {
		case '(':
			d++
		case ')':
			d--
			if d < 0 {
				return false
			}
		}
	}
	return d == 0
}

func c02Sgpr(o *c17Out) {
	emit := func(prefix, doc string, cur []c02Cur) {
		q := make([]string, len(cur))
		w := make([]string, len(cur))
		for i, c := range cur {
			q[i] = fmt.Sprintf("(%s, %d)", leanStr(c.flag), c.adv)
			w[i] = fmt.Sprintf("(%s, %d, %s)", leanStr(c.flag), c.bytes, leanStr(c.value))
		}
		o.c02Raw(prefix+"SgprCursor", fmt.Sprintf("/-- %s: the enable flags tested after `SGPRPtr := 0`, in source order, with the number of bytes `SGPRPtr += n` advances the cursor when the flag is set (0: the cursor stays) -/\ndef %sSgprCursor : List (String × Nat) := [%s]\n\n", doc, prefix, strings.Join(q, ", ")))
		o.c02Raw(prefix+"SgprWrites", fmt.Sprintf("/-- %s: (flag, number of bytes written to the SGPRs at the cursor — register SGPRPtr/4 — before it advances, the value written); 0 bytes: nothing is written -/\ndef %sSgprWrites : List (String × Nat × String) := [%s]\n\n", doc, prefix, strings.Join(w, ", ")))
	}
	const wd = "amd/timing/cu/wfdispatcher.go"
	_, fwd := parseFile(wd)
	emit("timing", "wfdispatcher.go `WfDispatcherImpl.initRegisters`", c02Cursor(wd, c10Func(fwd, wd, "WfDispatcherImpl", "initRegisters"), true))
	const ec = "amd/emu/computeunit.go"
	_, fec := parseFile(ec)
	emit("emu", "emu/computeunit.go `ComputeUnit.initWfRegs`", c02Cursor(ec, c10Func(fec, ec, "ComputeUnit", "initWfRegs"), false))
}

// ---------------------------------------------------------------- (f): fetch path constants
// c02SetConst: the only assignment `lhs = <integer literal>` of the function
func c02SetConst(fd *ast.FuncDecl, file, lhs string) int64 {
	n := 0
	var v int64
	ast.Inspect(fd.Body, func(nd ast.Node) bool {
		as, ok := nd.(*ast.AssignStmt)
		if ok && len(as.Lhs) == 1 && len(as.Rhs) == 1 && c10Norm(nodeString(as.Lhs[0])) == lhs {
			n++
			if as.Tok != token.ASSIGN {
				c02Refuse(file, "%s: `%s` is not a plain assignment", fd.Name.Name, c17Flat(as))
			}
			v = c02IntLit(file, fd.Name.Name+", "+lhs, as.Rhs[0])
		}
		return true
	})
	if n != 1 {
		c02Refuse(file, "%s: expected exactly one assignment to `%s`, found %d", fd.Name.Name, lhs, n)
	}
	return v
}

// c02Masks: the right operands of every `x & <integer literal>` of the function
func c02Masks(fd *ast.FuncDecl, file string, want int) []string {
	var out []string
	ast.Inspect(fd.Body, func(nd ast.Node) bool {
		be, ok := nd.(*ast.BinaryExpr)
		if ok && be.Op == token.AND {
			l, isLit := be.Y.(*ast.BasicLit)
			if !isLit || l.Kind != token.INT {
				c02Refuse(file, "%s: `%s`: the mask is not an integer literal", fd.Name.Name, c17Flat(be))
			}
			u, err := strconv.ParseUint(l.Value, 0, 64)
			if err != nil {
				c02Refuse(file, "%s: mask `%s`", fd.Name.Name, l.Value)
			}
			out = append(out, fmt.Sprint(u))
		}
		return true
	})
	if len(out) != want {
		c02Refuse(file, "%s: expected %d masks `x & K`, found %d", fd.Name.Name, want, len(out))
	}
	return out
}

func c02Fetch(o *c17Out) {
	const cb = "amd/timing/cu/cubuilder.go"
	_, fcb := parseFile(cb)
	fd := c10Func(fcb, cb, "", "MakeBuilder")
	o.c02Nat("cuLog2CachelineSize", "cubuilder.go `MakeBuilder`: `b.log2CachelineSize = …`", c02SetConst(fd, cb, "b.log2CachelineSize"))
	fd = c10Func(fcb, cb, "Builder", "WithLog2CachelineSize")
	st := c17Stmts(cb, "WithLog2CachelineSize", fd.Body, 2)
	c17Is(cb, "WithLog2CachelineSize", st[0], "b.log2CachelineSize = n")
	c17Is(cb, "WithLog2CachelineSize", st[1], "return b")
	var wiring []string
	fd = c10Func(fcb, cb, "Builder", "equipVectorMemoryUnit")
	wiring = append(wiring, "coalescer.log2CacheLineSize="+nodeString(c10KeyValue(fd, cb, "log2CacheLineSize", 0)))
	fd = c10Func(fcb, cb, "Builder", "equipScalarUnits")
	e, _ := c10Assign(fd, cb, "scalarUnit.log2CachelineSize", 0)
	wiring = append(wiring, "scalarUnit.log2CachelineSize="+nodeString(e))
	o.strs("cachelineWiring", "cubuilder.go `equipVectorMemoryUnit` / `equipScalarUnits`: where the coalescer and the scalar unit get their line size from", wiring)
	fd = c10Func(fcb, cb, "Builder", "equipScheduler")
	o.c02Nat("instBufByteSize", "cubuilder.go `equipScheduler`: `fetchArbitor.InstBufByteSize = …`", c02SetConst(fd, cb, "fetchArbitor.InstBufByteSize"))
	if c10Norm(nodeString(c10Call(fd, cb, "NewScheduler", 0)[1])) != "fetchArbitor" {
		c02Refuse(cb, "equipScheduler: the fetch arbiter given to NewScheduler is not `fetchArbitor`")
	}

	// the shipped platforms
	var pk, pv []string
	for _, p := range []string{"r9nano", "mi300a", "shaderarray"} {
		file := "amd/samples/runner/timingconfig/" + p + "/builder.go"
		_, f := parseFile(file)
		fd = c10Func(f, file, "", "MakeBuilder")
		ks, vs := c17KVs(file, "MakeBuilder", c17Literal(file, fd))
		found := false
		for i, k := range ks {
			if k == "log2CacheLineSize" {
				pk, pv = append(pk, p), append(pv, fmt.Sprint(c02IntLit(file, "MakeBuilder, log2CacheLineSize", vs[i])))
				found = true
			}
		}
		if !found {
			c02Refuse(file, "MakeBuilder: no default for log2CacheLineSize")
		}
	}
	o.pairsNat("platformLog2CacheLineSize", "timingconfig/{r9nano,mi300a,shaderarray}/builder.go `MakeBuilder`: the default `log2CacheLineSize` (shaderarray passes it to `cu.Builder.WithLog2CachelineSize`, the GPU builders pass theirs to the shader arrays)", pk, pv)

	const fa = "amd/timing/cu/fetcharbiter.go"
	_, ffa := parseFile(fa)
	fd = c10Func(ffa, fa, "FetchArbiter", "canFetchFromWF")
	var refuse []string
	var full ast.Expr
	for _, s := range fd.Body.List {
		ci, ok := s.(*ast.IfStmt)
		if !ok {
			continue
		}
		if len(ci.Body.List) == 1 && c10Norm(nodeString(ci.Body.List[0])) == "returnfalse" && ci.Else == nil {
			refuse = append(refuse, c10Norm(nodeString(ci.Cond)))
			if strings.Contains(c10Norm(nodeString(ci.Cond)), "InstBufByteSize") {
				if full != nil {
					c02Refuse(fa, "canFetchFromWF: two tests of InstBufByteSize")
				}
				full = ci.Cond
			}
		}
	}
	if full == nil {
		c02Refuse(fa, "canFetchFromWF: no `if … InstBufByteSize … { return false }`")
	}
	o.strs("fetchRefusals", "fetcharbiter.go `canFetchFromWF`: the conditions of the top-level `if c { return false }`, in source order (a later `if` that only contains such a return is not listed)", refuse)
	o.ex(fa, "fetchBufferFull", "fetcharbiter.go `canFetchFromWF`: no fetch when", c17N("instBuffer_len", "instBufByteSize"), "Bool", nil, full)

	const sc = "amd/timing/cu/scheduler.go"
	_, fsc := parseFile(sc)
	pcCall := map[string]string{"wf.PC()": "pc", "u.toWrite.PC()": "pc"}
	fd = c10Func(fsc, sc, "SchedulerImpl", "DoFetch")
	masks := c02Masks(fd, sc, 2)
	e, _ = c10Assign(fd, sc, "wf.InstBufferStartPC", 0)
	o.ex(sc, "fetchResync", "scheduler.go `DoFetch`: with an empty instruction buffer, InstBufferStartPC becomes", c17N("pc"), "Nat", pcCall, e)
	a0, t0 := c10Assign(fd, sc, "addr", 0)
	a1, t1 := c10Assign(fd, sc, "addr", 1)
	if t0 != token.DEFINE || t1 != token.ASSIGN {
		c02Refuse(sc, "DoFetch: `addr := …; addr = …` not found")
	}
	o.fn(sc, "fetchAddr", "scheduler.go `DoFetch`: the address fetched: `addr := "+c17Flat(a0)+"`; `addr = "+c17Flat(a1)+"`", c17N("instBufferStartPC", "instBuffer_len"), "Nat", nil, func(t *c17Tr) string {
		l, _ := t.expr(a0)
		t.bound["addr"] = true
		r, _ := t.expr(a1)
		return "  let addr := " + l + "\n  " + r
	})
	if c10Norm(nodeString(c02Method(fd, sc, "WithAddress")[0])) != "addr" {
		c02Refuse(sc, "DoFetch: the request is not for `addr`")
	}
	bs := c02Method(fd, sc, "WithByteSize")
	o.c02Nat("fetchBytes", "scheduler.go `DoFetch`: `WithByteSize(…)` of the fetch request", c02IntLit(sc, "DoFetch, WithByteSize", bs[0]))
	ia, _ := c10Assign(fd, sc, "info.Address", 0)
	if c10Norm(nodeString(ia)) != "addr" {
		c02Refuse(sc, "DoFetch: info.Address is not `addr`")
	}

	fd = c10Func(fsc, sc, "SchedulerImpl", "DecodeNextInst")
	masks = append(masks, c02Masks(fd, sc, 1)...)
	e, _ = c10Assign(fd, sc, "wf.InstBufferStartPC", 0)
	o.ex(sc, "decodeResync", "scheduler.go `DecodeNextInst`: with an empty instruction buffer, InstBufferStartPC becomes", c17N("pc"), "Nat", pcCall, e)
	var skips []string
	var inner *ast.RangeStmt
	ast.Inspect(fd.Body, func(nd ast.Node) bool {
		if r, ok := nd.(*ast.RangeStmt); ok && c10Norm(nodeString(r.X)) == "wfPool.wfs" {
			inner = r
		}
		return true
	})
	if inner == nil {
		c02Refuse(sc, "DecodeNextInst: `for _, wf := range wfPool.wfs` not found")
	}
	for _, s := range inner.Body.List {
		if ci, ok := s.(*ast.IfStmt); ok && ci.Else == nil && len(ci.Body.List) >= 1 && c10Norm(nodeString(ci.Body.List[len(ci.Body.List)-1])) == "continue" {
			skips = append(skips, c10Norm(nodeString(ci.Cond)))
		}
	}
	o.strs("decodeSkips", "scheduler.go `DecodeNextInst`: the conditions under which a wavefront is skipped (`if c { …; continue }`), in source order; then the decoder runs on `decodeFrom`", skips)
	dargs := c10Call(fd, sc, "s.cu.Decoder.Decode", 0)
	sl, ok := dargs[0].(*ast.SliceExpr)
	if !ok || c10Norm(nodeString(sl.X)) != "wf.InstBuffer" || sl.High != nil || sl.Low == nil {
		c02Refuse(sc, "DecodeNextInst: the decoder does not get `wf.InstBuffer[low:]`")
	}
	o.ex(sc, "decodeFrom", "scheduler.go `DecodeNextInst`: the decoder reads the instruction buffer from index", c17N("pc", "instBufferStartPC"), "Nat", pcCall, sl.Low)
	fd = c10Func(fsc, sc, "SchedulerImpl", "wfHasAtLeast4BytesInInstBuffer")
	c17Stmts(sc, "wfHasAtLeast4BytesInInstBuffer", fd.Body, 1)
	be, ok := c10Return(fd, sc, 0).(*ast.BinaryExpr)
	okShape := ok && be.Op == token.GEQ
	var low ast.Expr
	if okShape {
		call, isCall := be.X.(*ast.CallExpr)
		okShape = isCall && c10Norm(nodeString(call.Fun)) == "len" && len(call.Args) == 1
		if okShape {
			s2, isSl := call.Args[0].(*ast.SliceExpr)
			okShape = isSl && c10Norm(nodeString(s2.X)) == "wf.InstBuffer" && s2.High == nil && s2.Low != nil
			if okShape {
				low = s2.Low
			}
		}
	}
	if !okShape {
		c02Refuse(sc, "wfHasAtLeast4BytesInInstBuffer: not `return len(wf.InstBuffer[low:]) >= K`")
	}
	minBytes := c02IntLit(sc, "wfHasAtLeast4BytesInInstBuffer", be.Y)
	o.c02Nat("decodeMinBytes", "scheduler.go `wfHasAtLeast4BytesInInstBuffer`: the K of `"+c17Flat(be)+"`", minBytes)
	o.fn(sc, "decodeHasBytes", "scheduler.go `wfHasAtLeast4BytesInInstBuffer`: `"+c17Flat(be)+"` (the length of `b[low:]` is `len(b) - low`; Go panics when low > len(b))",
		c17N("instBuffer_len", "pc", "instBufferStartPC"), "Bool", pcCall, func(t *c17Tr) string {
			t.param("instBuffer_len")
			return fmt.Sprintf("  decide (instBuffer_len - %s ≥ %d)", t.atom(low, false), minBytes)
		})
	fd = c10Func(fsc, sc, "", "NewScheduler")
	o.c02Nat("barrierBufferSize", "scheduler.go `NewScheduler`: `s.barrierBufferSize = …`", c02SetConst(fd, sc, "s.barrierBufferSize"))

	const bu = "amd/timing/cu/branchunit.go"
	_, fbu := parseFile(bu)
	fd = c10Func(fbu, bu, "BranchUnit", "runWriteStage")
	masks = append(masks, c02Masks(fd, bu, 1)...)
	var bw []string
	for _, s := range fd.Body.List {
		t := c10Norm(nodeString(s))
		if strings.Contains(t, "InstBuffer") || strings.Contains(t, "UpdatePCAndSetReady") {
			bw = append(bw, t)
		}
	}
	o.strs("branchWriteStage", "branchunit.go `runWriteStage`: the statements that touch the instruction buffer or the PC, in source order", bw)
	o.c02Raw("lineMasks", fmt.Sprintf("/-- the constant K of every `x & K` in scheduler.go `DoFetch` (2), `DecodeNextInst` (1) and branchunit.go `runWriteStage` (1) -/\ndef lineMasks : List Nat := [%s]\n\n", strings.Join(masks, ", ")))

	const cu = "amd/timing/cu/computeunit.go"
	_, fcu := parseFile(cu)
	fd = c10Func(fcu, cu, "ComputeUnit", "removeStaleInstBuffer")
	guard := c17If(cu, "removeStaleInstBuffer", c17Stmts(cu, "removeStaleInstBuffer", fd.Body, 1)[0])
	if guard.Else != nil || c10Norm(nodeString(guard.Cond)) != "len(wf.InstBuffer)!=0" {
		c02Refuse(cu, "removeStaleInstBuffer: not `if len(wf.InstBuffer) != 0 { for … }`")
	}
	fr, isFor := c17Stmts(cu, "removeStaleInstBuffer, guard", guard.Body, 1)[0].(*ast.ForStmt)
	if !isFor || fr.Init != nil || fr.Post != nil || fr.Cond == nil {
		c02Refuse(cu, "removeStaleInstBuffer: the loop is not `for cond { … }`")
	}
	o.ex(cu, "staleCond", "computeunit.go `removeStaleInstBuffer` (`if len(wf.InstBuffer) != 0 { for cond { … } }`): the loop continues while", c17N("pc", "instBufferStartPC"), "Bool", pcCall, fr.Cond)
	ls := c17Stmts(cu, "removeStaleInstBuffer, loop", fr.Body, 2)
	as0, ok0 := ls[0].(*ast.AssignStmt)
	as1, ok1 := ls[1].(*ast.AssignStmt)
	if !ok0 || !ok1 || as0.Tok != token.ASSIGN || as1.Tok != token.ADD_ASSIGN || c10Norm(nodeString(as0.Lhs[0])) != "wf.InstBuffer" || c10Norm(nodeString(as1.Lhs[0])) != "wf.InstBufferStartPC" {
		c02Refuse(cu, "removeStaleInstBuffer: the loop body is not `wf.InstBuffer = wf.InstBuffer[K:]; wf.InstBufferStartPC += K`")
	}
	s3, isSl := as0.Rhs[0].(*ast.SliceExpr)
	if !isSl || c10Norm(nodeString(s3.X)) != "wf.InstBuffer" || s3.High != nil || s3.Low == nil {
		c02Refuse(cu, "removeStaleInstBuffer: `%s` is not `wf.InstBuffer[K:]`", c17Flat(as0.Rhs[0]))
	}
	o.c02Nat("staleDrop", "computeunit.go `removeStaleInstBuffer`: `"+c17Flat(ls[0])+"` — bytes dropped per iteration", c02IntLit(cu, "removeStaleInstBuffer", s3.Low))
	o.c02Nat("staleStep", "computeunit.go `removeStaleInstBuffer`: `"+c17Flat(ls[1])+"`", c02IntLit(cu, "removeStaleInstBuffer", as1.Rhs[0]))
	fd = c10Func(fcu, cu, "ComputeUnit", "handleFetchReturn")
	var app *ast.IfStmt
	for _, s := range fd.Body.List {
		if ci, isIf := s.(*ast.IfStmt); isIf && len(ci.Body.List) == 1 && c10Norm(nodeString(ci.Body.List[0])) == "wf.InstBuffer=append(wf.InstBuffer,rsp.Data...)" {
			if app != nil {
				c02Refuse(cu, "handleFetchReturn: the buffer is appended to twice")
			}
			app = ci
		}
	}
	if app == nil || app.Else != nil {
		c02Refuse(cu, "handleFetchReturn: `if c { wf.InstBuffer = append(wf.InstBuffer, rsp.Data...) }` not found")
	}
	o.ex(cu, "fetchAppendCond", "computeunit.go `handleFetchReturn`: the returned line is appended to the instruction buffer when (`addr` = the address the request was sent for, `info.Address`)",
		c17N("addr", "instBufferStartPC", "instBuffer_len"), "Bool", nil, app.Cond)
	fd = c10Func(fcu, cu, "ComputeUnit", "UpdatePCAndSetReady")
	st = c17Stmts(cu, "UpdatePCAndSetReady", fd.Body, 2)
	c17Is(cu, "UpdatePCAndSetReady", st[0], "wf.SetPC(wf.PC() + uint64(wf.Inst().ByteSize))")
	c17Is(cu, "UpdatePCAndSetReady", st[1], "cu.SetReady(wf)")
	fd = c10Func(fcu, cu, "ComputeUnit", "SetReady")
	st = c17Stmts(cu, "SetReady", fd.Body, 2)
	c17Is(cu, "SetReady", st[0], "wf.State = wavefront.WfReady")
	c17Is(cu, "SetReady", st[1], "cu.removeStaleInstBuffer(wf)")
}

// c02Method: the arguments of the only call `….name(args)` of the function (one argument)
func c02Method(fd *ast.FuncDecl, file, name string) []ast.Expr {
	var out []ast.Expr
	n := 0
	ast.Inspect(fd.Body, func(nd ast.Node) bool {
		c, ok := nd.(*ast.CallExpr)
		if !ok {
			return true
		}
		if s, isSel := c.Fun.(*ast.SelectorExpr); isSel && s.Sel.Name == name {
			n++
			out = c.Args
		}
		return true
	})
	if n != 1 || len(out) != 1 {
		c02Refuse(file, "%s: expected exactly one call `.%s(x)`, found %d", fd.Name.Name, name, n)
	}
	return out
}

// ---------------------------------------------------------------- (g): instructions executed inside the scheduler
// c02IntExpr: comparisons (`>`, `<`, `>=`, `<=`, `==`, `!=`) of fields / integer literals joined by `||` / `&&`, on Int.
func c02IntExpr(file, where string, e ast.Expr, params *[]string) string {
	switch x := e.(type) {
	case *ast.ParenExpr:
		return c02IntExpr(file, where, x.X, params)
	case *ast.BinaryExpr:
		switch x.Op {
		case token.LOR, token.LAND:
			op := map[token.Token]string{token.LOR: "||", token.LAND: "&&"}[x.Op]
			return "(" + c02IntExpr(file, where, x.X, params) + " " + op + " " + c02IntExpr(file, where, x.Y, params) + ")"
		case token.GTR, token.LSS, token.GEQ, token.LEQ, token.EQL, token.NEQ:
			op := map[token.Token]string{token.GTR: ">", token.LSS: "<", token.GEQ: "≥", token.LEQ: "≤", token.EQL: "=", token.NEQ: "≠"}[x.Op]
			side := func(y ast.Expr) string {
				switch v := y.(type) {
				case *ast.BasicLit:
					if v.Kind == token.INT {
						return v.Value
					}
				case *ast.SelectorExpr:
					if _, isID := v.X.(*ast.Ident); isID {
						n := c17Lower(v.Sel.Name)
						seen := false
						for _, p := range *params {
							seen = seen || p == n
						}
						if !seen {
							*params = append(*params, n)
						}
						return n
					}
				}
				c02Refuse(file, "%s: operand `%s` is neither `x.Field` nor an integer literal", where, c17Flat(y))
				return ""
			}
			return "decide (" + side(x.X) + " " + op + " " + side(x.Y) + ")"
		}
	}
	c02Refuse(file, "%s: unsupported condition `%s`", where, c17Flat(e))
	return ""
}

func c02Internal(o *c17Out) {
	const sc = "amd/timing/cu/scheduler.go"
	_, f := parseFile(sc)
	fd := c10Func(f, sc, "SchedulerImpl", "EvaluateInternalInst")
	cases, def := c02Switch(fd, sc, "executing.Inst().Opcode")
	var ops []int64
	var hs []string
	for _, c := range cases {
		if len(c.body) != 1 {
			c02Refuse(sc, "EvaluateInternalInst: the case of opcode %v is not one assignment", c.ops)
		}
		as, ok := c.body[0].(*ast.AssignStmt)
		if !ok || len(as.Rhs) != 1 {
			c02Refuse(sc, "EvaluateInternalInst: `%s`", c17Flat(c.body[0]))
		}
		call, isCall := as.Rhs[0].(*ast.CallExpr)
		if !isCall || len(call.Args) != 1 || c10Norm(nodeString(call.Args[0])) != "executing" || !strings.HasPrefix(c10Norm(nodeString(call.Fun)), "s.") {
			c02Refuse(sc, "EvaluateInternalInst: `%s` is not `… = s.evalX(executing)`", c17Flat(c.body[0]))
		}
		for _, op := range c.ops {
			ops, hs = append(ops, op), append(hs, strings.TrimPrefix(c10Norm(nodeString(call.Fun)), "s."))
		}
	}
	if len(def) != 3 {
		c02Refuse(sc, "EvaluateInternalInst: the default clause does not have 3 statements")
	}
	c17Is(sc, "EvaluateInternalInst, default", def[0], "s.cu.UpdatePCAndSetReady(executing)")
	c17Is(sc, "EvaluateInternalInst, default", def[1], "instProgress = true")
	c17Is(sc, "EvaluateInternalInst, default", def[2], "instCompleted = true")
	o.c02Nats("internalOpcodes", "scheduler.go `EvaluateInternalInst`: the SOPP opcodes with their own case, in source order; every other instruction issued to the scheduler itself (`default:`) completes at once: `s.cu.UpdatePCAndSetReady(executing)`", ops)
	o.c02NatStr("internalHandlers", "scheduler.go `EvaluateInternalInst`: (opcode, the method its case calls)", ops, hs)

	fd = c10Func(f, sc, "SchedulerImpl", "evalSWaitCnt")
	st := c17Stmts(sc, "evalSWaitCnt", fd.Body, 6)
	c17Is(sc, "evalSWaitCnt", st[0], "done := true")
	c17Is(sc, "evalSWaitCnt", st[1], "inst := wf.Inst()")
	var params []string
	var conj, src []string
	for _, s := range st[2:4] {
		ci := c17If(sc, "evalSWaitCnt", s)
		if ci.Else != nil {
			c02Refuse(sc, "evalSWaitCnt: `%s` has an else branch", c17Flat(ci.Cond))
		}
		c17Is(sc, "evalSWaitCnt", c17Stmts(sc, "evalSWaitCnt", ci.Body, 1)[0], "done = false")
		conj = append(conj, "!"+c02IntExprAtom(c02IntExpr(sc, "evalSWaitCnt", ci.Cond, &params)))
		src = append(src, "`if "+c17Flat(ci.Cond)+" { done = false }`")
	}
	c17Is(sc, "evalSWaitCnt", st[4], "if done { s.cu.UpdatePCAndSetReady(wf); return true, true }")
	c17Is(sc, "evalSWaitCnt", st[5], "return false, false")
	sig := func(ps []string) string {
		q := make([]string, len(ps))
		for i, p := range ps {
			q[i] = "(" + p + " : Int)"
		}
		return strings.Join(q, " ")
	}
	o.c02Raw("waitDone", fmt.Sprintf("/-- scheduler.go `evalSWaitCnt`: `done := true`; %s; `if done { s.cu.UpdatePCAndSetReady(wf); return true, true }` — the s_waitcnt completes exactly when this is true (Go `int`s) -/\ndef waitDone %s : Bool :=\n  (%s)\n\n",
		strings.Join(src, "; "), sig(params), strings.Join(conj, " && ")))

	fd = c10Func(f, sc, "SchedulerImpl", "evalSEndPgm")
	first := c17If(sc, "evalSEndPgm, first statement", fd.Body.List[0])
	c17Is(sc, "evalSEndPgm, first statement", c17Stmts(sc, "evalSEndPgm, first statement", first.Body, 1)[0], "return false, false, false")
	params = nil
	body := c02IntExpr(sc, "evalSEndPgm", first.Cond, &params)
	o.c02Raw("endpgmBlocked", fmt.Sprintf("/-- scheduler.go `evalSEndPgm`, first statement: `if %s { return false, false, false }` — the s_endpgm makes no progress while this is true (Go `int`s) -/\ndef endpgmBlocked %s : Bool :=\n  %s\n\n",
		c17Flat(first.Cond), sig(params), body))
}

func c02IntExprAtom(s string) string {
	if strings.HasPrefix(s, "decide ") {
		return "(" + s + ")"
	}
	return s
}

// ---------------------------------------------------------------- (h): command processor
// c02RangeGroups: the top-level loops `for _, port := range m.G { m.call(port) }`, in source order
func c02RangeGroups(fd *ast.FuncDecl, file, call string) []string {
	var out []string
	for _, s := range fd.Body.List {
		r, ok := s.(*ast.RangeStmt)
		if !ok {
			continue
		}
		x := c10Norm(nodeString(r.X))
		if len(r.Body.List) != 1 || c10Norm(nodeString(r.Body.List[0])) != "m."+call+"(port)" {
			if strings.Contains(x, "Cache") {
				c02Refuse(file, "%s: the loop over %s is not `{ m.%s(port) }`", fd.Name.Name, x, call)
			}
			continue
		}
		if !strings.HasPrefix(x, "m.") || c10Norm(nodeString(r.Value)) != "port" {
			c02Refuse(file, "%s: loop header `%s`", fd.Name.Name, c17Flat(r.X))
		}
		out = append(out, strings.TrimPrefix(x, "m."))
	}
	n := 0
	ast.Inspect(fd.Body, func(nd ast.Node) bool {
		if c, ok := nd.(*ast.CallExpr); ok && c10Norm(nodeString(c.Fun)) == "m."+call {
			n++
		}
		return true
	})
	if n != len(out) || n == 0 {
		c02Refuse(file, "%s: %d calls of m.%s, %d of them in top-level loops over a port group", fd.Name.Name, n, call, len(out))
	}
	return out
}

// c02Guards: the top-level `if c { return v }` statements, in source order, as (c, v)
func c02Guards(fd *ast.FuncDecl) ([]string, []string) {
	var ks, vs []string
	for _, s := range fd.Body.List {
		ci, ok := s.(*ast.IfStmt)
		if !ok || ci.Else != nil || ci.Init != nil || len(ci.Body.List) == 0 {
			continue
		}
		r, isRet := ci.Body.List[len(ci.Body.List)-1].(*ast.ReturnStmt)
		if !isRet || len(r.Results) != 1 {
			continue
		}
		v := c10Norm(nodeString(r.Results[0]))
		if len(ci.Body.List) > 1 {
			var pre []string
			for _, p := range ci.Body.List[:len(ci.Body.List)-1] {
				pre = append(pre, c10Norm(nodeString(p)))
			}
			v = strings.Join(pre, ";") + ";return " + v
		}
		ks, vs = append(ks, c10Norm(nodeString(ci.Cond))), append(vs, v)
	}
	return ks, vs
}

func c02Cp(o *c17Out) {
	const cp = "amd/timing/cp/cpMiddleware.go"
	_, f := parseFile(cp)
	fd := c10Func(f, cp, "cpMiddleware", "processFlushReq")
	o.strs("flushGroups", "cpMiddleware.go `processFlushReq`: the port groups G of the loops `for _, port := range m.G { m.flushCache(port) }`, in source order", c02RangeGroups(fd, cp, "flushCache"))
	ks, vs := c02Guards(fd)
	o.pairsStr("flushGuards", "cpMiddleware.go `processFlushReq`: the top-level statements `if c { return v }`, in source order, as (c, v)", ks, vs)

	var inv *ast.FuncDecl
	for _, d := range f.Decls {
		if x, ok := d.(*ast.FuncDecl); ok && x.Name.Name == "invalidateL1CachesBeforeKernel" && x.Body != nil {
			inv = x
		}
	}
	if inv == nil {
		fmt.Println("NOTE c02: amd/timing/cp/cpMiddleware.go has no invalidateL1CachesBeforeKernel: invalidateGroups / invalidateGuards / launchGuards are not generated")
		o.b.WriteString("-- cpMiddleware.go has no `invalidateL1CachesBeforeKernel`: `invalidateGroups`, `invalidateGuards`, `launchGuards` are not generated\n\n")
		return
	}
	o.strs("invalidateGroups", "cpMiddleware.go `invalidateL1CachesBeforeKernel`: the port groups G of the loops `for _, port := range m.G { m.invalidateCache(port) }`, in source order", c02RangeGroups(inv, cp, "invalidateCache"))
	ks, vs = c02Guards(inv)
	o.pairsStr("invalidateGuards", "cpMiddleware.go `invalidateL1CachesBeforeKernel`: the top-level statements `if c { …; return v }`, in source order, as (c, what the branch does); the loop `for _, d := range m.Dispatchers { if d.IsDispatching() { return false } }` stands between the first and the port loops (`invalidateBusyCheck`); the function ends with `m.l1InvalidatedFor = req; return true`", ks, vs)
	var busy []string
	for _, s := range inv.Body.List {
		if r, ok := s.(*ast.RangeStmt); ok && c10Norm(nodeString(r.X)) == "m.Dispatchers" {
			busy = append(busy, c10Norm(nodeString(r.Body)))
		}
	}
	o.strs("invalidateBusyCheck", "cpMiddleware.go `invalidateL1CachesBeforeKernel`: the body of `for _, d := range m.Dispatchers`", busy)
	last := inv.Body.List[len(inv.Body.List)-2:]
	c17Is(cp, "invalidateL1CachesBeforeKernel, end", last[0], "m.l1InvalidatedFor = req")
	c17Is(cp, "invalidateL1CachesBeforeKernel, end", last[1], "return true")
	fd = c10Func(f, cp, "cpMiddleware", "invalidateCache")
	n := 0
	ast.Inspect(fd.Body, func(nd ast.Node) bool {
		if s, ok := nd.(*ast.SelectorExpr); ok && s.Sel.Name == "InvalidateAllCacheLines" {
			n++
		}
		return true
	})
	inc := false
	for _, s := range fd.Body.List {
		inc = inc || c10Norm(nodeString(s)) == "m.numCacheACK++"
	}
	if n != 1 || !inc {
		c02Refuse(cp, "invalidateCache: not one `.InvalidateAllCacheLines()` request with `m.numCacheACK++`")
	}
	fd = c10Func(f, cp, "cpMiddleware", "processLaunchKernelReq")
	ks, vs = c02Guards(fd)
	o.pairsStr("launchGuards", "cpMiddleware.go `processLaunchKernelReq`: the top-level statements `if c { return v }`, in source order, as (c, v) (`d := m.findAvailableDispatcher()` precedes them; `d.StartDispatching(req)` follows)", ks, vs)
}
