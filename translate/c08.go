package main

import (
	"fmt"
	"go/ast"
	"go/token"
	"strings"
)

// genC08 (property C08) reads the table-like / straight-line parts of the code that partitions a
// dispatch grid and tells a wavefront about the geometry, and writes them as Lean definitions
// (lean/MgpuModel/Gen/C08Geo.lean):
//
//   - amd/kernels/gridbuilder.go: numWGInDim, the flattened in-group id / wavefront base / mask bit of
//     formWavefronts, the wavefront size;
//   - amd/driver/driver.go: numWGInDim, wgPerCU of distributeWGToGPUs, the flattened work-group id of
//     the filter closure;
//   - amd/timing/cp/internal/dispatching/partition.go: the partition size and the Skip argument of
//     StartNewKernel;
//   - amd/emu/computeunit.go (initWfRegs) and amd/timing/cu/wfdispatcher.go (initRegisters): the chain of
//     `if co.Enable… { … SGPRPtr += n }` blocks (flag, cursor step, whether the block writes a
//     register), the work-group-count expression, the lane-id formulas x, y, z and the shifts of the
//     V5 packing;
//   - amd/benchmarks/dnn/gputensor/cdna3_kernargs.go: the fields of CDNA3HiddenArgs with their byte
//     sizes, block count and remainder of newCDNA3HiddenArgs;
//   - amd/kernels/hsakerneldispatchpacket.go: the fields of HsaKernelDispatchPacket with their sizes.
//
// MgpuProofs/Props/C08Tie.lean proves that the hand-written model uses exactly these values and
// expressions: a changed constant, field or formula breaks a proof obligation, not only the sampled
// correspondence. Unknown shapes are refused (non-zero exit = broken tie).
func init() { extraGens = append(extraGens, gen{"c08", genC08}) }

type c08Tr struct {
	file   string
	params []string
	seen   map[string]bool
}

func (t *c08Tr) param(name string) string {
	if !t.seen[name] {
		t.seen[name] = true
		t.params = append(t.params, name)
	}
	return name
}

// expr: integer expression → Lean Nat expression, every binary operation parenthesised; conversions
// are dropped (the widths are the model's business: see the doc strings), `x.f` reads f.
func (t *c08Tr) expr(e ast.Expr) string {
	switch x := e.(type) {
	case *ast.BasicLit:
		if x.Kind == token.INT {
			return x.Value
		}
	case *ast.Ident:
		return t.param(x.Name)
	case *ast.ParenExpr:
		return t.expr(x.X)
	case *ast.SelectorExpr:
		return t.param(x.Sel.Name)
	case *ast.CallExpr:
		if id, ok := x.Fun.(*ast.Ident); ok && len(x.Args) == 1 {
			switch id.Name {
			case "uint64", "int", "uint32", "int64", "uint16", "uint":
				return t.expr(x.Args[0])
			case "len":
				if sel, ok := x.Args[0].(*ast.SelectorExpr); ok {
					return t.param(sel.Sel.Name)
				}
			}
		}
	case *ast.BinaryExpr:
		a, b := t.expr(x.X), t.expr(x.Y)
		op := map[token.Token]string{token.ADD: "+", token.SUB: "-", token.MUL: "*", token.QUO: "/", token.REM: "%",
			token.SHL: "<<<", token.OR: "|||"}[x.Op]
		if op != "" {
			return "(" + a + " " + op + " " + b + ")"
		}
	}
	fatalf("c08: %s: unsupported expression `%s`", t.file, nodeString(e))
	return ""
}

type c08Out struct {
	b     strings.Builder
	names map[string]bool
}

func (o *c08Out) name(n string) {
	if o.names[n] {
		fatalf("c08: duplicate definition %s", n)
	}
	o.names[n] = true
}

func (o *c08Out) def(file, name, doc string, e ast.Expr, wantParams ...string) {
	o.name(name)
	t := &c08Tr{file: file, seen: map[string]bool{}}
	body := t.expr(e)
	if len(wantParams) > 0 && strings.Join(t.params, " ") != strings.Join(wantParams, " ") {
		fatalf("c08: %s: %s: the variables of `%s` are %v, expected %v", file, name, nodeString(e), t.params, wantParams)
	}
	fmt.Fprintf(&o.b, "/-- %s: %s: `%s` -/\n", file, doc, strings.ReplaceAll(nodeString(e), "\n", " "))
	if len(t.params) == 0 {
		fmt.Fprintf(&o.b, "def %s : Nat := %s\n\n", name, body)
	} else {
		fmt.Fprintf(&o.b, "def %s (%s : Nat) : Nat := %s\n\n", name, strings.Join(t.params, " "), body)
	}
}

func (o *c08Out) num(name, doc string, v int64) {
	o.name(name)
	fmt.Fprintf(&o.b, "/-- %s -/\ndef %s : Nat := %d\n\n", doc, name, v)
}

// c08Struct: field names and byte sizes of a struct of fixed-width integers / byte arrays, in
// declaration order (what binary.Write serialises)
func c08Struct(f *ast.File, file, name string) [][2]string {
	for _, d := range f.Decls {
		gd, ok := d.(*ast.GenDecl)
		if !ok || gd.Tok != token.TYPE {
			continue
		}
		for _, s := range gd.Specs {
			ts := s.(*ast.TypeSpec)
			st, ok := ts.Type.(*ast.StructType)
			if !ok || ts.Name.Name != name {
				continue
			}
			var out [][2]string
			for _, fl := range st.Fields.List {
				size := ""
				switch tp := fl.Type.(type) {
				case *ast.Ident:
					size = map[string]string{"uint8": "1", "int8": "1", "uint16": "2", "int16": "2", "uint32": "4", "int32": "4",
						"uint64": "8", "int64": "8"}[tp.Name]
				case *ast.ArrayType:
					if el, ok := tp.Elt.(*ast.Ident); ok && (el.Name == "byte" || el.Name == "uint8") && tp.Len != nil {
						if n, ok := constInt(tp.Len, nil); ok {
							size = fmt.Sprint(n)
						}
					}
				}
				if size == "" || len(fl.Names) == 0 {
					fatalf("c08: %s: struct %s: field `%s` has a type this translator cannot size", file, name, nodeString(fl))
				}
				for _, n := range fl.Names {
					out = append(out, [2]string{n.Name, size})
				}
			}
			return out
		}
	}
	fatalf("c08: %s: struct %s not found", file, name)
	return nil
}

func (o *c08Out) layout(name, doc string, fs [][2]string) {
	o.name(name)
	parts := make([]string, len(fs))
	for i, f := range fs {
		parts[i] = fmt.Sprintf("(%s, %s)", leanStr(f[0]), f[1])
	}
	fmt.Fprintf(&o.b, "/-- %s -/\ndef %s : List (String × Nat) := [%s]\n\n", doc, name, strings.Join(parts, ", "))
}

// c08SgprSteps: the top-level `if co.Enable… { … }` chain of a register-initialisation function:
// (flag, bytes the cursor SGPRPtr advances, does the block write a register)
func c08SgprSteps(fd *ast.FuncDecl, file string) []string {
	var out []string
	for _, st := range fd.Body.List {
		is, ok := st.(*ast.IfStmt)
		if !ok || is.Else != nil || is.Init != nil {
			continue
		}
		cond := c10Norm(nodeString(is.Cond))
		if !strings.HasPrefix(cond, "co.Enable") {
			fatalf("c08: %s: %s: unexpected top-level condition `%s`", file, fd.Name.Name, cond)
		}
		flag := strings.TrimSuffix(strings.TrimPrefix(cond, "co."), "()")
		step := int64(0)
		writes := false
		for _, b := range is.Body.List {
			switch s := b.(type) {
			case *ast.AssignStmt:
				if len(s.Lhs) == 1 && c10Norm(nodeString(s.Lhs[0])) == "SGPRPtr" {
					v, ok := constInt(s.Rhs[0], nil)
					if s.Tok != token.ADD_ASSIGN || !ok {
						fatalf("c08: %s: %s: cursor statement `%s` is not `SGPRPtr += constant`", file, fd.Name.Name, nodeString(s))
					}
					step += v
				}
			}
			txt := nodeString(b)
			if strings.Contains(txt, "SRegFile") {
				writes = true
			}
		}
		w := "false"
		if writes {
			w = "true"
		}
		out = append(out, fmt.Sprintf("(%s, %d, %s)", leanStr(flag), step, w))
	}
	if len(out) == 0 {
		fatalf("c08: %s: %s: no `if co.Enable…` chain found", file, fd.Name.Name)
	}
	return out
}

// c08Shifts: the literal right operands of `<<` in an expression, in source order
func c08Shifts(e ast.Expr, file string) []int64 {
	var out []int64
	ast.Inspect(e, func(n ast.Node) bool {
		if b, ok := n.(*ast.BinaryExpr); ok && b.Op == token.SHL {
			v, ok := constInt(b.Y, nil)
			if !ok {
				fatalf("c08: %s: shift amount `%s` is not a literal", file, nodeString(b.Y))
			}
			out = append(out, v)
		}
		return true
	})
	return out
}

func genC08() {
	o := &c08Out{names: map[string]bool{}}
	o.b.WriteString("-- GENERATED by /verif/translate (c08.go) from amd/kernels/{gridbuilder,hsakerneldispatchpacket}.go, amd/driver/driver.go, amd/timing/cp/internal/dispatching/partition.go, amd/emu/computeunit.go, amd/timing/cu/wfdispatcher.go, amd/benchmarks/dnn/gputensor/cdna3_kernargs.go; do not edit\n")
	o.b.WriteString("namespace Gen.C08Geo\n\n")

	// ---------------------------------------------------------------- kernels/gridbuilder.go
	const gb = "amd/kernels/gridbuilder.go"
	_, fgb := parseFile(gb)
	o.def(gb, "numWGInDimK", "numWGInDim (int arithmetic)", c10Return(c10Func(fgb, gb, "", "numWGInDim"), gb, 0), "gridSize", "wgSize")
	fw := c10Func(fgb, gb, "gridBuilderImpl", "formWavefronts")
	e, _ := c10Assign(fw, gb, "wavefrontSize", 0)
	ws, ok := constInt(e, nil)
	if !ok {
		fatalf("c08: %s: wavefrontSize is not a literal", gb)
	}
	o.num("wavefrontSize", gb+": formWavefronts, wavefrontSize", ws)
	e, _ = c10Assign(fw, gb, "inWGID", 0)
	o.def(gb, "inWGID", "formWavefronts, flattened id of a work-item inside its group", e, "IDZ", "SizeX", "SizeY", "IDY", "IDX")
	e, _ = c10Assign(fw, gb, "wf.FirstWiFlatID", 0)
	o.def(gb, "firstWi", "formWavefronts, FirstWiFlatID of a new wavefront", e, "inWGID", "wavefrontSize")
	e, tok := c10Assign(fw, gb, "wf.InitExecMask", 0)
	if tok != token.OR_ASSIGN {
		fatalf("c08: %s: formWavefronts: InitExecMask is not updated with |=", gb)
	}
	o.def(gb, "maskBit", "formWavefronts, bit or-ed into InitExecMask", e, "inWGID", "wavefrontSize")
	o.strs("newWavefrontCond", gb+": formWavefronts, condition that starts a new wavefront", []string{nodeString(c10IfCond(fw, gb, 0))})
	nw := c10Func(fgb, gb, "gridBuilderImpl", "NextWG")
	o.strs("nextWGStop", gb+": NextWG, condition that returns nil", []string{nodeString(c10IfCond(nw, gb, 0))})
	for _, ax := range []string{"x", "y", "z"} {
		e, _ = c10Assign(nw, gb, ax+"Left", 0)
		o.def(gb, ax+"Left", "NextWG, work-items left along "+ax, e)
	}

	// ---------------------------------------------------------------- driver/driver.go
	const dr = "amd/driver/driver.go"
	_, fdr := parseFile(dr)
	o.def(dr, "numWGInDimD", "numWGInDim (int arithmetic)", c10Return(c10Func(fdr, dr, "", "numWGInDim"), dr, 0), "gridSize", "wgSize")
	dw := c10Func(fdr, dr, "Driver", "distributeWGToGPUs")
	e, _ = c10Assign(dw, dr, "totalWGCount", 0)
	o.def(dr, "totalWGCount", "distributeWGToGPUs, product of the per-axis counts (int)", e, "numWGX", "numWGY", "numWGZ")
	e, _ = c10Assign(dw, dr, "wgPerCU", 0)
	o.def(dr, "wgPerCU", "distributeWGToGPUs", e, "totalWGCount", "totalCUCount")
	e, _ = c10Assign(dw, dr, "wgToAllocate", 0)
	o.def(dr, "wgToAllocate", "distributeWGToGPUs, share of one GPU", e, "cuCount", "wgPerCU")
	pl := c10Func(fdr, dr, "Driver", "processUnifiedMultiGPULaunchKernelCommand")
	e, _ = c10Assign(pl, dr, "flattenedID", 0)
	o.def(dr, "flattenedID", "work-group filter closure", e, "IDZ", "numWGX", "numWGY", "IDY", "IDX")

	// ---------------------------------------------------------------- dispatching/partition.go
	const pa = "amd/timing/cp/internal/dispatching/partition.go"
	_, fpa := parseFile(pa)
	sk := c10Func(fpa, pa, "partitionAlgorithm", "StartNewKernel")
	e, _ = c10Assign(sk, pa, "a.numWGPerPartition", 0)
	o.def(pa, "numWGPerPartition", "StartNewKernel", e, "numWG", "numCU")
	o.def(pa, "skipOf", "StartNewKernel, argument of Skip for partition i", c10Call(sk, pa, "p.gridBuilder.Skip", 0)[0], "i", "numWGPerPartition")
	nx := c10Func(fpa, pa, "partitionAlgorithm", "Next")
	e, _ = c10Assign(nx, pa, "i", 0)
	o.def(pa, "rotation", "Next, CU visited at loop index `index`", e, "index", "nextPartition", "partitions")
	e, _ = c10Assign(nx, pa, "a.nextPartition", 0)
	o.def(pa, "nextAfter", "Next, rotation pointer after a dispatch to CU i", e, "i")

	// ---------------------------------------------------------------- the two register initialisations
	const em = "amd/emu/computeunit.go"
	const ti = "amd/timing/cu/wfdispatcher.go"
	_, fem := parseFile(em)
	_, fti := parseFile(ti)
	ei := c10Func(fem, em, "ComputeUnit", "initWfRegs")
	tr := c10Func(fti, ti, "WfDispatcherImpl", "initRegisters")
	for _, m := range []struct {
		pfx, file string
		fd        *ast.FuncDecl
	}{{"emu", em, ei}, {"timing", ti, tr}} {
		steps := c08SgprSteps(m.fd, m.file)
		o.name(m.pfx + "SgprSteps")
		fmt.Fprintf(&o.b, "/-- %s: %s, the `if co.Enable…` chain: flag, bytes SGPRPtr advances, block writes a register -/\ndef %sSgprSteps : List (String × Nat × Bool) := [%s]\n\n",
			m.file, m.fd.Name.Name, m.pfx, strings.Join(steps, ", "))
		for _, ax := range []string{"x", "y", "z"} {
			e, _ = c10Assign(m.fd, m.file, ax, 0)
			want := []string{"i", "SizeX", "SizeY"}
			o.def(m.file, m.pfx+"Lane"+strings.ToUpper(ax), m.fd.Name.Name+", work-item id "+ax+" of flattened id i", e, want...)
		}
		e, _ = c10Assign(m.fd, m.file, "laneID", 0)
		o.def(m.file, m.pfx+"LaneID", m.fd.Name.Name+", lane of flattened id i", e, "i", "FirstWiFlatID")
		e, _ = c10Assign(m.fd, m.file, "packed", 0)
		sh := c08Shifts(e, m.file)
		if len(sh) != 2 {
			fatalf("c08: %s: the V5 packing has %d shifts, expected 2", m.file, len(sh))
		}
		o.def(m.file, m.pfx+"Packed", m.fd.Name.Name+", V5 packing of (x,y,z) (uint32)", e, "x", "y", "z")
		o.num(m.pfx+"ShiftY", m.file+": V5 packing, shift of y", sh[0])
		o.num(m.pfx+"ShiftZ", m.file+": V5 packing, shift of z", sh[1])
		fr := c10For(m.fd, m.file, 0)
		_, ie := c10ForInit(fr, m.file)
		o.strs(m.pfx+"LaneLoop", m.file+": "+m.fd.Name.Name+", lane loop: start, condition", []string{nodeString(ie), nodeString(fr.Cond)})
	}
	// the work-group-count expression (uint32 arithmetic: GridSize is uint32, the wg size is converted)
	e, _ = c10Assign(tr, ti, "wgCountX", 0)
	o.def(ti, "timingWgCount", "initRegisters, work-group-count SGPR (the conversions — the widths — are pinned by wgCountSources)", e, "GridSizeX", "WorkgroupSizeX")
	emuCnt := c10Call(ei, em, "binary.LittleEndian.PutUint32", 0)[1]
	o.def(em, "emuWgCount", "initWfRegs, work-group-count SGPR (the conversions — the widths — are pinned by wgCountSources)", emuCnt, "GridSizeX", "WorkgroupSizeX")
	// the translated expressions are over Nat: the conversions, i.e. the widths the code computes in, are
	// dropped. They are pinned as text instead (the hand-written model reads them: 64-bit ceiling
	// division, truncated to uint32).
	o.strs("wgCountSources", "the work-group-count expressions of initRegisters and initWfRegs as written, with their conversions", []string{nodeString(e), nodeString(emuCnt)})

	// ---------------------------------------------------------------- hidden kernel arguments, dispatch packet
	const hk = "amd/benchmarks/dnn/gputensor/cdna3_kernargs.go"
	_, fhk := parseFile(hk)
	o.layout("hiddenFields", hk+": CDNA3HiddenArgs, fields and byte sizes in declaration order", c08Struct(fhk, hk, "CDNA3HiddenArgs"))
	nh := c10Func(fhk, hk, "", "newCDNA3HiddenArgs")
	e, _ = c10Assign(nh, hk, "bc", 0)
	o.def(hk, "hiddenBC", "newCDNA3HiddenArgs, block count (the conversions — the widths — are pinned by hiddenBCSource)", e, "g", "l")
	o.strs("hiddenBCSource", "the block-count expression of newCDNA3HiddenArgs as written, with its conversions", []string{nodeString(e)})
	e, _ = c10Assign(nh, hk, "rem", 0)
	o.def(hk, "hiddenRem", "newCDNA3HiddenArgs, remainder", e, "g", "l")
	const pk = "amd/kernels/hsakerneldispatchpacket.go"
	_, fpk := parseFile(pk)
	o.layout("packetFields", pk+": HsaKernelDispatchPacket, fields and byte sizes in declaration order", c08Struct(fpk, pk, "HsaKernelDispatchPacket"))

	o.b.WriteString("end Gen.C08Geo\n")
	writeIfChanged("C08Geo.lean", o.b.String())
}

func (o *c08Out) strs(name, doc string, xs []string) {
	o.name(name)
	q := make([]string, len(xs))
	for i, x := range xs {
		q[i] = leanStr(c10Norm(x))
	}
	fmt.Fprintf(&o.b, "/-- %s -/\ndef %s : List String := [%s]\n\n", doc, name, strings.Join(q, ", "))
}
