module veriftranslate

go 1.25
