package main

import (
	"fmt"
	"go/ast"
	"go/parser"
	"go/token"
	"os"
	"path/filepath"
	"sort"
	"strconv"
	"strings"
)

// genHsaco (property C13) reads amd/insts/hsaco.go and writes, as Lean data, everything the
// kernel loader says about the two metadata layouts:
//
//   - the KernelCodeObjectMeta struct (field names and widths),
//   - parseV2V3Header: every little-endian read (field, offset, width) and every flag bit,
//   - isV2V3Header: minimum length and the reject conditions (offset, width, relation, constant),
//   - parseV5KernelDescriptor: reads, extractBits calls, derived register counts, fields forced
//     to false, the kernarg-pointer rule, and the compute_pgm_rsrc2 rewriting as a Lean function,
//   - the bit-field accessor methods (name, word, lo, hi, bool?),
//   - the 256 / 64 constants of newKernelCodeObjectFromEntireTextSection / findV5KernelDescriptor,
//   - the package-level variables the loader functions can touch (purity audit).
//
// Every statement of the parsed functions must have one of the known shapes; anything else is
// refused (non-zero exit = broken tie).
func init() { extraGens = append(extraGens, gen{"hsaco", genHsaco}) }

func hsUnparen(e ast.Expr) ast.Expr {
	for {
		p, ok := e.(*ast.ParenExpr)
		if !ok {
			return e
		}
		e = p.X
	}
}

func hsInt(e ast.Expr) (int64, bool) { return constInt(hsUnparen(e), nil) }

// hsLERead recognises [uintNN(]binary.LittleEndian.UintN(data[a:b])[)] and returns offset and width in bytes.
func hsLERead(e ast.Expr) (off, width int64, ok bool) {
	e = hsUnparen(e)
	call, isCall := e.(*ast.CallExpr)
	if !isCall || len(call.Args) != 1 {
		return 0, 0, false
	}
	if id, isID := call.Fun.(*ast.Ident); isID && (id.Name == "uint64" || id.Name == "uint32") {
		return hsLERead(call.Args[0])
	}
	if !strings.HasPrefix(nodeString(call.Fun), "binary.LittleEndian.Uint") {
		return 0, 0, false
	}
	bits, err := strconv.Atoi(strings.TrimPrefix(nodeString(call.Fun), "binary.LittleEndian.Uint"))
	if err != nil {
		return 0, 0, false
	}
	sl, isSl := call.Args[0].(*ast.SliceExpr)
	if !isSl || nodeString(sl.X) != "data" || sl.Low == nil || sl.High == nil || sl.Max != nil {
		return 0, 0, false
	}
	lo, ok1 := hsInt(sl.Low)
	hi, ok2 := hsInt(sl.High)
	if !ok1 || !ok2 || hi-lo != int64(bits/8) {
		fatalf("hsaco: read %s: slice width does not match Uint%d", nodeString(e), bits)
	}
	return lo, hi - lo, true
}

func hsMetaField(e ast.Expr) (string, bool) {
	s, ok := e.(*ast.SelectorExpr)
	if !ok {
		return "", false
	}
	if id, ok := s.X.(*ast.Ident); ok && (id.Name == "meta" || id.Name == "h") {
		return s.Sel.Name, true
	}
	return "", false
}

func hsFunc(f *ast.File, name string) *ast.FuncDecl {
	for _, d := range f.Decls {
		if fd, ok := d.(*ast.FuncDecl); ok && fd.Name.Name == name && fd.Body != nil {
			return fd
		}
	}
	fatalf("hsaco: function %s not found", name)
	return nil
}

// hsBV translates a uint32 expression over the variable rsrc2 into a Lean BitVec 32 term.
func hsBV(e ast.Expr) string {
	e = hsUnparen(e)
	switch x := e.(type) {
	case *ast.Ident:
		if x.Name == "rsrc2" {
			return "rsrc2"
		}
	case *ast.BasicLit:
		if v, ok := hsInt(x); ok {
			return fmt.Sprintf("%d#32", v)
		}
	case *ast.BinaryExpr:
		switch x.Op {
		case token.AND_NOT:
			return "(" + hsBV(x.X) + " &&& ~~~" + hsBV(x.Y) + ")"
		case token.AND:
			return "(" + hsBV(x.X) + " &&& " + hsBV(x.Y) + ")"
		case token.OR:
			return "(" + hsBV(x.X) + " ||| " + hsBV(x.Y) + ")"
		case token.SHL, token.SHR:
			n, ok := hsInt(x.Y)
			if !ok {
				fatalf("hsaco: shift by a non-constant in %s", nodeString(e))
			}
			op := " <<< "
			if x.Op == token.SHR {
				op = " >>> "
			}
			return "(" + hsBV(x.X) + op + strconv.FormatInt(n, 10) + ")"
		}
	}
	fatalf("hsaco: unsupported rsrc2 expression %s", nodeString(e))
	return ""
}

// hsRsrc2Stmt translates one statement of the rsrc2 rewriting block to a Lean `let` line.
func hsRsrc2Stmt(st ast.Stmt) string {
	switch s := st.(type) {
	case *ast.AssignStmt:
		if len(s.Lhs) != 1 || nodeString(s.Lhs[0]) != "rsrc2" {
			break
		}
		switch s.Tok {
		case token.ASSIGN:
			return "  let rsrc2 := " + hsBV(s.Rhs[0]) + "\n"
		case token.OR_ASSIGN:
			return "  let rsrc2 := (rsrc2 ||| " + hsBV(s.Rhs[0]) + ")\n"
		case token.AND_NOT_ASSIGN:
			return "  let rsrc2 := (rsrc2 &&& ~~~" + hsBV(s.Rhs[0]) + ")\n"
		case token.AND_ASSIGN:
			return "  let rsrc2 := (rsrc2 &&& " + hsBV(s.Rhs[0]) + ")\n"
		}
	case *ast.IfStmt:
		if s.Init != nil || s.Else != nil || len(s.Body.List) != 1 {
			break
		}
		as, ok := s.Body.List[0].(*ast.AssignStmt)
		if !ok || as.Tok != token.ASSIGN || nodeString(as.Lhs[0]) != "rsrc2" {
			break
		}
		var cond string
		if nodeString(s.Cond) == "meta.EnableSgprKernargSegmentPtr" {
			cond = "enKernargPtr"
		} else if be, ok := s.Cond.(*ast.BinaryExpr); ok && be.Op == token.EQL {
			c, okc := hsInt(be.Y)
			if !okc {
				break
			}
			cond = fmt.Sprintf("%s == %d#32", hsBV(be.X), c)
		} else {
			break
		}
		return "  let rsrc2 := if " + cond + " then " + hsBV(as.Rhs[0]) + " else rsrc2\n"
	}
	fatalf("hsaco: parseV5KernelDescriptor: unsupported statement in the rsrc2 block: %s", nodeString(st))
	return ""
}

func genHsaco() {
	_, f := parseFile("amd/insts/hsaco.go")
	var b strings.Builder
	b.WriteString("-- GENERATED by /verif/translate (hsaco.go) from amd/insts/hsaco.go; do not edit\n")
	b.WriteString("namespace Gen.Hsaco\n\n")

	// ---- struct KernelCodeObjectMeta
	widths := map[string]int{"uint16": 16, "uint32": 32, "uint64": 64, "bool": 1}
	b.WriteString("/-- `KernelCodeObjectMeta`: (field, width in bits; bool = 1) in declaration order -/\n")
	b.WriteString("def metaFields : List (String × Nat) := [\n")
	found := false
	for _, d := range f.Decls {
		gd, ok := d.(*ast.GenDecl)
		if !ok || gd.Tok != token.TYPE {
			continue
		}
		for _, sp := range gd.Specs {
			ts := sp.(*ast.TypeSpec)
			if ts.Name.Name != "KernelCodeObjectMeta" {
				continue
			}
			st, ok := ts.Type.(*ast.StructType)
			if !ok {
				fatalf("hsaco: KernelCodeObjectMeta is not a struct")
			}
			found = true
			var rows []string
			for _, fl := range st.Fields.List {
				w, ok := widths[nodeString(fl.Type)]
				if !ok || len(fl.Names) == 0 {
					fatalf("hsaco: KernelCodeObjectMeta field of unsupported type %s", nodeString(fl.Type))
				}
				for _, n := range fl.Names {
					rows = append(rows, fmt.Sprintf("  (%s, %d)", leanStr(n.Name), w))
				}
			}
			b.WriteString(strings.Join(rows, ",\n") + "]\n\n")
		}
	}
	if !found {
		fatalf("hsaco: type KernelCodeObjectMeta not found")
	}

	// ---- parseV2V3Header
	{
		fn := hsFunc(f, "parseV2V3Header")
		var reads, bits []string
		flagsOff, flagsW := int64(-1), int64(0)
		for _, st := range fn.Body.List {
			if _, ok := st.(*ast.ReturnStmt); ok {
				continue
			}
			as, ok := st.(*ast.AssignStmt)
			if !ok || len(as.Lhs) != 1 || len(as.Rhs) != 1 {
				fatalf("hsaco: parseV2V3Header: unsupported statement %s", nodeString(st))
			}
			lhs := nodeString(as.Lhs[0])
			if lhs == "meta" && nodeString(as.Rhs[0]) == "new(KernelCodeObjectMeta)" {
				continue
			}
			if off, w, ok := hsLERead(as.Rhs[0]); ok {
				if fld, ok := hsMetaField(as.Lhs[0]); ok && as.Tok == token.ASSIGN {
					reads = append(reads, fmt.Sprintf("  (%s, %d, %d)", leanStr(fld), off, w))
					continue
				}
				if lhs == "flags" && as.Tok == token.DEFINE && flagsOff < 0 {
					flagsOff, flagsW = off, w
					continue
				}
			}
			// meta.X = (flags & (1 << n)) != 0
			if fld, ok := hsMetaField(as.Lhs[0]); ok && as.Tok == token.ASSIGN {
				if be, ok := hsUnparen(as.Rhs[0]).(*ast.BinaryExpr); ok && be.Op == token.NEQ && nodeString(be.Y) == "0" {
					if an, ok := hsUnparen(be.X).(*ast.BinaryExpr); ok && an.Op == token.AND && nodeString(an.X) == "flags" {
						if sh, ok := hsUnparen(an.Y).(*ast.BinaryExpr); ok && sh.Op == token.SHL && nodeString(sh.X) == "1" {
							if n, ok := hsInt(sh.Y); ok && flagsOff >= 0 {
								bits = append(bits, fmt.Sprintf("  (%s, %d)", leanStr(fld), n))
								continue
							}
						}
					}
				}
			}
			fatalf("hsaco: parseV2V3Header: unsupported statement %s", nodeString(st))
		}
		b.WriteString("/-- `parseV2V3Header`: (field, byte offset, width in bytes) of every little-endian read, source order -/\n")
		b.WriteString("def hdrReads : List (String × Nat × Nat) := [\n" + strings.Join(reads, ",\n") + "]\n\n")
		fmt.Fprintf(&b, "/-- `flags := …Uint32(data[a:b])` -/\ndef hdrFlagsRead : Nat × Nat := (%d, %d)\n\n", flagsOff, flagsW)
		b.WriteString("/-- `meta.X = (flags & (1 << n)) != 0` -/\n")
		b.WriteString("def hdrFlagBits : List (String × Nat) := [\n" + strings.Join(bits, ",\n") + "]\n\n")
	}

	// ---- isV2V3Header
	{
		fn := hsFunc(f, "isV2V3Header")
		locals := map[string][2]int64{}
		minLen := int64(-1)
		var checks []string
		var addCond func(e ast.Expr)
		addCond = func(e ast.Expr) {
			e = hsUnparen(e)
			be, ok := e.(*ast.BinaryExpr)
			if !ok {
				fatalf("hsaco: isV2V3Header: unsupported condition %s", nodeString(e))
			}
			if be.Op == token.LOR {
				addCond(be.X)
				addCond(be.Y)
				return
			}
			id, ok1 := be.X.(*ast.Ident)
			c, ok2 := hsInt(be.Y)
			rd, ok3 := locals[nodeString(be.X)]
			if !ok1 || !ok2 || !ok3 {
				fatalf("hsaco: isV2V3Header: unsupported condition %s", nodeString(e))
			}
			_ = id
			var rel string
			switch be.Op {
			case token.NEQ:
				rel = "ne"
			case token.GTR:
				rel = "gt"
			case token.LSS:
				rel = "lt"
			default:
				fatalf("hsaco: isV2V3Header: unsupported relation in %s", nodeString(e))
			}
			checks = append(checks, fmt.Sprintf("  (%d, %d, %s, %d)", rd[0], rd[1], leanStr(rel), c))
		}
		last := len(fn.Body.List) - 1
		for i, st := range fn.Body.List {
			switch s := st.(type) {
			case *ast.AssignStmt:
				if off, w, ok := hsLERead(s.Rhs[0]); ok && s.Tok == token.DEFINE && len(s.Lhs) == 1 {
					locals[nodeString(s.Lhs[0])] = [2]int64{off, w}
					continue
				}
			case *ast.IfStmt:
				if s.Init == nil && s.Else == nil && len(s.Body.List) == 1 && nodeString(s.Body.List[0]) == "return false" {
					if be, ok := s.Cond.(*ast.BinaryExpr); ok && be.Op == token.LSS && nodeString(be.X) == "len(data)" {
						if v, ok := hsInt(be.Y); ok && minLen < 0 && len(checks) == 0 {
							minLen = v
							continue
						}
					}
					addCond(s.Cond)
					continue
				}
			case *ast.ReturnStmt:
				if i == last && nodeString(s) == "return true" {
					continue
				}
			}
			fatalf("hsaco: isV2V3Header: unsupported statement %s", nodeString(st))
		}
		fmt.Fprintf(&b, "/-- `isV2V3Header`: `if len(data) < n { return false }` -/\ndef isHdrMinLen : Nat := %d\n\n", minLen)
		b.WriteString("/-- `isV2V3Header`: reject when the little-endian value at (offset, width) stands in the relation to the constant; source order -/\n")
		b.WriteString("def isHdrRejects : List (Nat × Nat × String × Nat) := [\n" + strings.Join(checks, ",\n") + "]\n\n")
	}

	// ---- parseV5KernelDescriptor
	{
		fn := hsFunc(f, "parseV5KernelDescriptor")
		var reads, fields, counts, falses, rs []string
		kargRule := ""
		inBlock, blockDone := false, false
		for _, st := range fn.Body.List {
			if _, ok := st.(*ast.ReturnStmt); ok {
				continue
			}
			if inBlock {
				if as, ok := st.(*ast.AssignStmt); ok && nodeString(as.Lhs[0]) == "meta.ComputePgmRsrc2" && nodeString(as.Rhs[0]) == "rsrc2" {
					inBlock, blockDone = false, true
					continue
				}
				rs = append(rs, hsRsrc2Stmt(st))
				continue
			}
			as, ok := st.(*ast.AssignStmt)
			if !ok || len(as.Lhs) != 1 || len(as.Rhs) != 1 || blockDone {
				fatalf("hsaco: parseV5KernelDescriptor: unsupported statement %s", nodeString(st))
			}
			lhs, rhs := nodeString(as.Lhs[0]), nodeString(as.Rhs[0])
			if lhs == "meta" && rhs == "new(KernelCodeObjectMeta)" {
				continue
			}
			if lhs == "rsrc2" && rhs == "meta.ComputePgmRsrc2" && as.Tok == token.DEFINE {
				inBlock = true
				continue
			}
			if off, w, ok := hsLERead(as.Rhs[0]); ok {
				if fld, ok := hsMetaField(as.Lhs[0]); ok {
					reads = append(reads, fmt.Sprintf("  (%s, %d, %d)", leanStr(fld), off, w))
					continue
				}
			}
			if call, ok := as.Rhs[0].(*ast.CallExpr); ok && nodeString(call.Fun) == "extractBits" && as.Tok == token.DEFINE {
				src, ok0 := hsMetaField(call.Args[0])
				lo, ok1 := hsInt(call.Args[1])
				hi, ok2 := hsInt(call.Args[2])
				if ok0 && ok1 && ok2 {
					fields = append(fields, fmt.Sprintf("  (%s, %s, %d, %d)", leanStr(lhs), leanStr(src), lo, hi))
					continue
				}
			}
			if fld, ok := hsMetaField(as.Lhs[0]); ok {
				// meta.X = uint16((local + a) * m)
				if call, ok := as.Rhs[0].(*ast.CallExpr); ok && nodeString(call.Fun) == "uint16" {
					if mul, ok := hsUnparen(call.Args[0]).(*ast.BinaryExpr); ok && mul.Op == token.MUL {
						if add, ok := hsUnparen(mul.X).(*ast.BinaryExpr); ok && add.Op == token.ADD {
							a, ok1 := hsInt(add.Y)
							m, ok2 := hsInt(mul.Y)
							if id, ok := add.X.(*ast.Ident); ok && ok1 && ok2 {
								counts = append(counts, fmt.Sprintf("  (%s, %s, %d, %d)", leanStr(fld), leanStr(id.Name), a, m))
								continue
							}
						}
					}
				}
				if rhs == "false" {
					falses = append(falses, "  "+leanStr(fld))
					continue
				}
				if be, ok := as.Rhs[0].(*ast.BinaryExpr); ok && be.Op == token.GTR && nodeString(be.Y) == "0" {
					if src, ok := hsMetaField(be.X); ok && kargRule == "" {
						kargRule = fmt.Sprintf("(%s, %s)", leanStr(fld), leanStr(src))
						continue
					}
				}
			}
			fatalf("hsaco: parseV5KernelDescriptor: unsupported statement %s", nodeString(st))
		}
		if !blockDone || kargRule == "" {
			fatalf("hsaco: parseV5KernelDescriptor: rsrc2 block or kernarg rule not found")
		}
		b.WriteString("/-- `parseV5KernelDescriptor`: (field, byte offset, width in bytes), source order -/\n")
		b.WriteString("def kdReads : List (String × Nat × Nat) := [\n" + strings.Join(reads, ",\n") + "]\n\n")
		b.WriteString("/-- `local := extractBits(meta.F, lo, hi)` -/\n")
		b.WriteString("def kdBitfields : List (String × String × Nat × Nat) := [\n" + strings.Join(fields, ",\n") + "]\n\n")
		b.WriteString("/-- `meta.X = uint16((local + a) * m)`: (X, local, a, m) -/\n")
		b.WriteString("def kdCounts : List (String × String × Nat × Nat) := [\n" + strings.Join(counts, ",\n") + "]\n\n")
		b.WriteString("/-- `meta.X = false` -/\n")
		b.WriteString("def kdFalse : List String := [\n" + strings.Join(falses, ",\n") + "]\n\n")
		b.WriteString("/-- `meta.X = meta.Y > 0` -/\n")
		b.WriteString("def kdPositiveRule : String × String := " + kargRule + "\n\n")
		b.WriteString("/-- the statements between `rsrc2 := meta.ComputePgmRsrc2` and `meta.ComputePgmRsrc2 = rsrc2` -/\n")
		b.WriteString("def fixRsrc2 (rsrc2 : BitVec 32) (enKernargPtr : Bool) : BitVec 32 :=\n" + strings.Join(rs, "") + "  rsrc2\n\n")
	}

	// ---- accessor methods: func (h *KernelCodeObjectMeta) N() T { return extractBits(h.F, lo, hi) [!= 0] }
	{
		var rows []string
		for _, d := range f.Decls {
			fd, ok := d.(*ast.FuncDecl)
			if !ok || fd.Recv == nil || fd.Body == nil || len(fd.Body.List) != 1 {
				continue
			}
			if !strings.Contains(nodeString(fd.Recv.List[0].Type), "KernelCodeObjectMeta") {
				continue
			}
			ret, ok := fd.Body.List[0].(*ast.ReturnStmt)
			if !ok || len(ret.Results) != 1 {
				continue
			}
			e := ret.Results[0]
			isBool := false
			if be, ok := e.(*ast.BinaryExpr); ok && be.Op == token.NEQ && nodeString(be.Y) == "0" {
				isBool = true
				e = be.X
			}
			call, ok := e.(*ast.CallExpr)
			if !ok || nodeString(call.Fun) != "extractBits" {
				if strings.Contains(nodeString(e), "extractBits") {
					fatalf("hsaco: accessor %s: unsupported use of extractBits", fd.Name.Name)
				}
				continue
			}
			src, ok0 := hsMetaField(call.Args[0])
			lo, ok1 := hsInt(call.Args[1])
			hi, ok2 := hsInt(call.Args[2])
			if !ok0 || !ok1 || !ok2 {
				fatalf("hsaco: accessor %s: unsupported extractBits arguments", fd.Name.Name)
			}
			rows = append(rows, fmt.Sprintf("  (%s, %s, %d, %d, %v)", leanStr(fd.Name.Name), leanStr(src), lo, hi, isBool))
		}
		b.WriteString("/-- bit-field accessor methods: (method, word, lo, hi, result is `!= 0`) in source order -/\n")
		b.WriteString("def accessors : List (String × String × Nat × Nat × Bool) := [\n" + strings.Join(rows, ",\n") + "]\n\n")
	}

	// ---- constants of newKernelCodeObjectFromEntireTextSection and findV5KernelDescriptor
	{
		fn := hsFunc(f, "newKernelCodeObjectFromEntireTextSection")
		src := nodeString(fn.Body)
		var minLen, strip int64 = -1, -1
		ast.Inspect(fn.Body, func(n ast.Node) bool {
			switch x := n.(type) {
			case *ast.BinaryExpr:
				if x.Op == token.GEQ && nodeString(x.X) == "len(data)" {
					if v, ok := hsInt(x.Y); ok {
						minLen = v
					}
				}
			case *ast.SliceExpr:
				if nodeString(x.X) == "data" && x.High == nil && x.Low != nil {
					if v, ok := hsInt(x.Low); ok {
						strip = v
					}
				}
			}
			return true
		})
		if minLen < 0 || strip < 0 || !strings.Contains(src, "isV2V3Header(data)") || !strings.Contains(src, "KernelCodeEntryByteOffset = 0") {
			fatalf("hsaco: newKernelCodeObjectFromEntireTextSection: shape not recognised")
		}
		fmt.Fprintf(&b, "/-- `len(data) >= n && isV2V3Header(data)` / `data[n:]` -/\ndef entireMinLen : Nat := %d\ndef entireStrip : Nat := %d\n\n", minLen, strip)

		fk := hsFunc(f, "findV5KernelDescriptor")
		var kdSizes []string
		ast.Inspect(fk.Body, func(n ast.Node) bool {
			be, ok := n.(*ast.BinaryExpr)
			if !ok {
				return true
			}
			if (be.Op == token.EQL && nodeString(be.X) == "sym.Size") || (be.Op == token.ADD && nodeString(be.X) == "kdOffset") ||
				(be.Op == token.GEQ && strings.ReplaceAll(nodeString(be.X), " ", "") == "dataLen-kdOffset") {
				if v, ok := hsInt(be.Y); ok {
					kdSizes = append(kdSizes, strconv.FormatInt(v, 10))
				}
			}
			return true
		})
		fsrc := nodeString(fk.Body)
		if !strings.Contains(fsrc, "sym.Value >= rodataSection.Addr") || !strings.Contains(fsrc, "kdOffset <= dataLen") ||
			!strings.Contains(fsrc, "dataLen := uint64(len(rodataSectionData))") {
			fatalf("hsaco: findV5KernelDescriptor: the non-wrapping range guards (sym.Value >= rodataSection.Addr, kdOffset <= dataLen) are missing")
		}
		if len(kdSizes) != 3 {
			fatalf("hsaco: findV5KernelDescriptor: expected sym.Size == n, dataLen-kdOffset >= n and kdOffset+n, found %v", kdSizes)
		}
		b.WriteString("/-- `sym.Size == n`, `dataLen-kdOffset >= n`, `data[kdOffset : kdOffset+n]` -/\n")
		b.WriteString("def kdSizes : List Nat := [" + strings.Join(kdSizes, ", ") + "]\n\n")
	}

	// ---- overrideRegisterCountsFromSymbols: name suffixes, uint16 formulas, target fields
	{
		fn := hsFunc(f, "overrideRegisterCountsFromSymbols")
		suffix := map[string]string{} // local name -> suffix
		var rows, defs []string
		for _, st := range fn.Body.List {
			switch x := st.(type) {
			case *ast.AssignStmt:
				// sgprSymName := kernelName + ".numbered_sgpr"
				if be, ok := x.Rhs[0].(*ast.BinaryExpr); ok && x.Tok == token.DEFINE && be.Op == token.ADD && nodeString(be.X) == "kernelName" {
					if lit, ok := be.Y.(*ast.BasicLit); ok && lit.Kind == token.STRING {
						v, _ := strconv.Unquote(lit.Value)
						suffix[nodeString(x.Lhs[0])] = v
						continue
					}
				}
			case *ast.RangeStmt:
				if nodeString(x.X) != "symbols" || len(x.Body.List) != 1 {
					break
				}
				sw, ok := x.Body.List[0].(*ast.SwitchStmt)
				if !ok || nodeString(sw.Tag) != "sym.Name" {
					break
				}
				for _, cc := range sw.Body.List {
					cl := cc.(*ast.CaseClause)
					if len(cl.List) != 1 {
						fatalf("hsaco: overrideRegisterCountsFromSymbols: unsupported case clause")
					}
					suf, ok := suffix[nodeString(cl.List[0])]
					if !ok {
						fatalf("hsaco: overrideRegisterCountsFromSymbols: case %s is not a known name", nodeString(cl.List[0]))
					}
					local, target := "", ""
					var lets []string
					var u16 func(e ast.Expr) string
					u16 = func(e ast.Expr) string {
						e = hsUnparen(e)
						switch y := e.(type) {
						case *ast.Ident:
							if y.Name == local {
								return y.Name
							}
						case *ast.BasicLit:
							if v, ok := hsInt(y); ok {
								return strconv.FormatInt(v, 10)
							}
						case *ast.CallExpr:
							if nodeString(y.Fun) == "uint16" && nodeString(y.Args[0]) == "sym.Value" {
								return "(v % 65536)"
							}
						case *ast.BinaryExpr:
							switch y.Op {
							case token.ADD:
								return "((" + u16(y.X) + " + " + u16(y.Y) + ") % 65536)"
							case token.MUL:
								return "((" + u16(y.X) + " * " + u16(y.Y) + ") % 65536)"
							case token.QUO:
								return "(" + u16(y.X) + " / " + u16(y.Y) + ")"
							}
						}
						fatalf("hsaco: overrideRegisterCountsFromSymbols: unsupported uint16 expression %s", nodeString(e))
						return ""
					}
					for _, bs := range cl.Body {
						switch b := bs.(type) {
						case *ast.AssignStmt:
							name := nodeString(b.Lhs[0])
							if b.Tok == token.DEFINE && local == "" {
								local = name
								// the defining expression may not mention the local yet
								lets = append(lets, "  let "+name+" := "+u16(b.Rhs[0])+"\n")
								continue
							}
							if b.Tok == token.ASSIGN && name == local {
								lets = append(lets, "  let "+name+" := "+u16(b.Rhs[0])+"\n")
								continue
							}
						case *ast.IfStmt:
							if be, ok := b.Cond.(*ast.BinaryExpr); ok && be.Op == token.GTR && nodeString(be.X) == local && b.Else == nil && len(b.Body.List) == 1 {
								if fld, ok := hsMetaField(be.Y); ok && nodeString(b.Body.List[0]) == "meta."+fld+" = "+local {
									target = fld
									continue
								}
							}
						}
						fatalf("hsaco: overrideRegisterCountsFromSymbols: unsupported statement %s", nodeString(bs))
					}
					if local == "" || target == "" {
						fatalf("hsaco: overrideRegisterCountsFromSymbols: case %s has no `if x > meta.F { meta.F = x }`", suf)
					}
					rows = append(rows, fmt.Sprintf("  (%s, %s)", leanStr(suf), leanStr(target)))
					defs = append(defs, fmt.Sprintf("/-- case `kernelName + %s`: the uint16 count compared with and stored into `%s` -/\ndef override_%s (v : Nat) : Nat :=\n%s  %s\n\n",
						leanStr(suf), target, target, strings.Join(lets, ""), local))
				}
				continue
			}
			fatalf("hsaco: overrideRegisterCountsFromSymbols: unsupported statement %s", nodeString(st))
		}
		if len(rows) == 0 {
			fatalf("hsaco: overrideRegisterCountsFromSymbols: no cases found")
		}
		b.WriteString("/-- `overrideRegisterCountsFromSymbols`: (symbol-name suffix, field raised to the maximum) in case order -/\n")
		b.WriteString("def overrideCases : List (String × String) := [\n" + strings.Join(rows, ",\n") + "]\n\n")
		b.WriteString(strings.Join(defs, ""))
	}

	// ---- purity audit: package-level variables reachable from the loader entry points
	{
		dir := filepath.Join(*repo, "amd/insts")
		fset := token.NewFileSet()
		pkgs, err := parser.ParseDir(fset, dir, func(fi os.FileInfo) bool { return productFile(filepath.Join(dir, fi.Name())) }, 0)
		if err != nil {
			fatalf("hsaco: %v", err)
		}
		vars := map[string]bool{}
		funcs := map[string]*ast.FuncDecl{}
		for _, p := range pkgs {
			for _, pf := range p.Files {
				for _, d := range pf.Decls {
					switch x := d.(type) {
					case *ast.GenDecl:
						if x.Tok == token.VAR {
							for _, sp := range x.Specs {
								for _, n := range sp.(*ast.ValueSpec).Names {
									vars[n.Name] = true
								}
							}
						}
					case *ast.FuncDecl:
						if x.Recv == nil {
							funcs[x.Name.Name] = x
						}
					}
				}
			}
		}
		roots := []string{"LoadKernelCodeObjectFromFS", "LoadKernelCodeObjectFromBytes", "LoadKernelCodeObjectFromELF"}
		seen := map[string]bool{}
		touched := map[string]bool{}
		statics := false
		var visit func(name string)
		var walk func(n ast.Node)
		walk = func(n ast.Node) {
			ast.Inspect(n, func(m ast.Node) bool {
				switch x := m.(type) {
				case *ast.SelectorExpr:
					// x.Sel is a field/method/foreign name, never a package-level variable of insts
					walk(x.X)
					return false
				case *ast.KeyValueExpr:
					// a struct-literal key is a field name
					if _, isID := x.Key.(*ast.Ident); !isID {
						walk(x.Key)
					}
					walk(x.Value)
					return false
				case *ast.Ident:
					if vars[x.Name] {
						touched[x.Name] = true
					}
					if _, ok := funcs[x.Name]; ok {
						visit(x.Name)
					}
				case *ast.GoStmt:
					statics = true
				}
				return true
			})
		}
		visit = func(name string) {
			if seen[name] {
				return
			}
			fd, ok := funcs[name]
			if !ok || fd.Body == nil {
				return
			}
			seen[name] = true
			walk(fd.Body)
		}
		for _, r := range roots {
			if _, ok := funcs[r]; !ok {
				fatalf("hsaco: loader entry point %s not found", r)
			}
			visit(r)
		}
		var fl, tl []string
		for n := range seen {
			fl = append(fl, "  "+leanStr(n))
		}
		for n := range touched {
			tl = append(tl, leanStr(n))
		}
		sort.Strings(fl)
		sort.Strings(tl)
		b.WriteString("/-- package functions reachable from LoadKernelCodeObjectFrom{FS,Bytes,ELF} -/\n")
		b.WriteString("def loaderFuncs : List String := [\n" + strings.Join(fl, ",\n") + "]\n\n")
		b.WriteString("/-- package-level variables of amd/insts named inside those functions (the loader's possible hidden state) -/\n")
		b.WriteString("def loaderGlobals : List String := [" + strings.Join(tl, ", ") + "]\n\n")
		fmt.Fprintf(&b, "/-- a `go` statement occurs in those functions -/\ndef loaderSpawns : Bool := %v\n\n", statics)
	}

	b.WriteString("end Gen.Hsaco\n")
	writeIfChanged("Hsaco.lean", b.String())
}
