package main

import (
	"fmt"
	"go/ast"
	"os"
	"path/filepath"
	"strings"
)

// genC15 (property C15) reads the table-like / straight-line parts of the reorder buffer and of its
// wiring and writes them as Lean definitions (lean/MgpuModel/Gen/C15Rob.lean):
//
//   - amd/timing/rob/builder.go: the defaults of MakeBuilder (requests per cycle, buffer size), the three
//     ports createPorts makes (name under which they are registered, name suffix, incoming / outgoing
//     capacity as functions of numReqPerCycle);
//   - amd/timing/rob/rob.go: the stage order of Tick and of runPipeline (callee and loop bound of each
//     loop), the test of isFull, the builder-call chains of duplicateReadReq / duplicateWriteReq /
//     duplicateDataReadyRsp / duplicateWriteDoneRsp (= the list of copied fields), what bottomUp writes
//     into the response header, what discardTransactions / restart reset (assignments, Init, the
//     buffers they empty), what dropUndeliveredMsgs empties, and the statement list of every function
//     of the file (whitespace-free), so that ANY edit of rob.go changes a generated definition;
//   - amd/samples/runner/timingconfig/shaderarray/builder.go: buffer size and width of the three kinds
//     of ROB the shipped platforms build, their bottom units;
//   - amd/samples/runner/timingconfig/{r9nano,mi300a}/builder.go: the ROB control ports are registered
//     with the command processor as address translators (that is how they get discard / restart);
//   - amd/timing/cp/ctrlMiddleware.go: the order of the page-migration protocol between compute units and
//     ROBs (discard after the last flush acknowledgement, restart request to the compute units after
//     the last restart acknowledgement of the address translators / ROBs).
//
// MgpuProofs/Props/C15Tie.lean proves that the hand-written model is built from exactly these values
// (parseCfg's defaults, dupReq's copied fields, the stage order of tick, the reset lists of processCtl,
// the protocol order assumed by the composition with the compute unit). Unknown shapes are refused.
func init() { extraGens = append(extraGens, gen{"c15", genC15}) }

// c15Stmts returns the statements of a function body, whitespace-free, nested blocks flattened into
// "if<cond>{", "}else{", "}" markers so that the control structure is part of the list.
func c15Stmts(fd *ast.FuncDecl) []string {
	var out []string
	var walk func(list []ast.Stmt)
	walk = func(list []ast.Stmt) {
		for _, s := range list {
			switch x := s.(type) {
			case *ast.IfStmt:
				out = append(out, "if "+nodeString(x.Cond)+" {")
				walk(x.Body.List)
				for x.Else != nil {
					if ei, ok := x.Else.(*ast.IfStmt); ok {
						out = append(out, "} else if "+nodeString(ei.Cond)+" {")
						walk(ei.Body.List)
						x = ei
						continue
					}
					out = append(out, "} else {")
					walk(x.Else.(*ast.BlockStmt).List)
					break
				}
				out = append(out, "}")
			case *ast.ForStmt:
				h := "for "
				if x.Init != nil {
					h += nodeString(x.Init)
				}
				h += ";"
				if x.Cond != nil {
					h += nodeString(x.Cond)
				}
				h += ";"
				if x.Post != nil {
					h += nodeString(x.Post)
				}
				out = append(out, h+" {")
				walk(x.Body.List)
				out = append(out, "}")
			case *ast.SwitchStmt, *ast.TypeSwitchStmt:
				out = append(out, nodeString(s))
			default:
				out = append(out, nodeString(s))
			}
		}
	}
	walk(fd.Body.List)
	return out
}

// c15ChainArgs returns method names and the printed first argument of every call of a builder chain.
func c15ChainArgs(e ast.Expr) (names, args []string) {
	for {
		c, ok := e.(*ast.CallExpr)
		if !ok {
			break
		}
		s, ok := c.Fun.(*ast.SelectorExpr)
		if !ok {
			break
		}
		a := ""
		if len(c.Args) > 0 {
			a = nodeString(c.Args[0])
		}
		names = append([]string{s.Sel.Name}, names...)
		args = append([]string{a}, args...)
		e = s.X
	}
	return
}

func genC15() {
	o := &c10Out{names: map[string]bool{}}
	const bld = "amd/timing/rob/builder.go"
	const rob = "amd/timing/rob/rob.go"
	const sa = "amd/samples/runner/timingconfig/shaderarray/builder.go"
	const cp = "amd/timing/cp/ctrlMiddleware.go"

	// ---- builder.go
	_, bf := parseFile(bld)
	mk := c10Func(bf, bld, "", "MakeBuilder")
	o.c18Num("defaultNumReqPerCycle", bld+": MakeBuilder, numReqPerCycle", c18Const(bld, c10KeyValue(mk, bld, "numReqPerCycle", 0)))
	o.c18Num("defaultBufferSize", bld+": MakeBuilder, bufferSize", c18Const(bld, c10KeyValue(mk, bld, "bufferSize", 0)))
	cpn := c10Func(bf, bld, "Builder", "createPorts")
	for i, p := range []string{"top", "bottom", "control"} {
		a := c10Call(cpn, bld, "sim.NewPort", i)
		if len(a) != 4 {
			fatalf("c15: %s: createPorts: sim.NewPort call #%d has %d arguments", bld, i, len(a))
		}
		o.def(bld, p+"InCap", "createPorts, incoming buffer capacity of the "+p+" port", a[1], false, nil)
		o.def(bld, p+"OutCap", "createPorts, outgoing buffer capacity of the "+p+" port", a[2], false, nil)
		reg := c10Call(cpn, bld, "rb.AddPort", i)
		o.strs(p+"PortNames", bld+": createPorts, owner, name suffix, registered name and field of the "+p+" port",
			[]string{nodeString(a[0]), nodeString(a[3]), nodeString(reg[0]), nodeString(reg[1])})
	}
	o.strs("portHooks", bld+": createPorts, the ports that get the tracing hook", c10ArgStrings(c10Call(cpn, bld, "rb.topPort.AcceptHook", 0)))
	bd := c10Func(bf, bld, "Builder", "Build")
	e1, _ := c10Assign(bd, bld, "rb.bufferSize", 0)
	e2, _ := c10Assign(bd, bld, "rb.numReqPerCycle", 0)
	o.strs("buildCopies", bld+": Build, what bufferSize / numReqPerCycle of the component are set to", []string{nodeString(e1), nodeString(e2)})

	// ---- rob.go
	_, rf := parseFile(rob)
	fn := func(name string) *ast.FuncDecl { return c10Func(rf, rob, "ReorderBuffer", name) }
	var all []string
	for _, d := range rf.Decls {
		fd, ok := d.(*ast.FuncDecl)
		if !ok || fd.Body == nil {
			continue
		}
		all = append(all, fd.Name.Name)
		o.strs("src_"+fd.Name.Name, rob+": statements of "+fd.Name.Name, c15Stmts(fd))
	}
	o.strs("functions", rob+": the functions of the file, in order", all)
	rp := fn("runPipeline")
	var stages []string
	for i := 0; i < 3; i++ {
		fr := c10For(rp, rob, i)
		iv, ie := c10ForInit(fr, rob)
		pv, pe := c10ForPost(fr, rob)
		as, ok := fr.Body.List[0].(*ast.AssignStmt)
		if len(fr.Body.List) != 1 || !ok {
			fatalf("c15: %s: runPipeline: loop #%d is not a single assignment", rob, i)
		}
		stages = append(stages, iv+"="+nodeString(ie), nodeString(fr.Cond), pv+pe, nodeString(as.Rhs[0]))
	}
	if c10ForCount(rp) != 3 {
		fatalf("c15: %s: runPipeline has %d loops, expected 3", rob, c10ForCount(rp))
	}
	o.strs("pipelineLoops", rob+": runPipeline, init / condition / post / body of the three loops", stages)
	o.def(rob, "isFull", "isFull", c10Return(fn("isFull"), rob, 0), true, map[string]string{"b.transactions.Len()": "len"})
	for _, d := range []struct{ name, fn string }{{"dupRead", "duplicateReadReq"}, {"dupWrite", "duplicateWriteReq"},
		{"dupData", "duplicateDataReadyRsp"}, {"dupDone", "duplicateWriteDoneRsp"}} {
		names, args := c15ChainArgs(c10Return(fn(d.fn), rob, 0))
		o.strs(d.name+"Calls", rob+": "+d.fn+", the builder calls", names)
		o.strs(d.name+"Args", rob+": "+d.fn+", their arguments", args)
	}
	bu := fn("bottomUp")
	r1, _ := c10Assign(bu, rob, "rsp", 0)
	r2, _ := c10Assign(bu, rob, "rsp.Meta().Dst", 0)
	r3, _ := c10Assign(bu, rob, "rsp.Meta().Src", 0)
	o.strs("bottomUpHeader", rob+": bottomUp, the response (payload source, RspTo), its Dst and Src", []string{nodeString(r1), nodeString(r2), nodeString(r3)})
	td := fn("topDown")
	t1, _ := c10Assign(td, rob, "trans.reqToBottom.Meta().Src", 0)
	o.strs("topDownHeader", rob+": topDown, Src of the forwarded request and what is sent", append([]string{nodeString(t1)}, c10ArgStrings(c10Call(td, rob, "b.bottomPort.Send", 0))...))

	// ---- shaderarray
	_, sf := parseFile(sa)
	var shipped []string
	for _, f := range []string{"buildL1VReorderBuffers", "buildL1SReorderBuffer", "buildL1IReorderBuffer"} {
		fd := c10Func(sf, sa, "Builder", f)
		b, _ := c10Assign(fd, sa, "builder", 0)
		names, args := c15ChainArgs(b)
		size, width := "", ""
		for i, n := range names {
			switch n {
			case "WithBufferSize":
				size = args[i]
			case "WithNumReqPerCycle":
				width = args[i]
			}
		}
		if size == "" || width == "" || names[0] != "MakeBuilder" {
			fatalf("c15: %s: %s: builder chain %v not recognised", sa, f, names)
		}
		shipped = append(shipped, f, size, width)
	}
	o.strs("shippedRobs", sa+": the three kinds of ROB: function, buffer size, requests per cycle", shipped)
	var bottoms []string
	for _, f := range []string{"connectVectorMem", "connectScalarMem", "connectInstMem"} {
		fd := c15FuncOpt(sf, "Builder", f)
		if fd == nil {
			fatalf("c15: %s: function %s not found", sa, f)
		}
		e, _ := c10Assign(fd, sa, "rob.BottomUnit", 0)
		bottoms = append(bottoms, f, nodeString(e))
	}
	o.strs("bottomUnits", sa+": what each ROB forwards to", bottoms)

	// ---- the ROB control ports are the command processor's "address translators"
	for _, g := range []string{"r9nano", "mi300a"} {
		file := "amd/samples/runner/timingconfig/" + g + "/builder.go"
		src, err := os.ReadFile(filepath.Join(*repo, file))
		if err != nil {
			fatalf("c15: %v", err)
		}
		n := 0
		for _, l := range strings.Split(string(src), "\n") {
			l = c10Norm(l)
			if strings.HasPrefix(l, "b.cp.AddressTranslators=append(b.cp.AddressTranslators,") && strings.Contains(strings.ToLower(l), "rob") {
				n++
			}
		}
		o.c18Num(g+"RobsUnderCP", file+": number of statements that register a ROB control port with the command processor as an address translator", int64(n))
	}

	// ---- protocol order of the command processor
	_, cf := parseFile(cp)
	fl := c10Func(cf, cp, "ctrlMiddleware", "processCUPipelineFlushRsp")
	names, _ := c15ChainArgs(c15SendArg(fl, cp, "m.ToAddressTranslators.Send"))
	o.strs("cpDiscard", cp+": processCUPipelineFlushRsp, the guard and the message sent to every address translator / ROB",
		append([]string{nodeString(c10IfCond(fl, cp, 0))}, names...))
	rs := c10Func(cf, cp, "ctrlMiddleware", "processTLBRestartRsp")
	names, _ = c15ChainArgs(c15SendArg(rs, cp, "m.ToAddressTranslators.Send"))
	o.strs("cpRestart", cp+": processTLBRestartRsp, the guard and the message sent to every address translator / ROB",
		append([]string{nodeString(c10IfCond(rs, cp, 0))}, names...))
	cr := c10Func(cf, cp, "ctrlMiddleware", "processAddressTranslatorRestartRsp")
	names, _ = c15ChainArgs(c15SendArg(cr, cp, "m.ToCUs.Send"))
	o.strs("cpCuRestart", cp+": processAddressTranslatorRestartRsp, the guard and the message sent to every compute unit",
		append([]string{nodeString(c10IfCond(cr, cp, 0))}, names...))

	hdr := "-- GENERATED by /verif/translate (c15.go) from " + bld + ", " + rob + ", " + sa + ", amd/samples/runner/timingconfig/{r9nano,mi300a}/builder.go, " + cp + "; do not edit\nnamespace Gen.C15Rob\n\n"
	writeIfChanged("C15Rob.lean", hdr+o.b.String()+"end Gen.C15Rob\n")
	fmt.Println("c15: wrote C15Rob.lean")
}

func c10ForCount(fd *ast.FuncDecl) int {
	n := 0
	ast.Inspect(fd.Body, func(nd ast.Node) bool {
		if _, ok := nd.(*ast.ForStmt); ok {
			n++
		}
		return true
	})
	return n
}

func c15FuncOpt(f *ast.File, recv, name string) *ast.FuncDecl {
	for _, d := range f.Decls {
		fd, ok := d.(*ast.FuncDecl)
		if !ok || fd.Name.Name != name || fd.Body == nil {
			continue
		}
		r := ""
		if fd.Recv != nil && len(fd.Recv.List) == 1 {
			r = strings.TrimPrefix(nodeString(fd.Recv.List[0].Type), "*")
		}
		if r == recv {
			return fd
		}
	}
	return nil
}

// c15SendArg returns the expression assigned to the variable that is the argument of the first call of
// `callee` in the function (`req := …Build(); port.Send(req)`).
func c15SendArg(fd *ast.FuncDecl, file, callee string) ast.Expr {
	a := c10Call(fd, file, callee, 0)
	if len(a) != 1 {
		fatalf("c15: %s: %s: %s has %d arguments", file, fd.Name.Name, callee, len(a))
	}
	id, ok := a[0].(*ast.Ident)
	if !ok {
		return a[0]
	}
	e, _ := c10Assign(fd, file, id.Name, 0)
	return e
}
