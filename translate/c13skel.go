package main

import (
	"fmt"
	"go/ast"
	"go/token"
	"strings"
)

// genC13Skel (property C13, second deepening) reads the control skeleton of the kernel loader and
// of the driver's launch path and writes it as Lean data (Gen/HsacoSkel.lean):
//
//   - amd/insts/hsaco.go: every call the loader makes into debug/elf (which results it trusts),
//     every `if` condition of loadKernelCodeObjectFromELF / findV5KernelDescriptor /
//     newKernelCodeObjectFromEntireTextSection in source order, every string literal (section
//     names, symbol suffixes, fatal messages);
//   - amd/driver/kernel.go: the launch plan of EnqueueLaunchKernel (ordinary GPU branch) and of
//     enqueueLaunchUnifiedKernel as rows (kind, target, argument, guard), the packet fields set by
//     createAQLPacket, the key type of the code-object cache (driver.go), the size of the AQL packet
//     (kernels/hsakerneldispatchpacket.go) and the start-PC expression of both compute units.
//
// Statement shapes that are not recognised are refused (non-zero exit = broken tie).
func init() { extraGens = append(extraGens, gen{"c13skel", genC13Skel}) }

func skCalls(n ast.Node, keep func(string) bool) []string {
	var out []string
	ast.Inspect(n, func(m ast.Node) bool {
		if c, ok := m.(*ast.CallExpr); ok {
			f := nodeString(c.Fun)
			if keep(f) {
				args := make([]string, len(c.Args))
				for i, a := range c.Args {
					args[i] = nodeString(a)
				}
				out = append(out, f+"("+strings.Join(args, ", ")+")")
			}
		}
		return true
	})
	return out
}

func skConds(n ast.Node) []string {
	var out []string
	ast.Inspect(n, func(m ast.Node) bool {
		if c, ok := m.(*ast.IfStmt); ok {
			s := nodeString(c.Cond)
			if c.Init != nil {
				s = nodeString(c.Init) + "; " + s
			}
			out = append(out, strings.Join(strings.Fields(s), " "))
		}
		return true
	})
	return out
}

func skStrings(n ast.Node) []string {
	var out []string
	ast.Inspect(n, func(m ast.Node) bool {
		if l, ok := m.(*ast.BasicLit); ok && l.Kind == token.STRING {
			out = append(out, l.Value)
		}
		return true
	})
	return out
}

func skList(name, doc string, l []string) string {
	var b strings.Builder
	fmt.Fprintf(&b, "/-- %s -/\ndef %s : List String := [", doc, name)
	for i, s := range l {
		if i > 0 {
			b.WriteString(",")
		}
		b.WriteString("\n  " + leanStr(s))
	}
	b.WriteString("]\n\n")
	return b.String()
}

// skPlan turns a statement list into launch-plan rows; guard is the enclosing `if` condition text.
func skPlan(stmts []ast.Stmt, guard string, rows *[]string) {
	row := func(kind, target, arg string) {
		*rows = append(*rows, fmt.Sprintf("  (%s, %s, %s, %s)", leanStr(kind), leanStr(target), leanStr(arg), leanStr(guard)))
	}
	var call func(lhs string, c *ast.CallExpr) bool
	call = func(lhs string, c *ast.CallExpr) bool {
		f := nodeString(c.Fun)
		arg := func(i int) string {
			if i < len(c.Args) {
				return strings.Join(strings.Fields(nodeString(c.Args[i])), " ")
			}
			return ""
		}
		switch f {
		case "d.AllocateMemory":
			row("alloc", lhs, arg(1))
		case "d.allocateGPUMemory":
			row("alloc3", lhs, arg(1))
		case "d.EnqueueMemCopyH2D":
			row("copy", arg(1), arg(2))
		case "d.createAQLPacket":
			row("packet", lhs, arg(2)+","+arg(3))
		case "d.prepareLocalMemory":
			row("args", lhs, arg(0))
		case "d.enqueueLaunchKernelCommand":
			row("launch", arg(1), arg(2)+","+arg(3))
		case "d.enqueueLaunchUnifiedKernelCommand":
			row("ulaunch", arg(1), arg(2)+","+arg(3))
		case "d.enqueueLaunchUnifiedKernel":
			row("unified", arg(1), "")
		default:
			return false
		}
		return true
	}
	for _, st := range stmts {
		switch x := st.(type) {
		case *ast.AssignStmt:
			lhs := make([]string, len(x.Lhs))
			for i, l := range x.Lhs {
				lhs[i] = nodeString(l)
			}
			l := strings.Join(lhs, ",")
			if len(x.Rhs) == 1 {
				if c, ok := x.Rhs[0].(*ast.CallExpr); ok && call(l, c) {
					continue
				}
				if ix, ok := x.Rhs[0].(*ast.IndexExpr); ok && strings.HasPrefix(nodeString(ix.X), "d.codeObjGPUAddrs") {
					row("cache-get", l, nodeString(ix.Index))
					continue
				}
				// the cache key: a composite literal of the key struct (`key := codeObjKey{pid: …, co: co}`)
				if cl, ok := x.Rhs[0].(*ast.CompositeLit); ok && nodeString(cl.Type) == "codeObjKey" {
					row("key", l, strings.Join(strings.Fields(nodeString(cl)), " "))
					continue
				}
				if ix, ok := x.Lhs[0].(*ast.IndexExpr); ok && strings.HasPrefix(nodeString(ix.X), "d.codeObjGPUAddrs") {
					row("cache-put", nodeString(ix.Index), nodeString(x.Rhs[0]))
					continue
				}
			}
			// plain bookkeeping (queue arrays, current GPU, packet struct) is not part of the plan
			continue
		case *ast.ExprStmt:
			if c, ok := x.X.(*ast.CallExpr); ok && call("", c) {
				continue
			}
			fatalf("c13skel: unsupported call statement %s", nodeString(st))
		case *ast.IfStmt:
			g := strings.Join(strings.Fields(nodeString(x.Cond)), " ")
			if guard != "" {
				g = guard + " && " + g
			}
			skPlan(x.Body.List, g, rows)
			if x.Else != nil {
				eb, ok := x.Else.(*ast.BlockStmt)
				if !ok {
					fatalf("c13skel: unsupported else shape in launch path")
				}
				ng := "!(" + strings.Join(strings.Fields(nodeString(x.Cond)), " ") + ")"
				if guard != "" {
					ng = guard + " && " + ng
				}
				skPlan(eb.List, ng, rows)
			}
		case *ast.RangeStmt:
			g := "range " + nodeString(x.X)
			if guard != "" {
				g = guard + " && " + g
			}
			skPlan(x.Body.List, g, rows)
		case *ast.DeclStmt, *ast.ReturnStmt:
			continue
		default:
			fatalf("c13skel: unsupported statement in launch path: %s", nodeString(st))
		}
	}
}

func genC13Skel() {
	var b strings.Builder
	b.WriteString("-- GENERATED by /verif/translate (c13skel.go) from amd/insts/hsaco.go, amd/driver/kernel.go, amd/driver/driver.go,\n-- amd/kernels/hsakerneldispatchpacket.go, amd/emu/computeunit.go, amd/timing/cu/wfdispatcher.go; do not edit\nnamespace Gen.HsacoSkel\n\n")

	// ---- loader
	_, hf := parseFile("amd/insts/hsaco.go")
	isElf := func(f string) bool {
		for _, p := range []string{"elf.", "executable.", "textSection.", "rodataSection.", "bytes.NewReader"} {
			if strings.HasPrefix(f, p) {
				return true
			}
		}
		return false
	}
	var elfCalls []string
	for _, fn := range []string{"LoadKernelCodeObjectFromFS", "LoadKernelCodeObjectFromBytes", "LoadKernelCodeObjectFromELF", "loadKernelCodeObjectFromELF", "findV5KernelDescriptor"} {
		for _, c := range skCalls(hsFunc(hf, fn).Body, isElf) {
			elfCalls = append(elfCalls, fn+": "+c)
		}
	}
	b.WriteString(skList("elfCalls", "every call into debug/elf (and the reader handed to it), per loader function, source order", elfCalls))
	// field reads of debug/elf values
	var elfFields []string
	seen := map[string]bool{}
	for _, fn := range []string{"loadKernelCodeObjectFromELF", "findV5KernelDescriptor", "overrideRegisterCountsFromSymbols"} {
		ast.Inspect(hsFunc(hf, fn).Body, func(m ast.Node) bool {
			if s, ok := m.(*ast.SelectorExpr); ok {
				x := nodeString(s.X)
				switch x {
				case "sym", "symbol", "sec", "textSection", "rodataSection", "executable":
					k := x + "." + s.Sel.Name
					if !seen[k] {
						seen[k] = true
						elfFields = append(elfFields, k)
					}
				}
			}
			return true
		})
	}
	b.WriteString(skList("elfFields", "fields and methods of debug/elf values the loader reads (first occurrence order)", elfFields))
	for _, fn := range []string{"loadKernelCodeObjectFromELF", "findV5KernelDescriptor", "newKernelCodeObjectFromEntireTextSection"} {
		b.WriteString(skList("conds_"+fn, "`if` conditions of "+fn+", source order", skConds(hsFunc(hf, fn).Body)))
	}
	var strs []string
	for _, fn := range []string{"loadKernelCodeObjectFromELF", "findV5KernelDescriptor", "overrideRegisterCountsFromSymbols"} {
		strs = append(strs, skStrings(hsFunc(hf, fn).Body)...)
	}
	b.WriteString(skList("loaderStrings", "string literals of the loader (Go syntax), source order", strs))

	// ---- driver launch path
	_, kf := parseFile("amd/driver/kernel.go")
	enq := hsFunc(kf, "EnqueueLaunchKernel")
	var rows []string
	skPlan(enq.Body.List, "", &rows)
	b.WriteString("/-- `EnqueueLaunchKernel`: (kind, target, argument, guard) per plan step, source order -/\ndef launchPlan : List (String × String × String × String) := [\n" + strings.Join(rows, ",\n") + "]\n\n")
	rows = nil
	skPlan(hsFunc(kf, "enqueueLaunchUnifiedKernel").Body.List, "", &rows)
	b.WriteString("/-- `enqueueLaunchUnifiedKernel` -/\ndef unifiedPlan : List (String × String × String × String) := [\n" + strings.Join(rows, ",\n") + "]\n\n")
	rows = nil
	skPlan(hsFunc(kf, "allocateGPUMemory").Body.List, "", &rows)
	b.WriteString("/-- `allocateGPUMemory` -/\ndef alloc3Plan : List (String × String × String × String) := [\n" + strings.Join(rows, ",\n") + "]\n\n")
	var pk []string
	for _, st := range hsFunc(kf, "createAQLPacket").Body.List {
		if as, ok := st.(*ast.AssignStmt); ok && as.Tok == token.ASSIGN {
			pk = append(pk, nodeString(as.Lhs[0])+" = "+nodeString(as.Rhs[0]))
		}
	}
	b.WriteString(skList("packetFields", "`createAQLPacket`: field assignments", pk))

	// cache key type
	_, df := parseFile("amd/driver/driver.go")
	cacheType := ""
	ast.Inspect(df, func(m ast.Node) bool {
		if f, ok := m.(*ast.Field); ok {
			for _, n := range f.Names {
				if n.Name == "codeObjGPUAddrs" {
					cacheType = nodeString(f.Type)
				}
			}
		}
		return true
	})
	if cacheType == "" {
		fatalf("c13skel: Driver.codeObjGPUAddrs not found")
	}
	fmt.Fprintf(&b, "/-- type of `Driver.codeObjGPUAddrs` -/\ndef cacheType : String := %s\n\n", leanStr(cacheType))
	// fields of the key struct named by the cache type (empty when the key is not a struct of driver.go)
	var keyFields []string
	ast.Inspect(df, func(m ast.Node) bool {
		ts, ok := m.(*ast.TypeSpec)
		if !ok || "map["+ts.Name.Name+"]Ptr" != cacheType {
			return true
		}
		if st, ok := ts.Type.(*ast.StructType); ok {
			for _, f := range st.Fields.List {
				for _, n := range f.Names {
					keyFields = append(keyFields, n.Name+" "+nodeString(f.Type))
				}
			}
		}
		return false
	})
	b.WriteString(skList("cacheKeyFields", "fields of the struct that keys `Driver.codeObjGPUAddrs`", keyFields))

	// packet size = sum of the field widths of HsaKernelDispatchPacket
	_, pf := parseFile("amd/kernels/hsakerneldispatchpacket.go")
	size := int64(-1)
	ast.Inspect(pf, func(m ast.Node) bool {
		ts, ok := m.(*ast.TypeSpec)
		if !ok || ts.Name.Name != "HsaKernelDispatchPacket" {
			return true
		}
		st, ok := ts.Type.(*ast.StructType)
		if !ok {
			return true
		}
		size = 0
		w := map[string]int64{"uint8": 1, "uint16": 2, "uint32": 4, "uint64": 8, "int8": 1, "int16": 2, "int32": 4, "int64": 8}
		for _, f := range st.Fields.List {
			n := int64(len(f.Names))
			t := nodeString(f.Type)
			if v, ok := w[t]; ok {
				size += n * v
			} else {
				fatalf("c13skel: HsaKernelDispatchPacket field of unsupported type %s", t)
			}
		}
		return false
	})
	if size < 0 {
		fatalf("c13skel: HsaKernelDispatchPacket not found")
	}
	fmt.Fprintf(&b, "/-- `binary.Size(kernels.HsaKernelDispatchPacket{})` -/\ndef packetSize : Nat := %d\n\n", size)

	// start PC
	var pcs []string
	for _, p := range [][2]string{{"amd/emu/computeunit.go", "initWfRegs"}, {"amd/timing/cu/wfdispatcher.go", ""}} {
		_, f := parseFile(p[0])
		ast.Inspect(f, func(m ast.Node) bool {
			if c, ok := m.(*ast.CallExpr); ok && strings.HasSuffix(nodeString(c.Fun), ".SetPC") && len(c.Args) == 1 {
				a := nodeString(c.Args[0])
				if strings.Contains(a, "KernelObject") {
					pcs = append(pcs, p[0]+": "+strings.Join(strings.Fields(a), " "))
				}
			}
			return true
		})
	}
	b.WriteString(skList("startPC", "where a wavefront starts: the argument of SetPC that names KernelObject", pcs))

	b.WriteString("end Gen.HsacoSkel\n")
	writeIfChanged("HsacoSkel.lean", b.String())
}
