package main

import (
	"fmt"
	"go/ast"
	"go/token"
	"strconv"
	"strings"
)

// genC11 (property C11, host/device copies) re-reads, on every run, the parts of the Go sources the
// hand-written models MgpuModel/C11.lean, C11Cp.lean and C11Mq.lean transcribe, and writes them to
// lean/MgpuModel/Gen/C11Copy.lean:
//
//	(a) constants: NewDMAEngine's Log2AccessSize, maxRequestCount and the buffer sizes of ToCP / ToMem;
//	    the buffer sizes of the driver's GPU port (amd/driver/builder.go); the buffer sizes of the
//	    command processor's ToDriver / ToDMA / ToCaches ports (amd/timing/cp/builder.go); the width of
//	    the numCacheACK counter;
//	(b) memRangeOverlap, translated statement by statement into a Lean function;
//	(c) the comparison operators and literals of the delay line of defaultMemoryCopyMiddleware.Tick,
//	    of DMAEngine.parseFromCP, of cpMiddleware.processFlushReq / processMemCopyReq and of the guard
//	    of ctrlMiddleware.processCacheFlushRsp;
//	(d) the stage order of DMAEngine.Tick, CommandProcessor.Tick, processReqFromDriver,
//	    processRspFromInternal, cpMiddleware.Tick / HandleInternal, ctrlMiddleware.Tick /
//	    HandleInternal and Driver.Tick; the type-switch dispatch tables of the copy path;
//	(e) the piece arithmetic of the split loops (driver: default and global-storage middleware, H2D
//	    and D2H; DMA engine: H2D and D2H; emulator storage accessor: Read and Write), translated into
//	    Lean functions over Nat; the variants of one loop must be identical up to buffer names;
//	(f) a hash of the normalised source of every function the models transcribe by hand.
//
// MgpuProofs/Props/C11Tie.lean proves that the models use exactly these constants, operators, stage
// orders and formulas. Every other shape is refused.
func init() { extraGens = append(extraGens, gen{"c11", genC11}) }

func c11Fn(c *c05File, name string) *ast.FuncDecl {
	recv, meth := "", name
	if i := strings.Index(name, "."); i >= 0 {
		recv, meth = name[:i], name[i+1:]
	}
	for _, d := range c.f.Decls {
		if fd, ok := d.(*ast.FuncDecl); ok && fd.Name.Name == meth && c05RecvName(fd) == recv && fd.Body != nil {
			return fd
		}
	}
	fatalf("c11: function %s not found in %s", name, c.rel)
	return nil
}

func c11FuncName(fd *ast.FuncDecl) string {
	if r := c05RecvName(fd); r != "" {
		return r + "." + fd.Name.Name
	}
	return fd.Name.Name
}

// recvIdent returns the name of the receiver variable of fd ("" for a plain function).
func c11RecvIdent(fd *ast.FuncDecl) string {
	if fd.Recv == nil || len(fd.Recv.List) == 0 || len(fd.Recv.List[0].Names) == 0 {
		return ""
	}
	return fd.Recv.List[0].Names[0].Name
}

// ---------------------------------------------------------------------------------------------
// (a) constants

// c11AssignedInt returns the integer literal assigned by the unique `lhs = LIT` inside fd.
func c11AssignedInt(c *c05File, fd *ast.FuncDecl, lhs string) int64 {
	var found []ast.Expr
	ast.Inspect(fd.Body, func(n ast.Node) bool {
		if a, ok := n.(*ast.AssignStmt); ok && a.Tok == token.ASSIGN && len(a.Lhs) == 1 && len(a.Rhs) == 1 && c05Text(a.Lhs[0]) == lhs {
			found = append(found, a.Rhs[0])
		}
		return true
	})
	if len(found) != 1 {
		fatalf("c11: %s %s: expected exactly one assignment `%s = …`, found %d", c.rel, c11FuncName(fd), lhs, len(found))
	}
	return c11IntLit(found[0], fmt.Sprintf("%s %s: value assigned to %s", c.rel, c11FuncName(fd), lhs))
}

// c11IntLit accepts an integer literal or its negation, nothing else.
func c11IntLit(e ast.Expr, where string) int64 {
	neg := false
	if u, ok := e.(*ast.UnaryExpr); ok && u.Op == token.SUB {
		neg = true
		e = u.X
	}
	l, ok := e.(*ast.BasicLit)
	if !ok || l.Kind != token.INT {
		fatalf("c11: %s: %q is not an integer literal", where, c05Text(e))
	}
	v, err := strconv.ParseInt(l.Value, 0, 64)
	if err != nil {
		fatalf("c11: %s: %v", where, err)
	}
	if neg {
		return -v
	}
	return v
}

// c11PortBufs returns the two buffer sizes of the unique `lhs = sim.NewPort(comp, IN, OUT, name)` in fd.
func c11PortBufs(c *c05File, fd *ast.FuncDecl, lhs string) (int64, int64) {
	var found []ast.Expr
	ast.Inspect(fd.Body, func(n ast.Node) bool {
		if a, ok := n.(*ast.AssignStmt); ok && a.Tok == token.ASSIGN && len(a.Lhs) == 1 && len(a.Rhs) == 1 && c05Text(a.Lhs[0]) == lhs {
			found = append(found, a.Rhs[0])
		}
		return true
	})
	if len(found) != 1 {
		fatalf("c11: %s %s: expected exactly one assignment `%s = sim.NewPort(…)`, found %d", c.rel, c11FuncName(fd), lhs, len(found))
	}
	call, ok := found[0].(*ast.CallExpr)
	if !ok || c05Text(call.Fun) != "sim.NewPort" || len(call.Args) != 4 {
		fatalf("c11: %s %s: `%s = %s` is not sim.NewPort(comp, in, out, name)", c.rel, c11FuncName(fd), lhs, c05Text(found[0]))
	}
	where := fmt.Sprintf("%s %s: buffer size of %s", c.rel, c11FuncName(fd), lhs)
	in, out := c11IntLit(call.Args[1], where), c11IntLit(call.Args[2], where)
	if in < 0 || out < 0 {
		fatalf("c11: %s: negative", where)
	}
	return in, out
}

// c11FieldType returns the type text of field `field` of struct `typ`.
func c11FieldType(c *c05File, typ, field string) string {
	for _, d := range c.f.Decls {
		gd, ok := d.(*ast.GenDecl)
		if !ok || gd.Tok != token.TYPE {
			continue
		}
		for _, s := range gd.Specs {
			ts := s.(*ast.TypeSpec)
			st, ok := ts.Type.(*ast.StructType)
			if !ok || ts.Name.Name != typ {
				continue
			}
			for _, f := range st.Fields.List {
				for _, n := range f.Names {
					if n.Name == field {
						return c05Text(f.Type)
					}
				}
			}
		}
	}
	fatalf("c11: %s: field %s.%s not found", c.rel, typ, field)
	return ""
}

// ---------------------------------------------------------------------------------------------
// expressions

var c11LeanCmp = map[token.Token]string{token.LEQ: "≤", token.LSS: "<", token.GTR: ">", token.GEQ: "≥", token.EQL: "="}

// c11Nat renders an unsigned integer expression as a Lean Nat term. env maps the normalised text of
// the leaves (identifiers, selectors) to Lean names. Supported: literals, leaves, ( ), + - *,
// uint64(x), x & (^uint64(0) << k) (= x / 2^k * 2^k), 1 << k (= 2^k), x << k (= x * 2^k), x >> k (= x / 2^k).
// Go's wrapping uint64 subtraction is rendered as Nat's truncated subtraction: the two agree
// whenever the Go code does not underflow.
func c11Nat(e ast.Expr, env map[string]string, where string) string {
	if v, ok := env[c05Text(e)]; ok {
		return v
	}
	switch x := e.(type) {
	case *ast.BasicLit:
		if x.Kind == token.INT {
			v, err := strconv.ParseUint(x.Value, 0, 64)
			if err == nil {
				return strconv.FormatUint(v, 10)
			}
		}
	case *ast.ParenExpr:
		return "(" + c11Nat(x.X, env, where) + ")"
	case *ast.CallExpr:
		if c05Text(x.Fun) == "uint64" && len(x.Args) == 1 {
			return c11Nat(x.Args[0], env, where)
		}
	case *ast.BinaryExpr:
		switch x.Op {
		case token.ADD, token.SUB, token.MUL:
			return c11NatAtom(x.X, env, where) + " " + x.Op.String() + " " + c11NatAtom(x.Y, env, where)
		case token.AND:
			// addr & (^uint64(0) << k): clear the low k bits
			if p, ok := x.Y.(*ast.ParenExpr); ok {
				if sh, ok := p.X.(*ast.BinaryExpr); ok && sh.Op == token.SHL && c05Text(sh.X) == "^uint64(0)" {
					k := c11NatAtom(sh.Y, env, where)
					return c11NatAtom(x.X, env, where) + " / 2 ^ " + k + " * 2 ^ " + k
				}
			}
		case token.SHL:
			if c05Text(x.X) == "1" {
				return "2 ^ " + c11NatAtom(x.Y, env, where)
			}
			return c11NatAtom(x.X, env, where) + " * 2 ^ " + c11NatAtom(x.Y, env, where)
		case token.SHR:
			return c11NatAtom(x.X, env, where) + " / 2 ^ " + c11NatAtom(x.Y, env, where)
		}
	}
	fatalf("c11: %s: expression %q has an unsupported shape", where, c05Text(e))
	return ""
}

// c11NatAtom parenthesises compound operands so that no Go / Lean precedence difference matters.
func c11NatAtom(e ast.Expr, env map[string]string, where string) string {
	s := c11Nat(e, env, where)
	if _, ok := e.(*ast.BinaryExpr); ok {
		return "(" + s + ")"
	}
	return s
}

// c11Bool renders a condition built from comparisons with && and || as a Lean Bool term.
func c11Bool(e ast.Expr, env map[string]string, where string) string {
	switch x := e.(type) {
	case *ast.ParenExpr:
		return "(" + c11Bool(x.X, env, where) + ")"
	case *ast.BinaryExpr:
		switch x.Op {
		case token.LAND:
			return "(" + c11Bool(x.X, env, where) + " && " + c11Bool(x.Y, env, where) + ")"
		case token.LOR:
			return "(" + c11Bool(x.X, env, where) + " || " + c11Bool(x.Y, env, where) + ")"
		}
		if op, ok := c11LeanCmp[x.Op]; ok {
			return "decide (" + c11Nat(x.X, env, where) + " " + op + " " + c11Nat(x.Y, env, where) + ")"
		}
	}
	fatalf("c11: %s: condition %q has an unsupported shape (supported: <= < > >= == && ||)", where, c05Text(e))
	return ""
}

// ---------------------------------------------------------------------------------------------
// (b) memRangeOverlap

func c11MemRangeOverlap(c *c05File) (string, []string) {
	fd := c11Fn(c, "memRangeOverlap")
	where := c.rel + " memRangeOverlap"
	var params []string
	for _, p := range fd.Type.Params.List {
		if c05Text(p.Type) != "uint64" {
			fatalf("c11: %s: parameter type %s (expected uint64)", where, c05Text(p.Type))
		}
		for _, n := range p.Names {
			params = append(params, n.Name)
		}
	}
	if len(params) != 4 {
		fatalf("c11: %s: %d parameters (expected 4)", where, len(params))
	}
	if fd.Type.Results == nil || len(fd.Type.Results.List) != 1 || c05Text(fd.Type.Results.List[0].Type) != "bool" {
		fatalf("c11: %s: result type is not bool", where)
	}
	env := map[string]string{}
	for _, p := range params {
		env[p] = p
	}
	isRet := func(s ast.Stmt, v string) bool {
		r, ok := s.(*ast.ReturnStmt)
		return ok && len(r.Results) == 1 && c05Text(r.Results[0]) == v
	}
	stmts := fd.Body.List
	if len(stmts) < 2 || !isRet(stmts[len(stmts)-1], "false") {
		fatalf("c11: %s: the body does not end with `return false`", where)
	}
	var conds []string
	var b strings.Builder
	fmt.Fprintf(&b, "def memRangeOverlap (%s : Nat) : Bool :=\n", strings.Join(params, " "))
	for _, s := range stmts[:len(stmts)-1] {
		is, ok := s.(*ast.IfStmt)
		if !ok || is.Init != nil || is.Else != nil || len(is.Body.List) != 1 || !isRet(is.Body.List[0], "true") {
			fatalf("c11: %s: statement %q is not `if COND { return true }`", where, c05Text(s))
		}
		conds = append(conds, c05Text(is.Cond))
		fmt.Fprintf(&b, "  if %s then true else\n", c11Bool(is.Cond, env, where))
	}
	b.WriteString("  false\n")
	return b.String(), conds
}

// ---------------------------------------------------------------------------------------------
// (c) operators

func c11Cmp(c *c05File, fn, x, y string) string {
	found := c.cmpAll(c11Fn(c, fn), x, y)
	if len(found) != 1 {
		fatalf("c11: %s %s: expected exactly one comparison `%s OP %s`, found %d", c.rel, fn, x, y, len(found))
	}
	return found[0]
}

// c11Conjuncts splits the condition of the first `if` of fd at its top-level &&.
func c11Conjuncts(c *c05File, fn string) []string {
	fd := c11Fn(c, fn)
	if len(fd.Body.List) == 0 {
		fatalf("c11: %s %s: empty body", c.rel, fn)
	}
	is, ok := fd.Body.List[0].(*ast.IfStmt)
	if !ok || is.Init != nil || is.Else != nil || len(is.Body.List) != 1 || c05Text(is.Body.List[0]) != "return false" {
		fatalf("c11: %s %s: the first statement is not `if GUARD { return false }`", c.rel, fn)
	}
	var out []string
	var walk func(e ast.Expr)
	walk = func(e ast.Expr) {
		if b, ok := e.(*ast.BinaryExpr); ok && b.Op == token.LAND {
			walk(b.X)
			walk(b.Y)
			return
		}
		out = append(out, c05Text(e))
	}
	walk(is.Cond)
	return out
}

// c11ReturnFalseGuards returns the conditions of all top-level `if COND { return false }` statements of
// fn, in source order (the conditions under which the handler leaves the message in its port).
func c11ReturnFalseGuards(c *c05File, fn string) []string {
	var out []string
	for _, st := range c11Fn(c, fn).Body.List {
		is, ok := st.(*ast.IfStmt)
		if !ok || is.Init != nil || is.Else != nil || len(is.Body.List) != 1 || c05Text(is.Body.List[0]) != "return false" {
			continue
		}
		out = append(out, c05Text(is.Cond))
	}
	return out
}

// c11IfConds returns the conditions of every `if` inside fn, in source order (outer before inner).
func c11IfConds(c *c05File, fn string) []string {
	var out []string
	ast.Inspect(c11Fn(c, fn).Body, func(n ast.Node) bool {
		if is, ok := n.(*ast.IfStmt); ok {
			out = append(out, c05Text(is.Cond))
		}
		return true
	})
	return out
}

// ---------------------------------------------------------------------------------------------
// (d) stage order

// c11CallName names a call made on the receiver: `r.a.f(r.X, &r.y)` is "a.f X" (pointer arguments
// are checked by the caller, not named).
func c11CallName(call *ast.CallExpr, recv, where string) string {
	fun := c05Text(call.Fun)
	if !strings.HasPrefix(fun, recv+".") {
		fatalf("c11: %s: call %q is not made on the receiver %s", where, fun, recv)
	}
	name := strings.TrimPrefix(fun, recv+".")
	for _, a := range call.Args {
		t := c05Text(a)
		if strings.HasPrefix(t, "&") {
			continue
		}
		if !strings.HasPrefix(t, recv+".") {
			fatalf("c11: %s: argument %q of %s is not a field of the receiver", where, t, fun)
		}
		name += " " + strings.TrimPrefix(t, recv+".")
	}
	return name
}

// c11ProgressCall recognises `madeProgress = CALL || madeProgress` (the call is evaluated first, so it
// is never short-circuited away).
func c11ProgressCall(s ast.Stmt) *ast.CallExpr {
	as, ok := s.(*ast.AssignStmt)
	if !ok || as.Tok != token.ASSIGN || len(as.Lhs) != 1 || len(as.Rhs) != 1 || c05Text(as.Lhs[0]) != "madeProgress" {
		return nil
	}
	be, ok := as.Rhs[0].(*ast.BinaryExpr)
	if !ok || be.Op != token.LOR || c05Text(be.Y) != "madeProgress" {
		return nil
	}
	call, _ := be.X.(*ast.CallExpr)
	return call
}

// c11Stages lists the stages of a tick function in order. Accepted statements:
//
//	madeProgress := false                                  (first statement; nothing listed)
//	madeProgress = r.f(args) || madeProgress               "f args"
//	for _, v := range r.xs { madeProgress = v.f() || … }    "each xs: f"
//	msg := r.P.PeekIncoming()                              "peek P"
//	if msg == nil { return madeProgress }                  "stop if nil"
//	if !madeProgress { return false }                      "stop if no progress"
//	return madeProgress                                    (last statement; nothing listed)
func c11Stages(c *c05File, fn string) []string {
	fd := c11Fn(c, fn)
	recv := c11RecvIdent(fd)
	where := c.rel + " " + fn
	stmts := fd.Body.List
	if len(stmts) < 2 || c05Text(stmts[0]) != "madeProgress := false" || c05Text(stmts[len(stmts)-1]) != "return madeProgress" {
		fatalf("c11: %s: the body is not `madeProgress := false; …; return madeProgress`", where)
	}
	var out []string
	for _, s := range stmts[1 : len(stmts)-1] {
		if call := c11ProgressCall(s); call != nil {
			out = append(out, c11CallName(call, recv, where))
			continue
		}
		switch x := s.(type) {
		case *ast.RangeStmt:
			k, v := c05Text(x.Key), ""
			if x.Value != nil {
				v = c05Text(x.Value)
			}
			xs := c05Text(x.X)
			if k == "_" && v != "" && strings.HasPrefix(xs, recv+".") && len(x.Body.List) == 1 {
				if call := c11ProgressCall(x.Body.List[0]); call != nil && len(call.Args) == 0 && strings.HasPrefix(c05Text(call.Fun), v+".") {
					out = append(out, "each "+strings.TrimPrefix(xs, recv+".")+": "+strings.TrimPrefix(c05Text(call.Fun), v+"."))
					continue
				}
			}
		case *ast.AssignStmt:
			t := c05Text(x)
			if x.Tok == token.DEFINE && strings.HasPrefix(t, "msg := "+recv+".") && strings.HasSuffix(t, ".PeekIncoming()") {
				out = append(out, "peek "+strings.TrimSuffix(strings.TrimPrefix(t, "msg := "+recv+"."), ".PeekIncoming()"))
				continue
			}
		case *ast.IfStmt:
			switch c05Text(x) {
			case "if msg == nil { return madeProgress }":
				out = append(out, "stop if nil")
				continue
			case "if !madeProgress { return false }":
				out = append(out, "stop if no progress")
				continue
			}
		}
		fatalf("c11: %s: statement %q is not a stage of a supported shape", where, c05Text(s))
	}
	return out
}

// c11DmaTickStages is c11Stages for DMAEngine.Tick plus: `send` is called with a port P and the
// address of the queue toSendTo<P minus "To">.
func c11DmaTickStages(c *c05File) []string {
	fd := c11Fn(c, "DMAEngine.Tick")
	recv := c11RecvIdent(fd)
	for _, s := range fd.Body.List {
		call := c11ProgressCall(s)
		if call == nil || c05Text(call.Fun) != recv+".send" {
			continue
		}
		if len(call.Args) != 2 {
			fatalf("c11: %s DMAEngine.Tick: %q: send takes a port and a queue", c.rel, c05Text(call))
		}
		port := strings.TrimPrefix(c05Text(call.Args[0]), recv+".")
		want := "&" + recv + ".toSendTo" + strings.TrimPrefix(port, "To")
		if !strings.HasPrefix(port, "To") || c05Text(call.Args[1]) != want {
			fatalf("c11: %s DMAEngine.Tick: %q: the queue of port %s is not %s", c.rel, c05Text(call), port, want)
		}
	}
	return c11Stages(c, "DMAEngine.Tick")
}

// c11Dispatch lists the cases of the unique type switch of fn: (types, function called by the single
// statement of the case).
func c11Dispatch(c *c05File, fn string) [][2]string {
	fd := c11Fn(c, fn)
	recv := c11RecvIdent(fd)
	where := c.rel + " " + fn
	var sw []*ast.TypeSwitchStmt
	ast.Inspect(fd.Body, func(n ast.Node) bool {
		if s, ok := n.(*ast.TypeSwitchStmt); ok {
			sw = append(sw, s)
		}
		return true
	})
	if len(sw) != 1 {
		fatalf("c11: %s: expected exactly one type switch, found %d", where, len(sw))
	}
	var out [][2]string
	for _, cl := range sw[0].Body.List {
		cc := cl.(*ast.CaseClause)
		types := "default"
		if cc.List != nil {
			var ts []string
			for _, t := range cc.List {
				ts = append(ts, c05Text(t))
			}
			types = strings.Join(ts, ", ")
		}
		if len(cc.Body) != 1 {
			fatalf("c11: %s: case %s has %d statements (expected 1)", where, types, len(cc.Body))
		}
		var e ast.Expr
		switch s := cc.Body[0].(type) {
		case *ast.ReturnStmt:
			if len(s.Results) == 1 {
				e = s.Results[0]
			}
		case *ast.ExprStmt:
			e = s.X
		case *ast.AssignStmt:
			if len(s.Rhs) == 1 && len(s.Lhs) == 1 && (c05Text(s.Lhs[0]) == "madeProgress" || c05Text(s.Lhs[0]) == "cloned") {
				e = s.Rhs[0]
			}
		}
		call, ok := e.(*ast.CallExpr)
		if !ok {
			fatalf("c11: %s: case %s: %q is not a single call", where, types, c05Text(cc.Body[0]))
		}
		out = append(out, [2]string{types, strings.TrimPrefix(c05Text(call.Fun), recv+".")})
	}
	return out
}

// ---------------------------------------------------------------------------------------------
// (e) split loops

// c11Loop is the arithmetic skeleton of a `for left > 0 { … }` loop that cuts a range into pieces.
type c11Loop struct {
	where string
	inits []string   // normalised initialisations before the loop (buffer names abstracted)
	cond  ast.Expr   // loop condition
	arith []ast.Stmt // `x := e` and `if c { x = e }` statements of the body, in order
	adv   []ast.Stmt // `x += e` / `x -= e` statements of the body, in order
	other []string   // the remaining statements (effects), normalised; only listed, never compared
}

// c11Pure: an expression without calls (except the conversion uint64(…)), indexing or literals of
// composite types.
func c11Pure(e ast.Expr) bool {
	pure := true
	ast.Inspect(e, func(n ast.Node) bool {
		switch y := n.(type) {
		case *ast.CallExpr:
			if c05Text(y.Fun) != "uint64" {
				pure = false
			}
		case *ast.CompositeLit, *ast.IndexExpr, *ast.SliceExpr, *ast.TypeAssertExpr:
			pure = false
		}
		return true
	})
	return pure
}

// c11IsArith: `x := PURE` or `if A CMP B { x = PURE }`.
func c11IsArith(s ast.Stmt) bool {
	switch x := s.(type) {
	case *ast.AssignStmt:
		if x.Tok == token.DEFINE && len(x.Lhs) == 1 && len(x.Rhs) == 1 {
			return c11Pure(x.Rhs[0])
		}
	case *ast.IfStmt:
		cond, ok := x.Cond.(*ast.BinaryExpr)
		if ok && c11LeanCmp[cond.Op] != "" && c11Pure(cond) && x.Init == nil && x.Else == nil && len(x.Body.List) == 1 {
			if a, ok := x.Body.List[0].(*ast.AssignStmt); ok && a.Tok == token.ASSIGN && len(a.Lhs) == 1 && len(a.Rhs) == 1 && c11Pure(a.Rhs[0]) {
				if _, ok := a.Lhs[0].(*ast.Ident); ok {
					return true
				}
			}
		}
	}
	return false
}

// c11FindLoop returns the unique `for` statement of fd with its skeleton. abstract maps the
// initialisations of the loop variables to a form without buffer names.
func c11FindLoop(c *c05File, fn string, abstract func(string) string) *c11Loop {
	fd := c11Fn(c, fn)
	l := &c11Loop{where: c.rel + " " + fn}
	idx := -1
	for i, s := range fd.Body.List {
		if _, ok := s.(*ast.ForStmt); ok {
			if idx >= 0 {
				fatalf("c11: %s: more than one loop", l.where)
			}
			idx = i
		}
	}
	if idx < 0 {
		fatalf("c11: %s: no loop", l.where)
	}
	fs := fd.Body.List[idx].(*ast.ForStmt)
	if fs.Init != nil || fs.Post != nil || fs.Cond == nil {
		fatalf("c11: %s: the loop is not `for COND { … }`", l.where)
	}
	l.cond = fs.Cond
	// the run of `x := e` statements right before the loop initialises the loop variables
	for i := idx - 1; i >= 0; i-- {
		a, ok := fd.Body.List[i].(*ast.AssignStmt)
		if !ok || a.Tok != token.DEFINE || len(a.Lhs) != 1 {
			break
		}
		if _, ok := a.Lhs[0].(*ast.Ident); !ok {
			break
		}
		if c05Text(a.Lhs[0]) == "err" || c05Text(a.Lhs[0]) == "rawBytes" || c05Text(a.Lhs[0]) == "data" || c05Text(a.Lhs[0]) == "buffer" {
			break
		}
		l.inits = append([]string{abstract(c05Text(a))}, l.inits...)
	}
	for _, s := range fs.Body.List {
		if c11IsArith(s) {
			if len(l.adv) > 0 {
				fatalf("c11: %s: %q is computed after the loop variables were advanced", l.where, c05Text(s))
			}
			l.arith = append(l.arith, s)
			continue
		}
		if a, ok := s.(*ast.AssignStmt); ok && (a.Tok == token.ADD_ASSIGN || a.Tok == token.SUB_ASSIGN) && len(a.Lhs) == 1 {
			l.adv = append(l.adv, s)
			continue
		}
		if len(l.adv) > 0 {
			// an effect after the loop variables were advanced would see the advanced values
			if es, ok := s.(*ast.ExprStmt); !ok || !strings.Contains(c05Text(es), "logTaskToGPUInitiate") {
				fatalf("c11: %s: statement %q follows the advance of the loop variables", l.where, c05Text(s))
			}
		}
		l.other = append(l.other, c05Text(s))
	}
	return l
}

// signature is what two variants of a loop must share.
func (l *c11Loop) signature() string {
	var p []string
	p = append(p, "init: "+strings.Join(l.inits, "; "))
	p = append(p, "for "+c05Text(l.cond))
	for _, s := range l.arith {
		p = append(p, c05Text(s))
	}
	for _, s := range l.adv {
		p = append(p, c05Text(s))
	}
	return strings.Join(p, "\n    ")
}

func c11SameLoops(what string, ls ...*c11Loop) {
	for _, l := range ls[1:] {
		if l.signature() != ls[0].signature() {
			fatalf("c11: the %s loops diverge (they must be identical up to the names of the buffers):\n  %s:\n    %s\n  %s:\n    %s",
				what, ls[0].where, ls[0].signature(), l.where, l.signature())
		}
	}
}

// letChain renders the straight-line arithmetic of the loop as Lean `let`s ending in `result`,
// keeping only the statements `result` depends on. env maps inputs to Lean names.
func (l *c11Loop) letChain(result string, env map[string]string) string {
	type bind struct{ name, rhs, src string }
	var binds []bind
	local := map[string]string{}
	for k, v := range env {
		local[k] = v
	}
	for _, s := range l.arith {
		switch x := s.(type) {
		case *ast.AssignStmt:
			n := c05Text(x.Lhs[0])
			if _, dup := local[n]; dup {
				fatalf("c11: %s: %s is defined twice", l.where, n)
			}
			binds = append(binds, bind{n, c11Nat(x.Rhs[0], local, l.where), c05Text(x.Rhs[0])})
			local[n] = n
		case *ast.IfStmt:
			a := x.Body.List[0].(*ast.AssignStmt)
			n := c05Text(a.Lhs[0])
			if _, ok := local[n]; !ok {
				fatalf("c11: %s: %q assigns %s before its definition", l.where, c05Text(x), n)
			}
			cond, ok := x.Cond.(*ast.BinaryExpr)
			if !ok || c11LeanCmp[cond.Op] == "" {
				fatalf("c11: %s: condition %q is not a comparison", l.where, c05Text(x.Cond))
			}
			rhs := "if " + c11Nat(cond.X, local, l.where) + " " + c11LeanCmp[cond.Op] + " " + c11Nat(cond.Y, local, l.where) +
				" then " + c11Nat(a.Rhs[0], local, l.where) + " else " + n
			binds = append(binds, bind{n, rhs, c05Text(x.Cond) + " " + c05Text(a.Rhs[0])})
		}
	}
	// prune: keep the bindings `result` depends on (walking backwards)
	need := map[string]bool{result: true}
	keep := make([]bool, len(binds))
	found := false
	for i := len(binds) - 1; i >= 0; i-- {
		if !need[binds[i].name] {
			continue
		}
		keep[i] = true
		found = true
		for _, w := range strings.FieldsFunc(binds[i].src, func(r rune) bool {
			return !(r == '_' || r == '.' || r >= 'a' && r <= 'z' || r >= 'A' && r <= 'Z' || r >= '0' && r <= '9')
		}) {
			need[w] = true
		}
		// an `if` rebinding also needs the previous value of the same name (kept in need)
		if !strings.HasPrefix(binds[i].rhs, "if ") {
			// a plain definition ends the dependency on earlier bindings of this name
			selfUsed := false
			for _, w := range strings.Fields(binds[i].src) {
				if w == binds[i].name {
					selfUsed = true
				}
			}
			if !selfUsed {
				delete(need, binds[i].name)
			}
		}
	}
	if !found {
		fatalf("c11: %s: no definition of %s in the loop", l.where, result)
	}
	var b strings.Builder
	for i, bd := range binds {
		if keep[i] {
			fmt.Fprintf(&b, "  let %s := %s\n", bd.name, bd.rhs)
		}
	}
	fmt.Fprintf(&b, "  %s\n", result)
	return b.String()
}

// advance renders the `x += n` / `x -= n` statements as the tuple of the next values of vars.
func (l *c11Loop) advance(vars []string, step string) string {
	var parts []string
	for _, v := range vars {
		var hit []string
		for _, s := range l.adv {
			a := s.(*ast.AssignStmt)
			if c05Text(a.Lhs[0]) != v {
				continue
			}
			if c05Text(a.Rhs[0]) != step {
				fatalf("c11: %s: %q does not advance by %s", l.where, c05Text(s), step)
			}
			op := "+"
			if a.Tok == token.SUB_ASSIGN {
				op = "-"
			}
			hit = append(hit, v+" "+op+" "+step)
		}
		if len(hit) != 1 {
			fatalf("c11: %s: expected exactly one `%s ±= %s`, found %d", l.where, v, step, len(hit))
		}
		parts = append(parts, hit[0])
	}
	if len(l.adv) != len(vars) {
		fatalf("c11: %s: %d advance statements (expected %d: %s)", l.where, len(l.adv), len(vars), strings.Join(vars, ", "))
	}
	return "(" + strings.Join(parts, ", ") + ")"
}

func (l *c11Loop) contCond(v string) string {
	b, ok := l.cond.(*ast.BinaryExpr)
	if !ok || c11LeanCmp[b.Op] == "" || c05Text(b.X) != v {
		fatalf("c11: %s: loop condition %q is not a comparison of %s", l.where, c05Text(l.cond), v)
	}
	return "decide (" + v + " " + c11LeanCmp[b.Op] + " " + c11Nat(b.Y, map[string]string{}, l.where) + ")"
}

// ---------------------------------------------------------------------------------------------

func c11StrList(l []string) string {
	q := make([]string, len(l))
	for i, s := range l {
		q[i] = leanStr(s)
	}
	return "[" + strings.Join(q, ", ") + "]"
}

func c11PairList(l [][2]string) string {
	q := make([]string, len(l))
	for i, s := range l {
		q[i] = "(" + leanStr(s[0]) + ", " + leanStr(s[1]) + ")"
	}
	return "[" + strings.Join(q, ", ") + "]"
}

func genC11() {
	parse := func(rel string) *c05File { return c05Parse(*repo+"/"+rel, rel) }
	mc := parse("amd/driver/memorycopy.go")
	mg := parse("amd/driver/memorycopyglobalstorage.go")
	drv := parse("amd/driver/driver.go")
	drvB := parse("amd/driver/builder.go")
	dma := parse("amd/timing/cp/dma.go")
	cpm := parse("amd/timing/cp/cpMiddleware.go")
	ctl := parse("amd/timing/cp/ctrlMiddleware.go")
	cpc := parse("amd/timing/cp/commandprocessor.go")
	cpB := parse("amd/timing/cp/builder.go")
	acc := parse("amd/emu/storageaccessor.go")

	var b strings.Builder
	b.WriteString("-- GENERATED by translate/c11.go from the mgpusim sources (amd/driver, amd/timing/cp, amd/emu). Do not edit.\n")
	b.WriteString("namespace Gen\nnamespace C11Copy\n\n")
	nat := func(name, doc string, v int64) {
		fmt.Fprintf(&b, "/-- %s -/\ndef %s : Nat := %d\n", doc, name, v)
	}
	str := func(name, doc, v string) {
		fmt.Fprintf(&b, "/-- %s -/\ndef %s : String := %s\n", doc, name, leanStr(v))
	}
	strs := func(name, doc string, v []string) {
		fmt.Fprintf(&b, "/-- %s -/\ndef %s : List String := %s\n", doc, name, c11StrList(v))
	}
	pairs := func(name, doc string, v [][2]string) {
		fmt.Fprintf(&b, "/-- %s -/\ndef %s : List (String × String) := %s\n", doc, name, c11PairList(v))
	}

	// (a) constants
	b.WriteString("/-! ## (a) constants -/\n\n")
	newDMA := c11Fn(dma, "NewDMAEngine")
	nat("log2AccessSize", "`NewDMAEngine`: `dma.Log2AccessSize = …`", c11AssignedInt(dma, newDMA, "dma.Log2AccessSize"))
	nat("maxRequestCount", "`NewDMAEngine`: `dma.maxRequestCount = …`", c11AssignedInt(dma, newDMA, "dma.maxRequestCount"))
	in, out := c11PortBufs(dma, newDMA, "dma.ToCP")
	nat("dmaToCPInBuf", "`NewDMAEngine`: incoming buffer of `dma.ToCP`", in)
	nat("dmaToCPOutBuf", "`NewDMAEngine`: outgoing buffer of `dma.ToCP`", out)
	in, out = c11PortBufs(dma, newDMA, "dma.ToMem")
	nat("dmaToMemInBuf", "`NewDMAEngine`: incoming buffer of `dma.ToMem`", in)
	nat("dmaToMemOutBuf", "`NewDMAEngine`: outgoing buffer of `dma.ToMem`", out)
	in, out = c11PortBufs(drvB, c11Fn(drvB, "Builder.Build"), "driver.gpuPort")
	nat("gpuPortInBuf", "`driver.Builder.Build`: incoming buffer of `driver.gpuPort`", in)
	nat("gpuPortOutBuf", "`driver.Builder.Build`: outgoing buffer of `driver.gpuPort`", out)
	for _, p := range []string{"ToDriver", "ToDMA", "ToCaches"} {
		in, out = c11PortBufs(cpB, c11Fn(cpB, "Builder.createPorts"), "cp."+p)
		nat("cp"+p+"InBuf", "`cp.Builder.createPorts`: incoming buffer of `cp."+p+"`", in)
		nat("cp"+p+"OutBuf", "`cp.Builder.createPorts`: outgoing buffer of `cp."+p+"`", out)
	}
	ackT := c11FieldType(cpc, "CommandProcessor", "numCacheACK")
	if !strings.HasPrefix(ackT, "uint") || ackT == "uint" || ackT == "uintptr" {
		fatalf("c11: %s: CommandProcessor.numCacheACK has type %s (expected a sized unsigned integer)", cpc.rel, ackT)
	}
	bits, err := strconv.Atoi(strings.TrimPrefix(ackT, "uint"))
	if err != nil {
		fatalf("c11: %s: CommandProcessor.numCacheACK has type %s", cpc.rel, ackT)
	}
	nat("numCacheACKBits", "`CommandProcessor.numCacheACK` is a `"+ackT+"`: decrementing 0 gives `2 ^ bits - 1`", int64(bits))
	str("cyclesLeftType", "`defaultMemoryCopyMiddleware.cyclesLeft` (signed: the idle value is negative)",
		c11FieldType(mc, "defaultMemoryCopyMiddleware", "cyclesLeft"))

	// (b) memRangeOverlap
	b.WriteString("\n/-! ## (b) `memRangeOverlap` -/\n\n")
	def, conds := c11MemRangeOverlap(mc)
	fmt.Fprintf(&b, "/-- `driver.memRangeOverlap`: `if %s { return true }` …; `return false` -/\n%s", strings.Join(conds, " { return true }; if "), def)

	// (c) operators
	b.WriteString("\n/-! ## (c) comparison operators and literals -/\n\n")
	cmpN := func(c *c05File, fn, x, y string, n int) []string {
		ops := c.cmpAll(c11Fn(c, fn), x, y)
		if len(ops) != n {
			fatalf("c11: %s %s: expected %d comparison(s) `%s OP %s`, found %d", c.rel, fn, n, x, y, len(ops))
		}
		return ops
	}
	mcTick := "defaultMemoryCopyMiddleware.Tick"
	c11DelayShape(mc, mcTick)
	ops := cmpN(mc, mcTick, "m.cyclesLeft", "0", 2)
	str("delayCountdownOp", "`defaultMemoryCopyMiddleware.Tick`: `if m.cyclesLeft OP 0 { m.cyclesLeft--; … }`", ops[0])
	str("delayReleaseOp", "`defaultMemoryCopyMiddleware.Tick`: `else if m.cyclesLeft OP 0 { requestsToSend = append(requestsToSend, awaitingReqs...); … }`", ops[1])
	fmt.Fprintf(&b, "/-- `defaultMemoryCopyMiddleware.Tick`: the value `m.cyclesLeft = …` of the idle delay line -/\ndef delayIdleValue : Int := %d\n",
		c11AssignedInt(mc, c11Fn(mc, mcTick), "m.cyclesLeft"))
	str("drvDoneOp", "`defaultMemoryCopyMiddleware.completeCommandIfDone`: `if len(cmd.GetReqs()) OP 0 { return }`",
		cmpN(mc, "defaultMemoryCopyMiddleware.completeCommandIfDone", "len(cmd.GetReqs())", "0", 1)[0])
	str("dmaFullOp", "`DMAEngine.parseFromCP`: `if uint64(len(dma.processingReqs)) OP dma.maxRequestCount { return false }`",
		cmpN(dma, "DMAEngine.parseFromCP", "uint64(len(dma.processingReqs))", "dma.maxRequestCount", 1)[0])
	str("dmaFinishedOp", "`RequestCollection.isFinished`: `return rqC.subordinateCount OP 0`",
		cmpN(dma, "RequestCollection.isFinished", "rqC.subordinateCount", "0", 1)[0])
	ops = cmpN(cpm, "cpMiddleware.processFlushReq", "m.numCacheACK", "0", 2)
	str("cpFlushBusyOp", "`cpMiddleware.processFlushReq`: `if m.numCacheACK OP 0 { return false }`", ops[0])
	str("cpFlushNoCacheOp", "`cpMiddleware.processFlushReq`: `if m.numCacheACK OP 0 { … ToDriver.Send(rsp) … }` after the caches were asked", ops[1])
	str("cpCopyBusyOp", "`cpMiddleware.processMemCopyReq`: `if m.numCacheACK OP 0 { return false }`",
		cmpN(cpm, "cpMiddleware.processMemCopyReq", "m.numCacheACK", "0", 1)[0])
	strs("cpFlushGuard", "`cpMiddleware.processFlushReq`: conjuncts of the first `if … { return false }`", c11Conjuncts(cpm, "cpMiddleware.processFlushReq"))
	strs("cpCopyGuard", "`cpMiddleware.processMemCopyReq`: conjuncts of the first `if … { return false }`", c11Conjuncts(cpm, "cpMiddleware.processMemCopyReq"))
	strs("cpCopyRspGuard", "`cpMiddleware.processMemCopyRsp`: conjuncts of the first `if … { return false }`", c11Conjuncts(cpm, "cpMiddleware.processMemCopyRsp"))
	str("ctrlLastAckOp", "`ctrlMiddleware.processCacheFlushRsp`: `m.numCacheACK OP 1` in the guard", cmpN(ctl, "ctrlMiddleware.processCacheFlushRsp", "m.numCacheACK", "1", 1)[0])
	str("ctrlAllAckedOp", "`ctrlMiddleware.processCacheFlushRsp`: `if m.numCacheACK OP 0 { … answer the flush … }`", cmpN(ctl, "ctrlMiddleware.processCacheFlushRsp", "m.numCacheACK", "0", 1)[0])
	strs("ctrlLastAckGuard", "`ctrlMiddleware.processCacheFlushRsp`: conjuncts of the first `if … { return false }`", c11Conjuncts(ctl, "ctrlMiddleware.processCacheFlushRsp"))
	// the three users of numCacheACK (model `MgpuModel/C11CpShare.lean`)
	strs("cpFlushWaits", "`cpMiddleware.processFlushReq`: every top-level `if COND { return false }`, in order", c11ReturnFalseGuards(cpm, "cpMiddleware.processFlushReq"))
	strs("cpCopyWaits", "`cpMiddleware.processMemCopyReq`: every top-level `if COND { return false }`, in order", c11ReturnFalseGuards(cpm, "cpMiddleware.processMemCopyReq"))
	strs("cpLaunchWaits", "`cpMiddleware.processLaunchKernelReq`: every top-level `if COND { return false }`, in order", c11ReturnFalseGuards(cpm, "cpMiddleware.processLaunchKernelReq"))
	strs("ctrlShootdownWaits", "`ctrlMiddleware.processShootdownCommand`: every top-level `if COND { return false }`, in order", c11ReturnFalseGuards(ctl, "ctrlMiddleware.processShootdownCommand"))
	strs("cpInvalidateIfs", "`cpMiddleware.invalidateL1CachesBeforeKernel`: the condition of every `if`, in source order", c11IfConds(cpm, "cpMiddleware.invalidateL1CachesBeforeKernel"))
	strs("ctrlCacheRspIfs", "`ctrlMiddleware.processCacheFlushRsp`: the condition of every `if`, in source order (outer before inner)", c11IfConds(ctl, "ctrlMiddleware.processCacheFlushRsp"))

	// (d) stage order
	b.WriteString("\n/-! ## (d) stage order and dispatch -/\n\n")
	strs("dmaTickStages", "`DMAEngine.Tick`", c11DmaTickStages(dma))
	strs("cpTickStages", "`CommandProcessor.Tick`", c11Stages(cpc, "CommandProcessor.Tick"))
	strs("cpReqFromDriverStages", "`CommandProcessor.processReqFromDriver`", c11Stages(cpc, "CommandProcessor.processReqFromDriver"))
	strs("cpRspFromInternalStages", "`CommandProcessor.processRspFromInternal`", c11Stages(cpc, "CommandProcessor.processRspFromInternal"))
	strs("cpMwTickStages", "`cpMiddleware.Tick`", c11Stages(cpm, "cpMiddleware.Tick"))
	strs("cpMwHandleInternalStages", "`cpMiddleware.HandleInternal`", c11Stages(cpm, "cpMiddleware.HandleInternal"))
	strs("ctrlMwTickStages", "`ctrlMiddleware.Tick`", c11Stages(ctl, "ctrlMiddleware.Tick"))
	strs("ctrlMwHandleInternalStages", "`ctrlMiddleware.HandleInternal`", c11Stages(ctl, "ctrlMiddleware.HandleInternal"))
	strs("driverTickStages", "`Driver.Tick`", c11Stages(drv, "Driver.Tick"))
	pairs("cpHandleDispatch", "`cpMiddleware.Handle`: type switch on the head of ToDriver", c11Dispatch(cpm, "cpMiddleware.Handle"))
	pairs("cpRspFromDMAsDispatch", "`cpMiddleware.processRspFromDMAs`", c11Dispatch(cpm, "cpMiddleware.processRspFromDMAs"))
	pairs("cpCloneDispatch", "`cpMiddleware.processMemCopyReq`", c11Dispatch(cpm, "cpMiddleware.processMemCopyReq"))
	pairs("ctrlRspFromCachesDispatch", "`ctrlMiddleware.processRspFromCaches`", c11Dispatch(ctl, "ctrlMiddleware.processRspFromCaches"))
	pairs("drvProcessCommandDispatch", "`defaultMemoryCopyMiddleware.ProcessCommand`", c11Dispatch(mc, "defaultMemoryCopyMiddleware.ProcessCommand"))
	pairs("drvTickDispatch", "`defaultMemoryCopyMiddleware.Tick`: type switch on the head of the GPU port", c11Dispatch(mc, mcTick))
	pairs("drvGeneralRspDispatch", "`defaultMemoryCopyMiddleware.processGeneralRsp`", c11Dispatch(mc, "defaultMemoryCopyMiddleware.processGeneralRsp"))
	pairs("dmaParseFromMemDispatch", "`DMAEngine.parseFromMem`", c11Dispatch(dma, "DMAEngine.parseFromMem"))
	pairs("dmaParseFromCPDispatch", "`DMAEngine.parseFromCP`", c11Dispatch(dma, "DMAEngine.parseFromCP"))

	// (e) split loops
	b.WriteString("\n/-! ## (e) piece arithmetic of the split loops\n\nGo's `uint64` arithmetic is rendered over `Nat` (`-` truncated): the two agree as long as the Go code\ndoes not wrap, i.e. the page found contains `addr` and the quantities stay below `2^64`. -/\n\n")
	drvAbs := func(s string) string {
		for _, p := range [][2]string{{"addr := uint64(cmd.Dst)", "addr := uint64(cmd.<device pointer>)"}, {"addr := uint64(cmd.Src)", "addr := uint64(cmd.<device pointer>)"},
			{"sizeLeft := uint64(len(rawBytes))", "sizeLeft := uint64(len(<bytes>))"}, {"sizeLeft := uint64(len(cmd.RawData))", "sizeLeft := uint64(len(<bytes>))"}} {
			if s == p[0] {
				return p[1]
			}
		}
		return s
	}
	dH := c11FindLoop(mc, "defaultMemoryCopyMiddleware.processMemCopyH2DCommand", drvAbs)
	dD := c11FindLoop(mc, "defaultMemoryCopyMiddleware.processMemCopyD2HCommand", drvAbs)
	gH := c11FindLoop(mg, "globalStorageMemoryCopyMiddleware.processMemCopyH2DCommand", drvAbs)
	gD := c11FindLoop(mg, "globalStorageMemoryCopyMiddleware.processMemCopyD2HCommand", drvAbs)
	c11SameLoops("driver page-split", dH, dD, gH, gD)
	wantInit := "offset := uint64(0); addr := uint64(cmd.<device pointer>); sizeLeft := uint64(len(<bytes>))"
	if got := strings.Join(dH.inits, "; "); got != wantInit {
		fatalf("c11: %s: loop variables are initialised by `%s` (expected `%s`)", dH.where, got, wantInit)
	}
	for _, l := range []*c11Loop{dH, dD, gH, gD} {
		if len(l.other) < 2 || !strings.HasPrefix(l.other[0], "page, found := m.driver.pageTable.Find(queue.Context.pid, addr)") ||
			l.other[1] != `if !found { panic("page not found") }` {
			fatalf("c11: %s: the loop does not start with the page lookup at addr and the `page not found` panic", l.where)
		}
	}
	pageEnv := map[string]string{"page.PAddr": "pagePAddr", "page.VAddr": "pageVAddr", "page.PageSize": "pageSize", "addr": "addr", "sizeLeft": "sizeLeft"}
	fmt.Fprintf(&b, "/-- `processMemCopyH2D/D2HCommand` (default and global-storage middleware, identical): loop variables\n    start as `%s` -/\ndef drvStartOffset : Nat := 0\n", wantInit)
	fmt.Fprintf(&b, "/-- loop condition `for %s` -/\ndef drvContinue (sizeLeft : Nat) : Bool := %s\n", c05Text(dH.cond), dH.contCond("sizeLeft"))
	fmt.Fprintf(&b, "/-- physical address of the piece -/\ndef drvPAddr (pagePAddr pageVAddr addr : Nat) : Nat :=\n%s", dH.letChain("pAddr", pageEnv))
	fmt.Fprintf(&b, "/-- length of the piece -/\ndef drvSizeToCopy (pageSize pageVAddr addr sizeLeft : Nat) : Nat :=\n%s", dH.letChain("sizeToCopy", pageEnv))
	fmt.Fprintf(&b, "/-- the loop variables after the piece: %s -/\ndef drvNext (addr offset sizeLeft sizeToCopy : Nat) : Nat × Nat × Nat :=\n  %s\n",
		c11StmtTexts(dH.adv), dH.advance([]string{"addr", "offset", "sizeLeft"}, "sizeToCopy"))

	dmaAbs := func(s string) string {
		for _, p := range [][2]string{{"lengthLeft := uint64(len(req.SrcBuffer))", "lengthLeft := uint64(len(req.<buffer>))"}, {"lengthLeft := uint64(len(req.DstBuffer))", "lengthLeft := uint64(len(req.<buffer>))"},
			{"addr := req.DstAddress", "addr := req.<device address>"}, {"addr := req.SrcAddress", "addr := req.<device address>"}} {
			if s == p[0] {
				return p[1]
			}
		}
		return s
	}
	mH := c11FindLoop(dma, "DMAEngine.parseMemCopyH2D", dmaAbs)
	mD := c11FindLoop(dma, "DMAEngine.parseMemCopyD2H", dmaAbs)
	c11SameLoops("DMA unit-split", mH, mD)
	wantInit = "offset := uint64(0); lengthLeft := uint64(len(req.<buffer>)); addr := req.<device address>"
	if got := strings.Join(mH.inits, "; "); got != wantInit {
		fatalf("c11: %s: loop variables are initialised by `%s` (expected `%s`)", mH.where, got, wantInit)
	}
	dmaEnv := map[string]string{"dma.Log2AccessSize": "log2", "addr": "addr", "lengthLeft": "lengthLeft"}
	fmt.Fprintf(&b, "\n/-- `DMAEngine.parseMemCopyH2D/D2H` (identical): loop variables start as `%s` -/\ndef dmaStartOffset : Nat := 0\n", wantInit)
	fmt.Fprintf(&b, "/-- loop condition `for %s` -/\ndef dmaContinue (lengthLeft : Nat) : Bool := %s\n", c05Text(mH.cond), mH.contCond("lengthLeft"))
	fmt.Fprintf(&b, "/-- length of the sub-request -/\ndef dmaLength (log2 addr lengthLeft : Nat) : Nat :=\n%s", mH.letChain("length", dmaEnv))
	fmt.Fprintf(&b, "/-- the loop variables after the sub-request: %s -/\ndef dmaNext (addr offset lengthLeft length : Nat) : Nat × Nat × Nat :=\n  %s\n",
		c11StmtTexts(mH.adv), mH.advance([]string{"addr", "offset", "lengthLeft"}, "length"))

	accAbs := func(s string) string {
		for _, p := range [][2]string{{"sizeLeft := byteSize", "sizeLeft := <size>"}, {"sizeLeft := uint64(len(data))", "sizeLeft := <size>"}} {
			if s == p[0] {
				return p[1]
			}
		}
		return s
	}
	aR := c11FindLoop(acc, "storageAccessorImpl.Read", accAbs)
	aW := c11FindLoop(acc, "storageAccessorImpl.Write", accAbs)
	// the two functions name the piece length sizeToRead / sizeToWrite
	aRs, aWs := strings.ReplaceAll(aR.signature(), "sizeToRead", "sizeToAccess"), strings.ReplaceAll(aW.signature(), "sizeToWrite", "sizeToAccess")
	if aRs != aWs {
		fatalf("c11: the storage accessor loops diverge (they must be identical up to sizeToRead / sizeToWrite):\n  %s:\n    %s\n  %s:\n    %s", aR.where, aRs, aW.where, aWs)
	}
	wantInit = "sizeLeft := <size>; offset := uint64(0)"
	if got := strings.Join(aR.inits, "; "); got != wantInit {
		fatalf("c11: %s: loop variables are initialised by `%s` (expected `%s`)", aR.where, got, wantInit)
	}
	accEnv := map[string]string{"a.log2PageSize": "log2PageSize", "vAddr": "vAddr", "offset": "offset", "sizeLeft": "sizeLeft",
		"page.PAddr": "pagePAddr", "page.VAddr": "pageVAddr"}
	fmt.Fprintf(&b, "\n/-- `storageAccessorImpl.Read/Write` (identical): loop variables start as `%s` -/\ndef accStartOffset : Nat := 0\n", wantInit)
	fmt.Fprintf(&b, "/-- loop condition `for %s` -/\ndef accContinue (sizeLeft : Nat) : Bool := %s\n", c05Text(aR.cond), aR.contCond("sizeLeft"))
	fmt.Fprintf(&b, "/-- virtual address of the piece -/\ndef accVAddr (vAddr offset : Nat) : Nat :=\n%s", aR.letChain("currVAddr", accEnv))
	fmt.Fprintf(&b, "/-- length of the piece -/\ndef accSize (log2PageSize vAddr offset sizeLeft : Nat) : Nat :=\n%s", aR.letChain("sizeToRead", accEnv))
	fmt.Fprintf(&b, "/-- physical address of the piece -/\ndef accPAddr (pagePAddr pageVAddr vAddr offset : Nat) : Nat :=\n%s", aR.letChain("pAddr", accEnv))
	fmt.Fprintf(&b, "/-- the loop variables after the piece: %s -/\ndef accNext (offset sizeLeft sizeToRead : Nat) : Nat × Nat :=\n  %s\n",
		c11StmtTexts(aR.adv), aR.advance([]string{"offset", "sizeLeft"}, "sizeToRead"))

	// (f) hashes
	type hf struct {
		c     *c05File
		names []string // nil: every function of the file
	}
	b.WriteString("\n/-! ## (f) the hand-transcribed functions -/\n\n/-- (file, function, hash of the normalised source) of every function the models `C11.pieces`, `C11.Dma`,\n    `C11.Cp`, `C11.CpS`, `C11.Mq`, `C11.needFlushing`, `C11.accStep` transcribe by hand -/\ndef modelledFuncs : List (String × String × String) := [\n")
	var rows []string
	for _, h := range []hf{
		{mc, nil},
		{mg, nil},
		{drv, []string{"Driver.Tick", "Driver.sendToGPUs", "Driver.processReturnReq", "Driver.processNewCommand", "Driver.processNewCommandFromContext",
			"Driver.processNewCommandFromCmdQueue", "Driver.processOneCommand", "Driver.processCommandWithMiddleware", "Driver.findCommandByReq"}},
		{dma, nil},
		{cpm, []string{"cpMiddleware.Tick", "cpMiddleware.Handle", "cpMiddleware.HandleInternal", "cpMiddleware.processRspFromDMAs", "cpMiddleware.processMemCopyRsp",
			"cpMiddleware.findAndRemoveOriginalMemCopyRequest", "cpMiddleware.processFlushReq", "cpMiddleware.processMemCopyReq",
			"cpMiddleware.cloneMemCopyH2DReq", "cpMiddleware.cloneMemCopyD2HReq", "cpMiddleware.flushCache",
			"cpMiddleware.processLaunchKernelReq", "cpMiddleware.invalidateL1CachesBeforeKernel", "cpMiddleware.invalidateCache",
			"cpMiddleware.findAvailableDispatcher"}},
		{ctl, []string{"ctrlMiddleware.Tick", "ctrlMiddleware.HandleInternal", "ctrlMiddleware.processRspFromCaches", "ctrlMiddleware.processCacheFlushRsp",
			"ctrlMiddleware.processRegularCacheFlush", "ctrlMiddleware.processCacheFlushCausedByTLBShootdown",
			"ctrlMiddleware.Handle", "ctrlMiddleware.processShootdownCommand", "ctrlMiddleware.processRspFromCUs", "ctrlMiddleware.processRspFromATs",
			"ctrlMiddleware.processRspFromTLBs", "ctrlMiddleware.processCUPipelineFlushRsp", "ctrlMiddleware.processAddressTranslatorFlushRsp",
			"ctrlMiddleware.flushAndResetL1Cache", "ctrlMiddleware.flushAndResetL2Cache", "ctrlMiddleware.processTLBFlushRsp"}},
		{cpc, []string{"CommandProcessor.Tick", "CommandProcessor.tickDispatchers", "CommandProcessor.processReqFromDriver", "CommandProcessor.processRspFromInternal"}},
		{acc, []string{"storageAccessorImpl.Read", "storageAccessorImpl.Write"}},
	} {
		if h.names == nil {
			for _, d := range h.c.f.Decls {
				if fd, ok := d.(*ast.FuncDecl); ok && fd.Body != nil {
					rows = append(rows, fmt.Sprintf("  (%s, %s, %s)", leanStr(h.c.rel), leanStr(c11FuncName(fd)), leanStr(hash16(c05Text(fd)))))
				}
			}
			continue
		}
		for _, n := range h.names {
			rows = append(rows, fmt.Sprintf("  (%s, %s, %s)", leanStr(h.c.rel), leanStr(n), leanStr(hash16(c05Text(c11Fn(h.c, n))))))
		}
	}
	b.WriteString(strings.Join(rows, ",\n"))
	b.WriteString("]\n\nend C11Copy\nend Gen\n")
	writeIfChanged("C11Copy.lean", b.String())
}

func c11StmtTexts(l []ast.Stmt) string {
	q := make([]string, len(l))
	for i, s := range l {
		q[i] = "`" + c05Text(s) + "`"
	}
	return strings.Join(q, ", ")
}

// c11DelayShape checks the skeleton of the delay line: the first statements of Tick are
// `madeProgress = false` and `if A { m.cyclesLeft--; madeProgress = true } else if B { requestsToSend =
// append(requestsToSend, awaitingReqs...); awaitingReqs = nil; m.cyclesLeft = V; madeProgress = true }`
// without a final else.
func c11DelayShape(c *c05File, fn string) {
	fd := c11Fn(c, fn)
	where := c.rel + " " + fn
	if len(fd.Body.List) < 2 || c05Text(fd.Body.List[0]) != "madeProgress = false" {
		fatalf("c11: %s: the body does not start with `madeProgress = false`", where)
	}
	is, ok := fd.Body.List[1].(*ast.IfStmt)
	if !ok || is.Init != nil {
		fatalf("c11: %s: the second statement is not the delay line's `if`", where)
	}
	texts := func(bl *ast.BlockStmt) string {
		var q []string
		for _, s := range bl.List {
			q = append(q, c05Text(s))
		}
		return strings.Join(q, "; ")
	}
	if got := texts(is.Body); got != "m.cyclesLeft--; madeProgress = true" {
		fatalf("c11: %s: the count-down branch is `%s`", where, got)
	}
	el, ok := is.Else.(*ast.IfStmt)
	if !ok || el.Init != nil || el.Else != nil {
		fatalf("c11: %s: the delay line is not `if … { … } else if … { … }` without a final else", where)
	}
	got := texts(el.Body)
	pre := "m.driver.requestsToSend = append(m.driver.requestsToSend, m.awaitingReqs...); m.awaitingReqs = nil; m.cyclesLeft = "
	if !strings.HasPrefix(got, pre) || !strings.HasSuffix(got, "; madeProgress = true") {
		fatalf("c11: %s: the release branch is `%s`", where, got)
	}
}
