package main

// C06, second deepening — shapes the lane-body translator did not cover:
//
//   * an inner `for v := A; v < B; v++` / `for v := A; v >= B; v--` with constant bounds (bit scans): a
//     `List.foldl` over the iteration values whose state is the tuple of the outer variables the body assigns
//     (+ a flag when the body can `break`); the body is translated literally by the ordinary statement translator;
//   * `x := []T{a, b, c}` / `[N]T{…}` with basic elements: a pseudo-array (one `let` per element); `x[k]` for a
//     constant k; `sort.Ints(x)` / `sort.Float64s(x)` on three elements (insertion sort, as Go's pdqsort does for
//     fewer than 12 elements); `for k, v := range x` unrolled;
//   * a `log.Panic` inside a pure helper (a data-dependent abort): the path yields zero, the helper and every body
//     that calls it are listed in `partialBodies` (the abort is not modelled; those bodies are not tied);
//   * handlers without lane code: `state.SetVCC(<constant>)`, or only uniform checks (`vop3aPostprocess`);
//   * the functions of amd/emu/sdwa.go and `LaneMasked`, translated for the model of the SDWA state wrapper and
//     for the lane guard; a hash of the normalised source of the functions transcribed by hand.

import (
	"fmt"
	"go/ast"
	"go/constant"
	"go/token"
	"go/types"
	"strings"
)

func (c *lbCtx) arrLen(name string, env map[string]string) (int, bool) {
	v, ok := env[name+"#n"]
	if !ok {
		return 0, false
	}
	n := 0
	fmt.Sscanf(v, "%d", &n)
	return n, true
}

func (c *lbCtx) constIndex(e ast.Expr) (int, bool) {
	tv, ok := c.t.info.Types[e]
	if !ok || tv.Value == nil {
		return 0, false
	}
	v, exact := constant.Int64Val(constant.ToInt(tv.Value))
	return int(v), exact
}

// deepExpr: `x[k]` on a pseudo-array, `strings.HasPrefix(inst.InstName, "v_pk_")`
func (c *lbCtx) deepExpr(e ast.Expr, env map[string]string) (string, bool) {
	switch x := e.(type) {
	case *ast.IndexExpr:
		id, ok := x.X.(*ast.Ident)
		if !ok {
			return "", false
		}
		n, ok := c.arrLen(id.Name, env)
		if !ok {
			return "", false
		}
		k, ok := c.constIndex(x.Index)
		if !ok || k < 0 || k >= n {
			return c.fail(e, "index of %s is not a constant in range", id.Name), true
		}
		return env[fmt.Sprintf("%s#%d", id.Name, k)], true
	case *ast.CallExpr:
		if types.ExprString(x.Fun) == "strings.HasPrefix" && len(x.Args) == 2 && types.ExprString(x.Args[0]) == "inst.InstName" &&
			types.ExprString(x.Args[1]) == `"v_pk_"` {
			c.leaf.inexact = true
			return "u.isPk", true
		}
	}
	return "", false
}

// assignedOuter lists, in order of first appearance, the variables of `env` that `body` assigns
func lbAssignedOuter(body *ast.BlockStmt, env map[string]string) []string {
	var out []string
	seen := map[string]bool{}
	add := func(e ast.Expr) {
		if id, ok := e.(*ast.Ident); ok {
			if _, known := env[id.Name]; known && !seen[id.Name] {
				seen[id.Name] = true
				out = append(out, id.Name)
			}
		}
	}
	ast.Inspect(body, func(n ast.Node) bool {
		switch x := n.(type) {
		case *ast.AssignStmt:
			if x.Tok != token.DEFINE {
				for _, l := range x.Lhs {
					add(l)
				}
			}
		case *ast.IncDecStmt:
			add(x.X)
		}
		return true
	})
	return out
}

func lbProj(tup string, k, n int) string {
	if n == 1 {
		return tup
	}
	p := tup
	for j := 0; j < k; j++ {
		p += ".2"
	}
	if k < n-1 {
		p += ".1"
	}
	return p
}

func (c *lbCtx) deepStmt(s ast.Stmt, rest []ast.Stmt, env map[string]string, ind string) (string, bool) {
	t := c.t
	switch s := s.(type) {
	case *ast.AssignStmt:
		// x := []T{a, b, c}
		if len(s.Lhs) == 1 && len(s.Rhs) == 1 && s.Tok == token.DEFINE {
			cl, ok := s.Rhs[0].(*ast.CompositeLit)
			id, isId := s.Lhs[0].(*ast.Ident)
			if !ok || !isId {
				return "", false
			}
			var elt types.Type
			switch ty := t.info.TypeOf(cl).Underlying().(type) {
			case *types.Slice:
				elt = ty.Elem()
			case *types.Array:
				elt = ty.Elem()
				if int(ty.Len()) != len(cl.Elts) {
					return t.fail(s, "array literal with fewer elements than its length"), true
				}
			default:
				return t.fail(s, "composite literal of type %v", t.info.TypeOf(cl)), true
			}
			ety, ok := lbLeanType(elt)
			if !ok {
				return t.fail(s, "array of %v", elt), true
			}
			if _, shadow := env[id.Name+"#n"]; shadow {
				return t.fail(s, "%s := … shadows an existing variable", id.Name), true
			}
			if _, shadow := env[id.Name]; shadow {
				return t.fail(s, "%s := … shadows an existing variable", id.Name), true
			}
			env2 := copyEnv(env)
			out := ""
			for k, el := range cl.Elts {
				if _, kv := el.(*ast.KeyValueExpr); kv {
					return t.fail(s, "keyed array literal"), true
				}
				v := freshName(id.Name+"_e", env2)
				env2[fmt.Sprintf("%s#%d", id.Name, k)] = v
				out += fmt.Sprintf("%slet %s : %s := %s\n", ind, v, ety, t.expr(el, env))
			}
			env2[id.Name+"#n"] = fmt.Sprint(len(cl.Elts))
			env2[id.Name+"#t"] = ety
			return out + c.stmts(rest, env2, ind), true
		}
	case *ast.ExprStmt:
		call, ok := s.X.(*ast.CallExpr)
		if !ok {
			return "", false
		}
		name := types.ExprString(call.Fun)
		if name == "sort.Ints" || name == "sort.Float64s" {
			id, isId := call.Args[0].(*ast.Ident)
			if !isId {
				return t.fail(s, "%s of something else than a local array", name), true
			}
			n, ok := c.arrLen(id.Name, env)
			if !ok || n != 3 {
				return t.fail(s, "%s of an array that does not have three elements", name), true
			}
			fn := map[string]string{"sort.Ints": "C06.Go.sortInts3", "sort.Float64s": "C06.GoF.sortFloat64s3"}[name]
			want := map[string]string{"sort.Ints": "BitVec 64", "sort.Float64s": "Float"}[name]
			if env[id.Name+"#t"] != want {
				return t.fail(s, "%s of elements of type %s", name, env[id.Name+"#t"]), true
			}
			env2 := copyEnv(env)
			tup := freshName(id.Name+"_s", env2)
			env2["$"+tup] = tup
			out := fmt.Sprintf("%slet %s : %s × %s × %s := %s %s %s %s\n", ind, tup, want, want, want, fn,
				env[id.Name+"#0"], env[id.Name+"#1"], env[id.Name+"#2"])
			for k := 0; k < 3; k++ {
				v := freshName(id.Name+"_e", env2)
				env2[fmt.Sprintf("%s#%d", id.Name, k)] = v
				out += fmt.Sprintf("%slet %s : %s := %s\n", ind, v, want, lbProj(tup, k, 3))
			}
			return out + c.stmts(rest, env2, ind), true
		}
	case *ast.RangeStmt:
		id, isId := s.X.(*ast.Ident)
		if !isId || s.Tok != token.DEFINE {
			return t.fail(s, "range over something else than a local array literal"), true
		}
		n, ok := c.arrLen(id.Name, env)
		if !ok {
			return t.fail(s, "range over something else than a local array literal"), true
		}
		if c.innerFinish != nil {
			return t.fail(s, "range loop inside an inner for loop"), true
		}
		key, _ := s.Key.(*ast.Ident)
		val, _ := s.Value.(*ast.Ident)
		var iter func(k int, env map[string]string, ind string) string
		iter = func(k int, envK map[string]string, indK string) string {
			if k == n {
				return c.stmts(rest, envK, indK)
			}
			env2 := copyEnv(envK)
			for _, b := range []*ast.Ident{key, val} {
				if b != nil && b.Name != "_" {
					if _, shadow := envK[b.Name]; shadow {
						return t.fail(s, "range variable %s shadows an existing variable", b.Name)
					}
				}
			}
			if key != nil && key.Name != "_" {
				env2[key.Name] = leanLit(int64(k), 64)
			}
			if val != nil && val.Name != "_" {
				env2[val.Name] = env[fmt.Sprintf("%s#%d", id.Name, k)]
			}
			body := append(append([]ast.Stmt{}, s.Body.List...), &lbCont{EmptyStmt: &ast.EmptyStmt{Semicolon: s.End()}, run: func(envB map[string]string, indB string) string {
				// leave the scope of the iteration: keep what it assigned to outer variables
				envN := copyEnv(envK)
				for name := range envB {
					if _, outer := envK[name]; outer || strings.HasPrefix(name, "$") {
						envN[name] = envB[name]
					}
				}
				return iter(k+1, envN, indB)
			}})
			c.inUnrolled++
			out := c.stmts(body, env2, indK)
			c.inUnrolled--
			return out
		}
		saveImm := map[string]bool{}
		for _, b := range []*ast.Ident{key, val} {
			if b != nil {
				saveImm[b.Name] = c.immut[b.Name]
				c.immut[b.Name] = true
			}
		}
		out := iter(0, env, ind)
		for nm, v := range saveImm {
			c.immut[nm] = v
		}
		return out, true
	case *ast.ForStmt:
		return c.innerFor(s, rest, env, ind), true
	}
	return "", false
}

// innerFor: a loop with constant bounds nested in a lane body or a pure helper -> List.foldl
func (c *lbCtx) innerFor(fs *ast.ForStmt, rest []ast.Stmt, env map[string]string, ind string) string {
	t := c.t
	if c.innerFinish != nil {
		return t.fail(fs, "for loop nested in an inner for loop")
	}
	if c.inUnrolled > 0 {
		return t.fail(fs, "for loop inside an unrolled range loop")
	}
	v := ""
	var a int
	if as, ok := fs.Init.(*ast.AssignStmt); ok && as.Tok == token.DEFINE && len(as.Lhs) == 1 && len(as.Rhs) == 1 {
		if id, ok := as.Lhs[0].(*ast.Ident); ok {
			if k, ok := c.constIndex(as.Rhs[0]); ok {
				v, a = id.Name, k
			}
		}
	}
	cond, _ := fs.Cond.(*ast.BinaryExpr)
	inc, _ := fs.Post.(*ast.IncDecStmt)
	if v == "" || cond == nil || inc == nil || types.ExprString(cond.X) != v || types.ExprString(inc.X) != v {
		return t.fail(fs, "inner loop header is not `for v := A; v < B; v++` / `for v := A; v >= B; v--` with constants")
	}
	b, ok := c.constIndex(cond.Y)
	if !ok || a < 0 || b < 0 {
		return t.fail(fs, "inner loop bound is not a non-negative constant")
	}
	if w, sg, ok := basicWS(t.info.TypeOf(cond.X)); !ok || w != 64 || !sg {
		return t.fail(fs, "inner loop variable is not an int")
	}
	if _, shadow := env[v]; shadow {
		return t.fail(fs, "inner loop variable %s shadows an existing variable", v)
	}
	var list string
	switch {
	case inc.Tok == token.INC && cond.Op == token.LSS:
		list = fmt.Sprintf("(List.range' %d %d)", a, max(b-a, 0))
	case inc.Tok == token.INC && cond.Op == token.LEQ:
		list = fmt.Sprintf("(List.range' %d %d)", a, max(b-a+1, 0))
	case inc.Tok == token.DEC && cond.Op == token.GEQ:
		list = fmt.Sprintf("(List.range' %d %d).reverse", b, max(a-b+1, 0))
	case inc.Tok == token.DEC && cond.Op == token.GTR:
		list = fmt.Sprintf("(List.range' %d %d).reverse", b+1, max(a-b, 0))
	default:
		return t.fail(fs, "inner loop direction")
	}
	vars := lbAssignedOuter(fs.Body, env)
	for _, x := range vars {
		if x == v || c.immut[x] {
			return t.fail(fs, "inner loop assigns %s", x)
		}
		if x == c.accVar {
			return t.fail(fs, "inner loop assigns the mask accumulator %s", x)
		}
	}
	hasBreak := false
	ast.Inspect(fs.Body, func(n ast.Node) bool {
		if br, ok := n.(*ast.BranchStmt); ok && br.Tok == token.BREAK {
			hasBreak = true
		}
		return true
	})
	var tys []string
	for _, x := range vars {
		// the type of a variable is the type of its Lean binding: find it through go/types
		var ty types.Type
		ast.Inspect(fs.Body, func(n ast.Node) bool {
			if id, ok := n.(*ast.Ident); ok && id.Name == x && ty == nil {
				ty = t.info.TypeOf(id)
			}
			return true
		})
		lt, ok := lbLeanType(ty)
		if !ok {
			return t.fail(fs, "inner loop state variable %s of type %v", x, ty)
		}
		tys = append(tys, lt)
	}
	n := len(vars)
	if hasBreak {
		tys = append(tys, "Bool")
		n++
	}
	if n == 0 {
		return t.fail(fs, "inner loop without effect")
	}
	stTy := strings.Join(tys, " × ")
	env2 := copyEnv(env)
	lp := freshName("lp", env2)
	env2["$"+lp] = lp
	st, vn := lp+"_st", lp+"_n"
	in2 := ind + "    "
	hdr := ""
	envB := copyEnv(env2)
	for k, x := range vars {
		nm := freshName(x, envB)
		envB[x] = nm
		hdr += fmt.Sprintf("%slet %s : %s := %s\n", in2, nm, tys[k], lbProj(st, k, n))
	}
	lv := freshName(v, envB)
	envB[v] = lv
	tuple := func(e map[string]string, brk bool) string {
		var fs []string
		for _, x := range vars {
			fs = append(fs, e[x])
		}
		if hasBreak {
			fs = append(fs, leanBool(brk))
		}
		if len(fs) == 1 {
			return fs[0]
		}
		return "(" + strings.Join(fs, ", ") + ")"
	}
	c.innerFinish = func(e map[string]string, i string, brk bool) string { return i + tuple(e, brk) }
	if c.loopRange == nil {
		c.loopRange = map[string][2]int{}
	}
	switch {
	case inc.Tok == token.INC && cond.Op == token.LSS:
		c.loopRange[v] = [2]int{a, b - 1}
	case inc.Tok == token.INC:
		c.loopRange[v] = [2]int{a, b}
	case cond.Op == token.GEQ:
		c.loopRange[v] = [2]int{b, a}
	default:
		c.loopRange[v] = [2]int{b + 1, a}
	}
	defer delete(c.loopRange, v)
	wasImm := c.immut[v]
	c.immut[v] = true
	body := append(append([]ast.Stmt{}, fs.Body.List...), &lbCont{EmptyStmt: &ast.EmptyStmt{Semicolon: fs.End()}, run: func(e map[string]string, i string) string {
		return i + tuple(e, false)
	}})
	bodyS := c.stmts(body, envB, in2)
	c.innerFinish = nil
	c.immut[v] = wasImm
	out := fmt.Sprintf("%slet %s : %s := %s.foldl (fun (%s : %s) (%s : Nat) =>\n", ind, lp, stTy, list, st, stTy, vn)
	out += hdr
	if hasBreak {
		out += fmt.Sprintf("%sif %s then %s else (\n", in2, lbProj(st, n-1, n), st)
	}
	out += fmt.Sprintf("%slet %s : BitVec 64 := BitVec.ofNat 64 %s\n", in2, lv, vn)
	out += bodyS
	if hasBreak {
		out += ")"
	}
	out += fmt.Sprintf(") %s\n", tuple(env, false))
	for k, x := range vars {
		nm := freshName(x, env2)
		env2[x] = nm
		out += fmt.Sprintf("%slet %s : %s := %s\n", ind, nm, tys[k], lbProj(lp, k, n))
	}
	return out + c.stmts(rest, env2, ind)
}

// tryDeep: a handler of the library / innerLoop category whose body fits the extended subset
func (a *lbArch) tryDeep(h *lfHandler, fd *ast.FuncDecl, cat string) (res *lbResult) {
	res = &lbResult{arch: h.arch, name: h.name, file: h.file, line: h.line}
	defer func() {
		if e := recover(); e != nil {
			r, ok := e.(lbRefusal)
			if !ok {
				panic(e)
			}
			fmt.Printf("NOTE lanebody: %s.%s stays in the %s category: %s\n", h.arch, h.name, cat, strings.TrimPrefix(r.msg, "lanebody: "))
			res = nil
		}
	}()
	a.core(h, fd, res)
	res.cov = "translated"
	return res
}

// tryNoLane: no lane loop, no operand access: uniform checks (`if <fields> { return }`, `if <fields> { log.Panic }`)
// and at most one `state.SetVCC(<constant>)`
func (a *lbArch) tryNoLane(h *lfHandler, fd *ast.FuncDecl) (res *lbResult) {
	res = &lbResult{arch: h.arch, name: h.name, file: h.file, line: h.line, setVCC: "none"}
	defer func() {
		if e := recover(); e != nil {
			r, ok := e.(lbRefusal)
			if !ok {
				panic(e)
			}
			fmt.Printf("NOTE lanebody: %s.%s stays in the noLaneCode category: %s\n", h.arch, h.name, strings.TrimPrefix(r.msg, "lanebody: "))
			res = nil
		}
	}()
	f := &lbFn{a: a, h: h, fd: fd, inexact: &res.inexact}
	var walk func(list []ast.Stmt, ind string) string
	walk = func(list []ast.Stmt, ind string) string {
		if len(list) == 0 {
			return ind + "true"
		}
		switch s := list[0].(type) {
		case *ast.AssignStmt:
			if types.ExprString(s.Lhs[0]) == "inst" && types.ExprString(s.Rhs[0]) == "state.Inst()" {
				return walk(list[1:], ind)
			}
		case *ast.IfStmt:
			if s.Init == nil && s.Else == nil && len(s.Body.List) == 1 {
				cond := f.uniformCond(s.Cond)
				if rs, ok := s.Body.List[0].(*ast.ReturnStmt); ok && len(rs.Results) == 0 {
					if res.setVCC != "none" {
						f.refuse(s, "return after a write")
					}
					return fmt.Sprintf("%sif %s then true else\n%s", ind, cond, walk(list[1:], ind))
				}
				if lbIsPanic(s.Body.List[0]) {
					return fmt.Sprintf("%sif %s then false else\n%s", ind, cond, walk(list[1:], ind))
				}
			}
		case *ast.ExprStmt:
			if ce, ok := s.X.(*ast.CallExpr); ok && types.ExprString(ce.Fun) == "state.SetVCC" && len(ce.Args) == 1 && len(list) == 1 {
				tv, ok := a.info.Types[ce.Args[0]]
				if ok && tv.Value != nil {
					if v, exact := constant.Uint64Val(constant.ToInt(tv.Value)); exact {
						res.setVCC = fmt.Sprintf("(some %d#64)", v)
						return ind + "true"
					}
				}
			}
		}
		f.refuse(list[0], "statement of a handler without lane code: %s", nodeString(list[0]))
		return ""
	}
	res.ok = walk(fd.Body.List, "      ")
	res.cov = "constant"
	return res
}

// functions the Lean model uses through their translation (amd/emu/sdwa.go, util.go)
var lbForcedPure = []string{"SDWASrcSelect", "sdwaSelectField", "SDWADstSelect", "LaneMasked"}

// (file suffix, receiver or "", function) of code the C06 model transcribes BY HAND: a hash of the normalised
// source goes into `Gen.Lane.handModelled`; `hand_modelled_unchanged` compares it with the audited value
var lbHandModelled = []struct{ arch, recv, name string }{
	{"gcn3", "ALUImpl", "runVREADFIRSTLANEB32"}, {"cdna3", "ALU", "runVREADFIRSTLANEB32"},
	{"gcn3", "", "NewSDWAState"}, {"gcn3", "sdwaState", "Inst"}, {"gcn3", "sdwaState", "ReadOperand"}, {"gcn3", "sdwaState", "WriteOperand"},
	// amd/bitops (signed shift counts: outside the translated subset; `C06.Go.extractBitsU64/U32`, `signExt`)
	{"bitops", "", "ExtractBitsFromU64"}, {"bitops", "", "ExtractBitsFromU32"}, {"bitops", "", "SignExt"},
}

func lbWriteDeep(b *strings.Builder, archs map[string]*lbArch, imp *srcImporter, results []*lbResult) {
	// handlers without lane code
	b.WriteString("/-- handlers without lane loop and operand access: uniform checks and at most one `SetVCC(constant)` -/\ndef noLaneHandlers : List NoLaneHandler := [")
	n := 0
	for _, r := range results {
		if r.cov != "constant" {
			continue
		}
		if n > 0 {
			b.WriteString(",")
		}
		n++
		fmt.Fprintf(b, "\n  { arch := %s, name := %s, setVCC := %s\n    ok := fun u =>\n%s }", leanStr(r.arch), leanStr(r.name), r.setVCC, r.ok)
	}
	b.WriteString("]\n\n/-- translated bodies that call a helper with a data-dependent `log.Panic` path (that path yields zero in the\n    model: the abort of the instruction in the middle of the lane loop is not modelled) -/\ndef partialBodies : List (String × String) := [")
	n = 0
	for _, r := range results {
		if r.partial {
			if n > 0 {
				b.WriteString(", ")
			}
			n++
			fmt.Fprintf(b, "(%s, %s)", leanStr(r.arch), leanStr(r.name))
		}
	}
	b.WriteString("]\n\n/-- (arch, receiver, function, hash of the normalised source) of the code `C06_Deep.lean` transcribes by hand -/\ndef handModelled : List (String × String × String × String) := [")
	for k, hm := range lbHandModelled {
		path := mgpuPrefix + "amd/bitops"
		if a, ok := archs[hm.arch]; ok {
			path = a.path
		} else if _, err := imp.Import(path); err != nil {
			fatalf("lanebody: load %s: %v", path, err)
		}
		var found *ast.FuncDecl
		for _, file := range imp.files[path] {
			for _, d := range file.Decls {
				fd, ok := d.(*ast.FuncDecl)
				if !ok || fd.Body == nil || fd.Name.Name != hm.name {
					continue
				}
				recv := ""
				if fd.Recv != nil {
					recv = strings.TrimPrefix(types.ExprString(fd.Recv.List[0].Type), "*")
				}
				if recv == hm.recv {
					found = fd
				}
			}
		}
		if found == nil {
			fatalf("lanebody: hand-modelled function %s (%s).%s not found", hm.arch, hm.recv, hm.name)
		}
		if k > 0 {
			b.WriteString(",")
		}
		fmt.Fprintf(b, "\n  (%s, %s, %s, %s)", leanStr(hm.arch), leanStr(hm.recv), leanStr(hm.name), leanStr(hash16(c05Text(found))))
	}
	b.WriteString("]\n\n")
	// how the VOP2 dispatchers apply the SDWA wrapper: the statements before the opcode switch
	b.WriteString("/-- (arch, the statements of runVOP2 before its opcode switch, normalised) -/\ndef vop2Prelude : List (String × String) := [")
	for k, an := range []string{"gcn3", "cdna3"} {
		fd := archs[an].funcs["runVOP2"]
		if fd == nil {
			fatalf("lanebody: %s runVOP2 not found", an)
		}
		var pre []string
		for _, st := range fd.Body.List {
			if _, ok := st.(*ast.SwitchStmt); ok {
				break
			}
			pre = append(pre, c05Text(st))
		}
		if k > 0 {
			b.WriteString(",")
		}
		fmt.Fprintf(b, "\n  (%s, %s)", leanStr(an), leanStr(strings.Join(pre, " ; ")))
	}
	b.WriteString("]\n\n")
}

// interval: bounds of an int expression built from constants, inner loop variables, + and -
func (c *lbCtx) interval(e ast.Expr) (lo, hi int, ok bool) {
	if k, isC := c.constIndex(e); isC {
		return k, k, true
	}
	switch x := e.(type) {
	case *ast.ParenExpr:
		return c.interval(x.X)
	case *ast.Ident:
		if r, known := c.loopRange[x.Name]; known {
			return r[0], r[1], true
		}
	case *ast.BinaryExpr:
		al, ah, ok1 := c.interval(x.X)
		bl, bh, ok2 := c.interval(x.Y)
		if ok1 && ok2 {
			switch x.Op {
			case token.ADD:
				return al + bl, ah + bh, true
			case token.SUB:
				return al - bh, ah - bl, true
			}
		}
	}
	return 0, 0, false
}
