package main

import (
	"fmt"
	"go/ast"
	"go/token"
	"sort"
	"strings"
)

// genC10 (property C10) reads the straight-line / table-like parts of the driver's memory management and
// writes them as Lean definitions (lean/MgpuModel/Gen/C10Alloc.lean):
//
//   - device.go: the DeviceType / AllocatorType constant blocks, the default allocator type, the
//     round-robin index arithmetic of unified devices;
//   - memoryallocator.go: the first physical / virtual address, the page-count formula of Allocate and
//     AllocateUnified and the arguments they pass on, the address arithmetic of allocatePages / Free,
//     the loop header of Remap, isPAddrOnDevice;
//   - devicememstateinterface.go: the loop of setInitialAddress, the queue discipline of
//     popNextAvailablePAddrs;
//   - devicebuddymemstate.go / buddystructures.go: every constant and index formula of the buddy
//     allocator (12, 4096, 64, order loops, sizeOfLevel, indexInLevelOf, indexOfBlock, buddyOf, bit fields);
//   - api.go / driver.go: Init's default GPU, Distribute's single-GPU shortcut, the arguments of
//     preparePageForMigration;
//   - distributor.go: the whole arithmetic prologue of Distribute and the arguments of its Remap calls.
//
// MgpuProofs/Props/C10Tie.lean proves, for all arguments, that the hand-written model computes exactly
// these expressions: a changed constant or formula in the Go source breaks a proof obligation, not only
// the sampled correspondence. Unknown statement shapes are refused (non-zero exit = broken tie).
func init() { extraGens = append(extraGens, gen{"c10", genC10}) }

type c10Tr struct {
	file   string
	params []string // free variables in order of first appearance
	seen   map[string]bool
	calls  map[string]string // normalised call text -> parameter name
}

func c10Norm(s string) string { return strings.Join(strings.Fields(s), "") }

func (t *c10Tr) param(name string) string {
	if !t.seen[name] {
		t.seen[name] = true
		t.params = append(t.params, name)
	}
	return name
}

// expr translates an integer / boolean Go expression into Lean (Nat arithmetic, truncated subtraction;
// comparisons and && into Bool). Selectors `x.f` read field f; conversions are dropped; len(x) is the
// parameter x_len; method calls listed in t.calls become parameters.
func (t *c10Tr) expr(e ast.Expr) string {
	switch x := e.(type) {
	case *ast.BasicLit:
		if x.Kind == token.INT {
			return x.Value
		}
	case *ast.Ident:
		switch x.Name {
		case "true", "false":
			return x.Name
		}
		return t.param(x.Name)
	case *ast.ParenExpr:
		return "(" + t.expr(x.X) + ")"
	case *ast.SelectorExpr:
		return t.param(x.Sel.Name)
	case *ast.CallExpr:
		if id, ok := x.Fun.(*ast.Ident); ok && len(x.Args) == 1 {
			switch id.Name {
			case "uint64", "int", "uint32", "int64":
				return t.expr(x.Args[0])
			case "len":
				return t.param(strings.ReplaceAll(c10Norm(nodeString(x.Args[0])), ".", "_") + "_len")
			}
		}
		if p, ok := t.calls[c10Norm(nodeString(x))]; ok {
			return t.param(p)
		}
	case *ast.BinaryExpr:
		a, b := t.expr(x.X), t.expr(x.Y)
		switch x.Op {
		case token.ADD:
			return a + " + " + b
		case token.SUB:
			return a + " - " + b
		case token.MUL:
			return a + " * " + b
		case token.QUO:
			return a + " / " + b
		case token.REM:
			return a + " % " + b
		case token.SHL:
			return a + " <<< " + b
		case token.LSS:
			return "decide (" + a + " < " + b + ")"
		case token.GTR:
			return "decide (" + a + " > " + b + ")"
		case token.LEQ:
			return "decide (" + a + " ≤ " + b + ")"
		case token.GEQ:
			return "decide (" + a + " ≥ " + b + ")"
		case token.EQL:
			return "decide (" + a + " = " + b + ")"
		case token.NEQ:
			return "decide (" + a + " ≠ " + b + ")"
		case token.LAND:
			return "(" + a + " && " + b + ")"
		}
	}
	fatalf("c10: %s: unsupported expression `%s`", t.file, nodeString(e))
	return ""
}

type c10Out struct {
	b     strings.Builder
	names map[string]bool
}

func (o *c10Out) def(file, name, doc string, e ast.Expr, boolean bool, calls map[string]string) {
	if o.names[name] {
		fatalf("c10: duplicate definition %s", name)
	}
	o.names[name] = true
	t := &c10Tr{file: file, seen: map[string]bool{}, calls: calls}
	body := t.expr(e)
	ty := "Nat"
	if boolean {
		ty = "Bool"
	}
	fmt.Fprintf(&o.b, "/-- %s: `%s` -/\n", doc, strings.ReplaceAll(nodeString(e), "\n", " "))
	if len(t.params) == 0 {
		fmt.Fprintf(&o.b, "def %s : %s := %s\n\n", name, ty, body)
	} else {
		fmt.Fprintf(&o.b, "def %s (%s : Nat) : %s := %s\n\n", name, strings.Join(t.params, " "), ty, body)
	}
}

func (o *c10Out) strs(name, doc string, xs []string) {
	q := make([]string, len(xs))
	for i, x := range xs {
		q[i] = leanStr(c10Norm(x))
	}
	fmt.Fprintf(&o.b, "/-- %s -/\ndef %s : List String := [%s]\n\n", doc, name, strings.Join(q, ", "))
}

func c10Func(f *ast.File, file, recv, name string) *ast.FuncDecl {
	for _, d := range f.Decls {
		fd, ok := d.(*ast.FuncDecl)
		if !ok || fd.Name.Name != name || fd.Body == nil {
			continue
		}
		r := ""
		if fd.Recv != nil && len(fd.Recv.List) == 1 {
			r = strings.TrimPrefix(nodeString(fd.Recv.List[0].Type), "*")
		}
		if r == recv {
			return fd
		}
	}
	fatalf("c10: %s: function %s.%s not found", file, recv, name)
	return nil
}

// c10Assign returns the right-hand side of the n-th (0-based) assignment / definition / op-assignment
// whose single left-hand side prints as lhs, in source order.
func c10Assign(fd *ast.FuncDecl, file, lhs string, n int) (ast.Expr, token.Token) {
	var out ast.Expr
	var tok token.Token
	k := 0
	ast.Inspect(fd.Body, func(nd ast.Node) bool {
		as, ok := nd.(*ast.AssignStmt)
		if !ok || len(as.Lhs) != 1 || len(as.Rhs) != 1 || out != nil {
			return true
		}
		if c10Norm(nodeString(as.Lhs[0])) == lhs {
			if k == n {
				out, tok = as.Rhs[0], as.Tok
			}
			k++
		}
		return true
	})
	if out == nil {
		fatalf("c10: %s: %s: assignment #%d to `%s` not found", file, fd.Name.Name, n, lhs)
	}
	return out, tok
}

// c10Assign2 returns the right-hand side of the first `a, b := rhs` of the function.
func c10Assign2(fd *ast.FuncDecl, file, a, b string) ast.Expr {
	var out ast.Expr
	ast.Inspect(fd.Body, func(nd ast.Node) bool {
		as, ok := nd.(*ast.AssignStmt)
		if !ok || len(as.Lhs) != 2 || len(as.Rhs) != 1 || out != nil {
			return true
		}
		if c10Norm(nodeString(as.Lhs[0])) == a && c10Norm(nodeString(as.Lhs[1])) == b {
			out = as.Rhs[0]
		}
		return true
	})
	if out == nil {
		fatalf("c10: %s: %s: assignment `%s, %s := …` not found", file, fd.Name.Name, a, b)
	}
	return out
}

// c10KeyValue returns the value of the n-th composite-literal field `key: value` in the function.
func c10KeyValue(fd *ast.FuncDecl, file, key string, n int) ast.Expr {
	var out ast.Expr
	k := 0
	ast.Inspect(fd.Body, func(nd ast.Node) bool {
		kv, ok := nd.(*ast.KeyValueExpr)
		if !ok || out != nil {
			return true
		}
		if id, isID := kv.Key.(*ast.Ident); isID && id.Name == key {
			if k == n {
				out = kv.Value
			}
			k++
		}
		return true
	})
	if out == nil {
		fatalf("c10: %s: %s: composite-literal field #%d `%s` not found", file, fd.Name.Name, n, key)
	}
	return out
}

// c10Call returns the arguments of the n-th call whose function prints as callee.
func c10Call(fd *ast.FuncDecl, file, callee string, n int) []ast.Expr {
	var out *ast.CallExpr
	k := 0
	ast.Inspect(fd.Body, func(nd ast.Node) bool {
		c, ok := nd.(*ast.CallExpr)
		if !ok || out != nil {
			return true
		}
		if c10Norm(nodeString(c.Fun)) == callee {
			if k == n {
				out = c
			}
			k++
		}
		return true
	})
	if out == nil {
		fatalf("c10: %s: %s: call #%d of `%s` not found", file, fd.Name.Name, n, callee)
	}
	return out.Args
}

// the callees of the given set in the order in which their calls appear in the source of the function
func c10CallOrder(fd *ast.FuncDecl, callees []string) []string {
	want := map[string]bool{}
	for _, c := range callees {
		want[c] = true
	}
	var out []string
	ast.Inspect(fd.Body, func(nd ast.Node) bool {
		if c, ok := nd.(*ast.CallExpr); ok {
			if f := c10Norm(nodeString(c.Fun)); want[f] {
				out = append(out, f)
			}
		}
		return true
	})
	return out
}

func c10ArgStrings(args []ast.Expr) []string {
	out := make([]string, len(args))
	for i, a := range args {
		out[i] = nodeString(a)
	}
	return out
}

// c10For returns the n-th for statement of the function.
func c10For(fd *ast.FuncDecl, file string, n int) *ast.ForStmt {
	var out *ast.ForStmt
	k := 0
	ast.Inspect(fd.Body, func(nd ast.Node) bool {
		f, ok := nd.(*ast.ForStmt)
		if !ok || out != nil {
			return true
		}
		if k == n {
			out = f
		}
		k++
		return true
	})
	if out == nil {
		fatalf("c10: %s: %s: for statement #%d not found", file, fd.Name.Name, n)
	}
	return out
}

func c10ForInit(f *ast.ForStmt, file string) (string, ast.Expr) {
	as, ok := f.Init.(*ast.AssignStmt)
	if !ok || len(as.Lhs) != 1 || len(as.Rhs) != 1 {
		fatalf("c10: %s: for-init `%s` is not a single assignment", file, nodeString(f.Init))
	}
	return c10Norm(nodeString(as.Lhs[0])), as.Rhs[0]
}

// c10ForPost: `x += e` gives (x, e, "+="), `x++` gives (x, 1, "++"), `x--` gives (x, 1, "--")
func c10ForPost(f *ast.ForStmt, file string) (string, string) {
	switch p := f.Post.(type) {
	case *ast.IncDecStmt:
		return c10Norm(nodeString(p.X)), p.Tok.String()
	case *ast.AssignStmt:
		if len(p.Lhs) == 1 && len(p.Rhs) == 1 {
			return c10Norm(nodeString(p.Lhs[0])), p.Tok.String() + c10Norm(nodeString(p.Rhs[0]))
		}
	}
	fatalf("c10: %s: for-post `%s` unsupported", file, nodeString(f.Post))
	return "", ""
}

func c10Return(fd *ast.FuncDecl, file string, n int) ast.Expr {
	var out ast.Expr
	k := 0
	ast.Inspect(fd.Body, func(nd ast.Node) bool {
		r, ok := nd.(*ast.ReturnStmt)
		if !ok || out != nil || len(r.Results) != 1 {
			return true
		}
		if k == n {
			out = r.Results[0]
		}
		k++
		return true
	})
	if out == nil {
		fatalf("c10: %s: %s: return #%d not found", file, fd.Name.Name, n)
	}
	return out
}

func c10IfCond(fd *ast.FuncDecl, file string, n int) ast.Expr {
	var out ast.Expr
	k := 0
	ast.Inspect(fd.Body, func(nd ast.Node) bool {
		s, ok := nd.(*ast.IfStmt)
		if !ok || out != nil {
			return true
		}
		if k == n {
			out = s.Cond
		}
		k++
		return true
	})
	if out == nil {
		fatalf("c10: %s: %s: if statement #%d not found", file, fd.Name.Name, n)
	}
	return out
}

// every integer literal of a function, sorted, without duplicates
func c10Literals(fd *ast.FuncDecl) []string {
	set := map[string]bool{}
	ast.Inspect(fd.Body, func(nd ast.Node) bool {
		if l, ok := nd.(*ast.BasicLit); ok && l.Kind == token.INT {
			set[l.Value] = true
		}
		return true
	})
	var out []string
	for k := range set {
		out = append(out, k)
	}
	sort.Slice(out, func(i, j int) bool {
		if len(out[i]) != len(out[j]) {
			return len(out[i]) < len(out[j])
		}
		return out[i] < out[j]
	})
	return out
}

func genC10() {
	o := &c10Out{names: map[string]bool{}}
	o.b.WriteString("-- GENERATED by /verif/translate (c10.go) from amd/driver/internal/*.go, amd/driver/{api,distributor,driver}.go; do not edit\n")
	o.b.WriteString("namespace Gen.C10Alloc\n\n")

	// ---------------------------------------------------------------- device.go
	const dev = "amd/driver/internal/device.go"
	_, fdev := parseFile(dev)
	for _, blk := range []struct{ first, name string }{{"DeviceTypeInvalid", "deviceTypes"}, {"AllocatorTypeDefault", "allocatorTypes"}} {
		names, m := iotaConsts(fdev, blk.first)
		fmt.Fprintf(&o.b, "/-- device.go: the constant block starting with %s -/\ndef %s : List (String × Nat) := [", blk.first, blk.name)
		for i, n := range names {
			if i > 0 {
				o.b.WriteString(", ")
			}
			fmt.Fprintf(&o.b, "(%s, %d)", leanStr(n), m[n])
		}
		o.b.WriteString("]\n\n")
	}
	found := false
	for _, d := range fdev.Decls {
		gd, ok := d.(*ast.GenDecl)
		if !ok || gd.Tok != token.VAR {
			continue
		}
		for _, s := range gd.Specs {
			vs := s.(*ast.ValueSpec)
			if len(vs.Names) == 1 && vs.Names[0].Name == "MemoryAllocatorType" && len(vs.Values) == 1 {
				fmt.Fprintf(&o.b, "/-- device.go: `var MemoryAllocatorType = …` -/\ndef defaultAllocatorType : String := %s\n\n", leanStr(nodeString(vs.Values[0])))
				found = true
			}
		}
	}
	if !found {
		fatalf("c10: %s: var MemoryAllocatorType not found", dev)
	}
	fd := c10Func(fdev, dev, "Device", "allocateUnifiedGPUPage")
	e, _ := c10Assign(fd, dev, "devIndex", 0)
	o.def(dev, "unifiedDevIndex", "allocateUnifiedGPUPage, GPU tried in iteration i", e, false, nil)
	e, _ = c10Assign(fd, dev, "d.nextActualGPUIndex", 0)
	o.def(dev, "unifiedNextSingle", "allocateUnifiedGPUPage, cursor after the allocation", e, false, nil)
	fd = c10Func(fdev, dev, "Device", "allocateMultipleUnifiedGPUPages")
	e, _ = c10Assign(fd, dev, "d.nextActualGPUIndex", 0)
	o.def(dev, "unifiedNextMulti", "allocateMultipleUnifiedGPUPages, cursor after the allocation", e, false, nil)
	o.strs("unifiedMultiDevice", "allocateMultipleUnifiedGPUPages: the GPU used", []string{nodeString(func() ast.Expr { x, _ := c10Assign(fd, dev, "dev", 0); return x }())})

	// ---------------------------------------------------------------- memoryallocator.go
	const ma = "amd/driver/internal/memoryallocator.go"
	_, fma := parseFile(ma)
	fd = c10Func(fma, ma, "", "NewMemoryAllocator")
	o.def(ma, "newAllocTotal", "NewMemoryAllocator, totalStorageByteSize", c10KeyValue(fd, ma, "totalStorageByteSize", 0), false, nil)
	fd = c10Func(fma, ma, "memoryAllocatorImpl", "allocatePages")
	o.def(ma, "firstVAddr", "allocatePages, nextVAddr of a process seen for the first time", c10KeyValue(fd, ma, "nextVAddr", 0), false, nil)
	e, _ = c10Assign(fd, ma, "vAddr", 0)
	o.def(ma, "allocPagesVAddr", "allocatePages, virtual address of page i", e, false, nil)
	e, tok := c10Assign(fd, ma, "pState.nextVAddr", 0)
	if tok != token.ADD_ASSIGN {
		fatalf("c10: %s: allocatePages: pState.nextVAddr is not advanced with +=", ma)
	}
	o.def(ma, "allocPagesAdvance", "allocatePages, what is added to the cursor", e, false, nil)
	o.strs("allocPagesPageFields", "allocatePages: PID, VAddr, PAddr, Unified, DeviceID of the inserted page",
		[]string{nodeString(c10KeyValue(fd, ma, "PID", 0)), nodeString(c10KeyValue(fd, ma, "VAddr", 0)), nodeString(c10KeyValue(fd, ma, "PAddr", 0)),
			nodeString(c10KeyValue(fd, ma, "Unified", 0)), nodeString(c10KeyValue(fd, ma, "DeviceID", 0))})
	e, _ = c10Assign(fd, ma, "a.allocationNumPages[nextVAddr]", 0)
	o.strs("allocPagesRecord", "allocatePages: the value recorded in allocationNumPages[nextVAddr]", []string{nodeString(e)})
	for _, fn := range []struct{ go_, lean string }{{"Allocate", "allocate"}, {"AllocateUnified", "allocateUnified"}} {
		fd = c10Func(fma, ma, "memoryAllocatorImpl", fn.go_)
		o.def(ma, fn.lean+"ZeroCheck", fn.go_+", the panic condition", c10IfCond(fd, ma, 0), true, nil)
		e, _ = c10Assign(fd, ma, "pageSize", 0)
		o.def(ma, fn.lean+"PageSize", fn.go_+", pageSize", e, false, nil)
		e, _ = c10Assign(fd, ma, "numPages", 0)
		o.def(ma, fn.lean+"NumPages", fn.go_+", numPages", e, false, nil)
		o.strs(fn.lean+"Call", fn.go_+": arguments of allocatePages", c10ArgStrings(c10Call(fd, ma, "a.allocatePages", 0)))
	}
	fd = c10Func(fma, ma, "memoryAllocatorImpl", "Remap")
	fr := c10For(fd, ma, 0)
	if fr.Init != nil || fr.Post != nil {
		fatalf("c10: %s: Remap: the loop has an init or post statement", ma)
	}
	o.def(ma, "remapCond", "Remap, loop condition", fr.Cond, true, nil)
	e, _ = c10Assign(fd, ma, "addr", 0)
	o.def(ma, "remapStart", "Remap, first address", e, false, nil)
	e, tok = c10Assign(fd, ma, "addr", 1)
	if tok != token.ADD_ASSIGN {
		fatalf("c10: %s: Remap: addr is not advanced with +=", ma)
	}
	o.def(ma, "remapStep", "Remap, what is added to addr in every iteration", e, false, nil)
	o.strs("remapCall", "Remap: arguments of allocateMultiplePagesWithGivenVAddrs", c10ArgStrings(c10Call(fd, ma, "a.allocateMultiplePagesWithGivenVAddrs", 0)))
	// the repaired loop body of allocateMultiplePagesWithGivenVAddrs: the replaced physical page goes back to
	// the device that owns it, once the page-table entry has been updated, when the allocator's record of the
	// virtual address belongs to the calling process
	fd = c10Func(fma, ma, "memoryAllocatorImpl", "allocateMultiplePagesWithGivenVAddrs")
	rel := c10Assign2(fd, ma, "replaced", "found")
	own, _ := c10Assign(fd, ma, "owner", 0)
	o.strs("remapRelease", "allocateMultiplePagesWithGivenVAddrs: the record read before it is overwritten; the release guard; the owning device; the page released",
		[]string{c10Norm(nodeString(rel)), c10Norm(nodeString(c10IfCond(fd, ma, 0))), c10Norm(nodeString(own)),
			c10Norm(nodeString(c10Call(fd, ma, "owner.MemState.addSinglePAddr", 0)[0]))})
	o.strs("remapLoopOrder", "allocateMultiplePagesWithGivenVAddrs: the calls of the loop body in source order", c10CallOrder(fd,
		[]string{"a.pageTable.Update", "owner.MemState.addSinglePAddr", "device.allocateMultiplePages"}))
	// ReleasePhysicalPage (the repair of the migration leak): the page goes to the device whose range holds it
	fd = c10Func(fma, ma, "memoryAllocatorImpl", "ReleasePhysicalPage")
	own, _ = c10Assign(fd, ma, "owner", 0)
	o.strs("releasePhysicalPage", "ReleasePhysicalPage: the owning device; the page given to addSinglePAddr",
		[]string{c10Norm(nodeString(own)), c10Norm(nodeString(c10Call(fd, ma, "owner.MemState.addSinglePAddr", 0)[0]))})
	fd = c10Func(fma, ma, "memoryAllocatorImpl", "Free")
	fr = c10For(fd, ma, 0)
	v, ie := c10ForInit(fr, ma)
	pv, pp := c10ForPost(fr, ma)
	if v != "i" || pv != "i" || pp != "++" {
		fatalf("c10: %s: Free: loop header changed (%s; %s %s)", ma, v, pv, pp)
	}
	o.def(ma, "freeLoopStart", "Free, first index of the loop over the remaining pages", ie, false, nil)
	o.def(ma, "freeLoopCond", "Free, loop condition", fr.Cond, true, nil)
	o.def(ma, "freePageAddr", "Free, address of page i", c10Call(fd, ma, "a.removePage", 1)[0], false, nil)
	o.strs("freeFirst", "Free: the page removed before the loop", c10ArgStrings(c10Call(fd, ma, "a.removePage", 0)))
	fd = c10Func(fma, ma, "", "isPAddrOnDevice")
	o.def(ma, "isPAddrOnDevice", "isPAddrOnDevice", c10Return(fd, ma, 0), true,
		map[string]string{"state.getInitialAddress()": "initialAddress", "state.getStorageSize()": "storageSize"})
	fd = c10Func(fma, ma, "memoryAllocatorImpl", "RegisterDevice")
	e, tok = c10Assign(fd, ma, "a.totalStorageByteSize", 0)
	if tok != token.ADD_ASSIGN {
		fatalf("c10: %s: RegisterDevice: totalStorageByteSize is not advanced with +=", ma)
	}
	o.strs("registerDevice", "RegisterDevice: the address handed to setInitialAddress; what is added to totalStorageByteSize",
		[]string{nodeString(c10Call(fd, ma, "state.setInitialAddress", 0)[0]), nodeString(e)})

	// ---------------------------------------------------------------- devicememstateinterface.go
	const ms = "amd/driver/internal/devicememstateinterface.go"
	_, fms := parseFile(ms)
	fd = c10Func(fms, ms, "deviceMemoryStateImpl", "setInitialAddress")
	e, _ = c10Assign(fd, ms, "pageSize", 0)
	o.def(ms, "fifoPageSize", "deviceMemoryStateImpl.setInitialAddress, pageSize", e, false, nil)
	e, _ = c10Assign(fd, ms, "endAddr", 0)
	o.def(ms, "fifoEndAddr", "deviceMemoryStateImpl.setInitialAddress, endAddr", e, false, nil)
	fr = c10For(fd, ms, 0)
	v, ie = c10ForInit(fr, ms)
	pv, pp = c10ForPost(fr, ms)
	if v != "addr" || pv != "addr" || pp != "+=pageSize" {
		fatalf("c10: %s: setInitialAddress: loop header changed (%s; %s %s)", ms, v, pv, pp)
	}
	o.def(ms, "fifoLoopStart", "deviceMemoryStateImpl.setInitialAddress, first address queued", ie, false, nil)
	o.def(ms, "fifoLoopCond", "deviceMemoryStateImpl.setInitialAddress, loop condition", fr.Cond, true, nil)
	o.strs("fifoLoopBody", "deviceMemoryStateImpl.setInitialAddress: the call of the loop body", []string{nodeString(fr.Body.List[0])})
	fd = c10Func(fms, ms, "deviceMemoryStateImpl", "popNextAvailablePAddrs")
	e1, _ := c10Assign(fd, ms, "nextPAddr", 0)
	e2, _ := c10Assign(fd, ms, "dms.availablePAddrs", 0)
	o.strs("fifoPop", "popNextAvailablePAddrs: the page returned; the remaining queue", []string{nodeString(e1), nodeString(e2)})
	fd = c10Func(fms, ms, "deviceMemoryStateImpl", "addSinglePAddr")
	e1, _ = c10Assign(fd, ms, "dms.availablePAddrs", 0)
	o.strs("fifoPush", "addSinglePAddr: the new queue", []string{nodeString(e1)})

	// ---------------------------------------------------------------- devicebuddymemstate.go, buddystructures.go
	const bm = "amd/driver/internal/devicebuddymemstate.go"
	_, fbm := parseFile(bm)
	fd = c10Func(fbm, bm, "deviceBuddyMemoryState", "setStorageSize")
	fr = c10For(fd, bm, 0)
	v, ie = c10ForInit(fr, bm)
	pv, pp = c10ForPost(fr, bm)
	if v != "order" || pv != "order" || pp != "++" || len(fr.Body.List) != 0 {
		fatalf("c10: %s: setStorageSize: order loop changed", bm)
	}
	o.def(bm, "buddySizeOrderStart", "setStorageSize, first order tried", ie, false, nil)
	o.def(bm, "buddySizeOrderCond", "setStorageSize, the loop continues while", fr.Cond, true, nil)
	e, tok = c10Assign(fd, bm, "order", 1)
	if tok != token.SUB_ASSIGN {
		fatalf("c10: %s: setStorageSize: order is not reduced with -=", bm)
	}
	o.def(bm, "buddySizeOrderSub", "setStorageSize, what is subtracted from order afterwards", e, false, nil)
	o.def(bm, "buddyNumLists", "setStorageSize, number of free lists", c10Call(fd, bm, "make", 0)[1], false, nil)
	o.def(bm, "buddyBitFieldSize", "setStorageSize, size of both bit fields", c10Call(fd, bm, "newBitField", 0)[0], false, nil)
	if c10Norm(nodeString(c10Call(fd, bm, "newBitField", 1)[0])) != c10Norm(nodeString(c10Call(fd, bm, "newBitField", 0)[0])) {
		fatalf("c10: %s: setStorageSize: the two bit fields have different sizes", bm)
	}
	fd = c10Func(fbm, bm, "deviceBuddyMemoryState", "allocateMultiplePages")
	e, _ = c10Assign(fd, bm, "freeListLen", 0)
	o.def(bm, "buddyFreeListLen", "allocateMultiplePages, freeListLen", e, false, nil)
	fr = c10For(fd, bm, 0)
	v, ie = c10ForInit(fr, bm)
	pv, pp = c10ForPost(fr, bm)
	if v != "order" || pv != "order" || pp != "++" || len(fr.Body.List) != 0 {
		fatalf("c10: %s: allocateMultiplePages: order loop changed", bm)
	}
	o.def(bm, "buddyAllocOrderStart", "allocateMultiplePages, first order tried", ie, false, nil)
	o.def(bm, "buddyAllocOrderCond", "allocateMultiplePages, the loop continues while", fr.Cond, true, nil)
	e, _ = c10Assign(fd, bm, "level", 0)
	o.def(bm, "buddyAllocLevel", "allocateMultiplePages, level", e, false, nil)
	e, tok = c10Assign(fd, bm, "block", 1)
	if tok != token.ADD_ASSIGN {
		fatalf("c10: %s: allocateMultiplePages: block is not advanced with +=", bm)
	}
	o.def(bm, "buddyPageStep", "allocateMultiplePages, distance of the pages handed out", e, false, nil)
	o.def(bm, "buddyZeroGuard", "allocateMultiplePages, the request is answered at once (no block, no tracker) when", c10IfCond(fd, bm, 0), true, nil)
	if g, ok := fd.Body.List[0].(*ast.IfStmt); !ok || g.Else != nil || len(g.Body.List) != 1 || c10Norm(nodeString(g.Body.List[0])) != "returnnil" {
		fatalf("c10: %s: allocateMultiplePages: the first statement is not `if … { return nil }`", bm)
	}
	o.def(bm, "buddyTakeMergeGuard", "allocateMultiplePages, the parent's merge bit is toggled when", c10IfCond(fd, bm, 3), true, nil)
	o.strs("buddyTakeMergeArg", "allocateMultiplePages: index of that merge bit", c10ArgStrings(c10Call(fd, bm, "bms.updateMergeListBitField", 0)))
	o.strs("buddyLiterals", "allocateMultiplePages: every integer literal", c10Literals(fd))
	fd = c10Func(fbm, bm, "deviceBuddyMemoryState", "sizeOfLevel")
	o.def(bm, "buddySizeOfLevel", "sizeOfLevel", c10Return(fd, bm, 0), false, nil)
	fd = c10Func(fbm, bm, "deviceBuddyMemoryState", "indexInLevelOf")
	o.def(bm, "buddyIndexInLevel", "indexInLevelOf", c10Return(fd, bm, 0), false, map[string]string{"bms.sizeOfLevel(level)": "sizeOfLevel"})
	fd = c10Func(fbm, bm, "deviceBuddyMemoryState", "indexOfBlock")
	o.def(bm, "buddyIndexOfBlock", "indexOfBlock", c10Return(fd, bm, 0), false, map[string]string{"bms.indexInLevelOf(ptr,level)": "indexInLevel"})
	fd = c10Func(fbm, bm, "deviceBuddyMemoryState", "buddyOf")
	o.def(bm, "buddyOfCond", "buddyOf, the buddy lies above when", c10IfCond(fd, bm, 0), true, map[string]string{"bms.indexInLevelOf(addr,level)": "indexInLevel"})
	e, _ = c10Assign(fd, bm, "buddy", 0)
	o.def(bm, "buddyOfUp", "buddyOf, buddy above", e, false, map[string]string{"bms.sizeOfLevel(level)": "sizeOfLevel"})
	e, _ = c10Assign(fd, bm, "buddy", 1)
	o.def(bm, "buddyOfDown", "buddyOf, buddy below", e, false, map[string]string{"bms.sizeOfLevel(level)": "sizeOfLevel"})
	fd = c10Func(fbm, bm, "deviceBuddyMemoryState", "blockHasBeenSplit")
	o.strs("buddySplitIndex", "blockHasBeenSplit: the bit looked at", []string{nodeString(func() ast.Expr { x, _ := c10Assign(fd, bm, "index", 0); return x }())})
	fd = c10Func(fbm, bm, "deviceBuddyMemoryState", "blockOrBuddyIsAllocated")
	o.strs("buddyMergeIndex", "blockOrBuddyIsAllocated: the bit looked at", []string{nodeString(func() ast.Expr { x, _ := c10Assign(fd, bm, "index", 0); return x }())})
	fd = c10Func(fbm, bm, "deviceBuddyMemoryState", "levelOfBlock")
	e, _ = c10Assign(fd, bm, "n", 0)
	o.def(bm, "buddyLevelStart", "levelOfBlock, first level tried", e, false, nil)
	const bs = "amd/driver/internal/buddystructures.go"
	_, fbs := parseFile(bs)
	fd = c10Func(fbs, bs, "", "newBitField")
	e, _ = c10Assign(fd, bs, "n", 0)
	o.def(bs, "bitFieldWords", "newBitField, number of 64-bit words", e, false, nil)
	for _, fn := range []string{"updateBit", "checkBit"} {
		fd = c10Func(fbs, bs, "bitField", fn)
		e, _ = c10Assign(fd, bs, "arrayIndex", 0)
		o.def(bs, fn+"Word", fn+", word index", e, false, nil)
		e, _ = c10Assign(fd, bs, "bitIndex", 0)
		o.def(bs, fn+"Bit", fn+", bit index", e, false, nil)
	}
	fd = c10Func(fbs, bs, "blockTracker", "removePage")
	o.def(bs, "trackerDone", "blockTracker.removePage, the block is released when (after numOfPages--)", c10Return(fd, bs, 0), true, nil)

	// ---------------------------------------------------------------- api.go, driver.go
	const api = "amd/driver/api.go"
	_, fapi := parseFile(api)
	fd = c10Func(fapi, api, "Driver", "Init")
	o.def(api, "initGPU", "Init, currentGPUID of a new context", c10KeyValue(fd, api, "currentGPUID", 0), false, nil)
	fd = c10Func(fapi, api, "Driver", "InitWithExistingPID")
	o.def(api, "initPidGPU", "InitWithExistingPID, currentGPUID of a new context", c10KeyValue(fd, api, "currentGPUID", 0), false, nil)
	fd = c10Func(fapi, api, "Driver", "Distribute")
	o.def(api, "distShortcut", "Driver.Distribute, nothing is re-homed when", c10IfCond(fd, api, 0), true, nil)
	fd = c10Func(fapi, api, "Driver", "SelectGPU")
	o.def(api, "selectGPUPanic", "SelectGPU, the panic condition", c10IfCond(fd, api, 0), true, nil)
	const drv = "amd/driver/driver.go"
	_, fdrv := parseFile(drv)
	fd = c10Func(fdrv, drv, "Driver", "preparePageForMigration")
	o.strs("migCall", "preparePageForMigration: arguments of AllocatePageWithGivenVAddr", c10ArgStrings(c10Call(fd, drv, "d.memAllocator.AllocatePageWithGivenVAddr", 0)))
	e, _ = c10Assign(fd, drv, "newPage.DeviceID", 0)
	o.def(drv, "migDeviceID", "preparePageForMigration, DeviceID written by the second update", e, false, nil)

	// ---------------------------------------------------------------- distributor.go
	const di = "amd/driver/distributor.go"
	_, fdi := parseFile(di)
	fd = c10Func(fdi, di, "distributorImpl", "Distribute")
	o.def(di, "distAlignPanic", "Distribute, the alignment panic condition", c10IfCond(fd, di, 0), true, nil)
	for _, a := range []struct {
		lhs, name string
		n         int
	}{{"numPages", "distNumPages", 0}, {"numGPUs", "distNumGPUs", 0},
		{"numPagesPerGPU", "distPerGPU", 0}, {"numGPUsToUse", "distUseInit", 0}, {"numGPUsToUse", "distUseThen", 1},
		{"numGPUsToUse", "distUseCap", 2}, {"remainingPages", "distRemaining", 0}} {
		e, _ = c10Assign(fd, di, a.lhs, a.n)
		o.def(di, a.name, "Distribute, "+a.lhs, e, false, nil)
	}
	o.def(di, "distUseGuard", "Distribute, numGPUsToUse is computed when", c10IfCond(fd, di, 1), true, nil)
	o.def(di, "distCapGuard", "Distribute, numGPUsToUse is capped when", c10IfCond(fd, di, 2), true, nil)
	for k, nm := range []string{"distLoop1", "distLoop2"} {
		fr = c10For(fd, di, k)
		v, ie = c10ForInit(fr, di)
		pv, pp = c10ForPost(fr, di)
		if v != "i" || pv != "i" || pp != "++" {
			fatalf("c10: %s: Distribute: loop %d header changed", di, k+1)
		}
		o.def(di, nm+"Start", "Distribute, loop start", ie, false, nil)
		o.def(di, nm+"Cond", "Distribute, loop condition", fr.Cond, true, nil)
		args := c10Call(fd, di, "d.memAllocator.Remap", k)
		if len(args) != 4 {
			fatalf("c10: %s: Distribute: Remap call %d has %d arguments", di, k+1, len(args))
		}
		o.def(di, nm+"Addr", "Distribute, address passed to Remap", args[1], false, nil)
		o.def(di, nm+"Size", "Distribute, byte size passed to Remap", args[2], false, nil)
		o.strs(nm+"PidDev", "Distribute: pid and device passed to Remap", []string{nodeString(args[0]), nodeString(args[3])})
	}
	e, _ = c10Assign(fd, di, "lastAllocatedGPU", 0)
	o.strs("distLast", "Distribute: lastAllocatedGPU is set to", []string{nodeString(e)})
	e1, _ = c10Assign(fd, di, "byteAllocatedOnEachGPU[i]", 0)
	e2, _ = c10Assign(fd, di, "byteAllocatedOnEachGPU[lastAllocatedGPU]", 0)
	o.strs("distBytes", "Distribute: what is added to byteAllocatedOnEachGPU in loop 1 / loop 2", []string{nodeString(e1), nodeString(e2)})

	o.b.WriteString("end Gen.C10Alloc\n")
	writeIfChanged("C10Alloc.lean", o.b.String())
}
