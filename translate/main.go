// Command translate regenerates lean/MgpuModel/Gen/*.lean from the Go sources of the
// mgpusim working tree. It supports a fixed subset of shapes and refuses everything
// else loudly (non-zero exit), which the check reports as a broken tie.
package main

import (
	"flag"
	"fmt"
	"go/ast"
	"go/parser"
	"go/token"
	"os"
	"path/filepath"
	"strconv"
	"strings"
)

var (
	repo   = flag.String("repo", "/repo", "mgpusim working tree")
	outDir = flag.String("out", "", "output directory (lean/MgpuModel/Gen)")
	only   = flag.String("only", "all", "comma list: tables,alu,sites,all")
)

func fatalf(format string, a ...interface{}) {
	fmt.Fprintf(os.Stderr, "REFUSE: "+format+"\n", a...)
	os.Exit(1)
}

func writeIfChanged(name, content string) {
	p := filepath.Join(*outDir, name)
	old, err := os.ReadFile(p)
	if err == nil && string(old) == content {
		return
	}
	if err := os.MkdirAll(*outDir, 0o755); err != nil {
		fatalf("%v", err)
	}
	if err := os.WriteFile(p, []byte(content), 0o644); err != nil {
		fatalf("%v", err)
	}
	fmt.Println("wrote", p)
}

func parseFile(rel string) (*token.FileSet, *ast.File) {
	fset := token.NewFileSet()
	f, err := parser.ParseFile(fset, filepath.Join(*repo, rel), nil, parser.ParseComments)
	if err != nil {
		fatalf("parse %s: %v", rel, err)
	}
	return fset, f
}

// constInt evaluates an integer constant expression made of literals, + - * << | and
// identifiers found in env.
func constInt(e ast.Expr, env map[string]int64) (int64, bool) {
	switch x := e.(type) {
	case *ast.BasicLit:
		if x.Kind == token.INT {
			v, err := strconv.ParseInt(x.Value, 0, 64)
			if err != nil {
				u, err2 := strconv.ParseUint(x.Value, 0, 64)
				if err2 != nil {
					return 0, false
				}
				return int64(u), true
			}
			return v, true
		}
	case *ast.Ident:
		v, ok := env[x.Name]
		return v, ok
	case *ast.ParenExpr:
		return constInt(x.X, env)
	case *ast.CallExpr: // conversions like Opcode(320)
		if len(x.Args) == 1 {
			return constInt(x.Args[0], env)
		}
	case *ast.BinaryExpr:
		a, ok1 := constInt(x.X, env)
		b, ok2 := constInt(x.Y, env)
		if !ok1 || !ok2 {
			return 0, false
		}
		switch x.Op {
		case token.ADD:
			return a + b, true
		case token.SUB:
			return a - b, true
		case token.MUL:
			return a * b, true
		case token.SHL:
			return a << uint(b), true
		case token.OR:
			return a | b, true
		}
	}
	return 0, false
}

// iotaConsts returns name -> value for a `const ( A T = iota; B; C … )` block whose first
// name is `first`.
func iotaConsts(f *ast.File, first string) ([]string, map[string]int64) {
	for _, d := range f.Decls {
		gd, ok := d.(*ast.GenDecl)
		if !ok || gd.Tok != token.CONST {
			continue
		}
		vs0, ok := gd.Specs[0].(*ast.ValueSpec)
		if !ok || vs0.Names[0].Name != first {
			continue
		}
		names := []string{}
		m := map[string]int64{}
		for i, s := range gd.Specs {
			vs := s.(*ast.ValueSpec)
			if i > 0 && len(vs.Values) != 0 {
				fatalf("const block starting at %s: entry %s has an explicit value (unsupported)", first, vs.Names[0].Name)
			}
			for _, n := range vs.Names {
				names = append(names, n.Name)
				m[n.Name] = int64(i)
			}
		}
		return names, m
	}
	fatalf("const block starting with %s not found", first)
	return nil, nil
}

func leanStr(s string) string { return strconv.Quote(s) }

func has(list, x string) bool {
	if list == "all" {
		return true
	}
	for _, t := range strings.Split(list, ",") {
		if t == x {
			return true
		}
	}
	return false
}

func main() {
	flag.Parse()
	if *outDir == "" {
		fatalf("-out required")
	}
	if has(*only, "tables") {
		genTables()
	}
	for _, g := range extraGens {
		if has(*only, g.name) {
			g.f()
		}
	}
}

type gen struct {
	name string
	f    func()
}

var extraGens []gen
