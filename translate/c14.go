package main

import (
	"fmt"
	"go/ast"
	"go/token"
	"path/filepath"
	"strconv"
	"strings"
)

// genC14 (property C14) reads the table-like and straight-line parts of the timing compute unit's
// scheduler and writes them as Lean definitions (lean/MgpuModel/Gen/C14Sched.lean):
//
//   - timing/wavefront/wavefront.go: the names of the WfState constants in iota order;
//   - timing/cu/scheduler.go: NewScheduler's barrierBufferSize and stopTickingAfterNCyclesNoProgress;
//     the opcodes of the switch of EvaluateInternalInst with the function each case calls, and the
//     state test that skips an entry; the comparison operators of evalSWaitCnt / evalSEndPgm /
//     evalSBarrier; the wavefront-state conditions of areAllWfInWGAtBarrier,
//     areAllOtherWfsInWGCompleted, areAllOtherWfsInWGAtBarrier, atLeaseOneWfIsExecuting,
//     setAllWfStateToReady (as Boolean functions of the state code, with what the guarded statement
//     does); the assignments of Scheduler.Flush;
//   - timing/cu/computeunit.go: the buffer capacities of the five ports created by NewComputeUnit,
//     the state condition of setWavesToReady, the order of the calls inside flushPipeline, the
//     states handleMapWGReq assigns, the state handleWfCompletionEvent assigns;
//   - a hash of the normalised source of every function the models C14 / C14.Flush transcribe by
//     hand (scheduler, compute unit, vector memory unit, emulator barrier loop).
//
// MgpuProofs/Props/C14Tie.lean proves that the hand-written model uses exactly these constants,
// operators and state conditions; a changed constant or condition changes the generated definition
// and breaks a proof obligation, not only the sampled correspondence. Unknown shapes are refused.
func init() { extraGens = append(extraGens, gen{"c14", genC14}) }

// c14StateCond renders a condition made of `X.State OP wavefront.WfY` joined by && / || as a Lean
// Boolean term over the state code `st`.
func c14StateCond(c *c05File, fn string, e ast.Expr, codes map[string]int64) string {
	switch x := e.(type) {
	case *ast.ParenExpr:
		return "(" + c14StateCond(c, fn, x.X, codes) + ")"
	case *ast.BinaryExpr:
		switch x.Op {
		case token.LAND:
			return "(" + c14StateCond(c, fn, x.X, codes) + " && " + c14StateCond(c, fn, x.Y, codes) + ")"
		case token.LOR:
			return "(" + c14StateCond(c, fn, x.X, codes) + " || " + c14StateCond(c, fn, x.Y, codes) + ")"
		case token.EQL, token.NEQ:
			l, lok := x.X.(*ast.SelectorExpr)
			r, rok := x.Y.(*ast.SelectorExpr)
			if lok && rok && l.Sel.Name == "State" {
				if pk, ok := r.X.(*ast.Ident); ok && pk.Name == "wavefront" {
					code, known := codes[r.Sel.Name]
					if !known {
						fatalf("c14: %s %s: unknown wavefront state %s", c.rel, fn, r.Sel.Name)
					}
					op := "=="
					if x.Op == token.NEQ {
						op = "!="
					}
					return fmt.Sprintf("(st %s %d)", op, code)
				}
			}
		}
	}
	fatalf("c14: %s %s: state condition `%s` has an unsupported shape", c.rel, fn, c05Text(e))
	return ""
}

func c14MentionsState(e ast.Expr) bool {
	found := false
	ast.Inspect(e, func(n ast.Node) bool {
		if s, ok := n.(*ast.SelectorExpr); ok && s.Sel.Name == "State" {
			found = true
		}
		return true
	})
	return found
}

// c14StateIfs returns, in source order, (Lean condition, first statement of the body) of every `if`
// of fd whose condition tests a wavefront state.
func c14StateIfs(c *c05File, name string, codes map[string]int64) [][2]string {
	fd := c.fn(name)
	var out [][2]string
	ast.Inspect(fd.Body, func(n ast.Node) bool {
		if is, ok := n.(*ast.IfStmt); ok && is.Init == nil && c14MentionsState(is.Cond) {
			body := ""
			if len(is.Body.List) > 0 {
				body = c05Text(is.Body.List[0])
			}
			out = append(out, [2]string{c14StateCond(c, name, is.Cond, codes), body})
		}
		return true
	})
	if len(out) == 0 {
		fatalf("c14: %s %s: no wavefront-state condition found", c.rel, name)
	}
	return out
}

// c14AssignInt returns the integer literal assigned to the selector `lhs` inside fd.
func c14AssignInt(c *c05File, fd *ast.FuncDecl, lhs string) int64 {
	var vals []int64
	ast.Inspect(fd.Body, func(n ast.Node) bool {
		if a, ok := n.(*ast.AssignStmt); ok && a.Tok == token.ASSIGN && len(a.Lhs) == 1 && len(a.Rhs) == 1 && c05Text(a.Lhs[0]) == lhs {
			if v, ok := constInt(a.Rhs[0], nil); ok {
				vals = append(vals, v)
			} else {
				fatalf("c14: %s %s: `%s = %s` is not an integer literal", c.rel, fd.Name.Name, lhs, c05Text(a.Rhs[0]))
			}
		}
		return true
	})
	if len(vals) != 1 {
		fatalf("c14: %s %s: expected exactly one assignment to %s, found %d", c.rel, fd.Name.Name, lhs, len(vals))
	}
	return vals[0]
}

// c14StateAssigns returns the state constants assigned to `X.State` inside fd, in source order.
func c14StateAssigns(c *c05File, name string) []string {
	fd := c.fn(name)
	var out []string
	ast.Inspect(fd.Body, func(n ast.Node) bool {
		if a, ok := n.(*ast.AssignStmt); ok && a.Tok == token.ASSIGN && len(a.Lhs) == 1 && len(a.Rhs) == 1 {
			if l, ok := a.Lhs[0].(*ast.SelectorExpr); ok && l.Sel.Name == "State" {
				r, ok := a.Rhs[0].(*ast.SelectorExpr)
				if !ok {
					fatalf("c14: %s %s: `%s` assigns something that is not a state constant", c.rel, name, c05Text(a))
				}
				out = append(out, r.Sel.Name)
			}
		}
		return true
	})
	return out
}

func c14StrList(l []string) string {
	q := make([]string, len(l))
	for i, s := range l {
		q[i] = leanStr(s)
	}
	return "[" + strings.Join(q, ", ") + "]"
}

func genC14() {
	root, _ := filepath.Abs(*repo)
	parse := func(rel string) *c05File { return c05Parse(filepath.Join(root, rel), rel) }
	wfF := parse("amd/timing/wavefront/wavefront.go")
	sch := parse("amd/timing/cu/scheduler.go")
	cuF := parse("amd/timing/cu/computeunit.go")
	vmu := parse("amd/timing/cu/vectormemoryunit.go")
	emu := parse("amd/emu/computeunit.go")
	cub := parse("amd/timing/cu/cubuilder.go")
	arbF := parse("amd/timing/cu/issuearbiter.go")
	decF := parse("amd/timing/cu/decodeunit.go")
	brF := parse("amd/timing/cu/branchunit.go")
	instF := parse("amd/insts/inst.go")
	mi3 := parse("amd/samples/runner/timingconfig/mi300a/builder.go")
	sha := parse("amd/samples/runner/timingconfig/shaderarray/builder.go")
	pipe := c05Parse(filepath.Join(c05GoList(root, "{{.Dir}}", "github.com/sarchlab/akita/v4/pipelining"), "pipeline.go"), "akita/pipelining/pipeline.go")

	var b strings.Builder
	b.WriteString("-- GENERATED by translate/c14.go from amd/timing/cu, amd/timing/wavefront and amd/emu. Do not edit.\n")
	b.WriteString("namespace Gen\nnamespace C14Sched\n\n")

	names, codes := iotaConsts(wfF.f, "WfDispatching")
	fmt.Fprintf(&b, "/-- `wavefront.WfState`: the constants in `iota` order -/\ndef wfStateNames : List String := %s\n\n", c14StrList(names))

	ns := sch.fn("NewScheduler")
	fmt.Fprintf(&b, "/-- `NewScheduler`: `s.barrierBufferSize = …` -/\ndef barrierBufferSize : Nat := %d\n", c14AssignInt(sch, ns, "s.barrierBufferSize"))
	fmt.Fprintf(&b, "/-- `NewScheduler`: `s.stopTickingAfterNCyclesNoProgress = …` -/\ndef stopTickingAfterNCyclesNoProgress : Nat := %d\n\n",
		c14AssignInt(sch, ns, "s.stopTickingAfterNCyclesNoProgress"))

	// ports of NewComputeUnit: cu.X = sim.NewPort(cu, in, out, name+".X")
	var ports []string
	ast.Inspect(cuF.fn("NewComputeUnit").Body, func(n ast.Node) bool {
		a, ok := n.(*ast.AssignStmt)
		if !ok || len(a.Lhs) != 1 || len(a.Rhs) != 1 {
			return true
		}
		call, ok := a.Rhs[0].(*ast.CallExpr)
		if !ok || c05Text(call.Fun) != "sim.NewPort" {
			return true
		}
		if len(call.Args) != 4 {
			fatalf("c14: NewComputeUnit: sim.NewPort with %d arguments", len(call.Args))
		}
		in, ok1 := constInt(call.Args[1], nil)
		out, ok2 := constInt(call.Args[2], nil)
		if !ok1 || !ok2 {
			fatalf("c14: NewComputeUnit: port capacities of %s are not literals", c05Text(a.Lhs[0]))
		}
		ports = append(ports, fmt.Sprintf("(%s, %d, %d)", leanStr(strings.TrimPrefix(c05Text(a.Lhs[0]), "cu.")), in, out))
		return true
	})
	if len(ports) != 5 {
		fatalf("c14: NewComputeUnit: expected 5 ports, found %d", len(ports))
	}
	fmt.Fprintf(&b, "/-- `NewComputeUnit`: (port, incoming buffer capacity, outgoing buffer capacity) -/\ndef ports : List (String × Nat × Nat) := [%s]\n\n", strings.Join(ports, ", "))

	// the switch of EvaluateInternalInst
	ev := sch.fn("SchedulerImpl.EvaluateInternalInst")
	var cases []string
	nswitch := 0
	ast.Inspect(ev.Body, func(n ast.Node) bool {
		sw, ok := n.(*ast.SwitchStmt)
		if !ok {
			return true
		}
		nswitch++
		if c05Text(sw.Tag) != "executing.Inst().Opcode" {
			fatalf("c14: EvaluateInternalInst: switch on `%s`", c05Text(sw.Tag))
		}
		for _, st := range sw.Body.List {
			cc := st.(*ast.CaseClause)
			callee := ""
			ast.Inspect(cc, func(m ast.Node) bool {
				if call, ok := m.(*ast.CallExpr); ok && callee == "" {
					if sel, ok := call.Fun.(*ast.SelectorExpr); ok {
						callee = sel.Sel.Name
					}
				}
				return true
			})
			if cc.List == nil {
				cases = append(cases, fmt.Sprintf("(none, %s)", leanStr(callee)))
				continue
			}
			for _, e := range cc.List {
				v, ok := constInt(e, nil)
				if !ok {
					fatalf("c14: EvaluateInternalInst: case `%s` is not a literal", c05Text(e))
				}
				cases = append(cases, fmt.Sprintf("(some %d, %s)", v, leanStr(callee)))
			}
		}
		return true
	})
	if nswitch != 1 {
		fatalf("c14: EvaluateInternalInst: expected one switch, found %d", nswitch)
	}
	fmt.Fprintf(&b, "/-- `EvaluateInternalInst`: (SOPP opcode or `none` = default, the function the case calls first) -/\ndef evalSwitch : List (Option Nat × String) := [%s]\n", strings.Join(cases, ", "))

	stateFn := func(def, fn string, c *c05File, doc string) {
		ifs := c14StateIfs(c, fn, codes)
		var acts []string
		for k, p := range ifs {
			fmt.Fprintf(&b, "/-- `%s`, state condition %d (%s): then `%s` -/\ndef %s%d (st : Nat) : Bool := %s\n", fn, k, doc, p[1], def, k, p[0])
			acts = append(acts, p[1])
		}
		fmt.Fprintf(&b, "def %sActs : List String := %s\n", def, c14StrList(acts))
	}
	b.WriteString("\n")
	stateFn("evalSkip", "SchedulerImpl.EvaluateInternalInst", sch, "an entry released earlier in the round")
	stateFn("allAtBarrier", "SchedulerImpl.areAllWfInWGAtBarrier", sch, "over the wavefronts of the group")
	stateFn("othersCompleted", "SchedulerImpl.areAllOtherWfsInWGCompleted", sch, "over the other wavefronts of the group")
	stateFn("othersAtBarrier", "SchedulerImpl.areAllOtherWfsInWGAtBarrier", sch, "over the other wavefronts of the group")
	stateFn("someExecuting", "SchedulerImpl.atLeaseOneWfIsExecuting", sch, "over the wavefronts of the group")
	stateFn("release", "SchedulerImpl.setAllWfStateToReady", sch, "over the wavefronts of the group")
	stateFn("flushWaves", "ComputeUnit.setWavesToReady", cuF, "over the wavefronts resident in the pools")
	b.WriteString("\n")

	op := func(name, doc, v string) { fmt.Fprintf(&b, "/-- %s -/\ndef %s : String := %s\n", doc, name, leanStr(v)) }
	wc := sch.fn("SchedulerImpl.evalSWaitCnt")
	op("waitLgkm", "`evalSWaitCnt`: `wf.OutstandingScalarMemAccess OP inst.LKGMCNT` keeps the instruction waiting",
		sch.cmpOf(wc, "wf.OutstandingScalarMemAccess", "inst.LKGMCNT"))
	op("waitVm", "`evalSWaitCnt`: `wf.OutstandingVectorMemAccess OP inst.VMCNT` keeps the instruction waiting",
		sch.cmpOf(wc, "wf.OutstandingVectorMemAccess", "inst.VMCNT"))
	ep := sch.fn("SchedulerImpl.evalSEndPgm")
	op("endVm", "`evalSEndPgm`: `wf.OutstandingVectorMemAccess OP 0` keeps `s_endpgm` waiting", sch.cmpOf(ep, "wf.OutstandingVectorMemAccess", "0"))
	op("endLgkm", "`evalSEndPgm`: `wf.OutstandingScalarMemAccess OP 0` keeps `s_endpgm` waiting", sch.cmpOf(ep, "wf.OutstandingScalarMemAccess", "0"))
	op("bufRoom", "`evalSBarrier`: `len(s.barrierBuffer) OP s.barrierBufferSize` = there is room", sch.cmpOf(sch.fn("SchedulerImpl.evalSBarrier"), "len(s.barrierBuffer)", "s.barrierBufferSize"))
	b.WriteString("\n")

	// Scheduler.Flush: the fields it resets
	var resets []string
	for _, st := range sch.fn("SchedulerImpl.Flush").Body.List {
		a, ok := st.(*ast.AssignStmt)
		if !ok || len(a.Lhs) != 1 || c05Text(a.Rhs[0]) != "nil" {
			fatalf("c14: SchedulerImpl.Flush: statement `%s` is not `field = nil`", c05Text(st))
		}
		resets = append(resets, strings.TrimPrefix(c05Text(a.Lhs[0]), "s."))
	}
	fmt.Fprintf(&b, "/-- `SchedulerImpl.Flush`: the fields set to nil -/\ndef schedFlushResets : List String := %s\n", c14StrList(resets))
	// flushPipeline: the calls, in order
	var calls []string
	for _, st := range cuF.fn("ComputeUnit.flushPipeline").Body.List {
		if es, ok := st.(*ast.ExprStmt); ok {
			if call, ok := es.X.(*ast.CallExpr); ok {
				calls = append(calls, c05Text(call.Fun))
			}
		}
	}
	fmt.Fprintf(&b, "/-- `flushPipeline`: the calls it makes, in order -/\ndef flushPipelineCalls : List String := %s\n", c14StrList(calls))
	fmt.Fprintf(&b, "/-- `handleMapWGReq`: the states it assigns, in source order (sampled path, dispatched path) -/\ndef mapWGStates : List String := %s\n",
		c14StrList(c14StateAssigns(cuF, "ComputeUnit.handleMapWGReq")))
	fmt.Fprintf(&b, "/-- `handleWfCompletionEvent`: the states it assigns -/\ndef wfCompletionStates : List String := %s\n",
		c14StrList(c14StateAssigns(cuF, "ComputeUnit.handleWfCompletionEvent")))
	fmt.Fprintf(&b, "/-- `evalSEndPgm`: the states it assigns (one per way of ending) -/\ndef endPgmStates : List String := %s\n",
		c14StrList(c14StateAssigns(sch, "SchedulerImpl.evalSEndPgm")))
	fmt.Fprintf(&b, "/-- `evalSBarrier`: the states it assigns -/\ndef barrierStates : List String := %s\n",
		c14StrList(c14StateAssigns(sch, "SchedulerImpl.evalSBarrier")))
	// processInputFromVectorMem: responses per cycle
	var perCycle []string
	ast.Inspect(cuF.fn("ComputeUnit.processInputFromVectorMem").Body, func(n ast.Node) bool {
		if f, ok := n.(*ast.ForStmt); ok && f.Cond != nil {
			if be, ok := f.Cond.(*ast.BinaryExpr); ok {
				if v, ok := constInt(be.Y, nil); ok {
					perCycle = append(perCycle, strconv.FormatInt(v, 10))
				}
			}
		}
		return true
	})
	if len(perCycle) != 1 {
		fatalf("c14: processInputFromVectorMem: expected one counted loop, found %d", len(perCycle))
	}
	fmt.Fprintf(&b, "/-- `processInputFromVectorMem`: responses handled per cycle -/\ndef vectorResponsesPerCycle : Nat := %s\n", perCycle[0])

	// the vector memory unit's transaction pipeline
	b.WriteString("\n")
	mb := cub.fn("MakeBuilder")
	fmt.Fprintf(&b, "/-- `cu.MakeBuilder` defaults (the r9nano platform keeps them): transaction pipeline stages, lanes, post-pipeline buffer -/\ndef vmuDefault : Nat × Nat × Nat := (%d, %d, %d)\n",
		c14AssignInt(cub, mb, "b.vecMemTransPipelineStages"), c14AssignInt(cub, mb, "b.vecMemTransPipelineWidth"), c14AssignInt(cub, mb, "b.memPipelineBufferSize"))
	callArg := func(c *c05File, fn string) int64 {
		var vals []int64
		ast.Inspect(c.f, func(n ast.Node) bool {
			if call, ok := n.(*ast.CallExpr); ok && len(call.Args) == 1 {
				if sel, ok := call.Fun.(*ast.SelectorExpr); ok && sel.Sel.Name == fn {
					if v, ok := constInt(call.Args[0], nil); ok {
						vals = append(vals, v)
					}
				}
			}
			return true
		})
		if len(vals) != 1 {
			fatalf("c14: %s: expected exactly one call %s(<literal>), found %d", c.rel, fn, len(vals))
		}
		return vals[0]
	}
	fmt.Fprintf(&b, "/-- the mi300a platform: `WithVecMemTransPipelineStages`, `…Width`, `WithCUMemPipelineBufferSize`, `WithMaxCoalescingPenalty` -/\ndef vmuMI300A : Nat × Nat × Nat × Nat := (%d, %d, %d, %d)\n",
		callArg(mi3, "WithVecMemTransPipelineStages"), callArg(mi3, "WithVecMemTransPipelineWidth"), callArg(mi3, "WithCUMemPipelineBufferSize"), callArg(mi3, "WithMaxCoalescingPenalty"))
	// the shader-array builder hands cuMemPipelineBufferSize to the compute unit's WithMemPipelineBufferSize
	handed := false
	ast.Inspect(sha.f, func(n ast.Node) bool {
		if call, ok := n.(*ast.CallExpr); ok && len(call.Args) == 1 && c05Text(call.Args[0]) == "b.cuMemPipelineBufferSize" {
			if sel, ok := call.Fun.(*ast.SelectorExpr); ok && sel.Sel.Name == "WithMemPipelineBufferSize" {
				handed = true
			}
		}
		return true
	})
	if !handed {
		fatalf("c14: shaderarray/builder.go: cuMemPipelineBufferSize is no longer passed to the compute unit's WithMemPipelineBufferSize")
	}
	// cyclePerStage of the transaction pipeline, the burst of sendRequest, the clamp of the buffer size
	var cps []int64
	ast.Inspect(cub.f, func(n ast.Node) bool {
		if call, ok := n.(*ast.CallExpr); ok && len(call.Args) == 1 {
			if sel, ok := call.Fun.(*ast.SelectorExpr); ok && sel.Sel.Name == "WithCyclePerStage" {
				if v, ok := constInt(call.Args[0], nil); ok {
					cps = append(cps, v)
				}
			}
		}
		return true
	})
	for _, v := range cps {
		if v != 1 {
			fatalf("c14: cubuilder.go: a pipeline is built WithCyclePerStage(%d); the model C14.Vmu assumes 1", v)
		}
	}
	fmt.Fprintf(&b, "/-- `cubuilder.go`: every pipeline of the compute unit is built `WithCyclePerStage(1)` (%d pipelines) -/\ndef cyclePerStage : Nat := 1\n", len(cps))
	var burst []string
	ast.Inspect(vmu.fn("VectorMemoryUnit.sendRequest").Body, func(n ast.Node) bool {
		if f, ok := n.(*ast.ForStmt); ok && f.Cond != nil {
			if be, ok := f.Cond.(*ast.BinaryExpr); ok && be.Op == token.LSS {
				if v, ok := constInt(be.Y, nil); ok {
					burst = append(burst, strconv.FormatInt(v, 10))
				}
			}
		}
		return true
	})
	if len(burst) != 1 {
		fatalf("c14: VectorMemoryUnit.sendRequest: expected one counted loop, found %d", len(burst))
	}
	fmt.Fprintf(&b, "/-- `VectorMemoryUnit.sendRequest`: requests per cycle -/\ndef vmuBurst : Nat := %s\n", burst[0])
	var runCalls []string
	ast.Inspect(vmu.fn("VectorMemoryUnit.Run").Body, func(n ast.Node) bool {
		if call, ok := n.(*ast.CallExpr); ok {
			if t := c05Text(call.Fun); strings.HasPrefix(t, "u.") {
				runCalls = append(runCalls, t)
			}
		}
		return true
	})
	fmt.Fprintf(&b, "/-- `VectorMemoryUnit.Run`: the stages, in order -/\ndef vmuRunOrder : List String := %s\n", c14StrList(runCalls))

	// who may issue
	b.WriteString("\n")
	exeNames, _ := iotaConsts(instF.f, "ExeUnitVALU")
	fmt.Fprintf(&b, "/-- `insts.ExeUnit`: the constants in `iota` order -/\ndef exeUnitNames : List String := %s\n", c14StrList(exeNames))
	var dcap []int64
	ast.Inspect(decF.fn("DecodeUnit.CanAcceptWave").Body, func(n ast.Node) bool {
		if be, ok := n.(*ast.BinaryExpr); ok && be.Op == token.LSS && c05Text(be.X) == "len(du.toDecode)" {
			if v, ok := constInt(be.Y, nil); ok {
				dcap = append(dcap, v)
			}
		}
		return true
	})
	if len(dcap) != 1 {
		fatalf("c14: DecodeUnit.CanAcceptWave: expected `len(du.toDecode) < N`, found %d such tests", len(dcap))
	}
	fmt.Fprintf(&b, "/-- `DecodeUnit.CanAcceptWave`: `len(du.toDecode) < N` -/\ndef decodeUnitCap : Nat := %d\n", dcap[0])
	if t := c05Text(brF.fn("BranchUnit.CanAcceptWave").Body); t != "{ return u.toRead == nil }" {
		fatalf("c14: BranchUnit.CanAcceptWave is `%s` (expected one slot: u.toRead == nil)", t)
	}
	b.WriteString("/-- `BranchUnit.CanAcceptWave`: `u.toRead == nil`, one wavefront -/\ndef branchUnitCap : Nat := 1\n")
	var maskLen []int64
	ast.Inspect(arbF.fn("IssueArbiter.Arbitrate").Body, func(n ast.Node) bool {
		if call, ok := n.(*ast.CallExpr); ok && c05Text(call.Fun) == "make" && len(call.Args) == 2 && c05Text(call.Args[0]) == "[]bool" {
			if v, ok := constInt(call.Args[1], nil); ok {
				maskLen = append(maskLen, v)
			}
		}
		return true
	})
	if len(maskLen) != 1 {
		fatalf("c14: IssueArbiter.Arbitrate: expected one `make([]bool, N)` type mask, found %d", len(maskLen))
	}
	fmt.Fprintf(&b, "/-- `IssueArbiter.Arbitrate`: length of the per-SIMD execution-unit type mask -/\ndef typeMaskLen : Nat := %d\n", maskLen[0])

	// hashes
	type hf struct {
		c     *c05File
		names []string
	}
	b.WriteString("\n/-- (file, function, hash of the normalised source) of every function the models `C14` and `C14.Flush`\n    transcribe by hand -/\ndef modelledFuncs : List (String × String × String) := [\n")
	var rows []string
	for _, h := range []hf{
		{sch, []string{"SchedulerImpl.Run", "SchedulerImpl.issueToInternal", "SchedulerImpl.EvaluateInternalInst", "SchedulerImpl.evalSEndPgm",
			"SchedulerImpl.areAllOtherWfsInWGCompleted", "SchedulerImpl.atLeaseOneWfIsExecuting", "SchedulerImpl.sendWGCompletionMessage",
			"SchedulerImpl.areAllOtherWfsInWGAtBarrier", "SchedulerImpl.evalSBarrier", "SchedulerImpl.areAllWfInWGAtBarrier",
			"SchedulerImpl.passBarrier", "SchedulerImpl.setAllWfStateToReady", "SchedulerImpl.removeAllWfFromBarrierBuffer",
			"SchedulerImpl.removeAllWfFromInternalExecuting", "SchedulerImpl.evalSWaitCnt", "SchedulerImpl.Pause", "SchedulerImpl.Resume",
			"SchedulerImpl.Flush"}},
		{cuF, []string{"ComputeUnit.Tick", "ComputeUnit.runPipeline", "ComputeUnit.doFlush", "ComputeUnit.processInput", "ComputeUnit.processInputFromCP",
			"ComputeUnit.handlePipelineFlushReq", "ComputeUnit.handlePipelineResume", "ComputeUnit.sendToCP", "ComputeUnit.flushPipeline",
			"ComputeUnit.handleWfCompletionEvent", "ComputeUnit.handleMapWGReq", "ComputeUnit.clearWGResource", "ComputeUnit.handleFetchReturn",
			"ComputeUnit.handleScalarDataLoadReturn", "ComputeUnit.isLastRead", "ComputeUnit.handleVectorDataLoadReturn",
			"ComputeUnit.handleVectorDataStoreRsp", "ComputeUnit.UpdatePCAndSetReady", "ComputeUnit.SetReady",
			"ComputeUnit.reInsertShadowBufferReqsToOriginalBuffers", "ComputeUnit.checkShadowBuffers", "ComputeUnit.sendOutShadowBufferReqs",
			"ComputeUnit.sendScalarShadowBufferAccesses", "ComputeUnit.sendVectorShadowBufferAccesses", "ComputeUnit.sendInstFetchShadowBufferAccesses",
			"ComputeUnit.populateShadowBuffers", "ComputeUnit.setWavesToReady"}},
		{vmu, []string{"VectorMemoryUnit.Run", "VectorMemoryUnit.instToTransaction", "VectorMemoryUnit.insertTransactionToPipeline",
			"VectorMemoryUnit.computeCoalescingPenalty", "VectorMemoryUnit.executeFlatLoad", "VectorMemoryUnit.executeFlatStore",
			"VectorMemoryUnit.sendRequest", "VectorMemoryUnit.Flush", "VectorMemoryUnit.canAcceptTransaction",
			"VectorMemoryUnit.setAsideTransaction", "orderedTransaction.is"}},
		{arbF, []string{"IssueArbiter.Arbitrate", "IssueArbiter.isAllWfPoolsEmpty"}},
		{sch, []string{"SchedulerImpl.DoIssue", "SchedulerImpl.getUnitToIssueTo"}},
		{decF, []string{"DecodeUnit.CanAcceptWave", "DecodeUnit.AcceptWave"}},
		{brF, []string{"BranchUnit.CanAcceptWave", "BranchUnit.AcceptWave"}},
		{pipe, []string{"pipelineImpl.Clear", "pipelineImpl.Tick", "pipelineImpl.tryMoveToPostPipelineBuffer", "pipelineImpl.tryMoveToNextStage",
			"pipelineImpl.CanAccept", "pipelineImpl.Accept"}},
		{emu, []string{"ComputeUnit.runWG", "ComputeUnit.isAllWfCompleted", "ComputeUnit.resolveBarrier"}},
	} {
		for _, n := range h.names {
			fd := h.c.fn(n)
			rows = append(rows, fmt.Sprintf("  (%s, %s, %s)", leanStr(h.c.rel), leanStr(n), leanStr(hash16(c05Text(fd)))))
		}
	}
	b.WriteString(strings.Join(rows, ",\n"))
	b.WriteString("]\n\nend C14Sched\nend Gen\n")
	writeIfChanged("C14Sched.lean", b.String())
}
