package main

import (
	"fmt"
	"go/ast"
	"go/token"
	"sort"
	"strings"
)

// genC12Drv: the table-like facts the C12 models of the driver rest on, re-read from the source of
// amd/driver on every run and written to lean/MgpuModel/Gen/C12Drv.lean:
//   - the order of the stages of Driver.Tick (and that every stage is CALLED before `|| madeProgress`,
//     i.e. is never short-circuited away),
//   - the message types processReturnReq takes, their handlers, and the `return` expressions of
//     every handler that runs after a RetrieveIncoming (W1: a consumed message is always reported),
//   - the buffer capacities of the two ports, the capacities of the three channels of the protocol,
//   - the shape of defaultMemoryCopyMiddleware.Tick (timer sentinel, the response flag REPLACING
//     the timer flag) and the request types processGeneralRsp takes,
//   - the command types (types with a GetReqs method) and which of them some stage handles.
// Anything that does not have the expected shape is refused.
func init() { extraGens = append(extraGens, gen{"c12drv", genC12Drv}) }

func c12FuncDecl(f *ast.File, recv, name string) *ast.FuncDecl {
	for _, d := range f.Decls {
		fd, ok := d.(*ast.FuncDecl)
		if !ok || fd.Name.Name != name {
			continue
		}
		if recv == "" {
			if fd.Recv == nil {
				return fd
			}
			continue
		}
		if fd.Recv == nil || len(fd.Recv.List) != 1 {
			continue
		}
		t := fd.Recv.List[0].Type
		if st, ok := t.(*ast.StarExpr); ok {
			t = st.X
		}
		if id, ok := t.(*ast.Ident); ok && id.Name == recv {
			return fd
		}
	}
	fatalf("c12drv: func (%s) %s not found", recv, name)
	return nil
}

// `madeProgress = X || madeProgress` with X a call: returns the callee's last name
func c12ProgressCall(s ast.Stmt, where string) string {
	as, ok := s.(*ast.AssignStmt)
	if !ok || len(as.Lhs) != 1 || len(as.Rhs) != 1 || as.Tok != token.ASSIGN {
		fatalf("c12drv: %s: unexpected statement %s", where, nodeString(s))
	}
	if id, ok := as.Lhs[0].(*ast.Ident); !ok || id.Name != "madeProgress" {
		fatalf("c12drv: %s: assignment to something else than madeProgress: %s", where, nodeString(s))
	}
	be, ok := as.Rhs[0].(*ast.BinaryExpr)
	if !ok || be.Op != token.LOR {
		fatalf("c12drv: %s: right-hand side is not `call || madeProgress`: %s", where, nodeString(s))
	}
	if id, ok := be.Y.(*ast.Ident); !ok || id.Name != "madeProgress" {
		fatalf("c12drv: %s: the stage call must come FIRST (`stage() || madeProgress`), found %s", where, nodeString(s))
	}
	call, ok := be.X.(*ast.CallExpr)
	if !ok {
		fatalf("c12drv: %s: left operand is not a call: %s", where, nodeString(s))
	}
	sel, ok := call.Fun.(*ast.SelectorExpr)
	if !ok {
		fatalf("c12drv: %s: unexpected callee %s", where, nodeString(call.Fun))
	}
	return sel.Sel.Name
}

func c12Returns(fd *ast.FuncDecl) []string {
	var out []string
	ast.Inspect(fd.Body, func(n ast.Node) bool {
		if _, ok := n.(*ast.FuncLit); ok {
			return false
		}
		if r, ok := n.(*ast.ReturnStmt); ok {
			if len(r.Results) != 1 {
				fatalf("c12drv: %s: return with %d results", fd.Name.Name, len(r.Results))
			}
			out = append(out, nodeString(r.Results[0]))
		}
		return true
	})
	return out
}

func c12TypeName(e ast.Expr) string {
	if st, ok := e.(*ast.StarExpr); ok {
		e = st.X
	}
	switch x := e.(type) {
	case *ast.SelectorExpr:
		return x.Sel.Name
	case *ast.Ident:
		return x.Name
	}
	fatalf("c12drv: unexpected case type %s", nodeString(e))
	return ""
}

func c12TypeSwitch(fd *ast.FuncDecl) *ast.TypeSwitchStmt {
	var ts *ast.TypeSwitchStmt
	n := 0
	ast.Inspect(fd.Body, func(x ast.Node) bool {
		if t, ok := x.(*ast.TypeSwitchStmt); ok {
			ts = t
			n++
		}
		return true
	})
	if n != 1 {
		fatalf("c12drv: %s: expected exactly one type switch, found %d", fd.Name.Name, n)
	}
	return ts
}

func c12LeanList(l []string) string {
	q := make([]string, len(l))
	for i, s := range l {
		q[i] = leanStr(s)
	}
	return "[" + strings.Join(q, ", ") + "]"
}

func c12PortCaps(f *ast.File, portName string) (int64, int64) {
	var in, out int64 = -1, -1
	ast.Inspect(f, func(n ast.Node) bool {
		c, ok := n.(*ast.CallExpr)
		if !ok || len(c.Args) != 4 {
			return true
		}
		sel, ok := c.Fun.(*ast.SelectorExpr)
		if !ok || sel.Sel.Name != "NewPort" {
			return true
		}
		lit, ok := c.Args[3].(*ast.BasicLit)
		if !ok || lit.Value != `"`+portName+`"` {
			return true
		}
		a, ok1 := constInt(c.Args[1], nil)
		b, ok2 := constInt(c.Args[2], nil)
		if !ok1 || !ok2 {
			fatalf("c12drv: NewPort(%s): capacities are not integer constants", portName)
		}
		in, out = a, b
		return true
	})
	if in < 0 {
		fatalf("c12drv: sim.NewPort(…, %q) not found in builder.go", portName)
	}
	return in, out
}

// capacity of `make(chan bool[, n])` assigned / bound to the field `field`
func c12ChanCap(f *ast.File, field string) int64 {
	var res int64 = -1
	check := func(rhs ast.Expr) {
		c, ok := rhs.(*ast.CallExpr)
		if !ok {
			return
		}
		if id, ok := c.Fun.(*ast.Ident); !ok || id.Name != "make" {
			return
		}
		if _, ok := c.Args[0].(*ast.ChanType); !ok {
			return
		}
		if len(c.Args) == 1 {
			res = 0
			return
		}
		v, ok := constInt(c.Args[1], nil)
		if !ok {
			fatalf("c12drv: channel %s: capacity is not a constant", field)
		}
		res = v
	}
	ast.Inspect(f, func(n ast.Node) bool {
		switch x := n.(type) {
		case *ast.KeyValueExpr:
			if id, ok := x.Key.(*ast.Ident); ok && id.Name == field {
				check(x.Value)
			}
		case *ast.AssignStmt:
			if len(x.Lhs) == 1 && len(x.Rhs) == 1 {
				if sel, ok := x.Lhs[0].(*ast.SelectorExpr); ok && sel.Sel.Name == field {
					check(x.Rhs[0])
				}
			}
		}
		return true
	})
	if res < 0 {
		fatalf("c12drv: make(chan …) for %s not found", field)
	}
	return res
}

func genC12Drv() {
	_, fdrv := parseFile("amd/driver/driver.go")
	_, fbld := parseFile("amd/driver/builder.go")
	_, fcq := parseFile("amd/driver/commandqueue.go")
	_, fmc := parseFile("amd/driver/memorycopy.go")
	_, fcmd := parseFile("amd/driver/command.go")

	// 1. Driver.Tick
	tick := c12FuncDecl(fdrv, "Driver", "Tick")
	var order []string
	for i, s := range tick.Body.List {
		switch x := s.(type) {
		case *ast.AssignStmt:
			if i == 0 && x.Tok == token.DEFINE && nodeString(x) == "madeProgress := false" {
				continue
			}
			order = append(order, c12ProgressCall(s, "Driver.Tick"))
		case *ast.RangeStmt:
			if nodeString(x.X) != "d.middlewares" || len(x.Body.List) != 1 {
				fatalf("c12drv: Driver.Tick: unexpected loop %s", nodeString(x))
			}
			if c12ProgressCall(x.Body.List[0], "Driver.Tick middleware loop") != "Tick" {
				fatalf("c12drv: Driver.Tick: the middleware loop does not call Tick")
			}
			order = append(order, "middlewares")
		case *ast.ReturnStmt:
			if i != len(tick.Body.List)-1 || nodeString(x) != "return madeProgress" {
				fatalf("c12drv: Driver.Tick: unexpected return %s", nodeString(x))
			}
		default:
			fatalf("c12drv: Driver.Tick: unexpected statement %s", nodeString(s))
		}
	}

	// 2. processReturnReq
	prr := c12FuncDecl(fdrv, "Driver", "processReturnReq")
	ts := c12TypeSwitch(prr)
	var caseTypes, caseHandlers []string
	for _, cc := range ts.Body.List {
		c := cc.(*ast.CaseClause)
		if len(c.List) != 1 {
			fatalf("c12drv: processReturnReq: case with %d types (or a default)", len(c.List))
		}
		if len(c.Body) != 2 || nodeString(c.Body[0]) != "d.gpuPort.RetrieveIncoming()" {
			fatalf("c12drv: processReturnReq: case %s does not have the shape RetrieveIncoming; return handler(req)", nodeString(c.List[0]))
		}
		ret, ok := c.Body[1].(*ast.ReturnStmt)
		if !ok || len(ret.Results) != 1 {
			fatalf("c12drv: processReturnReq: case %s: second statement is not a return", nodeString(c.List[0]))
		}
		call, ok := ret.Results[0].(*ast.CallExpr)
		if !ok {
			fatalf("c12drv: processReturnReq: case %s returns %s", nodeString(c.List[0]), nodeString(ret.Results[0]))
		}
		caseTypes = append(caseTypes, c12TypeName(c.List[0]))
		caseHandlers = append(caseHandlers, call.Fun.(*ast.SelectorExpr).Sel.Name)
	}
	if last, ok := prr.Body.List[len(prr.Body.List)-1].(*ast.ReturnStmt); !ok || nodeString(last) != "return false" {
		fatalf("c12drv: processReturnReq does not end with `return false`")
	}

	// 3. handlers that run after a message was taken: their return expressions
	type hr struct {
		name string
		rets []string
	}
	var handlers []hr
	for _, h := range caseHandlers {
		handlers = append(handlers, hr{h, c12Returns(c12FuncDecl(fdrv, "Driver", h))})
	}
	gen := c12FuncDecl(fmc, "defaultMemoryCopyMiddleware", "processGeneralRsp")
	gts := c12TypeSwitch(gen)
	var genTypes []string
	for _, cc := range gts.Body.List {
		c := cc.(*ast.CaseClause)
		if len(c.List) != 1 || len(c.Body) != 1 {
			fatalf("c12drv: processGeneralRsp: unexpected case %s", nodeString(c))
		}
		as, ok := c.Body[0].(*ast.AssignStmt)
		if !ok || nodeString(as.Lhs[0]) != "madeProgress" {
			fatalf("c12drv: processGeneralRsp: unexpected case body %s", nodeString(c.Body[0]))
		}
		call := as.Rhs[0].(*ast.CallExpr)
		h := call.Fun.(*ast.SelectorExpr).Sel.Name
		genTypes = append(genTypes, c12TypeName(c.List[0]))
		hd := c12FuncDecl(fmc, "defaultMemoryCopyMiddleware", h)
		if len(hd.Body.List) == 0 || nodeString(hd.Body.List[0]) != "m.driver.gpuPort.RetrieveIncoming()" {
			fatalf("c12drv: %s does not start with RetrieveIncoming", h)
		}
		handlers = append(handlers, hr{h, c12Returns(hd)})
	}
	pfm := c12FuncDecl(fdrv, "Driver", "parseFromMMU")
	handlers = append(handlers, hr{"parseFromMMU.afterRetrieve", nil})
	{
		// returns after the RetrieveIncoming: everything behind the `if req == nil { return false }`
		seen := false
		var rets []string
		for _, s := range pfm.Body.List {
			if strings.Contains(nodeString(s), "RetrieveIncoming") {
				seen = true
				continue
			}
			if !seen {
				continue
			}
			if ifs, ok := s.(*ast.IfStmt); ok && nodeString(ifs.Cond) == "req == nil" {
				continue
			}
			ast.Inspect(s, func(n ast.Node) bool {
				if r, ok := n.(*ast.ReturnStmt); ok {
					rets = append(rets, nodeString(r.Results[0]))
				}
				return true
			})
		}
		if !seen {
			fatalf("c12drv: parseFromMMU: no RetrieveIncoming")
		}
		handlers[len(handlers)-1].rets = rets
	}

	// 4. ports and channels
	gIn, gOut := c12PortCaps(fbld, "Driver.ToGPUs")
	mIn, mOut := c12PortCaps(fbld, "Driver.ToMMU")
	sigCap := c12ChanCap(fcq, "signal")
	closeCap := c12ChanCap(fcq, "closeSignal")
	enqCap := c12ChanCap(fbld, "enqueueSignal")

	// 5. defaultMemoryCopyMiddleware.Tick
	mt := c12FuncDecl(fmc, "defaultMemoryCopyMiddleware", "Tick")
	src := nodeString(mt.Body)
	flag := ""
	sentinel := int64(0)
	ast.Inspect(mt.Body, func(n ast.Node) bool {
		as, ok := n.(*ast.AssignStmt)
		if !ok || len(as.Lhs) != 1 {
			return true
		}
		l := nodeString(as.Lhs[0])
		if l == "madeProgress" {
			if call, ok := as.Rhs[0].(*ast.CallExpr); ok && strings.HasSuffix(nodeString(call.Fun), "processGeneralRsp") {
				flag = "overwrite"
			} else if be, ok := as.Rhs[0].(*ast.BinaryExpr); ok && be.Op == token.LOR && strings.Contains(nodeString(be), "processGeneralRsp") {
				flag = "or"
			}
		}
		if l == "m.cyclesLeft" {
			if u, ok := as.Rhs[0].(*ast.UnaryExpr); ok && u.Op == token.SUB {
				if v, ok := constInt(u.X, nil); ok {
					sentinel = -v
				}
			}
		}
		return true
	})
	if flag == "" || sentinel >= 0 {
		fatalf("c12drv: defaultMemoryCopyMiddleware.Tick: cannot find the response flag assignment / the idle value of cyclesLeft in\n%s", src)
	}
	if !strings.Contains(src, "m.cyclesLeft > 0") || !strings.Contains(src, "m.cyclesLeft == 0") {
		fatalf("c12drv: defaultMemoryCopyMiddleware.Tick: timer tests changed")
	}

	// 6. command types and who handles them
	cmdTypes := map[string]bool{}
	for _, d := range fcmd.Decls {
		fd, ok := d.(*ast.FuncDecl)
		if ok && fd.Recv != nil && fd.Name.Name == "GetReqs" {
			cmdTypes[c12TypeName(fd.Recv.List[0].Type)] = true
		}
	}
	var allCmds []string
	for k := range cmdTypes {
		allCmds = append(allCmds, k)
	}
	sort.Strings(allCmds)
	var handled []string
	for _, site := range []struct {
		f    *ast.File
		recv string
		name string
	}{{fdrv, "Driver", "processOneCommand"}, {fmc, "defaultMemoryCopyMiddleware", "ProcessCommand"}} {
		sw := c12TypeSwitch(c12FuncDecl(site.f, site.recv, site.name))
		for _, cc := range sw.Body.List {
			c := cc.(*ast.CaseClause)
			for _, t := range c.List {
				handled = append(handled, c12TypeName(t))
			}
		}
	}
	sort.Strings(handled)

	var b strings.Builder
	b.WriteString("-- GENERATED by /verif/translate (c12drv) from amd/driver/{driver.go,builder.go,commandqueue.go,memorycopy.go,command.go}; do not edit\n")
	b.WriteString("namespace Gen\nnamespace C12Drv\n\n")
	b.WriteString("/-- stages of `Driver.Tick` in program order; each is called as `stage() || madeProgress` (never skipped) -/\n")
	fmt.Fprintf(&b, "def tickOrder : List String := %s\n\n", c12LeanList(order))
	b.WriteString("/-- message types `processReturnReq` takes (each case: `RetrieveIncoming`, then `return handler(req)`) -/\n")
	fmt.Fprintf(&b, "def returnCases : List String := %s\n", c12LeanList(caseTypes))
	fmt.Fprintf(&b, "def returnHandlers : List String := %s\n\n", c12LeanList(caseHandlers))
	b.WriteString("/-- request types whose `GeneralRsp` the memory-copy middleware takes -/\n")
	fmt.Fprintf(&b, "def generalRspCases : List String := %s\n\n", c12LeanList(genTypes))
	b.WriteString("/-- every function that runs after a message was retrieved, with all its `return` expressions -/\n")
	b.WriteString("def handlerReturns : List (String × List String) := [\n")
	for i, h := range handlers {
		sep := ","
		if i == len(handlers)-1 {
			sep = ""
		}
		fmt.Fprintf(&b, "  (%s, %s)%s\n", leanStr(h.name), c12LeanList(h.rets), sep)
	}
	b.WriteString("]\n\n")
	fmt.Fprintf(&b, "def gpuPortIn : Nat := %d\ndef gpuPortOut : Nat := %d\ndef mmuPortIn : Nat := %d\ndef mmuPortOut : Nat := %d\n\n", gIn, gOut, mIn, mOut)
	fmt.Fprintf(&b, "/-- channel capacities: `CommandQueueStatusListener.signal`, `.closeSignal`, `Driver.enqueueSignal` -/\n")
	fmt.Fprintf(&b, "def listenerSignalCap : Nat := %d\ndef closeSignalCap : Nat := %d\ndef enqueueSignalCap : Nat := %d\n\n", sigCap, closeCap, enqCap)
	b.WriteString("/-- `defaultMemoryCopyMiddleware.Tick`: how the result of `processGeneralRsp` enters `madeProgress`\n    (\"overwrite\": `madeProgress = m.processGeneralRsp(req)`), and the idle value of `cyclesLeft` -/\n")
	fmt.Fprintf(&b, "def mwRspFlag : String := %s\ndef timerIdle : Int := %d\n\n", leanStr(flag), sentinel)
	b.WriteString("/-- types with a `GetReqs` method in command.go; types named in the switches of `processOneCommand` and of the\n    default middleware's `ProcessCommand` -/\n")
	fmt.Fprintf(&b, "def commandTypes : List String := %s\ndef handledCommandTypes : List String := %s\n\n", c12LeanList(allCmds), c12LeanList(handled))
	b.WriteString("end C12Drv\nend Gen\n")
	writeIfChanged("C12Drv.lean", b.String())
}
