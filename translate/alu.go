package main

// Scalar ALU handlers (SOP1/SOP2/SOPC/SOPK/SOPP of emu.ALUImpl and cdna3.ALU) -> Lean definitions
// `Gen.<arch>.run_<HANDLER> : C03S.ScalarIn → C03S.ScalarOut` over BitVec with Go semantics, plus
// the opcode dispatch tables of `runSOP2` & co.  Supported shape: operands read through
// state.ReadOperand(inst.X, 0) / SCC() / VCC() / EXEC() / PC(), straight-line and if/else integer
// code, writes through WriteOperand / SetSCC / SetVCC / SetEXEC / SetPC.  Anything else is refused
// loudly unless the handler is listed in aluHandModelled.

import (
	"fmt"
	"go/ast"
	"go/constant"
	"go/importer"
	"go/parser"
	"go/token"
	"go/types"
	"os"
	"path/filepath"
	"sort"
	"strings"
)

func init() { extraGens = append(extraGens, gen{"alu", genAlu}) }

const mgpuPrefix = "github.com/sarchlab/mgpusim/v4/"

// handlers deliberately outside the translated subset (tied by the harness only)
var aluHandModelled = map[string]string{
	"runSBREVB32": "bit-reversal loop (for statement)",
}

// ---------------------------------------------------------------- type checking from source

type srcImporter struct {
	fset  *token.FileSet
	std   types.Importer
	pkgs  map[string]*types.Package
	infos map[string]*types.Info
	files map[string][]*ast.File
}

func newSrcImporter() *srcImporter {
	fset := token.NewFileSet()
	return &srcImporter{fset: fset, std: importer.ForCompiler(fset, "source", nil),
		pkgs: map[string]*types.Package{}, infos: map[string]*types.Info{}, files: map[string][]*ast.File{}}
}

func (s *srcImporter) Import(path string) (*types.Package, error) {
	if p, ok := s.pkgs[path]; ok {
		return p, nil
	}
	if strings.HasPrefix(path, mgpuPrefix) {
		return s.load(path)
	}
	if !strings.Contains(strings.SplitN(path, "/", 2)[0], ".") {
		p, err := s.std.Import(path)
		if err == nil {
			s.pkgs[path] = p
			return p, nil
		}
	}
	// third-party packages (akita, …): an empty package; uses of their members become type
	// errors that are ignored — no translated handler touches them
	p := types.NewPackage(path, filepath.Base(path))
	p.MarkComplete()
	s.pkgs[path] = p
	return p, nil
}

func (s *srcImporter) load(path string) (*types.Package, error) {
	dir := filepath.Join(*repo, strings.TrimPrefix(path, mgpuPrefix))
	ents, err := os.ReadDir(dir)
	if err != nil {
		return nil, err
	}
	var files []*ast.File
	for _, e := range ents {
		n := e.Name()
		if e.IsDir() || !productFile(filepath.Join(dir, n)) {
			continue
		}
		f, err := parser.ParseFile(s.fset, filepath.Join(dir, n), nil, parser.SkipObjectResolution)
		if err != nil {
			fatalf("parse %s: %v", filepath.Join(dir, n), err)
		}
		files = append(files, f)
	}
	info := &types.Info{Types: map[ast.Expr]types.TypeAndValue{}, Defs: map[*ast.Ident]types.Object{}, Uses: map[*ast.Ident]types.Object{}}
	conf := types.Config{Importer: s, Error: func(error) {}}
	p, _ := conf.Check(path, s.fset, files, info)
	s.pkgs[path] = p
	s.infos[path] = info
	s.files[path] = files
	return p, nil
}

// ---------------------------------------------------------------- expression translation

type aluTr struct {
	info *types.Info
	fset *token.FileSet
	err  error
	// optional extensions used by the lane-body translator (lanebody.go); nil for the scalar handlers
	callHook func(e *ast.CallExpr, env map[string]string) (string, bool)
	selHook  func(e *ast.SelectorExpr, env map[string]string) (string, bool)
	exprHook func(e ast.Expr, env map[string]string) (string, bool) // sees every expression first (floats)
	// optional: proves that a signed non-constant shift count cannot be negative (inner loops with constant bounds)
	shiftOK func(e ast.Expr) bool
}

func (t *aluTr) fail(n ast.Node, f string, a ...any) string {
	if t.err == nil {
		t.err = fmt.Errorf("%s: %s", t.fset.Position(n.Pos()), fmt.Sprintf(f, a...))
	}
	return "UNSUPPORTED"
}

func basicWS(ty types.Type) (w int, signed bool, ok bool) {
	if ty == nil {
		return 0, false, false
	}
	b, isB := ty.Underlying().(*types.Basic)
	if !isB {
		return 0, false, false
	}
	switch b.Kind() {
	case types.Uint8:
		return 8, false, true
	case types.Uint16:
		return 16, false, true
	case types.Uint32:
		return 32, false, true
	case types.Uint64, types.Uint, types.Uintptr:
		return 64, false, true
	case types.Int8:
		return 8, true, true
	case types.Int16:
		return 16, true, true
	case types.Int32:
		return 32, true, true
	case types.Int64, types.Int, types.UntypedInt:
		return 64, true, true
	case types.Bool, types.UntypedBool:
		return 1, false, true
	}
	return 0, false, false
}

func leanLit(v int64, w int) string {
	u := uint64(v)
	if w < 64 {
		u &= (uint64(1) << uint(w)) - 1
	}
	return fmt.Sprintf("(%d#%d)", u, w)
}

func aluConv(src string, sw int, ssigned bool, dw int) string {
	if sw == dw {
		return src
	}
	if dw > sw && ssigned {
		return fmt.Sprintf("(BitVec.signExtend %d %s)", dw, src)
	}
	return fmt.Sprintf("(BitVec.setWidth %d %s)", dw, src)
}

func (t *aluTr) expr(e ast.Expr, env map[string]string) string {
	if t.exprHook != nil {
		if s, ok := t.exprHook(e, env); ok {
			return s
		}
	}
	if tv, ok := t.info.Types[e]; ok && tv.Value != nil {
		w, _, ok := basicWS(tv.Type)
		if !ok {
			return t.fail(e, "constant of type %v", tv.Type)
		}
		if tv.Value.Kind() == constant.Bool {
			return fmt.Sprint(constant.BoolVal(tv.Value))
		}
		iv := constant.ToInt(tv.Value)
		if v, exact := constant.Int64Val(iv); exact {
			return leanLit(v, w)
		}
		if v, exact := constant.Uint64Val(iv); exact {
			return leanLit(int64(v), w)
		}
		return t.fail(e, "constant %s", tv.Value)
	}
	switch e := e.(type) {
	case *ast.ParenExpr:
		return t.expr(e.X, env)
	case *ast.Ident:
		if v, ok := env[e.Name]; ok {
			return v
		}
		return t.fail(e, "unknown identifier %s", e.Name)
	case *ast.UnaryExpr:
		x := t.expr(e.X, env)
		switch e.Op {
		case token.NOT:
			return "(!" + x + ")"
		case token.XOR:
			return "(~~~" + x + ")"
		case token.SUB:
			return "(-" + x + ")"
		}
		return t.fail(e, "unary %s", e.Op)
	case *ast.BinaryExpr:
		return t.binary(e, env)
	case *ast.CallExpr:
		return t.call(e, env)
	case *ast.SelectorExpr:
		if t.selHook != nil {
			if s, ok := t.selHook(e, env); ok {
				return s
			}
		}
	}
	return t.fail(e, "expression %T", e)
}

func (t *aluTr) binary(e *ast.BinaryExpr, env map[string]string) string {
	x, y := t.expr(e.X, env), t.expr(e.Y, env)
	_, signed, ok := basicWS(t.info.TypeOf(e.X))
	if !ok {
		return t.fail(e, "operand type %v", t.info.TypeOf(e.X))
	}
	switch e.Op {
	case token.ADD:
		return fmt.Sprintf("(%s + %s)", x, y)
	case token.SUB:
		return fmt.Sprintf("(%s - %s)", x, y)
	case token.MUL:
		return fmt.Sprintf("(%s * %s)", x, y)
	case token.AND:
		return fmt.Sprintf("(%s &&& %s)", x, y)
	case token.OR:
		return fmt.Sprintf("(%s ||| %s)", x, y)
	case token.XOR:
		return fmt.Sprintf("(%s ^^^ %s)", x, y)
	case token.AND_NOT:
		return fmt.Sprintf("(%s &&& ~~~%s)", x, y)
	case token.SHL, token.SHR:
		if _, ys, _ := basicWS(t.info.TypeOf(e.Y)); ys {
			if tv, ok := t.info.Types[e.Y]; (!ok || tv.Value == nil) && !(t.shiftOK != nil && t.shiftOK(e.Y)) {
				return t.fail(e, "shift by a signed non-constant count (Go panics on negative counts)")
			}
		}
		// Go: a count >= width gives 0 (or the sign for a signed >>): exactly BitVec's shifts by a Nat
		if e.Op == token.SHL {
			return fmt.Sprintf("(%s <<< (%s).toNat)", x, y)
		}
		if signed {
			return fmt.Sprintf("(BitVec.sshiftRight %s (%s).toNat)", x, y)
		}
		return fmt.Sprintf("(%s >>> (%s).toNat)", x, y)
	case token.EQL:
		return fmt.Sprintf("(%s == %s)", x, y)
	case token.NEQ:
		return fmt.Sprintf("(%s != %s)", x, y)
	case token.LSS, token.GTR, token.LEQ, token.GEQ:
		a, b, strict := x, y, e.Op == token.LSS || e.Op == token.GTR
		if e.Op == token.GTR || e.Op == token.GEQ {
			a, b = y, x
		}
		f := map[[2]bool]string{{true, false}: "ult", {true, true}: "slt", {false, false}: "ule", {false, true}: "sle"}[[2]bool{strict, signed}]
		return fmt.Sprintf("(BitVec.%s %s %s)", f, a, b)
	case token.LAND:
		return fmt.Sprintf("(%s && %s)", x, y)
	case token.LOR:
		return fmt.Sprintf("(%s || %s)", x, y)
	}
	return t.fail(e, "binary %s (division and remainder are outside the subset)", e.Op)
}

var aluReinterpret = map[string]bool{
	"asInt16": true, "asInt32": true, "asInt64": true, "int16ToBits": true, "int32ToBits": true, "int64ToBits": true,
	"emu.AsInt16": true, "emu.AsInt32": true, "emu.AsInt64": true, "emu.Int16ToBits": true, "emu.Int32ToBits": true, "emu.Int64ToBits": true,
}

var aluOperandField = map[string]string{"inst.Src0": "i.src0", "inst.Src1": "i.src1", "inst.Dst": "i.dstOld", "inst.SImm16": "i.simm16"}

func (t *aluTr) call(e *ast.CallExpr, env map[string]string) string {
	if tv, ok := t.info.Types[e.Fun]; ok && tv.IsType() {
		dw, _, ok1 := basicWS(tv.Type)
		sw, ss, ok2 := basicWS(t.info.TypeOf(e.Args[0]))
		if !ok1 || !ok2 || dw == 1 || sw == 1 {
			return t.fail(e, "conversion to %v", tv.Type)
		}
		return aluConv(t.expr(e.Args[0], env), sw, ss, dw)
	}
	if t.callHook != nil {
		if s, ok := t.callHook(e, env); ok {
			return s
		}
	}
	name := types.ExprString(e.Fun)
	switch {
	case name == "state.ReadOperand":
		f, ok := aluOperandField[types.ExprString(e.Args[0])]
		if !ok || types.ExprString(e.Args[1]) != "0" {
			return t.fail(e, "ReadOperand(%s, %s)", types.ExprString(e.Args[0]), types.ExprString(e.Args[1]))
		}
		if f == "i.dstOld" {
			if _, w := env["$dst"]; w {
				return t.fail(e, "destination read after it was written")
			}
		}
		return f
	case name == "state.SCC" || name == "state.VCC" || name == "state.EXEC" || name == "state.PC":
		r := strings.ToLower(strings.TrimPrefix(name, "state."))
		if _, w := env["$"+r]; w {
			return t.fail(e, "%s read after it was written in the same handler", r)
		}
		return "i." + r
	case aluReinterpret[name]:
		return t.expr(e.Args[0], env) // same bits, other signedness: identity on BitVec
	case name == "bitops.ExtractBitsFromU32":
		return fmt.Sprintf("(C03S.Go.extractBitsU32 %s %s %s)", t.expr(e.Args[0], env), t.expr(e.Args[1], env), t.expr(e.Args[2], env))
	}
	return t.fail(e, "call of %s", name)
}

var aluOuts = []string{"dst", "scc", "vcc", "exec", "pc"}

func copyEnv(e map[string]string) map[string]string {
	n := make(map[string]string, len(e)+1)
	for k, v := range e {
		n[k] = v
	}
	return n
}

func freshName(name string, env map[string]string) string {
	n := 0
	for k, v := range env {
		if !strings.HasPrefix(k, "$") && strings.HasPrefix(v, name+"_") {
			n++
		}
	}
	for {
		cand := fmt.Sprintf("%s_%d", name, n)
		used := false
		for _, v := range env {
			if v == cand {
				used = true
			}
		}
		if !used {
			return cand
		}
		n++
	}
}

func (t *aluTr) finish(env map[string]string, ind string) string {
	var fs []string
	for _, o := range aluOuts {
		v, ok := env["$"+o]
		if !ok {
			v = "none"
		}
		fs = append(fs, fmt.Sprintf("%s := %s", o, v))
	}
	return ind + "{ " + strings.Join(fs, ", ") + " }"
}

// stmts translates a statement list in continuation style: the rest of the list is duplicated into
// both branches of an if (handlers are tiny).
func (t *aluTr) stmts(list []ast.Stmt, env map[string]string, ind string) string {
	if len(list) == 0 {
		return t.finish(env, ind)
	}
	s, rest := list[0], list[1:]
	switch s := s.(type) {
	case *ast.AssignStmt:
		if len(s.Lhs) != 1 || len(s.Rhs) != 1 {
			return t.fail(s, "multi-assignment")
		}
		id, ok := s.Lhs[0].(*ast.Ident)
		if !ok {
			return t.fail(s, "assignment to %T", s.Lhs[0])
		}
		if id.Name == "inst" && types.ExprString(s.Rhs[0]) == "state.Inst()" {
			return t.stmts(rest, env, ind)
		}
		opAssign := map[token.Token]token.Token{token.ADD_ASSIGN: token.ADD, token.SUB_ASSIGN: token.SUB, token.MUL_ASSIGN: token.MUL,
			token.AND_ASSIGN: token.AND, token.OR_ASSIGN: token.OR, token.XOR_ASSIGN: token.XOR, token.SHL_ASSIGN: token.SHL,
			token.SHR_ASSIGN: token.SHR, token.AND_NOT_ASSIGN: token.AND_NOT}
		bop, isOp := opAssign[s.Tok]
		if s.Tok != token.DEFINE && s.Tok != token.ASSIGN && !isOp {
			return t.fail(s, "assignment operator %s", s.Tok)
		}
		if s.Tok != token.DEFINE {
			if _, ok := env[id.Name]; !ok {
				return t.fail(s, "assignment to unknown variable %s", id.Name)
			}
		}
		var rhs string
		if isOp {
			rhs = t.binary(&ast.BinaryExpr{X: s.Lhs[0], Op: bop, Y: s.Rhs[0]}, env)
		} else {
			rhs = t.expr(s.Rhs[0], env)
		}
		// typed annotation keeps untyped-constant right-hand sides honest
		w, _, ok := basicWS(t.info.TypeOf(s.Lhs[0]))
		if !ok {
			return t.fail(s, "variable %s of type %v", id.Name, t.info.TypeOf(s.Lhs[0]))
		}
		ty := fmt.Sprintf("BitVec %d", w)
		if w == 1 {
			ty = "Bool"
		}
		env2 := copyEnv(env)
		v := freshName(id.Name, env)
		env2[id.Name] = v
		return fmt.Sprintf("%slet %s : %s := %s\n%s", ind, v, ty, rhs, t.stmts(rest, env2, ind))
	case *ast.DeclStmt:
		gd, ok := s.Decl.(*ast.GenDecl)
		if !ok || gd.Tok != token.VAR {
			return t.fail(s, "declaration")
		}
		env2 := copyEnv(env)
		out := ""
		for _, sp := range gd.Specs {
			vs := sp.(*ast.ValueSpec)
			if len(vs.Values) != 0 && len(vs.Values) != len(vs.Names) {
				return t.fail(s, "var with tuple value")
			}
			for i, n := range vs.Names {
				w, _, ok := basicWS(t.info.Defs[n].Type())
				if !ok || w == 1 {
					return t.fail(s, "var %s of type %v", n.Name, t.info.Defs[n].Type())
				}
				val := fmt.Sprintf("(0#%d)", w)
				if len(vs.Values) != 0 {
					val = t.expr(vs.Values[i], env2)
				}
				v := freshName(n.Name, env2)
				env2[n.Name] = v
				out += fmt.Sprintf("%slet %s : BitVec %d := %s\n", ind, v, w, val)
			}
		}
		return out + t.stmts(rest, env2, ind)
	case *ast.ExprStmt:
		call, ok := s.X.(*ast.CallExpr)
		if !ok {
			return t.fail(s, "expression statement")
		}
		name := types.ExprString(call.Fun)
		env2 := copyEnv(env)
		switch name {
		case "state.WriteOperand":
			if types.ExprString(call.Args[0]) != "inst.Dst" || types.ExprString(call.Args[1]) != "0" {
				return t.fail(s, "WriteOperand(%s, %s, …)", types.ExprString(call.Args[0]), types.ExprString(call.Args[1]))
			}
			if _, w := env["$vcc"]; w {
				return t.fail(s, "WriteOperand after SetVCC (commit order is dst first)")
			}
			if _, w := env["$exec"]; w {
				return t.fail(s, "WriteOperand after SetEXEC (commit order is dst first)")
			}
			env2["$dst"] = "(some " + t.expr(call.Args[2], env) + ")"
		case "state.SetSCC", "state.SetVCC", "state.SetEXEC", "state.SetPC":
			env2["$"+strings.ToLower(strings.TrimPrefix(name, "state.Set"))] = "(some " + t.expr(call.Args[0], env) + ")"
		default:
			return t.fail(s, "call statement %s", name)
		}
		return t.stmts(rest, env2, ind)
	case *ast.IfStmt:
		if s.Init != nil {
			return t.fail(s, "if with init statement")
		}
		c := t.expr(s.Cond, env)
		thenS := t.stmts(append(append([]ast.Stmt{}, s.Body.List...), rest...), env, ind+"  ")
		var elseList []ast.Stmt
		switch el := s.Else.(type) {
		case nil:
		case *ast.BlockStmt:
			elseList = el.List
		case *ast.IfStmt:
			elseList = []ast.Stmt{el}
		}
		elseS := t.stmts(append(append([]ast.Stmt{}, elseList...), rest...), env, ind+"  ")
		return fmt.Sprintf("%sif %s then\n%s\n%selse\n%s", ind, c, thenS, ind, elseS)
	}
	return t.fail(s, "statement %T", s)
}

// ---------------------------------------------------------------- dispatch tables + driver

type aluRow struct {
	fmtN    int
	op      int64
	handler string // "" = case with an empty body (no-op)
}

var aluDispatchers = []struct {
	fn   string
	fmtN int
}{{"runSOP2", 0}, {"runSOPK", 1}, {"runSOP1", 2}, {"runSOPC", 3}, {"runSOPP", 4}}

func aluDispatch(fd *ast.FuncDecl, fmtN int, fset *token.FileSet) []aluRow {
	var sw *ast.SwitchStmt
	for _, st := range fd.Body.List {
		if s, ok := st.(*ast.SwitchStmt); ok {
			sw = s
		}
	}
	if sw == nil || types.ExprString(sw.Tag) != "inst.Opcode" {
		fatalf("%s: %s is not a switch on inst.Opcode any more", fset.Position(fd.Pos()), fd.Name.Name)
	}
	var rows []aluRow
	for _, c := range sw.Body.List {
		cc := c.(*ast.CaseClause)
		if cc.List == nil { // default: must be the "not implemented" panic
			if len(cc.Body) != 1 || !strings.Contains(nodeString(cc.Body[0]), "Panicf") {
				fatalf("%s: default clause of %s is not a single log.Panicf", fset.Position(cc.Pos()), fd.Name.Name)
			}
			continue
		}
		h := ""
		switch len(cc.Body) {
		case 0:
		case 1:
			es, ok := cc.Body[0].(*ast.ExprStmt)
			var call *ast.CallExpr
			if ok {
				call, ok = es.X.(*ast.CallExpr)
			}
			if !ok || len(call.Args) != 1 || types.ExprString(call.Args[0]) != "state" || !strings.HasPrefix(types.ExprString(call.Fun), "u.") {
				fatalf("%s: case body in %s is not a single u.handler(state) call", fset.Position(cc.Pos()), fd.Name.Name)
			}
			h = strings.TrimPrefix(types.ExprString(call.Fun), "u.")
		default:
			fatalf("%s: case body in %s has several statements", fset.Position(cc.Pos()), fd.Name.Name)
		}
		for _, v := range cc.List {
			n, ok := constInt(v, nil)
			if !ok {
				fatalf("%s: non-literal case value in %s", fset.Position(v.Pos()), fd.Name.Name)
			}
			rows = append(rows, aluRow{fmtN, n, h})
		}
	}
	return rows
}

func genAlu() {
	imp := newSrcImporter()
	var b strings.Builder
	b.WriteString("-- GENERATED by /verif/translate (alu.go) from amd/emu/{alu,alusop1,alusop2,alusopc,alusopk}.go and\n-- amd/emu/cdna3/{sop,sop1,sop2,sopc,sopk}.go; do not edit\nimport MgpuModel.C03S_Types\nset_option linter.unusedVariables false\nopen C03S\n\n")
	for _, arch := range []struct{ name, path string }{{"gcn3", mgpuPrefix + "amd/emu"}, {"cdna3", mgpuPrefix + "amd/emu/cdna3"}} {
		if _, err := imp.Import(arch.path); err != nil {
			fatalf("load %s: %v", arch.path, err)
		}
		info, files := imp.infos[arch.path], imp.files[arch.path]
		funcs := map[string]*ast.FuncDecl{}
		for _, f := range files {
			for _, d := range f.Decls {
				if fd, ok := d.(*ast.FuncDecl); ok && fd.Recv != nil && fd.Body != nil {
					funcs[fd.Name.Name] = fd
				}
			}
		}
		var rows []aluRow
		for _, d := range aluDispatchers {
			fd, ok := funcs[d.fn]
			if !ok {
				fatalf("%s: dispatcher %s not found", arch.path, d.fn)
			}
			rows = append(rows, aluDispatch(fd, d.fmtN, imp.fset)...)
		}
		hs := map[string]bool{}
		for _, r := range rows {
			if r.handler != "" {
				hs[r.handler] = true
			}
		}
		names := make([]string, 0, len(hs))
		for h := range hs {
			names = append(names, h)
		}
		sort.Strings(names)
		fmt.Fprintf(&b, "namespace Gen.%s\n\n", arch.name)
		translated := map[string]bool{}
		var hand []string
		for _, h := range names {
			fd, ok := funcs[h]
			if !ok {
				fatalf("%s: handler %s (named in a dispatch switch) not found", arch.path, h)
			}
			t := &aluTr{info: info, fset: imp.fset}
			body := t.stmts(fd.Body.List, map[string]string{}, "  ")
			if t.err != nil {
				if why, ok := aluHandModelled[h]; ok {
					hand = append(hand, h)
					fmt.Printf("NOTE alu: %s.%s is hand-modelled (%s): %v\n", arch.name, h, why, t.err)
					continue
				}
				fatalf("scalar handler %s.%s no longer fits the translated subset: %v", arch.name, h, t.err)
			}
			if _, ok := aluHandModelled[h]; ok {
				fatalf("scalar handler %s.%s is listed as hand-modelled but now translates: remove it from aluHandModelled", arch.name, h)
			}
			translated[h] = true
			fmt.Fprintf(&b, "/-- %s -/\ndef run_%s (i : ScalarIn) : ScalarOut :=\n%s\n\n", strings.TrimPrefix(imp.fset.Position(fd.Pos()).String(), filepath.Clean(*repo)+"/"), strings.TrimPrefix(h, "run"), body)
		}
		fmt.Fprintf(&b, "/-- (format, opcode, handler) rows of runSOP2/runSOPK/runSOP1/runSOPC/runSOPP; \"\" = empty case body -/\ndef table : List (Nat × Nat × String) := [\n")
		for i, r := range rows {
			sep := ","
			if i == len(rows)-1 {
				sep = ""
			}
			fmt.Fprintf(&b, "  (%d, %d, %s)%s\n", r.fmtN, r.op, leanStr(r.handler), sep)
		}
		b.WriteString("]\n\n/-- handlers outside the translated subset (tied by the harness only) -/\ndef handModelled : List String := [")
		for i, h := range hand {
			if i > 0 {
				b.WriteString(", ")
			}
			b.WriteString(leanStr(h))
		}
		b.WriteString("]\n\n/-- the opcode switch: the translated handler of (format, opcode) -/\ndef dispatch (fmt op : Nat) : Option (ScalarIn → ScalarOut) :=\n  match fmt, op with\n")
		for _, r := range rows {
			switch {
			case r.handler == "":
				fmt.Fprintf(&b, "  | %d, %d => some (fun _ => ScalarOut.nothing)\n", r.fmtN, r.op)
			case translated[r.handler]:
				fmt.Fprintf(&b, "  | %d, %d => some run_%s\n", r.fmtN, r.op, strings.TrimPrefix(r.handler, "run"))
			}
		}
		b.WriteString("  | _, _ => none\n\n")
		fmt.Fprintf(&b, "end Gen.%s\n\n", arch.name)
		fmt.Printf("NOTE alu: %s: %d opcode rows, %d handlers translated, %d hand-modelled\n", arch.name, len(rows), len(translated), len(hand))
	}
	writeIfChanged("AluScalar.lean", b.String())
}
