package main

import (
	"bufio"
	"bytes"
	"go/ast"
	"go/printer"
	"go/token"
	"os"
	"strings"
)

func nodeString(n ast.Node) string {
	var buf bytes.Buffer
	printer.Fprint(&buf, token.NewFileSet(), n)
	return buf.String()
}

// productFile says whether a Go file is part of the product as built WITHOUT the `verif` tag:
// not a test, and its build constraint (if any) does not require `verif`.
func productFile(path string) bool {
	if !strings.HasSuffix(path, ".go") || strings.HasSuffix(path, "_test.go") {
		return false
	}
	f, err := os.Open(path)
	if err != nil {
		return false
	}
	defer f.Close()
	sc := bufio.NewScanner(f)
	for sc.Scan() {
		line := strings.TrimSpace(sc.Text())
		if strings.HasPrefix(line, "//go:build") {
			c := strings.TrimSpace(strings.TrimPrefix(line, "//go:build"))
			return c != "verif" // `!verif` (and anything else) is part of the default build
		}
		if strings.HasPrefix(line, "package ") {
			break
		}
	}
	return true
}
