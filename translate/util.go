package main

import (
	"bytes"
	"go/ast"
	"go/printer"
	"go/token"
)

func nodeString(n ast.Node) string {
	var buf bytes.Buffer
	printer.Fprint(&buf, token.NewFileSet(), n)
	return buf.String()
}
