#!/usr/bin/env python3
"""Writes MANIFEST.json from checks.d/*.json (claimed properties) + properties.jsonl."""
import json, os, glob
ROOT = os.path.dirname(os.path.abspath(__file__))
props = [json.loads(l) for l in open(os.path.join(ROOT, "properties.jsonl"))]
claimed = {}
for f in sorted(glob.glob(os.path.join(ROOT, "checks.d", "C*.json"))):
    c = json.load(open(f))
    if c.get("claimed", True):
        claimed[os.path.basename(f)[:-5]] = c
import subprocess
hooks = subprocess.run(["git", "-C", "/repo", "log", "--format=%H", "--grep=^verif hook"], stdout=subprocess.PIPE).stdout.decode().split()
m = {
 "version": 1,
 "setup_cmd": "./setup.sh",
 "hooks": {
  "guard": "verif",
  "enable": "go build -tags verif (the harness module /verif/harness replaces github.com/sarchlab/mgpusim/v4 by /repo)",
  "baseline_off_cmd": "cd /repo && go build ./... && go test -vet=off -count=1 -timeout 25m ./...",
  "source_commits": hooks,
  "add_only": True
 },
 "engines": [
  {"name": "lean-proofs", "path": "lean", "serves_properties": sorted(claimed), "kind_free_text": "Lean 4.33 lake project: MgpuModel (core-only executable models), MgpuProofs (helper lemmas + Props/Cxx.lean property theorems), mgpudriver (line-protocol executable of the models)"},
  {"name": "go-harness", "path": "harness", "serves_properties": sorted(claimed), "kind_free_text": "Go module (tag verif) driving the real mgpusim code in-process; prints case lines, implementation answers and implementation-side oracle verdicts"},
  {"name": "translator", "path": "translate", "serves_properties": sorted(k for k, c in claimed.items() if c.get("translate")), "kind_free_text": "go/ast translator: regenerates lean/MgpuModel/Gen/*.lean (tables, constants, leaf functions, handler facts) from /repo on every run"}
 ],
 "checks": [],
 "not_applicable": [],
 "notes": "Technique family: machine-checked proof in Lean 4. Every claimed check = theorems about a Lean model + a tie to /repo that is checked on every run (regenerated definitions and/or correspondence of the executable model with the real code) + implementation-side oracles used only to find a concrete failing input. See DESIGN.md."
}
for p in props:
    pid = p["id"]
    if pid in claimed:
        c = claimed[pid]
        m["checks"].append({
         "property_id": pid,
         "quick_cmd": f"./check {pid} --tier quick",
         "thorough_cmd": f"./check {pid} --tier thorough",
         "evidence_file": f"/verif/evidence/{pid}.json",
         "replay_cmd_template": f"./check {pid} --replay {{path}}",
         "engine": "lean-proofs",
         "level_claimed": {"category": c.get("level", "proof"), "text": c["level_text"], "design_ref": c.get("design_ref", "DESIGN.md §3 " + pid)},
         "level_note": c["level_note"],
         "technique": c.get("technique", "Lean 4 theorems about a model tied to the code by a per-run correspondence check")
        })
    else:
        m["not_applicable"].append({"property_id": pid, "reason": "not claimed yet: the model, theorems and tie for this property have not reached stage 2 of DESIGN.md §7 (nothing is claimed on the strength of differential runs alone); the technique does apply"})
json.dump(m, open(os.path.join(ROOT, "MANIFEST.json"), "w"), indent=1)
print("claimed:", sorted(claimed))
