#!/bin/bash
# round-N mutation author workspace: /tmp/mut/<PROP>r<N>/{repo,out,prompt.txt,property.txt}
PROP=$1; N=${2:-3}; ID=${PROP}r$N
rm -rf /tmp/mut/$ID; mkdir -p /tmp/mut/$ID/out
git -C /repo worktree prune
git -C /repo worktree add -q --detach /tmp/mut/$ID/repo HEAD || exit 2
python3 - "$PROP" "$ID" <<'PY'
import sys,json,glob
prop,ID=sys.argv[1],sys.argv[2]
text=None
for l in open('/verif/properties.jsonl'):
    d=json.loads(l)
    if d.get('id')==prop: text=d.get('statement') or json.dumps(d)
open(f'/tmp/mut/{ID}/property.txt','w').write(text+'\n')
p=open('/tmp/mut/PROMPT.txt').read().replace('@ID@',ID).replace('@PROPERTY@',text).replace('"property":"'+ID+'"','"property":"'+prop+'"')
prev=[]
for f in sorted(glob.glob(f'/verif/seeded/{prop}-*/meta.json')):
    try: prev.append(json.load(open(f))['title'])
    except Exception: pass
p+="\n\nOther authors already produced the following changes for this property; yours must be DIFFERENT in kind and location (another function, another clause of the property, another trigger):\n"+"".join("- "+t+"\n" for t in prev)
p+="Prefer clauses of the property statement the above do not touch, code paths that were changed recently (see `git log --oneline -60` in the worktree: many recent `fix:` commits — a plausible regression in or next to one of them is welcome), and triggers that need a longer or more unusual history (three or more cooperating events, a rarely used configuration knob, wrap-around of a counter, an interaction of two features).\n"
open(f'/tmp/mut/{ID}/prompt.txt','w').write(p)
PY
echo /tmp/mut/$ID ready
