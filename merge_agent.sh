#!/bin/sh
# merges an agent's branches (<id> in /verif and /repo) into main and removes its worktrees
ID=$1; id=$(echo $ID | tr A-Z a-z)
if [ -n "$(git -C /repo log --oneline main..$id)" ]; then git -C /repo cherry-pick main..$id || { echo REPO CHERRY-PICK CONFLICT; exit 1; }; fi
cd /verif
git add -A; git commit -qm "pending changes before merging $ID" 2>/dev/null
git merge --no-edit $id || {
  # generated files conflict harmlessly
  git rm -q --cached lean/Main.lean 2>/dev/null
  for f in $(git diff --name-only --diff-filter=U | grep '^evidence/\|^harness/go.mod'); do git checkout --ours $f; git add $f; done
  if git status --short | grep -q '^\(UU\|AA\|DU\|UD\) '; then git status --short | grep '^\(UU\|AA\|DU\|UD\) '; echo MERGE CONFLICT; exit 1; fi
  git commit -qm "merge $ID"
}
git rm -q --cached lean/Main.lean 2>/dev/null && git commit -qm "untrack Main.lean"
git worktree remove --force /work/$ID/verif
git -C /repo worktree remove --force /work/$ID/repo
git branch -d $id || { echo "BRANCH $id NOT MERGED - kept"; exit 1; }; git -C /repo branch -D $id
rm -rf /work/$ID
(cd harness && GOFLAGS=-mod=mod go mod edit -replace github.com/sarchlab/mgpusim/v4=/repo)
python3 gen_main.py
echo merged $ID
