#!/bin/sh
# merges an agent's branches (<id> in /verif and /repo) into main and removes its worktrees
set -e
ID=$1; id=$(echo $ID | tr A-Z a-z)
if [ -n "$(git -C /repo log --oneline main..$id)" ]; then git -C /repo cherry-pick main..$id; fi
git -C /verif merge --no-edit $id || { echo MERGE CONFLICT; exit 1; }
git -C /verif worktree remove --force /work/$ID/verif || true
git -C /repo worktree remove --force /work/$ID/repo || true
git -C /verif branch -D $id || true
git -C /repo branch -D $id || true
rm -rf /work/$ID
echo merged $ID
