#!/bin/bash
# usage: mutcheck.sh <PROP> <A|B|...> [tier]
# Confirms a seeded change written by an independent author (/tmp/mut/<PROP>/out/<X>/) in the
# scratch worktree, then applies it to /repo, runs our check, undoes it, and archives it under
# /verif/seeded/<PROP>-<X>/ with what was run and what our check said.
ID=$1; X=$2; TIER=${3:-quick}
PROP=$(echo $ID | sed 's/r[0-9]*$//'); RND=$(echo $ID | sed "s/^$PROP//")
SRC=/tmp/mut/$ID/out/$X; WT=/tmp/mut/$ID/repo; DST=/verif/seeded/$PROP-$RND$X
export GOFLAGS=-mod=mod GOPROXY=off; unset GOTOOLCHAIN GOSUMDB
[ -f $SRC/patch.diff ] || { echo "no patch at $SRC"; exit 2; }
mkdir -p $DST; cp $SRC/patch.diff $SRC/meta.json $DST/ 2>/dev/null; cp $SRC/demo* $DST/ 2>/dev/null; cp -r $SRC/demo $DST/ 2>/dev/null
place=$(python3 -c "
import json,re
v=json.load(open('$SRC/meta.json')).get('demo_placement','')
m=re.findall(r'[A-Za-z0-9_./-]+/[A-Za-z0-9_./-]+',v)
print((m[0] if m else v).rstrip('/.'))")
demo=$(ls $SRC | grep -E '^demo' | head -1)
log=$DST/confirm.log; : > $log
cd $WT && git checkout -q -- . && git clean -fdq
run_demo() {
  if [ -d "$SRC/demo" ]; then mkdir -p $WT/$place && cp -r $SRC/demo/* $WT/$place/ && (cd $WT/$place && timeout 900 go run -tags verif . ) ;
  else mkdir -p $WT/$place && cp $SRC/$demo $WT/$place/zz_seeded_demo_test.go && (cd $WT/$place && timeout 900 go test -vet=off -count=1 -run . . ) ; fi
}
echo "== demo WITHOUT patch" >> $log; run_demo >> $log 2>&1; r0=$?
git -C $WT apply $SRC/patch.diff || { echo "patch does not apply in scratch worktree" | tee -a $log; exit 2; }
echo "== build WITH patch" >> $log; (cd $WT && go build ./... ) >> $log 2>&1; rb=$?
echo "== demo WITH patch" >> $log; run_demo >> $log 2>&1; r1=$?
echo "== existing quick tests WITH patch" >> $log
(cd $WT && git clean -fdq)
(cd $WT && go test -vet=off -count=1 ./amd/insts/... ./amd/bitops/... ./amd/kernels/... ./amd/timing/cp/internal/resource/... ./amd/emu/cdna3/... ./nvidia/... ) >> $log 2>&1; rt=$?
cd $WT && git checkout -q -- . && git clean -fdq
echo "demo without patch exit=$r0 (want 0); build=$rb (want 0); demo with patch exit=$r1 (want !=0); existing tests=$rt (want 0)" | tee -a $log
# our check against it
git -C /repo apply $SRC/patch.diff || { echo "patch does not apply to /repo" | tee -a $log; exit 2; }
cd /verif && ./check $PROP --tier $TIER > $DST/check_$TIER.out 2>&1; rc=$?
git -C /repo checkout -q -- . ; git -C /verif checkout -q -- evidence/$PROP.json lean/MgpuModel/Gen 2>/dev/null; git -C /repo status --short | grep -v '^??' | head -3
tail -5 $DST/check_$TIER.out | cut -c1-400
echo "our check ($TIER) exit=$rc" | tee -a $log
python3 - <<PY
import json
m=json.load(open("$DST/meta.json"))
m["confirmed"]={"demo_without_patch_exit":$r0,"build_exit":$rb,"demo_with_patch_exit":$r1,"existing_tests_exit":$rt}
import re
out=open("$DST/check_$TIER.out").read()
sigs=sorted(set(re.findall(r"oracle-failure (\S+?):",out)))
broken=sorted(set(re.findall(r"broken\[(\w+)\]",out)))
nf="no-failing-input-found" in out
m.setdefault("our_check",{})["$TIER"]={"exit":$rc,"detected":$rc==1,"oracle_sigs":sigs,"broken":broken,"no_failing_input_found":nf}
if $rc==1: m["caught_by"]=("oracle "+", ".join(sigs[:4]) if sigs else "")+(" + broken "+"/".join(broken) if broken else "")
json.dump(m,open("$DST/meta.json","w"),indent=1)
PY
