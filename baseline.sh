#!/bin/bash
# Runs the pinned suite's stable_pass tests (32; /root/.vp/BASELINE.json) on a detached scratch
# worktree of /repo HEAD, tag OFF, and prints which of them do not pass. amd/benchmarks/mccl always
# times out at the pin and holds none of the 32, so it is skipped.
export GOFLAGS=-mod=mod GOPROXY=off
W=/tmp/baseline-wt; git -C /repo worktree remove --force $W 2>/dev/null; rm -rf $W
git -C /repo worktree add --detach -q $W HEAD || exit 2
cd $W && go build ./... || { echo BUILD FAILED; exit 1; }
go test -json -vet=off -count=1 -timeout 25m $(go list ./... | grep -v benchmarks/mccl) > /tmp/baseline.json 2>/tmp/baseline.err
python3 - <<'PY'
import json,ast
b=json.load(open('/root/.vp/BASELINE.json'))
sp=b['stable_pass']; sp=ast.literal_eval(sp) if isinstance(sp,str) else sp
res={}
for l in open('/tmp/baseline.json'):
    try: e=json.loads(l)
    except: continue
    if e.get('Test') and e.get('Action') in ('pass','fail','skip'):
        res[e['Package']+'::'+e['Test']]=e['Action']
bad=[t for t in sp if res.get(t)!='pass']
print('stable_pass tests:',len(sp),'passing now:',len(sp)-len(bad))
for t in bad: print('  NOT PASSING:',t,res.get(t))
PY
cd /; git -C /repo worktree remove --force $W
