//go:debug randseednop=0

// Shared infrastructure: run one whole shipped workload on one whole platform,
// in a child process, and report what happened. Used by C01 (Verify() oracle),
// C02 (timing vs emulation), C05 (reproducibility) and C18 (multi-GPU invariance).
//
// API (keep stable; everything else in this file is private):
//
//	type WorkloadSpec   – which benchmark, its size parameters, and the platform
//	type WorkloadResult – what the child observed (+ how it ended, seen by the parent)
//	type BufDump        – one live device buffer read back with MemCopyD2H
//	type AcceptClass    – one configuration class of amd/tests/acceptance/cases.go
//
//	RunWorkload(spec, timeout) WorkloadResult           one spec, one child process
//	RunWorkloads(specs, parallel, timeout) []WorkloadResult   same, `parallel` children at a time, results in spec order
//	BenchNames() []string                               every benchmark with a Verify() that is covered
//	BenchArchs(bench) []string                          architectures the benchmark ships a kernel for ("gcn3","cdna3")
//	DefaultParams(bench) map[string]int                 smallest sensible size (names = flags of amd/samples/<bench>)
//	AdmissibleSizes(bench, tier) []map[string]int       sizes inside the benchmark's own contract (tier "quick"|"thorough"); first entry == DefaultParams
//	AdmissibleSizesFor(bench, tier, ngpus, unified)     same, restricted to sizes the benchmark's multi-GPU split supports
//	SizeRule(bench) string                              the admissibility rule in words, with its source reference
//	AcceptanceClasses(bench) []AcceptClass              classes the project's acceptance matrix lists for the benchmark
//	AcceptanceParams(bench) map[string]int              the size the acceptance matrix uses (nil = sample defaults)
//	SupportsGPUs(bench, n, unified) bool                false where the benchmark itself refuses (panics on) the GPU set
//	(spec) String() / Mode()                            canonical one-line form / "emu"|"timing" + gpu-set suffix
//	WorkloadDir (var)                                   scratch root for child run directories (set it to r.OutDir)
//
// What the child does (function workloadChild, entered as `<exe> child workload <spec.json> <result.json>`):
// builds the platform exactly as amd/samples/runner does (simulation builder, parallel engine option,
// emusystem / timingconfig builder with arch, GPU type and number of GPUs = highest GPU id, sampling
// engine initialised and disabled, CreateUnifiedGPU for unified mode), constructs the benchmark with
// NewBenchmark(driver) and sets the exported fields the way amd/samples/<bench>/main.go does from its
// flags, SelectGPU + SetUnifiedMemory as Runner.AddBenchmark does, seeds math/rand, Driver.Run(),
// benchmark.Run(); then records the simulated time, reads back EVERY live buffer of EVERY driver
// context with MemCopyD2H (before Verify), and only then calls Verify() under recover.
//
// Reproducible inputs: benchmarks draw their inputs from the global math/rand source. This module
// is `go 1.25`, where rand.Seed is a no-op unless GODEBUG randseednop=0 — the `//go:debug
// randseednop=0` directive at the top of this file (package main) restores seeding, and the child
// calls rand.Seed(spec.Seed) before constructing the benchmark. Same spec ⇒ same inputs.
//
// Fault values (WorkloadResult.Fault): "" normal end; "hang" wall-clock limit hit (child killed);
// "exit:<code>" the child process ended by itself with that status (the driver's engine goroutine
// turns any panic inside the simulation into atexit.Exit(1); log.Fatal gives 1 as well);
// "panic:<class>" benchmark.Run() panicked in the calling goroutine (argument checks, index errors).
// A failed Verify() is NOT a fault: Ran=true, VerifyOK=false, VerifyMsg = panic text.
// Result fields are filled progressively, so after a hang/exit during the dump or Verify the
// earlier fields (Ran, SimTime, Buffers) are still there.
//
// SimTime is Engine.CurrentTime() right after Run() returned (before the read-back, which costs
// simulated time in timing mode); Counters["simtime_after_dump"] is the time after the read-back.
// Counters: "events" (engine events executed until end of Run), "events_total", "buffers", "bytes",
// "contexts". Raw buffer bytes are included when size ≤ Knobs["rawLimit"] (default 256).
// "contexts", "kicks" (see below), "kicks_run" (those during Run()).
// Knobs: "log2PageSize" (emulation builder), "magicMemoryCopy" (timing builder), "rawLimit",
// "noDump" (skip the read-back: observe exactly what the sample binary would do), "noKick".
// Watchdog: Driver.DrainCommandQueue has two lost-wake-up races (property C12) that make a run
// hang now and then (≈2 % of runs under load). They are not what the whole-workload properties
// are about, so the child re-sends the wake-ups (Driver.VerifKick) after 1.5 s without an engine
// event; every such kick is counted — a result with kicks > 0 finished only thanks to it.
// The simulation's sqlite file is created inside the run directory and removed with it.
package main

import (
	"encoding/json"
	"fmt"
	"log"
	"math"
	"math/rand"
	"os"
	"os/exec"
	"path/filepath"
	"sort"
	"strings"
	"sync"
	"sync/atomic"
	"time"

	"github.com/sarchlab/akita/v4/sim"
	"github.com/sarchlab/akita/v4/simulation"
	"github.com/sarchlab/mgpusim/v4/amd/arch"
	"github.com/sarchlab/mgpusim/v4/amd/benchmarks"
	"github.com/sarchlab/mgpusim/v4/amd/benchmarks/amdappsdk/bitonicsort"
	"github.com/sarchlab/mgpusim/v4/amd/benchmarks/amdappsdk/fastwalshtransform"
	"github.com/sarchlab/mgpusim/v4/amd/benchmarks/amdappsdk/floydwarshall"
	"github.com/sarchlab/mgpusim/v4/amd/benchmarks/amdappsdk/matrixmultiplication"
	"github.com/sarchlab/mgpusim/v4/amd/benchmarks/amdappsdk/matrixtranspose"
	"github.com/sarchlab/mgpusim/v4/amd/benchmarks/amdappsdk/nbody"
	"github.com/sarchlab/mgpusim/v4/amd/benchmarks/amdappsdk/simpleconvolution"
	"github.com/sarchlab/mgpusim/v4/amd/benchmarks/amdappsdk/vectoradd"
	"github.com/sarchlab/mgpusim/v4/amd/benchmarks/dnn/layer_benchmarks/conv2d"
	"github.com/sarchlab/mgpusim/v4/amd/benchmarks/dnn/layer_benchmarks/im2col"
	"github.com/sarchlab/mgpusim/v4/amd/benchmarks/dnn/layer_benchmarks/relu"
	"github.com/sarchlab/mgpusim/v4/amd/benchmarks/heteromark/aes"
	"github.com/sarchlab/mgpusim/v4/amd/benchmarks/heteromark/fir"
	"github.com/sarchlab/mgpusim/v4/amd/benchmarks/heteromark/kmeans"
	"github.com/sarchlab/mgpusim/v4/amd/benchmarks/heteromark/pagerank"
	"github.com/sarchlab/mgpusim/v4/amd/benchmarks/polybench/atax"
	"github.com/sarchlab/mgpusim/v4/amd/benchmarks/polybench/bicg"
	"github.com/sarchlab/mgpusim/v4/amd/benchmarks/rodinia/nw"
	"github.com/sarchlab/mgpusim/v4/amd/benchmarks/shoc/bfs"
	"github.com/sarchlab/mgpusim/v4/amd/benchmarks/shoc/fft"
	"github.com/sarchlab/mgpusim/v4/amd/benchmarks/shoc/spmv"
	"github.com/sarchlab/mgpusim/v4/amd/benchmarks/shoc/stencil2d"
	"github.com/sarchlab/mgpusim/v4/amd/driver"
	"github.com/sarchlab/mgpusim/v4/amd/samples/runner/emusystem"
	"github.com/sarchlab/mgpusim/v4/amd/samples/runner/timingconfig"
	"github.com/sarchlab/mgpusim/v4/amd/sampling"
)

// ---------------------------------------------------------------- public types

// WorkloadSpec names one run: a benchmark, its size parameters and the platform.
type WorkloadSpec struct {
	Bench      string         // BenchNames()
	Params     map[string]int // names = flag names of amd/samples/<bench>; missing ones take DefaultParams
	Arch       string         // "gcn3" | "cdna3"
	Timing     bool           // false = functional emulation platform
	GPUType    string         // timing only: "r9nano" | "mi300a"
	GPUs       []int          // GPU ids, e.g. {1}, {1,2}, {1,2,3,4}
	UnifiedGPU bool           // -unified-gpus: one unified device over GPUs
	UnifiedMem bool           // -use-unified-memory
	Parallel   bool           // parallel engine
	Seed       int64          // math/rand seed of the child
	Knobs      map[string]int `json:",omitempty"` // optional platform knobs, see file comment
}

// BufDump is one live device buffer read back after Run().
type BufDump struct {
	Ctx   int    // index of the context in Driver.VerifContexts()
	VAddr uint64 // virtual address
	Size  uint64
	Hash  uint64 // FNV-1a of the content
	Raw   []byte `json:",omitempty"` // content, only when Size ≤ rawLimit
}

// WorkloadResult is what one run produced.
type WorkloadResult struct {
	Spec      WorkloadSpec
	Ran       bool    // benchmark.Run() returned
	Fault     string  // "", "hang", "exit:<code>", "panic:<class>"
	VerifyOK  bool    // Verify() returned without panicking
	VerifyMsg string  // panic text of Verify() (or of Run() when Fault is panic:…)
	SimTime   float64 // seconds of simulated time when Run() returned
	Buffers   []BufDump
	Counters  map[string]float64
	WallMs    int64  // wall-clock of the child, measured by the parent
	Stage     string // last stage the child reached: build, run, dump, verify, done
	Log       string `json:",omitempty"` // tail of the child's stderr when something went wrong
}

// AcceptClass is one configuration class of the project's acceptance matrix
// (amd/tests/acceptance/cases.go). Every listed class is accepted with the
// serial engine; ParallelToo says the parallel engine is listed as well.
type AcceptClass struct {
	GPUs        []int
	Timing      bool
	UnifiedGPU  bool
	UnifiedMem  bool
	Arch        string // "gcn3" | "cdna3"
	GPUType     string // "r9nano" | "mi300a"
	ParallelToo bool
}

// WorkloadDir is the scratch root for child run directories. Property runners
// set it to their r.OutDir; empty means os.TempDir().
var WorkloadDir string

// ---------------------------------------------------------------- spec helpers

// Mode is "emu" or "timing" followed by the GPU set, e.g. "emu.g1", "timing.g12u", "emu.g1234m".
func (s WorkloadSpec) Mode() string {
	m := "emu"
	if s.Timing {
		m = "timing"
		if s.GPUType != "" && s.GPUType != "r9nano" {
			m += "-" + s.GPUType
		}
	}
	m += ".g"
	for _, g := range s.GPUs {
		m += fmt.Sprint(g)
	}
	if s.UnifiedGPU {
		m += "u"
	}
	if s.UnifiedMem {
		m += "m"
	}
	if s.Parallel {
		m += "p"
	}
	return m
}

// String is the canonical one-line form of a spec (params sorted).
func (s WorkloadSpec) String() string {
	return fmt.Sprintf("%s %s arch=%s mode=%s seed=%d%s", s.Bench, paramString(s.Params), s.Arch, s.Mode(), s.Seed, knobString(s.Knobs))
}

func paramString(p map[string]int) string {
	keys := make([]string, 0, len(p))
	for k := range p {
		keys = append(keys, k)
	}
	sort.Strings(keys)
	parts := make([]string, 0, len(keys))
	for _, k := range keys {
		parts = append(parts, fmt.Sprintf("-%s=%d", k, p[k]))
	}
	return strings.Join(parts, " ")
}

func knobString(p map[string]int) string {
	if len(p) == 0 {
		return ""
	}
	return " knobs[" + paramString(p) + "]"
}

func cloneParams(p map[string]int) map[string]int {
	o := make(map[string]int, len(p))
	for k, v := range p {
		o[k] = v
	}
	return o
}

// ---------------------------------------------------------------- benchmark table

type benchDef struct {
	name  string
	archs []string // architectures with a shipped kernel
	// build mirrors amd/samples/<name>/main.go: NewBenchmark + exported fields.
	build func(d *driver.Driver, a arch.Type, p map[string]int) benchmarks.Benchmark
	// sizes[0] is the default (smallest sensible) size; quick = first nQuick entries.
	sizes  []map[string]int
	nQuick int
	// ok says whether a size is admissible for a GPU set (n GPUs, unified or plain split).
	ok   func(p map[string]int, n int, unified bool) bool
	rule string // admissibility rule + source reference
	// multiGPU: "all" plain+unified, "unified" only unified (benchmark panics on a plain multi-GPU set),
	// "none" single GPU only.
	multiGPU string
	accept   string         // acceptance class set: full40, bfs, spmv, none (+ extras in acceptExtra)
	accSize  map[string]int // acceptance sizeArgs (nil = defaults of the sample's flags)
}

type P = map[string]int

func always(p map[string]int, n int, unified bool) bool { return true }

// wgs(n, unified): number of pieces a plain multi-GPU split cuts the work into.
func pieces(n int, unified bool) int {
	if unified {
		return 1
	}
	return n
}

func archOf(s string) arch.Type {
	if s == "cdna3" || s == "gfx942" {
		return arch.CDNA3
	}
	return arch.GCN3
}

var benchTable = []benchDef{
	{
		name: "fir", archs: []string{"gcn3", "cdna3"}, multiGPU: "all", accept: "full40", accSize: P{"length": 8192},
		build: func(d *driver.Driver, a arch.Type, p map[string]int) benchmarks.Benchmark {
			b := fir.NewBenchmark(d)
			b.Length = p["length"]
			b.NumTapsParam = p["taps"]
			b.Arch = a
			return b
		},
		sizes:  []P{{"length": 256, "taps": 16}, {"length": 100, "taps": 16}, {"length": 1000, "taps": 7}, {"length": 1, "taps": 16}, {"length": 300, "taps": 40}, {"length": 4096, "taps": 33}},
		nQuick: 2,
		ok:     func(p map[string]int, n int, unified bool) bool { return p["length"]%pieces(n, unified) == 0 },
		rule:   "any Length ≥ 1 and taps ≥ 1: grid = Length/#GPUs work-items in work-groups of 256 with a partial last group; the kernel reads input[tid+i] from a history-padded copy, so no divisibility is assumed beyond Length % #GPUs == 0 for a plain split (heteromark/fir/fir.go enqueueKernel:179-235)",
	},
	{
		name: "vectoradd", archs: []string{"cdna3"}, multiGPU: "all", accept: "none", accSize: P{"width": 4096, "height": 1},
		build: func(d *driver.Driver, a arch.Type, p map[string]int) benchmarks.Benchmark {
			b := vectoradd.NewBenchmark(d)
			b.Width = uint32(p["width"])
			b.Height = uint32(p["height"])
			return b
		},
		sizes:  []P{{"width": 256, "height": 1}, {"width": 100, "height": 3}, {"width": 64, "height": 64}, {"width": 1, "height": 1}, {"width": 1000, "height": 1}},
		nQuick: 2,
		ok:     always,
		rule: "vectoradd.go exec: grid = Width*Height/#GPUs, work-group 64, kernel guards `i < width*height`; any Width,Height ≥ 1 " +
			"(amdappsdk/vectoradd/vectoradd.go:125-170). Only a gfx942 kernel is shipped (kernels.hsaco is the HIP build), so arch = cdna3 only",
	},
	{
		name: "matrixtranspose", archs: []string{"gcn3", "cdna3"}, multiGPU: "all", accept: "full40", accSize: P{"width": 1024},
		build: func(d *driver.Driver, a arch.Type, p map[string]int) benchmarks.Benchmark {
			b := matrixtranspose.NewBenchmark(d)
			b.Width = p["width"]
			b.Arch = a
			return b
		},
		sizes:  []P{{"width": 64}, {"width": 128}, {"width": 256}, {"width": 192}, {"width": 512}},
		nQuick: 2,
		ok: func(p map[string]int, n int, unified bool) bool {
			return p["width"]%(64*pieces(n, unified)) == 0
		},
		rule: "matrixtranspose.go exec: each work-item moves a 4x4 block, work-group 16x16 ⇒ tile 64x64; the kernel has no bounds test and " +
			"stages a full 64x64 tile in LDS, grid = Width/4 per dimension with work-group 16 ⇒ Width must be a multiple of 64 " +
			"(× #GPUs for a plain multi-GPU split: wiWidth/len(queues) must stay a multiple of 16) (amdappsdk/matrixtranspose/matrixtranspose.go:245-262; " +
			"AMD APP SDK MatrixTranspose.cpp rejects other widths). width=96 is outside the kernel's contract, not a defect",
	},
	{
		name: "floydwarshall", archs: []string{"gcn3", "cdna3"}, multiGPU: "all", accept: "full40",
		build: func(d *driver.Driver, a arch.Type, p map[string]int) benchmarks.Benchmark {
			b := floydwarshall.NewBenchmark(d)
			b.NumNodes = uint32(p["node"])
			b.NumIterations = uint32(p["iter"])
			b.Arch = a
			return b
		},
		sizes:  []P{{"node": 16, "iter": 0}, {"node": 20, "iter": 0}, {"node": 8, "iter": 0}, {"node": 100, "iter": 4}, {"node": 24, "iter": 5}},
		nQuick: 2,
		ok:     always,
		rule:   "any NumNodes ≥ 1: Run() rounds the node count up to the 8x8 work-group (after fix 10702b3f; before it only the launch grid and the kernel's row stride were rounded and e.g. node=20 failed); iter=0 means NumNodes passes (amdappsdk/floydwarshall/floydwarshall.go Run/exec)",
	},
	{
		name: "bitonicsort", archs: []string{"gcn3", "cdna3"}, multiGPU: "all", accept: "none",
		build: func(d *driver.Driver, a arch.Type, p map[string]int) benchmarks.Benchmark {
			b := bitonicsort.NewBenchmark(d)
			b.Arch = a
			b.Length = p["length"]
			b.OrderAscending = p["order-asc"] != 0
			return b
		},
		sizes:  []P{{"length": 256, "order-asc": 1}, {"length": 1024, "order-asc": 0}, {"length": 64, "order-asc": 1}, {"length": 2, "order-asc": 1}, {"length": 2048, "order-asc": 1}},
		nQuick: 2,
		ok:     func(p map[string]int, n int, unified bool) bool { l := p["length"]; return l >= 2 && l&(l-1) == 0 },
		rule:   "Length must be a power of two ≥ 2: a bitonic network; numStages = log2(Length) is computed by shifting (bitonicsort.go:156) and each pass launches Length/2 work-items; other lengths are outside the algorithm's contract (the run aborts in the emulator), as in the AMD APP SDK sample which rejects them",
	},
	{
		name: "fastwalshtransform", archs: []string{"gcn3", "cdna3"}, multiGPU: "all", accept: "none",
		build: func(d *driver.Driver, a arch.Type, p map[string]int) benchmarks.Benchmark {
			b := fastwalshtransform.NewBenchmark(d)
			b.Length = uint32(p["length"])
			b.Arch = a
			return b
		},
		sizes:  []P{{"length": 256}, {"length": 1024}, {"length": 64}, {"length": 2}, {"length": 2048}},
		nQuick: 2,
		ok:     func(p map[string]int, n int, unified bool) bool { l := p["length"]; return l >= 2 && l&(l-1) == 0 },
		rule:   "Length must be a power of two ≥ 2: the butterfly loop `for step := 1; step < Length; step <<= 1` with Length/2 work-items per step (fastwalshtransform.go:145-200); the SDK sample rounds other lengths, this port does not, and its own CPU reference indexes out of range for them",
	},
	{
		name: "matrixmultiplication", archs: []string{"gcn3", "cdna3"}, multiGPU: "all", accept: "full40", accSize: P{"x": 128, "y": 128, "z": 128},
		build: func(d *driver.Driver, a arch.Type, p map[string]int) benchmarks.Benchmark {
			b := matrixmultiplication.NewBenchmark(d)
			b.Arch = a
			b.X = uint32(p["x"])
			b.Y = uint32(p["y"])
			b.Z = uint32(p["z"])
			return b
		},
		sizes:  []P{{"x": 32, "y": 32, "z": 32}, {"x": 64, "y": 20, "z": 96}, {"x": 32, "y": 4, "z": 64}, {"x": 96, "y": 12, "z": 32}, {"x": 128, "y": 64, "z": 64}},
		nQuick: 2,
		ok: func(p map[string]int, n int, unified bool) bool {
			return p["x"]%(32*pieces(n, unified)) == 0 && p["z"]%32 == 0 && p["y"]%4 == 0 && p["y"] >= 4
		},
		rule: "X % (32·#GPUs) == 0, Z % 32 == 0, Y % 4 == 0: grid = (Z/4, X/4/#GPUs) work-items in 8x8 work-groups, each work-item produces a 4x4 tile and reads A/B as float4 without bounds tests (mm.go launchKernel:100-150, kernel mmmKernel_local); the SDK sample pads matrices to these multiples, this port takes the sizes as given. Observed: Y ∈ {5,6,33} verify anyway, Y < 4 crashes the emulator (nil dereference) — outside the contract, not chased",
	},
	{
		name: "nbody", archs: []string{"gcn3", "cdna3"}, multiGPU: "all", accept: "full40",
		build: func(d *driver.Driver, a arch.Type, p map[string]int) benchmarks.Benchmark {
			b := nbody.NewBenchmark(d)
			b.Arch = a
			b.NumIterations = int32(p["iter"])
			b.NumParticles = int32(p["particles"])
			return b
		},
		sizes:  []P{{"particles": 256, "iter": 1}, {"particles": 100, "iter": 1}, {"particles": 65, "iter": 2}, {"particles": 512, "iter": 2}, {"particles": 1, "iter": 1}},
		nQuick: 2,
		ok:     always,
		rule:   "any NumParticles ≥ 1: grid = numBodies work-items in work-groups of groupSize with a partial last group, no divisibility requirement in the host code (amdappsdk/nbody/nbody.go:198-199); 1, 65, 100 particles verified on both architectures",
	},
	{
		name: "simpleconvolution", archs: []string{"gcn3", "cdna3"}, multiGPU: "all", accept: "full40",
		build: func(d *driver.Driver, a arch.Type, p map[string]int) benchmarks.Benchmark {
			b := simpleconvolution.NewBenchmark(d)
			b.Height = uint32(p["height"])
			b.Width = uint32(p["width"])
			b.SetMaskSize(uint32(p["mask-size"]))
			b.Arch = a
			return b
		},
		sizes:  []P{{"width": 62, "height": 62, "mask-size": 3}, {"width": 100, "height": 70, "mask-size": 3}, {"width": 33, "height": 17, "mask-size": 5}, {"width": 64, "height": 64, "mask-size": 4}, {"width": 10, "height": 300, "mask-size": 7}, {"width": 1, "height": 1, "mask-size": 3}},
		nQuick: 2,
		ok:     always,
		rule:   "any Width, Height ≥ 1 and mask size ≥ 1 (odd or even): the host pads the input by mask-1 and rounds the grid up to the work-group (amdappsdk/simpleconvolution/simpleconvolution.go:150-240); 1x1, 33x17 mask 5, 64x64 mask 4, 10x300 mask 7 verified on both architectures",
	},
	{
		name: "aes", archs: []string{"gcn3", "cdna3"}, multiGPU: "all", accept: "full40", accSize: P{"length": 16384},
		build: func(d *driver.Driver, a arch.Type, p map[string]int) benchmarks.Benchmark {
			b := aes.NewBenchmark(d)
			b.Arch = a
			b.Length = p["length"]
			return b
		},
		sizes:  []P{{"length": 1024}, {"length": 160}, {"length": 16}, {"length": 4112}, {"length": 4096}},
		nQuick: 2,
		ok:     func(p map[string]int, n int, unified bool) bool { return p["length"]%(16*pieces(n, unified)) == 0 },
		rule:   "Length % (16·#GPUs) == 0: one work-item encrypts one 16-byte AES block, grid = Length/16/#GPUs (aes.go:200-250); a trailing partial block is not encrypted by the kernel but is by the CPU reference (length=1000 fails at byte 992) — AES-ECB without padding is defined on whole blocks only",
	},
	{
		name: "kmeans", archs: []string{"gcn3", "cdna3"}, multiGPU: "all", accept: "full40", accSize: P{"points": 1024, "features": 32, "clusters": 5, "max-iter": 5},
		build: func(d *driver.Driver, a arch.Type, p map[string]int) benchmarks.Benchmark {
			b := kmeans.NewBenchmark(d)
			b.Arch = a
			b.NumPoints = p["points"]
			b.NumClusters = p["clusters"]
			b.NumFeatures = p["features"]
			b.MaxIter = p["max-iter"]
			return b
		},
		sizes:  []P{{"points": 256, "features": 8, "clusters": 3, "max-iter": 2}, {"points": 100, "features": 3, "clusters": 2, "max-iter": 2}, {"points": 300, "features": 5, "clusters": 7, "max-iter": 3}, {"points": 1, "features": 1, "clusters": 1, "max-iter": 1}},
		nQuick: 2,
		ok:     always,
		rule:   "any points/features/clusters ≥ 1: no divisibility requirement in the host code (heteromark/kmeans/kmeans.go, grids rounded per work-group of 64); 1, 100, 300 points verified on both architectures",
	},
	{
		name: "pagerank", archs: []string{"gcn3", "cdna3"}, multiGPU: "all", accept: "full40", accSize: P{"node": 64, "sparsity-permille": 500, "iterations": 2},
		build: func(d *driver.Driver, a arch.Type, p map[string]int) benchmarks.Benchmark {
			b := pagerank.NewBenchmark(d)
			b.Arch = a
			n := p["node"]
			b.NumNodes = uint32(n)
			numConn := int(float64(n*n) * float64(p["sparsity-permille"]) / 1000)
			if numConn < n {
				numConn = n
			}
			b.NumConnections = uint32(numConn)
			b.MaxIterations = uint32(p["iterations"])
			return b
		},
		sizes:  []P{{"node": 64, "sparsity-permille": 500, "iterations": 2}, {"node": 100, "sparsity-permille": 100, "iterations": 2}, {"node": 65, "sparsity-permille": 300, "iterations": 3}, {"node": 16, "sparsity-permille": 1, "iterations": 16}},
		nQuick: 2,
		ok:     always,
		rule:   "any NumNodes ≥ 1, connections ≥ NumNodes (the sample clamps): one 64-wide work-group per row, kernel guards `row < num_rows` (heteromark/pagerank/native/kernels.cl:42)",
	},
	{
		name: "atax", archs: []string{"gcn3", "cdna3"}, multiGPU: "all", accept: "full40", accSize: P{"x": 256, "y": 256},
		build: func(d *driver.Driver, a arch.Type, p map[string]int) benchmarks.Benchmark {
			b := atax.NewBenchmark(d)
			b.Arch = a
			b.NX = p["x"]
			b.NY = p["y"]
			return b
		},
		sizes:  []P{{"x": 64, "y": 64}, {"x": 100, "y": 60}, {"x": 33, "y": 77}, {"x": 256, "y": 32}, {"x": 32, "y": 256}},
		nQuick: 2,
		ok:     always,
		rule:   "any NX, NY ≥ 1: grids rounded up to 256 and both kernels guard `i < nx` / `j < ny` (polybench/atax/benchmark.go:236-250, native/atax.cl); NX ≠ NY needs fix fec44504 (host vector x had NX elements)",
	},
	{
		name: "bicg", archs: []string{"gcn3", "cdna3"}, multiGPU: "all", accept: "full40", accSize: P{"x": 256, "y": 256},
		build: func(d *driver.Driver, a arch.Type, p map[string]int) benchmarks.Benchmark {
			b := bicg.NewBenchmark(d)
			b.Arch = a
			b.NX = p["x"]
			b.NY = p["y"]
			return b
		},
		sizes:  []P{{"x": 64, "y": 64}, {"x": 100, "y": 60}, {"x": 33, "y": 77}, {"x": 256, "y": 32}, {"x": 32, "y": 256}},
		nQuick: 2,
		ok:     always,
		rule:   "any NX, NY ≥ 1: grids rounded up to 256 and both kernels guard `i < nx` / `j < ny` (polybench/bicg/native/bicg.cl:22,39)",
	},
	{
		name: "nw", archs: []string{"gcn3", "cdna3"}, multiGPU: "none", accept: "none", accSize: P{"length": 64},
		build: func(d *driver.Driver, a arch.Type, p map[string]int) benchmarks.Benchmark {
			b := nw.NewBenchmark(d)
			b.Arch = a
			b.SetLength(p["length"])
			return b
		},
		sizes:  []P{{"length": 64}, {"length": 128}, {"length": 192}, {"length": 256}},
		nQuick: 2,
		ok:     func(p map[string]int, n int, unified bool) bool { return p["length"]%64 == 0 && p["length"] >= 64 },
		rule:   "length must be a positive multiple of the block size 64: both kernels work on whole 64x64 blocks, worksize/blockSize blocks per anti-diagonal (rodinia/nw/benchmark.go:240-330; Rodinia's nw.c rejects other sizes). length ≥ 192 needs fix 2af7da67 (kernel-2 launch order)",
	},
	{
		name: "bfs", archs: []string{"gcn3", "cdna3"}, multiGPU: "unified", accept: "bfs", accSize: P{"node": 1024},
		build: func(d *driver.Driver, a arch.Type, p map[string]int) benchmarks.Benchmark {
			b := bfs.NewBenchmark(d)
			b.Arch = a
			b.Path = ""
			b.NumNode = p["node"]
			b.Degree = p["degree"]
			md := p["depth"]
			if md == 0 {
				md = math.MaxInt32
			}
			b.MaxDepth = md
			return b
		},
		sizes:  []P{{"node": 64, "degree": 3, "depth": 0}, {"node": 100, "degree": 2, "depth": 0}, {"node": 257, "degree": 4, "depth": 0}, {"node": 300, "degree": 5, "depth": 3}, {"node": 1024, "degree": 3, "depth": 0}},
		nQuick: 2,
		ok:     func(p map[string]int, n int, unified bool) bool { return p["node"] >= 2 },
		rule:   "any NumNode ≥ 2, Degree ≥ 1 (generated graph), depth 0 = unlimited: one work-item per node, guarded by numNodes (shoc/bfs/bfs.go:150-235); node=1 generates no edge and the benchmark panics on a 0-byte allocation (degenerate, excluded)",
	},
	{
		name: "fft", archs: []string{"gcn3", "cdna3"}, multiGPU: "all", accept: "full40", accSize: P{"MB": 1},
		build: func(d *driver.Driver, a arch.Type, p map[string]int) benchmarks.Benchmark {
			b := fft.NewBenchmark(d)
			b.Arch = a
			if p["bytes"] > 0 {
				b.Bytes = int64(p["bytes"])
				b.BytesMode = true
			} else {
				b.Bytes = int64(p["MB"])
			}
			b.Passes = int32(p["passes"])
			return b
		},
		sizes:  []P{{"bytes": 8192, "MB": 0, "passes": 1}, {"bytes": 32768, "MB": 0, "passes": 2}, {"bytes": 12288, "MB": 0, "passes": 1}, {"bytes": 65536, "MB": 0, "passes": 1}},
		nQuick: 2,
		ok:     func(p map[string]int, n int, unified bool) bool { return p["bytes"] >= 8192 },
		rule:   "bytes ≥ 8192 (rounded down by the benchmark itself to a multiple of 8192 = two 512-point complex-float FFTs: halfNFfts = Bytes/8192, fft.go:143-150); below that the benchmark panics on a 0-byte allocation",
	},
	{
		name: "spmv", archs: []string{"gcn3", "cdna3"}, multiGPU: "all", accept: "spmv",
		build: func(d *driver.Driver, a arch.Type, p map[string]int) benchmarks.Benchmark {
			b := spmv.NewBenchmark(d)
			b.Dim = int32(p["dim"])
			b.Sparsity = float64(p["sparsity-permille"]) / 1000
			b.Arch = a
			return b
		},
		sizes:  []P{{"dim": 128, "sparsity-permille": 10}, {"dim": 100, "sparsity-permille": 50}, {"dim": 300, "sparsity-permille": 20}, {"dim": 65, "sparsity-permille": 100}, {"dim": 512, "sparsity-permille": 10}},
		nQuick: 2,
		ok:     always,
		rule:   "any Dim ≥ 1: grid = Dim in work-groups of 128 with a partial last group, kernel guards `myRow < dim` (shoc/spmv/spmv.go exec); cdna3 with more than one work-group needs fix b4072461",
	},
	{
		name: "stencil2d", archs: []string{"gcn3", "cdna3"}, multiGPU: "all", accept: "full40",
		build: func(d *driver.Driver, a arch.Type, p map[string]int) benchmarks.Benchmark {
			b := stencil2d.NewBenchmark(d)
			b.Arch = a
			b.NumIteration = p["iter"]
			b.NumRows = p["row"] + 2
			b.NumCols = p["col"] + 2
			return b
		},
		sizes:  []P{{"row": 64, "col": 64, "iter": 1}, {"row": 32, "col": 128, "iter": 2}, {"row": 16, "col": 64, "iter": 3}, {"row": 128, "col": 64, "iter": 2}},
		nQuick: 2,
		ok: func(p map[string]int, n int, unified bool) bool {
			return p["row"]%16 == 0 && p["col"]%64 == 0 && p["row"] > 0 && p["col"] > 0
		},
		rule: "row % 16 == 0 and col % 64 == 0 (sizes without the halo): StencilKernel has no bounds test, grid = ((rows)/localRows, cols) with localRows=16, work-group (1,64) staging a (16+2)x(64+2) LDS tile (shoc/stencil2d/stencil2d.go:155-160,300-315); SHOC's Stencil2D main rejects other sizes. Other sizes run off the matrix (wrong result or undecodable garbage)",
	},
	{
		name: "relu", archs: []string{"gcn3", "cdna3"}, multiGPU: "all", accept: "full40",
		build: func(d *driver.Driver, a arch.Type, p map[string]int) benchmarks.Benchmark {
			b := relu.NewBenchmark(d)
			b.Arch = a
			b.Length = p["length"]
			return b
		},
		sizes:  []P{{"length": 256}, {"length": 100}, {"length": 1}, {"length": 1000}, {"length": 4096}},
		nQuick: 2,
		ok:     always,
		rule:   "any Length ≥ 1: grid rounded up, kernel guards `index < count` (dnn/layer_benchmarks/relu/native/relu.cpp:10)",
	},
	{
		name: "conv2d", archs: []string{"gcn3", "cdna3"}, multiGPU: "none", accept: "none",
		build: func(d *driver.Driver, a arch.Type, p map[string]int) benchmarks.Benchmark {
			b := conv2d.NewBenchmark(d)
			b.N, b.C, b.H, b.W = p["N"], p["C"], p["H"], p["W"]
			b.KernelChannel = p["output-channel"]
			b.KernelWidth, b.KernelHeight = p["kernel-width"], p["kernel-height"]
			b.PadX, b.PadY = p["pad-x"], p["pad-y"]
			b.StrideX, b.StrideY = p["stride-x"], p["stride-y"]
			b.EnableBackward = p["enable-backward"] != 0
			b.Arch = a
			return b
		},
		sizes: []P{
			{"N": 1, "C": 1, "H": 8, "W": 8, "output-channel": 2, "kernel-height": 3, "kernel-width": 3, "pad-x": 0, "pad-y": 0, "stride-x": 1, "stride-y": 1, "enable-backward": 0},
			{"N": 2, "C": 2, "H": 7, "W": 9, "output-channel": 3, "kernel-height": 3, "kernel-width": 3, "pad-x": 1, "pad-y": 1, "stride-x": 1, "stride-y": 1, "enable-backward": 0},
			{"N": 1, "C": 1, "H": 8, "W": 8, "output-channel": 2, "kernel-height": 3, "kernel-width": 3, "pad-x": 0, "pad-y": 0, "stride-x": 1, "stride-y": 1, "enable-backward": 1},
		},
		nQuick: 1,
		ok:     always,
		rule:   "any N,C,H,W ≥ 1 with kernel ≤ padded input and stride ≥ 1; single GPU only (SelectGPU panics otherwise); checked by the GPU-vs-CPU operator cross-check (EnableVerification) since Verify() is empty",
	},
	{
		name: "im2col", archs: []string{"gcn3", "cdna3"}, multiGPU: "none", accept: "none",
		build: func(d *driver.Driver, a arch.Type, p map[string]int) benchmarks.Benchmark {
			b := im2col.NewBenchmark(d)
			b.N, b.C, b.H, b.W = p["N"], p["C"], p["H"], p["W"]
			b.KernelWidth, b.KernelHeight = p["kernel-width"], p["kernel-height"]
			b.PadX, b.PadY = p["pad-x"], p["pad-y"]
			b.StrideX, b.StrideY = p["stride-x"], p["stride-y"]
			b.DilateX, b.DilateY = p["dilate-x"], p["dilate-y"]
			b.Arch = a
			return b
		},
		sizes: []P{
			{"N": 1, "C": 1, "H": 8, "W": 8, "kernel-height": 3, "kernel-width": 3, "pad-x": 0, "pad-y": 0, "stride-x": 1, "stride-y": 1, "dilate-x": 1, "dilate-y": 1},
			{"N": 2, "C": 3, "H": 7, "W": 9, "kernel-height": 3, "kernel-width": 2, "pad-x": 1, "pad-y": 1, "stride-x": 2, "stride-y": 1, "dilate-x": 1, "dilate-y": 1},
			{"N": 1, "C": 1, "H": 28, "W": 28, "kernel-height": 3, "kernel-width": 3, "pad-x": 0, "pad-y": 0, "stride-x": 1, "stride-y": 1, "dilate-x": 1, "dilate-y": 1},
		},
		nQuick: 1,
		ok:     always,
		rule:   "any N,C,H,W ≥ 1 with kernel ≤ padded input, stride, dilation ≥ 1; single GPU only; checked by the GPU-vs-CPU operator cross-check; H ≠ W needs fix c7d6a23a",
	},
}

func benchByName(name string) *benchDef {
	for i := range benchTable {
		if benchTable[i].name == name {
			return &benchTable[i]
		}
	}
	return nil
}

// BenchNames lists every covered benchmark.
func BenchNames() []string {
	out := make([]string, 0, len(benchTable))
	for _, b := range benchTable {
		out = append(out, b.name)
	}
	return out
}

// BenchArchs lists the architectures a benchmark ships a kernel for.
func BenchArchs(bench string) []string {
	if b := benchByName(bench); b != nil {
		return append([]string(nil), b.archs...)
	}
	return nil
}

// DefaultParams is the smallest sensible size of a benchmark.
func DefaultParams(bench string) map[string]int {
	if b := benchByName(bench); b != nil {
		return cloneParams(b.sizes[0])
	}
	return nil
}

// AdmissibleSizes lists sizes inside the benchmark's contract for a single GPU.
func AdmissibleSizes(bench string, tier string) []map[string]int {
	return AdmissibleSizesFor(bench, tier, 1, false)
}

// AdmissibleSizesFor restricts AdmissibleSizes to what a GPU set supports.
func AdmissibleSizesFor(bench, tier string, ngpus int, unified bool) []map[string]int {
	b := benchByName(bench)
	if b == nil {
		return nil
	}
	n := len(b.sizes)
	if tier != "thorough" && b.nQuick < n {
		n = b.nQuick
	}
	var out []map[string]int
	for _, s := range b.sizes[:n] {
		if b.ok(s, ngpus, unified) {
			out = append(out, cloneParams(s))
		}
	}
	return out
}

// SizeRule is the admissibility rule of a benchmark in words.
func SizeRule(bench string) string {
	if b := benchByName(bench); b != nil {
		return b.rule
	}
	return ""
}

// SupportsGPUs is false where the benchmark refuses the GPU set itself.
func SupportsGPUs(bench string, n int, unified bool) bool {
	b := benchByName(bench)
	if b == nil {
		return false
	}
	if n == 1 && !unified {
		return true
	}
	switch b.multiGPU {
	case "all":
		return true
	case "unified":
		return unified
	}
	return false
}

// AcceptanceParams is the size the acceptance matrix runs the benchmark with.
func AcceptanceParams(bench string) map[string]int {
	b := benchByName(bench)
	if b == nil || b.accSize == nil {
		return nil
	}
	return cloneParams(b.accSize)
}

// AcceptanceClasses encodes amd/tests/acceptance/cases.go as data.
//
//	full40: {1},{1,2},{1,2,3,4} plain and {1,2},{1,2,3,4} unified, each with and without unified
//	        memory, each emu and timing, each serial and parallel (40 cases) — gcn3 / r9nano.
//	bfs:    {1}, {1,2}u, {1,2,3,4}u × unified memory off/on × emu/timing (24 cases).
//	spmv:   {1},{1,2},{1,2,3,4} plain, {1,2},{1,2,3,4} unified, no unified memory (20 cases).
//	plus the cdna3 entries at the end of the file (acceptExtra).
func AcceptanceClasses(bench string) []AcceptClass {
	b := benchByName(bench)
	if b == nil {
		return nil
	}
	var out []AcceptClass
	add := func(g []int, u, m bool) {
		for _, t := range []bool{false, true} {
			out = append(out, AcceptClass{GPUs: g, Timing: t, UnifiedGPU: u, UnifiedMem: m, Arch: "gcn3", GPUType: "r9nano", ParallelToo: true})
		}
	}
	g1, g2, g4 := []int{1}, []int{1, 2}, []int{1, 2, 3, 4}
	switch b.accept {
	case "full40":
		for _, m := range []bool{false, true} {
			add(g1, false, m)
			add(g2, false, m)
			add(g4, false, m)
			add(g2, true, m)
			add(g4, true, m)
		}
	case "bfs":
		for _, m := range []bool{false, true} {
			add(g1, false, m)
			add(g2, true, m)
			add(g4, true, m)
		}
	case "spmv":
		add(g1, false, false)
		add(g2, false, false)
		add(g4, false, false)
		add(g2, true, false)
		add(g4, true, false)
	}
	out = append(out, acceptExtra[bench]...)
	return out
}

// cdna3 entries of cases.go (lines 686-925).
var acceptExtra = map[string][]AcceptClass{
	"spmv": {{GPUs: []int{1}, Arch: "cdna3", GPUType: "r9nano", ParallelToo: true}},
	"fft":  {{GPUs: []int{1}, Arch: "cdna3", GPUType: "r9nano", ParallelToo: true}},
	"bfs":  {{GPUs: []int{1}, Arch: "cdna3", GPUType: "r9nano", ParallelToo: true}},
	"nw":   {{GPUs: []int{1}, Arch: "cdna3", GPUType: "r9nano", ParallelToo: true}},
	"stencil2d": {
		{GPUs: []int{1}, Arch: "cdna3", GPUType: "r9nano", ParallelToo: true},
		{GPUs: []int{1, 2}, UnifiedGPU: true, Arch: "cdna3", GPUType: "r9nano"},
		{GPUs: []int{1, 2, 3, 4}, UnifiedGPU: true, Arch: "cdna3", GPUType: "r9nano"},
	},
	"vectoradd": {
		{GPUs: []int{1}, Arch: "cdna3", GPUType: "r9nano", ParallelToo: true},
		{GPUs: []int{1}, Timing: true, Arch: "cdna3", GPUType: "mi300a", ParallelToo: true},
		{GPUs: []int{1, 2}, Timing: true, UnifiedGPU: true, Arch: "cdna3", GPUType: "mi300a", ParallelToo: true},
		{GPUs: []int{1, 2, 3, 4}, Timing: true, UnifiedGPU: true, Arch: "cdna3", GPUType: "mi300a", ParallelToo: true},
	},
}

// ---------------------------------------------------------------- parent side

var workloadSeq int64

// RunWorkload runs one spec in a child process with a wall-clock limit.
func RunWorkload(spec WorkloadSpec, timeout time.Duration) WorkloadResult {
	res := WorkloadResult{Spec: spec}
	root := WorkloadDir
	if root == "" {
		root = os.TempDir()
	}
	if abs, err := filepath.Abs(root); err == nil {
		root = abs
	}
	dir := filepath.Join(root, fmt.Sprintf("wl-%d-%d", os.Getpid(), atomic.AddInt64(&workloadSeq, 1)))
	if err := os.MkdirAll(dir, 0o755); err != nil {
		res.Fault = "exit:mkdir"
		res.Log = err.Error()
		return res
	}
	defer os.RemoveAll(dir)

	specFile := filepath.Join(dir, "spec.json")
	resFile := filepath.Join(dir, "result.json")
	sb, _ := json.Marshal(spec)
	must(os.WriteFile(specFile, sb, 0o644))

	exe, err := os.Executable()
	if err != nil {
		exe = os.Args[0]
	}
	cmd := exec.Command(exe, "child", "workload", specFile, resFile)
	cmd.Dir = dir
	procs := "2"
	if spec.Parallel {
		procs = "4"
	}
	cmd.Env = append(os.Environ(), "GOMAXPROCS="+procs, "GOMEMLIMIT=6GiB")
	errFile, _ := os.Create(filepath.Join(dir, "stderr.txt"))
	cmd.Stdout = errFile
	cmd.Stderr = errFile

	start := time.Now()
	fault := ""
	if err := cmd.Start(); err != nil {
		fault = "exit:start"
	} else {
		done := make(chan error, 1)
		go func() { done <- cmd.Wait() }()
		select {
		case err := <-done:
			if err != nil {
				if ee, ok := err.(*exec.ExitError); ok {
					fault = fmt.Sprintf("exit:%d", ee.ExitCode())
				} else {
					fault = "exit:wait"
				}
			}
		case <-time.After(timeout):
			_ = cmd.Process.Kill()
			<-done
			fault = "hang"
		}
	}
	wall := time.Since(start).Milliseconds()
	if errFile != nil {
		errFile.Close()
	}

	if b, err := os.ReadFile(resFile); err == nil {
		var cr WorkloadResult
		if json.Unmarshal(b, &cr) == nil {
			res = cr
			res.Spec = spec
		}
	}
	res.WallMs = wall
	if fault != "" && res.Fault == "" {
		res.Fault = fault
	}
	if res.Fault == "" && res.Stage != "done" {
		res.Fault = "exit:0-early"
	}
	if res.Fault != "" || !res.VerifyOK {
		if b, err := os.ReadFile(filepath.Join(dir, "stderr.txt")); err == nil {
			res.Log = logTail(string(b), 5000)
		}
	}
	return res
}

// logTail keeps the head of a Go crash report (from "panic:" / "fatal error:") and the end of the log.
func logTail(s string, n int) string {
	s = strings.TrimSpace(s)
	if len(s) <= n {
		return s
	}
	head := ""
	for _, key := range []string{"panic:", "Panic:", "fatal error:"} {
		if i := strings.Index(s, key); i >= 0 && i < len(s)-n/2 {
			end := i + n/2
			if end > len(s) {
				end = len(s)
			}
			head = s[i:end] + " … "
			break
		}
	}
	return head + "…" + s[len(s)-n/2:]
}

// RunWorkloads runs the specs with at most `parallel` children at a time;
// results come back in spec order.
func RunWorkloads(specs []WorkloadSpec, parallel int, timeout time.Duration) []WorkloadResult {
	if parallel < 1 {
		parallel = 1
	}
	out := make([]WorkloadResult, len(specs))
	var wg sync.WaitGroup
	next := int64(-1)
	for w := 0; w < parallel && w < len(specs); w++ {
		wg.Add(1)
		go func() {
			defer wg.Done()
			for {
				i := int(atomic.AddInt64(&next, 1))
				if i >= len(specs) {
					return
				}
				out[i] = RunWorkload(specs[i], timeout)
			}
		}()
	}
	wg.Wait()
	return out
}

// ---------------------------------------------------------------- child side

func init() { childFuncs["workload"] = workloadChild }

// workloadWarmUp builds a platform of the spec's type, runs a small vectoradd on it and terminates it.
func workloadWarmUp(spec WorkloadSpec, dir string) {
	s := simulation.MakeBuilder().WithoutMonitoring().WithOutputFileName(filepath.Join(dir, "akita_warm")).Build()
	numGPUs := spec.GPUs[len(spec.GPUs)-1]
	a := archOf(spec.Arch)
	if spec.Timing {
		sampling.InitSampledEngine()
		gt := spec.GPUType
		if gt == "" {
			gt = "r9nano"
		}
		timingconfig.MakeBuilder().WithSimulation(s).WithNumGPUs(numGPUs).WithGPUType(gt).Build()
	} else {
		emusystem.MakeBuilder().WithSimulation(s).WithNumGPUs(numGPUs).WithArchitecture(a).Build()
	}
	drv := s.GetComponentByName("Driver").(*driver.Driver)
	def := benchByName("vectoradd")
	b := def.build(drv, a, cloneParams(def.sizes[0]))
	b.SelectGPU([]int{1})
	drv.Run()
	b.Run()
	drv.Terminate()
}

func workloadChild(args []string) {
	if len(args) < 2 {
		os.Exit(2)
	}
	specFile, resFile := args[0], args[1]
	var spec WorkloadSpec
	sb, err := os.ReadFile(specFile)
	if err == nil {
		err = json.Unmarshal(sb, &spec)
	}
	if err != nil {
		fmt.Fprintln(os.Stderr, "bad spec:", err)
		os.Exit(2)
	}
	dir := filepath.Dir(resFile)
	res := WorkloadResult{Spec: spec, Counters: map[string]float64{}, Stage: "build"}
	save := func() {
		b, _ := json.Marshal(res)
		tmp := resFile + ".tmp"
		if os.WriteFile(tmp, b, 0o644) == nil {
			_ = os.Rename(tmp, resFile)
		}
	}
	save()

	def := benchByName(spec.Bench)
	if def == nil {
		fmt.Fprintln(os.Stderr, "unknown benchmark", spec.Bench)
		os.Exit(2)
	}
	params := cloneParams(def.sizes[0])
	for k, v := range spec.Params {
		params[k] = v
	}
	if len(spec.GPUs) == 0 {
		spec.GPUs = []int{1}
	}
	log.SetFlags(log.Lshortfile)

	// --- optional warm-up (Knobs["warm"]): a complete small simulation (same platform type, vectoradd)
	// run to the end in THIS process before the measured one; a run must not depend on what ran
	// earlier in the same process (property C05)
	if spec.Knobs["warm"] != 0 {
		if f := catchMsg(func() { workloadWarmUp(spec, dir) }); f != "" {
			res.Counters["warm_fault"] = 1
		}
		res.Counters["warm"] = 1
	}

	// --- platform, as Runner.Init does
	bld := simulation.MakeBuilder().WithoutMonitoring().WithOutputFileName(filepath.Join(dir, "akita_sim"))
	if spec.Parallel {
		bld = bld.WithParallelEngine()
	}
	s := bld.Build()
	numGPUs := spec.GPUs[len(spec.GPUs)-1]
	a := archOf(spec.Arch)
	if spec.Timing {
		sampling.InitSampledEngine()
		gt := spec.GPUType
		if gt == "" {
			gt = "r9nano"
		}
		tb := timingconfig.MakeBuilder().WithSimulation(s).WithNumGPUs(numGPUs).WithGPUType(gt)
		if spec.Knobs["magicMemoryCopy"] != 0 {
			tb = tb.WithMagicMemoryCopy()
		}
		tb.Build()
	} else {
		eb := emusystem.MakeBuilder().WithSimulation(s).WithNumGPUs(numGPUs).WithArchitecture(a)
		if v := spec.Knobs["log2PageSize"]; v != 0 {
			eb = eb.WithLog2PageSize(uint64(v))
		}
		eb.Build()
	}
	drv := s.GetComponentByName("Driver").(*driver.Driver)
	gpuIDs := append([]int(nil), spec.GPUs...)
	if spec.UnifiedGPU {
		gpuIDs = []int{drv.CreateUnifiedGPU(nil, gpuIDs)}
	}

	var events int64
	s.GetEngine().AcceptHook(&eventCounter{n: &events})

	// --- benchmark, as amd/samples/<bench>/main.go + Runner.AddBenchmark do
	rand.Seed(spec.Seed)
	var b benchmarks.Benchmark
	if f := catchMsg(func() { b = def.build(drv, a, params) }); f != "" {
		res.Fault, res.VerifyMsg = "panic:"+classifyText(f), f
		save()
		os.Exit(0)
	}
	b.SelectGPU(gpuIDs)
	if spec.UnifiedMem {
		b.SetUnifiedMemory()
	}
	// Runner.Run with -verify: benchmarks whose check is the GPU-vs-CPU operator cross-check
	// (dnn layer benchmarks; their Verify() is empty) switch it on before Run(); a mismatch then
	// panics inside Run() and is reported as Fault "panic:…mismatch…".
	if pv, ok := b.(interface{ EnableVerification() }); ok {
		pv.EnableVerification()
	}

	drv.Run()
	res.Stage = "run"
	save()

	// Watchdog for the driver's known lost-wake-up races (property C12, not C01's subject): when
	// no engine event ran and the stage did not change for ~1.5 s while the benchmark is inside
	// Run() or the read-back, re-send the wake-ups (Driver.VerifKick). Counted in Counters["kicks"].
	var kicks, stageNo int64
	if spec.Knobs["noKick"] == 0 {
		go func() {
			lastEv, lastStage, idle := int64(-1), int64(-1), 0
			for {
				time.Sleep(500 * time.Millisecond)
				ev, st := atomic.LoadInt64(&events), atomic.LoadInt64(&stageNo)
				if st >= 2 {
					return
				}
				if ev == lastEv && st == lastStage {
					idle++
				} else {
					idle = 0
				}
				lastEv, lastStage = ev, st
				if idle >= 3 {
					atomic.AddInt64(&kicks, 1)
					drv.VerifKick()
					idle = 0
				}
			}
		}()
	}
	if f := catchMsg(b.Run); f != "" {
		res.Fault, res.VerifyMsg = "panic:"+classifyText(f), f
		save()
		os.Exit(0)
	}
	res.Ran = true
	res.SimTime = float64(s.GetEngine().CurrentTime())
	res.Counters["events"] = float64(atomic.LoadInt64(&events))
	res.Counters["kicks_run"] = float64(atomic.LoadInt64(&kicks))
	atomic.StoreInt64(&stageNo, 1)
	res.Stage = "dump"
	save()

	// --- read back every live buffer of every context, before Verify
	if spec.Knobs["noDump"] == 0 {
		rawLimit := uint64(256)
		if v, ok := spec.Knobs["rawLimit"]; ok {
			rawLimit = uint64(v)
		}
		ctxs := drv.VerifContexts()
		res.Counters["contexts"] = float64(len(ctxs))
		bytes := uint64(0)
		for ci, ctx := range ctxs {
			for _, vb := range ctx.VerifBuffers() {
				if vb.Freed || vb.Size == 0 {
					continue
				}
				data := make([]byte, vb.Size)
				drv.MemCopyD2H(ctx, data, driver.Ptr(vb.VAddr))
				d := BufDump{Ctx: ci, VAddr: vb.VAddr, Size: vb.Size, Hash: fnv(data)}
				if vb.Size <= rawLimit {
					d.Raw = data
				}
				res.Buffers = append(res.Buffers, d)
				bytes += vb.Size
			}
		}
		res.Counters["buffers"] = float64(len(res.Buffers))
		res.Counters["bytes"] = float64(bytes)
		res.Counters["simtime_after_dump"] = float64(s.GetEngine().CurrentTime())
		res.Counters["events_total"] = float64(atomic.LoadInt64(&events))
	}
	atomic.StoreInt64(&stageNo, 2)
	res.Counters["kicks"] = float64(atomic.LoadInt64(&kicks))
	res.Stage = "verify"
	save()

	// --- the benchmark's own oracle
	msg := catchMsg(b.Verify)
	res.VerifyOK = msg == ""
	res.VerifyMsg = msg
	res.Stage = "done"
	save()
	os.Exit(0)
}

type eventCounter struct{ n *int64 }

func (h *eventCounter) Func(ctx sim.HookCtx) {
	if ctx.Pos == sim.HookPosBeforeEvent {
		atomic.AddInt64(h.n, 1)
	}
}

// catchMsg runs f and returns the panic text ("" when f returned normally).
func catchMsg(f func()) (msg string) {
	defer func() {
		if e := recover(); e != nil {
			msg = fmt.Sprint(e)
			if msg == "" {
				msg = "panic"
			}
			if len(msg) > 400 {
				msg = msg[:400]
			}
		}
	}()
	f()
	return ""
}

func classifyText(s string) string {
	c := classifyPanic(s)
	return strings.TrimPrefix(c, "explicit:")
}

var _ = math.MaxInt32

// `<exe> child wl <bench> <arch> <mode> [k=v …] [knob:k=v …] [timeout=<s>]` runs one spec through RunWorkload and
// prints the result as JSON (mode: emu|timing|timing-mi300a, then .g<ids>[u][m][p], e.g. emu.g12u).
// It is the replay command printed next to oracle failures.
func init() { childFuncs["wl"] = workloadCLI }

func parseMode(spec *WorkloadSpec, mode string) {
	parts := strings.SplitN(mode, ".g", 2)
	spec.Timing = strings.HasPrefix(parts[0], "timing")
	if spec.Timing {
		spec.GPUType = "r9nano"
		if i := strings.Index(parts[0], "-"); i >= 0 {
			spec.GPUType = parts[0][i+1:]
		}
	}
	spec.GPUs = nil
	if len(parts) == 2 {
		for _, c := range parts[1] {
			switch {
			case c >= '1' && c <= '9':
				spec.GPUs = append(spec.GPUs, int(c-'0'))
			case c == 'u':
				spec.UnifiedGPU = true
			case c == 'm':
				spec.UnifiedMem = true
			case c == 'p':
				spec.Parallel = true
			}
		}
	}
	if len(spec.GPUs) == 0 {
		spec.GPUs = []int{1}
	}
}

func workloadCLI(args []string) {
	if len(args) < 3 {
		fmt.Fprintln(os.Stderr, "usage: child wl <bench> <arch> <mode> [k=v …] [knob:k=v …] [seed=<n>] [timeout=<s>]")
		os.Exit(2)
	}
	spec := WorkloadSpec{Bench: args[0], Arch: args[1], Params: map[string]int{}, Seed: 1}
	parseMode(&spec, args[2])
	timeout := 120
	for _, kv := range args[3:] {
		var k string
		var v int
		kv = strings.TrimPrefix(kv, "-")
		if i := strings.Index(kv, "="); i > 0 {
			k = kv[:i]
			fmt.Sscan(kv[i+1:], &v)
		}
		switch {
		case k == "timeout":
			timeout = v
		case k == "seed":
			spec.Seed = int64(v)
		case strings.HasPrefix(k, "knob:"):
			if spec.Knobs == nil {
				spec.Knobs = map[string]int{}
			}
			spec.Knobs[k[5:]] = v
		case k != "":
			spec.Params[k] = v
		}
	}
	WorkloadDir = os.Getenv("VERIF_WL_DIR")
	r := RunWorkload(spec, time.Duration(timeout)*time.Second)
	for i := range r.Buffers {
		r.Buffers[i].Raw = nil
	}
	b, _ := json.MarshalIndent(r, "", " ")
	fmt.Println(string(b))
}
