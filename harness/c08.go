package main

import (
	"encoding/binary"
	"fmt"
	"os"
	"runtime/debug"
	"sort"
	"strings"
	"time"

	"github.com/sarchlab/akita/v4/mem/vm"
	"github.com/sarchlab/akita/v4/sim"
	"github.com/sarchlab/mgpusim/v4/amd/driver"
	"github.com/sarchlab/mgpusim/v4/amd/emu"
	"github.com/sarchlab/mgpusim/v4/amd/insts"
	"github.com/sarchlab/mgpusim/v4/amd/kernels"
	"github.com/sarchlab/mgpusim/v4/amd/protocol"
	cpshim "github.com/sarchlab/mgpusim/v4/amd/timing/cp/verifshim"
	"github.com/sarchlab/mgpusim/v4/amd/timing/cu"
	"github.com/sarchlab/mgpusim/v4/amd/timing/wavefront"
)

// Property C08: the dispatch grid is partitioned exactly into work-groups,
// wavefronts and lanes. Case kinds (one line in, one line out):
//
//	c08 enum g=gx,gy,gz w=wx,wy,wz cu=<c1,..|-> gpu=<i> skip=<n>
//	    real GridBuilder (NumWG / Skip / NextWG until nil) with the real driver
//	    filter closure of GPU i for CU counts cu (no filter when cu=-)
//	c08 wg w=.. c=.. id=i,j,k v5=<0|1> en=<0..3>
//	    one work-group (i,j,k) with current size c of full size w: wavefronts
//	    (first:mask:count), SGPR work-group ids and a digest of v0..v2 of all 64
//	    lanes after the real register initialisation of both modes
//	c08 part g=.. w=.. cu=.. gpu=.. ncu=<P> fails=<bits>
//	    real partitionAlgorithm over P compute units; fails = outcome of the
//	    successive resource reservations (1 = refused), afterwards all succeed
//	c08 dist g=.. w=.. cu=..   real Driver.distributeWGToGPUs
func init() { register("C08", runC08) }

type c08Geo [3]int

func (g c08Geo) String() string { return fmt.Sprintf("%d,%d,%d", g[0], g[1], g[2]) }
func (g c08Geo) prod() int       { return g[0] * g[1] * g[2] }

func c08Packet(g, w c08Geo) *kernels.HsaKernelDispatchPacket {
	p := new(kernels.HsaKernelDispatchPacket)
	p.GridSizeX, p.GridSizeY, p.GridSizeZ = uint32(g[0]), uint32(g[1]), uint32(g[2])
	p.WorkgroupSizeX, p.WorkgroupSizeY, p.WorkgroupSizeZ = uint16(w[0]), uint16(w[1]), uint16(w[2])
	return p
}

func c08CUString(cus []int) string {
	if len(cus) == 0 {
		return "-"
	}
	s := make([]string, len(cus))
	for i, c := range cus {
		s[i] = fmt.Sprint(c)
	}
	return strings.Join(s, ",")
}

// ---- the real driver's multi-GPU split ------------------------------------------------

type c08Drv struct {
	d     *driver.Driver
	queue *driver.CommandQueue
}

var c08Drivers = map[string]*c08Drv{}

func c08Driver(cus []int) *c08Drv {
	key := c08CUString(cus)
	if d, ok := c08Drivers[key]; ok {
		return d
	}
	eng := &fakeEngine{}
	d := driver.MakeBuilder().WithEngine(eng).WithFreq(1 * sim.GHz).WithLog2PageSize(30).
		WithPageTable(vm.NewPageTable(30)).Build("Driver")
	ids := []int{}
	for i, c := range cus {
		port := sim.NewPort(nil, 4, 4, fmt.Sprintf("GPU[%d].CP", i+1))
		d.RegisterGPU(port, driver.DeviceProperties{CUCount: c, DRAMSize: 1 << 30})
		ids = append(ids, i+1)
	}
	ctx := d.Init()
	u := d.CreateUnifiedGPU(ctx, ids)
	d.SelectGPU(ctx, u)
	q := d.CreateCommandQueue(ctx)
	e := &c08Drv{d: d, queue: q}
	c08Drivers[key] = e
	return e
}

// c08UnifiedSplit returns the driver's cumulative ranges and per-GPU filters.
func c08UnifiedSplit(g, w c08Geo, cus []int) (dist []int, filters []kernels.WGFilterFunc, fault string) {
	fault = catch(func() {
		e := c08Driver(cus)
		dist, filters = e.d.VerifUnifiedLaunch(e.queue, *c08Packet(g, w))
	})
	if strings.Contains(fault, "divide_by_zero") {
		fault = "div0"
	} else if strings.Contains(fault, "not_all_wg_allocated") {
		fault = "not_all_allocated"
	}
	return
}

func c08Ints(l []int) string {
	s := make([]string, len(l))
	for i, v := range l {
		s[i] = fmt.Sprint(v)
	}
	return strings.Join(s, ",")
}

func c08NWG(g, w int) int { return (g-1)/w + 1 }

// c08ExpectedWGs is the specification: work-group coordinates in x-fastest order
// with their clipped sizes, restricted to flat ids in [lo,hi).
func c08ExpectedWGs(g, w c08Geo, lo, hi int) []string {
	nx, ny, nz := c08NWG(g[0], w[0]), c08NWG(g[1], w[1]), c08NWG(g[2], w[2])
	var out []string
	for k := 0; k < nz; k++ {
		for j := 0; j < ny; j++ {
			for i := 0; i < nx; i++ {
				f := (k*ny+j)*nx + i
				if f < lo || f >= hi {
					continue
				}
				out = append(out, fmt.Sprintf("%d.%d.%d/%d.%d.%d", i, j, k,
					c08Min(w[0], g[0]-i*w[0]), c08Min(w[1], g[1]-j*w[1]), c08Min(w[2], g[2]-k*w[2])))
			}
		}
	}
	return out
}

func c08Min(a, b int) int {
	if a < b {
		return a
	}
	return b
}

func c08WGString(wg *kernels.WorkGroup) string {
	return fmt.Sprintf("%d.%d.%d/%d.%d.%d", wg.IDX, wg.IDY, wg.IDZ, wg.CurrSizeX, wg.CurrSizeY, wg.CurrSizeZ)
}

// c08Enum runs one enumeration case and its oracles. It returns the produced list.
func c08Enum(r *Run, g, w c08Geo, cus []int, gpu, skip int) []string {
	line := fmt.Sprintf("c08 enum g=%s w=%s cu=%s gpu=%d skip=%d", g, w, c08CUString(cus), gpu, skip)
	var filter kernels.WGFilterFunc
	dstr := "-"
	total := c08NWG(g[0], w[0]) * c08NWG(g[1], w[1]) * c08NWG(g[2], w[2])
	lo, hi := 0, total
	if len(cus) > 0 {
		dist, filters, fault := c08UnifiedSplit(g, w, cus)
		if fault != "" {
			r.Case(line, "fault:"+fault)
			return nil
		}
		dstr = c08Ints(dist)
		lo, hi = dist[gpu], dist[gpu+1]
		if filters[gpu] == nil {
			r.Case(line, "d="+dstr+" nolaunch")
			r.Checked("enum.nolaunch")
			if lo < total && lo < hi {
				r.Failf("C08.filter.nolaunch", line, "GPU %d owns [%d,%d) of %d work-groups but no kernel is launched on it", gpu, lo, hi, total)
			}
			return nil
		}
		filter = filters[gpu]
	}
	b := kernels.NewGridBuilder()
	var n int
	var got []string
	fault := catch(func() {
		b.SetKernel(kernels.KernelLaunchInfo{CodeObject: &insts.KernelCodeObject{KernelCodeObjectMeta: &insts.KernelCodeObjectMeta{}}, Packet: c08Packet(g, w), WGFilter: filter})
		n = b.NumWG()
		b.Skip(skip)
		for {
			wg := b.NextWG()
			if wg == nil {
				break
			}
			got = append(got, c08WGString(wg))
			if len(got) > total+4 {
				panic("runaway enumeration")
			}
		}
		// after nil, further calls must stay nil
		if b.NextWG() != nil {
			got = append(got, "resurrected")
		}
	})
	if fault != "" {
		r.Case(line, "fault:"+fault)
		r.Failf("C08.enum.panic", line, "%s", fault)
		return nil
	}
	r.Case(line, fmt.Sprintf("d=%s n=%d wgs=%s", dstr, n, strings.Join(got, ";")))

	// oracle: against the direct specification
	exp := c08ExpectedWGs(g, w, lo, hi)
	r.Checked("enum")
	if n != len(exp) {
		r.Failf("C08.enum.count", line, "NumWG=%d but the filtered grid has %d work-groups", n, len(exp))
	}
	if skip < len(exp) {
		exp = exp[skip:]
	} else {
		exp = nil
	}
	if strings.Join(exp, ";") != strings.Join(got, ";") {
		r.Failf("C08.enum.order", line, "produced %d work-groups, expected %d; first difference at %d", len(got), len(exp), c08FirstDiff(got, exp))
	}
	return got
}

func c08FirstDiff(a, b []string) int {
	for i := 0; i < len(a) && i < len(b); i++ {
		if a[i] != b[i] {
			return i
		}
	}
	return c08Min(len(a), len(b))
}

// c08Multi: all GPUs of one CU vector — the filters must partition the work-groups.
func c08Multi(r *Run, g, w c08Geo, cus []int) {
	line := fmt.Sprintf("c08 multi g=%s w=%s cu=%s", g, w, c08CUString(cus))
	total := c08NWG(g[0], w[0]) * c08NWG(g[1], w[1]) * c08NWG(g[2], w[2])
	dist, _, fault := c08UnifiedSplit(g, w, cus)
	r.Case(fmt.Sprintf("c08 dist g=%s w=%s cu=%s", g, w, c08CUString(cus)), c08DistAnswer(dist, fault))
	if fault != "" {
		r.Failf("C08.wgdist.panic", line, "%s", fault)
		return
	}
	r.Checked("wgdist")
	ok := dist[0] == 0 && dist[len(dist)-1] >= total
	for i := 0; i+1 < len(dist); i++ {
		if dist[i] > dist[i+1] {
			ok = false
		}
	}
	if !ok {
		r.Failf("C08.wgdist.cover", line, "ranges %v do not cover [0,%d) consecutively", dist, total)
	}
	seen := map[string]int{}
	sum := 0
	for i := range cus {
		got := c08Enum(r, g, w, cus, i, 0)
		sum += len(got)
		for _, s := range got {
			seen[s]++
		}
	}
	all := c08ExpectedWGs(g, w, 0, total)
	r.Checked("filter.partition")
	bad := sum != len(all)
	for _, s := range all {
		if seen[s] != 1 {
			bad = true
		}
	}
	if bad {
		r.Failf("C08.filter.partition", line, "per-GPU enumerations produce %d work-groups, grid has %d; not a partition", sum, len(all))
	}
}

func c08DistAnswer(dist []int, fault string) string {
	if fault != "" {
		return "fault:" + fault
	}
	return "d=" + c08Ints(dist)
}

// ---- wavefronts and lane registers ------------------------------------------------------

func c08CodeObject(v5 bool, en int, sgprIDs bool) *insts.KernelCodeObject {
	co := &insts.KernelCodeObject{KernelCodeObjectMeta: &insts.KernelCodeObjectMeta{}}
	co.ComputePgmRsrc2 = uint32(en&3) << 11
	if sgprIDs {
		co.ComputePgmRsrc2 |= 7 << 7
	}
	if v5 {
		co.Version = insts.CodeObjectV5
	}
	return co
}

type c08LaneRegs struct {
	v    [64][3]uint32
	s    [3]uint32
	exec uint64
}

var c08EmuS, c08EmuV []byte

func c08EmuRegs(wf *kernels.Wavefront) c08LaneRegs {
	var o c08LaneRegs
	// same layout as emu.NewWavefront, with pooled register files
	if c08EmuS == nil {
		c08EmuS, c08EmuV = make([]byte, 4*102), make([]byte, 4*64*256)
	}
	ewf := &emu.Wavefront{Wavefront: wf, SRegFile: c08EmuS, VRegFile: c08EmuV}
	defer func() {
		for l := 0; l < 64; l++ {
			copy(c08EmuV[l*1024:l*1024+12], make([]byte, 12))
		}
		copy(c08EmuS[:64], make([]byte, 64))
	}()
	emu.VerifInitWfRegs(ewf)
	for l := 0; l < 64; l++ {
		for k := 0; k < 3; k++ {
			o.v[l][k] = binary.LittleEndian.Uint32(ewf.ReadReg(insts.VReg(k), 1, l))
		}
	}
	for k := 0; k < 3; k++ {
		o.s[k] = binary.LittleEndian.Uint32(ewf.ReadReg(insts.SReg(k), 1, 0))
	}
	o.exec = ewf.EXEC()
	return o
}

type c08TimingCUT struct {
	cu   *cu.ComputeUnit
	disp *cu.WfDispatcherImpl
}

func c08NewTimingCU() *c08TimingCUT {
	c := &cu.ComputeUnit{}
	c.SRegFile = cu.NewSimpleRegisterFile(4*3200, 0)
	c.VRegFile = []cu.RegisterFile{cu.NewSimpleRegisterFile(64*1024, 1024), cu.NewSimpleRegisterFile(64*1024, 1024)}
	return &c08TimingCUT{cu: c, disp: cu.NewWfDispatcher(c)}
}

func (t *c08TimingCUT) regs(wf *kernels.Wavefront, simd, voff, soff, npoison int) c08LaneRegs {
	var o c08LaneRegs
	twf := wavefront.NewWavefront(wf)
	twf.WG = wavefront.NewWorkGroup(wf.WG, nil)
	// the id registers the dispatcher has to initialise hold stale values of an earlier occupant
	// (hardware gives no guarantee about them): every lane of v0..v<npoison-1>
	poison := []byte{0xa5, 0x5a, 0xc3, 0x3c}
	for l := 0; l < 64; l++ {
		for k := 0; k < 3; k++ {
			d := poison
			if k >= npoison {
				d = []byte{0, 0, 0, 0} // not the dispatcher's to write: known clean
			}
			t.cu.VRegFile[simd].Write(cu.RegisterAccess{Reg: insts.VReg(k), RegCount: 1, LaneID: l, WaveOffset: voff, Data: d})
		}
	}
	t.disp.DispatchWf(twf, protocol.WfDispatchLocation{Wavefront: wf, SIMDID: simd, VGPROffset: voff, SGPROffset: soff})
	buf := make([]byte, 4)
	for l := 0; l < 64; l++ {
		for k := 0; k < 3; k++ {
			t.cu.VRegFile[simd].Read(cu.RegisterAccess{Reg: insts.VReg(k), RegCount: 1, LaneID: l, WaveOffset: voff, Data: buf})
			o.v[l][k] = binary.LittleEndian.Uint32(buf)
		}
	}
	for k := 0; k < 3; k++ {
		t.cu.SRegFile.Read(cu.RegisterAccess{Reg: insts.SReg(k), RegCount: 1, WaveOffset: soff, Data: buf})
		o.s[k] = binary.LittleEndian.Uint32(buf)
	}
	o.exec = twf.EXEC()
	// leave the register files clean for the next wavefront
	zero := make([]byte, 4)
	for l := 0; l < 64; l++ {
		for k := 0; k < 3; k++ {
			t.cu.VRegFile[simd].Write(cu.RegisterAccess{Reg: insts.VReg(k), RegCount: 1, LaneID: l, WaveOffset: voff, Data: zero})
		}
	}
	for k := 0; k < 3; k++ {
		t.cu.SRegFile.Write(cu.RegisterAccess{Reg: insts.SReg(k), RegCount: 1, WaveOffset: soff, Data: zero})
	}
	return o
}

func c08Mix(h uint64, v uint32) uint64 { return (h ^ uint64(v)) * 1099511628211 }

// c08IdsOf decodes the coordinates a kernel would read from the lane registers.
// have[k] tells which coordinates are available at all.
func c08IdsOf(v [3]uint32, v5 bool, en int) (id [3]int, have [3]bool) {
	if v5 {
		return [3]int{int(v[0] & 1023), int(v[0] >> 10 & 1023), int(v[0] >> 20 & 1023)}, [3]bool{true, true, true}
	}
	return [3]int{int(v[0]), int(v[1]), int(v[2])}, [3]bool{true, en > 0, en > 1}
}

// c08LaneOracle: multiset of ids over enabled lanes = items of the group.
func c08LaneOracle(r *Run, sig, line string, wg *kernels.WorkGroup, regs []c08LaneRegs, v5 bool, en int) {
	r.Checked(sig)
	want := map[[3]int]int{}
	_, have := c08IdsOf([3]uint32{}, v5, en)
	for z := 0; z < wg.CurrSizeZ; z++ {
		for y := 0; y < wg.CurrSizeY; y++ {
			for x := 0; x < wg.CurrSizeX; x++ {
				k := [3]int{x, 0, 0}
				if have[1] {
					k[1] = y
				}
				if have[2] {
					k[2] = z
				}
				want[k]++
			}
		}
	}
	got := map[[3]int]int{}
	for i, wf := range wg.Wavefronts {
		if regs[i].exec != wf.InitExecMask {
			r.Failf("C08."+sig+".exec", line, "wavefront %d: EXEC %016x but InitExecMask %016x", i, regs[i].exec, wf.InitExecMask)
			return
		}
		for l := 0; l < 64; l++ {
			if wf.InitExecMask>>uint(l)&1 == 0 {
				continue
			}
			id, _ := c08IdsOf(regs[i].v[l], v5, en)
			got[id]++
		}
	}
	for k, c := range got {
		if want[k] != c {
			suffix := ""
			if v5 {
				suffix = ".v5"
			}
			outside := k[0] >= wg.CurrSizeX || k[1] >= wg.CurrSizeY || k[2] >= wg.CurrSizeZ
			r.Failf("C08."+sig+suffix, line, "coordinate %v initialised on %d enabled lane(s), expected %d (outside group: %v); group %s", k, c, want[k], outside, c08WGString(wg))
			return
		}
	}
	for k, c := range want {
		if got[k] != c {
			suffix := ""
			if v5 {
				suffix = ".v5"
			}
			r.Failf("C08."+sig+suffix, line, "work-item %v is executed by %d enabled lane(s) with its own ids, expected %d; group %s", k, got[k], c, c08WGString(wg))
			return
		}
	}
}

var c08TimingCU *c08TimingCUT

func c08WG(r *Run, rng *Rng, w, c, id c08Geo, v5 bool, en int) {
	line := fmt.Sprintf("c08 wg w=%s c=%s id=%s v5=%d en=%d", w, c, id, c08B2i(v5), en)
	g := c08Geo{id[0]*w[0] + c[0], id[1]*w[1] + c[1], id[2]*w[2] + c[2]}
	co := c08CodeObject(v5, en, true)
	b := kernels.NewGridBuilder()
	var wg *kernels.WorkGroup
	var eregs, tregs []c08LaneRegs
	fault := catch(func() {
		if os.Getenv("C08_DEBUG") != "" {
			defer func() {
				if e := recover(); e != nil {
					debug.PrintStack()
					panic(e)
				}
			}()
		}
		b.SetKernel(kernels.KernelLaunchInfo{CodeObject: co, Packet: c08Packet(g, w), PacketAddr: 0x1000})
		b.Skip(b.NumWG() - 1)
		wg = b.NextWG()
		if c08TimingCU == nil {
			c08TimingCU = c08NewTimingCU()
		}
		simd, voff, soff := rng.Intn(2), 4*rng.Intn(200), 4*rng.Intn(3000)
		for _, wf := range wg.Wavefronts {
			eregs = append(eregs, c08EmuRegs(wf))
			np := en + 1 // registers the code object enables: v0..v<en>
			if v5 {
				np = 1 // packed ids live in v0
			}
			tregs = append(tregs, c08TimingCU.regs(wf, simd, voff, soff, np))
		}
	})
	if fault != "" {
		r.Case(line, "fault:"+fault)
		r.Failf("C08.lanes.panic", line, "%s", fault)
		return
	}
	var wfs []string
	he, ht := uint64(14695981039346656037), uint64(14695981039346656037)
	items := 0
	for i, wf := range wg.Wavefronts {
		wfs = append(wfs, fmt.Sprintf("%d:%016x:%d", wf.FirstWiFlatID, wf.InitExecMask, len(wf.WorkItems)))
		items += len(wf.WorkItems)
		for l := 0; l < 64; l++ {
			for k := 0; k < 3; k++ {
				he = c08Mix(he, eregs[i].v[l][k])
				ht = c08Mix(ht, tregs[i].v[l][k])
			}
		}
	}
	se, st := eregs[0].s, tregs[0].s
	r.Case(line, fmt.Sprintf("wg=%s wfs=%s sg=%d.%d.%d/%d.%d.%d emu=%x tim=%x", c08WGString(wg), strings.Join(wfs, ","),
		se[0], se[1], se[2], st[0], st[1], st[2], he, ht))

	// oracles
	r.Checked("lanes.structure")
	if wg.IDX != id[0] || wg.IDY != id[1] || wg.IDZ != id[2] || wg.CurrSizeX != c[0] || wg.CurrSizeY != c[1] || wg.CurrSizeZ != c[2] {
		r.Failf("C08.enum.size", line, "last work-group is %s", c08WGString(wg))
	}
	if items != c.prod() || len(wg.WorkItems) != c.prod() {
		r.Failf("C08.lanes.items", line, "wavefronts hold %d work-items, group has %d (spawned %d)", items, c.prod(), len(wg.WorkItems))
	}
	pop := 0
	for _, wf := range wg.Wavefronts {
		for l := 0; l < 64; l++ {
			pop += int(wf.InitExecMask >> uint(l) & 1)
		}
		// every member work-item sits on the lane FirstWiFlatID+lane = its flattened id
		for _, wi := range wf.WorkItems {
			l := wi.FlattenedID() - wf.FirstWiFlatID
			if l < 0 || l >= 64 || wf.InitExecMask>>uint(l)&1 == 0 {
				r.Failf("C08.lanes.member", line, "work-item (%d,%d,%d) flat id %d is a member of the wavefront starting at %d with mask %016x but has no enabled lane there",
					wi.IDX, wi.IDY, wi.IDZ, wi.FlattenedID(), wf.FirstWiFlatID, wf.InitExecMask)
				break
			}
		}
	}
	if len(wg.Wavefronts) > (w.prod()+63)/64 {
		// the dispatcher's latency table and the CU resource masks assume at most ceil(|wg|/64) wavefronts
		r.Failf("C08.lanes.wfcount", line, "%d wavefronts for a work-group of %d work-items", len(wg.Wavefronts), w.prod())
	}
	if pop != c.prod() {
		r.Failf("C08.lanes.mask", line, "%d lanes enabled for %d work-items", pop, c.prod())
	}
	for i := range eregs {
		if eregs[i].s != [3]uint32{uint32(id[0]), uint32(id[1]), uint32(id[2])} || tregs[i].s != eregs[i].s {
			r.Failf("C08.lanes.wgid", line, "SGPR work-group ids emu=%v timing=%v want %v", eregs[i].s, tregs[i].s, id)
			break
		}
	}
	c08LaneOracle(r, "lanes.emu", line, wg, eregs, v5, en)
	c08LaneOracle(r, "lanes.timing", line, wg, tregs, v5, en)
	r.Count(fmt.Sprintf("wg:dims=%d", c08Dims(w)))
	if c != w {
		r.Count("wg:partial")
		if w[0]&(w[0]-1) != 0 {
			r.Count("wg:partial-nonpow2-row")
		}
	}
}

func c08Dims(w c08Geo) int {
	d := 0
	for _, v := range w {
		if v > 1 {
			d++
		}
	}
	return d
}

func c08B2i(b bool) int {
	if b {
		return 1
	}
	return 0
}

// c08Grid: whole-grid oracle — the multiset of global ids over enabled lanes equals the grid.
func c08Grid(r *Run, g, w c08Geo, v5 bool, timing bool) {
	mode := "emu"
	if timing {
		mode = "timing"
	}
	line := fmt.Sprintf("c08 grid g=%s w=%s v5=%d mode=%s", g, w, c08B2i(v5), mode)
	co := c08CodeObject(v5, 2, true)
	cnt := make([]uint8, g.prod())
	var bad string
	fault := catch(func() {
		b := kernels.NewGridBuilder()
		b.SetKernel(kernels.KernelLaunchInfo{CodeObject: co, Packet: c08Packet(g, w)})
		if c08TimingCU == nil {
			c08TimingCU = c08NewTimingCU()
		}
		for {
			wg := b.NextWG()
			if wg == nil {
				break
			}
			for _, wf := range wg.Wavefronts {
				var lr c08LaneRegs
				if timing {
					np := 3 // this code object enables all three id registers
					if v5 {
						np = 1
					}
					lr = c08TimingCU.regs(wf, 0, 0, 0, np)
				} else {
					lr = c08EmuRegs(wf)
				}
				for l := 0; l < 64; l++ {
					if lr.exec>>uint(l)&1 == 0 {
						continue
					}
					id, _ := c08IdsOf(lr.v[l], v5, 2)
					X := int(lr.s[0])*w[0] + id[0]
					Y := int(lr.s[1])*w[1] + id[1]
					Z := int(lr.s[2])*w[2] + id[2]
					if X >= g[0] || Y >= g[1] || Z >= g[2] {
						if bad == "" {
							bad = fmt.Sprintf("an enabled lane of group %s is initialised to global id (%d,%d,%d) outside the grid", c08WGString(wg), X, Y, Z)
						}
						continue
					}
					cnt[(Z*g[1]+Y)*g[0]+X]++
				}
			}
		}
	})
	r.Checked("grid." + mode)
	sig := "C08.grid.cover." + mode
	if v5 {
		sig += ".v5"
	}
	if fault != "" {
		r.Failf("C08.grid.panic", line, "%s", fault)
		return
	}
	if bad != "" {
		r.Failf(sig, line, "%s", bad)
		return
	}
	for i, c := range cnt {
		if c != 1 {
			r.Failf(sig, line, "global id (%d,%d,%d) is executed %d times", i%g[0], i/g[0]%g[1], i/(g[0]*g[1]), c)
			return
		}
	}
}

// ---- partition algorithm -----------------------------------------------------------------

func c08Part(r *Run, g, w c08Geo, cus []int, gpu, ncu int, fails string) {
	line := fmt.Sprintf("c08 part g=%s w=%s cu=%s gpu=%d ncu=%d fails=%s", g, w, c08CUString(cus), gpu, ncu, fails)
	var filter kernels.WGFilterFunc
	total := c08NWG(g[0], w[0]) * c08NWG(g[1], w[1]) * c08NWG(g[2], w[2])
	lo, hi := 0, total
	if len(cus) > 0 {
		dist, filters, fault := c08UnifiedSplit(g, w, cus)
		if fault != "" || filters[gpu] == nil {
			return
		}
		filter = filters[gpu]
		lo, hi = dist[gpu], dist[gpu+1]
	}
	pos := 0
	allOK := !strings.Contains(fails, "1")
	p := cpshim.NewPartition(ncu, func(cu int) bool {
		if pos < len(fails) {
			pos++
			return fails[pos-1] == '0'
		}
		return true
	})
	var seq []string
	perCU := make([][]string, ncu)
	n := 0
	ok, fault := withTimeout(20*time.Second, func() {
		p.StartNewKernel(kernels.KernelLaunchInfo{CodeObject: c08CodeObject(false, 0, false), Packet: c08Packet(g, w), WGFilter: filter})
		n = p.NumWG()
		for steps := 0; p.HasNext() && steps < 4*total+len(fails)+16; steps++ {
			d := p.Next()
			if !d.Valid {
				seq = append(seq, "-")
				continue
			}
			seq = append(seq, fmt.Sprintf("%d:%s", d.CU, c08WGString(d.WG)))
			perCU[d.CU] = append(perCU[d.CU], c08WGString(d.WG))
		}
		if p.HasNext() {
			seq = append(seq, "stuck")
		}
	})
	if !ok || fault != "" {
		r.Case(line, "fault:"+fault)
		r.Failf("C08.partition.panic", line, "%s", fault)
		return
	}
	r.Case(line, fmt.Sprintf("n=%d seq=%s", n, strings.Join(seq, ";")))
	r.Checked("partition")
	exp := c08ExpectedWGs(g, w, lo, hi)
	seen := map[string]int{}
	cnt := 0
	for _, l := range perCU {
		for _, s := range l {
			seen[s]++
			cnt++
		}
	}
	bad := cnt != len(exp)
	for _, s := range exp {
		if seen[s] != 1 {
			bad = true
		}
	}
	if bad {
		r.Failf("C08.partition.cover", line, "dispatched %d work-groups, the (filtered) grid has %d; some missing or repeated", cnt, len(exp))
	}
	if allOK && !bad {
		per := 1
		if len(exp) > 0 {
			per = (len(exp)-1)/ncu + 1
		}
		for i := 0; i < ncu; i++ {
			a, b := c08Min(i*per, len(exp)), c08Min((i+1)*per, len(exp))
			if strings.Join(perCU[i], ";") != strings.Join(exp[a:b], ";") {
				r.Failf("C08.partition.ranges", line, "CU %d received %d work-groups, expected the range [%d,%d)", i, len(perCU[i]), a, b)
				break
			}
		}
	}
}

// ---- generators -------------------------------------------------------------------------

var c08CUChoices = []int{1, 1, 2, 3, 4, 5, 8, 16, 36, 60, 64}

func c08RandCUs(rng *Rng) []int {
	n := rng.Range(1, 4)
	cus := make([]int, n)
	for i := range cus {
		cus[i] = c08CUChoices[rng.Intn(len(c08CUChoices))]
	}
	return cus
}

func c08NearPow2(rng *Rng, max int) int {
	for {
		v := 1<<uint(rng.Intn(11)) + rng.Range(-1, 1)
		if v >= 1 && v <= max {
			return v
		}
	}
}

// c08RandWG draws work-group sizes with product <= 1024.
func c08RandWG(rng *Rng, dims int) c08Geo {
	for {
		w := c08Geo{1, 1, 1}
		for d := 0; d < dims; d++ {
			switch rng.Intn(4) {
			case 0:
				w[d] = c08NearPow2(rng, 1024)
			case 1:
				w[d] = rng.Range(1, 12)
			case 2:
				w[d] = rng.Pick(3, 5, 6, 7, 10, 12, 20, 24, 30, 48, 50, 63, 65, 96, 100, 127, 129, 192, 255, 257)
			default:
				w[d] = rng.Range(1, 300)
			}
		}
		if rng.Chance(30) { // shuffle axes so that y/z-only shapes occur
			p := rng.Perm(3)
			w = c08Geo{w[p[0]], w[p[1]], w[p[2]]}
		}
		if w.prod() <= 1024 {
			return w
		}
	}
}

func c08RandCur(rng *Rng, w c08Geo) c08Geo {
	c := w
	for d := 0; d < 3; d++ {
		switch rng.Intn(5) {
		case 0, 1:
		case 2:
			c[d] = 1
		case 3:
			c[d] = c08Max(1, w[d]-1)
		default:
			c[d] = rng.Range(1, w[d])
		}
	}
	return c
}

func c08Max(a, b int) int {
	if a > b {
		return a
	}
	return b
}

// c08RandGrid draws a grid for w with at most maxWG work-groups and <= 300 per axis.
func c08RandGrid(rng *Rng, w c08Geo, maxWG int) c08Geo {
	for {
		g := c08Geo{}
		for d := 0; d < 3; d++ {
			if w[d] > 300 {
				g[d] = rng.Range(1, 300)
				continue
			}
			switch rng.Intn(4) {
			case 0:
				g[d] = c08Min(300, w[d]*rng.Range(1, 6))
			case 1:
				g[d] = c08Min(300, w[d]*rng.Range(0, 5)+rng.Range(1, w[d]))
			case 2:
				g[d] = c08NearPow2(rng, 300)
			default:
				g[d] = rng.Range(1, c08Min(300, w[d]*6))
			}
		}
		if c08NWG(g[0], w[0])*c08NWG(g[1], w[1])*c08NWG(g[2], w[2]) <= maxWG {
			return g
		}
	}
}

func c08RandFails(rng *Rng, n int) string {
	if rng.Chance(35) {
		return "0"
	}
	b := make([]byte, rng.Range(1, n))
	p := rng.Pick(10, 30, 60, 90)
	for i := range b {
		b[i] = '0'
		if rng.Chance(p) {
			b[i] = '1'
		}
	}
	return string(b)
}

func runC08(r *Run, rng *Rng, replay string) {
	thorough := r.Tier == "thorough"
	sim.GetIDGenerator()
	t0 := time.Now()
	lap := func(what string) {
		if os.Getenv("C08_DEBUG") != "" {
			fmt.Fprintf(os.Stderr, "[c08] %s: %v\n", what, time.Since(t0))
		}
		t0 = time.Now()
	}

	// 0. the wavefront-formation witness of DESIGN §4 (grid 58x4, work-group 48x4) and relatives
	for _, wc := range [][2]c08Geo{{{48, 4, 1}, {10, 4, 1}}, {{48, 4, 1}, {48, 4, 1}}, {{8, 8, 1}, {4, 4, 1}}, {{3, 5, 7}, {2, 5, 6}},
		{{100, 10, 1}, {33, 7, 1}}, {{10, 10, 10}, {9, 9, 9}}, {{65, 3, 1}, {64, 3, 1}}, {{24, 2, 2}, {20, 2, 2}}} {
		for _, v5 := range []bool{false, true} {
			c08WG(r, rng, wc[0], wc[1], c08Geo{1, 0, 0}, v5, 2)
		}
	}
	c08Grid(r, c08Geo{58, 4, 1}, c08Geo{48, 4, 1}, false, false)
	c08Grid(r, c08Geo{58, 4, 1}, c08Geo{48, 4, 1}, false, true)
	c08Grid(r, c08Geo{58, 4, 1}, c08Geo{48, 4, 1}, true, false)
	c08Grid(r, c08Geo{58, 4, 1}, c08Geo{48, 4, 1}, true, true)

	lap("witness")
	// 1. complete 1-D: all g <= 70, w <= 66 (enumeration) and all c <= w <= 66 (lanes)
	for g := 1; g <= 70; g++ {
		for w := 1; w <= 66; w++ {
			axis := 0
			if thorough {
				for axis = 0; axis < 3; axis++ {
					gg, ww := c08Geo{1, 1, 1}, c08Geo{1, 1, 1}
					gg[axis], ww[axis] = g, w
					c08Enum(r, gg, ww, nil, 0, 0)
				}
			} else {
				axis = (g + w) % 3
				gg, ww := c08Geo{1, 1, 1}, c08Geo{1, 1, 1}
				gg[axis], ww[axis] = g, w
				c08Enum(r, gg, ww, nil, 0, 0)
			}
			r.Count("enum:1d")
		}
	}
	for w := 1; w <= 66; w++ {
		for c := 1; c <= w; c++ {
			axis := (w + c) % 3
			if !thorough && axis != 0 && c != w && c%3 != 0 {
				axis = 0
			}
			ww, cc := c08Geo{1, 1, 1}, c08Geo{1, 1, 1}
			ww[axis], cc[axis] = w, c
			c08WG(r, rng, ww, cc, c08Geo{}, (w+c)%2 == 0, (w*c)%4)
		}
	}
	for _, g := range []c08Geo{{70, 1, 1}, {1, 70, 1}, {1, 1, 70}, {67, 3, 1}} {
		for _, w := range []c08Geo{{66, 1, 1}, {1, 66, 1}, {1, 1, 66}, {13, 2, 1}} {
			c08Grid(r, g, w, false, false)
			c08Grid(r, g, w, false, true)
		}
	}

	lap("1d")
	// 2. random work-groups: wavefront formation and lane registers
	nWG := 1200
	if thorough {
		nWG = 120000
	}
	for i := 0; i < nWG; i++ {
		dims := rng.Pick(1, 2, 2, 2, 3, 3)
		w := c08RandWG(rng, dims)
		c := c08RandCur(rng, w)
		id := c08Geo{}
		if rng.Chance(30) {
			id = c08Geo{rng.Intn(3), rng.Intn(3), rng.Intn(3)}
		}
		c08WG(r, rng, w, c, id, rng.Chance(35), rng.Pick(0, 1, 2, 2, 2, 3))
	}

	lap("wg")
	// 3. random enumerations with Skip, filters of 1-4 GPUs
	nEnum := 500
	if thorough {
		nEnum = 30000
	}
	for i := 0; i < nEnum; i++ {
		w := c08RandWG(rng, rng.Pick(1, 2, 2, 3, 3))
		g := c08RandGrid(rng, w, 400)
		total := c08NWG(g[0], w[0]) * c08NWG(g[1], w[1]) * c08NWG(g[2], w[2])
		switch rng.Intn(3) {
		case 0:
			c08Enum(r, g, w, nil, 0, rng.Pick(0, 0, 1, total-1, total, total+3, rng.Intn(total+1)))
			r.Count("enum:nofilter")
		case 1:
			cus := c08RandCUs(rng)
			c08Multi(r, g, w, cus)
			r.Count(fmt.Sprintf("enum:gpus=%d", len(cus)))
		default:
			cus := c08RandCUs(rng)
			c08Enum(r, g, w, cus, rng.Intn(len(cus)), rng.Pick(0, 1, 2, rng.Intn(total+1)))
			r.Count("enum:filter+skip")
		}
	}

	lap("enum")
	// 4. partition algorithm
	nPart := 300
	if thorough {
		nPart = 12000
	}
	for i := 0; i < nPart; i++ {
		w := c08RandWG(rng, rng.Pick(1, 2, 3))
		g := c08RandGrid(rng, w, 150)
		var cus []int
		gpu := 0
		if rng.Chance(40) {
			cus = c08RandCUs(rng)
			gpu = rng.Intn(len(cus))
		}
		ncu := rng.Pick(1, 2, 3, 4, 4, 7, 8, 16, 64)
		c08Part(r, g, w, cus, gpu, ncu, c08RandFails(rng, 60))
		r.Count("part")
	}

	lap("part")
	// 5. whole-grid oracle on random small grids (both modes)
	nGrid := 120
	if thorough {
		nGrid = 8000
	}
	for i := 0; i < nGrid; i++ {
		w := c08RandWG(rng, rng.Pick(1, 2, 2, 3))
		var g c08Geo
		for {
			g = c08RandGrid(rng, w, 64)
			if g.prod() <= 40000 {
				break
			}
		}
		v5 := rng.Chance(35)
		c08Grid(r, g, w, v5, rng.Bool())
		r.Count("grid")
	}

	lap("grid")
	// 6. malformed: no CUs at all
	for _, cus := range [][]int{{0}, {0, 0}} {
		g, w := c08Geo{10, 1, 1}, c08Geo{4, 1, 1}
		dist, _, fault := c08UnifiedSplit(g, w, cus)
		r.Case(fmt.Sprintf("c08 dist g=%s w=%s cu=%s", g, w, c08CUString(cus)), c08DistAnswer(dist, fault))
	}
	keys := []string{}
	for k := range c08Drivers {
		keys = append(keys, k)
	}
	sort.Strings(keys)
	r.Note("CU vectors used: %d", len(keys))
}
