package main

// Property C13, third deepening — tie for the ELF writer `Elf.writeElf` of MgpuModel/C13Frame.lean.
//
//   c13 wr <etype> <machine> <entry> <eflags> ; S <name> <type> <flags> <addr> <link> <data> ; … ; Y <name> <value> <size> <shndx> ; …
//
// The model answers with the hex of `writeElf spec` (or "illformed" when `specWF` fails).  The
// expected answer is the file written by c13writeElf below — an independent Go implementation of
// the documented layout.  The very same bytes then go to the real debug/elf and the real loader
// (`c13 elf` / `c13 loadb` lines: model of debug/elf vs debug/elf on writer output), and the
// oracle C13.writer.bytes checks the real loader's answer against the description itself: the
// bytes of kernel i are text[value-addr : +size] of the spec, whatever the writer did.

import (
	"encoding/binary"
	"fmt"
	"strings"
)

type c13wSec struct {
	name                    []byte
	typ, flags, addr, link uint64
	data                    []byte
}

type c13wSym struct {
	name        []byte
	value, size uint64
	shndx       uint16
}

func c13writeElf(etype, machine uint16, entry uint64, eflags uint32, secs []c13wSec, syms []c13wSym) []byte {
	le := binary.LittleEndian
	symtab := make([]byte, 24)
	strtab := []byte{0}
	for _, s := range syms {
		e := make([]byte, 24)
		le.PutUint32(e[0:], uint32(len(strtab)))
		e[4] = 0x12
		le.PutUint16(e[6:], s.shndx)
		le.PutUint64(e[8:], s.value)
		le.PutUint64(e[16:], s.size)
		symtab = append(symtab, e...)
		strtab = append(strtab, s.name...)
		strtab = append(strtab, 0)
	}
	all := []c13wSec{{}}
	all = append(all, secs...)
	all = append(all,
		c13wSec{name: []byte(".symtab"), typ: 2, link: uint64(len(secs) + 2), data: symtab},
		c13wSec{name: []byte(".strtab"), typ: 3, data: strtab},
		c13wSec{name: []byte(".shstrtab"), typ: 3})
	var shstr []byte
	for _, s := range all {
		shstr = append(shstr, s.name...)
		shstr = append(shstr, 0)
	}
	all[len(all)-1].data = shstr
	n := len(all)
	out := make([]byte, 64+64*n)
	copy(out, []byte{0x7f, 'E', 'L', 'F', 2, 1, 1})
	le.PutUint16(out[16:], etype)
	le.PutUint16(out[18:], machine)
	le.PutUint32(out[20:], 1)
	le.PutUint64(out[24:], entry)
	le.PutUint64(out[40:], 64)
	le.PutUint32(out[48:], eflags)
	le.PutUint16(out[52:], 64)
	le.PutUint16(out[58:], 64)
	le.PutUint16(out[60:], uint16(n))
	le.PutUint16(out[62:], uint16(n-1))
	nameOff, dataOff := 0, 64+64*n
	for i, s := range all {
		h := out[64+64*i:]
		le.PutUint32(h[0:], uint32(nameOff))
		le.PutUint32(h[4:], uint32(s.typ))
		le.PutUint64(h[8:], s.flags)
		le.PutUint64(h[16:], s.addr)
		le.PutUint64(h[24:], uint64(dataOff))
		le.PutUint64(h[32:], uint64(len(s.data)))
		le.PutUint32(h[40:], uint32(s.link))
		nameOff += len(s.name) + 1
		dataOff += len(s.data)
	}
	for _, s := range all {
		out = append(out, s.data...)
	}
	return out
}

func c13hexOrE(b []byte) string {
	if len(b) == 0 {
		return "e"
	}
	return hexb(b)
}

func init() { register("C13", runC13Writer) }

func runC13Writer(r *Run, rng *Rng, replay string) {
	e := &c13env{r: r, srv: &c13server{}}
	defer e.srv.stop()
	n := 25
	if r.Tier == "thorough" {
		n = 250
	}
	for it := 0; it < n; it++ {
		// description: .text with 1..3 raw kernels (first byte 0 so that no header test passes),
		// optional .rodata with a descriptor of kernel 0, optional extra sections, any order
		nk := rng.Range(1, 3)
		textAddr := []uint64{0, 0x1000, 0x100000000, 0x7000000000000000}[rng.Intn(4)]
		roAddr := []uint64{0, 0x400, 0x200000000}[rng.Intn(3)]
		var text []byte
		type kern struct {
			name     string
			off, len int
		}
		var ks []kern
		for i := 0; i < nk; i++ {
			text = append(text, rng.Bytes(rng.Range(0, 6))...)
			b := rng.Bytes(rng.Range(1, 40))
			b[0] = 0
			ks = append(ks, kern{fmt.Sprintf("k%d_%d", it, i), len(text), len(b)})
			text = append(text, b...)
		}
		text = append(text, rng.Bytes(rng.Range(0, 5))...)
		withRo := rng.Chance(50)
		var secs []c13wSec
		textSec := c13wSec{name: []byte(".text"), typ: 1, flags: 6, addr: textAddr, data: text}
		roData := append(rng.Bytes(rng.Range(0, 9)), make([]byte, 64)...)
		roOff := len(roData) - 64
		copy(roData[roOff:], rng.Bytes(64))
		roSec := c13wSec{name: []byte(".rodata"), typ: 1, flags: 2, addr: roAddr, data: roData}
		extra := []c13wSec{
			{name: []byte(".note"), typ: 7, flags: 2, addr: 0x200, data: rng.Bytes(rng.Range(0, 12))},
			{name: []byte(".bss"), typ: 8, flags: 3, addr: 0x9000},
			{name: []byte(".comment"), typ: 1, link: uint64(rng.Intn(3)), data: rng.Bytes(rng.Range(0, 7))},
		}
		for _, x := range extra {
			if rng.Chance(40) {
				secs = append(secs, x)
			}
		}
		textIdx := rng.Intn(len(secs) + 1)
		secs = append(secs[:textIdx], append([]c13wSec{textSec}, secs[textIdx:]...)...)
		roIdx := -1
		if withRo {
			roIdx = rng.Intn(len(secs) + 1)
			secs = append(secs[:roIdx], append([]c13wSec{roSec}, secs[roIdx:]...)...)
			if roIdx <= textIdx {
				textIdx++
			}
		}
		var syms []c13wSym
		for _, k := range ks {
			syms = append(syms, c13wSym{name: []byte(k.name), value: textAddr + uint64(k.off), size: uint64(k.len), shndx: uint16(textIdx + 1)})
		}
		if withRo {
			syms = append(syms, c13wSym{name: []byte(ks[0].name + ".kd"), value: roAddr + uint64(roOff), size: 64, shndx: uint16(roIdx + 1)})
		}
		if rng.Chance(30) {
			syms = append(syms, c13wSym{name: []byte("unrelated"), value: rng.U64(), size: uint64(rng.Intn(9)), shndx: 0})
		}
		p := rng.Perm(len(syms))
		sh := make([]c13wSym, len(syms))
		for i, j := range p {
			sh[i] = syms[j]
		}
		syms = sh
		etype, machine, entry, eflags := uint16(rng.Pick(1, 3)), uint16(224), rng.U64()>>uint(rng.Intn(64)), uint32(rng.U64())
		raw := c13writeElf(etype, machine, entry, eflags, secs, syms)

		var sb strings.Builder
		fmt.Fprintf(&sb, "c13 wr %d %d %d %d", etype, machine, entry, eflags)
		for _, s := range secs {
			fmt.Fprintf(&sb, " ; S %s %d %d %d %d %s", c13hexOrE(s.name), s.typ, s.flags, s.addr, s.link, c13hexOrE(s.data))
		}
		for _, s := range syms {
			fmt.Fprintf(&sb, " ; Y %s %d %d %d", c13hexOrE(s.name), s.value, s.size, s.shndx)
		}
		r.Case(sb.String(), hexb(raw))
		r.Count("writer.spec")

		// the written file through the real debug/elf and the real loader
		ans, _, ok := c13elfAnswer(raw)
		if !ok {
			r.Failf("C13.writer.unmodelled", sb.String(), "the written file is outside the modelled class")
			continue
		}
		h := hexb(raw)
		r.Case("c13 elf "+h, ans)
		for _, k := range ks {
			res := e.srv.query("B", h, k.name)
			r.Case("c13 loadb n:"+k.name+" "+h, res)
			r.Checked("writer-bytes")
			data := text[k.off : k.off+k.len]
			want := fmt.Sprintf("ok v=5 sym=n:%s,%x,%x,%d data=%d:%016x ", k.name, textAddr+uint64(k.off), k.len, textIdx+1, len(data), fnv(data))
			if !strings.HasPrefix(res, want) {
				r.Failf("C13.writer.bytes", sb.String(), "kernel %s of the written file: loader answered %s, the description says %s…", k.name, res, want)
			}
		}
	}
}
