package main

// C18 — results do not depend on how work and data are spread over GPUs (partial).
//
// Proof-level pieces tied here:
//   * `c18 rdma …` scenarios run on the real rdma.Comp built by its Builder (five ports with a
//     no-op connection, port hooks record every Send / RetrieveIncoming in program order, the
//     verif hook exports the drain flags and both transaction tables after every tick);
//   * `c18 wg …` cases run Driver.distributeWGToGPUs + the real work-group filters of
//     processUnifiedMultiGPULaunchKernelCommand on a real driver with the given CU counts;
//   * `c18 own …` cases ask the real timing platform (2 GPUs): the allocator's owner of a physical
//     address, the RDMA address table's destination and every GPU's local/remote decision.
// Dynamic part (oracle only): small workloads on GPU sets {1},{1,2},{1,2,3,4} plain / unified,
// final data compared bit for bit with the single-GPU run (c18dyn.go).

import (
	"fmt"
	"io"
	"log"
	"strconv"
	"strings"

	"github.com/sarchlab/akita/v4/mem/mem"
	"github.com/sarchlab/akita/v4/mem/vm"
	"github.com/sarchlab/akita/v4/sim"
	"github.com/sarchlab/mgpusim/v4/amd/driver"
	"github.com/sarchlab/mgpusim/v4/amd/kernels"
	"github.com/sarchlab/mgpusim/v4/amd/timing/rdma"
)

func init() { register("C18", runC18) }

// ------------------------------------------------------------------ RDMA scenarios

type c18Req struct {
	idx      int
	ch       int // 0 = inside→outside, 1 = outside→inside
	src      int
	write    bool
	addr     uint64
	size     uint64
	data     []byte
	mask     []bool
	pid      vm.PID
	bad      bool
	msg      sim.Msg
	accepted bool
	fwd      int
	ans      int
	clone    string // ID of the forwarded clone
}

type c18Chan struct {
	name     string
	nextIdx  int
	reqs     []*c18Req
	byID     map[string]*c18Req // original ID -> request
	cloneNum map[string]int
	cloneOf  map[string]*c18Req // clone ID -> request (paired by adjacency Send→Retrieve)
	pendingF []string           // clones sent whose original has not been retrieved yet
	env      []mem.AccessReq    // clones taken by the environment, unanswered
	old      []mem.AccessReq    // clones already answered
	rspData  map[string][]byte  // clone ID -> data the environment delivered
	rspSeen  map[string]bool
	rspWrite map[string]bool
	ev       []string
	nFwd     int
	nAns     int
}

type c18Env struct {
	r        *Run
	line     string
	cap      int
	bank     uint64
	nb       int
	isz      uint64
	k        int
	lo, hi   uint64
	comp     *rdma.Comp
	ch       [2]*c18Chan
	reqIn    [2]sim.Port // where requests arrive
	reqOut   [2]sim.Port // where clones leave and replies arrive
	ctl      sim.Port
	cev      []string
	out      []string
	fault    string
	paused   bool // between a retrieved drain command and a sent restart acknowledgement
	nAck     int
	nRestart int
	drainCmd int
}

type c18Hook struct {
	e    *c18Env
	ch   int
	kind string // "req" (request-in / answer-out port), "fwd" (clone-out / reply-in port), "ctl"
}

func c18PlSig(write bool, addr, size uint64, data []byte, mask []bool, pid vm.PID) string {
	if !write {
		return fmt.Sprintf("r%x:%d:p%d", addr, size, pid)
	}
	ms := "-"
	if len(mask) > 0 {
		b := make([]byte, len(mask))
		for i, x := range mask {
			b[i] = '0'
			if x {
				b[i] = '1'
			}
		}
		ms = string(b)
	}
	return fmt.Sprintf("w%x:%s/%s:p%d", addr, hexb(data), ms, pid)
}

func c18PortNum(p sim.RemotePort) int {
	s := string(p)
	if s == "OTHER" {
		return 1000
	}
	i := strings.IndexAny(s, "0123456789")
	if i < 0 {
		return -1
	}
	j := i
	for j < len(s) && s[j] >= '0' && s[j] <= '9' {
		j++
	}
	v, err := strconv.Atoi(s[i:j])
	if err != nil {
		return -1
	}
	return v
}

func (h *c18Hook) Func(ctx sim.HookCtx) {
	e := h.e
	if h.kind == "ctl" {
		switch ctx.Pos {
		case sim.HookPosPortMsgRetrieveIncoming:
			switch ctx.Item.(type) {
			case *rdma.DrainReq:
				e.cev = append(e.cev, "Cd")
				e.paused = true
				e.drainCmd++
			case *rdma.RestartReq:
				e.cev = append(e.cev, "Cr")
			default:
				e.cev = append(e.cev, "C?")
			}
		case sim.HookPosPortMsgSend:
			m := ctx.Item.(sim.Msg)
			switch m.(type) {
			case *rdma.DrainRsp:
				e.cev = append(e.cev, fmt.Sprintf("Kd%d", c18PortNum(m.Meta().Dst)))
				e.onDrainAck()
			case *rdma.RestartRsp:
				e.cev = append(e.cev, fmt.Sprintf("Kr%d", c18PortNum(m.Meta().Dst)))
				e.paused = false
				e.nRestart++
			default:
				e.cev = append(e.cev, "K?")
			}
		}
		return
	}
	c := e.ch[h.ch]
	switch {
	case h.kind == "fwd" && ctx.Pos == sim.HookPosPortMsgSend:
		e.onForward(c, ctx.Item.(sim.Msg))
	case h.kind == "req" && ctx.Pos == sim.HookPosPortMsgRetrieveIncoming:
		e.onAccept(c, ctx.Item.(sim.Msg))
	case h.kind == "fwd" && ctx.Pos == sim.HookPosPortMsgRetrieveIncoming:
		id := "?"
		if rsp, ok := ctx.Item.(mem.AccessRsp); ok {
			id = numOf(c.cloneNum, rsp.GetRspTo())
		}
		c.ev = append(c.ev, "X"+id)
	case h.kind == "req" && ctx.Pos == sim.HookPosPortMsgSend:
		e.onAnswer(c, ctx.Item.(sim.Msg))
	}
}

// expected destination of a clone, computed from the configuration alone
func (e *c18Env) wantDst(ch int, addr uint64) int {
	if ch == 0 {
		return int(addr / e.bank)
	}
	if addr >= e.hi || addr < e.lo {
		return 1000
	}
	return int(addr / e.isz % uint64(e.k))
}

func (e *c18Env) onForward(c *c18Chan, m sim.Msg) {
	n := len(c.cloneNum)
	c.cloneNum[m.Meta().ID] = n
	sig := "?"
	switch r := m.(type) {
	case *mem.ReadReq:
		sig = c18PlSig(false, r.Address, r.AccessByteSize, nil, nil, r.PID)
	case *mem.WriteReq:
		sig = c18PlSig(true, r.Address, 0, r.Data, r.DirtyMask, r.PID)
	}
	c.ev = append(c.ev, fmt.Sprintf("F%d:%d:%s", n, c18PortNum(m.Meta().Dst), sig))
	c.pendingF = append(c.pendingF, m.Meta().ID)
	c.nFwd++
	if e.ch[0] == c && e.paused {
		e.r.Failf("C18.drain.forward-while-paused", e.line, "inside request forwarded between the drain command and the restart acknowledgement")
	}
}

func (e *c18Env) onAccept(c *c18Chan, m sim.Msg) {
	q := c.byID[m.Meta().ID]
	if q == nil {
		c.ev = append(c.ev, "A?")
		return
	}
	c.ev = append(c.ev, fmt.Sprintf("A%d", q.idx))
	e.r.Checked("accept")
	if q.accepted {
		e.r.Failf("C18.accept.twice", e.line, "%s request %d taken from its port twice", c.name, q.idx)
	}
	q.accepted = true
	if e.ch[0] == c && e.paused {
		e.r.Failf("C18.drain.consumed-while-paused", e.line, "inside request %d consumed between the drain command and the restart acknowledgement", q.idx)
	}
	// ---- oracle: forwarded exactly once, to the owner, payload unchanged
	if len(c.pendingF) != 1 {
		e.r.Failf("C18.forward.count", e.line, "%s request %d accepted with %d clones sent for it", c.name, q.idx, len(c.pendingF))
		c.pendingF = nil
		return
	}
	id := c.pendingF[0]
	c.pendingF = nil
	q.fwd++
	q.clone = id
	c.cloneOf[id] = q
	e.r.Checked("forward")
	cl := c18FindOutgoing(e.reqOut[q.ch], id)
	if cl == nil {
		e.r.Failf("C18.forward.lost", e.line, "%s request %d: clone not in the outgoing buffer", c.name, q.idx)
		return
	}
	if want := e.wantDst(q.ch, q.addr); c18PortNum(cl.Meta().Dst) != want {
		e.r.Failf("C18.forward.dst", e.line, "%s request %d addr %x forwarded to %s, owner is module %d", c.name, q.idx, q.addr, cl.Meta().Dst, want)
	}
	var sig, wsig string
	var pid vm.PID
	switch r := cl.(type) {
	case *mem.ReadReq:
		sig, pid = c18PlSig(false, r.Address, r.AccessByteSize, nil, nil, 0), r.PID
	case *mem.WriteReq:
		sig, pid = c18PlSig(true, r.Address, 0, r.Data, r.DirtyMask, 0), r.PID
	}
	wsig = c18PlSig(q.write, q.addr, q.size, q.data, q.mask, 0)
	if sig != wsig {
		e.r.Failf("C18.forward.payload", e.line, "%s request %d: forwarded %s, original %s", c.name, q.idx, sig, wsig)
	}
	if pid != q.pid {
		e.r.Failf("C18.payload.pid", e.line, "%s request %d: forwarded with PID %d, original PID %d", c.name, q.idx, pid, q.pid)
	}
}

// c18FindOutgoing looks a message up by ID among the messages still in the outgoing buffer.
// Akita ports only expose Peek; the harness keeps its own mirror instead.
var c18Mirror = map[sim.Port][]sim.Msg{}

func c18FindOutgoing(p sim.Port, id string) mem.AccessReq {
	for _, m := range c18Mirror[p] {
		if m.Meta().ID == id {
			if a, ok := m.(mem.AccessReq); ok {
				return a
			}
		}
	}
	return nil
}

type c18MirrorHook struct{ p sim.Port }

func (h *c18MirrorHook) Func(ctx sim.HookCtx) {
	switch ctx.Pos {
	case sim.HookPosPortMsgSend:
		c18Mirror[h.p] = append(c18Mirror[h.p], ctx.Item.(sim.Msg))
	case sim.HookPosPortMsgRetrieveOutgoing:
		if l := c18Mirror[h.p]; len(l) > 0 {
			c18Mirror[h.p] = l[1:]
		}
	}
}

func (e *c18Env) onAnswer(c *c18Chan, m sim.Msg) {
	var (
		rspTo string
		ds    = "?"
		data  []byte
		read  bool
	)
	switch r := m.(type) {
	case *mem.DataReadyRsp:
		rspTo, data, read = r.RespondTo, r.Data, true
		ds = "d" + hexb(r.Data)
	case *mem.WriteDoneRsp:
		rspTo = r.RespondTo
		ds = "w"
	}
	q := c.byID[rspTo]
	is := "?"
	if q != nil {
		is = strconv.Itoa(q.idx)
	}
	c.ev = append(c.ev, fmt.Sprintf("R%s:%d:%s", is, c18PortNum(m.Meta().Dst), ds))
	c.nAns++
	// ---- oracle: answered exactly once, to the originator, with the original ID and the reply's data
	e.r.Checked("answer")
	if q == nil {
		e.r.Failf("C18.reply.unknown", e.line, "%s: answer to an unknown request id", c.name)
		return
	}
	q.ans++
	if q.ans > 1 {
		e.r.Failf("C18.reply.twice", e.line, "%s request %d answered %d times", c.name, q.idx, q.ans)
	}
	if q.fwd == 0 {
		e.r.Failf("C18.reply.unforwarded", e.line, "%s request %d answered without having been forwarded", c.name, q.idx)
		return
	}
	if m.Meta().Dst != q.msg.Meta().Src {
		e.r.Failf("C18.reply.dst", e.line, "%s request %d answered to %s, originator is %s", c.name, q.idx, m.Meta().Dst, q.msg.Meta().Src)
	}
	if !c.rspSeen[q.clone] {
		e.r.Failf("C18.reply.early", e.line, "%s request %d answered before a reply to its clone was delivered", c.name, q.idx)
		return
	}
	if read == c.rspWrite[q.clone] {
		e.r.Failf("C18.reply.kind", e.line, "%s request %d: answer kind differs from the reply delivered (%s)", c.name, q.idx, ds)
	} else if read && hexb(data) != hexb(c.rspData[q.clone]) {
		e.r.Failf("C18.reply.data", e.line, "%s request %d: returned %s, reply carried %s", c.name, q.idx, hexb(data), hexb(c.rspData[q.clone]))
	}
}

func (e *c18Env) onDrainAck() {
	e.nAck++
	e.r.Checked("drain-ack")
	for _, c := range e.ch {
		if c.nFwd != c.nAns {
			e.r.Failf("C18.drain.ack-busy", e.line, "drain acknowledged with %d %s transaction(s) in flight", c.nFwd-c.nAns, c.name)
		}
	}
	if e.drainCmd == 0 {
		e.r.Failf("C18.drain.ack-unasked", e.line, "drain acknowledgement without a drain command")
	}
}

func c18Names(prefix string, n int) []sim.RemotePort {
	out := make([]sim.RemotePort, n)
	for i := range out {
		out[i] = sim.RemotePort(fmt.Sprintf("%s%d", prefix, i))
	}
	return out
}

func newC18Env(r *Run, line string, cfg map[string]string) *c18Env {
	e := &c18Env{r: r, line: line}
	num := func(k string, base int) uint64 {
		v, _ := strconv.ParseUint(cfg[k], base, 64)
		return v
	}
	e.cap = int(num("cap", 10))
	e.bank, e.nb = num("bank", 16), int(num("nb", 10))
	e.isz, e.k, e.lo, e.hi = num("isz", 16), int(num("k", 10)), num("lo", 16), num("hi", 16)
	ws := strings.Split(cfg["w"], ",")
	w := [4]int{}
	for i := range w {
		w[i], _ = strconv.Atoi(ws[i])
	}
	remote := &mem.BankedAddressPortMapper{BankSize: e.bank, LowModules: c18Names("B", e.nb)}
	local := &mem.InterleavedAddressPortMapper{UseAddressSpaceLimitation: true, LowAddress: e.lo, HighAddress: e.hi,
		InterleavingSize: e.isz, LowModules: c18Names("L", e.k), ModuleForOtherAddresses: "OTHER"}
	e.comp = rdma.MakeBuilder().WithEngine(&fakeEngine{}).WithFreq(1 * sim.GHz).WithBufferSize(e.cap).
		WithOutgoingReqPerCycle(w[0]).WithOutgoingRspPerCycle(w[1]).
		WithIncomingReqPerCycle(w[2]).WithIncomingRspPerCycle(w[3]).
		WithLocalModules(local).WithRemoteModules(remote).Build("RDMA")
	e.reqIn = [2]sim.Port{e.comp.RDMARequestInside, e.comp.RDMADataOutside}
	e.reqOut = [2]sim.Port{e.comp.RDMARequestOutside, e.comp.RDMADataInside}
	e.ctl = e.comp.CtrlPort
	conn := &fakeConn{name: "c18"}
	for i := 0; i < 2; i++ {
		e.ch[i] = &c18Chan{name: []string{"inside", "outside"}[i], byID: map[string]*c18Req{}, cloneNum: map[string]int{},
			cloneOf: map[string]*c18Req{}, rspData: map[string][]byte{}, rspSeen: map[string]bool{}, rspWrite: map[string]bool{}}
		e.reqIn[i].SetConnection(conn)
		e.reqOut[i].SetConnection(conn)
		delete(c18Mirror, e.reqOut[i])
		e.reqOut[i].AcceptHook(&c18MirrorHook{p: e.reqOut[i]})
		e.reqIn[i].AcceptHook(&c18Hook{e: e, ch: i, kind: "req"})
		e.reqOut[i].AcceptHook(&c18Hook{e: e, ch: i, kind: "fwd"})
	}
	e.ctl.SetConnection(conn)
	e.ctl.AcceptHook(&c18Hook{e: e, kind: "ctl"})
	return e
}

func (e *c18Env) close() {
	for i := 0; i < 2; i++ {
		delete(c18Mirror, e.reqOut[i])
	}
}


func (e *c18Env) stateSig() string {
	dr, pa, cur, fi, fo := e.comp.VerifC18State()
	f := func(c *c18Chan, l []rdma.VerifC18Tx) string {
		s := []string{}
		for _, t := range l {
			o := "?"
			if q := c.byID[t.OrigID]; q != nil {
				o = strconv.Itoa(q.idx)
			}
			s = append(s, o+">"+numOf(c.cloneNum, t.CloneID))
			// the table's own pairing must agree with the pairing seen on the ports
			e.r.Checked("table")
			if q := c.cloneOf[t.CloneID]; q == nil || q.msg.Meta().ID != t.OrigID {
				e.r.Failf("C18.table.mismatch", e.line, "%s table pairs clone %s with request %s, the ports showed another pairing", c.name, numOf(c.cloneNum, t.CloneID), o)
			}
		}
		if len(l) != c.nFwd-c.nAns {
			e.r.Failf("C18.table.size", e.line, "%s table has %d entries, %d forwarded - %d answered", c.name, len(l), c.nFwd, c.nAns)
		}
		return strings.Join(s, ",")
	}
	if len(fi)+len(fo) > 0 {
		e.r.Count("tick-end.inflight")
	}
	if dr {
		e.r.Count("tick-end.draining")
	}
	return "{d" + b01(dr) + "p" + b01(pa) + "c" + b01(cur) + ";" + f(e.ch[0], fi) + ";" + f(e.ch[1], fo) + "}"
}

func c18MemByte(a uint64) byte { return byte((a*13 + 5) % 256) }

func (e *c18Env) answer(ch int, m mem.AccessReq, port sim.Port) bool {
	c := e.ch[ch]
	var rsp sim.Msg
	var data []byte
	write := false
	switch r := m.(type) {
	case *mem.WriteReq:
		write = true
		rsp = mem.WriteDoneRspBuilder{}.WithSrc("ENV").WithDst(port.AsRemote()).WithRspTo(r.ID).Build()
	case *mem.ReadReq:
		data = make([]byte, r.AccessByteSize)
		for i := range data {
			data[i] = c18MemByte(r.Address + uint64(i))
		}
		rsp = mem.DataReadyRspBuilder{}.WithSrc("ENV").WithDst(port.AsRemote()).WithRspTo(r.ID).WithData(data).Build()
	}
	if err := port.Deliver(rsp); err != nil {
		return false
	}
	c.rspData[m.Meta().ID] = data
	c.rspSeen[m.Meta().ID] = true
	c.rspWrite[m.Meta().ID] = write
	return true
}

func c18Side(s string) int {
	if s == "i" {
		return 0
	}
	return 1
}

func (e *c18Env) take(p sim.Port, k int, sink func(sim.Msg)) string {
	n := 0
	for i := 0; i < k; i++ {
		m := p.RetrieveOutgoing()
		if m == nil {
			break
		}
		n++
		if sink != nil {
			sink(m)
		}
	}
	return fmt.Sprintf("d%d", n)
}

func c18Fault(f string) string {
	switch {
	case f == "nilderef" || f == "bounds":
		return f
	case strings.Contains(f, "not_found"):
		return "notfound"
	case strings.Contains(f, "cannot_process") || strings.Contains(f, "unknown_req") || strings.Contains(f, "cannot_clone"):
		return "badtype"
	case strings.Contains(f, "divide"):
		return "divzero"
	}
	return f
}

func (e *c18Env) op(toks []string) {
	argN := func(i int) int {
		v := 0
		if i < len(toks) {
			v, _ = strconv.Atoi(toks[i])
		}
		return v
	}
	switch toks[0] {
	case "qi", "qo":
		ch := 0
		if toks[0] == "qo" {
			ch = 1
		}
		c := e.ch[ch]
		q := &c18Req{idx: c.nextIdx, ch: ch, src: argN(1)}
		c.nextIdx++
		src := sim.RemotePort(fmt.Sprintf("S%d", q.src))
		dst := e.reqIn[ch].AsRemote()
		switch toks[2] {
		case "r":
			q.addr, _ = strconv.ParseUint(toks[3], 16, 64)
			q.size = uint64(argN(4))
			q.pid = vm.PID(argN(5))
			q.msg = mem.ReadReqBuilder{}.WithSrc(src).WithDst(dst).WithAddress(q.addr).WithByteSize(q.size).
				WithPID(q.pid).Build()
		case "w":
			q.write = true
			q.addr, _ = strconv.ParseUint(toks[3], 16, 64)
			q.data = make([]byte, len(toks[4])/2)
			for i := range q.data {
				v, _ := strconv.ParseUint(toks[4][2*i:2*i+2], 16, 8)
				q.data[i] = byte(v)
			}
			if toks[5] != "-" {
				for _, chr := range toks[5] {
					q.mask = append(q.mask, chr == '1')
				}
			}
			q.pid = vm.PID(argN(6))
			q.msg = mem.WriteReqBuilder{}.WithSrc(src).WithDst(dst).WithAddress(q.addr).WithData(q.data).
				WithDirtyMask(q.mask).WithPID(q.pid).Build()
		default:
			q.bad = true
			q.msg = rdma.DrainReqBuilder{}.WithSrc(src).WithDst(dst).Build()
		}
		c.reqs = append(c.reqs, q)
		// a request whose Deliver fails was never issued; it is not part of any oracle
		if err := e.reqIn[ch].Deliver(q.msg); err != nil {
			e.out = append(e.out, "-")
			e.r.Count("request.port-full")
			return
		}
		c.byID[q.msg.Meta().ID] = q
		e.out = append(e.out, "+")
	case "t":
		for _, c := range e.ch {
			c.ev = nil
			c.pendingF = nil
		}
		e.cev = nil
		p := false
		f := catch(func() { p = e.comp.Tick() })
		evs := "[" + strings.Join(e.ch[0].ev, ",") + "|" + strings.Join(e.ch[1].ev, ",") + "|" + strings.Join(e.cev, ",") + "]"
		for _, c := range e.ch {
			if len(c.pendingF) != 0 && f == "" {
				e.r.Failf("C18.forward.orphan", e.line, "%s: clone sent without taking a request from the port", c.name)
			}
		}
		if f != "" {
			e.fault = c18Fault(f)
			e.out = append(e.out, "fault:"+e.fault+evs)
			e.r.Count("fault." + e.fault)
			return
		}
		tok := "t0"
		if p {
			tok = "t1"
		}
		e.out = append(e.out, tok+evs+e.stateSig())
	case "x", "y":
		ch := c18Side(toks[1])
		c := e.ch[ch]
		lst := c.env
		if toks[0] == "y" {
			lst = c.old
		}
		if len(lst) == 0 {
			e.out = append(e.out, "none")
			return
		}
		j := argN(2) % len(lst)
		m := lst[j]
		if !e.answer(ch, m, e.reqOut[ch]) {
			e.out = append(e.out, "full")
			e.r.Count("reply.port-full")
			return
		}
		if toks[0] == "x" {
			c.env = append(c.env[:j:j], c.env[j+1:]...)
			c.old = append(c.old, m)
			if j != 0 {
				e.r.Count("reply.out-of-order")
			}
		} else {
			e.r.Count("reply.duplicate")
		}
		e.out = append(e.out, "ok"+numOf(c.cloneNum, m.Meta().ID))
	case "z":
		ch := c18Side(toks[1])
		m := rdma.DrainReqBuilder{}.WithSrc("ENV").WithDst(e.reqOut[ch].AsRemote()).Build()
		if err := e.reqOut[ch].Deliver(m); err != nil {
			e.out = append(e.out, "-")
			return
		}
		e.out = append(e.out, "+")
	case "f":
		ch := c18Side(toks[1])
		c := e.ch[ch]
		e.out = append(e.out, e.take(e.reqOut[ch], argN(2), func(m sim.Msg) { c.env = append(c.env, m.(mem.AccessReq)) }))
	case "r":
		ch := c18Side(toks[1])
		e.out = append(e.out, e.take(e.reqIn[ch], argN(2), nil))
	case "dc":
		e.out = append(e.out, e.take(e.ctl, argN(1), nil))
	case "d":
		k := argN(1)
		parts := []string{}
		for ch := 0; ch < 2; ch++ {
			c := e.ch[ch]
			parts = append(parts, e.take(e.reqOut[ch], k, func(m sim.Msg) { c.env = append(c.env, m.(mem.AccessReq)) }))
		}
		for ch := 0; ch < 2; ch++ {
			parts = append(parts, e.take(e.reqIn[ch], k, nil))
		}
		parts = append(parts, e.take(e.ctl, k, nil))
		e.out = append(e.out, strings.Join(parts, "/"))
	case "cd", "cr", "cb":
		var m sim.Msg
		src := sim.RemotePort(fmt.Sprintf("C%d", argN(1)))
		switch toks[0] {
		case "cd":
			m = rdma.DrainReqBuilder{}.WithSrc(src).WithDst(e.ctl.AsRemote()).Build()
		case "cr":
			m = rdma.RestartReqBuilder{}.WithSrc(src).WithDst(e.ctl.AsRemote()).Build()
		default:
			m = mem.ReadReqBuilder{}.WithSrc("C0").WithDst(e.ctl.AsRemote()).WithAddress(0).WithByteSize(4).Build()
		}
		if err := e.ctl.Deliver(m); err != nil {
			e.out = append(e.out, "-")
			return
		}
		e.out = append(e.out, "+")
	default:
		e.out = append(e.out, "bad")
	}
}

func (e *c18Env) endTok() string {
	return fmt.Sprintf("E fi=%d;ai=%d;fo=%d;ao=%d;k=%d;r=%d", e.ch[0].nFwd, e.ch[0].nAns, e.ch[1].nFwd, e.ch[1].nAns, e.nAck, e.nRestart)
}

// runC18Scenario executes one scenario line on the real engine. `closed` says the generator
// appended closing rounds (everything drained and answered): then nothing may be left in flight.
func runC18Scenario(r *Run, line string, closed bool) {
	parts := strings.Split(line, ";")
	head := strings.Fields(parts[0])
	cfg := map[string]string{}
	for _, t := range head[2:] {
		if i := strings.IndexByte(t, '='); i > 0 {
			cfg[t[:i]] = t[i+1:]
		}
	}
	e := newC18Env(r, line, cfg)
	defer e.close()
	for _, p := range parts[1:] {
		toks := strings.Fields(p)
		if len(toks) == 0 {
			continue
		}
		if e.fault != "" {
			break
		}
		e.op(toks)
	}
	e.out = append(e.out, e.endTok())
	r.Case(line, strings.Join(e.out, " "))
	r.Count("rdma.scenario")
	if e.fault != "" {
		return
	}
	// ---- scenario-level oracles
	for _, c := range e.ch {
		for _, q := range c.reqs {
			if !q.accepted {
				continue
			}
			r.Checked("once")
			if q.fwd != 1 {
				r.Failf("C18.forward.count", line, "%s request %d forwarded %d times", c.name, q.idx, q.fwd)
			}
			if q.ans > 1 {
				r.Failf("C18.reply.twice", line, "%s request %d answered %d times", c.name, q.idx, q.ans)
			}
			if closed && q.ans != 1 {
				r.Failf("C18.noloss", line, "%s request %d (addr %x) never answered although every clone was answered and every port drained", c.name, q.idx, q.addr)
			}
		}
	}
	if closed {
		r.Count("rdma.closed")
		if e.drainCmd > 0 && e.nAck == 0 {
			r.Failf("C18.drain.no-ack", line, "drain command never acknowledged although all transactions completed")
		}
	}
}

// ---- generator

type c18Gen struct {
	rng  *Rng
	ops  []string
	bank uint64
	nb   int
	own  int
	cap  int
	seq  int
}

func (g *c18Gen) add(s string) { g.ops = append(g.ops, s) }

func (g *c18Gen) payload(addr uint64) string {
	rng := g.rng
	pid := rng.Pick(0, 0, 0, 1, 3, 7)
	if rng.Chance(55) {
		return fmt.Sprintf("r %x %d %d", addr, rng.Pick(1, 4, 4, 8, 16, 64), pid)
	}
	n := rng.Pick(1, 4, 4, 8, 16)
	data := rng.Bytes(n)
	mask := "-"
	if rng.Chance(60) {
		b := make([]byte, n)
		for i := range b {
			b[i] = '0'
			if rng.Chance(60) {
				b[i] = '1'
			}
		}
		mask = string(b)
	}
	return fmt.Sprintf("w %x %s %s %d", addr, hexb(data), mask, pid)
}

// inside request: mostly to another GPU's bank, sometimes the same address twice
func (g *c18Gen) reqInside(malformed bool) {
	rng := g.rng
	b := rng.Intn(g.nb)
	if malformed && rng.Chance(15) {
		b = g.nb + rng.Intn(2)
	}
	off := uint64(rng.Intn(int(g.bank)))
	if rng.Chance(30) {
		off = uint64(rng.Pick(0, int(g.bank)-1, 64, 4))
	}
	g.add(fmt.Sprintf("qi %d %s", rng.Range(1, 4), g.payload(uint64(b)*g.bank+off)))
}

func (g *c18Gen) reqOutside() {
	rng := g.rng
	lo := uint64(g.own) * g.bank
	a := lo + uint64(rng.Intn(int(g.bank)))
	if rng.Chance(10) {
		a = uint64(rng.Intn(g.nb)) * g.bank
	}
	g.add(fmt.Sprintf("qo %d %s", rng.Range(5, 9), g.payload(a)))
}

func genC18Scenario(rng *Rng, style int, long bool) (string, bool) {
	g := &c18Gen{rng: rng, bank: 0x1000}
	g.cap = rng.Pick(1, 2, 2, 3, 4, 8)
	if style == 5 {
		g.cap = rng.Pick(1, 1, 2)
	}
	g.nb = rng.Pick(3, 5)
	g.own = rng.Range(1, g.nb-1)
	k := rng.Pick(1, 2, 4)
	w := fmt.Sprintf("%d,%d,%d,%d", rng.Pick(1, 1, 2, 3), rng.Pick(1, 1, 2, 3), rng.Pick(1, 1, 2, 3), rng.Pick(1, 1, 2, 3))
	if style == 9 && rng.Chance(20) {
		w = "0,1,1,0"
	}
	head := fmt.Sprintf("c18 rdma cap=%d w=%s bank=%x nb=%d isz=40 k=%d lo=%x hi=%x", g.cap, w, g.bank, g.nb, k,
		uint64(g.own)*g.bank, uint64(g.own+1)*g.bank)
	n := rng.Range(12, 40)
	if long {
		n = rng.Range(150, 400)
	}
	malformed := style == 9
	drained := false
	for i := 0; i < n; i++ {
		x := rng.Intn(100)
		switch style {
		case 1: // clone port rarely drained
			switch {
			case x < 30:
				g.reqInside(false)
			case x < 45:
				g.reqOutside()
			case x < 75:
				g.add("t")
			case x < 80:
				g.add(fmt.Sprintf("f %s %d", c18Pick(rng, "i", "o"), rng.Range(1, 2)))
			case x < 92:
				g.add(fmt.Sprintf("x %s %d", c18Pick(rng, "i", "o"), rng.Intn(8)))
			default:
				g.add(fmt.Sprintf("r %s %d", c18Pick(rng, "i", "o"), rng.Range(1, 3)))
			}
		case 2: // answer port rarely drained
			switch {
			case x < 25:
				g.reqInside(false)
			case x < 45:
				g.reqOutside()
			case x < 70:
				g.add("t")
			case x < 82:
				g.add(fmt.Sprintf("f %s %d", c18Pick(rng, "i", "o"), rng.Range(1, 4)))
			case x < 96:
				g.add(fmt.Sprintf("x %s %d", c18Pick(rng, "i", "o"), rng.Intn(8)))
			default:
				g.add(fmt.Sprintf("r %s 1", c18Pick(rng, "i", "o")))
			}
		case 3: // drain / restart points
			switch {
			case x < 22:
				g.reqInside(false)
			case x < 36:
				g.reqOutside()
			case x < 62:
				g.add("t")
			case x < 72:
				g.add(fmt.Sprintf("d %d", rng.Range(1, 4)))
			case x < 86:
				g.add(fmt.Sprintf("x %s %d", c18Pick(rng, "i", "o"), rng.Intn(8)))
			case x < 93:
				if !drained {
					g.add(fmt.Sprintf("cd %d", rng.Range(1, 3)))
					drained = true
				} else {
					g.add("t")
				}
			default:
				if drained && rng.Chance(70) {
					// well-behaved: restart only after the acknowledgement could have been sent
					for k := 0; k < 6; k++ {
						g.add("d 8")
						for j := 0; j < 4; j++ {
							g.add("x i 0")
							g.add("x o 0")
						}
						g.add("t")
					}
					g.add("t")
					g.add("dc 4")
					g.add(fmt.Sprintf("cr %d", rng.Range(1, 3)))
					drained = false
				} else {
					g.add("t")
				}
			}
		case 5: // control port rarely drained: drain / restart acknowledgements pile up while traffic goes on
			switch {
			case x < 14:
				g.reqOutside()
			case x < 24:
				g.reqInside(false)
			case x < 52:
				g.add("t")
			case x < 64:
				if !drained {
					g.add(fmt.Sprintf("cd %d", rng.Range(1, 3)))
					drained = true
				} else {
					g.add(fmt.Sprintf("cr %d", rng.Range(1, 3)))
					drained = false
				}
			case x < 74:
				g.add(fmt.Sprintf("x %s %d", c18Pick(rng, "i", "o"), rng.Intn(8)))
			case x < 84:
				g.add(fmt.Sprintf("f %s %d", c18Pick(rng, "i", "o"), rng.Range(1, 4)))
			case x < 92:
				g.add(fmt.Sprintf("r %s %d", c18Pick(rng, "i", "o"), rng.Range(1, 4)))
			case x < 96:
				g.add("dc 1")
			default:
				g.add("t")
			}
		case 4: // many requests, replies in random order
			switch {
			case x < 35:
				g.reqInside(false)
			case x < 50:
				g.reqOutside()
			case x < 70:
				g.add("t")
			case x < 80:
				g.add(fmt.Sprintf("f %s %d", c18Pick(rng, "i", "o"), rng.Range(2, 8)))
			case x < 94:
				g.add(fmt.Sprintf("x %s %d", c18Pick(rng, "i", "o"), rng.Intn(16)))
			default:
				g.add(fmt.Sprintf("d %d", rng.Range(1, 8)))
			}
		case 9: // malformed stream
			switch {
			case x < 20:
				g.reqInside(true)
			case x < 32:
				g.reqOutside()
			case x < 60:
				g.add("t")
			case x < 70:
				g.add(fmt.Sprintf("d %d", rng.Range(1, 4)))
			case x < 80:
				g.add(fmt.Sprintf("x %s %d", c18Pick(rng, "i", "o"), rng.Intn(8)))
			case x < 84:
				g.add(fmt.Sprintf("y %s %d", c18Pick(rng, "i", "o"), rng.Intn(8)))
			case x < 86:
				g.add(fmt.Sprintf("z %s", c18Pick(rng, "i", "o")))
			case x < 88:
				g.add(fmt.Sprintf("q%s 3 b", c18Pick(rng, "i", "o")))
			case x < 93:
				g.add(fmt.Sprintf("cr %d", rng.Range(1, 3)))
			case x < 98:
				g.add(fmt.Sprintf("cd %d", rng.Range(1, 3)))
			default:
				g.add("cb")
			}
		default: // uniform
			switch {
			case x < 22:
				g.reqInside(false)
			case x < 40:
				g.reqOutside()
			case x < 65:
				g.add("t")
			case x < 78:
				g.add(fmt.Sprintf("d %d", rng.Range(1, 4)))
			case x < 95:
				g.add(fmt.Sprintf("x %s %d", c18Pick(rng, "i", "o"), rng.Intn(8)))
			case x < 97:
				if !drained {
					g.add(fmt.Sprintf("cd %d", rng.Range(1, 3)))
					drained = true
				} else {
					g.add("t")
				}
			default:
				g.add(fmt.Sprintf("r %s %d", c18Pick(rng, "i", "o"), rng.Range(1, 3)))
			}
		}
	}
	closed := false
	if !malformed && rng.Chance(85) {
		closed = true
		rounds := 3*n/g.cap + 12
		if rounds > 260 {
			rounds = 260
		}
		for i := 0; i < rounds; i++ {
			g.add("d 8")
			for j := 0; j < g.cap && j < 4; j++ {
				g.add("x i 0")
				g.add("x o 0")
			}
			g.add("t")
			if drained && i == rounds/2 {
				// the drain acknowledgement must have been possible by now; restart
				g.add(fmt.Sprintf("cr %d", rng.Range(1, 3)))
				drained = false
			}
		}
		g.add("d 8")
	}
	return head + " ; " + strings.Join(g.ops, " ; "), closed
}

func c18Pick(r *Rng, a, b string) string {
	if r.Bool() {
		return a
	}
	return b
}

var c18Fixed = []string{
	// same address twice, replies swapped
	"c18 rdma cap=4 w=1,1,1,1 bank=1000 nb=3 isz=40 k=2 lo=1000 hi=2000 ; qi 1 r 2010 4 0 ; qi 2 r 2010 4 0 ; t ; f i 4 ; x i 1 ; x i 0 ; t ; t ; r i 4",
	// non-zero PID must survive the clone (both directions, read and write)
	"c18 rdma cap=4 w=1,1,1,1 bank=1000 nb=3 isz=40 k=2 lo=1000 hi=2000 ; qi 1 r 2010 4 5 ; qi 1 w 2020 a1b2c3d4 1011 6 ; qo 7 r 1044 8 3 ; qo 7 w 1080 0102 - 2 ; t ; t ; d 8",
	// drain while a transaction is in flight in each direction: acknowledged only after both complete
	"c18 rdma cap=2 w=1,1,1,1 bank=1000 nb=3 isz=40 k=1 lo=1000 hi=2000 ; qi 1 r 2010 4 0 ; qo 7 w 1010 aa - 0 ; t ; cd 2 ; t ; t ; qi 1 r 2020 4 0 ; t ; d 4 ; x i 0 ; t ; t ; x o 0 ; t ; t ; t ; dc 2 ; cr 2 ; t ; t ; d 4 ; x i 0 ; t ; t ; d 4",
	// clone port full: the request stays in the port and is forwarded later, once
	"c18 rdma cap=1 w=3,1,1,1 bank=1000 nb=3 isz=40 k=2 lo=1000 hi=2000 ; qi 1 r 2010 4 0 ; t ; qi 1 r 2020 4 0 ; t ; t ; f i 1 ; t ; f i 1 ; x i 1 ; x i 0 ; t ; r i 1 ; t ; r i 1",
	// restart whose acknowledgement cannot be sent (control port full) is consumed and lost: inside stays paused
	"c18 rdma cap=1 w=1,1,1,1 bank=1000 nb=3 isz=40 k=2 lo=1000 hi=2000 ; cd 1 ; t ; t ; cr 1 ; t ; qi 1 r 2010 4 0 ; t ; dc 1 ; t ; t",
	// restart before the drain completed, then the tables empty: nil dereference in drainRDMA
	"c18 rdma cap=2 w=1,1,1,1 bank=1000 nb=3 isz=40 k=2 lo=1000 hi=2000 ; qi 1 r 2010 4 0 ; t ; cd 1 ; t ; cr 1 ; t ; f i 1 ; x i 0 ; t ; t",
	// restart without drain
	"c18 rdma cap=2 w=1,1,1,1 bank=1000 nb=3 isz=40 k=2 lo=1000 hi=2000 ; cr 1 ; t",
	// address beyond the last bank
	"c18 rdma cap=2 w=1,1,1,1 bank=1000 nb=3 isz=40 k=2 lo=1000 hi=2000 ; qi 1 r 3000 4 0 ; t",
}

// ------------------------------------------------------------------ work-group distribution

func c18WgCase(r *Run, cus []int, grid [3]uint32, wgs [3]uint16) {
	cs := make([]string, len(cus))
	for i, c := range cus {
		cs[i] = strconv.Itoa(c)
	}
	line := fmt.Sprintf("c18 wg cus=%s grid=%d,%d,%d wgs=%d,%d,%d", strings.Join(cs, ","), grid[0], grid[1], grid[2], wgs[0], wgs[1], wgs[2])
	eng := &fakeEngine{}
	drv := driver.MakeBuilder().WithEngine(eng).WithPageTable(vm.NewPageTable(12)).WithLog2PageSize(12).
		WithGlobalStorage(mem.NewStorage(1 << 20)).Build("Driver")
	ids := []int{}
	ports := []sim.Port{}
	for i, c := range cus {
		p := sim.NewPort(drv, 4, 4, fmt.Sprintf("GPUPort%d", i))
		ports = append(ports, p)
		drv.RegisterGPU(p, driver.DeviceProperties{CUCount: c, DRAMSize: 1 << 16})
		ids = append(ids, i+1)
	}
	ctx := drv.Init()
	uid := drv.CreateUnifiedGPU(ctx, ids)
	drv.SelectGPU(ctx, uid)
	q := drv.CreateCommandQueue(ctx)
	var dist []int
	var reqs []*c18Launch
	left := 0
	f := catch(func() {
		d, rs, l := drv.VerifC18ProcessUnifiedQ(q, grid, wgs)
		dist = d
		left = l
		for _, x := range rs {
			reqs = append(reqs, &c18Launch{dst: c18PortNum(x.Dst), filter: x.WGFilter, pkt: x.Packet})
		}
	})
	r.Count("wg.case")
	if f != "" {
		r.Case(line, "fault:"+c18Fault(f))
		r.Count("wg.fault." + c18Fault(f))
		return
	}
	// work-groups per dimension: ceil(grid / wg), 0 for an empty dimension; no 32-bit wrap-around
	nx := (int(grid[0]) + int(wgs[0]) - 1) / int(wgs[0])
	ny := (int(grid[1]) + int(wgs[1]) - 1) / int(wgs[1])
	nz := (int(grid[2]) + int(wgs[2]) - 1) / int(wgs[2])
	total := nx * ny * nz
	cnt := make([]int, len(cus))
	c18WgExtra(r, line, total, nx, ny, nz, dist, reqs, left)
	// ---- oracle: the real filters partition the work-groups of the grid
	if total <= 20000 {
		for z := 0; z < int(nz); z++ {
			for y := 0; y < int(ny); y++ {
				for x := 0; x < int(nx); x++ {
					wg := &kernels.WorkGroup{IDX: x, IDY: y, IDZ: z}
					owners := 0
					for _, l := range reqs {
						if l.filter(l.pkt, wg) {
							owners++
							cnt[l.dst]++
						}
					}
					r.Checked("wg-owner")
					if owners != 1 {
						sig := "C18.wg.unowned"
						if owners > 1 {
							sig = "C18.wg.twice"
						}
						r.Failf(sig, line, "work-group (%d,%d,%d) is accepted by %d GPUs", x, y, z, owners)
					}
				}
			}
		}
	} else {
		for i := range cnt {
			lo, hi := dist[i], dist[i+1]
			if lo > total {
				lo = total
			}
			if hi > total {
				hi = total
			}
			cnt[i] = hi - lo
		}
	}
	r.Checked("wg-ranges")
	if dist[0] != 0 || dist[len(dist)-1] < total {
		r.Failf("C18.wg.cover", line, "ranges %v do not cover [0,%d)", dist, total)
	}
	for i := 0; i+1 < len(dist); i++ {
		if dist[i+1] < dist[i] {
			r.Failf("C18.wg.order", line, "ranges %v are not consecutive", dist)
		}
	}
	ds := make([]string, len(dist))
	for i, d := range dist {
		ds[i] = strconv.Itoa(d)
	}
	cn := make([]string, len(cnt))
	for i, c := range cnt {
		cn[i] = strconv.Itoa(c)
	}
	r.Case(line, fmt.Sprintf("total=%d dist=%s cnt=%s", total, strings.Join(ds, ","), strings.Join(cn, ",")))
}

type c18Launch struct {
	dst    int
	filter kernels.WGFilterFunc
	pkt    *kernels.HsaKernelDispatchPacket
}

func c18WgCases(r *Run, rng *Rng, n int) {
	fixed := []struct {
		cus  []int
		grid [3]uint32
		wgs  [3]uint16
	}{
		{[]int{64}, [3]uint32{1024, 1, 1}, [3]uint16{64, 1, 1}},
		{[]int{64, 64}, [3]uint32{1024, 1, 1}, [3]uint16{64, 1, 1}},
		{[]int{64, 64, 64, 64}, [3]uint32{64, 1, 1}, [3]uint16{64, 1, 1}},
		{[]int{4, 0, 7}, [3]uint32{10, 3, 2}, [3]uint16{4, 1, 1}},
		{[]int{3, 5}, [3]uint32{17, 5, 3}, [3]uint16{4, 2, 1}},
		{[]int{1, 1, 1}, [3]uint32{1, 1, 1}, [3]uint16{1, 1, 1}},
		{[]int{0, 0}, [3]uint32{8, 1, 1}, [3]uint16{4, 1, 1}},
		{[]int{0, 5, 0}, [3]uint32{100, 1, 1}, [3]uint16{7, 1, 1}},
		{[]int{7}, [3]uint32{1 << 20, 1, 1}, [3]uint16{64, 1, 1}},
	}
	for _, f := range fixed {
		c18WgCase(r, f.cus, f.grid, f.wgs)
	}
	for i := 0; i < n; i++ {
		k := rng.Pick(1, 2, 2, 3, 4, 4, 6)
		cus := make([]int, k)
		for j := range cus {
			cus[j] = rng.Pick(0, 1, 2, 3, 4, 7, 16, 36, 64, rng.Range(1, 80))
			if rng.Chance(70) {
				cus[j] = rng.Pick(1, 4, 36, 64, rng.Range(1, 80))
			}
		}
		wgs := [3]uint16{uint16(rng.Pick(1, 4, 16, 64, 256)), uint16(rng.Pick(1, 1, 2, 4)), uint16(rng.Pick(1, 1, 1, 2))}
		grid := [3]uint32{uint32(rng.Range(1, 600)), uint32(rng.Pick(1, 1, 2, 5, 17)), uint32(rng.Pick(1, 1, 1, 2, 3))}
		if rng.Chance(30) {
			// exact multiples and off-by-one around them
			s := 0
			for _, c := range cus {
				s += c
			}
			if s > 0 {
				grid = [3]uint32{uint32(int(wgs[0])*s*rng.Range(1, 3) + rng.Pick(-1, 0, 0, 1)), 1, 1}
				if grid[0] == 0 {
					grid[0] = 1
				}
			}
		}
		c18WgCase(r, cus, grid, wgs)
	}
}

// ------------------------------------------------------------------ owner of a physical address

func c18OwnCases(r *Run, rng *Rng, n int) {
	const gpus = 2
	p := newTimingPlatform(r.OutDir, gpus, "r9nano", false)
	defer p.close()
	engines := make([]*rdma.Comp, gpus+1)
	for g := 1; g <= gpus; g++ {
		engines[g] = p.sim.GetComponentByName(fmt.Sprintf("GPU[%d].RDMA", g)).(*rdma.Comp)
	}
	table, ok := engines[1].RemoteRDMAAddressTable.(*mem.BankedAddressPortMapper)
	if !ok {
		r.Failf("C18.owner.setup", "own", "RDMA address table is not a BankedAddressPortMapper")
		return
	}
	S := table.BankSize
	P := uint64(1) << p.drv.Log2PageSize
	r.Note("owner cases: bank size %x, first allocator address %x, %d GPUs", S, P, gpus)
	addrs := []uint64{0, P - 1, P, P + 1}
	for d := uint64(0); d <= gpus+1; d++ {
		for _, x := range []uint64{0, 1, P - 1, P, P + 1, S / 2, S - P, S - 1} {
			addrs = append(addrs, d*S+x)
		}
	}
	for i := 0; i < n; i++ {
		addrs = append(addrs, rng.U64()%((gpus+2)*S))
		d := uint64(rng.Intn(gpus + 1))
		addrs = append(addrs, d*S+S+uint64(rng.Intn(int(2*P)))-P) // around the bank boundaries
	}
	for _, a := range addrs {
		line := fmt.Sprintf("c18 own S=%x P=%x n=%d a=%x", S, P, gpus, a)
		alloc := -1
		if f := catch(func() { alloc = p.drv.VerifC18OwnerOfPAddr(a) }); f != "" {
			alloc = -1
		}
		bank := -1
		if f := catch(func() {
			port := string(engines[1].RemoteRDMAAddressTable.Find(a))
			switch {
			case port == "CPU":
				bank = 0
			case strings.HasSuffix(port, ".RDMADataOutside"):
				bank = c18PortNum(sim.RemotePort(port))
			default:
				bank = -2
			}
		}); f != "" {
			bank = -1
		}
		loc := ""
		locals := 0
		for g := 1; g <= gpus; g++ {
			dst := engines[g].VerifC18LocalModules().Find(a)
			if dst != engines[g].RDMARequestInside.AsRemote() {
				loc += "1"
				locals++
			} else {
				loc += "0"
			}
		}
		as, bs := "none", "oob"
		if alloc >= 0 {
			as = strconv.Itoa(alloc)
		}
		if bank >= 0 {
			bs = strconv.Itoa(bank)
		}
		r.Case(line, fmt.Sprintf("alloc=%s bank=%s local=%s", as, bs, loc))
		r.Count("own.case")
		// ---- oracle: whatever the allocator can hand to GPU d is routed to GPU d and is local there
		if alloc >= 1 && alloc <= gpus {
			r.Checked("owner")
			sig := "C18.owner.mismatch"
			if a >= uint64(alloc+1)*S {
				sig = "C18.owner.lastpage"
			}
			if bank != alloc {
				r.Failf(sig, line, "physical address %x belongs to GPU %d for the allocator, the RDMA address table sends it to module %s", a, alloc, bs)
			} else if loc[alloc-1] != '1' || locals != 1 {
				r.Failf(sig, line, "physical address %x belongs to GPU %d for the allocator, local/remote decisions of the GPUs: %s", a, alloc, loc)
			}
		}
	}
}

// ------------------------------------------------------------------ entry

func runC18(r *Run, rng *Rng, replay string) {
	log.SetOutput(io.Discard)
	thorough := r.Tier == "thorough"
	for _, l := range c18Fixed {
		runC18Scenario(r, l, false)
	}
	nr, nl, nm := 1500, 40, 200
	if thorough {
		nr, nl, nm = 30000, 1000, 3000
	}
	for i := 0; i < nr; i++ {
		style := rng.Pick(0, 1, 2, 3, 3, 4, 5, 5)
		l, closed := genC18Scenario(rng, style, false)
		r.Count(fmt.Sprintf("rdma.style%d", style))
		runC18Scenario(r, l, closed)
	}
	for i := 0; i < nl; i++ {
		l, closed := genC18Scenario(rng, rng.Pick(0, 1, 2, 3, 4, 5), true)
		r.Count("rdma.long")
		runC18Scenario(r, l, closed)
	}
	for i := 0; i < nm; i++ {
		l, closed := genC18Scenario(rng, 9, false)
		r.Count("rdma.malformed")
		runC18Scenario(r, l, closed)
	}
	nw := 400
	if thorough {
		nw = 8000
	}
	c18WgCases(r, rng, nw)
	no := 60
	if thorough {
		no = 2000
	}
	c18OwnCases(r, rng, no)
	c18Dynamic(r, rng)
}
