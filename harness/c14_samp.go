package main

import (
	"fmt"
	"io"
	"log"
	"strconv"
	"strings"

	"github.com/sarchlab/akita/v4/sim"
	"github.com/sarchlab/mgpusim/v4/amd/insts"
	"github.com/sarchlab/mgpusim/v4/amd/kernels"
	"github.com/sarchlab/mgpusim/v4/amd/protocol"
	"github.com/sarchlab/mgpusim/v4/amd/sampling"
	"github.com/sarchlab/mgpusim/v4/amd/timing/cu"
	"github.com/sarchlab/mgpusim/v4/amd/timing/wavefront"
)

// Property C14, second pass: the compute unit around the scheduler.
//
//	c14 samp ace=<k> buf=- exec=- wfs=<wg:state:op:lk:vm:osc:ovc,...> ; op ; ...
//
// A real compute unit (cu.MakeBuilder) in WAVEFRONT-SAMPLING mode: the sampling engine is trained
// until it is stable (1100 wavefront records with a constant run time), so the real
// handleMapWGReq takes its `skipSimulate` path for every MapWGReq it is given: the wavefronts of the
// group get the state WfSampledCompleted and one WfCompletionEvent each is scheduled in the
// engine. The wavefronts listed with state `S` are created that way (one MapWGReq per group); the
// others are dispatched wavefronts installed as in `c14 sc`. Ops: those of `sc`, plus
//
//	fe i   the engine handles the scheduled WfCompletionEvent of wavefront i (ComputeUnit.Handle)
//	fl     ComputeUnit.flushPipeline (setWavesToReady, Scheduler.Flush, unit flushes, pause)
//
// The engine of these cases records the events scheduled by the compute unit; a re-scheduled
// completion event (ToACE full) is appended to its queue. Oracles on the real code (independent of
// the model): C14.sampled.completion-count (every sampled work-group is reported exactly once),
// C14.sampled.completion-early (never before the event of its last wavefront has been handled),
// C14.sampled.event-lost (a group whose wavefronts have all ended is reported or has a retry event
// scheduled), C14.flush.sched-reset (after flushPipeline: barrier buffer and internalExecuting
// empty, every unfinished resident wavefront Ready with its PC unchanged, sampled wavefronts
// untouched).
func init() { register("C14", runC14Samp) }

type c14SampEngine struct {
	sim.HookableBase
	now    sim.VTimeInSec
	events []*wavefront.WfCompletionEvent
	ticks  int
}

func (e *c14SampEngine) Schedule(evt sim.Event) {
	if w, ok := evt.(*wavefront.WfCompletionEvent); ok {
		e.events = append(e.events, w)
		return
	}
	e.ticks++
}
func (e *c14SampEngine) Run() error                  { return nil }
func (e *c14SampEngine) Pause()                      {}
func (e *c14SampEngine) Continue()                   {}
func (e *c14SampEngine) CurrentTime() sim.VTimeInSec { return e.now }

type c14SampExt struct {
	eng     *c14SampEngine
	sampled map[int]bool  // wavefront index -> belongs to a sampled group
	groupOf map[int]int   // wavefront index -> work-group number (sampled wavefronts)
	members map[int][]int // sampled work-group number -> wavefront indices
	handled map[int]bool  // wavefront index -> its completion event has been handled at least once
	nsent   map[int]int   // sampled work-group number -> completion messages seen on ToACE
	reqOf   map[string]int
}

type c14SampHook struct {
	x    *c14SampExt
	seen []int
}

func (h *c14SampHook) Func(ctx sim.HookCtx) {
	if ctx.Pos != sim.HookPosPortMsgSend {
		return
	}
	if c, ok := ctx.Item.(*protocol.WGCompletionMsg); ok && len(c.RspTo) == 1 {
		if g, ok := h.x.reqOf[c.RspTo[0]]; ok {
			h.seen = append(h.seen, g)
		}
	}
}

// c14TrainSampling makes the global sampling engine stable: its Predict() then says "sampled".
func c14TrainSampling() (restore func()) {
	oldFlag := *sampling.SampledRunnerFlag
	oldInst := sampling.SampledEngineInstance
	oldOut := log.Writer()
	log.SetOutput(io.Discard) // "Warp Sampling is enabled"
	*sampling.SampledRunnerFlag = true
	se := sampling.NewSampledEngine(8, 0.03, false)
	for i := 0; i < 1100; i++ {
		se.Collect(sim.VTimeInSec(i), sim.VTimeInSec(i+5))
	}
	log.SetOutput(oldOut)
	sampling.SampledEngineInstance = se
	return func() {
		*sampling.SampledRunnerFlag = oldFlag
		sampling.SampledEngineInstance = oldInst
	}
}

// c14NewSampEnv builds the compute unit of a `samp` case: dispatched wavefronts are installed
// abstractly (as c14NewEnv does), sampled groups go through the real handleMapWGReq.
func c14NewSampEnv(cfg []c14WfCfg, ace int) *c14Env {
	x := &c14SampExt{eng: &c14SampEngine{}, sampled: map[int]bool{}, groupOf: map[int]int{}, members: map[int][]int{},
		handled: map[int]bool{}, nsent: map[int]int{}, reqOf: map[string]int{}}
	e := &c14Env{eng: &fakeEngine{}, wgOf: map[string]int{}, wfIdx: map[*wavefront.Wavefront]int{}, samp: x}
	e.cu = cu.MakeBuilder().WithEngine(x.eng).WithFreq(1 * sim.GHz).Build("CU")
	e.cu.ToACE.SetConnection(&fakeConn{name: "c"})
	e.sch = e.cu.VerifScheduler()
	co := &insts.KernelCodeObject{KernelCodeObjectMeta: &insts.KernelCodeObjectMeta{}}
	e.wfs = make([]*wavefront.Wavefront, len(cfg))
	nNormal := 0
	for _, c := range cfg {
		if c.state != 5 && c.wg+1 > nNormal {
			nNormal = c.wg + 1
		}
	}
	for g := 0; g < nNormal; g++ {
		rawWG := kernels.NewWorkGroup()
		req := protocol.MapWGReqBuilder{}.WithSrc("Disp.Port").WithDst(e.cu.ToACE.AsRemote()).WithWG(rawWG).Build()
		e.wgOf[req.ID] = g
		e.wgs = append(e.wgs, wavefront.NewWorkGroup(rawWG, req))
	}
	var sampGroups []int
	for i, c := range cfg {
		if c.state == 5 {
			if c.wg < nNormal {
				panic("c14 samp: a work-group is either dispatched or sampled")
			}
			if _, ok := x.members[c.wg]; !ok {
				sampGroups = append(sampGroups, c.wg)
			}
			x.members[c.wg] = append(x.members[c.wg], i)
			x.sampled[i] = true
			x.groupOf[i] = c.wg
			continue
		}
		raw := kernels.NewWavefront()
		raw.CodeObject = co
		raw.WG = e.wgs[c.wg].WorkGroup
		wf := wavefront.NewWavefront(raw)
		e.cu.VerifNewWavefront(wf) // the register accessor wrapWG gives every wavefront (scalar-load returns write through it)
		wf.WG = e.wgs[c.wg]
		wf.WG.Wfs = append(wf.WG.Wfs, wf)
		wf.SIMDID = i % 4
		wf.State = wavefront.WfState(c.state)
		wf.SetDynamicInst(c14MkInst(c.op, c.lk, c.vm))
		wf.OutstandingScalarMemAccess = c.osc
		wf.OutstandingVectorMemAccess = c.ovc
		e.cu.WfPools[wf.SIMDID].AddWf(wf)
		e.wfs[i] = wf
		e.wfIdx[wf] = i
	}
	// the sampled groups: the real mapping path in sampling mode
	for _, g := range sampGroups {
		rawWG := kernels.NewWorkGroup()
		rawWG.Packet = &kernels.HsaKernelDispatchPacket{}
		rawWG.CodeObject = co
		b := protocol.MapWGReqBuilder{}.WithSrc("Disp.Port").WithDst(e.cu.ToACE.AsRemote()).WithWG(rawWG)
		for range x.members[g] {
			raw := kernels.NewWavefront()
			raw.CodeObject = co
			raw.Packet = rawWG.Packet
			raw.WG = rawWG
			rawWG.Wavefronts = append(rawWG.Wavefronts, raw)
			b = b.AddWf(protocol.WfDispatchLocation{Wavefront: raw})
		}
		req := b.Build()
		e.wgOf[req.ID] = g
		x.reqOf[req.ID] = g
		before := len(x.eng.events)
		e.cu.VerifHandleMapWGReq(req)
		evs := x.eng.events[before:]
		if len(evs) != len(x.members[g]) {
			panic(fmt.Sprintf("c14 samp: handleMapWGReq scheduled %d completion events for %d wavefronts (sampling engine not stable?)",
				len(evs), len(x.members[g])))
		}
		for k, i := range x.members[g] {
			wf := evs[k].Wf
			wf.SetDynamicInst(c14MkInst(99, 0, 0)) // only so that the scenario snapshots can read an opcode
			e.wfs[i] = wf
			e.wfIdx[wf] = i
		}
	}
	for k := 0; k < ace; k++ {
		m := protocol.WGCompletionMsgBuilder{}.WithSrc(e.cu.ToACE.AsRemote()).WithDst("Disp.Port").
			WithRspTo([]string{"foreign"}).Build()
		if err := e.cu.ToACE.Send(m); err != nil {
			panic("c14: cannot pre-fill ToACE")
		}
	}
	return e
}

// c14ApplyFlush: `fl` — the real flushPipeline.
func c14ApplyFlush(e *c14Env) string {
	req := protocol.CUPipelineFlushReqBuilder{}.WithSrc("CP.Port").WithDst(e.cu.ToCP.AsRemote()).Build()
	e.cu.VerifFlushPipeline(req)
	return "f"
}

// c14ApplyFire: `fe i` — the engine handles the scheduled completion event of wavefront i.
func c14ApplyFire(e *c14Env, wf *wavefront.Wavefront) string {
	if e.samp == nil || wf == nil {
		return "e-"
	}
	q := e.samp.eng.events
	at := -1
	for k, ev := range q {
		if ev.Wf == wf {
			at = k
			break
		}
	}
	if at < 0 {
		return "e-"
	}
	ev := q[at]
	e.samp.eng.events = append(append([]*wavefront.WfCompletionEvent{}, q[:at]...), q[at+1:]...)
	n := len(e.samp.eng.events)
	e.samp.eng.now = ev.Time()
	if err := e.cu.Handle(ev); err != nil {
		panic(err)
	}
	e.samp.handled[e.wfIdx[wf]] = true
	if len(e.samp.eng.events) > n {
		return "e1"
	}
	return "e0"
}

func (e *c14Env) evqStr() string {
	if e.samp == nil || len(e.samp.eng.events) == 0 {
		return "-"
	}
	p := make([]string, len(e.samp.eng.events))
	for k, ev := range e.samp.eng.events {
		p[k] = strconv.Itoa(e.wfIdx[ev.Wf])
	}
	return strings.Join(p, ",")
}

// c14FlushOracle judges flushPipeline on the real scheduler state (sig C14.flush.sched-reset).
func c14FlushOracle(sc *c14Scenario, before, after c14Snap) {
	e := sc.e
	sc.r.Checked("flush.sched-reset")
	if n := len(e.sch.VerifBarrierBuffer()); n != 0 {
		sc.fail("C14.flush.sched-reset", "%d wavefronts still in the barrier buffer after flushPipeline", n)
	}
	if n := len(e.sch.VerifInternalExecuting()); n != 0 {
		sc.fail("C14.flush.sched-reset", "%d wavefronts still in internalExecuting after flushPipeline", n)
	}
	for i, wf := range e.wfs {
		sampled := e.samp != nil && e.samp.sampled[i]
		switch {
		case sampled || before.state[i] == wavefront.WfCompleted:
			if after.state[i] != before.state[i] {
				sc.fail("C14.flush.sched-reset", "flushPipeline changed wavefront %d (%s) from %c to %c", i,
					map[bool]string{true: "sampled", false: "ended"}[sampled], c14States[before.state[i]], c14States[after.state[i]])
			}
		default:
			if wf.State != wavefront.WfReady {
				sc.fail("C14.flush.sched-reset", "unfinished wavefront %d is %c after flushPipeline (must be Ready to be issued again)", i, c14States[wf.State])
			}
		}
		if after.pc[i] != before.pc[i] {
			sc.fail("C14.flush.sched-reset", "flushPipeline moved the PC of wavefront %d from %d to %d", i, before.pc[i], after.pc[i])
		}
	}
}

// sampOracles: judged after every op of a samp scenario.
func (sc *c14Scenario) sampOracles(h *c14SampHook, nseen int, op string) {
	x := sc.e.samp
	sc.r.Checked("sampled.completion")
	for _, g := range h.seen[nseen:] {
		x.nsent[g]++
		if x.nsent[g] > 1 {
			sc.fail("C14.sampled.completion-count", "sampled work-group %d reported %d times (op %q)", g, x.nsent[g], op)
		}
		for _, i := range x.members[g] {
			if !x.handled[i] || sc.e.wfs[i].State != wavefront.WfCompleted {
				sc.fail("C14.sampled.completion-early", "sampled work-group %d reported in op %q while the completion event of its wavefront %d has not been handled (state %c)",
					g, op, i, c14States[sc.e.wfs[i].State])
			}
		}
	}
	// a group that has ended is reported, or a retry event of one of its wavefronts is scheduled
	for g, mem := range x.members {
		all := true
		for _, i := range mem {
			if sc.e.wfs[i].State != wavefront.WfCompleted {
				all = false
			}
		}
		if !all || x.nsent[g] > 0 {
			continue
		}
		pending := false
		for _, ev := range x.eng.events {
			if x.groupOf[sc.e.wfIdx[ev.Wf]] == g && x.sampled[sc.e.wfIdx[ev.Wf]] {
				pending = true
			}
		}
		if !pending {
			sc.fail("C14.sampled.event-lost", "after %q all wavefronts of sampled work-group %d have ended, no message was sent and no completion event is scheduled", op, g)
		}
	}
}

// c14RunSamp generates one scenario online against the real compute unit.
func c14RunSamp(r *Run, rng *Rng, directed int) {
	nNormal := rng.Range(0, 2)
	nSamp := rng.Range(1, 3)
	var cfg []c14WfCfg
	var wfs []string
	var todo []int
	var normalIdx, sampIdx []int
	for g := 0; g < nNormal; g++ {
		nb := rng.Range(0, 2)
		for k := rng.Range(1, 4); k > 0; k-- {
			normalIdx = append(normalIdx, len(cfg))
			cfg = append(cfg, c14WfCfg{wg: g, state: 1, op: 99})
			wfs = append(wfs, fmt.Sprintf("%d:R:99:0:0:0:0", g))
			t := nb
			if rng.Chance(30) {
				t = rng.Intn(nb + 1)
			}
			todo = append(todo, t)
		}
	}
	for g := nNormal; g < nNormal+nSamp; g++ {
		k := rng.Range(1, 5)
		if rng.Chance(15) {
			k = rng.Range(9, 16)
		}
		for ; k > 0; k-- {
			sampIdx = append(sampIdx, len(cfg))
			cfg = append(cfg, c14WfCfg{wg: g, state: 5, op: 99})
			wfs = append(wfs, fmt.Sprintf("%d:S:99:0:0:0:0", g))
			todo = append(todo, 0)
		}
	}
	n := len(cfg)
	ace := rng.Pick(0, 0, 3, 4, 4)
	if directed == 1 {
		ace = 4 // the port is full when the last events arrive: retries
	}
	sc := &c14Scenario{r: r, todo: todo, memK: make([]byte, n), arr: make([]int, n), bar: make([]int, n),
		nsent: make([]int, nNormal), failed: map[string]bool{}}
	sc.ops = []string{fmt.Sprintf("c14 samp ace=%d buf=- exec=- wfs=%s", ace, strings.Join(wfs, ","))}
	var sh *c14SampHook
	step := func(op string) {
		nseen := len(sh.seen)
		sc.do(op)
		sc.sampOracles(sh, nseen, op)
	}
	fault := catch(func() {
		sc.e = c14NewSampEnv(cfg, ace)
		sc.hook = &c14SendHook{e: sc.e}
		sh = &c14SampHook{x: sc.e.samp}
		sc.e.cu.ToACE.AcceptHook(sc.hook)
		sc.e.cu.ToACE.AcceptHook(sh)
		x := sc.e.samp
		fireBias := rng.Pick(15, 35, 60)
		drainBias := rng.Pick(0, 3, 10, 25)
		if directed == 1 {
			drainBias = 0
		}
		flushBias := rng.Pick(0, 2, 6)
		for k := 0; k < 12*n+40; k++ {
			switch {
			case rng.Chance(fireBias):
				if q := x.eng.events; len(q) > 0 {
					step(fmt.Sprintf("fe %d", sc.e.wfIdx[q[rng.Intn(len(q))].Wf]))
				} else if rng.Chance(20) {
					step(fmt.Sprintf("fe %d", sampIdx[rng.Intn(len(sampIdx))])) // no such event: nothing happens
				}
			case rng.Chance(drainBias):
				step(fmt.Sprintf("dr %d", rng.Range(1, 4)))
			case rng.Chance(flushBias):
				step("fl")
			case rng.Chance(25) && len(normalIdx) > 0:
				step("ev")
			case len(normalIdx) > 0:
				nseen := len(sh.seen)
				nops := len(sc.ops)
				sc.act(rng, normalIdx[rng.Intn(len(normalIdx))], false)
				if len(sc.ops) > nops {
					sc.sampOracles(sh, nseen, sc.ops[len(sc.ops)-1])
				}
			}
		}
		// closing phase: the engine handles every event it holds, the dispatcher drains the port
		for round := 0; round < 8*n+60 && !(sc.allDone() && len(x.eng.events) == 0); round++ {
			for _, i := range normalIdx {
				nseen := len(sh.seen)
				sc.act(rng, i, true)
				sc.sampOracles(sh, nseen, sc.ops[len(sc.ops)-1])
			}
			if len(normalIdx) > 0 {
				step("ev")
			}
			if q := x.eng.events; len(q) > 0 {
				step(fmt.Sprintf("fe %d", sc.e.wfIdx[q[0].Wf]))
			}
			step("dr 1")
		}
		r.Checked("sampled.live")
		if !sc.allDone() || len(x.eng.events) != 0 {
			sc.fail("C14.sampled.stuck", "states %s, %d completion events still scheduled after the closing phase", sc.e.letters(), len(x.eng.events))
		} else {
			step("dr 4")
			for g := range x.members {
				if x.nsent[g] != 1 {
					sc.fail("C14.sampled.completion-count", "sampled work-group %d reported %d times in the whole run", g, x.nsent[g])
				}
			}
			for g, k := range sc.nsent {
				if k != 1 {
					sc.fail("C14.completion.count", "work-group %d reported %d times", g, k)
				}
			}
		}
	})
	if fault != "" {
		sc.out = append(sc.out, "fault:"+c14Fault(fault))
		if strings.Contains(fault, "c14 samp: handleMapWGReq scheduled") {
			r.Failf("C14.sampled.event-per-wavefront", sc.line(), "%s", fault)
		} else {
			r.Failf("C14.fault", sc.line(), "the real compute unit panicked in a legal schedule: %s", fault)
		}
		r.Case(sc.line(), strings.Join(sc.out, " "))
		return
	}
	sc.out = append(sc.out, sc.e.dump(), "out="+sc.e.outMsgs(), "evq="+sc.e.evqStr(), "split=ok")
	r.Count("samp")
	if sc.nflush > 0 {
		r.Count("samp:with-flush")
	}
	r.Case(sc.line(), strings.Join(sc.out, " "))
}

func runC14Samp(r *Run, rng *Rng, replay string) {
	restore := c14TrainSampling()
	defer restore()
	if _, sampledNow := sampling.SampledEngineInstance.Predict(); !sampledNow {
		r.Failf("C14.sampled.setup", "c14 samp", "the sampling engine did not become stable after 1100 records")
		return
	}
	n := 400
	if r.Tier == "thorough" {
		n = 12000
	}
	for k := 0; k < n; k++ {
		d := 0
		if k%8 == 0 {
			d = 1
		}
		c14RunSamp(r, rng, d)
	}
}
