//go:build verif

package main

// C17 — the DRAM model (simplebankedmemory) behaves as a memory.
//
// One case line = one scenario on a freshly built real component:
//   c17 banks=4 ilv=6 w=1 d=2 lat=1 row=8 miss=5 post=2 top=4 ; w 40 01020304 - ; t ; r 40 4 ; o 2 ; q
// ops:  w <addr hex> <data hex|-> <mask 01-string | - (nil) | e (empty, non-nil)>   deliver a write
//       r <addr hex> <len>                                                       deliver a read
//       t                                                                        Comp.Tick()
//       o <k>                                                                    retrieve up to k responses
//       q                                                                        tick+drain until quiet
//       i                                                                        dump every bank's inOrder list (c17_w.go)
// answer = canonical trace (requests numbered by acceptance order) + hash of the final storage
// contents over all footprints.  The oracle (flat byte array, arrival order) is evaluated here on the
// real outputs, independent of the Lean model.

import (
	"fmt"
	"os"
	"strconv"
	"strings"

	"github.com/sarchlab/akita/v4/mem/mem"
	"github.com/sarchlab/akita/v4/sim"
	"github.com/sarchlab/mgpusim/v4/amd/timing/mem/simplebankedmemory"
)

func init() { register("C17", runC17) }

type c17Cfg struct{ banks, ilv, w, d, lat, row, miss, post, top int }

func (c c17Cfg) String() string {
	return fmt.Sprintf("c17 banks=%d ilv=%d w=%d d=%d lat=%d row=%d miss=%d post=%d top=%d",
		c.banks, c.ilv, c.w, c.d, c.lat, c.row, c.miss, c.post, c.top)
}

type c17Req struct {
	write    bool
	addr     uint64
	size     int
	expected []byte // reads: flat-array contents at arrival
	nrsp     int
}

type c17Env struct {
	cfg    c17Cfg
	comp   *simplebankedmemory.Comp
	port   sim.Port
	reqs   []*c17Req
	idx    map[string]int
	flat   map[uint64]byte
	out    []string
	fault  bool
	strad  bool // some request crosses an interleave block (outside the property's class)
	malf   bool // some write has a mask shorter than its data
	fails  []Fail
	caseLn string
}

func newC17Env(c c17Cfg) *c17Env {
	eng := &fakeEngine{}
	comp := simplebankedmemory.MakeBuilder().
		WithEngine(eng).
		WithNumBanks(c.banks).
		WithLog2InterleaveSize(uint64(c.ilv)).
		WithBankPipelineWidth(c.w).
		WithBankPipelineDepth(c.d).
		WithStageLatency(c.lat).
		WithRowBufferSizeLog2(uint64(c.row)).
		WithRowMissDelay(c.miss).
		WithPostPipelineBufferSize(c.post).
		WithTopPortBufferSize(c.top).
		Build("DRAM")
	port := comp.GetPortByName("Top")
	port.SetConnection(&fakeConn{name: "conn"})
	return &c17Env{cfg: c, comp: comp, port: port, idx: map[string]int{}, flat: map[uint64]byte{}}
}

func (e *c17Env) sigOrder() string {
	// signature = configuration class of the run (a known finding suppresses only its class)
	if e.cfg.w > 1 {
		return "C17.order.width>1"
	}
	if e.cfg.row > 0 && e.cfg.miss > 0 {
		return "C17.order.rowbuffer"
	}
	return "C17.order"
}

func (e *c17Env) failf(sig, format string, a ...interface{}) {
	if len(e.fails) < 3 {
		e.fails = append(e.fails, Fail{Sig: sig, Case: e.caseLn, Detail: fmt.Sprintf(format, a...)})
	}
}

func (e *c17Env) noteStraddle(addr uint64, size int) {
	blk := uint64(1) << uint(e.cfg.ilv)
	if size > 0 && addr/blk != (addr+uint64(size)-1)/blk {
		e.strad = true
	}
}

func (e *c17Env) deliver(m mem.AccessReq, q *c17Req, data []byte, mask []bool) {
	if err := e.port.Deliver(m); err != nil {
		// incoming buffer full: the request never entered the component; the scenario
		// simply does not contain it (it is not dropped inside the system).
		e.out = append(e.out, "f")
		return
	}
	e.out = append(e.out, "a")
	e.idx[m.Meta().ID] = len(e.reqs)
	e.reqs = append(e.reqs, q)
	e.noteStraddle(q.addr, q.size)
	if q.write {
		for i := range data {
			if mask == nil || (i < len(mask) && mask[i]) {
				e.flat[q.addr+uint64(i)] = data[i]
			}
		}
		if mask != nil && len(mask) < len(data) {
			e.malf = true
		}
	} else {
		q.expected = make([]byte, q.size)
		for i := range q.expected {
			q.expected[i] = e.flat[q.addr+uint64(i)]
		}
	}
}

func (e *c17Env) tick() (progress bool, fault bool) {
	f := catch(func() { progress = e.comp.Tick() })
	if f != "" {
		if f != "bounds" {
			e.failf("C17.fault."+f, "unexpected panic class %s", f)
		}
		e.fault = true
		return false, true
	}
	return progress, false
}

func (e *c17Env) drain(k int) []string {
	strs := []string{}
	for i := 0; k < 0 || i < k; i++ {
		m := e.port.RetrieveOutgoing()
		if m == nil {
			break
		}
		var rspTo string
		isData := false
		var data []byte
		switch r := m.(type) {
		case *mem.DataReadyRsp:
			rspTo, isData, data = r.RespondTo, true, r.Data
		case *mem.WriteDoneRsp:
			rspTo = r.RespondTo
		default:
			e.failf("C17.response.type", "unexpected message %T", m)
			continue
		}
		i, ok := e.idx[rspTo]
		if !ok {
			e.failf("C17.response.unknown", "response to unknown request id")
			strs = append(strs, "?")
			continue
		}
		q := e.reqs[i]
		q.nrsp++
		if q.nrsp > 1 {
			e.failf("C17.response.duplicate", "request #%d answered %d times", i, q.nrsp)
		}
		if isData == q.write {
			e.failf("C17.response.kind", "request #%d (write=%v) answered with %T", i, q.write, m)
		}
		if isData {
			strs = append(strs, fmt.Sprintf("d%d:%s", i, hexb(data)))
			if !q.write && !e.strad && !e.malf && hexb(data) != hexb(q.expected) {
				e.failf(e.sigOrder(), "read/write overtakes earlier write to same address: read #%d of %d bytes at 0x%x returned %s, flat memory in arrival order gives %s",
					i, q.size, q.addr, hexb(data), hexb(q.expected))
			}
		} else {
			strs = append(strs, fmt.Sprintf("w%d", i))
		}
	}
	return strs
}

func (e *c17Env) quiesce() {
	n := 0
	all := []string{}
	fl := false
	for n < 2000 {
		p, f := e.tick()
		n++
		if f {
			fl = true
			break
		}
		d := e.drain(-1)
		all = append(all, d...)
		if !p && len(d) == 0 {
			break
		}
	}
	s := fmt.Sprintf("q%d[%s]", n, strings.Join(all, ","))
	if fl {
		s += "!"
	}
	e.out = append(e.out, s)
}

func parseMask(s string) []bool {
	switch s {
	case "-":
		return nil
	case "e":
		return []bool{}
	}
	m := make([]bool, len(s))
	for i, ch := range s {
		m[i] = ch == '1'
	}
	return m
}

func unhex(s string) []byte {
	if s == "-" {
		return []byte{}
	}
	b := make([]byte, len(s)/2)
	for i := range b {
		v, _ := strconv.ParseUint(s[2*i:2*i+2], 16, 8)
		b[i] = byte(v)
	}
	return b
}

func (e *c17Env) op(toks []string) {
	switch toks[0] {
	case "w":
		addr, _ := strconv.ParseUint(toks[1], 16, 64)
		data := unhex(toks[2])
		mask := parseMask(toks[3])
		b := mem.WriteReqBuilder{}.WithSrc("Agent").WithDst(e.port.AsRemote()).WithAddress(addr).WithData(data)
		m := b.Build()
		m.DirtyMask = mask
		e.deliver(m, &c17Req{write: true, addr: addr, size: len(data)}, data, mask)
	case "r":
		addr, _ := strconv.ParseUint(toks[1], 16, 64)
		n, _ := strconv.Atoi(toks[2])
		m := mem.ReadReqBuilder{}.WithSrc("Agent").WithDst(e.port.AsRemote()).WithAddress(addr).WithByteSize(uint64(n)).Build()
		e.deliver(m, &c17Req{addr: addr, size: n}, nil, nil)
	case "t":
		p, f := e.tick()
		switch {
		case f:
			e.out = append(e.out, "fault:bounds")
		case p:
			e.out = append(e.out, "t1")
		default:
			e.out = append(e.out, "t0")
		}
	case "o":
		k, _ := strconv.Atoi(toks[1])
		e.out = append(e.out, "o["+strings.Join(e.drain(k), ",")+"]")
	case "q":
		e.quiesce()
	case "i":
		e.out = append(e.out, c17ShowInOrder(e))
	}
}

// dumpRanges: the footprint of every accepted request, 4 guard bytes on each side
func (e *c17Env) dumpRange(q *c17Req) (uint64, uint64) {
	lo := q.addr
	if lo >= 4 {
		lo -= 4
	} else {
		lo = 0
	}
	return lo, q.addr + uint64(q.size) + 4
}

func runC17Scenario(r *Run, cfg c17Cfg, ops []string, quiet bool) (fails []Fail) {
	line := cfg.String() + " ; " + strings.Join(ops, " ; ")
	e := newC17Env(cfg)
	e.caseLn = line
	for _, o := range ops {
		toks := strings.Fields(o)
		if len(toks) == 0 {
			continue
		}
		if e.fault && toks[0] != "t" && toks[0] != "o" {
			// after a panic only ticks (which panic again) and drains are meaningful; still run all ops
		}
		e.op(toks)
	}
	// final storage image over all footprints
	img := []byte{}
	storageOK := true
	for _, q := range e.reqs {
		lo, hi := e.dumpRange(q)
		d, err := e.comp.Storage.Read(lo, hi-lo)
		if err != nil {
			storageOK = false
			break
		}
		img = append(img, d...)
		if !e.fault && !e.strad && !e.malf && endsQuiet(ops) {
			for i, b := range d {
				if e.flat[lo+uint64(i)] != b {
					e.failf(strings.Replace(e.sigOrder(), "order", "storage", 1),
						"final storage differs from flat memory in arrival order at 0x%x: storage %02x, flat %02x (request #%d neighbourhood)",
						lo+uint64(i), b, e.flat[lo+uint64(i)], 0)
					break
				}
			}
		}
	}
	if storageOK {
		e.out = append(e.out, fmt.Sprintf("S=%x", fnv(img)))
	} else {
		e.out = append(e.out, "S=err")
	}
	// one response each (after the scenario went quiet)
	if !e.fault && endsQuiet(ops) {
		for i, q := range e.reqs {
			if q.nrsp == 0 {
				e.failf("C17.response.missing", "request #%d never answered although the component went quiet", i)
			}
		}
	}
	if !quiet {
		r.Case(line, strings.Join(e.out, " "))
		r.Checked("scenario")
		if e.strad {
			r.Count("scenario:straddling(order-oracle skipped)")
		}
		if e.malf {
			r.Count("scenario:malformed-mask")
		}
		if e.fault {
			r.Count("scenario:fault")
		}
		r.Count(fmt.Sprintf("cfg:width=%d", cfg.w))
		if cfg.row > 0 && cfg.miss > 0 {
			r.Count("cfg:rowbuffer-on")
		} else {
			r.Count("cfg:rowbuffer-off")
		}
		r.CountN("reqs", len(e.reqs))
		for _, f := range e.fails {
			// the listed width>1 class must not exhaust the run's failure cap
			if strings.HasSuffix(f.Sig, "width>1") {
				c17WidthFails++
				if c17WidthFails > 60 {
					r.Count("oracle-failure(width>1, not recorded beyond 60)")
					continue
				}
			}
			r.Failf(f.Sig, f.Case, "%s", f.Detail)
		}
	}
	return e.fails
}

var c17WidthFails int

func endsQuiet(ops []string) bool { return len(ops) > 0 && strings.TrimSpace(ops[len(ops)-1]) == "q" }

// ---------------------------------------------------------------- generators

func genC17Cfg(rng *Rng) c17Cfg {
	c := c17Cfg{
		banks: rng.Pick(1, 2, 3, 4, 4, 8, 16, 32, rng.Range(1, 32)),
		ilv:   rng.Range(6, 12),
		w:     rng.Pick(1, 1, 1, 2, 3, 4),
		d:     rng.Pick(1, 1, 2, 3, 5, rng.Range(1, 8)),
		lat:   rng.Pick(1, 1, 2, rng.Range(1, 4)),
		row:   rng.Pick(0, 8, 9, 10, 11, 12),
		miss:  rng.Pick(0, 1, 2, 5, 13, 52, rng.Range(0, 60)),
		post:  rng.Pick(1, 1, 2, 4, rng.Range(1, 8)),
		top:   rng.Pick(1, 2, 4, 8, rng.Range(1, 8)),
	}
	if rng.Chance(35) { // make the row-buffer path live
		if c.row == 0 {
			c.row = rng.Range(8, 12)
		}
		if c.miss == 0 {
			c.miss = rng.Pick(1, 3, 7, 20, 52)
		}
	}
	return c
}

func genC17Ops(rng *Rng, c c17Cfg, nreq int, malformed bool, straddle bool) []string {
	blk := uint64(1) << uint(c.ilv)
	// a few hot addresses: same address, same bank different row, different bank
	rowSpan := blk * uint64(c.banks) * (uint64(1)<<uint(maxInt(c.row, c.ilv)))/blk
	if rowSpan == 0 {
		rowSpan = blk * uint64(c.banks)
	}
	hot := []uint64{}
	base := uint64(rng.Intn(4)) * blk * uint64(c.banks)
	for i := 0; i < 2+rng.Intn(3); i++ {
		a := base
		switch rng.Intn(4) {
		case 0: // same bank, same row probably
			a += uint64(rng.Intn(2)) * blk * uint64(c.banks)
		case 1: // same bank, another row
			a += uint64(1+rng.Intn(3)) * rowSpan
		case 2: // another bank
			a += uint64(rng.Intn(c.banks)) * blk
		}
		hot = append(hot, a)
	}
	ops := []string{}
	pressure := rng.Pick(0, 0, 30, 60, 90) // % of steps that do not drain
	burst := rng.Pick(1, 2, 4, 8)
	for i := 0; i < nreq; {
		for j := 0; j < 1+rng.Intn(burst) && i < nreq; j++ {
			a := hot[rng.Intn(len(hot))]
			size := rng.Pick(4, 4, 8, 16, 64, rng.Range(1, 64), 1)
			if uint64(size) > blk {
				size = int(blk)
			}
			off := uint64(0)
			if rng.Chance(30) {
				off = uint64(rng.Intn(int(blk) - size + 1))
				if rng.Chance(60) {
					off &^= 3
				}
			}
			if straddle && rng.Chance(30) {
				off = blk - uint64(rng.Range(1, size))
			}
			a += off
			if rng.Chance(55) {
				data := rng.Bytes(size)
				mask := "-"
				if rng.Chance(40) {
					mb := make([]byte, size)
					for k := range mb {
						mb[k] = '0' + byte(rng.Intn(2))
					}
					mask = string(mb)
					if malformed && rng.Chance(30) {
						if size > 1 && rng.Bool() {
							mask = mask[:rng.Intn(size)]
						}
						if mask == "" {
							mask = "e"
						}
					} else if rng.Chance(10) {
						mask += "1" // longer masks are legal
					}
				}
				d := hexb(data)
				if size == 0 {
					d = "-"
				}
				ops = append(ops, fmt.Sprintf("w %x %s %s", a, d, mask))
			} else {
				ops = append(ops, fmt.Sprintf("r %x %d", a, size))
			}
			i++
		}
		for j := 0; j < rng.Pick(1, 1, 1, 2, 3, 6); j++ {
			ops = append(ops, "t")
			if !rng.Chance(pressure) {
				ops = append(ops, fmt.Sprintf("o %d", rng.Pick(1, 1, 2, 8)))
			}
		}
	}
	if rng.Chance(15) { // long stall, then continue
		for j := 0; j < rng.Range(20, 70); j++ {
			ops = append(ops, "t")
		}
	}
	ops = append(ops, "q")
	return ops
}

func maxInt(a, b int) int {
	if a > b {
		return a
	}
	return b
}

// fixed witnesses (replayed first on every run)
func c17Witnesses() []struct {
	cfg c17Cfg
	ops []string
} {
	mi300a := c17Cfg{banks: 16, ilv: 6, w: 1, d: 5, lat: 1, row: 11, miss: 52, post: 128, top: 1024}
	small := c17Cfg{banks: 1, ilv: 6, w: 1, d: 1, lat: 1, row: 8, miss: 3, post: 1, top: 1}
	w2 := c17Cfg{banks: 1, ilv: 6, w: 2, d: 1, lat: 1, row: 0, miss: 0, post: 1, top: 1}
	stall := []string{}
	for i := 0; i < 8; i++ {
		stall = append(stall, "t")
	}
	return []struct {
		cfg c17Cfg
		ops []string
	}{
		// DESIGN §4: write (row miss -> 52-cycle delay queue) then read of the same address (row hit)
		{mi300a, []string{"w 40 01020304 -", "t", "t", "r 40 4", "q"}},
		// blocked row hit waits in pending, later row miss to the same address passes through the delay queue
		{small, append(append([]string{"w 40 aa -", "t", "t", "t", "t", "t", "w 40 bb -", "w 40 cc -", "t", "w 1040 dd -", "t", "w 40 ee -", "t", "r 40 1", "t"}, stall...), "q")},
		// width 2: lane 0 drains before lane 1 under post-buffer back-pressure
		{w2, []string{"w 0 11 -", "t", "t", "w 40 22 -", "t", "w 80 aa -", "t", "w 80 bb -", "t", "t", "t", "t", "r 80 1", "q"}},
	}
}

func runC17(r *Run, rng *Rng, replay string) {
	thorough := r.Tier == "thorough"
	for _, w := range c17Witnesses() {
		runC17Scenario(r, w.cfg, w.ops, false)
	}
	n := 1500
	if thorough {
		n = 40000
	}
	if s := os.Getenv("C17_N"); s != "" {
		n, _ = strconv.Atoi(s)
	}
	for i := 0; i < n; i++ {
		cfg := genC17Cfg(rng)
		nreq := rng.Pick(2, 4, 8, 12, 20, 30)
		if thorough && i%50 == 0 {
			nreq = 80
		}
		malformed := i%25 == 7
		straddle := i%20 == 3
		runC17Scenario(r, cfg, genC17Ops(rng, cfg, nreq, malformed, straddle), false)
	}
}
