package main

// C16, third deepening: the starving schedule of Props/C16Acc.lean (at_access_starves /
// at_access_eventually_answered_refuted) replayed on the real addresstranslator.Comp.
//
// A victim access is accepted and its lookup taken by the translation service; then, round after
// round, a new access to a fresh page arrives, its lookup is taken and answered FIRST (`xt 1`: the
// service always answers the youngest of the two lookups it holds), it is forwarded, answered by the
// memory and returned, every port is polled (the harness's page table has pages 0..7: the fresh pages
// cycle through 1..7, each is free again when its round is over). After any number of rounds the victim is still waiting
// (oracle `C16.acc.starve`); as soon as the service answers the victim's lookup (`xt 0`: per-lookup
// fairness) it completes (oracle `C16.acc.fair-completes`, at_access_eventually_answered). Every
// scenario line is also a correspondence case (real component vs Lean model).

import (
	"fmt"
	"strings"
)

func init() { register("C16", runC16Acc) }

func c16AccStarve(w int, lg uint64, rounds int) []string {
	ops := []string{fmt.Sprintf("c16 w=%d lg=%d salt=16", w, lg), "a 1 4 r 4", "t", "dx 1"}
	for k := 1; k <= rounds; k++ {
		ops = append(ops, fmt.Sprintf("a 1 %x r 4", uint64((k-1)%7+1)<<lg), "t", "dx 1", "xt 1", "t", "db 1", "xm 0", "t", "du 1", "dc 1")
	}
	return ops
}

func c16AccOne(r *Run, w int, lg uint64, rounds int) {
	ops := c16AccStarve(w, lg, rounds)
	line := strings.Join(ops, " ; ")
	e := runC16Scenario(r, ops, false, "acc.starve")
	r.Checked("acc.starve")
	_, txs, infl := e.comp.VerifC16State()
	if e.fault != "" || e.nRecv != rounds+1 || e.nAns != rounds || len(e.accs) == 0 || e.accs[0] == nil ||
		e.accs[0].ans != 0 || e.accs[0].fwd != 0 || len(txs) != 1 || len(infl) != 0 {
		r.Failf("C16.acc.starve", line, "after %d rounds of youngest-first replies: accepted %d answered %d, transactions %d, in flight %d (expected the victim alone to wait)",
			rounds, e.nRecv, e.nAns, len(txs), len(infl))
	}
	fair := append(append([]string{}, ops...), "xt 0", "t", "db 1", "xm 0", "t", "du 1")
	e2 := runC16Scenario(r, fair, false, "acc.fair")
	r.Checked("acc.fair")
	_, txs2, infl2 := e2.comp.VerifC16State()
	if e2.fault != "" || e2.nAns != rounds+1 || len(e2.accs) == 0 || e2.accs[0] == nil || e2.accs[0].ans != 1 ||
		len(txs2) != 0 || len(infl2) != 0 {
		r.Failf("C16.acc.fair-completes", strings.Join(fair, " ; "), "the victim's lookup was answered but it did not complete: answered %d of %d", e2.nAns, e2.nRecv)
	}
}

func runC16Acc(r *Run, rng *Rng, replay string) {
	c16AccOne(r, 1, 6, 8)
	n := 6
	if r.Tier == "thorough" {
		n = 60
	}
	for i := 0; i < n; i++ {
		c16AccOne(r, rng.Pick(1, 2, 4), uint64(rng.Pick(6, 8, 12)), rng.Range(2, 14))
	}
}
