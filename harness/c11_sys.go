package main

import (
	"fmt"
	"os"
	"strconv"
	"strings"

	"github.com/sarchlab/akita/v4/mem/cache"
	"github.com/sarchlab/akita/v4/mem/mem"
	"github.com/sarchlab/akita/v4/mem/vm"
	"github.com/sarchlab/akita/v4/sim"
	"github.com/sarchlab/mgpusim/v4/amd/driver"
	"github.com/sarchlab/mgpusim/v4/amd/protocol"
	"github.com/sarchlab/mgpusim/v4/amd/timing/cp"
)

// C11 — the closed copy system on the REAL components: driver.Driver (DMA-path copy middleware, one
// GPU), cp.CommandProcessor and cp.DMAEngine wired together BY HAND. The driver's GPU is the CP's
// ToDriver port, the CP's DMA engine is the DMA engine's ToCP port, the DMA engine's memory is the
// harness (a byte map; an untouched byte at physical address a holds memByte(a)), the caches are fake
// ports whose dirty bytes (`kw`) the harness writes back into the byte map when it acknowledges a
// flush. No engine, no connection delivers by itself: every hand-over of a message is one op of the
// scenario. One scenario = one case line `c11 sys pt=… bufs=… caches=N cin= cdrv= cdma= ccache= h2d=
// d2h= queues=Q warm=W log2= max=4 ; op ; op …`, answered by `C11.runSys` (`MgpuModel/C11Sys.lean`).
//
// Implementation-side oracles (independent of the model), evaluated while the scenario runs:
// C11.sys.h2d-bytes, d2h-bytes, roundtrip, completes-before-transactions, transaction-twice,
// transaction-outside-range, read-before-flush, never-completes, bad-link (a message that cannot be
// attributed to the command / request / clone it must belong to), dirty-flag, clone-payload.

func init() {
	register("C11", runC11Sys)
	if os.Getenv("C11SYS_DEV") != "" { // development: the system scenarios alone
		register("C11SYS", runC11Sys)
	}
}

const c11sysPage = 4096

type c11sysPiece struct{ pa, off, n uint64 }

type c11sysCmd struct {
	k      int // enqueue index
	q, seq int
	kind   string // h | d
	vaddr  uint64
	l      uint64
	data   []byte // H2D payload
	dst    []byte // D2H host buffer
	pcs    []c11sysPiece
	flush  bool

	enqStep   int
	started   bool
	startStep int
	done      bool
	doneStep  int

	rtOf      *c11sysCmd   // generated as the read-back of this H2D command
	expect    []int        // D2H: expected byte per offset, -1 = not determined
	expFrom   []*c11sysCmd // D2H: the pending H2D command of the same queue the expectation comes from
	performed []int        // per piece: memory transactions performed
}

// offset of physical byte pa in the command's host data, -1 when the command does not cover it
func (c *c11sysCmd) offOf(pa uint64) int {
	for _, p := range c.pcs {
		if pa >= p.pa && pa < p.pa+p.n {
			return int(p.off + (pa - p.pa))
		}
	}
	return -1
}

type c11sysReq struct {
	msg  sim.Msg
	cmd  *c11sysCmd
	kind string // h | d | f
	idx  int
	pa   uint64
	n    uint64
	cpID int
}

type c11sysClone struct {
	req *c11sysReq
	seq int
}

type c11sysTx struct {
	msg   sim.Msg
	id    string
	write bool
	addr  uint64
	n     uint64
	data  []byte
	owner *c11sysClone
}

type c11sysWant struct {
	cl      *c11sysClone
	write   bool
	addr, n uint64
	matched bool
}

type c11sysDirty struct {
	cache int
	pa    uint64
	v     byte
	step  int
}

type c11sysCfg struct {
	nI, nS, nV, nL2         int
	cin, cdrv, cdma, ccache int
	h2d, d2h                int
	nQ                      int
	log2                    uint64
}

type c11sysBuf struct {
	addr, size uint64
	dirty      bool
}

type c11sysEnv struct {
	r   *Run
	rng *Rng
	cfg c11sysCfg

	d       *driver.Driver
	gpu     sim.Port
	c       *cp.CommandProcessor
	dma     *cp.DMAEngine
	caches  []sim.Port
	cacheIx map[sim.RemotePort]int
	ctx     *driver.Context
	qs      []*driver.CommandQueue
	bufs    []c11sysBuf
	warm    bool

	cmds  []*c11sysCmd
	byQ   [][]*c11sysCmd
	doneQ []int

	mem   map[uint64]byte
	tag   map[uint64]int // last writer of a byte: command index, -1 = cache write-back, -2 = unattributed transaction
	dirty []c11sysDirty  // oldest first

	reqOf     map[sim.Msg]*c11sysReq
	byPayload map[*byte]*c11sysReq
	cpReqs    []*c11sysReq
	cloneOf   map[string]*c11sysClone
	nClones   int
	want      []*c11sysWant
	atCaches  []*cache.FlushReq
	outst     []*c11sysTx
	wire      []sim.Msg
	performed map[string]bool

	ops   []string
	out   []string
	step  int
	fault string
	fails int
	lazy  [4]int // eagerness (percent per round) of: driver<->CP link, caches, CP<->DMA link, memory
}

func (e *c11sysEnv) line() string { return strings.Join(e.ops, " ; ") }
func (e *c11sysEnv) fail(sig, format string, a ...interface{}) {
	if e.fails < 3 {
		e.r.Failf(sig, e.line(), format, a...)
	}
	e.fails++
}

func c11sysNew(r *Run, rng *Rng, cfg c11sysCfg) *c11sysEnv {
	e := &c11sysEnv{r: r, rng: rng, cfg: cfg, cacheIx: map[sim.RemotePort]int{}, mem: map[uint64]byte{}, tag: map[uint64]int{},
		reqOf: map[sim.Msg]*c11sysReq{}, byPayload: map[*byte]*c11sysReq{}, cloneOf: map[string]*c11sysClone{},
		performed: map[string]bool{}}
	conn := &fakeConn{name: "c11sys"}
	e.d = driver.MakeBuilder().WithEngine(&fakeEngine{}).WithPageTable(vm.NewPageTable(12)).WithLog2PageSize(12).
		WithH2DCycles(cfg.h2d).WithD2HCycles(cfg.d2h).Build("Driver")
	e.gpu = e.d.GetPortByName("GPU")
	conn.PlugIn(e.gpu)

	c := cp.MakeBuilder().WithEngine(&fakeEngine{}).WithFreq(1 * sim.GHz).Build("CP")
	e.c = c
	if cfg.cin != 4096 || cfg.cdrv != 4096 {
		c.ToDriver = sim.NewPort(c, cfg.cin, cfg.cdrv, "CP.ToDriver")
	}
	if cfg.cin != 4096 || cfg.cdma != 4096 {
		c.ToDMA = sim.NewPort(c, cfg.cin, cfg.cdma, "CP.ToDispatcher")
	}
	if cfg.cin != 4096 || cfg.ccache != 4096 {
		c.ToCaches = sim.NewPort(c, cfg.cin, cfg.ccache, "CP.ToCaches")
	}
	for _, p := range []sim.Port{c.ToDriver, c.ToDMA, c.ToCaches, c.ToCUs} {
		conn.PlugIn(p)
	}
	mk := func(kind string, n int) []sim.Port {
		var l []sim.Port
		for i := 0; i < n; i++ {
			p := sim.NewPort(nil, 4, 4, fmt.Sprintf("Fake%s%d.Ctrl", kind, i))
			e.cacheIx[p.AsRemote()] = len(e.caches)
			e.caches = append(e.caches, p)
			l = append(l, p)
		}
		return l
	}
	c.L1ICaches = mk("L1I", cfg.nI)
	c.L1SCaches = mk("L1S", cfg.nS)
	c.L1VCaches = mk("L1V", cfg.nV)
	c.L2Caches = mk("L2", cfg.nL2)

	// the driver's GPU IS the command processor's driver port
	e.d.RegisterGPU(c.ToDriver, driver.DeviceProperties{CUCount: 4, DRAMSize: 1 << 23})
	c.Driver = e.gpu

	e.dma = cp.NewDMAEngine("DMA", &fakeEngine{}, onePortMapper{"Mem"})
	e.dma.Log2AccessSize = cfg.log2
	e.dma.ToCP.SetConnection(conn)
	e.dma.ToMem.SetConnection(conn)
	c.DMAEngine = e.dma.ToCP

	e.ctx = e.d.Init()
	for i := 0; i < cfg.nQ; i++ {
		e.qs = append(e.qs, e.d.CreateCommandQueue(e.ctx))
	}
	e.byQ = make([][]*c11sysCmd, cfg.nQ)
	e.doneQ = make([]int, cfg.nQ)
	return e
}

func (e *c11sysEnv) alloc(pages int) {
	p := e.d.AllocateMemory(e.ctx, uint64(pages)*c11sysPage)
	e.bufs = append(e.bufs, c11sysBuf{addr: uint64(p), size: uint64(pages) * c11sysPage})
}

// a kernel is launched and stays in flight for ever: every buffer allocated so far becomes dirty
func (e *c11sysEnv) launchKernel() bool {
	qk := e.d.CreateCommandQueue(e.ctx) // created after the copy queues: it is ticked last
	e.d.Enqueue(qk, &driver.LaunchKernelCommand{ID: sim.GetIDGenerator().Generate()})
	for i := 0; i < 50; i++ {
		e.d.Tick()
		if m := e.gpu.RetrieveOutgoing(); m != nil {
			if _, ok := m.(*protocol.LaunchKernelReq); ok {
				e.d.Tick()
				for i := range e.bufs {
					e.bufs[i].dirty = true
				}
				e.warm = true
				return true
			}
		}
	}
	return false
}

// header builds the configuration segment from the REAL driver's page table and buffer list
func (e *c11sysEnv) header() bool {
	pt := e.d.VerifPageTable()
	var pts, bs []string
	real := e.ctx.VerifBuffers()
	ok := len(real) == len(e.bufs)
	for i, b := range real {
		for va := b.VAddr; va < b.VAddr+b.Size; va += c11sysPage {
			pg, found := pt.Find(e.ctx.VerifPID(), va)
			if !found {
				return false
			}
			pts = append(pts, fmt.Sprintf("%x:%x:%d", pg.VAddr, pg.PAddr, pg.PageSize))
		}
		d := 0
		if ok && e.bufs[i].dirty {
			d = 1
		}
		if ok && (e.bufs[i].addr != b.VAddr || e.bufs[i].size != b.Size) {
			ok = false
		}
		e.r.Checked("sys.dirty-flag")
		if ok && e.bufs[i].dirty != b.L2Dirty {
			e.r.Failf("C11.sys.dirty-flag", fmt.Sprintf("buffer %x (%d bytes)", b.VAddr, b.Size),
				"the driver's dirty flag is %v, the buffer existed at the kernel launch: %v", b.L2Dirty, e.bufs[i].dirty)
		}
		bs = append(bs, fmt.Sprintf("%x:%d:%d", b.VAddr, b.Size, d))
	}
	if !ok {
		return false
	}
	bufs := "-"
	if len(bs) > 0 {
		bufs = strings.Join(bs, ",")
	}
	w := 0
	if e.warm {
		w = 1
	}
	e.ops = []string{fmt.Sprintf("c11 sys pt=%s bufs=%s caches=%d cin=%d cdrv=%d cdma=%d ccache=%d h2d=%d d2h=%d queues=%d warm=%d log2=%d max=4",
		strings.Join(pts, ","), bufs, len(e.caches), e.cfg.cin, e.cfg.cdrv, e.cfg.cdma, e.cfg.ccache, e.cfg.h2d, e.cfg.d2h, e.cfg.nQ, w, e.cfg.log2)}
	return true
}

// the physical image of [vaddr, vaddr+l) through the real page table
func (e *c11sysEnv) pieces(vaddr, l uint64) ([]c11sysPiece, bool) {
	pt := e.d.VerifPageTable()
	var out []c11sysPiece
	addr, off, left := vaddr, uint64(0), l
	for left > 0 {
		pg, ok := pt.Find(e.ctx.VerifPID(), addr)
		if !ok {
			return nil, false
		}
		n := pg.PageSize - (addr - pg.VAddr)
		if left < n {
			n = left
		}
		out = append(out, c11sysPiece{pg.PAddr + (addr - pg.VAddr), off, n})
		addr, off, left = addr+n, off+n, left-n
	}
	return out, true
}

func (e *c11sysEnv) memAt(a uint64) byte {
	if v, ok := e.mem[a]; ok {
		return v
	}
	return memByte(a)
}

func (e *c11sysEnv) needsFlush(addr, l uint64) bool {
	for _, b := range e.bufs {
		if b.dirty && driver.VerifMemRangeOverlap(b.addr, b.addr+b.size, addr, addr+l) {
			return true
		}
	}
	return false
}

// what a device-to-host copy enqueued now must return for physical byte pa (-1: not determined:
// a copy of another queue is in flight over it, or the caches and a pending copy race)
func (e *c11sysEnv) expectAt(pa uint64, c *c11sysCmd) (int, *c11sysCmd) {
	var pend *c11sysCmd
	for _, x := range e.cmds {
		if x.done || x.kind != "h" || x.offOf(pa) < 0 {
			continue
		}
		if x.q != c.q {
			return -1, nil
		}
		pend = x
	}
	inCaches := map[int]bool{}
	newest := -1
	for _, dd := range e.dirty {
		if dd.pa == pa {
			inCaches[dd.cache] = true
			newest = int(dd.v)
		}
	}
	if pend != nil {
		if len(inCaches) > 0 {
			return -1, nil
		}
		return int(pend.data[pend.offOf(pa)]), pend
	}
	switch len(inCaches) {
	case 0:
		return int(e.memAt(pa)), nil
	case 1:
		return newest, nil
	}
	return -1, nil
}

func (e *c11sysEnv) enqueue(q int, kind string, vaddr, l, salt uint64) string {
	if q < 0 || q >= len(e.qs) {
		return "bad"
	}
	pcs, ok := e.pieces(vaddr, l)
	if !ok {
		return "bad"
	}
	c := &c11sysCmd{k: len(e.cmds), q: q, seq: len(e.byQ[q]), kind: kind, vaddr: vaddr, l: l, pcs: pcs,
		flush: e.needsFlush(vaddr, l), enqStep: e.step, performed: make([]int, len(pcs))}
	if kind == "h" {
		c.data = make([]byte, l)
		for i := range c.data {
			c.data[i] = h2dByte(vaddr+salt, uint64(i))
		}
		src := append([]byte{}, c.data...)
		e.d.EnqueueMemCopyH2D(e.qs[q], driver.Ptr(vaddr), src)
	} else {
		c.dst = make([]byte, l)
		c.expect = make([]int, l)
		c.expFrom = make([]*c11sysCmd, l)
		for _, p := range pcs {
			for i := uint64(0); i < p.n; i++ {
				c.expect[p.off+i], c.expFrom[p.off+i] = e.expectAt(p.pa+i, c)
			}
		}
		e.d.EnqueueMemCopyD2H(e.qs[q], c.dst, driver.Ptr(vaddr))
	}
	e.cmds = append(e.cmds, c)
	e.byQ[q] = append(e.byQ[q], c)
	f := "-"
	if c.flush {
		f = "F"
	}
	e.r.Count(fmt.Sprintf("sys.cmd.%s.pieces%d.%s", kind, len(pcs), f))
	if l == 0 {
		e.r.Count("sys.cmd.zero-length")
	}
	return "ok"
}

func (e *c11sysEnv) lines(p c11sysPiece) int {
	u := uint64(1) << e.cfg.log2
	return int((p.pa+p.n-1)/u-p.pa/u) + 1
}

// concurrent: command x may have written while c was in flight
func c11sysConcurrent(x, c *c11sysCmd) bool {
	if x.q == c.q || !x.started {
		return false
	}
	return !(x.done && x.doneStep < c.startStep)
}

func (e *c11sysEnv) completed(qi int, c *c11sysCmd) {
	c.done, c.doneStep = true, e.step
	what := fmt.Sprintf("queue %d command %d: %s copy at %x (%d bytes)", qi, c.seq, c.kind, c.vaddr, c.l)
	// every memory transaction inside its physical ranges has been performed
	e.r.Checked("sys.completes-before-transactions")
	for i, p := range c.pcs {
		if c.performed[i] != e.lines(p) {
			e.fail("C11.sys.completes-before-transactions", "%s completed when %d of the %d memory transactions of its piece %d (physical %x+%d) were performed",
				what, c.performed[i], e.lines(p), i, p.pa, p.n)
			break
		}
	}
	if c.kind == "h" {
		e.r.Checked("sys.h2d-bytes")
		for _, p := range c.pcs {
			bad := false
			for i := uint64(0); i < p.n && !bad; i++ {
				a := p.pa + i
				t, ok := e.tag[a]
				switch {
				case ok && t == c.k:
					if e.memAt(a) != c.data[p.off+i] {
						e.fail("C11.sys.h2d-bytes", "%s completed: physical byte %x (offset %d) holds %02x, the host data is %02x", what, a, p.off+i, e.memAt(a), c.data[p.off+i])
						bad = true
					}
				case ok && t == -1:
					e.r.Count("sys.h2d-bytes.byte-under-write-back")
				case ok && t >= 0 && t < len(e.cmds) && c11sysConcurrent(e.cmds[t], c):
					e.r.Count("sys.h2d-bytes.byte-under-concurrent-copy")
				default:
					e.fail("C11.sys.h2d-bytes", "%s completed: physical byte %x (offset %d) was never written by it (last writer %d, present %v)", what, a, p.off+i, t, ok)
					bad = true
				}
			}
			// guard bytes around the piece
			for g := uint64(1); g <= 4 && !bad; g++ {
				for _, a := range []uint64{p.pa - g, p.pa + p.n + g - 1} {
					if t, ok := e.tag[a]; ok && t == c.k && c.offOf(a) < 0 {
						e.fail("C11.sys.h2d-bytes", "%s wrote physical byte %x outside its range (piece %x+%d)", what, a, p.pa, p.n)
						bad = true
					}
				}
			}
			if bad {
				break
			}
		}
		return
	}
	e.r.Checked("sys.d2h-bytes")
	rt := false
	for i, w := range c.expect {
		if w < 0 {
			e.r.Count("sys.d2h-bytes.byte-not-determined")
			continue
		}
		if int(c.dst[i]) == w {
			if c.expFrom[i] != nil && c.expFrom[i] == c.rtOf {
				rt = true
			}
			continue
		}
		if c.expFrom[i] != nil {
			x := c.expFrom[i]
			e.fail("C11.sys.roundtrip", "%s completed: byte %d of the host buffer is %02x, the host-to-device copy %d of the same queue wrote %02x there", what, i, c.dst[i], x.seq, w)
		} else {
			e.fail("C11.sys.d2h-bytes", "%s completed: byte %d of the host buffer is %02x, the device held %02x when the copy was enqueued and nothing wrote it since", what, i, c.dst[i], w)
		}
		return
	}
	if c.rtOf != nil {
		e.r.Checked("sys.roundtrip")
		if rt {
			e.r.Count("sys.roundtrip.compared")
		}
	}
}

func (e *c11sysEnv) tick() string {
	before := make([]int, len(e.qs))
	for i, q := range e.qs {
		before[i] = q.NumCommand()
	}
	p := false
	if f := catch(func() { p = e.d.Tick() }); f != "" {
		e.fault = "cannot_find_command"
		if !strings.Contains(f, "cannot_find") {
			e.fault = f
		}
		return "fault:" + e.fault
	}
	o := "t0"
	if p {
		o = "t1"
	}
	for i, q := range e.qs {
		for n := before[i] - q.NumCommand(); n > 0; n-- {
			o += fmt.Sprintf("!q%d", i)
			if e.doneQ[i] >= len(e.byQ[i]) {
				e.fail("C11.sys.bad-link", "queue %d completed more commands than were enqueued", i)
				continue
			}
			c := e.byQ[i][e.doneQ[i]]
			e.doneQ[i]++
			e.completed(i, c)
		}
	}
	return o
}

// the command a request of the driver belongs to: (queue, command)
func (e *c11sysEnv) owner(m sim.Msg) (int, *c11sysCmd) {
	for i, q := range e.qs {
		cs := q.VerifCommands()
		if len(cs) == 0 || e.doneQ[i] >= len(e.byQ[i]) {
			continue
		}
		for _, r := range cs[0].GetReqs() {
			if r == m {
				return i, e.byQ[i][e.doneQ[i]]
			}
		}
	}
	return -1, nil
}

func (e *c11sysEnv) toCP() string {
	m := e.gpu.PeekOutgoing()
	if m == nil {
		return "none"
	}
	qi, c := e.owner(m)
	rq := &c11sysReq{msg: m, cmd: c, idx: -1, kind: "?"}
	var key *byte
	switch q := m.(type) {
	case *protocol.FlushReq:
		rq.kind, rq.idx = "f", 0
	case *protocol.MemCopyH2DReq:
		rq.kind, rq.pa, rq.n = "h", q.DstAddress, uint64(len(q.SrcBuffer))
		if len(q.SrcBuffer) > 0 {
			key = &q.SrcBuffer[0]
		}
	case *protocol.MemCopyD2HReq:
		rq.kind, rq.pa, rq.n = "d", q.SrcAddress, uint64(len(q.DstBuffer))
		if len(q.DstBuffer) > 0 {
			key = &q.DstBuffer[0]
		}
	}
	if c != nil && rq.kind != "f" {
		for i, p := range c.pcs {
			if p.pa == rq.pa && p.n == rq.n && c.kind == rq.kind {
				rq.idx = i
			}
		}
	}
	if e.c.ToDriver.Deliver(m) != nil {
		e.r.Count("sys.backpressure.cp-driver-port")
		return "full" // the request stays in the driver's port
	}
	e.gpu.RetrieveOutgoing()
	rq.cpID = len(e.cpReqs)
	e.cpReqs = append(e.cpReqs, rq)
	e.reqOf[m] = rq
	if key != nil {
		e.byPayload[key] = rq
	}
	if c == nil || rq.idx < 0 {
		e.fail("C11.sys.bad-link", "the driver sent a %T (address %x, %d bytes) that is no request of the command at the head of a queue", m, rq.pa, rq.n)
		return "g[?]"
	}
	if !c.started {
		c.started, c.startStep = true, e.step
	}
	if rq.kind == "f" {
		return fmt.Sprintf("g[f%d.0]", qi)
	}
	return fmt.Sprintf("g[%s%d.%d@%x+%d]", rq.kind, qi, rq.idx, rq.pa, rq.n)
}

func (e *c11sysEnv) cpTick() string {
	p := false
	f := catch(func() { p = e.c.Tick() })
	if f != "" {
		switch {
		case strings.Contains(f, "never"):
			f = "never"
		case f == "nilderef":
		default:
			f = "cache_send"
		}
		e.fault = f
		return "fault:" + f
	}
	if p {
		return "t1"
	}
	return "t0"
}

func (e *c11sysEnv) cacheTake(k int) string {
	var l []string
	for i := 0; i < k; i++ {
		m := e.c.ToCaches.RetrieveOutgoing()
		if m == nil {
			break
		}
		q, ok := m.(*cache.FlushReq)
		if !ok {
			l = append(l, "?")
			continue
		}
		e.atCaches = append(e.atCaches, q)
		l = append(l, strconv.Itoa(e.cacheIx[q.Dst]))
	}
	return "xc[" + strings.Join(l, ",") + "]"
}

func (e *c11sysEnv) cacheAck(j int) string {
	if len(e.atCaches) == 0 {
		return "none"
	}
	j %= len(e.atCaches)
	q := e.atCaches[j]
	rsp := cache.FlushRspBuilder{}.WithSrc(q.Dst).WithDst(e.c.ToCaches.AsRemote()).WithRspTo(q.ID).Build()
	if e.c.ToCaches.Deliver(rsp) != nil {
		e.r.Count("sys.backpressure.cp-cache-port")
		return "full"
	}
	// the cache has written its dirty bytes back (oldest first) before it acknowledged
	ci := e.cacheIx[q.Dst]
	var keep []c11sysDirty
	for _, dd := range e.dirty {
		if dd.cache == ci {
			e.mem[dd.pa] = dd.v
			e.tag[dd.pa] = -1
			e.r.Count("sys.write-back-byte")
		} else {
			keep = append(keep, dd)
		}
	}
	e.dirty = keep
	e.atCaches = append(e.atCaches[:j:j], e.atCaches[j+1:]...)
	return "ok"
}

func (e *c11sysEnv) toDMA() string {
	m := e.c.ToDMA.PeekOutgoing()
	if m == nil {
		return "none"
	}
	var key *byte
	var pa, n uint64
	kind := "?"
	switch q := m.(type) {
	case *protocol.MemCopyH2DReq:
		kind, pa, n = "h", q.DstAddress, uint64(len(q.SrcBuffer))
		if n > 0 {
			key = &q.SrcBuffer[0]
		}
	case *protocol.MemCopyD2HReq:
		kind, pa, n = "d", q.SrcAddress, uint64(len(q.DstBuffer))
		if n > 0 {
			key = &q.DstBuffer[0]
		}
	}
	if e.dma.ToCP.Deliver(m) != nil {
		return "full"
	}
	e.c.ToDMA.RetrieveOutgoing()
	rq := e.byPayload[key]
	cl := &c11sysClone{req: rq, seq: e.nClones}
	e.nClones++
	e.cloneOf[m.Meta().ID] = cl
	if rq == nil {
		e.fail("C11.sys.bad-link", "the command processor forwarded a %T (address %x, %d bytes) whose payload is the payload of no request of the driver", m, pa, n)
		return "xd[?]"
	}
	e.r.Checked("sys.clone-payload")
	if rq.kind != kind || rq.pa != pa || rq.n != n {
		e.fail("C11.sys.clone-payload", "request %d of the driver (%s %x+%d) was forwarded to the DMA engine as %s %x+%d", rq.cpID, rq.kind, rq.pa, rq.n, kind, pa, n)
	}
	// the transactions the memory must see for this piece: one per access unit it touches
	u := uint64(1) << e.cfg.log2
	for a, left := rq.pa, rq.n; left > 0; {
		k := u - a%u
		if left < k {
			k = left
		}
		e.want = append(e.want, &c11sysWant{cl: cl, write: rq.kind == "h", addr: a, n: k})
		a, left = a+k, left-k
	}
	return fmt.Sprintf("xd[%s%d]", kind, rq.cpID)
}

func (e *c11sysEnv) dmaTick() string {
	p := false
	f := catch(func() { p = e.dma.Tick() })
	if f != "" {
		switch {
		case strings.Contains(f, "not_found"):
			f = "not_found"
		case strings.Contains(f, "find_requestcollection"):
			f = "no_collection"
		}
		e.fault = f
		return "fault:" + f
	}
	if p {
		return "t1"
	}
	return "t0"
}

func (e *c11sysEnv) memTake(k int) string {
	var l []string
	for i := 0; i < k; i++ {
		m := e.dma.ToMem.RetrieveOutgoing()
		if m == nil {
			break
		}
		tx := &c11sysTx{msg: m, id: m.Meta().ID}
		switch q := m.(type) {
		case *mem.WriteReq:
			tx.write, tx.addr, tx.n, tx.data = true, q.Address, uint64(len(q.Data)), q.Data
			l = append(l, fmt.Sprintf("w(%x,%d,%x)", q.Address, len(q.Data), fnv(q.Data)))
		case *mem.ReadReq:
			tx.addr, tx.n = q.Address, q.AccessByteSize
			l = append(l, fmt.Sprintf("r(%x,%d)", q.Address, q.AccessByteSize))
		default:
			l = append(l, "?")
		}
		e.r.Checked("sys.transaction-outside-range")
		for _, w := range e.want {
			if !w.matched && w.write == tx.write && w.addr == tx.addr && w.n == tx.n {
				w.matched, tx.owner = true, w.cl
				break
			}
		}
		if tx.owner == nil {
			e.fail("C11.sys.transaction-outside-range", "the DMA engine sent a memory transaction (write %v, %x+%d) that is no access-unit piece of a copy request it holds", tx.write, tx.addr, tx.n)
		}
		e.outst = append(e.outst, tx)
	}
	return "m[" + strings.Join(l, ",") + "]"
}

func (e *c11sysEnv) memDo(j int) string {
	if len(e.outst) == 0 {
		return "none"
	}
	j %= len(e.outst)
	tx := e.outst[j]
	var rsp sim.Msg
	if tx.write {
		rsp = mem.WriteDoneRspBuilder{}.WithSrc("Mem").WithDst(tx.msg.Meta().Src).WithRspTo(tx.id).Build()
	} else {
		data := make([]byte, tx.n)
		for i := range data {
			data[i] = e.memAt(tx.addr + uint64(i)) // the bytes the memory holds NOW
		}
		rsp = mem.DataReadyRspBuilder{}.WithSrc("Mem").WithDst(tx.msg.Meta().Src).WithRspTo(tx.id).WithData(data).Build()
	}
	if e.dma.ToMem.Deliver(rsp) != nil {
		return "full" // nothing performed
	}
	e.outst = append(e.outst[:j:j], e.outst[j+1:]...)
	e.r.Checked("sys.transaction-twice")
	if e.performed[tx.id] {
		e.fail("C11.sys.transaction-twice", "memory transaction %x+%d (write %v) was sent to the memory and performed twice", tx.addr, tx.n, tx.write)
	}
	e.performed[tx.id] = true
	var c *c11sysCmd
	if tx.owner != nil && tx.owner.req != nil {
		rq := tx.owner.req
		c = rq.cmd
		if c != nil && rq.idx >= 0 {
			c.performed[rq.idx]++
		}
		if c != nil && (c.done || tx.addr < rq.pa || tx.addr+tx.n > rq.pa+rq.n) {
			e.fail("C11.sys.transaction-outside-range", "memory transaction %x+%d performed for piece %x+%d of a command that is complete: %v", tx.addr, tx.n, rq.pa, rq.n, c.done)
		}
	}
	if tx.write {
		who := -2
		if c != nil {
			who = c.k
		}
		for i, b := range tx.data {
			a := tx.addr + uint64(i)
			e.mem[a] = b
			e.tag[a] = who
			// a device-to-host copy of another queue in flight over this byte races with the write
			for _, x := range e.cmds {
				if x.kind == "d" && !x.done && (c == nil || x.q != c.q) {
					if o := x.offOf(a); o >= 0 {
						x.expect[o] = -1
					}
				}
			}
		}
		return "ok"
	}
	if c != nil {
		e.r.Checked("sys.read-before-flush")
		for _, dd := range e.dirty {
			if dd.pa >= tx.addr && dd.pa < tx.addr+tx.n && dd.step < c.enqStep {
				e.fail("C11.sys.read-before-flush", "queue %d command %d (D2H at %x, %d bytes, enqueued after the kernel's write): the memory is read at %x+%d while the byte at %x is still dirty in cache %d",
					c.q, c.seq, c.vaddr, c.l, tx.addr, tx.n, dd.pa, dd.cache)
				break
			}
		}
	}
	return "ok"
}

func (e *c11sysEnv) dmaOut() string {
	var l []string
	for {
		m := e.dma.ToCP.RetrieveOutgoing()
		if m == nil {
			break
		}
		e.wire = append(e.wire, m)
		s := "?"
		if rsp, ok := m.(*sim.GeneralRsp); ok && rsp.OriginalReq != nil {
			if cl, ok := e.cloneOf[rsp.OriginalReq.Meta().ID]; ok {
				s = strconv.Itoa(cl.seq)
			}
		}
		if s == "?" {
			e.fail("C11.sys.bad-link", "the DMA engine answered with a %T that answers no copy request it was given", m)
		}
		l = append(l, s)
	}
	return "c[" + strings.Join(l, ",") + "]"
}

func (e *c11sysEnv) toCPRsp() string {
	if len(e.wire) == 0 {
		return "none"
	}
	if e.c.ToDMA.Deliver(e.wire[0]) != nil {
		e.r.Count("sys.backpressure.cp-dma-port")
		return "full" // stays on the wire
	}
	e.wire = e.wire[1:]
	return "ok"
}

func (e *c11sysEnv) toDrv() string {
	m := e.c.ToDriver.PeekOutgoing()
	if m == nil {
		return "none"
	}
	if e.gpu.Deliver(m) != nil {
		return "full"
	}
	e.c.ToDriver.RetrieveOutgoing()
	if rsp, ok := m.(*sim.GeneralRsp); ok {
		if rq, ok := e.reqOf[rsp.OriginalReq]; ok {
			return fmt.Sprintf("xr[%s%d]", rq.kind, rq.cpID)
		}
	}
	e.fail("C11.sys.bad-link", "the command processor answered the driver with a %T that answers no request of the driver", m)
	return "xr[?]"
}

func (e *c11sysEnv) kwrite(i int, pa uint64, v byte) string {
	e.dirty = append(e.dirty, c11sysDirty{cache: i, pa: pa, v: v, step: e.step})
	for _, x := range e.cmds {
		if x.kind == "d" && !x.done {
			if o := x.offOf(pa); o >= 0 {
				x.expect[o] = -1 // a later write of the scenario touches it
			}
		}
	}
	e.r.Count("sys.kernel-write")
	return "ok"
}

func (e *c11sysEnv) img() string {
	var hs, ds []string
	for _, c := range e.cmds {
		var b []byte
		for _, p := range c.pcs {
			for a := p.pa - 4; a < p.pa+p.n+4; a++ {
				b = append(b, e.memAt(a))
			}
		}
		hs = append(hs, fmt.Sprintf("%x", fnv(b)))
		if c.kind == "d" && c.done {
			ds = append(ds, fmt.Sprintf("d%d.%d=%x", c.q, c.seq, fnv(c.dst)))
		}
	}
	return strings.Join(hs, ",") + "|" + strings.Join(ds, ",")
}

func (e *c11sysEnv) do(op string) string {
	e.step++
	e.ops = append(e.ops, op)
	o := e.exec(strings.Fields(op))
	e.out = append(e.out, o)
	return o
}

func (e *c11sysEnv) exec(t []string) string {
	n := 0
	if len(t) > 1 {
		n, _ = strconv.Atoi(t[1])
	}
	switch t[0] {
	case "e":
		if len(t) != 6 {
			return "bad"
		}
		va, err1 := strconv.ParseUint(t[3], 16, 64)
		l, err2 := strconv.ParseUint(t[4], 10, 64)
		salt, err3 := strconv.ParseUint(t[5], 10, 64)
		if err1 != nil || err2 != nil || err3 != nil {
			return "bad"
		}
		kind := "d"
		if t[2] == "h" {
			kind = "h"
		}
		return e.enqueue(n, kind, va, l, salt)
	case "t":
		return e.tick()
	case "g":
		return e.toCP()
	case "c":
		return e.cpTick()
	case "xc":
		return e.cacheTake(n)
	case "a":
		return e.cacheAck(n)
	case "m":
		return e.toDMA()
	case "T":
		return e.dmaTick()
	case "M":
		return e.memTake(n)
	case "R":
		return e.memDo(n)
	case "D":
		return e.dmaOut()
	case "d":
		return e.toCPRsp()
	case "r":
		return e.toDrv()
	case "kw":
		if len(t) != 4 {
			return "bad"
		}
		pa, err1 := strconv.ParseUint(t[2], 16, 64)
		v, err2 := strconv.Atoi(t[3])
		if err1 != nil || err2 != nil {
			return "bad"
		}
		return e.kwrite(n, pa, byte(v))
	case "img":
		return e.img()
	}
	return "bad"
}

func (e *c11sysEnv) pending() int {
	n := 0
	for _, q := range e.qs {
		n += q.NumCommand()
	}
	return n
}

var c11sysQuiet = map[string]bool{"t0": true, "none": true, "full": true, "xc[]": true, "m[]": true, "c[]": true}

// one round over all moves (a move whose source buffer is visibly empty is skipped); reports progress.
// The environment's parts have a per-scenario eagerness (lazy caches, lazy memory, lazy links);
// `force` makes every part move.
func (e *c11sysEnv) round(force bool) bool {
	prog := false
	p := func(op string) string {
		o := e.do(op)
		if !c11sysQuiet[o] {
			prog = true
		}
		return o
	}
	on := func(pct int) bool { return force || e.rng.Chance(pct) }
	p("t")
	if on(e.lazy[0]) {
		for i := 0; i < 6 && e.gpu.PeekOutgoing() != nil; i++ {
			if p("g") == "full" {
				break
			}
		}
	}
	p("c")
	if e.c.ToCaches.PeekOutgoing() != nil && on(e.lazy[1]) {
		p("xc 9")
	}
	if on(e.lazy[1]) {
		for i := 0; i < 6 && len(e.atCaches) > 0; i++ {
			if p(fmt.Sprintf("a %d", e.rng.Intn(4))) != "ok" {
				break
			}
		}
	}
	if e.fault != "" {
		return prog
	}
	p("c")
	if on(e.lazy[2]) {
		for i := 0; i < 6 && e.c.ToDMA.PeekOutgoing() != nil; i++ {
			p("m")
		}
	}
	p("T")
	if e.dma.ToMem.PeekOutgoing() != nil && on(e.lazy[3]) {
		p("M 9")
	}
	if on(e.lazy[3]) {
		for i := 0; i < 12 && len(e.outst) > 0 && e.fault == ""; i++ {
			if p(fmt.Sprintf("R %d", e.rng.Intn(5))) != "ok" {
				break
			}
			if e.rng.Chance(50) {
				p("T")
			}
		}
	}
	if e.fault != "" {
		return prog
	}
	p("T")
	if e.dma.ToCP.PeekOutgoing() != nil && on(e.lazy[2]) {
		p("D")
	}
	if on(e.lazy[2]) {
		for i := 0; i < 6 && len(e.wire) > 0; i++ {
			if p("d") != "ok" {
				break
			}
		}
	}
	if e.fault != "" {
		return prog
	}
	p("c")
	if on(e.lazy[0]) {
		for i := 0; i < 6 && e.c.ToDriver.PeekOutgoing() != nil; i++ {
			p("r")
		}
	}
	return prog
}

func (e *c11sysEnv) finish() {
	idle := 0
	lim := e.cfg.h2d + e.cfg.d2h + 8
	for n := 0; n < 600 && e.fault == "" && e.pending() > 0; n++ {
		if e.round(idle > 0) {
			idle = 0
		} else if idle++; idle > lim {
			break
		}
	}
	if e.fault == "" {
		// one more round: nothing may move any more (no second answer, no second completion)
		for _, op := range []string{"t", "g", "c", "xc 9", "m", "T", "M 9", "D", "d", "c", "r", "t"} {
			e.do(op)
		}
		e.do("img")
	}
	e.r.Case(e.line(), strings.Join(e.out, " "))
	e.r.Count("sys.scenario")
	e.r.CountN("sys.ops", len(e.ops)-1)
	for _, o := range e.out {
		if strings.Contains(o, "bad-link") || strings.Contains(o, "?") {
			e.fail("C11.sys.bad-link", "output %q", o)
		}
	}
	if e.fault != "" {
		e.r.Count("sys.fault." + e.fault)
		e.fail("C11.sys.panic", "a component panicked: %s", e.fault)
		return
	}
	e.r.Checked("sys.never-completes")
	for i, q := range e.qs {
		if q.NumCommand() == 0 {
			continue
		}
		c := e.byQ[i][e.doneQ[i]]
		e.fail("C11.sys.never-completes", "queue %d command %d (%s copy at %x, %d bytes, flush %v) never completes although every message was moved and every component ticked until nothing changed",
			i, c.seq, c.kind, c.vaddr, c.l, c.flush)
		break
	}
}

// ---- scenario generator

type c11sysPlan struct {
	q     int
	kind  string
	vaddr uint64
	l     uint64
	salt  uint64
	rtOf  int // index of the planned H2D command this one reads back, -1
}

func (e *c11sysEnv) randomMove() {
	rng := e.rng
	x := rng.Intn(100)
	switch {
	case x < 16:
		e.do("t")
	case x < 28:
		e.do("g")
	case x < 42:
		e.do("c")
	case x < 47:
		e.do(fmt.Sprintf("xc %d", rng.Pick(1, 2, 9)))
	case x < 54:
		e.do(fmt.Sprintf("a %d", rng.Intn(5)))
	case x < 62:
		e.do("m")
	case x < 75:
		e.do("T")
	case x < 80:
		e.do(fmt.Sprintf("M %d", rng.Pick(1, 2, 8)))
	case x < 89:
		e.do(fmt.Sprintf("R %d", rng.Intn(6)))
	case x < 92:
		e.do("D")
	case x < 95:
		e.do("d")
	case x < 99:
		e.do("r")
	default:
		e.do("img")
	}
}

func c11sysScenario(r *Run, rng *Rng) {
	cfg := c11sysCfg{cin: 4096, cdrv: 4096, cdma: 4096, ccache: 4096, log2: uint64(rng.Pick(6, 6, 6, 6, 5, 7))}
	cfg.nI, cfg.nS, cfg.nV, cfg.nL2 = rng.Pick(0, 0, 1), rng.Pick(0, 0, 1), rng.Pick(0, 1, 1), rng.Pick(0, 1, 1)
	if rng.Chance(8) {
		cfg.nI, cfg.nS, cfg.nV, cfg.nL2 = 0, 0, 0, 0
	}
	nc := cfg.nI + cfg.nS + cfg.nV + cfg.nL2
	if rng.Chance(40) { // small buffers: back-pressure on every port of the command processor
		cfg.cin, cfg.cdrv, cfg.cdma = rng.Pick(1, 2, 3, 8), rng.Pick(1, 2, 3, 8), rng.Pick(1, 2, 3, 8)
		cfg.ccache = nc + rng.Pick(0, 0, 1, 3)
		if cfg.ccache == 0 {
			cfg.ccache = 1
		}
		r.Count("sys.small-buffers")
	}
	cfg.h2d, cfg.d2h = rng.Pick(0, 0, 1, 2, 5), rng.Pick(0, 0, 1, 3, 4)
	cfg.nQ = rng.Pick(1, 2, 2, 3)
	e := c11sysNew(r, rng, cfg)
	for i := range e.lazy {
		e.lazy[i] = rng.Pick(100, 100, 100, 50, 15)
	}
	r.Count(fmt.Sprintf("sys.caches%d", nc))
	r.Count(fmt.Sprintf("sys.queues%d", cfg.nQ))

	nb := rng.Range(1, 3)
	warm := rng.Chance(65)
	before := nb
	if warm && nb > 1 && rng.Chance(50) {
		before = nb - 1 // the last buffer is allocated after the launch: it stays clean
	}
	for i := 0; i < before; i++ {
		e.alloc(rng.Range(1, 3))
	}
	if warm {
		if !e.launchKernel() {
			r.Note("c11 sys: the kernel launch was not sent")
			return
		}
		r.Count("sys.warm")
	}
	for i := before; i < nb; i++ {
		e.alloc(rng.Range(1, 3))
	}
	// some pages move to another physical frame: the physical image of a buffer is not contiguous
	if rng.Chance(60) {
		for i, n := 0, rng.Range(1, 3); i < n; i++ {
			b := e.bufs[rng.Intn(len(e.bufs))]
			va := b.addr + uint64(rng.Intn(int(b.size/c11sysPage)))*c11sysPage
			if f := catch(func() { e.d.Remap(e.ctx, va, c11sysPage, 1) }); f != "" {
				r.Note("c11 sys: remap failed: %s", f)
				return
			}
			r.Count("sys.page-remapped")
		}
	}
	if !e.header() {
		r.Note("c11 sys: the driver's buffer list / page table is not what was allocated")
		return
	}

	// the copies: around page boundaries and access-unit lines
	var plan []c11sysPlan
	ncmd := rng.Range(1, 5)
	for k := 0; k < ncmd; k++ {
		p := c11sysPlan{q: rng.Intn(cfg.nQ), kind: c11PickS(rng, "h", "h", "d"), salt: uint64(rng.Intn(50)), rtOf: -1}
		if len(plan) > 0 && rng.Chance(35) { // read back what an earlier copy of the same queue wrote
			var hs []int
			for i, x := range plan {
				if x.kind == "h" {
					hs = append(hs, i)
				}
			}
			if len(hs) > 0 {
				i := hs[rng.Intn(len(hs))]
				p = c11sysPlan{q: plan[i].q, kind: "d", vaddr: plan[i].vaddr, l: plan[i].l, rtOf: i}
				if rng.Chance(25) && p.l > 2 { // a part of it
					p.vaddr, p.l, p.rtOf = p.vaddr+1, p.l-2, i
				}
				plan = append(plan, p)
				r.Count("sys.plan.roundtrip")
				continue
			}
		}
		b := e.bufs[rng.Intn(len(e.bufs))]
		if len(e.bufs) > 1 && b.size == c11sysPage && rng.Chance(50) { // prefer a buffer with a page boundary inside
			b = e.bufs[rng.Intn(len(e.bufs))]
		}
		pages := int(b.size / c11sysPage)
		var off, l uint64
		over := rng.Chance(30) // may run over the end of the buffer into the next one
		switch x := rng.Intn(10); {
		case x < 4: // over (or up to, or from) a page boundary
			pg := uint64(rng.Range(1, pages)) // pg == pages: the end of the buffer
			if pages > 1 && rng.Chance(85) {
				pg = uint64(rng.Range(1, pages-1))
			} else {
				over = rng.Chance(60)
			}
			d := uint64(rng.Pick(0, 1, 3, 32, 63, 64, 65, 100, 199))
			off = pg*c11sysPage - d
			l = d + uint64(rng.Pick(0, 1, 1, 2, 63, 64, 65, 128))
			if l > 200 {
				l = 200
			}
			r.Count("sys.plan.at-page-boundary")
		case x < 7: // at an access-unit line
			off = uint64(rng.Intn(int(b.size/64)))*64 + uint64(rng.Pick(0, 0, 1, 63))
			l = uint64(rng.Pick(0, 1, 63, 64, 64, 65, 128, 130, 200))
			if rng.Chance(30) { // exactly to the end of the line
				l = 64 - off%64
			}
		case x < 8:
			off, l = uint64(rng.Pick(0, 0, 1, 4095)), uint64(rng.Pick(1, 64, 200, rng.Intn(201)))
		default:
			off, l = uint64(rng.Intn(int(b.size))), uint64(rng.Intn(201))
		}
		if off > b.size {
			off = b.size
		}
		if off+l > b.size && !over {
			l = b.size - off
		}
		p.vaddr, p.l = b.addr+off, l
		for p.l > 0 {
			if _, ok := e.pieces(p.vaddr, p.l); ok {
				break
			}
			p.l = b.addr + b.size - p.vaddr // the next page does not exist
			if _, ok := e.pieces(p.vaddr, p.l); !ok {
				p.l = 0
			}
		}
		if p.vaddr+p.l > b.addr+b.size {
			r.Count("sys.plan.over-buffer-end")
		}
		plan = append(plan, p)
	}

	// kernel writes: only into buffers that existed at the launch, one cache per address
	cacheOf := map[uint64]int{}
	kw := func(pa uint64) {
		ci, ok := cacheOf[pa]
		if !ok {
			ci = rng.Intn(nc)
			cacheOf[pa] = ci
		}
		e.do(fmt.Sprintf("kw %d %x %d", ci, pa, rng.Intn(256)))
	}
	dirtyAddr := func(p c11sysPlan) (uint64, bool) { // a physical byte of the copy inside a dirty buffer
		if !warm || nc == 0 || p.l == 0 {
			return 0, false
		}
		va := p.vaddr + uint64(rng.Intn(int(p.l)))
		if rng.Chance(25) {
			va = p.vaddr + uint64(rng.Pick(0, int(p.l)-1))
		}
		for _, b := range e.bufs {
			if b.dirty && va >= b.addr && va < b.addr+b.size {
				pc, ok := e.pieces(va, 1)
				if ok && len(pc) == 1 {
					return pc[0].pa, true
				}
			}
		}
		return 0, false
	}

	upfront := rng.Chance(40)
	next := 0
	enq := func() {
		p := plan[next]
		if p.kind == "d" && rng.Chance(60) { // the kernel wrote what this copy reads: it needs the flush
			for i, n := 0, rng.Range(1, 3); i < n; i++ {
				if pa, ok := dirtyAddr(p); ok {
					kw(pa)
				}
			}
		}
		e.do(fmt.Sprintf("e %d %s %x %d %d", p.q, p.kind, p.vaddr, p.l, p.salt))
		c := e.cmds[len(e.cmds)-1]
		if p.rtOf >= 0 && p.rtOf < len(e.cmds) {
			c.rtOf = e.cmds[p.rtOf]
		}
		next++
	}
	if upfront {
		for next < len(plan) {
			enq()
		}
	}
	steps := rng.Range(15, 140)
	for i := 0; i < steps && e.fault == ""; i++ {
		switch {
		case next < len(plan) && rng.Chance(12):
			enq()
		case rng.Chance(3):
			if pa, ok := dirtyAddr(plan[rng.Intn(len(plan))]); ok { // at any time, also under a copy in flight
				kw(pa)
			}
		case rng.Chance(15):
			e.round(false)
		default:
			e.randomMove()
		}
	}
	for next < len(plan) && e.fault == "" {
		enq()
	}
	e.finish()
}

func runC11Sys(r *Run, rng *Rng, replay string) {
	n := 120
	if r.Tier == "thorough" {
		n = 3000
	}
	for i := 0; i < n; i++ {
		c11sysScenario(r, rng)
	}
}
