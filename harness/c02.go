package main

// C02 — timing mode is functionally transparent. Component part:
// the real coalescer / vector-memory issue code / return path / SMEM path / wavefront dispatcher of a
// real cu.ComputeUnit (built by its Builder, no engine; hook amd/timing/cu/verif_export_c02.go) against
// the real emulator handlers (emu.ALUImpl, cdna3.ALU, emu.initWfRegs) on the same memory image.
// Whole-platform part: c02_runs.go.

import (
	"encoding/binary"
	"fmt"
	"sort"
	"strings"

	"github.com/sarchlab/akita/v4/mem/mem"
	"github.com/sarchlab/akita/v4/mem/vm"
	"github.com/sarchlab/akita/v4/sim"
	"github.com/sarchlab/mgpusim/v4/amd/emu"
	"github.com/sarchlab/mgpusim/v4/amd/emu/cdna3"
	"github.com/sarchlab/mgpusim/v4/amd/insts"
	"github.com/sarchlab/mgpusim/v4/amd/kernels"
	"github.com/sarchlab/mgpusim/v4/amd/protocol"
	"github.com/sarchlab/mgpusim/v4/amd/timing/cu"
	"github.com/sarchlab/mgpusim/v4/amd/timing/wavefront"
)

func init() { register("C02", runC02) }

// c02Runs is set by c02_runs.go (whole-platform cross-check).
var c02Runs func(r *Run, rng *Rng)

// ---- memory image shared with the Lean model ------------------------------------------

func c02MemByte(seed uint64, a uint64) byte {
	x := uint32(a)*2654435761 + uint32(seed)*40503 + 12345
	y := (x ^ (x >> 16)) * 73244475
	return byte(y >> 8)
}

func c02DataWord(seed uint64, lane, j int) uint32 {
	x := uint32(seed)*7919 + uint32(lane)*104729 + uint32(j)*1299709 + 17
	return (x ^ (x >> 13)) * 2246822519
}

func c02Prefill(lane, reg int) uint32 { return 0xA0000000 + uint32(lane)*256 + uint32(reg) }

// c02Mem is the emulator's storage: pattern memory + overlay of writes.
type c02Mem struct {
	seed    uint64
	pattern bool
	over    map[uint64]byte
}

func (m *c02Mem) at(a uint64) byte {
	if b, ok := m.over[a]; ok {
		return b
	}
	if m.pattern {
		return c02MemByte(m.seed, a)
	}
	return 0
}
func (m *c02Mem) Read(pid vm.PID, a, n uint64) []byte {
	o := make([]byte, n)
	for i := range o {
		o[i] = m.at(a + uint64(i))
	}
	return o
}
func (m *c02Mem) Write(pid vm.PID, a uint64, d []byte) {
	for i, b := range d {
		m.over[a+uint64(i)] = b
	}
}

func c02Runs2Str(m map[uint64]byte) string {
	if len(m) == 0 {
		return "-"
	}
	ks := make([]uint64, 0, len(m))
	for k := range m {
		ks = append(ks, k)
	}
	sort.Slice(ks, func(i, j int) bool { return ks[i] < ks[j] })
	var out []string
	start, end := ks[0], ks[0]
	cur := []byte{m[ks[0]]}
	for _, k := range ks[1:] {
		if k == end+1 {
			end = k
			cur = append(cur, m[k])
			continue
		}
		out = append(out, fmt.Sprintf("%x:%s", start, hexb(cur)))
		start, end, cur = k, k, []byte{m[k]}
	}
	out = append(out, fmt.Sprintf("%x:%s", start, hexb(cur)))
	return strings.Join(out, " ")
}

// ---- environment ---------------------------------------------------------------------

const (
	c02AddrReg  = 2 // v[2:3]
	c02SBaseReg = 4 // s[4:5]
	c02VOff     = 64
	c02SOff     = 128
)

type c02Env struct {
	mem   *c02Mem
	ewf   *emu.Wavefront
	gcn3  *emu.ALUImpl
	cdna  *cdna3.ALU
	dG    *insts.Disassembler
	dC    *insts.Disassembler
	cu    *cu.ComputeUnit
	twf   *wavefront.Wavefront
	tmem  map[uint64]byte // memory behind the timing CU (stores)
	insts map[string]*insts.Inst
}

func newC02Env() *c02Env {
	e := &c02Env{mem: &c02Mem{over: map[uint64]byte{}}, insts: map[string]*insts.Inst{}}
	e.ewf = emu.NewWavefront(nil)
	e.ewf.VerifSetPID(1)
	e.gcn3 = emu.NewALU(e.mem)
	e.cdna = cdna3.NewALU(e.mem)
	e.dG = insts.NewDisassembler()
	e.dC = insts.NewDisassembler()
	e.dC.IsCDNA3 = true
	c := cu.MakeBuilder().WithEngine(&fakeEngine{}).
		WithVectorMemModules(&mem.SinglePortMapper{Port: sim.RemotePort("VMem")}).Build("CU")
	c.ScalarMem = sim.NewPort(c, 4, 4, "SMem")
	e.cu = c
	return e
}

func (e *c02Env) decode(arch string, d desc) *insts.Inst {
	key := fmt.Sprint(arch, d.format, d.op, d.f)
	if i, ok := e.insts[key]; ok {
		return i
	}
	dd := e.dG
	if arch == "cdna3" {
		dd = e.dC
	}
	i, err := dd.Decode(encodeDesc(d))
	if err != nil {
		panic(err)
	}
	e.insts[key] = i
	return i
}

func (e *c02Env) newTimingWf(exec uint64) *wavefront.Wavefront {
	wf := wavefront.NewWavefront(kernels.NewWavefront())
	wf.SIMDID = 1
	wf.VRegOffset = c02VOff
	wf.SRegOffset = c02SOff
	wf.SetPID(1)
	wf.SetEXEC(exec)
	e.cu.VerifNewWavefront(wf)
	e.cu.InFlightVectorMemAccess = nil
	e.cu.InFlightScalarMemAccess = nil
	return wf
}

func (e *c02Env) tSetV(lane, reg int, v uint32) {
	e.cu.VRegFile[1].Write(cu.RegisterAccess{Reg: insts.VReg(reg), RegCount: 1, LaneID: lane, WaveOffset: c02VOff, Data: insts.Uint32ToBytes(v)})
}
func (e *c02Env) tGetV(lane, reg int) uint32 {
	b := make([]byte, 4)
	e.cu.VRegFile[1].Read(cu.RegisterAccess{Reg: insts.VReg(reg), RegCount: 1, LaneID: lane, WaveOffset: c02VOff, Data: b})
	return binary.LittleEndian.Uint32(b)
}
func (e *c02Env) tSetS(reg int, v uint32) {
	e.cu.SRegFile.Write(cu.RegisterAccess{Reg: insts.SReg(reg), RegCount: 1, WaveOffset: c02SOff, Data: insts.Uint32ToBytes(v)})
}
func (e *c02Env) tGetS(reg int) uint32 {
	b := make([]byte, 4)
	e.cu.SRegFile.Read(cu.RegisterAccess{Reg: insts.SReg(reg), RegCount: 1, WaveOffset: c02SOff, Data: b})
	return binary.LittleEndian.Uint32(b)
}
func (e *c02Env) eSetV(lane, reg int, v uint32) {
	binary.LittleEndian.PutUint32(e.ewf.VRegFile[lane*1024+reg*4:], v)
}
func (e *c02Env) eGetV(lane, reg int) uint32 {
	return binary.LittleEndian.Uint32(e.ewf.VRegFile[lane*1024+reg*4:])
}
func (e *c02Env) eSetS(reg int, v uint32) { binary.LittleEndian.PutUint32(e.ewf.SRegFile[reg*4:], v) }
func (e *c02Env) eGetS(reg int) uint32    { return binary.LittleEndian.Uint32(e.ewf.SRegFile[reg*4:]) }

func (e *c02Env) runEmu(arch string, inst *insts.Inst, exec uint64) string {
	e.ewf.VerifSetInst(inst)
	e.ewf.SetEXEC(exec)
	var alu emu.ALU = e.gcn3
	if arch == "cdna3" {
		alu = e.cdna
	}
	return catch(func() { alu.Run(e.ewf) })
}

func c02Fault(f string) string {
	switch {
	case f == "":
		return ""
	case f == "bounds":
		return "fault:bounds"
	case strings.HasPrefix(f, "explicit"):
		return "fault:explicit"
	}
	return "fault:" + f
}

// ---- FLAT cases -----------------------------------------------------------------------

type c02Flat struct {
	opc   int
	arch  string
	exec  uint64
	dst   int // destination (loads) or data (stores) register
	sa    bool
	sbase uint64
	imm   uint32   // Offset0 (13-bit offset, sign-extended to 32 bits)
	seed  uint64
	vals  []uint64 // raw VGPR address values of the active lanes
	ord   []int
}

func (c *c02Flat) line(kind string) string {
	var a []string
	for _, v := range c.vals {
		a = append(a, fmt.Sprintf("%x", v))
	}
	as := strings.Join(a, ",")
	if as == "" {
		as = "-"
	}
	sa := 0
	if c.sa {
		sa = 1
	}
	s := fmt.Sprintf("c02 %s opc=%d lg=6 arch=%s exec=%x", kind, c.opc, c.arch, c.exec)
	if kind == "ld" {
		s += fmt.Sprintf(" dst=%d", c.dst)
	}
	return s + fmt.Sprintf(" sa=%d sbase=%x imm=%x seed=%d a=%s ord=%s", sa, c.sbase, c.imm, c.seed, as, c08Ints(c.ord))
}

func (c *c02Flat) effAddr(v uint64) uint64 {
	base := v
	if c.sa {
		base = c.sbase + (v & 0xFFFFFFFF)
	}
	return uint64(int64(base) + int64(int32(c.imm)))
}

func (c *c02Flat) inst(e *c02Env) *insts.Inst {
	saddr, seg := uint32(0x7f), uint32(0)
	if c.sa {
		// the scalar base exists in the GLOBAL segment only (SEG=2); CDNA3 ignores SADDR in the FLAT segment
		saddr, seg = c02SBaseReg, 2
	}
	return e.decode(c.arch, desc{format: "flat", op: uint32(c.opc), f: map[string]uint32{
		"vdst": uint32(c.dst), "data": uint32(c.dst), "addr": c02AddrReg, "saddr": saddr, "seg": seg, "offset": c.imm & 0x1fff}})
}

func c02OpName(opc int) string {
	return map[int]string{16: "ubyte", 17: "sbyte", 18: "ushort", 19: "sshort", 20: "dword", 21: "dwordx2", 22: "dwordx3", 23: "dwordx4",
		24: "byte", 26: "short", 28: "dword", 29: "dwordx2", 30: "dwordx3", 31: "dwordx4"}[opc]
}

func c02Width(opc int) (width, cnt int) {
	switch opc {
	case 16, 17, 24:
		return 1, 1
	case 18, 19, 26:
		return 2, 1
	case 20, 28:
		return 4, 1
	case 21, 29:
		return 4, 2
	case 22, 30:
		return 4, 3
	}
	return 4, 4
}

// setRegs loads address registers (garbage in inactive lanes) and prefill/data into both register files.
func (c *c02Flat) setRegs(e *c02Env, rng *Rng, store bool) {
	k := 0
	_, cnt := c02Width(c.opc)
	for l := 0; l < 64; l++ {
		var v uint64
		if c.exec&(1<<uint(l)) != 0 {
			v = c.vals[k]
			k++
		} else {
			v = rng.U64() >> 16
		}
		e.eSetV(l, c02AddrReg, uint32(v))
		e.eSetV(l, c02AddrReg+1, uint32(v>>32))
		e.tSetV(l, c02AddrReg, uint32(v))
		e.tSetV(l, c02AddrReg+1, uint32(v>>32))
		for r := c.dst - 1; r <= c.dst+4; r++ {
			p := c02Prefill(l, r)
			if store && r >= c.dst && r < c.dst+cnt {
				p = c02DataWord(c.seed, l, r-c.dst)
			}
			e.eSetV(l, r, p)
			e.tSetV(l, r, p)
		}
	}
	e.eSetS(c02SBaseReg, uint32(c.sbase))
	e.eSetS(c02SBaseReg+1, uint32(c.sbase>>32))
	e.tSetS(c02SBaseReg, uint32(c.sbase))
	e.tSetS(c02SBaseReg+1, uint32(c.sbase>>32))
}

func (c *c02Flat) delta(get func(l, r int) uint32) string {
	var p []string
	for l := 0; l < 64; l++ {
		for r := c.dst - 1; r <= c.dst+4; r++ {
			if v := get(l, r); v != c02Prefill(l, r) {
				p = append(p, fmt.Sprintf("%d.%d=%x", l, r, v))
			}
		}
	}
	if len(p) == 0 {
		return "-"
	}
	return strings.Join(p, " ")
}

func (c *c02Flat) straddles() bool {
	w, cnt := c02Width(c.opc)
	for _, v := range c.vals {
		for j := 0; j < cnt; j++ {
			if (c.effAddr(v)+uint64(4*j))%64+uint64(w) > 64 {
				return true
			}
		}
	}
	return false
}

func (e *c02Env) runLoad(r *Run, rng *Rng, c *c02Flat) {
	line := c.line("ld")
	inst := c.inst(e)
	e.mem.pattern, e.mem.seed, e.mem.over = true, c.seed, map[uint64]byte{}
	c.setRegs(e, rng, false)
	// emulator
	var eout string
	if f := e.runEmu(c.arch, inst, c.exec); f != "" {
		if strings.Contains(f, "not_implemented") || strings.HasPrefix(f, "explicit") {
			eout = "unsupported"
		} else {
			eout = c02Fault(f)
		}
	} else {
		eout = c.delta(e.eGetV)
	}
	// timing
	wf := e.newTimingWf(c.exec)
	wf.SetDynamicInst(wavefront.NewInst(inst))
	var txns []cu.VerifTxn
	var ok bool
	tf := catch(func() { ok, txns = e.cu.VerifFlatIssue(wf) })
	var tx []string
	for _, t := range txns {
		tx = append(tx, fmt.Sprintf("%x:%d", t.Read.Address, len(t.Lanes)))
	}
	tout := ""
	earlyZero := false
	if tf == "" && ok {
		for n, i := range c.ord {
			if i >= len(txns) {
				continue
			}
			t := txns[i]
			data := make([]byte, t.Read.AccessByteSize)
			for k := range data {
				data[k] = c02MemByte(c.seed, t.Read.Address+uint64(k))
			}
			rsp := mem.DataReadyRspBuilder{}.WithRspTo(t.Read.ID).WithData(data).Build()
			if tf = catch(func() { e.cu.VerifVectorMemRsp(rsp) }); tf != "" {
				break
			}
			if wf.OutstandingVectorMemAccess == 0 && n != len(c.ord)-1 {
				earlyZero = true
			}
		}
	}
	if tf != "" {
		tout = c02Fault(tf)
	} else {
		tout = c.delta(e.tGetV)
	}
	r.Case(line, fmt.Sprintf("E %s | T txns=%s %s", eout, strings.Join(tx, ","), tout))

	// oracles on the implementation
	name := c02OpName(c.opc)
	r.Count("ld:" + name)
	r.Count(fmt.Sprintf("ld:lines=%d", c02Bucket(len(txns))))
	inorder := sort.IntsAreSorted(c.ord)
	if len(c.ord) != len(txns) {
		r.Note("ld: order length %d != transactions %d in %s", len(c.ord), len(txns), line)
	}
	switch {
	case eout == "unsupported":
		r.Checked("load-emu-vs-timing")
		r.Failf("C02.unsupported.emu.flat_load_"+name, line, "the emulator has no handler (%s); timing gives %s", eout, tout)
	case eout != tout:
		r.Checked("load-emu-vs-timing")
		sig := "C02.load-differs." + name
		if c.straddles() {
			sig = "C02.load-differs.straddle"
		}
		r.Failf(sig, line, "emulator: %s  timing: %s", eout, tout)
	default:
		r.Checked("load-emu-vs-timing")
	}
	if tf == "" && len(txns) > 0 {
		r.Checked("counter")
		if wf.OutstandingVectorMemAccess != 0 || wf.OutstandingScalarMemAccess != 0 || len(e.cu.InFlightVectorMemAccess) != 0 {
			r.Failf("C02.counter-not-zero-at-end", line, "vector=%d scalar=%d inflight=%d", wf.OutstandingVectorMemAccess,
				wf.OutstandingScalarMemAccess, len(e.cu.InFlightVectorMemAccess))
		}
		if earlyZero {
			if inorder {
				r.Failf("C02.counter-early-zero.inorder", line, "OutstandingVectorMemAccess reached 0 before the last in-order response")
			} else {
				r.Count("fact:counter-zero-while-inflight(out-of-order)")
			}
		}
	}
}

func c02Bucket(n int) int {
	switch {
	case n <= 4:
		return n
	case n <= 16:
		return 16
	case n <= 64:
		return 64
	}
	return 256
}

func (e *c02Env) runStore(r *Run, rng *Rng, c *c02Flat) {
	line := c.line("st")
	inst := c.inst(e)
	e.mem.pattern, e.mem.seed, e.mem.over = false, c.seed, map[uint64]byte{}
	c.setRegs(e, rng, true)
	var eout string
	if f := e.runEmu(c.arch, inst, c.exec); f != "" {
		eout = c02Fault(f)
	} else {
		eout = c02Runs2Str(e.mem.over)
	}
	wf := e.newTimingWf(c.exec)
	wf.SetDynamicInst(wavefront.NewInst(inst))
	var txns []cu.VerifTxn
	var ok bool
	tf := catch(func() { ok, txns = e.cu.VerifFlatIssue(wf) })
	tmem := map[uint64]byte{}
	var tx []string
	for _, t := range txns {
		n := 0
		for _, d := range t.Write.DirtyMask {
			if d {
				n++
			}
		}
		tx = append(tx, fmt.Sprintf("%x:%d", t.Write.Address, n))
	}
	if tf == "" && ok {
		for _, i := range c.ord {
			if i >= len(txns) {
				continue
			}
			t := txns[i]
			for k, d := range t.Write.DirtyMask {
				if d {
					tmem[t.Write.Address+uint64(k)] = t.Write.Data[k]
				}
			}
			rsp := mem.WriteDoneRspBuilder{}.WithRspTo(t.Write.ID).Build()
			if tf = catch(func() { e.cu.VerifVectorMemRsp(rsp) }); tf != "" {
				break
			}
		}
	}
	var ans string
	if tf != "" {
		ans = fmt.Sprintf("E %s | T %s", eout, c02Fault(tf))
	} else {
		ans = fmt.Sprintf("E %s | T txns=%s %s", eout, strings.Join(tx, ","), c02Runs2Str(tmem))
	}
	r.Case(line, ans)
	name := c02OpName(c.opc)
	r.Count("st:" + name)
	r.Count(fmt.Sprintf("st:lines=%d", c02Bucket(len(txns))))
	r.Checked("store-emu-vs-timing")
	tout := c02Runs2Str(tmem)
	if tf != "" {
		tout = c02Fault(tf)
	}
	if eout != tout {
		sig := "C02.store-differs." + name
		if c.straddles() {
			sig = "C02.store-differs.straddle"
		}
		r.Failf(sig, line, "emulator: %s  timing: %s", eout, tout)
	}
	if tf == "" && len(txns) > 0 {
		r.Checked("counter")
		if wf.OutstandingVectorMemAccess != 0 || wf.OutstandingScalarMemAccess != 0 || len(e.cu.InFlightVectorMemAccess) != 0 {
			r.Failf("C02.counter-not-zero-at-end", line, "vector=%d scalar=%d inflight=%d", wf.OutstandingVectorMemAccess,
				wf.OutstandingScalarMemAccess, len(e.cu.InFlightVectorMemAccess))
		}
	}
}

// genFlat draws one FLAT case.
func c02GenFlat(rng *Rng, store bool) *c02Flat {
	c := &c02Flat{arch: "gcn3", dst: rng.Range(6, 10), seed: uint64(rng.Intn(1 << 20))}
	if rng.Chance(30) {
		c.arch = "cdna3"
	}
	if store {
		c.opc = rng.Pick(24, 26, 28, 28, 29, 30, 31)
	} else {
		c.opc = rng.Pick(16, 17, 18, 19, 20, 20, 21, 22, 23)
	}
	switch rng.Intn(6) {
	case 0:
		c.exec = ^uint64(0)
	case 1:
		c.exec = uint64(1) << uint(rng.Intn(64))
	case 2:
		c.exec = rng.U64() & rng.U64() & rng.U64()
	case 3:
		c.exec = 0
		if rng.Chance(70) {
			c.exec = (uint64(1) << uint(rng.Range(1, 63))) - 1
		}
	default:
		c.exec = rng.U64()
	}
	c.sa = rng.Chance(30)
	if rng.Chance(30) {
		c.imm = uint32(rng.Pick(4, 8, 60, 64, 4095, 0x1ffc, 0x1000, 0x1fff))
		if c.imm&0x1000 != 0 {
			c.imm |= 0xFFFFE000
		}
	}
	base := uint64(0x100000000) + uint64(rng.Intn(1<<20))*64
	if c.sa {
		c.sbase = base
		base = uint64(rng.Intn(1<<16)) * 64
	}
	w, cnt := c02Width(c.opc)
	style := rng.Intn(7)
	stride := uint64(rng.Pick(4, 4, 8, 16, 64, 128, 12, 1, 2))
	n := 0
	for l := 0; l < 64; l++ {
		if c.exec&(1<<uint(l)) == 0 {
			continue
		}
		var a uint64
		switch style {
		case 0: // unit stride, perfectly coalesced
			a = base + uint64(l*4*cnt)
		case 1: // strided
			a = base + uint64(l)*stride
		case 2: // all lanes the same address
			a = base
		case 3: // scattered over a few lines, aligned
			a = base + uint64(rng.Intn(8))*64 + uint64(rng.Intn(64/w))*uint64(w)
		case 4: // overlapping neighbours (stores: overlap within and across lanes)
			a = base + uint64(rng.Intn(24))*4
		case 5: // far apart
			a = base + uint64(rng.Intn(1<<20))*4
		default: // misaligned, sometimes running over the end of a line
			a = base + uint64(rng.Intn(4))*64 + uint64(rng.Intn(64))
			if rng.Chance(85) && a%64+uint64(4*(cnt-1)+w) > 64 {
				a -= a % 64 % 4 // re-align most of them
				if w < 4 {
					a = a/64*64 + uint64(rng.Intn(64/w))*uint64(w)
				}
			}
		}
		if !c.sa {
			a -= uint64(int64(int32(c.imm))) // effective address = a
		} else {
			a = uint64(uint32(a - uint64(int64(int32(c.imm)))))
		}
		c.vals = append(c.vals, a)
		n++
	}
	return c
}

// lines returns the number of transactions the real coalescer will form (harness-side count).
func (c *c02Flat) nLines() int {
	_, cnt := c02Width(c.opc)
	seen := map[uint64]bool{}
	for _, v := range c.vals {
		for j := 0; j < cnt; j++ {
			seen[(c.effAddr(v)+uint64(4*j))>>6] = true
		}
	}
	return len(seen)
}

func (c *c02Flat) setOrder(rng *Rng) {
	n := c.nLines()
	switch rng.Intn(4) {
	case 0:
		c.ord = make([]int, n)
		for i := range c.ord {
			c.ord[i] = i
		}
	case 1:
		c.ord = make([]int, n)
		for i := range c.ord {
			c.ord[i] = n - 1 - i
		}
	default:
		c.ord = rng.Perm(n)
	}
}

// ---- SMEM cases -----------------------------------------------------------------------

func (e *c02Env) runSmem(r *Run, rng *Rng, opc, sdst int, start uint64, seed uint64, ord []int) {
	line := fmt.Sprintf("c02 sm opc=%d lg=6 sdst=%d start=%x seed=%d ord=%s", opc, sdst, start, seed, c08Ints(ord))
	off := uint64(rng.Intn(1 << 12))
	if off > start {
		off = 0
	}
	base := start - off
	inst := e.decode("gcn3", desc{format: "smem", op: uint32(opc), f: map[string]uint32{"imm": 1, "sdata": uint32(sdst), "sbase": c02SBaseReg / 2, "offset": uint32(off)}})
	e.mem.pattern, e.mem.seed, e.mem.over = true, seed, map[uint64]byte{}
	pre := func(i int) uint32 { return 0x5A000000 + uint32(i) }
	for i := 0; i < 102; i++ {
		e.eSetS(i, pre(i))
		e.tSetS(i, pre(i))
	}
	e.eSetS(c02SBaseReg, uint32(base))
	e.eSetS(c02SBaseReg+1, uint32(base>>32))
	e.tSetS(c02SBaseReg, uint32(base))
	e.tSetS(c02SBaseReg+1, uint32(base>>32))
	preOf := func(i int) uint32 {
		if i == c02SBaseReg {
			return uint32(base)
		}
		if i == c02SBaseReg+1 {
			return uint32(base >> 32)
		}
		return pre(i)
	}
	changed := func(get func(int) uint32) string {
		var p []string
		for i := 0; i < 102; i++ {
			if v := get(i); v != preOf(i) {
				p = append(p, fmt.Sprintf("s%d=%x", i, v))
			}
		}
		if len(p) == 0 {
			return "-"
		}
		return strings.Join(p, " ")
	}
	var eout string
	if f := e.runEmu("gcn3", inst, 1); f != "" {
		eout = c02Fault(f)
	} else {
		eout = changed(e.eGetS)
	}
	wf := e.newTimingWf(1)
	wf.SetDynamicInst(wavefront.NewInst(inst))
	var reqs []*mem.ReadReq
	tf := catch(func() { reqs = e.cu.VerifSMEMIssue(wf) })
	var tout string
	earlyZero := false
	if tf != "" {
		tout = "unsupported"
	} else {
		var cs []string
		for _, q := range reqs {
			cs = append(cs, fmt.Sprintf("%x:%d", q.Address, q.AccessByteSize))
		}
		for n, i := range ord {
			if i >= len(reqs) {
				continue
			}
			q := reqs[i]
			data := make([]byte, q.AccessByteSize)
			for k := range data {
				data[k] = c02MemByte(seed, q.Address+uint64(k))
			}
			rsp := mem.DataReadyRspBuilder{}.WithRspTo(q.ID).WithData(data).Build()
			if tf = catch(func() { e.cu.VerifScalarMemRsp(rsp) }); tf != "" {
				break
			}
			if wf.OutstandingScalarMemAccess == 0 && n != len(ord)-1 {
				earlyZero = true
			}
		}
		if tf != "" {
			tout = "chunks=" + strings.Join(cs, ",") + " " + c02Fault(tf)
		} else {
			tout = "chunks=" + strings.Join(cs, ",") + " " + changed(e.tGetS)
		}
	}
	r.Case(line, fmt.Sprintf("E %s | T %s", eout, tout))
	r.Count(fmt.Sprintf("sm:x%d", 1<<uint(opc)))
	r.Count(fmt.Sprintf("sm:chunks=%d", len(reqs)))
	r.Checked("smem-emu-vs-timing")
	tv := tout
	if i := strings.Index(tout, " "); strings.HasPrefix(tout, "chunks=") && i > 0 {
		tv = tout[i+1:]
	}
	switch {
	case tout == "unsupported":
		r.Failf(fmt.Sprintf("C02.unsupported.timing.s_load_dwordx%d", 1<<uint(opc)), line, "the scalar unit has no case for opcode %d; emulator gives %s", opc, eout)
	case eout != tv:
		sig := fmt.Sprintf("C02.smem-differs.x%d", 1<<uint(opc))
		if start%4 != 0 {
			sig = "C02.smem-differs.unaligned"
		}
		r.Failf(sig, line, "emulator: %s  timing: %s", eout, tv)
	}
	if tf == "" && tout != "unsupported" {
		r.Checked("counter")
		if wf.OutstandingScalarMemAccess != 0 || len(e.cu.InFlightScalarMemAccess) != 0 {
			r.Failf("C02.scalar-counter-not-zero-at-end", line, "scalar=%d inflight=%d", wf.OutstandingScalarMemAccess, len(e.cu.InFlightScalarMemAccess))
		}
		if earlyZero {
			if sort.IntsAreSorted(ord) {
				r.Failf("C02.counter-early-zero.inorder", line, "OutstandingScalarMemAccess reached 0 before the last in-order response")
			} else {
				r.Count("fact:counter-zero-while-inflight(out-of-order)")
			}
		}
	}
}

// ---- counter scenarios ----------------------------------------------------------------

func (e *c02Env) runCounter(r *Run, rng *Rng, ns []int, ord []int) {
	line := fmt.Sprintf("c02 cnt ns=%s ord=%s", c08Ints(ns), c08Ints(ord))
	wf := e.newTimingWf(0)
	var all []cu.VerifTxn
	for k, n := range ns {
		exec := uint64(0)
		if n >= 64 {
			exec = ^uint64(0)
			n = 64
		} else {
			exec = (uint64(1) << uint(n)) - 1
		}
		for l := 0; l < 64; l++ {
			a := uint64(0x200000000) + uint64(k)*0x10000 + uint64(l)*64
			e.tSetV(l, c02AddrReg, uint32(a))
			e.tSetV(l, c02AddrReg+1, uint32(a>>32))
		}
		inst := e.decode("gcn3", desc{format: "flat", op: 20, f: map[string]uint32{"vdst": 8, "data": 8, "addr": c02AddrReg, "saddr": 0x7f}})
		wf.SetEXEC(exec)
		wf.SetDynamicInst(wavefront.NewInst(inst))
		_, tx := e.cu.VerifFlatIssue(wf)
		all = append(all, tx...)
	}
	out := []string{fmt.Sprintf("%d/%d", wf.OutstandingVectorMemAccess, len(e.cu.InFlightVectorMemAccess))}
	early := false
	for _, i := range ord {
		if i < len(all) {
			t := all[i]
			rsp := mem.DataReadyRspBuilder{}.WithRspTo(t.Read.ID).WithData(make([]byte, 64)).Build()
			e.cu.VerifVectorMemRsp(rsp)
		}
		out = append(out, fmt.Sprintf("%d/%d", wf.OutstandingVectorMemAccess, len(e.cu.InFlightVectorMemAccess)))
		if wf.OutstandingVectorMemAccess == 0 && len(e.cu.InFlightVectorMemAccess) != 0 {
			early = true
		}
	}
	r.Case(line, strings.Join(out, " "))
	r.Count("cnt")
	r.Checked("counter-scenario")
	inorder := sort.IntsAreSorted(ord)
	if early {
		if inorder {
			r.Failf("C02.counter-early-zero.inorder", line, "trace %s", strings.Join(out, " "))
		} else {
			r.Count("fact:counter-zero-while-inflight(out-of-order)")
		}
	}
}

// ---- wavefront register initialisation ------------------------------------------------

type c02Init struct {
	v5        bool
	flags     uint32 // bits 0..9: the ten enable_sgpr_* code properties in ABI order
	rsrc2     uint32
	pa, ka    uint64
	g, w, id  [3]int
	first     int
	sx, sy    int
}

func (c *c02Init) line() string {
	v5 := 0
	if c.v5 {
		v5 = 1
	}
	return fmt.Sprintf("c02 init v5=%d flags=%x rsrc2=%x pa=%x ka=%x g=%d,%d,%d w=%d,%d,%d id=%d,%d,%d first=%d sx=%d sy=%d",
		v5, c.flags, c.rsrc2, c.pa, c.ka, c.g[0], c.g[1], c.g[2], c.w[0], c.w[1], c.w[2], c.id[0], c.id[1], c.id[2], c.first, c.sx, c.sy)
}

func (e *c02Env) runInit(r *Run, c *c02Init) {
	line := c.line()
	co := &insts.KernelCodeObject{KernelCodeObjectMeta: &insts.KernelCodeObjectMeta{}}
	b := func(i uint) bool { return c.flags&(1<<i) != 0 }
	co.EnableSgprPrivateSegmentBuffer, co.EnableSgprDispatchPtr, co.EnableSgprQueuePtr = b(0), b(1), b(2)
	co.EnableSgprKernargSegmentPtr, co.EnableSgprDispatchID, co.EnableSgprFlatScratchInit = b(3), b(4), b(5)
	co.EnableSgprPrivateSegmentSize = b(6)
	co.EnableSgprGridWorkgroupCountX, co.EnableSgprGridWorkgroupCountY, co.EnableSgprGridWorkgroupCountZ = b(7), b(8), b(9)
	co.ComputePgmRsrc2 = c.rsrc2
	if c.v5 {
		co.Version = insts.CodeObjectV5
	}
	pkt := &kernels.HsaKernelDispatchPacket{GridSizeX: uint32(c.g[0]), GridSizeY: uint32(c.g[1]), GridSizeZ: uint32(c.g[2]),
		WorkgroupSizeX: uint16(c.w[0]), WorkgroupSizeY: uint16(c.w[1]), WorkgroupSizeZ: uint16(c.w[2]), KernargAddress: c.ka, KernelObject: 0x1000}
	wg := kernels.NewWorkGroup()
	wg.SizeX, wg.SizeY, wg.SizeZ = c.sx, c.sy, 1
	wg.IDX, wg.IDY, wg.IDZ = c.id[0], c.id[1], c.id[2]
	wg.Packet, wg.CodeObject = pkt, co
	raw := kernels.NewWavefront()
	raw.CodeObject, raw.Packet, raw.PacketAddress, raw.FirstWiFlatID, raw.WG, raw.InitExecMask = co, pkt, c.pa, c.first, wg, ^uint64(0)

	hashV := func(get func(l, r int) uint32) uint64 {
		h := uint64(14695981039346656037)
		for l := 0; l < 64; l++ {
			for k := 0; k < 3; k++ {
				h = c08Mix(h, get(l, k))
			}
		}
		return h
	}
	sregs := func(get func(int) uint32) string {
		var p []string
		for i := 0; i < 24; i++ {
			p = append(p, fmt.Sprintf("%x", get(i)))
		}
		return strings.Join(p, ",")
	}
	// emulator
	for i := range e.ewf.SRegFile {
		e.ewf.SRegFile[i] = 0
	}
	for l := 0; l < 64; l++ {
		for k := 0; k < 4; k++ {
			e.eSetV(l, k, 0)
		}
	}
	ewf := &emu.Wavefront{Wavefront: raw, SRegFile: e.ewf.SRegFile, VRegFile: e.ewf.VRegFile}
	ef := catch(func() { emu.VerifInitWfRegs(ewf) })
	eout := fmt.Sprintf("s=%s v=%x", sregs(e.eGetS), hashV(e.eGetV))
	if ef != "" {
		eout = c02Fault(ef)
	}
	// timing
	for i := 0; i < 24; i++ {
		e.tSetS(i, 0)
	}
	for l := 0; l < 64; l++ {
		for k := 0; k < 4; k++ {
			e.tSetV(l, k, 0)
		}
	}
	twf := wavefront.NewWavefront(raw)
	twf.WG = wavefront.NewWorkGroup(wg, nil)
	tf := catch(func() {
		e.cu.WfDispatcher.DispatchWf(twf, protocol.WfDispatchLocation{Wavefront: raw, SIMDID: 1, VGPROffset: c02VOff, SGPROffset: c02SOff})
	})
	tout := fmt.Sprintf("s=%s v=%x", sregs(e.tGetS), hashV(e.tGetV))
	if tf != "" {
		tout = c02Fault(tf)
	}
	r.Case(line, fmt.Sprintf("E %s | T %s", eout, tout))
	r.Count("init")
	r.Checked("init-emu-vs-timing")
	if eout != tout {
		sig := "C02.init-regs-differ"
		switch {
		case b(2):
			sig += ".queueptr"
		case b(6):
			sig += ".privsegsize"
		}
		r.Failf(sig, line, "emulator: %s  timing: %s", eout, tout)
	}
	if ewf.PC() != twf.PC() || ewf.EXEC() != twf.EXEC() {
		r.Failf("C02.init-pc-exec-differ", line, "emulator pc=%x exec=%x timing pc=%x exec=%x", ewf.PC(), ewf.EXEC(), twf.PC(), twf.EXEC())
	}
}

func c02GenInit(rng *Rng) *c02Init {
	c := &c02Init{v5: rng.Chance(30), pa: 0x1111222233334444 + uint64(rng.Intn(1<<20)), ka: 0x5555666677778888 + uint64(rng.Intn(1<<20))}
	switch rng.Intn(4) {
	case 0: // the layouts the shipped kernels use
		c.flags = uint32(rng.Pick(0x0b, 0x09, 0x08, 0x01, 0x0a))
	case 1:
		c.flags = uint32(rng.Intn(1 << 10))
	case 2:
		c.flags = uint32(rng.Intn(1<<10)) &^ 0x44 // never queue ptr / private segment size
	default:
		c.flags = uint32(rng.Intn(1<<10)) | uint32(rng.Pick(0x04, 0x40, 0x44))
	}
	c.rsrc2 = uint32(rng.Intn(1<<13)) &^ 1
	if rng.Chance(50) {
		c.rsrc2 |= 7 << 7
	}
	for d := 0; d < 3; d++ {
		c.w[d] = rng.Pick(1, 2, 4, 8, 16, 64, 256, 3, 5)
		c.g[d] = c.w[d]*rng.Range(1, 9) - rng.Intn(c.w[d])
		c.id[d] = rng.Intn(1000) + 1
	}
	c.sx, c.sy = c.w[0], c.w[1]
	c.first = 64 * rng.Intn(4)
	return c
}

// ---- runner ---------------------------------------------------------------------------

func runC02(r *Run, rng *Rng, replay string) {
	thorough := r.Tier == "thorough"
	sim.GetIDGenerator()
	e := newC02Env()

	// 0. the witnesses of DESIGN §4: sub-dword loads over memory, one lane and full wave
	for _, opc := range []int{16, 17, 18, 20} {
		for _, exec := range []uint64{1, ^uint64(0)} {
			c := &c02Flat{opc: opc, arch: "gcn3", exec: exec, dst: 8, seed: 7}
			for l := 0; l < 64; l++ {
				if exec&(1<<uint(l)) != 0 {
					c.vals = append(c.vals, 0x100000000+uint64(l)*4)
				}
			}
			c.ord = rng.Perm(c.nLines())
			e.runLoad(r, rng, c)
		}
	}
	// opcodes one side did not implement before the repairs (one replayed witness each, both ALUs)
	for _, arch := range []string{"gcn3", "cdna3"} {
		for _, opc := range []int{19, 22} {
			c := &c02Flat{opc: opc, arch: arch, exec: 5, dst: 8, seed: 9, vals: []uint64{0x100000000, 0x100000040}, ord: []int{1, 0}}
			e.runLoad(r, rng, c)
		}
		// byte / short stores: the coalescer merged the whole data dword before the repair
		for _, opc := range []int{24, 26} {
			c := &c02Flat{opc: opc, arch: arch, exec: 5, dst: 8, seed: 9, vals: []uint64{0x100000001, 0x10000007e}, ord: []int{1, 0}}
			e.runStore(r, rng, c)
		}
	}
	e.runSmem(r, rng, 4, 16, 0x100000000, 3, []int{0})
	e.runSmem(r, rng, 4, 16, 0x100000030, 3, []int{1, 0})
	// line-straddling witnesses (hypotheses of the theorems)
	e.runLoad(r, rng, &c02Flat{opc: 20, arch: "gcn3", exec: 1, dst: 8, seed: 5, vals: []uint64{0x10000003e}, ord: []int{0}})
	e.runLoad(r, rng, &c02Flat{opc: 18, arch: "gcn3", exec: 1, dst: 8, seed: 5, vals: []uint64{0x10000003f}, ord: []int{0}})
	e.runStore(r, rng, &c02Flat{opc: 28, arch: "gcn3", exec: 1, dst: 8, seed: 5, vals: []uint64{0x10000003e}, ord: []int{0}})
	e.runSmem(r, rng, 1, 16, 0x10000003e, 3, []int{0, 1})
	// out-of-order counter witness: last-issued transaction returns first
	e.runCounter(r, rng, []int{2}, []int{1, 0})
	e.runCounter(r, rng, []int{2, 3}, []int{0, 1, 2, 3, 4})
	// SGPR cursor witnesses
	for _, fl := range []uint32{0x0c, 0x48, 0x4c, 0x3cc, 0x04, 0x40} {
		e.runInit(r, &c02Init{flags: fl, rsrc2: 7<<7 | 2<<11, pa: 0x1111222233334444, ka: 0x5555666677778888,
			g: [3]int{256, 4, 1}, w: [3]int{64, 2, 1}, id: [3]int{3, 1, 0}, first: 64, sx: 64, sy: 2})
	}

	nLd, nSt, nSm, nCnt, nInit := 450, 300, 250, 150, 500
	if thorough {
		nLd, nSt, nSm, nCnt, nInit = 12000, 8000, 6000, 3000, 12000
	}
	for i := 0; i < nLd; i++ {
		c := c02GenFlat(rng, false)
		c.setOrder(rng)
		e.runLoad(r, rng, c)
	}
	for i := 0; i < nSt; i++ {
		c := c02GenFlat(rng, true)
		c.setOrder(rng)
		e.runStore(r, rng, c)
	}
	for i := 0; i < nSm; i++ {
		opc := rng.Intn(5)
		n := 4 << uint(opc)
		start := uint64(0x100000000) + uint64(rng.Intn(1<<16))*64
		switch rng.Intn(4) {
		case 0: // within one line
			start += uint64(rng.Intn((64-n)/4+1)) * 4
		case 1: // crossing a line at a dword boundary
			start += uint64(64 - 4*rng.Range(1, n/4))
		case 2:
			start += uint64(rng.Intn(16)) * 4
		default: // unaligned (rare in practice; the hypothesis of scalar_load_equiv)
			if rng.Chance(25) {
				start += uint64(rng.Intn(64))
			} else {
				start += uint64(rng.Intn(16)) * 4
			}
		}
		nch := 1
		if (start&^3)%64+uint64(n) > 64 {
			nch = 2
		}
		ord := rng.Perm(nch)
		e.runSmem(r, rng, opc, rng.Range(8, 60), start, uint64(rng.Intn(1<<20)), ord)
	}
	for i := 0; i < nCnt; i++ {
		k := rng.Range(1, 4)
		ns := make([]int, k)
		total := 0
		for j := range ns {
			ns[j] = rng.Pick(1, 1, 2, 3, 4, 8, 0)
			total += ns[j]
		}
		var ord []int
		if rng.Chance(50) {
			for j := 0; j < total; j++ {
				ord = append(ord, j)
			}
		} else {
			ord = rng.Perm(total)
		}
		if rng.Chance(10) && total > 0 {
			ord = append(ord, ord[0]) // a duplicate response is ignored
		}
		e.runCounter(r, rng, ns, ord)
	}
	for i := 0; i < nInit; i++ {
		e.runInit(r, c02GenInit(rng))
	}
	if thorough { // all 1024 flag combinations once
		for fl := uint32(0); fl < 1024; fl++ {
			c := c02GenInit(rng)
			c.flags = fl
			e.runInit(r, c)
		}
	}
	if c02Runs != nil {
		c02Runs(r, rng)
	}
}
