package main

// C02 — whole-platform cross-check (differential evidence, oracle only):
//  1. the same shipped workload (same size, same Seed ⇒ same inputs) on the emulation platform and on
//     the timing platforms (r9nano with the GCN3 kernel, mi300a with the gfx942 kernel): every live
//     device buffer must have the same size and content hash.
//  2. generated straight-line kernels (c02_kern.go) launched through Driver.LaunchKernel with a
//     hand-built KernelCodeObject on both platforms.

import (
	"fmt"
	"os"
	"strings"
	"time"
)

func init() { c02Runs = c02RunPairs }

func c02BufSig(res WorkloadResult) string {
	var p []string
	for i, b := range res.Buffers {
		p = append(p, fmt.Sprintf("#%d(ctx%d,%d)=%x", i, b.Ctx, b.Size, b.Hash))
	}
	return strings.Join(p, " ")
}

type c02Pair struct {
	bench  string
	arch   string // kernel architecture: gcn3 ⇒ r9nano, cdna3 ⇒ mi300a
	params map[string]int
	knobs  map[string]int
}

func c02RunPairs(r *Run, rng *Rng) {
	if os.Getenv("C02_SKIP_RUNS") != "" {
		r.Note("whole-platform runs skipped (C02_SKIP_RUNS)")
		return
	}
	WorkloadDir = r.OutDir
	known := map[string]bool{}
	for _, b := range BenchNames() {
		known[b] = true
	}
	hasArch := func(b, a string) bool {
		for _, x := range BenchArchs(b) {
			if x == a {
				return true
			}
		}
		return false
	}
	var pairs []c02Pair
	quick := []string{"fir", "matrixtranspose", "bitonicsort", "kmeans", "simpleconvolution", "floydwarshall", "atax", "aes", "fastwalshtransform", "relu"}
	quickCDNA := []string{"vectoradd", "fir", "matrixtranspose", "kmeans", "conv2d"}
	if r.Tier == "thorough" {
		quick = BenchNames()
		quickCDNA = BenchNames()
	}
	for _, b := range quick {
		if known[b] && hasArch(b, "gcn3") {
			pairs = append(pairs, c02Pair{bench: b, arch: "gcn3", params: DefaultParams(b)})
		}
	}
	for _, b := range quickCDNA {
		if known[b] && hasArch(b, "cdna3") {
			pairs = append(pairs, c02Pair{bench: b, arch: "cdna3", params: DefaultParams(b)})
		}
	}
	if r.Tier == "thorough" {
		// a second admissible size and the magic-memory-copy knob for a few benchmarks
		for _, b := range BenchNames() {
			if !hasArch(b, "gcn3") {
				continue
			}
			if sz := AdmissibleSizes(b, "quick"); len(sz) > 1 {
				pairs = append(pairs, c02Pair{bench: b, arch: "gcn3", params: sz[1]})
			}
		}
		pairs = append(pairs, c02Pair{bench: "matrixtranspose", arch: "gcn3", params: DefaultParams("matrixtranspose"), knobs: map[string]int{"magicMemoryCopy": 1}})
	}
	pairs = append(pairs, c02Pair{bench: "fir", arch: "gcn3", params: DefaultParams("fir"), knobs: map[string]int{"magicMemoryCopy": 1}})
	// multi-kernel workloads whose later kernels read, on one compute unit, what another compute unit wrote
	// in an earlier kernel: they differed from emulation until the command processor emptied the L1 caches
	// at kernel start (C02-stale-l1-across-kernels*); bitonicsort length=256 is in the list above
	if known["pagerank"] && hasArch("pagerank", "gcn3") {
		pairs = append(pairs, c02Pair{bench: "pagerank", arch: "gcn3", params: map[string]int{"node": 128, "sparsity-permille": 500, "iterations": 3}})
	}
	if known["floydwarshall"] && hasArch("floydwarshall", "gcn3") {
		pairs = append(pairs, c02Pair{bench: "floydwarshall", arch: "gcn3", params: map[string]int{"node": 20, "iter": 0}})
	}
	var specs []WorkloadSpec
	for _, p := range pairs {
		gt := "r9nano"
		if p.arch == "cdna3" {
			gt = "mi300a"
		}
		specs = append(specs,
			WorkloadSpec{Bench: p.bench, Params: p.params, Arch: p.arch, GPUs: []int{1}, Seed: int64(r.Seed)},
			WorkloadSpec{Bench: p.bench, Params: p.params, Arch: p.arch, Timing: true, GPUType: gt, GPUs: []int{1}, Seed: int64(r.Seed), Knobs: p.knobs})
	}
	limit := 30 * time.Second
	if r.Tier == "thorough" {
		limit = 150 * time.Second
	}
	t0 := time.Now()
	res := RunWorkloads(specs, 12, limit)
	// a hang after Run() returned is the driver's lost wake-up (property C12): retry those once
	for round := 0; round < 2; round++ {
		var again []int
		for i, x := range res {
			if x.Fault == "hang" {
				again = append(again, i)
			}
		}
		if len(again) == 0 {
			break
		}
		var sp []WorkloadSpec
		for _, i := range again {
			sp = append(sp, specs[i])
		}
		for k, x := range RunWorkloads(sp, 12, limit) {
			res[again[k]] = x
		}
		r.Note("%d runs hit the wall-clock limit and were repeated (round %d)", len(again), round+1)
	}
	r.Note("whole-platform pairs: %d runs in %.1fs", len(specs), time.Since(t0).Seconds())
	for i := 0; i+1 < len(res); i += 2 {
		e, t := res[i], res[i+1]
		id := t.Spec.String()
		tag := t.Spec.Bench + "." + t.Spec.Arch
		r.Count("pair:" + tag)
		// a Verify() that ends the process (log.Fatal) leaves Fault="exit:1" after the buffers were dumped
		dumped := func(x WorkloadResult) bool { return x.Ran && (x.Fault == "" || x.Stage == "verify") && len(x.Buffers) > 0 }
		if !dumped(e) || !dumped(t) {
			r.Note("pair %s not compared: emu fault=%q stage=%s (%dms), timing fault=%q stage=%s (%dms)", id, e.Fault, e.Stage, e.WallMs, t.Fault, t.Stage, t.WallMs)
			r.Count("pair-not-compared:" + tag)
			if dumped(e) != dumped(t) && e.Fault != "hang" && t.Fault != "hang" {
				r.Checked("both-modes-complete")
				r.Failf("C02.one-mode-fails."+tag, id, "emulation: fault=%q stage=%s verify=%v | timing: fault=%q stage=%s verify=%v | log: %s",
					e.Fault, e.Stage, e.VerifyOK, t.Fault, t.Stage, t.VerifyOK, logTail(e.Log+t.Log, 300))
			}
			continue
		}
		r.Checked("buffers-emu-vs-timing")
		es, ts := c02BufSig(e), c02BufSig(t)
		if es != ts {
			sig := "C02.buffers-differ." + t.Spec.Bench
			if t.Spec.Knobs["magicMemoryCopy"] != 0 {
				sig = "C02.buffers-differ.magicMemoryCopy"
			}
			r.Failf(sig, id, "emulation: %s | timing: %s | verify emu=%v timing=%v", es, ts, e.VerifyOK, t.VerifyOK)
		}
		if e.VerifyOK != t.VerifyOK && es == ts {
			r.Failf("C02.verify-differs."+t.Spec.Bench, id, "Verify(): emulation %v (%s) timing %v (%s)", e.VerifyOK, e.VerifyMsg, t.VerifyOK, t.VerifyMsg)
		}
		r.CountN("pair-buffers", len(e.Buffers))
	}
	if c02Kernels != nil {
		c02Kernels(r, rng)
	}
}

var c02Kernels func(r *Run, rng *Rng)

// `<exe> child c02diff <bench> <arch> [k=v …]` runs the workload on the emulation platform and on the
// matching timing platform and lists the dwords of every buffer that differ (replay / diagnosis tool).
func init() { childFuncs["c02diff"] = c02DiffCLI }

func c02DiffCLI(args []string) {
	if len(args) < 2 {
		fmt.Fprintln(os.Stderr, "usage: child c02diff <bench> <arch> [k=v …]")
		os.Exit(2)
	}
	params := map[string]int{}
	for _, kv := range args[2:] {
		var v int
		if i := strings.Index(kv, "="); i > 0 {
			fmt.Sscan(kv[i+1:], &v)
			params[kv[:i]] = v
		}
	}
	WorkloadDir = os.Getenv("VERIF_WL_DIR")
	gt := "r9nano"
	if args[1] == "cdna3" {
		gt = "mi300a"
	}
	kn := map[string]int{"rawLimit": 1 << 22}
	res := RunWorkloads([]WorkloadSpec{
		{Bench: args[0], Params: params, Arch: args[1], GPUs: []int{1}, Seed: 1, Knobs: kn},
		{Bench: args[0], Params: params, Arch: args[1], Timing: true, GPUType: gt, GPUs: []int{1}, Seed: 1, Knobs: kn}}, 2, 600*time.Second)
	e, t := res[0], res[1]
	fmt.Printf("emu: fault=%q verify=%v buffers=%d | timing: fault=%q verify=%v buffers=%d\n", e.Fault, e.VerifyOK, len(e.Buffers), t.Fault, t.VerifyOK, len(t.Buffers))
	for i := range e.Buffers {
		if i >= len(t.Buffers) {
			break
		}
		a, b := e.Buffers[i], t.Buffers[i]
		if a.Hash == b.Hash && a.Size == b.Size {
			continue
		}
		fmt.Printf("buffer #%d size %d/%d vaddr %x/%x differs:", i, a.Size, b.Size, a.VAddr, b.VAddr)
		n := 0
		for k := 0; k+4 <= len(a.Raw) && k+4 <= len(b.Raw); k += 4 {
			if string(a.Raw[k:k+4]) != string(b.Raw[k:k+4]) {
				if n < 64 {
					fmt.Printf(" [%d] %x/%x", k/4, a.Raw[k:k+4], b.Raw[k:k+4])
				}
				n++
			}
		}
		fmt.Printf(" (%d dwords)\n", n)
	}
}
