package main

import (
	"strings"
)

// Replay of the witness of `dma_all_complete_full_refuted` on the REAL cp.DMAEngine: a copy request of
// 0 bytes creates a request collection with no sub-request; nothing ever finishes it and it occupies
// one of the `maxRequestCount` (4) slots for ever. Four of them block every later copy. The driver's
// copy middleware never sends such a request (its page pieces are non-empty), so this is noted, not
// listed as a finding. The case lines are answered by `C11.runDma`.

func init() { register("C11", runC11DmaLive) }

func c11DmaLiveScenario(r *Run, ops []string, wantDone map[int]bool) {
	cfg := strings.Fields(ops[0])
	_ = cfg
	e := newDmaEnv(6)
	for _, o := range ops[1:] {
		e.op(strings.Fields(o))
	}
	line := strings.Join(ops, " ; ")
	r.Case(line, strings.Join(e.out, " "))
	r.Count("dmalive.scenario")
	r.Checked("dmalive.zero-length")
	for idx := range e.cps {
		got := e.doneCount[idx] > 0
		if got != wantDone[idx] {
			r.Failf("C11.dma.zero-length-witness", line,
				"copy %d: completed=%v, the kernel-checked witness says %v (zero-length copies never complete and keep their slot)", idx, got, wantDone[idx])
		}
	}
}

func runC11DmaLive(r *Run, rng *Rng, replay string) {
	serve := []string{}
	for i := 0; i < 12; i++ {
		serve = append(serve, "t", "m 8", "r 0", "r 0", "t", "c")
	}
	// one zero-length copy, then a real one: the real one completes, the empty one never does
	ops := append([]string{"c11 dma log2=6 max=4", "h 4096 0", "h 4160 70"}, serve...)
	c11DmaLiveScenario(r, ops, map[int]bool{0: false, 1: true})
	// four zero-length copies fill all slots: the fifth, non-empty copy is never even parsed
	ops = append([]string{"c11 dma log2=6 max=4", "h 4096 0", "d 4100 0", "h 4200 0", "d 4300 0", "d 4400 33"}, serve...)
	c11DmaLiveScenario(r, ops, map[int]bool{0: false, 1: false, 2: false, 3: false, 4: false})
}
