package main

// C02 — generated straight-line kernels on whole platforms (differential evidence).
// A kernel is drawn from a seed, hand-assembled with encodeDesc (GCN3 encodings), wrapped in a
// hand-built insts.KernelCodeObject and launched with Driver.LaunchKernel on the emulation platform
// and on the r9nano timing platform, each in a child process (`<exe> child c02kern <spec> <result>`).
// Compared: the output buffer and, per wavefront, the sequence of executed instructions
// (emulator: the CU's instruction hook; timing: the CU's "inst" tracing tasks).

import (
	"encoding/binary"
	"encoding/json"
	"fmt"
	"os"
	"os/exec"
	"path/filepath"
	"sort"
	"strings"
	"sync"
	"time"

	"github.com/sarchlab/akita/v4/sim"
	"github.com/sarchlab/akita/v4/simulation"
	"github.com/sarchlab/akita/v4/tracing"
	"github.com/sarchlab/mgpusim/v4/amd/arch"
	"github.com/sarchlab/mgpusim/v4/amd/driver"
	"github.com/sarchlab/mgpusim/v4/amd/emu"
	"github.com/sarchlab/mgpusim/v4/amd/insts"
	"github.com/sarchlab/mgpusim/v4/amd/samples/runner/emusystem"
	"github.com/sarchlab/mgpusim/v4/amd/samples/runner/timingconfig"
	"github.com/sarchlab/mgpusim/v4/amd/sampling"
	"github.com/sarchlab/mgpusim/v4/amd/timing/cu"
	"github.com/sarchlab/mgpusim/v4/amd/timing/wavefront"
)

func init() {
	c02Kernels = c02RunKernels
	childFuncs["c02kern"] = c02KernChild
}

type c02KernSpec struct {
	Seed   uint64
	Timing bool
	Grid   int
}

type c02KernResult struct {
	Done   bool
	Out    []byte
	Seqs   map[string]string // wavefront (wg id . first work-item) → executed instruction sequence
	Text   []string          // the program, one mnemonic-ish line per instruction
	Fault  string
}

// ---- program generator ------------------------------------------------------------------

const c02Planes = 4

func c02D(format string, op uint32, kv ...uint32) desc {
	names := map[string][]string{
		"smem": {"sdata", "sbase", "offset", "imm"},
		"sopp": {"simm16"},
		"sop2": {"sdst", "ssrc0", "ssrc1"},
		"vop2": {"vdst", "src0", "vsrc1"},
		"vop1": {"vdst", "src0"},
		"flat": {"vdst", "addr", "data", "offset", "saddr"},
	}[format]
	f := map[string]uint32{}
	for i, v := range kv {
		f[names[i]] = v
	}
	return desc{format: format, op: op, f: f}
}

// c02GenKernel returns the instruction descriptors of a straight-line kernel.
// ABI: s[0:1] kernarg pointer, s2 work-group id x, v0 work-item id x (work-group size 64).
// Kernargs: in pointer, out pointer. v[4:5] = in + gid*4, v[8:9] = out + gid*4, planes of Grid dwords.
func c02GenKernel(seed uint64, grid int) ([]desc, []string) {
	rng := NewRng(seed)
	var p []desc
	var text []string
	add := func(t string, d desc) { p = append(p, d); text = append(text, t) }
	const V = 256 // VGPR operand code base in 9-bit source fields
	wait := func() { add("s_waitcnt 0", c02D("sopp", 12, 0)) }
	add("s_load_dwordx4 s[4:7], s[0:1], 0", c02D("smem", 2, 4, 0, 0, 1))
	wait()
	add("s_lshl_b32 s8, s2, 6", c02D("sop2", 28, 8, 2, 128+6))
	add("v_add_u32 v1, vcc, s8, v0", c02D("vop2", 25, 1, 8, 0))
	add("v_lshlrev_b32 v2, 2, v1", c02D("vop2", 18, 2, 128+2, 1))
	add("v_mov_b32 v3, s5", c02D("vop1", 1, 3, 5))
	add("v_add_u32 v4, vcc, s4, v2", c02D("vop2", 25, 4, 4, 2))
	add("v_mov_b32 v5, 0", c02D("vop1", 1, 5, 128))
	add("v_addc_u32 v5, vcc, v3, v5, vcc", c02D("vop2", 28, 5, V+3, 5))
	add("v_mov_b32 v3, s7", c02D("vop1", 1, 3, 7))
	add("v_add_u32 v8, vcc, s6, v2", c02D("vop2", 25, 8, 6, 2))
	add("v_mov_b32 v9, 0", c02D("vop1", 1, 9, 128))
	add("v_addc_u32 v9, vcc, v3, v9, vcc", c02D("vop2", 28, 9, V+3, 9))
	// work registers v10..v15 start from loads
	for r := uint32(10); r <= 15; r++ {
		plane := uint32(rng.Intn(c02Planes))
		add(fmt.Sprintf("flat_load_dword v%d, v[4:5] offset:%d", r, plane*uint32(grid)*4),
			c02D("flat", 20, r, 4, 0, plane*uint32(grid)*4, 0x7f))
	}
	wait()
	add("s_mov-ish: s_add_u32 s10, s2, 17", c02D("sop2", 0, 10, 2, 128+17))
	add("s_lshl_b32 s11, s10, 3", c02D("sop2", 28, 11, 10, 128+3))
	vsrc := func() uint32 { // a 9-bit source operand: VGPR, SGPR or inline constant
		switch rng.Intn(10) {
		case 0:
			return uint32(rng.Pick(10, 11, 2, 8)) // SGPR
		case 1:
			return 128 + uint32(rng.Intn(65)) // 0..64
		case 2:
			return 193 + uint32(rng.Intn(16)) // -1..-16
		case 3:
			return V + uint32(rng.Pick(0, 1)) // ids
		default:
			return V + uint32(rng.Range(10, 15))
		}
	}
	nBody := rng.Range(8, 24)
	stores := 0
	for i := 0; i < nBody; i++ {
		dst := uint32(rng.Range(10, 15))
		switch rng.Intn(12) {
		case 0, 1, 2, 3, 4, 5: // VOP2 integer / float
			op := uint32(rng.Pick(6, 8, 12, 13, 14, 15, 16, 17, 18, 19, 20, 21, 25, 26, 27, 1, 2, 4))
			s0, s1 := vsrc(), uint32(rng.Range(10, 15))
			add(fmt.Sprintf("vop2.%d v%d, %d, v%d", op, dst, s0, s1), c02D("vop2", op, dst, s0, s1))
		case 6: // VOP1
			op := uint32(rng.Pick(1, 43, 44, 5, 6))
			s0 := vsrc()
			add(fmt.Sprintf("vop1.%d v%d, %d", op, dst, s0), c02D("vop1", op, dst, s0))
		case 7: // SOP2 on s10..s15
			op := uint32(rng.Pick(0, 1, 2, 6, 7, 8, 9, 12, 28, 30, 32, 36))
			sd := uint32(rng.Range(10, 15))
			s0, s1 := uint32(rng.Pick(10, 11, 2, 8, 128+5, 193)), uint32(rng.Pick(10, 11, 128+1, 128+7, 2))
			add(fmt.Sprintf("sop2.%d s%d, %d, %d", op, sd, s0, s1), c02D("sop2", op, sd, s0, s1))
		case 8, 9: // a load of some width from a random plane (sub-dword: byte offset inside the dword)
			op := uint32(rng.Pick(16, 17, 18, 20, 16, 17, 18, 19))
			plane := uint32(rng.Intn(c02Planes))
			off := plane * uint32(grid) * 4
			switch op {
			case 16, 17:
				off += uint32(rng.Intn(4))
			case 18, 19:
				off += uint32(rng.Pick(0, 2))
			}
			add(fmt.Sprintf("flat_load.%d v%d, v[4:5] offset:%d", op, dst, off), c02D("flat", op, dst, 4, 0, off, 0x7f))
			wait()
		case 10: // a two-dword load into an aligned pair
			d2 := uint32(rng.Pick(10, 12, 14))
			plane := uint32(rng.Intn(c02Planes - 1))
			add(fmt.Sprintf("flat_load_dwordx2 v[%d:%d], v[4:5] offset:%d", d2, d2+1, plane*uint32(grid)*4),
				c02D("flat", 21, d2, 4, 0, plane*uint32(grid)*4, 0x7f))
			wait()
		default: // store a work register to an output plane not yet written
			if stores < c02Planes-1 {
				src := uint32(rng.Range(10, 15))
				add(fmt.Sprintf("flat_store_dword v[8:9], v%d offset:%d", src, uint32(stores)*uint32(grid)*4),
					c02D("flat", 28, 0, 8, src, uint32(stores)*uint32(grid)*4, 0x7f))
				stores++
			}
		}
	}
	// fold everything into v10 and store it to the last plane
	for r := uint32(11); r <= 15; r++ {
		add(fmt.Sprintf("v_xor_b32 v10, v%d, v10", r), c02D("vop2", 21, 10, V+r, 10))
	}
	add("v_add_u32 v10, vcc, s10, v10", c02D("vop2", 25, 10, 10, 10))
	add(fmt.Sprintf("flat_store_dword v[8:9], v10 offset:%d", uint32(c02Planes-1)*uint32(grid)*4),
		c02D("flat", 28, 0, 8, 10, uint32(c02Planes-1)*uint32(grid)*4, 0x7f))
	add("s_endpgm", c02D("sopp", 1, 0))
	return p, text
}

func c02Assemble(p []desc) []byte {
	var b []byte
	for _, d := range p {
		b = append(b, encodeDesc(d)...)
	}
	return b
}

// ---- child ------------------------------------------------------------------------------

type c02KernArgs struct {
	In  driver.Ptr
	Out driver.Ptr
}

type c02SeqRec struct {
	mu   sync.Mutex
	seqs map[string][]string
}

func (h *c02SeqRec) add(key string, inst *insts.Inst) {
	h.mu.Lock()
	h.seqs[key] = append(h.seqs[key], fmt.Sprintf("%d.%d", inst.FormatType, inst.Opcode))
	h.mu.Unlock()
}

// emulator hook
func (h *c02SeqRec) Func(ctx sim.HookCtx) {
	wf, ok := ctx.Item.(*emu.Wavefront)
	if !ok {
		return
	}
	inst, ok := ctx.Detail.(*insts.Inst)
	if !ok {
		return
	}
	h.add(fmt.Sprintf("%d.%d", wf.WG.IDX, wf.FirstWiFlatID), inst)
}

// timing tracer
func (h *c02SeqRec) StartTask(t tracing.Task) {
	if t.Kind != "inst" {
		return
	}
	d, ok := t.Detail.(map[string]interface{})
	if !ok {
		return
	}
	wf, ok1 := d["wf"].(*wavefront.Wavefront)
	inst, ok2 := d["inst"].(*wavefront.Inst)
	if ok1 && ok2 {
		h.add(fmt.Sprintf("%d.%d", wf.Wavefront.WG.IDX, wf.FirstWiFlatID), inst.Inst)
	}
}
func (h *c02SeqRec) StepTask(t tracing.Task)          {}
func (h *c02SeqRec) AddMilestone(m tracing.Milestone) {}
func (h *c02SeqRec) EndTask(t tracing.Task)           {}

func c02KernChild(args []string) {
	if len(args) < 2 {
		os.Exit(2)
	}
	var spec c02KernSpec
	sb, err := os.ReadFile(args[0])
	if err == nil {
		err = json.Unmarshal(sb, &spec)
	}
	if err != nil {
		os.Exit(2)
	}
	res := c02KernResult{Seqs: map[string]string{}}
	save := func() {
		b, _ := json.Marshal(res)
		tmp := args[1] + ".tmp"
		if os.WriteFile(tmp, b, 0o644) == nil {
			_ = os.Rename(tmp, args[1])
		}
	}
	save()
	dir := filepath.Dir(args[1])
	s := simulation.MakeBuilder().WithoutMonitoring().WithOutputFileName(filepath.Join(dir, "akita_sim")).Build()
	if spec.Timing {
		sampling.InitSampledEngine()
		timingconfig.MakeBuilder().WithSimulation(s).WithNumGPUs(1).WithGPUType("r9nano").Build()
	} else {
		emusystem.MakeBuilder().WithSimulation(s).WithNumGPUs(1).WithArchitecture(arch.GCN3).Build()
	}
	rec := &c02SeqRec{seqs: map[string][]string{}}
	for _, c := range s.Components() {
		switch x := c.(type) {
		case *emu.ComputeUnit:
			x.AcceptHook(rec)
		case *cu.ComputeUnit:
			tracing.CollectTrace(x, rec)
		}
	}
	drv := s.GetComponentByName("Driver").(*driver.Driver)

	prog, text := c02GenKernel(spec.Seed, spec.Grid)
	res.Text = text
	co := &insts.KernelCodeObject{KernelCodeObjectMeta: &insts.KernelCodeObjectMeta{}, Version: insts.CodeObjectV3}
	co.Data = c02Assemble(prog)
	co.EnableSgprKernargSegmentPtr = true
	co.ComputePgmRsrc2 = 1 << 7 // work-group id x; work-item id x only
	co.KernargSegmentByteSize = 16
	co.WFSgprCount, co.WIVgprCount = 32, 16

	drv.Run()
	ctx := drv.Init()
	n := spec.Grid * c02Planes
	in := make([]uint32, n)
	for i := range in {
		in[i] = c02DataWord(spec.Seed, i, 3)
	}
	out := make([]uint32, n)
	dIn := drv.AllocateMemory(ctx, uint64(n*4))
	dOut := drv.AllocateMemory(ctx, uint64(n*4))
	drv.MemCopyH2D(ctx, dIn, in)
	drv.MemCopyH2D(ctx, dOut, out)
	ka := c02KernArgs{In: dIn, Out: dOut}
	drv.LaunchKernel(ctx, co, [3]uint32{uint32(spec.Grid), 1, 1}, [3]uint16{64, 1, 1}, &ka)
	drv.MemCopyD2H(ctx, out, dOut)
	res.Out = make([]byte, n*4)
	for i, v := range out {
		binary.LittleEndian.PutUint32(res.Out[i*4:], v)
	}
	rec.mu.Lock()
	for k, v := range rec.seqs {
		res.Seqs[k] = strings.Join(v, " ")
	}
	rec.mu.Unlock()
	res.Done = true
	save()
	os.Exit(0)
}

// ---- parent -----------------------------------------------------------------------------

func c02RunKern(dir string, spec c02KernSpec, limit time.Duration) c02KernResult {
	must(os.MkdirAll(dir, 0o755))
	sf, rf := filepath.Join(dir, "spec.json"), filepath.Join(dir, "result.json")
	b, _ := json.Marshal(spec)
	must(os.WriteFile(sf, b, 0o644))
	exe, _ := os.Executable()
	cmd := exec.Command(exe, "child", "c02kern", sf, rf)
	cmd.Dir = dir
	cmd.Env = append(os.Environ(), "GOMEMLIMIT=3GiB")
	var errb strings.Builder
	cmd.Stderr = &errb
	done := make(chan error, 1)
	if err := cmd.Start(); err != nil {
		return c02KernResult{Fault: "start:" + err.Error()}
	}
	go func() { done <- cmd.Wait() }()
	fault := ""
	select {
	case err := <-done:
		if err != nil {
			fault = "exit:" + err.Error() + " " + logTail(errb.String(), 400)
		}
	case <-time.After(limit):
		_ = cmd.Process.Kill()
		<-done
		fault = "hang"
	}
	var res c02KernResult
	if rb, err := os.ReadFile(rf); err == nil {
		_ = json.Unmarshal(rb, &res)
	}
	if fault != "" {
		res.Fault = fault
	} else if !res.Done {
		res.Fault = "incomplete"
	}
	_ = os.RemoveAll(dir)
	return res
}

func c02RunKernels(r *Run, rng *Rng) {
	n := 16
	if r.Tier == "thorough" {
		n = 60
	}
	type job struct {
		seed uint64
		grid int
		res  [2]c02KernResult
	}
	jobs := make([]*job, n)
	for i := range jobs {
		jobs[i] = &job{seed: r.Seed*1000 + uint64(i), grid: rng.Pick(64, 128, 256, 192)}
	}
	sem := make(chan struct{}, 8)
	var wg sync.WaitGroup
	for i, j := range jobs {
		for m := 0; m < 2; m++ {
			wg.Add(1)
			go func(i, m int, j *job) {
				defer wg.Done()
				sem <- struct{}{}
				defer func() { <-sem }()
				dir := filepath.Join(r.OutDir, fmt.Sprintf("kern-%d-%d", i, m))
				// a hang is the driver's lost wake-up (property C12), not this property's subject: repeat
				for try := 0; try < 3; try++ {
					j.res[m] = c02RunKern(dir, c02KernSpec{Seed: j.seed, Timing: m == 1, Grid: j.grid}, 40*time.Second)
					if j.res[m].Fault != "hang" {
						break
					}
				}
			}(i, m, j)
		}
	}
	wg.Wait()
	for _, j := range jobs {
		id := fmt.Sprintf("generated kernel seed=%d grid=%d (replay: <harness> child c02kernpair %d %d)", j.seed, j.grid, j.seed, j.grid)
		e, t := j.res[0], j.res[1]
		r.Count("kernel")
		r.CountN("kernel-insts", len(e.Text))
		if e.Fault != "" || t.Fault != "" {
			r.Checked("kernel-emu-vs-timing")
			if (e.Fault == "") != (t.Fault == "") {
				r.Failf("C02.kernel-one-mode-fails", id, "emulation fault=%q timing fault=%q program: %s", e.Fault, t.Fault, strings.Join(e.Text, "; "))
			} else {
				r.Note("%s failed in both modes: %s | %s", id, e.Fault, t.Fault)
			}
			continue
		}
		r.Checked("kernel-emu-vs-timing")
		if string(e.Out) != string(t.Out) {
			first := -1
			for k := 0; k+4 <= len(e.Out); k += 4 {
				if string(e.Out[k:k+4]) != string(t.Out[k:k+4]) {
					first = k / 4
					break
				}
			}
			plane, gid := first/j.grid, first%j.grid
			r.Failf("C02.kernel-buffers-differ", id, "first differing dword %d (plane %d, work-item %d): emulation %x timing %x; program: %s",
				first, plane, gid, e.Out[first*4:first*4+4], t.Out[first*4:first*4+4], strings.Join(e.Text, "; "))
		}
		r.Checked("kernel-inst-sequences")
		var ks []string
		for k := range e.Seqs {
			ks = append(ks, k)
		}
		sort.Strings(ks)
		if len(e.Seqs) != len(t.Seqs) || len(e.Seqs) != (j.grid+63)/64 {
			r.Failf("C02.kernel-wavefronts-differ", id, "wavefronts: emulation %d timing %d expected %d", len(e.Seqs), len(t.Seqs), (j.grid+63)/64)
		}
		for _, k := range ks {
			if e.Seqs[k] != t.Seqs[k] {
				r.Failf("C02.kernel-inst-sequence-differs", id, "wavefront %s: emulation [%s] timing [%s]", k, e.Seqs[k], t.Seqs[k])
				break
			}
		}
	}
}

// `<exe> child c02kernpair <seed> <grid>`: replay one generated kernel in both modes and print the outcome.
func init() {
	childFuncs["c02kernpair"] = func(args []string) {
		var seed uint64
		grid := 64
		if len(args) > 0 {
			fmt.Sscan(args[0], &seed)
		}
		if len(args) > 1 {
			fmt.Sscan(args[1], &grid)
		}
		dir, _ := os.MkdirTemp(os.Getenv("VERIF_WL_DIR"), "c02kern")
		e := c02RunKern(filepath.Join(dir, "e"), c02KernSpec{Seed: seed, Grid: grid}, 120*time.Second)
		t := c02RunKern(filepath.Join(dir, "t"), c02KernSpec{Seed: seed, Timing: true, Grid: grid}, 120*time.Second)
		_ = os.RemoveAll(dir)
		fmt.Println(strings.Join(e.Text, "\n"))
		fmt.Printf("emulation fault=%q timing fault=%q equal-output=%v wavefronts=%d/%d\n", e.Fault, t.Fault, string(e.Out) == string(t.Out), len(e.Seqs), len(t.Seqs))
		for k := 0; k+4 <= len(e.Out) && k+4 <= len(t.Out); k += 4 {
			if string(e.Out[k:k+4]) != string(t.Out[k:k+4]) {
				fmt.Printf("dword %d: %x / %x\n", k/4, e.Out[k:k+4], t.Out[k:k+4])
			}
		}
		for k, v := range e.Seqs {
			if t.Seqs[k] != v {
				fmt.Printf("wf %s: emu [%s]\n        timing [%s]\n", k, v, t.Seqs[k])
			}
		}
	}
}
