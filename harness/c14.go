package main

import (
	"context"
	"fmt"
	"os"
	"os/exec"
	"path/filepath"
	"strconv"
	"strings"
	"sync"
	"time"

	"github.com/sarchlab/akita/v4/mem/mem"
	"github.com/sarchlab/akita/v4/sim"
	"github.com/sarchlab/mgpusim/v4/amd/driver"
	"github.com/sarchlab/mgpusim/v4/amd/insts"
	"github.com/sarchlab/mgpusim/v4/amd/kernels"
	"github.com/sarchlab/mgpusim/v4/amd/protocol"
	"github.com/sarchlab/mgpusim/v4/amd/timing/cu"
	"github.com/sarchlab/mgpusim/v4/amd/timing/wavefront"
)

// Property C14: barriers, wait counts and wavefront termination.
//
// Case kinds (one line in, one line out):
//
//	c14 abs ace=<k> buf=<ids|-> exec=<ids|-> wfs=<wg:state:op:lk:vm:osc:ovc,...> ; op ; op ...
//	    an abstract scheduler state is installed in a real compute unit built by
//	    cu.MakeBuilder (wavefront states, counters, the instruction each wavefront holds,
//	    barrier buffer, internally-executing list, k messages already waiting in the ToACE
//	    outgoing buffer) and the ops run the real code:
//	      is i op lk vm  SchedulerImpl.issueToInternal of an instruction with that SOPP opcode
//	      iu i           issue to an execution unit (state := Running, as DoIssue does)
//	      ud i           an execution unit finishes: ComputeUnit.UpdatePCAndSetReady
//	      mi i v|s       a memory instruction leaves its unit: counters ++ (as the units do)
//	      mr i vl|vs|vn|sl|xx last   memory response through the real return handlers
//	      ev             SchedulerImpl.EvaluateInternalInst
//	      dr k           the dispatcher side drains k messages from ToACE
//	      wc i           ComputeUnit.handleWfCompletionEvent (sampling path)
//	    answer: per op `<result>/<state letters>` and the final abstract state.
//	c14 sc ...  same format, but starting from a freshly dispatched state and with ops that
//	    respect the issue rules (only Ready wavefronts issue, only busy units finish, only
//	    outstanding accesses return); the property oracles are evaluated on these.
//	c14 prog ... whole programs on the real emulation / r9nano timing platforms (child process)
func init() { register("C14", runC14) }

const c14States = "DRNCBS"

type c14WfCfg struct {
	wg, state, op, lk, vm, osc, ovc int
}

type c14Env struct {
	eng   *fakeEngine
	cu    *cu.ComputeUnit
	sch   *cu.SchedulerImpl
	wfs   []*wavefront.Wavefront
	wgs   []*wavefront.WorkGroup
	wgOf  map[string]int // MapReq ID -> wg index
	wfIdx map[*wavefront.Wavefront]int
	nreq  int
	samp  *c14SampExt // sampled work-groups and the engine's event queue (c14_samp.go); nil otherwise
}

func c14MkInst(op, lk, vm int) *wavefront.Inst {
	raw := insts.NewInst()
	raw.InstType = &insts.InstType{InstName: "x", Opcode: insts.Opcode(op), ExeUnit: insts.ExeUnitSpecial}
	raw.Format = &insts.Format{FormatType: insts.SOPP}
	raw.ByteSize = 4
	raw.LKGMCNT = lk
	raw.VMCNT = vm
	return wavefront.NewInst(raw)
}

func c14NewEnv(cfg []c14WfCfg, ace int, buf, exec []int) *c14Env {
	e := &c14Env{eng: &fakeEngine{}, wgOf: map[string]int{}, wfIdx: map[*wavefront.Wavefront]int{}}
	e.cu = cu.MakeBuilder().WithEngine(e.eng).WithFreq(1 * sim.GHz).Build("CU")
	e.cu.ToACE.SetConnection(&fakeConn{name: "c"})
	e.sch = e.cu.VerifScheduler()
	co := &insts.KernelCodeObject{KernelCodeObjectMeta: &insts.KernelCodeObjectMeta{}}
	nwg := 0
	for _, c := range cfg {
		if c.wg+1 > nwg {
			nwg = c.wg + 1
		}
	}
	for g := 0; g < nwg; g++ {
		rawWG := kernels.NewWorkGroup()
		req := protocol.MapWGReqBuilder{}.WithSrc("Disp.Port").WithDst(e.cu.ToACE.AsRemote()).WithWG(rawWG).Build()
		e.wgOf[req.ID] = g
		e.wgs = append(e.wgs, wavefront.NewWorkGroup(rawWG, req))
	}
	for i, c := range cfg {
		raw := kernels.NewWavefront()
		raw.CodeObject = co
		raw.WG = e.wgs[c.wg].WorkGroup
		wf := wavefront.NewWavefront(raw)
		e.cu.VerifNewWavefront(wf) // the register accessor wrapWG gives every wavefront (scalar-load returns write through it)
		wf.WG = e.wgs[c.wg]
		wf.WG.Wfs = append(wf.WG.Wfs, wf)
		wf.SIMDID = i % 4
		wf.State = wavefront.WfState(c.state)
		wf.SetDynamicInst(c14MkInst(c.op, c.lk, c.vm))
		wf.OutstandingScalarMemAccess = c.osc
		wf.OutstandingVectorMemAccess = c.ovc
		e.cu.WfPools[wf.SIMDID].AddWf(wf)
		e.wfs = append(e.wfs, wf)
		e.wfIdx[wf] = i
	}
	pick := func(ids []int) []*wavefront.Wavefront {
		o := make([]*wavefront.Wavefront, 0, len(ids))
		for _, i := range ids {
			o = append(o, e.wfs[i])
		}
		return o
	}
	e.sch.VerifSetBarrierBuffer(pick(buf))
	e.sch.VerifSetInternalExecuting(pick(exec))
	// `ace` foreign messages already wait in the outgoing buffer (back-pressure)
	for k := 0; k < ace; k++ {
		m := protocol.WGCompletionMsgBuilder{}.WithSrc(e.cu.ToACE.AsRemote()).WithDst("Disp.Port").
			WithRspTo([]string{"foreign"}).Build()
		if err := e.cu.ToACE.Send(m); err != nil {
			panic("c14: cannot pre-fill ToACE")
		}
	}
	return e
}

func (e *c14Env) letters() string {
	b := make([]byte, len(e.wfs))
	for i, wf := range e.wfs {
		s := int(wf.State)
		if s < 0 || s >= len(c14States) {
			b[i] = '?'
		} else {
			b[i] = c14States[s]
		}
	}
	return string(b)
}

func (e *c14Env) ids(l []*wavefront.Wavefront) string {
	if len(l) == 0 {
		return "-"
	}
	p := make([]string, len(l))
	for i, wf := range l {
		p[i] = strconv.Itoa(e.wfIdx[wf])
	}
	return strings.Join(p, ",")
}

func (e *c14Env) inPool(wf *wavefront.Wavefront) int {
	for _, w := range e.cu.VerifPoolWfs(wf.SIMDID) {
		if w == wf {
			return 1
		}
	}
	return 0
}

func (e *c14Env) dump() string {
	p := make([]string, len(e.wfs))
	for i, wf := range e.wfs {
		p[i] = fmt.Sprintf("%c:%d:%d:%d:%d", e.letters()[i], wf.PC()/4, wf.OutstandingScalarMemAccess,
			wf.OutstandingVectorMemAccess, e.inPool(wf))
	}
	return fmt.Sprintf("buf=%s exec=%s wfs=%s", e.ids(e.sch.VerifBarrierBuffer()),
		e.ids(e.sch.VerifInternalExecuting()), strings.Join(p, ","))
}

// apply runs one op on the real code and returns its result token.
func (e *c14Env) apply(op string) string {
	t := strings.Fields(op)
	arg := func(k int) int {
		if k >= len(t) {
			return 0
		}
		v, _ := strconv.Atoi(t[k])
		return v
	}
	wfAt := func(k int) *wavefront.Wavefront {
		i := arg(k)
		if i < 0 || i >= len(e.wfs) {
			return nil
		}
		return e.wfs[i]
	}
	switch t[0] {
	case "is":
		wf := wfAt(1)
		if wf == nil {
			return "x"
		}
		wf.InstToIssue = c14MkInst(arg(2), arg(3), arg(4))
		e.sch.VerifIssueToInternal(wf)
		return "i"
	case "iu":
		wf := wfAt(1)
		if wf == nil {
			return "x"
		}
		wf.SetDynamicInst(c14MkInst(99, 0, 0))
		wf.State = wavefront.WfRunning
		return "u"
	case "ud":
		wf := wfAt(1)
		if wf == nil {
			return "x"
		}
		e.cu.UpdatePCAndSetReady(wf)
		return "d"
	case "mi":
		wf := wfAt(1)
		if wf == nil {
			return "x"
		}
		if t[2] == "v" {
			wf.OutstandingVectorMemAccess++
			wf.OutstandingScalarMemAccess++
		} else {
			wf.OutstandingScalarMemAccess++
		}
		return "m"
	case "mr":
		wf := wfAt(1)
		if wf == nil {
			return "x"
		}
		e.memReturn(wf, t[2], arg(3) != 0)
		return "r"
	case "ev":
		if e.sch.EvaluateInternalInst() {
			return "p1"
		}
		return "p0"
	case "dr":
		var got []string
		for k := 0; k < arg(1); k++ {
			m := e.cu.ToACE.RetrieveOutgoing()
			if m == nil {
				break
			}
			c := m.(*protocol.WGCompletionMsg)
			if g, ok := e.wgOf[c.RspTo[0]]; ok && len(c.RspTo) == 1 {
				got = append(got, strconv.Itoa(g))
			} else {
				got = append(got, "f")
			}
		}
		if len(got) == 0 {
			return "o-"
		}
		return "o" + strings.Join(got, ".")
	case "fl":
		return c14ApplyFlush(e)
	case "fe":
		return c14ApplyFire(e, wfAt(1))
	case "wc":
		wf := wfAt(1)
		if wf == nil {
			return "x"
		}
		before := e.eng.scheduled
		evt := wavefront.NewWfCompletionEvent(0, e.cu, wf)
		e.cu.VerifHandleWfCompletionEvent(evt)
		if e.eng.scheduled != before {
			return "w1" // rescheduled: the message could not be sent
		}
		return "w0"
	}
	return "x"
}

func (e *c14Env) memReturn(wf *wavefront.Wavefront, kind string, last bool) {
	e.nreq++
	inst := wavefront.NewInst(insts.NewInst())
	inst.InstType = &insts.InstType{InstName: "m", ExeUnit: insts.ExeUnitVMem}
	inst.Format = &insts.Format{FormatType: insts.FLAT}
	if kind == "vn" {
		inst.Format = &insts.Format{FormatType: insts.VOP1}
	}
	switch kind {
	case "vl", "vn":
		rd := mem.ReadReqBuilder{}.WithAddress(0x1000).WithByteSize(4).Build()
		rd.CanWaitForCoalesce = !last
		e.cu.InFlightVectorMemAccess = append(e.cu.InFlightVectorMemAccess,
			cu.VectorMemAccessInfo{Read: rd, Wavefront: wf, Inst: inst})
		rsp := mem.DataReadyRspBuilder{}.WithRspTo(rd.ID).WithData(make([]byte, 4)).Build()
		e.cu.VerifHandleVectorDataLoadReturn(rsp)
	case "vs":
		wr := mem.WriteReqBuilder{}.WithAddress(0x1000).WithData(make([]byte, 4)).Build()
		wr.CanWaitForCoalesce = !last
		e.cu.InFlightVectorMemAccess = append(e.cu.InFlightVectorMemAccess,
			cu.VectorMemAccessInfo{Write: wr, Wavefront: wf, Inst: inst})
		rsp := mem.WriteDoneRspBuilder{}.WithRspTo(wr.ID).Build()
		e.cu.VerifHandleVectorDataStoreRsp(rsp)
	case "sl":
		rd := mem.ReadReqBuilder{}.WithAddress(0x1000).WithByteSize(4).Build()
		rd.CanWaitForCoalesce = !last
		e.cu.InFlightScalarMemAccess = append(e.cu.InFlightScalarMemAccess,
			&cu.ScalarMemAccessInfo{Req: rd, Wavefront: wf, DstSGPR: insts.SReg(0), Inst: inst})
		rsp := mem.DataReadyRspBuilder{}.WithRspTo(rd.ID).WithData(make([]byte, 4)).Build()
		e.cu.VerifHandleScalarDataLoadReturn(rsp)
	default: // a response nobody waits for
		rsp := mem.DataReadyRspBuilder{}.WithRspTo("nobody").WithData(make([]byte, 4)).Build()
		e.cu.VerifHandleVectorDataLoadReturn(rsp)
		e.cu.VerifHandleScalarDataLoadReturn(rsp)
		e.cu.VerifHandleVectorDataStoreRsp(mem.WriteDoneRspBuilder{}.WithRspTo("nobody").Build())
	}
}

func (e *c14Env) outMsgs() string {
	var got []string
	for {
		m := e.cu.ToACE.RetrieveOutgoing()
		if m == nil {
			break
		}
		c := m.(*protocol.WGCompletionMsg)
		if g, ok := e.wgOf[c.RspTo[0]]; ok {
			got = append(got, strconv.Itoa(g))
		} else {
			got = append(got, "f")
		}
	}
	if len(got) == 0 {
		return "-"
	}
	return strings.Join(got, ".")
}

func c14ParseInts(s string) []int {
	if s == "-" || s == "" {
		return nil
	}
	var o []int
	for _, p := range strings.Split(s, ",") {
		v, _ := strconv.Atoi(p)
		o = append(o, v)
	}
	return o
}

func c14ParseCfg(head string) (cfg []c14WfCfg, ace int, buf, exec []int) {
	for _, tok := range strings.Fields(head) {
		k, v, ok := strings.Cut(tok, "=")
		if !ok {
			continue
		}
		switch k {
		case "ace":
			ace, _ = strconv.Atoi(v)
		case "buf":
			buf = c14ParseInts(v)
		case "exec":
			exec = c14ParseInts(v)
		case "wfs":
			for _, w := range strings.Split(v, ",") {
				f := strings.Split(w, ":")
				n := make([]int, 7)
				for i := range n {
					if i == 1 {
						n[i] = strings.IndexByte(c14States, f[1][0])
					} else {
						n[i], _ = strconv.Atoi(f[i])
					}
				}
				cfg = append(cfg, c14WfCfg{n[0], n[1], n[2], n[3], n[4], n[5], n[6]})
			}
		}
	}
	return
}

// c14Observer is told about every op of a scenario (before/after) for the oracles.
type c14Observer interface {
	after(e *c14Env, op, res string)
}

// c14RunLine runs one abs/sc case line on the real code and returns the answer.
func c14RunLine(line string, obs c14Observer) string {
	parts := strings.Split(line, ";")
	cfg, ace, buf, exec := c14ParseCfg(parts[0])
	var e *c14Env
	var out []string
	fault := catch(func() {
		e = c14NewEnv(cfg, ace, buf, exec)
		for _, op := range parts[1:] {
			op = strings.TrimSpace(op)
			if op == "" {
				continue
			}
			res := e.apply(op)
			out = append(out, res+"/"+e.letters())
			if obs != nil {
				obs.after(e, op, res)
			}
		}
	})
	if fault != "" {
		return strings.Join(append(out, "fault:"+c14Fault(fault)), " ")
	}
	out = append(out, e.dump(), "out="+e.outMsgs())
	return strings.Join(out, " ")
}

func c14Fault(f string) string {
	if strings.Contains(f, "never") {
		return "never"
	}
	return f
}

// ---- generators --------------------------------------------------------------------------

func c14IntsStr(l []int) string {
	if len(l) == 0 {
		return "-"
	}
	p := make([]string, len(l))
	for i, v := range l {
		p[i] = strconv.Itoa(v)
	}
	return strings.Join(p, ",")
}

func c14RandOp(rng *Rng) int { return rng.Pick(1, 1, 10, 10, 10, 12, 12, 0, 99) }

// c14GenAbs makes an arbitrary (possibly unreachable) abstract state and op sequence.
func c14GenAbs(rng *Rng) string {
	nwg := rng.Range(1, 3)
	n := rng.Range(1, 6)
	if rng.Chance(25) {
		n = rng.Range(14, 24) // fill the barrier buffer
	}
	var wfs []string
	style := rng.Intn(4)
	for i := 0; i < n; i++ {
		st := "DRNCBS"[rng.Intn(6)]
		switch style {
		case 0:
			st = "RNCB"[rng.Intn(4)]
		case 1:
			st = "NB"[rng.Intn(2)]
		case 2:
			st = "NBC"[rng.Intn(3)]
		}
		osc, ovc := 0, 0
		if rng.Chance(40) {
			osc, ovc = rng.Range(-1, 3), rng.Range(-1, 3)
		}
		wfs = append(wfs, fmt.Sprintf("%d:%c:%d:%d:%d:%d:%d", rng.Intn(nwg), st, c14RandOp(rng),
			rng.Range(0, 3), rng.Range(0, 3), osc, ovc))
	}
	var buf, exec []int
	nb := rng.Intn(3)
	if n > 12 {
		nb = rng.Range(13, 17)
	}
	if nb > n {
		nb = n
	}
	perm := rng.Perm(n)
	buf = append(buf, perm[:nb]...)
	perm = rng.Perm(n)
	ne := rng.Range(0, n)
	if ne > 8 {
		ne = 8
	}
	exec = append(exec, perm[:ne]...)
	if rng.Chance(10) && ne > 0 { // duplicates
		exec = append(exec, exec[0])
	}
	head := fmt.Sprintf("c14 abs ace=%d buf=%s exec=%s wfs=%s", rng.Pick(0, 0, 3, 4, 4), c14IntsStr(buf),
		c14IntsStr(exec), strings.Join(wfs, ","))
	ops := []string{head}
	for k := rng.Range(1, 8); k > 0; k-- {
		i := rng.Intn(n)
		switch rng.Intn(11) {
		case 10:
			ops = append(ops, "fl")
		case 0, 1, 2, 3:
			ops = append(ops, "ev")
		case 4:
			ops = append(ops, fmt.Sprintf("is %d %d %d %d", i, c14RandOp(rng), rng.Range(0, 3), rng.Range(0, 3)))
		case 5:
			ops = append(ops, fmt.Sprintf("mr %d %s %d", i, []string{"vl", "vs", "vn", "sl", "xx"}[rng.Intn(5)], rng.Intn(2)))
		case 6:
			ops = append(ops, fmt.Sprintf("dr %d", rng.Range(1, 4)))
		case 7:
			ops = append(ops, fmt.Sprintf("ud %d", i))
		case 8:
			ops = append(ops, fmt.Sprintf("wc %d", i))
		case 9:
			if rng.Bool() {
				ops = append(ops, fmt.Sprintf("mi %d %s", i, []string{"v", "s"}[rng.Intn(2)]))
			} else {
				ops = append(ops, fmt.Sprintf("iu %d", i))
			}
		}
	}
	return strings.Join(ops, " ; ")
}

// ---- legal scenarios, generated online against the real code, with the property oracles ----

type c14SendHook struct {
	e     *c14Env
	sends []int
}

func (h *c14SendHook) Func(ctx sim.HookCtx) {
	if ctx.Pos != sim.HookPosPortMsgSend {
		return
	}
	if c, ok := ctx.Item.(*protocol.WGCompletionMsg); ok {
		if g, ok := h.e.wgOf[c.RspTo[0]]; ok {
			h.sends = append(h.sends, g)
		}
	}
}

type c14Scenario struct {
	r      *Run
	e      *c14Env
	hook   *c14SendHook
	ops    []string
	out    []string
	todo   []int  // barriers each wavefront still executes before s_endpgm
	memK   []byte // kind of the memory instruction the wavefront holds in a unit (0 = none)
	arr    []int  // barriers issued
	bar    []int  // barriers passed
	nsent  []int  // completion messages per work-group
	failed map[string]bool
	nflush int
}

func (sc *c14Scenario) line() string { return strings.Join(sc.ops, " ; ") }

func (sc *c14Scenario) fail(sig, format string, a ...interface{}) {
	if sc.failed[sig] {
		return
	}
	sc.failed[sig] = true
	sc.r.Failf(sig, sc.line(), format, a...)
}

func (sc *c14Scenario) inExec(wf *wavefront.Wavefront) bool {
	for _, w := range sc.e.sch.VerifInternalExecuting() {
		if w == wf {
			return true
		}
	}
	return false
}

type c14Snap struct {
	state []wavefront.WfState
	pc    []uint64
	op    []int
	inEx  []bool
	done  []bool // work-group fully completed
}

func (sc *c14Scenario) snap() c14Snap {
	e := sc.e
	var s c14Snap
	for _, wf := range e.wfs {
		s.state = append(s.state, wf.State)
		s.pc = append(s.pc, wf.PC())
		s.op = append(s.op, int(wf.Inst().Opcode))
		s.inEx = append(s.inEx, sc.inExec(wf))
	}
	for _, wg := range e.wgs {
		all := true
		for _, wf := range wg.Wfs {
			if wf.State != wavefront.WfCompleted {
				all = false
			}
		}
		s.done = append(s.done, all)
	}
	return s
}

// do runs one op on the real code and evaluates the property oracles around it.
func (sc *c14Scenario) do(op string) string {
	e := sc.e
	before := sc.snap()
	nsend := len(sc.hook.sends)
	sc.ops = append(sc.ops, op)
	res := e.apply(op)
	sc.out = append(sc.out, res+"/"+e.letters())
	after := sc.snap()
	t := strings.Fields(op)
	if t[0] == "is" && t[2] == "10" {
		i, _ := strconv.Atoi(t[1])
		sc.arr[i]++
	}
	if t[0] == "fl" {
		// a flush cancels every barrier arrival that has not been released: the wavefront is Ready
		// again with the PC still on its s_barrier and executes it once more
		sc.nflush++
		for i := range e.wfs {
			if i >= len(sc.arr) {
				break
			}
			if before.state[i] == wavefront.WfAtBarrier || (before.state[i] == wavefront.WfRunning && before.op[i] == 10 && before.inEx[i]) {
				sc.arr[i]--
				sc.todo[i]++
			}
			sc.memK[i] = 0
		}
		c14FlushOracle(sc, before, after)
	}
	if t[0] == "ev" {
		for i, wf := range e.wfs {
			if !before.inEx[i] {
				continue
			}
			moved := after.pc[i] != before.pc[i]
			switch before.op[i] {
			case 10:
				if moved {
					sc.bar[i]++
				}
			case 12:
				if moved || after.state[i] != before.state[i] {
					sc.r.Checked("waitcnt")
					if wf.OutstandingScalarMemAccess > wf.Inst().LKGMCNT || wf.OutstandingVectorMemAccess > wf.Inst().VMCNT {
						sc.fail("C14.waitcnt", "wf %d finished s_waitcnt lgkm=%d vm=%d with %d/%d outstanding", i,
							wf.Inst().LKGMCNT, wf.Inst().VMCNT, wf.OutstandingScalarMemAccess, wf.OutstandingVectorMemAccess)
					}
				}
			case 1:
				if after.state[i] == wavefront.WfCompleted && before.state[i] != wavefront.WfCompleted {
					sc.r.Checked("endpgm")
					if wf.OutstandingScalarMemAccess > 0 || wf.OutstandingVectorMemAccess > 0 {
						sc.fail("C14.endpgm", "wf %d ended with %d/%d outstanding", i,
							wf.OutstandingScalarMemAccess, wf.OutstandingVectorMemAccess)
					}
				}
			}
		}
	}
	// completion messages: exactly those work-groups that became complete in this op
	sc.r.Checked("completion")
	want := map[int]int{}
	for g := range e.wgs {
		if after.done[g] && !before.done[g] {
			want[g]++
		}
	}
	for _, g := range sc.hook.sends[nsend:] {
		if g >= len(sc.nsent) {
			continue // a sampled work-group: judged by the oracles of c14_samp.go
		}
		want[g]--
		sc.nsent[g]++
		if sc.nsent[g] > 1 {
			sc.fail("C14.completion.twice", "work-group %d reported %d times", g, sc.nsent[g])
		}
	}
	for g, d := range want {
		if d > 0 {
			sc.fail("C14.completion.missing", "work-group %d completed in op %q without a message", g, op)
		} else if d < 0 {
			sc.fail("C14.completion.early", "work-group %d reported in op %q before its last wavefront ended", g, op)
		}
	}
	sc.checkState(op)
	return res
}

func (sc *c14Scenario) checkState(op string) {
	e := sc.e
	// barrier safety: nobody is past barrier k before every unfinished wavefront of the group arrived at k
	sc.r.Checked("barrier.safe")
	for _, wg := range e.wgs {
		for _, u := range wg.Wfs {
			for _, v := range wg.Wfs {
				iu, iv := e.wfIdx[u], e.wfIdx[v]
				if v.State == wavefront.WfCompleted || u == v {
					continue
				}
				if sc.bar[iu] > sc.arr[iv] {
					sc.fail("C14.barrier.safe", "after %q: wf %d passed %d barriers, unfinished wf %d of its group reached only %d",
						op, iu, sc.bar[iu], iv, sc.arr[iv])
				}
			}
		}
	}
	// barrier liveness: a group whose unfinished wavefronts are all parked must have been released
	if op == "ev" {
		sc.r.Checked("barrier.live")
		for g, wg := range e.wgs {
			unfinished, parked, completed := 0, 0, 0
			for _, wf := range wg.Wfs {
				switch wf.State {
				case wavefront.WfCompleted:
					completed++
				case wavefront.WfAtBarrier:
					parked++
					unfinished++
				default:
					unfinished++
				}
			}
			if unfinished > 0 && parked == unfinished {
				sig := "C14.barrier.live"
				if completed > 0 {
					sig = "C14.barrier.live.earlyexit"
				}
				sc.fail(sig, "work-group %d: all %d unfinished wavefronts wait at the barrier (%d ended earlier) and nobody releases them",
					g, unfinished, completed)
			}
		}
	}
	// barrier buffer and bookkeeping
	sc.r.Checked("buffer")
	buf := e.sch.VerifBarrierBuffer()
	if len(buf) > e.sch.VerifBarrierBufferSize() {
		sc.fail("C14.buffer.bound", "%d wavefronts in a barrier buffer of %d", len(buf), e.sch.VerifBarrierBufferSize())
	}
	for _, wf := range buf {
		if wf.State != wavefront.WfAtBarrier {
			sc.fail("C14.buffer.state", "after %q: wf %d is in the barrier buffer in state %c", op, e.wfIdx[wf], c14States[wf.State])
		}
	}
	seen := map[*wavefront.Wavefront]bool{}
	for _, wf := range e.sch.VerifInternalExecuting() {
		if seen[wf] {
			sc.fail("C14.exec.dup", "after %q: wf %d twice in internalExecuting", op, e.wfIdx[wf])
		}
		seen[wf] = true
		if wf.State != wavefront.WfRunning && !(wf.State == wavefront.WfAtBarrier && wf.Inst().Opcode == 10) {
			sc.fail("C14.exec.state", "after %q: wf %d stays in internalExecuting in state %c (released or ended wavefront would be evaluated again)",
				op, e.wfIdx[wf], c14States[wf.State])
		}
	}
}

// act picks one legal action for wavefront i.
func (sc *c14Scenario) act(rng *Rng, i int, finish bool) {
	wf := sc.e.wfs[i]
	switch {
	case wf.State == wavefront.WfReady:
		if finish || rng.Chance(30) {
			if sc.todo[i] > 0 {
				sc.todo[i]--
				sc.do(fmt.Sprintf("is %d 10 0 0", i))
			} else {
				sc.do(fmt.Sprintf("is %d 1 0 0", i))
			}
			return
		}
		switch rng.Intn(5) {
		case 0:
			sc.do(fmt.Sprintf("is %d 12 %d %d", i, rng.Pick(0, 0, 1, 2, 15), rng.Pick(0, 0, 1, 2, 15)))
		case 1:
			sc.do(fmt.Sprintf("is %d %d 0 0", i, rng.Pick(0, 99)))
		case 2, 3:
			sc.memK[i] = "vs"[rng.Intn(2)]
			sc.do(fmt.Sprintf("iu %d", i))
		default:
			sc.do(fmt.Sprintf("iu %d", i))
		}
	case wf.State == wavefront.WfRunning && !sc.inExec(wf):
		if sc.memK[i] != 0 {
			sc.do(fmt.Sprintf("mi %d %c", i, sc.memK[i]))
			sc.memK[i] = 0
		}
		sc.do(fmt.Sprintf("ud %d", i))
	default:
		sc.memRet(rng, i, finish)
	}
}

func (sc *c14Scenario) memRet(rng *Rng, i int, finish bool) {
	wf := sc.e.wfs[i]
	last := 1
	if !finish && rng.Chance(25) {
		last = 0
	}
	switch {
	case wf.OutstandingVectorMemAccess > 0:
		sc.do(fmt.Sprintf("mr %d %s %d", i, []string{"vl", "vs"}[rng.Intn(2)], last))
	case wf.OutstandingScalarMemAccess > 0:
		sc.do(fmt.Sprintf("mr %d sl %d", i, last))
	}
}

func (sc *c14Scenario) allDone() bool {
	for _, wf := range sc.e.wfs {
		if wf.State != wavefront.WfCompleted {
			return false
		}
	}
	return true
}

// c14RunScenario generates a legal schedule online against the real scheduler.
func c14RunScenario(r *Run, rng *Rng, shape string) {
	var wgs, todo []int
	nwg := rng.Range(1, 3)
	if shape == "big" {
		nwg = rng.Range(2, 3)
	}
	for g := 0; g < nwg; g++ {
		k := rng.Range(1, 5)
		if shape == "big" {
			k = rng.Range(9, 16)
			if len(wgs)+k > 40 {
				k = 40 - len(wgs)
			}
		}
		nb := rng.Range(0, 3)
		if shape == "big" {
			nb = rng.Range(1, 2)
		}
		for j := 0; j < k; j++ {
			wgs = append(wgs, g)
			t := nb
			if rng.Chance(30) {
				t = rng.Intn(nb + 1) // this wavefront leaves early
			}
			todo = append(todo, t)
		}
	}
	n := len(wgs)
	cfg := make([]c14WfCfg, n)
	var wfs []string
	for i := range cfg {
		cfg[i] = c14WfCfg{wg: wgs[i], state: 1, op: 99}
		wfs = append(wfs, fmt.Sprintf("%d:R:99:0:0:0:0", wgs[i]))
	}
	ace := rng.Pick(0, 0, 0, 3, 4)
	sc := &c14Scenario{r: r, todo: todo, memK: make([]byte, n), arr: make([]int, n), bar: make([]int, n),
		nsent: make([]int, nwg), failed: map[string]bool{}}
	sc.ops = []string{fmt.Sprintf("c14 sc ace=%d buf=- exec=- wfs=%s", ace, strings.Join(wfs, ","))}
	fault := catch(func() {
		sc.e = c14NewEnv(cfg, ace, nil, nil)
		sc.hook = &c14SendHook{e: sc.e}
		sc.e.cu.ToACE.AcceptHook(sc.hook)
		evalBias := rng.Pick(10, 25, 50)
		drainBias := rng.Pick(2, 8, 25)
		flushBias := rng.Pick(0, 0, 1, 3)
		// the barrier arrivals of a "big" scenario come in bursts, so the 16-entry buffer overflows
		for step := 0; step < 30*n+100 && !sc.allDone(); step++ {
			switch {
			case rng.Chance(evalBias):
				sc.do("ev")
			case rng.Chance(drainBias):
				sc.do(fmt.Sprintf("dr %d", rng.Range(1, 4)))
			case rng.Chance(flushBias):
				sc.do("fl")
			default:
				sc.act(rng, rng.Intn(n), shape == "big" && rng.Chance(70))
			}
		}
		// closing phase: everybody runs to the end; the environment answers and drains
		for round := 0; round < 8*n+40 && !sc.allDone(); round++ {
			for i := 0; i < n; i++ {
				sc.act(rng, i, true)
			}
			sc.do("ev")
			sc.do("dr 4")
		}
		r.Checked("live")
		if !sc.allDone() {
			sc.fail("C14.live.stuck", "wavefront states %s after the closing phase: some wavefronts never end", sc.e.letters())
		} else {
			sc.do("dr 4")
			for g, k := range sc.nsent {
				if k != 1 {
					sc.fail("C14.completion.count", "work-group %d reported %d times", g, k)
				}
			}
		}
	})
	if fault != "" {
		sc.out = append(sc.out, "fault:"+c14Fault(fault))
		r.Failf("C14.fault", sc.line(), "the real scheduler panicked in a legal schedule: %s", fault)
		r.Case(sc.line(), strings.Join(sc.out, " "))
		return
	}
	sc.out = append(sc.out, sc.e.dump(), "out="+sc.e.outMsgs())
	r.Count("sc:" + shape)
	if sc.nflush > 0 {
		r.Count("sc:with-flush")
	}
	r.Case(sc.line(), strings.Join(sc.out, " "))
}

func runC14(r *Run, rng *Rng, replay string) {
	nAbs, nSc, nBig := 4000, 800, 200
	if r.Tier == "thorough" {
		nAbs, nSc, nBig = 80000, 15000, 5000
	}
	for i := 0; i < nAbs; i++ {
		line := c14GenAbs(rng)
		r.Count("abs")
		r.Case(line, c14RunLine(line, nil))
	}
	for i := 0; i < nSc; i++ {
		c14RunScenario(r, rng, "small")
	}
	for i := 0; i < nBig; i++ {
		c14RunScenario(r, rng, "big")
	}
	c14Programs(r, rng)
}

// ---- whole programs on the real platforms (child process) -----------------------------------

type c14Asm struct{ b []byte }

func (a *c14Asm) e(format string, op uint32, f map[string]uint32) {
	a.b = append(a.b, encodeDesc(desc{format: format, op: op, f: f})...)
}
func (a *c14Asm) lit(format string, op uint32, f map[string]uint32, l uint32) {
	a.b = append(a.b, encodeDesc(desc{format: format, op: op, f: f, literal: l, hasLit: true})...)
}

const (
	c14WaitLgkm = 0x007f // s_waitcnt lgkmcnt(0)
	c14WaitVm   = 0x0f70 // s_waitcnt vmcnt(0)
)

// c14Program assembles one of the small kernels. Registers: s[0:1] kernarg pointer, s2
// work-group id, v0 local id; afterwards v[2:3] = &out[gid], v1 = 4*gid.
func c14Program(name string, wg int, p1, p2 int) []byte {
	a := &c14Asm{}
	a.e("smem", 2, map[string]uint32{"imm": 1, "sdata": 4, "sbase": 0, "offset": 0}) // s_load_dwordx4 s[4:7], s[0:1], 0
	a.e("sopp", 12, map[string]uint32{"simm16": c14WaitLgkm})
	a.lit("sop2", 36, map[string]uint32{"sdst": 3, "ssrc0": 2, "ssrc1": 255}, uint32(wg)) // s_mul_i32 s3, s2, wg
	a.e("vop2", 25, map[string]uint32{"vdst": 1, "src0": 3, "vsrc1": 0})                  // v_add_u32 v1, vcc, s3, v0
	a.e("vop2", 18, map[string]uint32{"vdst": 1, "src0": 130, "vsrc1": 1})                // v_lshlrev_b32 v1, 2, v1
	a.e("vop1", 1, map[string]uint32{"vdst": 3, "src0": 5})                               // v_mov_b32 v3, s5
	a.e("vop2", 25, map[string]uint32{"vdst": 2, "src0": 4, "vsrc1": 1})                  // v_add_u32 v2, vcc, s4, v1
	a.e("vop2", 28, map[string]uint32{"vdst": 3, "src0": 128, "vsrc1": 3})                // v_addc_u32 v3, vcc, 0, v3, vcc
	store := func(v uint32) {
		a.e("flat", 28, map[string]uint32{"addr": 2, "data": v})
		a.e("sopp", 12, map[string]uint32{"simm16": c14WaitVm})
	}
	switch name {
	case "lds": // p1 rounds of: write LDS[l], barrier, read LDS[wg-1-l], barrier
		a.lit("vop2", 25, map[string]uint32{"vdst": 4, "src0": 255, "vsrc1": 0}, 100) // v4 = l + 100
		a.e("vop2", 18, map[string]uint32{"vdst": 5, "src0": 130, "vsrc1": 0})        // v5 = 4*l
		a.lit("vop2", 26, map[string]uint32{"vdst": 6, "src0": 255, "vsrc1": 0}, uint32(wg-1))
		a.e("vop2", 18, map[string]uint32{"vdst": 6, "src0": 130, "vsrc1": 6}) // v6 = 4*(wg-1-l)
		for r := 0; r < p1; r++ {
			a.e("ds", 13, map[string]uint32{"addr": 5, "data0": 4})
			a.e("sopp", 12, map[string]uint32{"simm16": c14WaitLgkm})
			a.e("sopp", 10, nil)
			a.e("ds", 54, map[string]uint32{"vdst": 7, "addr": 6})
			a.e("sopp", 12, map[string]uint32{"simm16": c14WaitLgkm})
			a.e("sopp", 10, nil)
			a.e("vop2", 25, map[string]uint32{"vdst": 4, "src0": 129, "vsrc1": 7}) // v4 = v7 + 1
		}
		store(4)
	case "exit": // the first wavefront (p1=0) or all the others (p1=1) leave before the barrier;
		// p2 = s_nops in front of the barrier (>=0) or in front of the early s_endpgm (<0)
		nb, ne := 0, 0
		if p2 >= 0 {
			nb = p2
		} else {
			ne = -p2
		}
		a.e("vop1", 2, map[string]uint32{"vdst": 8, "src0": 256}) // v_readfirstlane_b32 s8, v0
		a.e("sopc", 10, map[string]uint32{"ssrc0": 8, "ssrc1": 192}) // s_cmp_lt_u32 s8, 64
		br := uint32(5)
		if p1 != 0 {
			br = 4
		}
		a.e("sopp", br, map[string]uint32{"simm16": uint32(nb + 5)})
		for k := 0; k < nb; k++ {
			a.e("sopp", 0, nil)
		}
		a.e("sopp", 10, nil)
		a.e("vop1", 1, map[string]uint32{"vdst": 4, "src0": 135}) // v_mov_b32 v4, 7
		store(4)
		for k := 0; k < ne; k++ {
			a.e("sopp", 0, nil)
		}
	case "load": // out[g] = in[g] + 5
		a.e("vop1", 1, map[string]uint32{"vdst": 9, "src0": 7})
		a.e("vop2", 25, map[string]uint32{"vdst": 8, "src0": 6, "vsrc1": 1})
		a.e("vop2", 28, map[string]uint32{"vdst": 9, "src0": 128, "vsrc1": 9})
		a.e("flat", 20, map[string]uint32{"vdst": 4, "addr": 8})
		a.e("sopp", 12, map[string]uint32{"simm16": c14WaitVm})
		a.e("vop2", 25, map[string]uint32{"vdst": 4, "src0": 133, "vsrc1": 4})
		store(4)
	}
	a.e("sopp", 1, nil)
	return a.b
}

// c14Expected is the reference: what the program must leave in out[].
func c14Expected(name string, wg, nwg, p1, p2 int) []uint32 {
	out := make([]uint32, wg*nwg)
	for g := 0; g < nwg; g++ {
		for l := 0; l < wg; l++ {
			var v uint32
			switch name {
			case "lds":
				// round r: every lane holds x_r(l); x_{r+1}(l) = x_r(wg-1-l) + 1
				x := uint32(l + 100)
				for r := 0; r < p1; r++ {
					if r%2 == 0 {
						x = uint32(wg-1-l+100) + uint32(r) + 1
					} else {
						x = uint32(l+100) + uint32(r) + 1
					}
				}
				v = x
			case "exit":
				early := l < 64
				if p1 != 0 {
					early = !early
				}
				if !early {
					v = 7
				}
			case "load":
				v = uint32(2*(g*wg+l)+1) + 5
			}
			out[g*wg+l] = v
		}
	}
	return out
}

type c14KArgs struct {
	Out driver.Ptr
	In  driver.Ptr
}

func init() { childFuncs["c14prog"] = c14ProgChild }

// c14ProgChild: child c14prog <emu|timing> <name> <wg> <nwg> <p1> <p2> <dir>; prints RESULT <values>
func c14ProgChild(args []string) {
	mode, name := args[0], args[1]
	n := make([]int, 4)
	for i := range n {
		n[i], _ = strconv.Atoi(args[2+i])
	}
	wg, nwg, p1, p2 := n[0], n[1], n[2], n[3]
	dir := args[6]
	var p *platform
	if mode == "emu" {
		p = newEmuPlatform(dir, 1, 12)
	} else {
		p = newTimingPlatform(dir, 1, "r9nano", false)
	}
	code := c14Program(name, wg, p1, p2)
	co := &insts.KernelCodeObject{KernelCodeObjectMeta: &insts.KernelCodeObjectMeta{}, Data: code, Version: insts.CodeObjectV3}
	co.KernargSegmentByteSize = 16
	co.EnableSgprKernargSegmentPtr = true
	co.ComputePgmRsrc2 = 1 << 7 // work-group id x in an SGPR, work-item id x in v0
	co.WFSgprCount = 16
	co.WIVgprCount = 12
	if name == "lds" {
		co.GroupSegmentByteSize = uint32(4 * wg)
	}
	total := wg * nwg
	ctx := p.drv.Init()
	out := p.drv.AllocateMemory(ctx, uint64(4*total))
	in := p.drv.AllocateMemory(ctx, uint64(4*total))
	inData := make([]uint32, total)
	for i := range inData {
		inData[i] = uint32(2*i + 1)
	}
	p.drv.MemCopyH2D(ctx, in, inData)
	p.drv.MemCopyH2D(ctx, out, make([]uint32, total))
	ka := c14KArgs{Out: out, In: in}
	p.drv.LaunchKernel(ctx, co, [3]uint32{uint32(total), 1, 1}, [3]uint16{uint16(wg), 1, 1}, &ka)
	res := make([]uint32, total)
	p.drv.MemCopyD2H(ctx, res, out)
	parts := make([]string, total)
	for i, v := range res {
		parts[i] = strconv.FormatUint(uint64(v), 10)
	}
	fmt.Println("RESULT " + strings.Join(parts, ","))
	os.Exit(0)
}

type c14ProgCase struct {
	name            string
	wg, nwg, p1, p2 int
}

func (c c14ProgCase) String() string {
	return fmt.Sprintf("%s wg=%d nwg=%d p1=%d p2=%d", c.name, c.wg, c.nwg, c.p1, c.p2)
}

// c14RunChild runs one program on one platform; status = ok | panic | hang | fail
func c14RunChild(r *Run, mode string, c c14ProgCase, limit time.Duration) (status string, vals []uint32, tail string) {
	dir := filepath.Join(r.OutDir, "c14prog")
	os.MkdirAll(dir, 0o755)
	for attempt := 0; attempt < 2; attempt++ {
		ctx, cancel := context.WithTimeout(context.Background(), limit)
		cmd := exec.CommandContext(ctx, os.Args[0], "child", "c14prog", mode, c.name, strconv.Itoa(c.wg),
			strconv.Itoa(c.nwg), strconv.Itoa(c.p1), strconv.Itoa(c.p2), dir)
		cmd.Env = append(os.Environ(), "GOMEMLIMIT=4GiB")
		outb, err := cmd.CombinedOutput()
		timedOut := ctx.Err() == context.DeadlineExceeded
		cancel()
		lines := strings.Split(strings.TrimSpace(string(outb)), "\n")
		tail = lines[len(lines)-1]
		if len(tail) > 200 {
			tail = tail[:200]
		}
		for _, l := range lines {
			if strings.HasPrefix(l, "RESULT ") {
				for _, f := range strings.Split(strings.TrimPrefix(l, "RESULT "), ",") {
					v, _ := strconv.ParseUint(f, 10, 32)
					vals = append(vals, uint32(v))
				}
				return "ok", vals, ""
			}
		}
		if timedOut {
			status = "hang"
			continue // once more: Driver.DrainCommandQueue has a rare lost wake-up (C12)
		}
		if err != nil {
			if strings.Contains(string(outb), "not all wavefronts at barrier") {
				return "panic", nil, "not all wavefronts at barrier"
			}
			return "fail", nil, tail
		}
		return "fail", nil, tail
	}
	return status, nil, tail
}

func c14Programs(r *Run, rng *Rng) {
	cases := []c14ProgCase{
		{"exit", 128, 1, 0, 0},  // the reproduced defect: wavefront 0 ends before wavefront 1 arrives
		{"exit", 128, 2, 0, -6}, // ... ends after the other arrived
		{"exit", 256, 1, 1, 3},  // three wavefronts leave, one waits alone
		{"lds", 64, 1, 1, 0},
		{"lds", 256, 2, 2, 0},
		{"lds", 1024, 1, 1, 0}, // 16 wavefronts
		{"load", 128, 3, 0, 0},
	}
	if r.Tier == "thorough" {
		for _, wg := range []int{64, 128, 192, 320, 512, 1024} {
			cases = append(cases, c14ProgCase{"lds", wg, rng.Range(1, 3), rng.Range(1, 3), 0},
				c14ProgCase{"exit", wg, rng.Range(1, 3), rng.Intn(2), rng.Range(-8, 8)},
				c14ProgCase{"load", wg, rng.Range(1, 4), 0, 0})
		}
		cases = append(cases, c14ProgCase{"lds", 1024, 130, 1, 0}) // two 16-wavefront groups per compute unit
	}
	type res struct {
		status [2]string
		vals   [2][]uint32
		tail   [2]string
	}
	results := make([]res, len(cases))
	var wg sync.WaitGroup
	sem := make(chan struct{}, 6)
	for i := range cases {
		for m, mode := range []string{"emu", "timing"} {
			wg.Add(1)
			go func(i, m int, mode string) {
				defer wg.Done()
				sem <- struct{}{}
				defer func() { <-sem }()
				limit := 90 * time.Second
				if cases[i].nwg > 8 {
					limit = 600 * time.Second
				}
				st, v, tail := c14RunChild(r, mode, cases[i], limit)
				results[i].status[m], results[i].vals[m], results[i].tail[m] = st, v, tail
			}(i, m, mode)
		}
	}
	wg.Wait()
	for i, c := range cases {
		want := c14Expected(c.name, c.wg, c.nwg, c.p1, c.p2)
		for m, mode := range []string{"emu", "timing"} {
			r.Checked("prog." + mode)
			r.Count("prog:" + c.name)
			st := results[i].status[m]
			cs := "c14 prog " + mode + " " + c.String()
			sig := "C14.prog." + mode + "." + c.name
			switch st {
			case "ok":
				got := results[i].vals[m]
				bad := -1
				for k := range want {
					if k >= len(got) || got[k] != want[k] {
						bad = k
						break
					}
				}
				if bad >= 0 {
					g := uint32(0)
					if bad < len(got) {
						g = got[bad]
					}
					r.Failf(sig+".value", cs, "out[%d] = %d, reference %d (work-item %d of group %d)", bad, g, want[bad], bad%c.wg, bad/c.wg)
				}
			case "hang":
				r.Failf(sig+".hang", cs, "the platform does not finish the kernel (wall-clock limit, twice): %s", results[i].tail[m])
			case "panic":
				r.Failf(sig+".panic", cs, "the platform panicked: %s", results[i].tail[m])
			default:
				r.Failf(sig+".fail", cs, "child failed: %s", results[i].tail[m])
			}
		}
		// the emulator's runWG / resolveBarrier loop against its model
		if c.name == "exit" || c.name == "lds" {
			nwf := (c.wg + 63) / 64
			todo := make([]int, nwf)
			for w := range todo {
				switch c.name {
				case "lds":
					todo[w] = 2 * c.p1
				case "exit":
					early := w == 0
					if c.p1 != 0 {
						early = !early
					}
					if !early {
						todo[w] = 1
					}
				}
			}
			ans := map[string]string{"ok": "done", "panic": "panic", "hang": "loop"}[results[i].status[0]]
			r.Case(fmt.Sprintf("c14 emu brief=1 fix=1 todo=%s", c14IntsStr(todo)), ans)
		}
	}
}
