package main

import (
	"fmt"
	"strings"

	"github.com/sarchlab/akita/v4/mem/mem"
	"github.com/sarchlab/akita/v4/mem/vm"
	"github.com/sarchlab/akita/v4/sim"
	"github.com/sarchlab/mgpusim/v4/amd/driver"
	"github.com/sarchlab/mgpusim/v4/amd/emu"
)

// Replays of the witnesses of lean/MgpuProofs/Props/C11Hyp.lean on the real code. Every theorem of
// C11 that carries a hypothesis is either proved again without it there, or comes with a kernel-checked
// witness that it fails without the hypothesis; the witnesses are FIXED case lines here (the model and
// the code are compared on exactly these inputs) plus an oracle `hyp.*` that the real code shows the
// behaviour the witness theorem states. Also the directed "freed frame is reused" scenario (Task B).

func init() { register("C11", runC11Hyp) }

func runC11Hyp(r *Run, rng *Rng, replay string) {
	c11hypOverlap(r)
	c11hypAlias(r)
	c11hypDma(r, rng)
	c11hypCp(r, rng)
	c11hypFlush(r)
	n := 4
	if r.Tier == "thorough" {
		n = 40
	}
	for i := 0; i < n; i++ {
		c11hypFrameReuse(r, rng, i)
	}
}

// ---- 1-3. memRangeOverlap -----------------------------------------------------------------

// overlap_sound_needs_nonempty, overlap_complete_when_contained' (+ example),
// overlap_complete_needs_hypotheses, overlap_gap_needs_nonempty_buffer
func c11hypOverlap(r *Run) {
	for _, w := range []struct {
		s1, e1, s2, e2 uint64
		want           bool
		thm            string
	}{
		{0, 10, 5, 5, true, "overlap_sound_needs_nonempty: empty copy inside a buffer is reported"},
		{0, 10, 10, 10, true, "overlap_complete_when_contained': empty copy at the end of the buffer"},
		{0, 10, 0, 0, true, "overlap_complete_when_contained': empty copy at the start of the buffer"},
		{3, 3, 3, 3, false, "overlap_complete_needs_hypotheses: both ranges empty"},
		{4, 8, 2, 6, true, "overlap_complete_needs_hypotheses: copy starts before the buffer"},
		{4, 8, 6, 10, true, "overlap_complete_needs_hypotheses: copy ends after the buffer"},
		{4, 8, 2, 10, false, "overlap_complete_needs_hypotheses: copy strictly contains the buffer (the gap)"},
		{5, 5, 0, 10, false, "overlap_gap_needs_nonempty_buffer: empty buffer inside the copy"},
	} {
		overlapCase(r, w.s1, w.e1, w.s2, w.e2)
		r.Checked("hyp.overlap")
		if got := driver.VerifMemRangeOverlap(w.s1, w.e1, w.s2, w.e2); got != w.want {
			r.Failf("C11.hyp.overlap-witness", fmt.Sprintf("c11 overlap s1=%d e1=%d s2=%d e2=%d", w.s1, w.e1, w.s2, w.e2),
				"memRangeOverlap = %v, the witness theorem says %v (%s)", got, w.want, w.thm)
		}
	}
	r.Count("hyp.overlap")
}

// ---- 5 / 10. two virtual pages on one frame; unmapped range ---------------------------------

// c11hypAcc drives one real emu.StorageAccessor over a real mem.Storage and a real vm.PageTable and
// builds the matching `c11 accrun` line.
type c11hypAcc struct {
	st     *mem.Storage
	pt     vm.PageTable
	acc    emu.StorageAccessor
	pid    vm.PID
	seed   int
	frames [][2]uint64
	ops    []string
	out    []string
}

func newC11hypAcc(st *mem.Storage, pt vm.PageTable, pid vm.PID, seed int) *c11hypAcc {
	return &c11hypAcc{st: st, pt: pt, pid: pid, seed: seed, ops: []string{""},
		acc: emu.NewStorageAccessor(st, pt, 12, nil)} // ONE accessor object for the whole scenario
}

// frame registers a physical frame of the scenario and fills it with the pattern the model starts from.
func (a *c11hypAcc) frame(paddr, size uint64) {
	for _, f := range a.frames {
		if f[0] == paddr {
			return
		}
	}
	b := make([]byte, size)
	for j := range b {
		b[j] = pagePattern(a.seed+len(a.frames), j)
	}
	must(a.st.Write(paddr, b))
	a.frames = append(a.frames, [2]uint64{paddr, size})
}

// table emits the `pt` op for the given virtual pages (those that are mapped now).
func (a *c11hypAcc) table(vaddrs []uint64) {
	var parts []string
	for _, va := range vaddrs {
		if pg, ok := a.pt.Find(a.pid, va); ok {
			parts = append(parts, fmt.Sprintf("%x:%x:%d", pg.VAddr, pg.PAddr, pg.PageSize))
			a.frame(pg.PAddr, pg.PageSize)
		}
	}
	s := strings.Join(parts, ",")
	if s == "" {
		s = "-"
	}
	a.ops = append(a.ops, "pt "+s)
}

func c11hypData(addr uint64, l, salt int) []byte {
	d := make([]byte, l)
	for i := range d {
		d[i] = h2dByte(addr+uint64(salt), uint64(i))
	}
	return d
}

func (a *c11hypAcc) write(addr uint64, l, salt int) (data []byte, fault string) {
	data = c11hypData(addr, l, salt)
	a.ops = append(a.ops, fmt.Sprintf("w %x %d %d", addr, l, salt))
	if fault = catch(func() { a.acc.Write(a.pid, addr, data) }); fault != "" {
		a.out = append(a.out, "fault:page_not_found")
	} else {
		a.out = append(a.out, "ok")
	}
	return
}

func (a *c11hypAcc) read(addr uint64, l int) (got []byte, fault string) {
	a.ops = append(a.ops, fmt.Sprintf("r %x %d", addr, l))
	if fault = catch(func() { got = a.acc.Read(a.pid, addr, uint64(l)) }); fault != "" {
		a.out = append(a.out, "fault:page_not_found")
	} else {
		a.out = append(a.out, fmt.Sprintf("%x", fnv(got)))
	}
	return
}

func (a *c11hypAcc) img() {
	a.ops = append(a.ops, "img")
	var hs []string
	for _, f := range a.frames {
		b, _ := a.st.Read(f[0], f[1])
		hs = append(hs, fmt.Sprintf("%x", fnv(b)))
	}
	a.out = append(a.out, strings.Join(hs, ","))
}

func (a *c11hypAcc) line() string {
	var fs []string
	for _, f := range a.frames {
		fs = append(fs, fmt.Sprintf("%x:%d", f[0], f[1]))
	}
	a.ops[0] = fmt.Sprintf("c11 accrun seed=%d frames=%s", a.seed, strings.Join(fs, ","))
	return strings.Join(a.ops, " ; ")
}

// roundtrip_needs_injective, h2d_bytes_needs_injective, h2d_other_page_needs_injective,
// acc_run_needs_injective (alias), roundtrip_needs_mapped (unmapped page).
func c11hypAlias(r *Run) {
	const ps = uint64(4096)
	st := mem.NewStorage(1 << 24)
	pt := vm.NewPageTable(12)
	pid := vm.PID(7)
	const v1, v2, v3, f, f2 = uint64(0x1000), uint64(0x2000), uint64(0x3000), uint64(0x10000), uint64(0x20000)
	// two virtual pages on ONE frame, a third page on its own frame
	pt.Insert(vm.Page{PID: pid, VAddr: v1, PAddr: f, PageSize: ps, Valid: true})
	pt.Insert(vm.Page{PID: pid, VAddr: v2, PAddr: f, PageSize: ps, Valid: true})
	pt.Insert(vm.Page{PID: pid, VAddr: v3, PAddr: f2, PageSize: ps, Valid: true})
	a := newC11hypAcc(st, pt, pid, 11)
	a.table([]uint64{v1, v2, v3})
	fail := func(sig, format string, x ...interface{}) { r.Failf(sig, a.line(), format, x...) }

	// a write through the first page is visible through the second (outside the written range)
	d1, _ := a.write(v1+16, 8, 3)
	got, _ := a.read(v2+16, 8)
	r.Checked("hyp.alias")
	if string(got) != string(d1) {
		fail("C11.hyp.alias-other-page", "two pages on one frame: bytes written through %x are not read through %x", v1+16, v2+16)
	}
	// the case-line payload has period 256, so the two halves of an 8192-byte copy are equal and the
	// overwrite on the shared frame is invisible in one `w` op (model and code are still compared on
	// it); the literal round trip with an aperiodic payload is checked at the end, oracle only
	a.write(v1, 2*int(ps), 5)
	a.read(v1, 2*int(ps))
	// two writes, one through each page, then a read through the FIRST: it returns the second write
	// (d2h_reads_latest_needs_injective: the range of the second write does not contain the read)
	a.write(v1+200, 8, 1)
	d2, _ := a.write(v2+200, 8, 2)
	got, _ = a.read(v1+200, 8)
	r.Checked("hyp.alias")
	if string(got) != string(d2) {
		fail("C11.hyp.alias-latest", "two pages on one frame: a read through %x after writes through %x and then %x must return the bytes of the second write", v1+200, v1+200, v2+200)
	}
	// across the page boundary, 4 bytes before / 4 after: they land 4092 bytes apart on the one frame
	d3, _ := a.write(v2-4, 8, 9)
	fb, _ := st.Read(f, ps)
	r.Checked("hyp.alias")
	if string(fb[ps-4:]) != string(d3[:4]) || string(fb[:4]) != string(d3[4:]) {
		fail("C11.hyp.alias-pieces", "write across the boundary of two pages on one frame: frame bytes are not the two pieces")
	}
	// the injective page next to them is untouched
	a.read(v3, 64)
	a.img()
	// roundtrip_needs_mapped: an unmapped byte makes the whole access panic
	_, fr := a.read(v3+ps, 4)
	_, fw := a.write(v3+ps, 4, 1)
	r.Checked("hyp.unmapped")
	if fr == "" || fw == "" {
		fail("C11.hyp.unmapped-access", "access to the unmapped page %x did not panic (read %q, write %q)", v3+ps, fr, fw)
	}
	r.Case(a.line(), strings.Join(a.out, " "))
	r.Count("hyp.alias")
	r.Count("hyp.unmapped")
	// roundtrip_needs_injective, literally: ONE copy over both pages, payload without period 4096: the
	// second page's bytes overwrite the first page's on the shared frame
	x := make([]byte, 2*ps)
	for i := range x {
		x[i] = byte(i*7 + i/4096*11 + 3)
	}
	var back []byte
	fault := catch(func() { a.acc.Write(pid, v1, x); back = a.acc.Read(pid, v1, 2*ps) })
	r.Checked("hyp.alias-roundtrip")
	if fault != "" || string(back) == string(x) || string(back[:ps]) != string(x[ps:]) || string(back[ps:]) != string(x[ps:]) {
		r.Failf("C11.hyp.alias-roundtrip", a.line()+" ; then Write/Read of 8192 aperiodic bytes at 1000", "two pages on one frame: Read(Write(x)) over both pages must return the second half of x twice (roundtrip_needs_injective); fault %q, equal to x: %v", fault, string(back) == string(x))
	}
}

// ---- 7. DMA engine: a dishonest memory side ------------------------------------------------

// c11hypDmaEnv adds the scenario op `i j` (a SECOND response for the j-th request answered so far) to
// dmaEnv; the model keeps the same list (`DrvSt.answered`, theorem dma_driver_inject_is_env_inject).
type c11hypDmaEnv struct {
	*dmaEnv
	answered []sim.Msg
}

func (e *c11hypDmaEnv) op(toks []string) {
	switch toks[0] {
	case "r":
		var m sim.Msg
		if n := len(e.outstanding); n > 0 {
			var j int
			fmt.Sscan(toks[1], &j)
			m = e.outstanding[j%n]
		}
		k := len(e.out)
		e.dmaEnv.op(toks)
		if m != nil && len(e.out) > k && e.out[len(e.out)-1] == "ok" {
			e.answered = append(e.answered, m)
		}
	case "i":
		if len(e.answered) == 0 {
			e.out = append(e.out, "none")
			return
		}
		var j int
		fmt.Sscan(toks[1], &j)
		var rsp sim.Msg
		switch q := e.answered[j%len(e.answered)].(type) {
		case *mem.WriteReq:
			rsp = mem.WriteDoneRspBuilder{}.WithSrc("Mem").WithDst(q.Src).WithRspTo(q.ID).Build()
		case *mem.ReadReq:
			data := make([]byte, q.AccessByteSize)
			for i := range data {
				data[i] = memByte(q.Address + uint64(i))
			}
			rsp = mem.DataReadyRspBuilder{}.WithSrc("Mem").WithDst(q.Src).WithRspTo(q.ID).WithData(data).Build()
		}
		if err := e.dma.ToMem.Deliver(rsp); err != nil {
			e.out = append(e.out, "full")
			return
		}
		e.out = append(e.out, "ok")
	default:
		e.dmaEnv.op(toks)
	}
}

// c11hypDmaRun runs the ops on the real engine up to the first panic (the real engine is dead after
// it; the model freezes) and returns the executed prefix and the answers.
func c11hypDmaRun(ops []string) (done []string, out []string) {
	var log2 uint64 = 6
	for _, t := range strings.Fields(ops[0]) {
		if strings.HasPrefix(t, "log2=") {
			fmt.Sscan(t[5:], &log2)
		}
	}
	e := &c11hypDmaEnv{dmaEnv: newDmaEnv(log2)}
	done = []string{ops[0]}
	for _, o := range ops[1:] {
		e.op(strings.Fields(o))
		done = append(done, o)
		if n := len(e.out); n > 0 && strings.HasPrefix(e.out[n-1], "fault:") {
			break
		}
	}
	return done, e.out
}

func c11hypDma(r *Run, rng *Rng) {
	// dma_no_fault_needs_honest_memory: the honest prefix, then ONE duplicate answer
	honest := []string{"c11 dma log2=2 max=4", "h 6 7", "d 17 3", "t", "t", "t", "t", "t", "m 4", "r 3", "r 2"}
	done, out := c11hypDmaRun(append(append([]string{}, honest...), "t", "t", "t", "c"))
	r.Case(strings.Join(done, " ; "), strings.Join(out, " "))
	r.Checked("hyp.dma-honest")
	if strings.Contains(strings.Join(out, " "), "fault") {
		r.Failf("C11.hyp.dma-honest-faults", strings.Join(done, " ; "), "the engine panics without any duplicate answer: %v", out)
	}
	done, out = c11hypDmaRun(append(append([]string{}, honest...), "i 0", "t", "t", "t", "t"))
	line := strings.Join(done, " ; ")
	r.Case(line, strings.Join(out, " "))
	r.Checked("hyp.dma-duplicate")
	if len(done) != len(honest)+4 || out[len(out)-1] != "fault:not_found" {
		r.Failf("C11.hyp.dma-duplicate-answer", line, "a duplicate of the answer to transaction 3 must make the third tick after it panic with \"not found\" (dma_no_fault_needs_honest_memory); got %v", out)
	}
	// nothing answered yet: `i` has nothing to duplicate
	done, out = c11hypDmaRun([]string{"c11 dma log2=6 max=4", "h 4096 100", "i 0", "t", "t", "m 2", "i 3", "r 1", "i 5", "t", "t", "t"})
	r.Case(strings.Join(done, " ; "), strings.Join(out, " "))
	// A duplicate that is parsed when NO transaction is pending: the real removeReqFromPendingReqList
	// panics already in `make([]sim.Msg, 0, len(dma.pendingReqs)-1)` (makeslice: cap out of range),
	// before it reaches panic("not found"); the model reports `not_found` for both. Still a panic:
	// oracle only, no case line (the fault NAME differs at this one point).
	done, out = c11hypDmaRun([]string{"c11 dma log2=6 max=4", "h 4096 4", "t", "t", "m 1", "r 0", "t", "i 0", "t"})
	r.Checked("hyp.dma-duplicate-empty-pending")
	if last := out[len(out)-1]; !strings.HasPrefix(last, "fault:") {
		r.Failf("C11.hyp.dma-duplicate-answer", strings.Join(done, " ; "), "a duplicate answer with no pending transaction did not panic: %v", out)
	} else {
		r.Count("hyp.dma.empty-pending." + strings.TrimPrefix(last, "fault:"))
	}
	// random scenarios with duplicates, up to the first panic
	n := 12
	if r.Tier == "thorough" {
		n = 400
	}
	for k := 0; k < n; k++ {
		log2 := rng.Pick(6, 4, 5)
		unit := 1 << log2
		ops := []string{fmt.Sprintf("c11 dma log2=%d max=4", log2)}
		for i, m := 0, rng.Range(10, 60); i < m; i++ {
			switch x := rng.Intn(100); {
			case x < 12:
				ops = append(ops, fmt.Sprintf("%s %d %d", c11PickS(rng, "h", "d"), 4096+rng.Intn(4)*unit+rng.Intn(unit), rng.Range(1, 4*unit)))
			case x < 50:
				ops = append(ops, "t")
			case x < 65:
				ops = append(ops, fmt.Sprintf("m %d", rng.Range(1, 8)))
			case x < 85:
				ops = append(ops, fmt.Sprintf("r %d", rng.Intn(16)))
			case x < 93:
				ops = append(ops, fmt.Sprintf("i %d", rng.Intn(16)))
			default:
				ops = append(ops, "c")
			}
		}
		done, out := c11hypDmaRun(ops)
		last := ""
		if len(out) > 0 {
			last = out[len(out)-1]
		}
		if last == "fault:bounds" { // duplicate parsed with nothing pending: see above
			r.Count("hyp.dma.empty-pending.bounds")
			continue
		}
		r.Case(strings.Join(done, " ; "), strings.Join(out, " "))
		r.Count("hyp.dma.scenario")
		if strings.HasPrefix(last, "fault:") {
			r.Count("hyp.dma." + last)
		}
	}
}

// ---- 8. command processor: ToCaches smaller than the number of caches -----------------------

// cp_no_fault_needs_cache_room: three caches, two entries → flushCache panics on the third Send;
// three entries → the same run is clean.
func c11hypCp(r *Run, rng *Rng) {
	e := newC11CpEnv(r, 1, 1, 1, 0, 8, 8, 8, 2)
	e.do("f")
	e.do("t")
	r.Checked("hyp.cp-cache-room")
	if e.fault != "cache_send" {
		r.Failf("C11.hyp.cp-cache-room", e.line(), "3 caches, ToCaches holds 2 requests: the flush must panic in flushCache (cp_no_fault_needs_cache_room); fault=%q", e.fault)
	}
	e.finish(rng)
	e = newC11CpEnv(r, 1, 1, 1, 0, 8, 8, 8, 3)
	e.do("f")
	e.do("t")
	r.Checked("hyp.cp-cache-room")
	if e.fault != "" {
		r.Failf("C11.hyp.cp-cache-room", e.line(), "3 caches, ToCaches holds 3 requests: no panic expected; fault=%q", e.fault)
	}
	e.finish(rng)
	r.Count("hyp.cp")
}

// ---- 9. the flush before a copy --------------------------------------------------------------

// flush_needs_containment / d2h_sees_kernel_writes' on the real Driver (DMA-path middleware, ticked by
// hand as in c11_flush.go). The layout needs no free: two 100-byte buffers P, A sit at the start of
// consecutive pages, so a copy may start in the unused — but mapped — rest of P's page and run over
// A. (A copy spanning more than its buffer is outside the API contract; the virtual addresses of
// freed buffers are never handed out again, so "free the neighbours and allocate them again after the
// launch" cannot produce such a layout.)
func c11hypFlush(r *Run) {
	e := newC11FlushEnv()
	ops := []string{"c11 flush"}
	var out []string
	line := func() string { return strings.Join(ops, " ; ") }
	alloc := func(sz uint64) uint64 {
		p := uint64(e.d.AllocateMemory(e.ctx, sz))
		ops = append(ops, fmt.Sprintf("a %x %d", p, sz))
		return p
	}
	// an empty buffer cannot exist (the size hypothesis of overlap_gap / d2h_sees_kernel_writes')
	r.Checked("hyp.alloc-zero-panics")
	if catch(func() { e.d.AllocateMemory(e.ctx, 0) }) == "" {
		r.Failf("C11.hyp.empty-buffer", "AllocateMemory(ctx, 0)", "allocating 0 bytes did not panic: a buffer of size 0 exists")
		return
	}
	p := alloc(100)
	a := alloc(100)
	if a != p+4096 {
		r.Note("c11 hyp flush: unexpected layout P=%x A=%x, scenario skipped", p, a)
		return
	}
	e.d.Enqueue(e.qKernel, &driver.LaunchKernelCommand{ID: sim.GetIDGenerator().Generate()})
	if _, ok := e.pump(func() bool { return len(e.inflight) > 0 }); !ok {
		r.Failf("C11.flush.launch-stuck", line(), "kernel launch was not sent")
		return
	}
	ops = append(ops, "k")
	cp := func(addr, l uint64) bool {
		e.d.EnqueueMemCopyD2H(e.qCopy, make([]byte, l), driver.Ptr(addr))
		flushed, ok := e.pump(func() bool { return e.qCopy.NumCommand() == 0 })
		ops = append(ops, fmt.Sprintf("c %x %d", addr, l))
		if !ok {
			r.Failf("C11.flush.copy-stuck", line(), "copy did not complete although every request was answered")
			return false
		}
		if flushed {
			out = append(out, "F")
		} else {
			out = append(out, "-")
		}
		return true
	}
	if !cp(a-16, 132) || // strictly contains A on both sides: NOT flushed (overlap_gap)
		!cp(a+4, 8) || // inside A: flushed, so A was dirty
		!cp(a+4, 0) { // 0 bytes inside A: flushed (d2h_sees_kernel_writes')
		return
	}
	n := alloc(100) // allocated after the launch: clean
	if !cp(n, 8) {
		return
	}
	r.Case(line(), strings.Join(out, ""))
	r.Checked("hyp.flush-containment")
	if got := strings.Join(out, ""); got != "-FF-" {
		r.Failf("C11.hyp.flush-witness", line(), "flushes %q, the witness theorem flush_needs_containment says \"-FF-\"", got)
	}
	r.Count("hyp.flush")
}

// ---- Task B: a freed frame is handed to a later allocation at another virtual address ---------

// acc_freed_frame_reused on the real Driver (allocator, FreeMemory) and ONE real accessor object:
// write through A, free A, allocate until a new buffer B receives one of A's frames, read B (the old
// bytes: no zeroing), write B, touch A's old virtual range (must panic).
func c11hypFrameReuse(r *Run, rng *Rng, k int) {
	const ps = uint64(4096)
	st := mem.NewStorage(5 * mem.GB)
	pt := vm.NewPageTable(12)
	d := driver.MakeBuilder().WithEngine(&fakeEngine{}).WithPageTable(pt).WithLog2PageSize(12).WithGlobalStorage(st).Build("Driver")
	gpuPages := 6 + k%5 // a small GPU: its free-frame queue comes round quickly
	d.RegisterGPU(sim.NewPort(nil, 4, 4, "FakeGPU.ToDriver"), driver.DeviceProperties{CUCount: 4, DRAMSize: uint64(gpuPages) * ps})
	ctx := d.Init()
	pid := ctx.VerifPID()
	a := newC11hypAcc(st, pt, pid, rng.Intn(200))
	fail := func(sig, format string, x ...interface{}) { r.Failf(sig, a.line(), format, x...) }
	var pages []uint64 // every virtual page this scenario ever allocated
	alloc := func(n int) uint64 {
		p := uint64(d.AllocateMemory(ctx, uint64(n)*ps))
		for i := 0; i < n; i++ {
			pages = append(pages, p+uint64(i)*ps)
		}
		return p
	}
	aPages := 1 + k%2
	bufA := alloc(aPages)
	alloc(1) // a live neighbour
	var aFrames []uint64
	for i := 0; i < aPages; i++ {
		pg, _ := pt.Find(pid, bufA+uint64(i)*ps)
		aFrames = append(aFrames, pg.PAddr)
	}
	a.table(pages)
	off := uint64(rng.Pick(0, 8, 100, 4000))
	a.write(bufA+off, rng.Pick(16, 64, 96), rng.Intn(50))
	if aPages > 1 {
		a.write(bufA+ps-6, 16, rng.Intn(50)) // across A's page boundary: both frames
	}
	a.read(bufA+off, 16)
	old := map[uint64][]byte{} // A's frames as they are when A is freed
	for _, f := range aFrames {
		old[f], _ = st.Read(f, ps)
	}
	if f := catch(func() { d.FreeMemory(ctx, driver.Ptr(bufA)) }); f != "" {
		r.Note("c11 hyp frame reuse: FreeMemory panicked: %s", f)
		return
	}
	var bufB, frameB uint64
	for i := 0; i < 4*gpuPages && bufB == 0; i++ {
		var p uint64
		if f := catch(func() { p = alloc(1) }); f != "" {
			break // out of frames
		}
		pg, _ := pt.Find(pid, p)
		for _, f := range aFrames {
			if pg.PAddr == f {
				bufB, frameB = p, f
			}
		}
	}
	if bufB == 0 {
		r.Note("c11 hyp frame reuse: no later allocation received a frame of the freed buffer (gpu pages %d)", gpuPages)
		r.Count("accrun.frame-reused-directed.not-reached")
		return
	}
	a.table(pages)
	// the new owner sees the frame exactly as the freed buffer left it — through the SAME accessor
	got, fault := a.read(bufB, int(ps))
	r.Checked("accrun.reused-frame-content")
	if fault != "" || string(got) != string(old[frameB]) {
		fail("C11.accessor.reused-frame-wrong-content", "buffer %x received frame %x of the freed buffer %x: reading it returns other bytes than the frame held when it was freed (fault %q, first difference at %d)", bufB, frameB, bufA, fault, firstDiff(got, old[frameB]))
	}
	wo := uint64(rng.Pick(0, 10, 4080))
	data, fault := a.write(bufB+wo, 16, rng.Intn(50))
	now, _ := st.Read(frameB, ps)
	want := append([]byte{}, old[frameB]...)
	copy(want[wo:], data)
	r.Checked("accrun.reused-frame-write")
	if fault != "" || string(now) != string(want) {
		fail("C11.accessor.write-wrong-frame", "write of 16 bytes at %x (frame %x, reused): the frame does not hold old content + the data (fault %q)", bufB+wo, frameB, fault)
	}
	a.read(bufB+wo, 16)
	a.img()
	// A's old virtual range is dead: the accessor must not remember its page
	_, fr := a.read(bufA+off, 8)
	_, fw := a.write(bufA+uint64(aPages-1)*ps+4, 4, 1)
	r.Checked("accrun.freed-range-dead")
	if fr == "" || fw == "" {
		fail("C11.accessor.access-after-free", "access to the freed range of buffer %x succeeded after its frame went to buffer %x (read fault %q, write fault %q)", bufA, bufB, fr, fw)
	}
	r.Case(a.line(), strings.Join(a.out, " "))
	r.Count("accrun.frame-reused-directed")
}
