package main

import (
	"debug/elf"
	"fmt"
	"os"
	"strings"

	"github.com/sarchlab/akita/v4/mem/mem"
	"github.com/sarchlab/akita/v4/sim"
	"github.com/sarchlab/mgpusim/v4/amd/insts"
	"github.com/sarchlab/mgpusim/v4/amd/kernels"
	"github.com/sarchlab/mgpusim/v4/amd/protocol"
	"github.com/sarchlab/mgpusim/v4/amd/timing/cu"
	"github.com/sarchlab/mgpusim/v4/amd/timing/wavefront"
)

// Tie and oracles for the PIPELINE FLUSH / RESTART path of the timing compute unit (page
// migration): `c14 flush …` case lines, model `lean/MgpuModel/C14_Flush.lean`.
//
// A real cu.ComputeUnit (cu.MakeBuilder, all five ports on a fakeConn) is driven through its real
// Tick. Memory instructions (FLAT loads/stores with 1-5 transactions, scalar loads with 1-2 requests)
// are handed to the real VectorMemoryUnit.executeFlatInsts / ScalarUnit.executeSMEMInst (hook file
// verif_export_c14flush.go) and travel through the units' own send pipelines; wavefronts resident in
// the pools run a stream of s_nop, which makes the real scheduler fetch instructions. The harness
// plays the three memories and the command processor: it takes requests from the ports (or leaves
// them there: back-pressure), answers them in a chosen order with the request ID of send time or the
// ID the request object has now, delivers flush / restart requests (mostly following the command
// processor's protocol, a second flush right after the restart answer while the shadow lists are
// still being re-sent; a small stream ignores the protocol).
//
// Every event is *observed* on the real unit (Akita port hooks, in-flight and shadow lists by record
// identity, flags through the hook file) and written into the case line; the Lean model replays the
// events and has to predict the complete state after every Tick (lists with request generations,
// shadow lists, port buffers, flags, acknowledgement, counters of every wavefront).
//
// Oracles (independent of the model):
//
//	C14.flush.resent-twice      a record is put on its port twice between two flushes / a request ID twice
//	C14.flush.request-lost      a record leaves all lists without its answer; a record is in an in-flight
//	                            list while its current request was never sent and is not queued in the unit;
//	                            after restart and all answers something is still outstanding
//	C14.flush.counter-mismatch  a wavefront's counters differ from the number of its memory instructions
//	                            whose last transaction has no accepted answer; a counter below zero
//	C14.flush.ack-early         the flush acknowledgement leaves while records are in flight / queued or the
//	                            unit is not paused; a memory request leaves between acknowledgement and restart
//	C14.flush.ack-count         number of acknowledgements / restart answers differs from the requests
//	C14.flush.final-state       after restart and all answers: registers differ from the run without flush,
//	                            flags not clear
//	C14.flush.instbuffer        a wavefront's instruction buffer holds bytes that are not the program's
func init() { register("C14", runC14Flush) }

const (
	c14fSBase = 4 // s[4:5]
	c14fAddr  = 2 // v[2:3]
)

type c14fEnt struct {
	id      int
	wf      int
	kind    int // 0 fetch, 1 scalar, 2 vector
	last    bool
	store   bool
	req     sim.Msg
	gens    []string // request ID string of generation g
	applied bool
	lost    bool // reported as lost
	sends   int // requests of this record put on the port since the last executed flush
	total   int
	instK   int // which memory instruction of its wavefront
	tIdx    int // which transaction of the instruction
}

type c14fRec struct {
	ent *c14fEnt
	gen int
	id  string
	msg sim.Msg
}

type c14fIssue struct {
	wf, kind, n, opc, off int
	store                bool
	uniq                 uint64
}

type c14fEnv struct {
	r     *Run
	cu    *cu.ComputeUnit
	dec   *c02Env
	nw    int
	nf    int
	wfs   []*wavefront.Wavefront
	wfIdx map[*wavefront.Wavefront]int
	progB []uint64   // fetch wavefronts: program base
	progN []int      // program length in words
	prog  [][]uint32 // program mode: the instruction words of every wavefront
	stores map[uint64]string // program mode: what the memory received from FLAT stores
	nInst []int
	ents  []*c14fEnt
	byReq map[sim.Msg]*c14fEnt

	out      [4][]c14fRec
	inp      [3][]c14fRec
	cpIn     []byte
	tickSend [3][]c14fRec
	pending  []c14fRec  // requests taken from the ports and not yet answered
	matched  []*c14fEnt // records whose answer was accepted during the current Tick
	inTick   bool
	nConsumed int
	sentIDs   map[string]bool

	ops, outs []string
	fault     string
	proto     bool // the command processor follows its protocol
	cpSt      int  // 0 idle 1 flushSent 2 acked 3 restartSent
	nFlush    int
	nRestart  int
	nAck      int
	nRrsp     int
	ackSeen   bool // acknowledgement left, restart not yet delivered
	issues    []c14fIssue
	fwp       bool // a flush request was executed while the unit was paused and not re-sending
	sigSuffix string
}

var c14fKinds = "fsvc"

var c14fFwpReported int

func (e *c14fEnv) line() string { return strings.Join(e.ops, " ; ") }

// fail records an oracle failure. In the cases whose command processor ignores its protocol only
// the statements that hold for EVERY event sequence are judged (theorem bookkeeping_any_run, since
// the repair of finding C14-flush-while-paused): no record is lost (a record created is in a list
// or was answered) and the counters count the records whose last answer is missing. A loss after a
// flush request that was executed while the unit was paused keeps the signature of the repaired
// finding. Everything else is counted, not judged: those statements are about a command processor
// that follows the protocol.
func (e *c14fEnv) fail(sig, format string, a ...interface{}) {
	if !e.proto {
		switch {
		case e.fwp && sig == "C14.flush.request-lost":
			if c14fFwpReported < 40 { // the failure list is bounded
				c14fFwpReported++
				e.r.Failf(sig+".flush-while-paused", e.line(), format, a...)
			} else {
				e.r.Count("flush:no-protocol:" + sig + ".flush-while-paused")
			}
		case sig == "C14.flush.request-lost" || sig == "C14.flush.counter-mismatch":
			e.r.Failf(sig+".no-protocol", e.line(), format, a...)
		default:
			e.r.Count("flush:no-protocol:" + sig)
		}
		return
	}
	e.r.Failf(sig, e.line(), format, a...)
}

func c14fMsgID(m sim.Msg) string { return m.Meta().ID }

// genOf returns the generation of the request ID the record's request object carries now.
func (e *c14fEnv) genOf(x *c14fEnt) int {
	id := c14fMsgID(x.req)
	for g, s := range x.gens {
		if s == id {
			return g
		}
	}
	x.gens = append(x.gens, id)
	return len(x.gens) - 1
}

type c14fHook struct {
	e *c14fEnv
	k int
}

func (h *c14fHook) Func(ctx sim.HookCtx) {
	e := h.e
	msg, ok := ctx.Item.(sim.Msg)
	if !ok {
		return
	}
	switch ctx.Pos {
	case sim.HookPosPortMsgSend:
		if h.k == 3 {
			e.out[3] = append(e.out[3], c14fRec{msg: msg})
			return
		}
		rec := c14fRec{msg: msg, id: c14fMsgID(msg), ent: e.byReq[msg]}
		e.out[h.k] = append(e.out[h.k], rec)
		if e.inTick {
			e.tickSend[h.k] = append(e.tickSend[h.k], rec)
		}
	case sim.HookPosPortMsgRetrieveIncoming:
		if h.k == 3 {
			if len(e.cpIn) > 0 {
				e.cpIn = e.cpIn[1:]
			}
			return
		}
		if len(e.inp[h.k]) == 0 {
			return
		}
		rec := e.inp[h.k][0]
		e.inp[h.k] = e.inp[h.k][1:]
		e.nConsumed++
		// the answer is accepted iff it names the current request of a record of the in-flight list
		if rec.ent != nil && c14fMsgID(rec.ent.req) == rec.id && e.inList(rec.ent, false) {
			e.matched = append(e.matched, rec.ent)
		}
	}
}

// lists returns the records of the in-flight (shadow=false) or shadow list of a kind as request objects
func (e *c14fEnv) lists(kind int, shadow bool) []sim.Msg {
	var o []sim.Msg
	switch kind {
	case 0:
		l := e.cu.InFlightInstFetch
		if shadow {
			l = e.cu.VerifShadowInstFetch()
		}
		for _, i := range l {
			o = append(o, i.Req)
		}
	case 1:
		l := e.cu.InFlightScalarMemAccess
		if shadow {
			l = e.cu.VerifShadowScalar()
		}
		for _, i := range l {
			o = append(o, i.Req)
		}
	case 2:
		l := e.cu.InFlightVectorMemAccess
		if shadow {
			l = e.cu.VerifShadowVector()
		}
		for _, i := range l {
			if i.Read != nil {
				o = append(o, i.Read)
			} else {
				o = append(o, i.Write)
			}
		}
	}
	return o
}

func (e *c14fEnv) inList(x *c14fEnt, shadow bool) bool {
	for _, m := range e.lists(x.kind, shadow) {
		if m == x.req {
			return true
		}
	}
	return false
}

func c14fNewEnv(r *Run, nw, nf int, pre [4]int, proto bool, progs ...[]uint32) *c14fEnv {
	if len(progs) > 0 {
		nw, nf = 0, len(progs)
	}
	e := &c14fEnv{prog: progs, stores: map[uint64]string{}, r: r, nw: nw, nf: nf, sentIDs: map[string]bool{}, byReq: map[sim.Msg]*c14fEnt{}, wfIdx: map[*wavefront.Wavefront]int{}, proto: proto}
	e.dec = c14fDec()
	c := cu.MakeBuilder().WithEngine(&fakeEngine{}).WithFreq(1 * sim.GHz).
		WithVectorMemModules(&mem.SinglePortMapper{Port: sim.RemotePort("VMem")}).Build("CU")
	c.ScalarMem = sim.NewPort(c, 4, 4, "SMem")
	c.InstMem = sim.NewPort(c, 4, 4, "IMem")
	e.cu = c
	for k, p := range []sim.Port{c.ToInstMem, c.ToScalarMem, c.ToVectorMem, c.ToCP} {
		p.SetConnection(&fakeConn{name: "c"})
		p.AcceptHook(&c14fHook{e: e, k: k})
	}
	c.ToACE.SetConnection(&fakeConn{name: "c"})
	for i := 0; i < nw; i++ {
		// resident in a pool (setWavesToReady and the arbiters see it) with an empty program, so
		// that the scheduler never fetches for it: its memory instructions come from the harness
		rawWG := kernels.NewWorkGroup()
		rawWG.Packet = &kernels.HsaKernelDispatchPacket{KernelObject: 0}
		req := protocol.MapWGReqBuilder{}.WithSrc("Disp.Port").WithDst(c.ToACE.AsRemote()).WithWG(rawWG).Build()
		wg := wavefront.NewWorkGroup(rawWG, req)
		raw := kernels.NewWavefront()
		raw.CodeObject = &insts.KernelCodeObject{KernelCodeObjectMeta: &insts.KernelCodeObjectMeta{}, Symbol: &elf.Symbol{Size: 0}}
		raw.WG = rawWG
		wf := wavefront.NewWavefront(raw)
		wf.WG = wg
		wg.Wfs = append(wg.Wfs, wf)
		wf.SIMDID = i % 4
		wf.VRegOffset = 0
		wf.SRegOffset = i * 512
		wf.SetPID(1)
		wf.State = wavefront.WfReady
		c.VerifNewWavefront(wf)
		c.WfPools[wf.SIMDID].AddWf(wf)
		e.wfs = append(e.wfs, wf)
		e.wfIdx[wf] = i
		e.nInst = append(e.nInst, 0)
	}
	for j := 0; j < nf; j++ {
		base := uint64(0x10000 * (j + 1))
		n := 16 * (1 + j%3) // 1..3 cache lines of s_nop
		if len(progs) > 0 {
			n = len(progs[j])
		}
		rawWG := kernels.NewWorkGroup()
		rawWG.Packet = &kernels.HsaKernelDispatchPacket{KernelObject: base}
		req := protocol.MapWGReqBuilder{}.WithSrc("Disp.Port").WithDst(c.ToACE.AsRemote()).WithWG(rawWG).Build()
		wg := wavefront.NewWorkGroup(rawWG, req)
		raw := kernels.NewWavefront()
		raw.CodeObject = &insts.KernelCodeObject{KernelCodeObjectMeta: &insts.KernelCodeObjectMeta{}, Symbol: &elf.Symbol{Size: uint64(4 * n)}}
		raw.WG = rawWG
		wf := wavefront.NewWavefront(raw)
		wf.WG = wg
		wg.Wfs = append(wg.Wfs, wf)
		wf.SIMDID = (nw + j) % 4
		wf.SRegOffset = 2048 + j*512
		wf.SetPID(1)
		wf.SetPC(base)
		wf.State = wavefront.WfReady
		c.VerifNewWavefront(wf)
		c.WfPools[wf.SIMDID].AddWf(wf)
		e.wfs = append(e.wfs, wf)
		e.wfIdx[wf] = nw + j
		e.progB = append(e.progB, base)
		e.progN = append(e.progN, n)
	}
	// foreign messages already wait in the outgoing buffers (back-pressure)
	for k, p := range []sim.Port{c.ToInstMem, c.ToScalarMem, c.ToVectorMem} {
		for j := 0; j < pre[k]; j++ {
			m := mem.ReadReqBuilder{}.WithSrc(p.AsRemote()).WithDst("X.Port").WithAddress(0).WithByteSize(4).Build()
			if err := p.Send(m); err != nil {
				panic("c14 flush: cannot pre-fill a port")
			}
		}
	}
	for j := 0; j < pre[3]; j++ {
		m := protocol.CUPipelineRestartRspBuilder{}.WithSrc(c.ToCP.AsRemote()).WithDst("X.Port").Build()
		if err := c.ToCP.Send(m); err != nil {
			panic("c14 flush: cannot pre-fill ToCP")
		}
		e.out[3][len(e.out[3])-1].id = "foreign"
	}
	return e
}

var c14fDecEnv *c02Env

func c14fDec() *c02Env {
	if c14fDecEnv == nil {
		c14fDecEnv = newC02Env()
	}
	return c14fDecEnv
}

func (e *c14fEnv) progByte(a uint64) byte {
	w := uint32(0xBF800000) | uint32((a/4)&0xffff)
	for j, p := range e.prog {
		if a >= e.progB[j] && a < e.progB[j]+uint64(4*len(p)) {
			w = p[(a-e.progB[j])/4]
		}
	}
	return byte(w >> (8 * (a % 4)))
}

// c14fMemByte is the content of the data memory in program mode
func c14fMemByte(a uint64) byte { return byte((a>>2)*131 + (a&3)*17 + 9) }

func (e *c14fEnv) setS(i, reg int, v uint32) {
	e.cu.SRegFile.Write(cu.RegisterAccess{Reg: insts.SReg(reg), RegCount: 1, WaveOffset: e.wfs[i].SRegOffset, Data: insts.Uint32ToBytes(v)})
}
func (e *c14fEnv) setV(i, lane, reg int, v uint32) {
	e.cu.VRegFile[e.wfs[i].SIMDID].Write(cu.RegisterAccess{Reg: insts.VReg(reg), RegCount: 1, LaneID: lane, WaveOffset: e.wfs[i].VRegOffset, Data: insts.Uint32ToBytes(v)})
}

// regs returns the registers the memory instructions of the case may have written
func (e *c14fEnv) regs() string {
	var b []byte
	for i := 0; i < e.nw; i++ {
		buf := make([]byte, 4)
		for reg := 16; reg < 16+4*e.nInst[i]+4 && reg < 100; reg++ {
			e.cu.SRegFile.Read(cu.RegisterAccess{Reg: insts.SReg(reg), RegCount: 1, WaveOffset: e.wfs[i].SRegOffset, Data: buf})
			b = append(b, buf...)
		}
		for reg := 8; reg < 8+e.nInst[i]+1; reg++ {
			for lane := 0; lane < 6; lane++ {
				e.cu.VRegFile[e.wfs[i].SIMDID].Read(cu.RegisterAccess{Reg: insts.VReg(reg), RegCount: 1, LaneID: lane, WaveOffset: e.wfs[i].VRegOffset, Data: buf})
				b = append(b, buf...)
			}
		}
	}
	return fmt.Sprintf("%016x", fnv(b))
}

func (e *c14fEnv) push(op, out string) {
	e.ops = append(e.ops, op)
	e.outs = append(e.outs, out)
}

// scanNew registers the records that have appeared in the in-flight list of a kind
func (e *c14fEnv) scanNew(kind int) []*c14fEnt {
	var fresh []*c14fEnt
	add := func(req sim.Msg, wf *wavefront.Wavefront, last, store bool) {
		if _, ok := e.byReq[req]; ok {
			return
		}
		x := &c14fEnt{id: len(e.ents), wf: e.wfIdx[wf], kind: kind, last: last, store: store, req: req, gens: []string{c14fMsgID(req)}}
		e.ents = append(e.ents, x)
		e.byReq[req] = x
		fresh = append(fresh, x)
	}
	// a record created in the pipeline phase of a Tick that also executes a flush is already in
	// the shadow list
	switch kind {
	case 0:
		for _, i := range append(append([]*cu.InstFetchReqInfo{}, e.cu.InFlightInstFetch...), e.cu.VerifShadowInstFetch()...) {
			add(i.Req, i.Wavefront, true, false)
		}
	case 1:
		for _, i := range append(append([]*cu.ScalarMemAccessInfo{}, e.cu.InFlightScalarMemAccess...), e.cu.VerifShadowScalar()...) {
			add(i.Req, i.Wavefront, !i.Req.CanWaitForCoalesce, false)
		}
	case 2:
		for _, i := range append(append([]cu.VectorMemAccessInfo{}, e.cu.InFlightVectorMemAccess...), e.cu.VerifShadowVector()...) {
			if i.Read != nil {
				add(i.Read, i.Wavefront, !i.Read.CanWaitForCoalesce, false)
			} else {
				add(i.Write, i.Wavefront, !i.Write.CanWaitForCoalesce, true)
			}
		}
	}
	// messages sent before their record existed (DoFetch sends first)
	for k := 0; k < 3; k++ {
		for j := range e.out[k] {
			if e.out[k][j].ent == nil {
				e.out[k][j].ent = e.byReq[e.out[k][j].msg]
			}
		}
		for j := range e.tickSend[k] {
			if e.tickSend[k][j].ent == nil {
				e.tickSend[k][j].ent = e.byReq[e.tickSend[k][j].msg]
			}
		}
	}
	return fresh
}

// issue hands one memory instruction to the real unit code (kind 1 scalar, 2 vector)
func (e *c14fEnv) issue(is c14fIssue) bool {
	i := is.wf
	wf := e.wfs[i]
	k := e.nInst[i]
	n := 0
	if is.kind == 1 {
		base := uint64(0x300000000) + is.uniq*0x1000
		inst := e.dec.decode("gcn3", desc{format: "smem", op: uint32(is.opc), f: map[string]uint32{"imm": 1, "sdata": uint32(16 + 4*k), "sbase": c14fSBase / 2, "offset": uint32(is.off)}})
		e.setS(i, c14fSBase, uint32(base))
		e.setS(i, c14fSBase+1, uint32(base>>32))
		wf.SetDynamicInst(wavefront.NewInst(inst))
		e.fault = catch(func() { n = e.cu.VerifFlushSMEMIssue(wf) })
	} else {
		for l := 0; l < 64; l++ {
			ad := uint64(0x200000000) + is.uniq*0x10000 + uint64(l)*64
			e.setV(i, l, c14fAddr, uint32(ad))
			e.setV(i, l, c14fAddr+1, uint32(ad>>32))
		}
		opc := uint32(20)
		if is.store {
			opc = 28
		}
		inst := e.dec.decode("gcn3", desc{format: "flat", op: opc, f: map[string]uint32{"vdst": uint32(8 + k), "data": 4, "addr": c14fAddr, "saddr": 0x7f}})
		wf.SetEXEC((uint64(1) << uint(is.n)) - 1)
		wf.SetDynamicInst(wavefront.NewInst(inst))
		e.fault = catch(func() { _, n = e.cu.VerifFlushFlatIssue(wf) })
	}
	if e.fault != "" {
		return false
	}
	fresh := e.scanNew(is.kind)
	name := "is"
	if is.kind == 2 {
		name = "iv"
	}
	if n == 0 || len(fresh) == 0 {
		e.push(fmt.Sprintf("%s %d %d", name, i, is.n), "rej")
		return false
	}
	for t, x := range fresh {
		x.instK, x.tIdx = k, t
	}
	e.nInst[i]++
	e.issues = append(e.issues, is)
	e.push(fmt.Sprintf("%s %d %d", name, i, len(fresh)), fmt.Sprintf("i%d", fresh[0].id))
	e.r.Checked("flush-flags")
	for t, x := range fresh {
		if x.last != (t == len(fresh)-1) {
			e.fail("C14.truth.flags", "transaction %d of %d: last=%v", t, len(fresh), x.last)
		}
	}
	e.observe("issue")
	return true
}

func (e *c14fEnv) entStr(l []sim.Msg) string {
	if len(l) == 0 {
		return "-"
	}
	p := make([]string, len(l))
	for i, m := range l {
		x := e.byReq[m]
		if x == nil {
			p[i] = "?"
			continue
		}
		p[i] = fmt.Sprintf("%d.%d", x.id, e.genOf(x))
	}
	return strings.Join(p, ",")
}

func (e *c14fEnv) recStr(l []c14fRec) string {
	if len(l) == 0 {
		return "-"
	}
	p := make([]string, len(l))
	for i, rec := range l {
		p[i] = e.recTok(rec)
	}
	return strings.Join(p, ",")
}

func (e *c14fEnv) recTok(rec c14fRec) string {
	if rec.ent == nil {
		return "1000000.0"
	}
	for g, s := range rec.ent.gens {
		if s == rec.id {
			return fmt.Sprintf("%d.%d", rec.ent.id, g)
		}
	}
	rec.ent.gens = append(rec.ent.gens, rec.id)
	return fmt.Sprintf("%d.%d", rec.ent.id, len(rec.ent.gens)-1)
}

// unsent counts the records of the in-flight list whose request was never put on the port
func (e *c14fEnv) unsent(kind int) int {
	n := 0
	for _, m := range e.lists(kind, false) {
		if x := e.byReq[m]; x != nil && x.total == 0 {
			n++
		}
	}
	return n
}

func c14fB(b bool) string {
	if b {
		return "1"
	}
	return "0"
}

func (e *c14fEnv) cpOutStr() string {
	if len(e.out[3]) == 0 {
		return "-"
	}
	b := make([]byte, len(e.out[3]))
	for i, rec := range e.out[3] {
		b[i] = c14fCPTok(rec)
	}
	return string(b)
}

func c14fCPTok(rec c14fRec) byte {
	if rec.id == "foreign" {
		return 'O'
	}
	switch rec.msg.(type) {
	case *protocol.CUPipelineFlushRsp:
		return 'A'
	case *protocol.CUPipelineRestartRsp:
		return 'R'
	}
	return '?'
}

func (e *c14fEnv) digest() string {
	f := e.cu.VerifFlushFlags()
	var sb strings.Builder
	fmt.Fprintf(&sb, "p%ss%sf%sq%sa%s", c14fB(f.IsPaused), c14fB(f.IsSending), c14fB(f.IsFlushing), c14fB(f.HasFlushReq), c14fB(f.AckPending))
	for k := 0; k < 3; k++ {
		fmt.Fprintf(&sb, " %c=%s/%s/%d/%s/%s", "FSV"[k], e.entStr(e.lists(k, false)), e.entStr(e.lists(k, true)), e.unsent(k), e.recStr(e.out[k]), e.recStr(e.inp[k]))
	}
	cin := "-"
	if len(e.cpIn) > 0 {
		cin = string(e.cpIn)
	}
	fmt.Fprintf(&sb, " C=%s/%s w=", e.cpOutStr(), cin)
	for i, wf := range e.wfs {
		if i > 0 {
			sb.WriteByte(',')
		}
		fmt.Fprintf(&sb, "%d:%d", wf.OutstandingVectorMemAccess, wf.OutstandingScalarMemAccess)
	}
	return sb.String()
}

// observe evaluates the oracles that hold in every state
func (e *c14fEnv) observe(where string) {
	r := e.r
	f := e.cu.VerifFlushFlags()
	// every record that has no accepted answer is in exactly one list, once
	seen := map[*c14fEnt]int{}
	for k := 0; k < 3; k++ {
		for _, sh := range []bool{false, true} {
			for _, m := range e.lists(k, sh) {
				if x := e.byReq[m]; x != nil {
					seen[x]++
				}
			}
		}
	}
	r.Checked("flush-lost")
	for _, x := range e.ents {
		if !x.applied && !x.lost && seen[x] == 0 {
			x.lost = true
			e.fail("C14.flush.request-lost", "%s: record %d (%c, wavefront %d) is in no in-flight or shadow list and its answer was never accepted", where, x.id, c14fKinds[x.kind], x.wf)
		}
		if seen[x] > 1 {
			e.fail("C14.flush.resent-twice", "%s: record %d (%c) occurs %d times in the in-flight / shadow lists", where, x.id, c14fKinds[x.kind], seen[x])
		}
	}
	// no orphan: an in-flight record's current request is on its way or queued in the unit
	r.Checked("flush-orphan")
	wait, post := e.cu.VerifVMUQueued()
	_, _, aside := e.cu.VerifVMUInOrder()
	post += aside
	if n := e.unsent(1); n != e.cu.VerifScalarReadBufLen() {
		e.fail("C14.flush.request-lost", "%s: %d scalar records in flight were never sent, the scalar unit has %d requests queued", where, n, e.cu.VerifScalarReadBufLen())
	}
	if n := e.unsent(2); n < wait+post {
		e.fail("C14.flush.resent-twice", "%s: the vector memory unit has %d transactions queued, only %d in-flight records are unsent", where, wait+post, n)
	}
	// counters
	r.Checked("flush-counter")
	for i, wf := range e.wfs {
		v, s := 0, 0
		for _, x := range e.ents {
			if x.wf == i && x.last && !x.applied {
				switch x.kind {
				case 1:
					s++
				case 2:
					v++
				}
			}
		}
		if wf.OutstandingVectorMemAccess != v || wf.OutstandingScalarMemAccess != v+s {
			e.fail("C14.flush.counter-mismatch", "%s: wavefront %d has vmcnt=%d lgkmcnt=%d, but %d vector and %d scalar instructions lack the answer of their last transaction", where, i, wf.OutstandingVectorMemAccess, wf.OutstandingScalarMemAccess, v, s)
		}
	}
	// the scheduler is paused exactly while the unit is
	if f.SchedPaused != f.IsPaused {
		e.fail("C14.flush.ack-early", "%s: scheduler paused=%v, compute unit paused=%v", where, f.SchedPaused, f.IsPaused)
	}
	// instruction buffers hold program bytes only
	r.Checked("flush-instbuffer")
	for j := 0; j < e.nf; j++ {
		wf := e.wfs[e.nw+j]
		for b := range wf.InstBuffer {
			if wf.InstBuffer[b] != e.progByte(wf.InstBufferStartPC+uint64(b)) {
				e.fail("C14.flush.instbuffer", "%s: wavefront %d: byte %d of the instruction buffer (address %#x) is %#x, program has %#x", where, e.nw+j, b, wf.InstBufferStartPC+uint64(b), wf.InstBuffer[b], e.progByte(wf.InstBufferStartPC+uint64(b)))
				break
			}
		}
	}
}

// tick runs one real Tick and writes the observed events
func (e *c14fEnv) tick() {
	before := e.cu.VerifFlushFlags()
	headFlush := len(e.cpIn) > 0 && e.cpIn[0] == 'F'
	for k := range e.tickSend {
		e.tickSend[k] = nil
	}
	e.matched = nil
	nOut3 := len(e.out[3])
	e.inTick = true
	e.fault = catch(func() { e.cu.Tick() })
	e.inTick = false
	if e.fault != "" {
		e.push("t", "fault:restart-rsp")
		return
	}
	var freshF []*c14fEnt
	var freshSV [3][]*c14fEnt
	for _, k := range []int{1, 2, 0} { // the order of runPipeline: scalar unit, vector memory unit, scheduler
		fr := e.scanNew(k)
		if k == 0 {
			freshF = fr
		} else if len(fr) > 0 {
			freshSV[k] = fr
			if e.prog == nil {
				e.fail("C14.flush.final-state", "records appeared in list %c without an issue event", c14fKinds[k])
			}
		}
	}
	for _, x := range e.matched {
		x.applied = true
	}
	if headFlush && before.IsPaused && !before.IsSending {
		e.fwp = true
	}
	executedFlush := headFlush && !e.cu.VerifFlushFlags().IsFlushing
	// sends
	e.r.Checked("flush-resent")
	for k := 0; k < 3; k++ {
		ids := map[string]bool{}
		for _, rec := range e.tickSend[k] {
			if rec.ent == nil {
				continue
			}
			rec.ent.sends++
			rec.ent.total++
			if rec.ent.sends > 1 {
				e.fail("C14.flush.resent-twice", "record %d (%c, wavefront %d) was put on its port %d times since the last flush", rec.ent.id, c14fKinds[k], rec.ent.wf, rec.ent.sends)
			}
			if ids[rec.id] || e.sentIDs[rec.id] {
				e.fail("C14.flush.resent-twice", "record %d (%c, wavefront %d): a request with an ID that was already used is put on the port (the answer to the earlier request will be taken for the answer to this one)", rec.ent.id, c14fKinds[k], rec.ent.wf)
			}
			ids[rec.id] = true
			e.sentIDs[rec.id] = true
			e.recTok(rec)
		}
		if e.ackSeen && len(e.tickSend[k]) > 0 {
			e.fail("C14.flush.ack-early", "%d requests left on port %c after the flush was acknowledged and before a restart request", len(e.tickSend[k]), c14fKinds[k])
		}
	}
	e.r.CountN("flush:answer-accepted", len(e.matched))
	e.r.CountN("flush:answer-dropped", e.nConsumed-len(e.matched))
	e.nConsumed = 0
	if before.IsSending {
		caps := []int{4, 32, 64}
		for k := 0; k < 3; k++ {
			if len(e.lists(k, true)) > 0 && len(e.out[k]) == caps[k] && len(e.tickSend[k]) == 0 {
				e.r.Count("flush:resend-blocked-by-full-port")
			}
		}
	}
	if executedFlush { // the pipeline phase of this Tick (its sends) precedes the flush
		n := len(e.lists(0, true)) + len(e.lists(1, true)) + len(e.lists(2, true))
		switch {
		case before.IsSending:
			e.r.Count("flush:executed-while-resending")
			if n > 0 {
				e.r.Count("flush:executed-while-resending-with-records")
			}
		case before.IsPaused:
			e.r.Count("flush:executed-while-paused")
		default:
			e.r.Count("flush:executed-running")
		}
		e.r.Count(fmt.Sprintf("flush:records-at-flush:%d", c02Bucket(n)))
		e.nFlush++
		for _, x := range e.ents {
			x.sends = 0
		}
	}
	// acknowledgement
	for _, rec := range e.out[3][nOut3:] {
		switch c14fCPTok(rec) {
		case 'A':
			e.nAck++
			e.ackSeen = true
			e.r.Checked("flush-ack")
			f := e.cu.VerifFlushFlags()
			wait, post := e.cu.VerifVMUQueued()
			_, _, aside := e.cu.VerifVMUInOrder()
			post += aside
			n := len(e.cu.InFlightInstFetch) + len(e.cu.InFlightScalarMemAccess) + len(e.cu.InFlightVectorMemAccess)
			if !f.IsPaused || f.IsSending || n != 0 || e.cu.VerifScalarReadBufLen()+wait+post != 0 {
				e.fail("C14.flush.ack-early", "acknowledgement sent with paused=%v, %d records in flight, %d requests queued in the units", f.IsPaused, n, e.cu.VerifScalarReadBufLen()+wait+post)
			}
		case 'R':
			e.nRrsp++
		}
	}
	// program mode: the units issued memory instructions in the pipeline phase of this Tick
	issued := func(k int) {
		for i := 0; i < len(freshSV[k]); {
			j := i
			for j < len(freshSV[k])-1 && !freshSV[k][j].last && freshSV[k][j+1].wf == freshSV[k][i].wf {
				j++
			}
			name := "is"
			if k == 2 {
				name = "iv"
			}
			e.push(fmt.Sprintf("%s %d %d", name, freshSV[k][i].wf, j-i+1), fmt.Sprintf("i%d", freshSV[k][i].id))
			e.r.Count("flush:program-issue")
			i = j + 1
		}
	}
	if !before.IsPaused {
		e.push("us", fmt.Sprintf("u%d", len(e.tickSend[1])))
		issued(1)
		if len(e.tickSend[2]) > 0 {
			e.push(fmt.Sprintf("uv %d", len(e.tickSend[2])), fmt.Sprintf("u%d", len(e.tickSend[2])))
		}
		issued(2)
		for _, x := range freshF {
			e.push(fmt.Sprintf("fe %d", x.wf), fmt.Sprintf("i%d", x.id))
		}
	} else if len(freshF) > 0 {
		e.fail("C14.flush.ack-early", "instruction fetch issued while the unit is paused")
	}
	e.push("t", e.digest())
	e.observe("tick")
}

func (e *c14fEnv) take(k, n int) {
	var got []c14fRec
	ports := []sim.Port{e.cu.ToInstMem, e.cu.ToScalarMem, e.cu.ToVectorMem, e.cu.ToCP}
	for j := 0; j < n; j++ {
		m := ports[k].RetrieveOutgoing()
		if m == nil {
			break
		}
		rec := e.out[k][0]
		e.out[k] = e.out[k][1:]
		if rec.msg != m {
			panic("c14 flush: port mirror out of step")
		}
		got = append(got, rec)
	}
	if k == 3 {
		b := make([]byte, len(got))
		for i, rec := range got {
			b[i] = c14fCPTok(rec)
			switch {
			case b[i] == 'A' && e.cpSt == 1:
				e.cpSt = 2
			case b[i] == 'R' && e.cpSt == 3:
				e.cpSt = 0
			}
		}
		s := "-"
		if len(b) > 0 {
			s = string(b)
		}
		e.push(fmt.Sprintf("tk c %d", n), "k"+s)
		return
	}
	e.push(fmt.Sprintf("tk %c %d", c14fKinds[k], n), "k"+e.recStr(got))
	for _, rec := range got {
		if w, ok := rec.msg.(*mem.WriteReq); ok && e.prog != nil {
			e.stores[w.Address] = hexb(w.Data)
		}
		if rec.ent != nil {
			for g, s := range rec.ent.gens {
				if s == rec.id {
					rec.gen = g
				}
			}
			e.pending = append(e.pending, rec)
		}
	}
}

// foreign puts n messages of other traffic into the outgoing buffer of a memory port
func (e *c14fEnv) foreign(k, n int) {
	if n <= 0 {
		return
	}
	p := []sim.Port{e.cu.ToInstMem, e.cu.ToScalarMem, e.cu.ToVectorMem}[k]
	sent := 0
	for j := 0; j < n; j++ {
		m := mem.ReadReqBuilder{}.WithSrc(p.AsRemote()).WithDst("X.Port").WithAddress(0).WithByteSize(4).Build()
		if p.Send(m) != nil {
			break
		}
		sent++
	}
	e.push(fmt.Sprintf("fo %c %d", c14fKinds[k], n), fmt.Sprintf("o%d", sent))
}

func (e *c14fEnv) rspData(x *c14fEnt, n int) []byte {
	d := make([]byte, n)
	if x.kind == 0 {
		a := x.req.(*mem.ReadReq).Address
		for j := range d {
			d[j] = e.progByte(a + uint64(j))
		}
		return d
	}
	if e.prog != nil {
		a := x.req.(*mem.ReadReq).Address
		if x.kind == 2 {
			a &^= 63
		}
		for j := range d {
			d[j] = c14fMemByte(a + uint64(j))
		}
		return d
	}
	for j := range d {
		d[j] = byte(x.wf*97 + x.instK*37 + x.tIdx*13 + j*11 + 5)
	}
	return d
}

// deliver hands a response naming generation g of record x to the port; false: buffer full
func (e *c14fEnv) deliver(x *c14fEnt, g int) bool {
	id := x.gens[g]
	var rsp sim.Msg
	switch {
	case x.store:
		rsp = mem.WriteDoneRspBuilder{}.WithRspTo(id).WithDst(x.req.Meta().Src).WithSrc("M.Port").Build()
	case x.kind == 2:
		rsp = mem.DataReadyRspBuilder{}.WithRspTo(id).WithData(e.rspData(x, 64)).WithDst(x.req.Meta().Src).WithSrc("M.Port").Build()
	default:
		rsp = mem.DataReadyRspBuilder{}.WithRspTo(id).WithData(e.rspData(x, int(x.req.(*mem.ReadReq).AccessByteSize))).WithDst(x.req.Meta().Src).WithSrc("M.Port").Build()
	}
	ports := []sim.Port{e.cu.ToInstMem, e.cu.ToScalarMem, e.cu.ToVectorMem}
	ok := ports[x.kind].Deliver(rsp) == nil
	if ok {
		e.inp[x.kind] = append(e.inp[x.kind], c14fRec{ent: x, gen: g, id: id})
	}
	e.push(fmt.Sprintf("de %c %d %d", c14fKinds[x.kind], x.id, g), "d"+c14fB(ok))
	return ok
}

func (e *c14fEnv) cpDeliver(flush bool) bool {
	var m sim.Msg
	tok, name := byte('F'), "cf"
	if flush {
		m = protocol.CUPipelineFlushReqBuilder{}.WithSrc("CP.Port").WithDst(e.cu.ToCP.AsRemote()).Build()
	} else {
		m = protocol.CUPipelineRestartReqBuilder{}.WithSrc("CP.Port").WithDst(e.cu.ToCP.AsRemote()).Build()
		tok, name = 'S', "cr"
	}
	ok := e.cu.ToCP.Deliver(m) == nil
	if ok {
		e.cpIn = append(e.cpIn, tok)
		if flush {
			if e.cpSt == 0 {
				e.cpSt = 1
			}
		} else {
			e.nRestart++
			e.ackSeen = false
			if e.cpSt == 2 {
				e.cpSt = 3
			}
		}
	}
	e.push(name, "c"+c14fB(ok))
	return ok
}

// ---- scenarios ------------------------------------------------------------------------------------

type c14fPlan struct {
	nw, nf   int
	pre      [4]int
	proto    bool
	kInst    int  // memory instructions to issue
	takeMode int  // 0 eager, 1 lazy, 2 memory ports blocked during the re-send
	lateID   bool // answers carry the ID the request object has when the answer is built
	shuffle  bool // answers in a chosen order
	eager2   bool // the second flush follows the restart answer at once
	block    bool // other traffic fills the memory ports before the restart request
	stall    bool // the scalar and vector ports are full until the first flush has been executed
	inorder  bool // every memory answers in the order in which it received the requests
	rounds   int  // flush / restart rounds
	holdRsp  int  // percent: an answerable request is left unanswered this cycle
}

func runC14Flush(r *Run, rng *Rng, replay string) {
	n := 260
	if r.Tier == "thorough" {
		n = 6000
	}
	c14fKnown(r)
	for k := 0; k < n; k++ {
		p := c14fPlan{nw: rng.Range(1, 3), nf: rng.Pick(0, 1, 1, 2), proto: !rng.Chance(12), kInst: rng.Range(1, 8),
			takeMode: rng.Pick(0, 0, 1, 2), lateID: rng.Chance(35), shuffle: rng.Chance(50), eager2: rng.Chance(60),
			rounds: rng.Pick(1, 1, 2, 2, 3), holdRsp: rng.Pick(0, 30, 60, 90), block: rng.Chance(30)}
		if p.block {
			p.takeMode = 2
		}
		if rng.Chance(20) {
			p.stall = true
			p.pre[1], p.pre[2] = 32, 64
		}
		if rng.Chance(35) { // back-pressure from foreign traffic
			p.pre = [4]int{rng.Pick(0, 2, 3, 4), rng.Pick(0, 28, 30, 31, 32), rng.Pick(0, 58, 61, 63, 64), 0}
		}
		if !p.proto && rng.Chance(40) {
			p.pre[3] = rng.Range(1, 4)
		}
		if k%4 == 3 {
			// the memory answers in order (the hypothesis under which the counters are the number of
			// instructions with an outstanding transaction, see waitcnt_tracks_truth) and with the
			// ID the request had when it was sent
			p.proto, p.stall, p.pre, p.shuffle, p.lateID, p.inorder = true, false, [4]int{}, false, false, true
			c14fProgCase(r, rng, p)
			continue
		}
		c14fCase(r, rng, p, uint64(k))
	}
}

func (e *c14fEnv) header(p c14fPlan) string {
	return fmt.Sprintf("c14 flush nw=%d pf=%d ps=%d pv=%d pc=%d", p.nw+p.nf, p.pre[0], p.pre[1], p.pre[2], p.pre[3])
}

func (e *c14fEnv) finish(p c14fPlan) {
	out := strings.Join(e.outs, " ; ")
	e.r.Case(e.line(), out)
	if p.proto {
		e.r.Count("flush:protocol")
	} else {
		e.r.Count("flush:no-protocol")
	}
	if e.fault != "" {
		e.r.Count("flush:fault")
	}
}

// takes moves requests from the outgoing buffers to the harness according to the plan
func (e *c14fEnv) takes(rng *Rng, p c14fPlan) {
	f := e.cu.VerifFlushFlags()
	for k := 0; k < 3; k++ {
		if len(e.out[k]) == 0 || (p.stall && k > 0 && e.nFlush == 0) {
			continue
		}
		switch p.takeMode {
		case 0:
			e.take(k, len(e.out[k]))
		case 1:
			if rng.Chance(50) {
				e.take(k, rng.Range(1, len(e.out[k])))
			}
		case 2:
			if f.IsSending {
				if rng.Chance(25) {
					e.take(k, 1)
				}
			} else if rng.Chance(70) {
				e.take(k, rng.Range(1, len(e.out[k])))
			}
		}
	}
}

// answer delivers answers for requests the harness holds
func (e *c14fEnv) answers(rng *Rng, p c14fPlan, all bool) {
	var keep []c14fRec
	order := make([]int, len(e.pending))
	for i := range order {
		order[i] = i
	}
	if p.shuffle {
		order = rng.Perm(len(e.pending))
	}
	full := [3]bool{}
	done := map[int]bool{}
	for _, i := range order {
		rec := e.pending[i]
		x := rec.ent
		if full[x.kind] {
			continue
		}
		if !all && rng.Chance(p.holdRsp) {
			if p.inorder {
				full[x.kind] = true
			}
			continue
		}
		g := rec.gen
		if p.lateID {
			g = e.genOf(x)
		}
		if all && x.applied {
			done[i] = true
			continue
		}
		if e.deliver(x, g) {
			done[i] = true
			if !all && rng.Chance(4) { // a duplicate answer
				e.deliver(x, g)
			}
		} else {
			full[x.kind] = true
		}
	}
	for i, rec := range e.pending {
		if !done[i] {
			keep = append(keep, rec)
		}
	}
	e.pending = keep
}

func (e *c14fEnv) paused() bool { return e.cu.VerifFlushFlags().IsPaused }

func c14fCase(r *Run, rng *Rng, p c14fPlan, caseNo uint64) {
	e := c14fNewEnv(r, p.nw, p.nf, p.pre, p.proto)
	e.ops = []string{e.header(p)}
	issued, rounds := 0, 0
	budget := 40 + 25*p.rounds
	for cyc := 0; cyc < budget && e.fault == ""; cyc++ {
		// issue
		for j := 0; j < 2 && issued < p.kInst && !e.paused() && rng.Chance(45); j++ {
			is := c14fIssue{wf: rng.Intn(p.nw), kind: rng.Pick(1, 2, 2), uniq: caseNo*64 + uint64(issued)}
			if e.nInst[is.wf] >= 18 {
				break
			}
			if is.kind == 1 {
				is.opc = rng.Pick(0, 1, 2)
				is.n = 1
				if is.opc > 0 && rng.Chance(50) {
					is.off, is.n = 64-4*is.opc, 2
				}
			} else {
				is.n = rng.Pick(1, 1, 2, 3, 5)
				is.store = rng.Chance(35)
			}
			e.issue(is)
			if e.fault != "" {
				break
			}
			issued++
		}
		if e.fault != "" {
			break
		}
		e.takes(rng, p)
		e.answers(rng, p, false)
		// command processor
		if p.proto {
			switch e.cpSt {
			case 0:
				if rounds < p.rounds && issued > 0 && (rng.Chance(20) || (rounds > 0 && p.eager2)) {
					e.cpDeliver(true)
					rounds++
				}
			case 1, 3:
				if len(e.out[3]) > 0 && rng.Chance(70) {
					e.take(3, 1)
				}
			case 2:
				if rng.Chance(40) {
					if p.block {
						for k := 0; k < 3; k++ {
							e.foreign(k, []int{4, 32, 64}[k]-len(e.out[k])-rng.Pick(0, 0, 1, 2))
						}
					}
					e.cpDeliver(false)
				}
			}
		} else {
			switch x := rng.Intn(100); {
			case x < 14:
				e.cpDeliver(true)
			case x < 28:
				e.cpDeliver(false)
			case x < 50 && len(e.out[3]) > 0:
				e.take(3, rng.Range(1, len(e.out[3])))
			}
		}
		e.tick()
	}
	// closing phase: the command processor finishes its protocol, everything is taken and answered
	p2 := p
	p2.takeMode, p2.holdRsp = 0, 0
	for cyc := 0; cyc < 150 && e.fault == ""; cyc++ {
		if len(e.out[3]) > 0 {
			e.take(3, len(e.out[3]))
		}
		f := e.cu.VerifFlushFlags()
		if p.proto {
			if e.cpSt == 2 {
				e.cpDeliver(false)
			}
		} else if f.IsPaused && !f.IsSending && !f.IsFlushing && len(e.cpIn) == 0 {
			e.cpDeliver(false)
		}
		e.takes(rng, p2)
		p2.lateID = true // the answer to the request that is current now
		e.answers(rng, p2, true)
		e.tick()
		if e.quiet() {
			break
		}
	}
	if e.fault == "" && !e.quiet() && os.Getenv("C14F_DEBUG") != "" {
		fmt.Println("NOT QUIET", e.why(), e.digest())
	}
	if e.fault == "" {
		e.final()
	}
	e.finish(p)
}

func (e *c14fEnv) why() string {
	f := e.cu.VerifFlushFlags()
	s := fmt.Sprintf("%+v cpIn=%d out3=%d cpSt=%d pending=%d", f, len(e.cpIn), len(e.out[3]), e.cpSt, len(e.pending))
	for j := 0; j < e.nf; j++ {
		wf := e.wfs[e.nw+j]
		s += fmt.Sprintf(" wf%d: start=%x len=%d pc=%x end=%x fetching=%v state=%v", j, wf.InstBufferStartPC, len(wf.InstBuffer), wf.PC(), e.progB[j]+uint64(4*e.progN[j]), wf.IsFetching, wf.State)
	}
	return s
}

func (e *c14fEnv) quiet() bool {
	f := e.cu.VerifFlushFlags()
	if f.IsPaused || f.IsSending || f.IsFlushing || f.AckPending || len(e.cpIn) > 0 || len(e.out[3]) > 0 {
		return false
	}
	if e.proto && e.cpSt != 0 {
		return false
	}
	for k := 0; k < 3; k++ {
		if len(e.lists(k, false))+len(e.lists(k, true))+len(e.out[k])+len(e.inp[k]) > 0 {
			return false
		}
	}
	for j := range e.prog {
		if e.wfs[e.nw+j].PC() != e.progB[j]+uint64(4*e.progN[j]) {
			return false
		}
	}
	for j := 0; j < e.nf; j++ { // fetch wavefronts still have program to fetch
		wf := e.wfs[e.nw+j]
		if wf.InstBufferStartPC+uint64(len(wf.InstBuffer)) < e.progB[j]+uint64(4*e.progN[j]) && len(wf.InstBuffer) < 256 {
			return false
		}
	}
	return len(e.pending) == 0
}

// final evaluates the oracles of a finished case: all answers accepted, counters zero, flags clear,
// acknowledgements counted, registers equal to those of the run without a flush.
func (e *c14fEnv) finalCommon() {
	r := e.r
	r.Checked("flush-final")
	f := e.cu.VerifFlushFlags()
	for _, x := range e.ents {
		if !x.applied {
			e.fail("C14.flush.request-lost", "closing phase (restart delivered, every request taken from the ports answered with its current ID, 150 cycles): record %d (%c, wavefront %d) never got its answer accepted; vmcnt=%d lgkmcnt=%d of that wavefront stay above zero", x.id, c14fKinds[x.kind], x.wf, e.wfs[x.wf].OutstandingVectorMemAccess, e.wfs[x.wf].OutstandingScalarMemAccess)
			break
		}
	}
	if f.IsPaused || f.IsSending || f.IsFlushing || f.AckPending || f.HasFlushReq {
		e.fail("C14.flush.final-state", "closing phase: flags paused=%v sending=%v flushing=%v ack pending=%v", f.IsPaused, f.IsSending, f.IsFlushing, f.AckPending)
	}
	for i, wf := range e.wfs {
		if wf.OutstandingVectorMemAccess != 0 || wf.OutstandingScalarMemAccess != 0 {
			e.fail("C14.flush.counter-mismatch", "closing phase: wavefront %d ends with vmcnt=%d lgkmcnt=%d", i, wf.OutstandingVectorMemAccess, wf.OutstandingScalarMemAccess)
		}
	}
	r.Checked("flush-ack-count")
	if e.proto && (e.nAck != e.nFlush || e.nRrsp != e.nRestart) {
		e.fail("C14.flush.ack-count", "%d flush requests executed, %d acknowledgements; %d restart requests, %d answers", e.nFlush, e.nAck, e.nRestart, e.nRrsp)
	}
}

func (e *c14fEnv) final() {
	e.finalCommon()
	r := e.r
	if len(e.issues) > 0 {
		r.Checked("flush-registers")
		ref := c14fReference(r, e.nw, e.issues)
		if got := e.regs(); got != ref {
			e.fail("C14.flush.final-state", "registers written by the %d memory instructions differ from the run without flush (hash %s, expected %s)", len(e.issues), got, ref)
		}
	}
	for j := 0; j < e.nf; j++ {
		wf := e.wfs[e.nw+j]
		end := e.progB[j] + uint64(4*e.progN[j])
		if wf.PC() > end {
			e.fail("C14.flush.instbuffer", "wavefront %d ran past its program (pc %#x, end %#x)", e.nw+j, wf.PC(), end)
		}
	}
}

// c14fReference runs the same memory instructions on a fresh compute unit that is never flushed,
// answers everything in order and returns the registers.
func c14fReference(r *Run, nw int, issues []c14fIssue) string {
	e := c14fNewEnv(&Run{Dist: map[string]int{}, distinct: map[string]struct{}{}}, nw, 0, [4]int{}, true)
	e.ops = []string{"ref"}
	p := c14fPlan{}
	for _, is := range issues {
		e.issue(is)
		for c := 0; c < 3; c++ {
			e.takes(nil, p)
			e.answers(nil, p, true)
			e.tick()
		}
	}
	for c := 0; c < 60; c++ {
		e.takes(nil, p)
		e.answers(nil, p, true)
		e.tick()
		if e.quiet() {
			break
		}
	}
	if len(e.r.fails) > 0 || !e.quiet() {
		r.Failf("C14.flush.final-state", strings.Join(e.ops, " ; "), "the run without a flush does not finish cleanly: %v", e.r.fails)
	}
	return e.regs()
}

// c14fKnown replays the event sequence of the repaired finding C14-flush-while-paused on every run
// (two flush requests without a restart in between: the records saved by the first must survive).
func c14fKnown(r *Run) {
	p := c14fPlan{nw: 1, proto: false}
	e := c14fNewEnv(r, 1, 0, [4]int{}, false)
	e.ops = []string{e.header(p)}
	e.issue(c14fIssue{wf: 0, kind: 2, n: 2, uniq: 1 << 20})
	e.issue(c14fIssue{wf: 0, kind: 1, n: 1, uniq: 1<<20 + 1})
	e.tick()
	e.cpDeliver(true)
	e.tick()
	e.tick()
	e.take(3, 1)
	e.cpDeliver(true) // a second flush request without a restart in between
	e.tick()
	e.tick()
	e.take(3, 1)
	e.cpDeliver(false)
	p2 := c14fPlan{lateID: true}
	for c := 0; c < 12; c++ {
		e.takes(nil, p2)
		e.answers(nil, p2, true)
		e.tick()
		if len(e.out[3]) > 0 {
			e.take(3, len(e.out[3]))
		}
	}
	e.final()
	e.finish(p)
}

// ---- program mode -----------------------------------------------------------------------------------
//
// 1-3 wavefronts resident in the pools execute real instruction streams (s_load_dword[x2],
// flat_load_dword, flat_store_dword of a loaded register, s_waitcnt 0, s_nop) through the real
// fetch / decode / issue / unit pipelines; nothing is issued by hand. The harness only plays the
// memories and the command processor. The same observation produces the events for the model, and
// the final state (registers, program counters, what the memory received from the stores) is
// compared with a run of the same programs that is never flushed.

type c14fBlock struct{ kind, a, b int }

func c14fGenProg(rng *Rng) (words []uint32, nLanes int) {
	emit := func(d desc) {
		b := encodeDesc(d)
		for i := 0; i+4 <= len(b); i += 4 {
			words = append(words, uint32(b[i])|uint32(b[i+1])<<8|uint32(b[i+2])<<16|uint32(b[i+3])<<24)
		}
	}
	wait := func() { emit(desc{format: "sopp", op: 12, f: map[string]uint32{"simm16": 0}}) }
	nLanes = rng.Pick(1, 1, 2, 3, 5)
	k := rng.Range(2, 6)
	loaded := []int{}
	pendingLoad := false
	for i := 0; i < k; i++ {
		switch rng.Pick(0, 1, 1, 2, 3) {
		case 0: // scalar load
			opc, off := rng.Pick(0, 1), 8*i
			if opc == 1 && rng.Chance(50) {
				off = 60
			}
			emit(desc{format: "smem", op: uint32(opc), f: map[string]uint32{"imm": 1, "sdata": uint32(16 + 2*i), "sbase": c14fSBase / 2, "offset": uint32(off)}})
		case 1: // vector load
			emit(desc{format: "flat", op: 20, f: map[string]uint32{"vdst": uint32(8 + i), "addr": c14fAddr, "saddr": 0x7f}})
			loaded = append(loaded, 8+i)
			pendingLoad = true
		case 2: // store a loaded register (after the wait) or a preset one
			src := 4
			if len(loaded) > 0 {
				src = loaded[rng.Intn(len(loaded))]
				if pendingLoad {
					wait()
					pendingLoad = false
				}
			}
			emit(desc{format: "flat", op: 28, f: map[string]uint32{"data": uint32(src), "addr": 6, "saddr": 0x7f}})
		case 3:
			wait()
			pendingLoad = false
		}
		for n := rng.Intn(3); n > 0; n-- {
			emit(desc{format: "sopp", op: 0, f: map[string]uint32{"simm16": 0}})
		}
	}
	wait()
	// instructions are fetched by cache line: fill the last line with s_nop
	for len(words)%16 != 0 {
		emit(desc{format: "sopp", op: 0, f: map[string]uint32{"simm16": uint32(len(words))}})
	}
	return words, nLanes
}

func (e *c14fEnv) progSetup(lanes []int) {
	for j := range e.prog {
		i := e.nw + j
		wf := e.wfs[i]
		wf.VRegOffset = 0
		sb := uint64(0x300000000) + uint64(j)*0x10000
		e.setS(i, c14fSBase, uint32(sb))
		e.setS(i, c14fSBase+1, uint32(sb>>32))
		for l := 0; l < 64; l++ {
			la := uint64(0x200000000) + uint64(j)*0x100000 + uint64(l)*64 + uint64(4*(l%7))
			sa := uint64(0x280000000) + uint64(j)*0x100000 + uint64(l)*64 + uint64(4*(l%5))
			e.setV(i, l, c14fAddr, uint32(la))
			e.setV(i, l, c14fAddr+1, uint32(la>>32))
			e.setV(i, l, 6, uint32(sa))
			e.setV(i, l, 7, uint32(sa>>32))
			e.setV(i, l, 4, 0xC0DE0000+uint32(j)<<8+uint32(l))
		}
		wf.SetEXEC((uint64(1) << uint(lanes[j])) - 1)
	}
}

// progState is what a finished program run leaves behind
func (e *c14fEnv) progState() string {
	var b []byte
	var sb strings.Builder
	buf := make([]byte, 4)
	for j := range e.prog {
		i := e.nw + j
		wf := e.wfs[i]
		for reg := 16; reg < 32; reg++ {
			e.cu.SRegFile.Read(cu.RegisterAccess{Reg: insts.SReg(reg), RegCount: 1, WaveOffset: wf.SRegOffset, Data: buf})
			b = append(b, buf...)
		}
		for reg := 8; reg < 16; reg++ {
			for lane := 0; lane < 6; lane++ {
				e.cu.VRegFile[wf.SIMDID].Read(cu.RegisterAccess{Reg: insts.VReg(reg), RegCount: 1, LaneID: lane, WaveOffset: wf.VRegOffset, Data: buf})
				b = append(b, buf...)
			}
		}
		fmt.Fprintf(&sb, "pc%d=%x ", j, wf.PC()-e.progB[j])
	}
	fmt.Fprintf(&sb, "regs=%016x stores=%s", fnv(b), c14fStoreStr(e.stores))
	return sb.String()
}

func c14fStoreStr(m map[uint64]string) string {
	keys := make([]uint64, 0, len(m))
	for k := range m {
		keys = append(keys, k)
	}
	for i := 1; i < len(keys); i++ {
		for j := i; j > 0 && keys[j] < keys[j-1]; j-- {
			keys[j], keys[j-1] = keys[j-1], keys[j]
		}
	}
	var b []byte
	for _, k := range keys {
		b = append(b, []byte(fmt.Sprintf("%x:%s;", k, m[k]))...)
	}
	return fmt.Sprintf("%d/%016x", len(keys), fnv(b))
}

func c14fProgRun(r *Run, rng *Rng, p c14fPlan, progs [][]uint32, lanes []int, flush bool) (*c14fEnv, string) {
	e := c14fNewEnv(r, 0, 0, p.pre, true, progs...)
	e.progSetup(lanes)
	p.nw, p.nf = 0, len(progs)
	e.ops = []string{e.header(p)}
	rounds := 0
	budget := 60 + 40*p.rounds
	if !flush {
		budget = 0
	}
	for cyc := 0; cyc < budget && e.fault == ""; cyc++ {
		e.takes(rng, p)
		e.answers(rng, p, false)
		switch e.cpSt {
		case 0:
			if rounds < p.rounds && (rng.Chance(8) || (rounds > 0 && p.eager2)) {
				e.cpDeliver(true)
				rounds++
			}
		case 1, 3:
			if len(e.out[3]) > 0 && rng.Chance(70) {
				e.take(3, 1)
			}
		case 2:
			if rng.Chance(40) {
				if p.block {
					for k := 0; k < 3; k++ {
						e.foreign(k, []int{4, 32, 64}[k]-len(e.out[k])-rng.Pick(0, 0, 1, 2))
					}
				}
				e.cpDeliver(false)
			}
		}
		e.tick()
	}
	p2 := p
	p2.takeMode, p2.holdRsp, p2.stall, p2.lateID, p2.shuffle = 0, 0, false, true, false
	for cyc := 0; cyc < 500 && e.fault == ""; cyc++ {
		if len(e.out[3]) > 0 {
			e.take(3, len(e.out[3]))
		}
		if e.cpSt == 2 {
			e.cpDeliver(false)
		}
		e.takes(rng, p2)
		e.answers(rng, p2, true)
		e.tick()
		if e.quiet() {
			break
		}
	}
	return e, e.progState()
}

func c14fProgCase(r *Run, rng *Rng, p c14fPlan) {
	n := rng.Range(1, 3)
	var progs [][]uint32
	var lanes []int
	for j := 0; j < n; j++ {
		w, l := c14fGenProg(rng)
		progs, lanes = append(progs, w), append(lanes, l)
	}
	ref, want := c14fProgRun(&Run{Dist: map[string]int{}, distinct: map[string]struct{}{}}, nil, c14fPlan{}, progs, lanes, false)
	if !ref.quiet() || len(ref.r.fails) > 0 {
		r.Failf("C14.flush.final-state", strings.Join(ref.ops[:1], ""), "program run without a flush does not finish cleanly (%s): %v", ref.why(), ref.r.fails)
		return
	}
	e, got := c14fProgRun(r, rng, p, progs, lanes, true)
	if e.fault == "" {
		r.Checked("flush-program-final")
		if !e.quiet() {
			e.fail("C14.flush.final-state", "program run: after restart and all answers the wavefronts do not reach the end of their programs within 500 cycles (%s; %s)", got, e.why())
		} else if got != want {
			if os.Getenv("C14F_DEBUG") != "" {
				fmt.Println("PROG DIFF", got, want, e.stores, ref.stores)
				for j, w := range progs {
					fmt.Printf(" prog %d lanes %d: %08x\n", j, lanes[j], w)
				}
			}
			e.fail("C14.flush.final-state", "program run: final state differs from the run of the same programs without a flush: %s, expected %s", got, want)
		}
		e.finalCommon()
	}
	e.finish(p)
	r.Count("flush:program-case")
}
