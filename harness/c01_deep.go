package main

// C01 (deepening) — tie of the executable Lean emulator `C01.Emu.run` to the real emulator.
// Small kernels are launched on the real emulation platform (emusystem, GCN3, one GPU), each in a child
// process (`<exe> child c01deep <spec> <result>`):
//   * the driver's own copyKernel (amd/driver/memcopy.hsaco) through Driver.EnqueueMemCopyD2D, and
//   * nine hand-assembled kernels (straight-line, one with a forward branch, two with LDS + S_BARRIER)
//     through Driver.EnqueueLaunchKernel.
// The child reports the code bytes the loader extracted, the code-object flags `initWfRegs` reads, the
// dispatch packet and kernel-argument images as they are in device memory, the input buffers and the
// final output buffer.  One case line `c01 emu …` carries all of that to the Lean driver, which runs
// `Emu.runE` on the same bytes; the final buffers must agree bit for bit.
// Independent of the model, host references are evaluated on the real outputs (oracles C01.deep.*).

import (
	"encoding/binary"
	"encoding/hex"
	"encoding/json"
	"fmt"
	"math"
	"math/bits"
	"os"
	"os/exec"
	"path/filepath"
	"strings"
	"sync"
	"time"

	"github.com/sarchlab/akita/v4/simulation"
	"github.com/sarchlab/mgpusim/v4/amd/arch"
	"github.com/sarchlab/mgpusim/v4/amd/driver"
	"github.com/sarchlab/mgpusim/v4/amd/insts"
	"github.com/sarchlab/mgpusim/v4/amd/samples/runner/emusystem"
)

func init() {
	register("C01", runC01Deep)
	childFuncs["c01deep"] = c01DeepChild
}

type c01DeepSpec struct {
	Kind string // "copy" | "kern"
	Seed uint64
	N    int // copy: number of bytes
	Kern int // kern: kernel id
	Grid int
}

type c01DeepResult struct {
	Done   bool
	Fault  string
	Code   []byte
	Flags  string
	V5     int
	WI     int
	CO     uint64
	Entry  uint64
	Grid   [3]uint32
	WG     [3]uint16
	KA     uint64
	KABytes []byte
	PA     uint64
	PABytes []byte
	Regions []c01Region // initial memory
	OutAddr uint64
	Out     []byte // final content of the output region
	Name    string
	// device-to-device copy: what EnqueueMemCopyD2D put into the queue
	NoLaunch bool   // no kernel launch (fewer than 4 bytes)
	KernN    int64  // N of KernelMemCopyArgs
	TailSrc  uint64 // source of the device-to-host copy of the tail bytes
	TailDst  uint64 // destination of the host-to-device copy of the tail bytes
	TailLen  int
	TailBufs bool   // both tail commands use the same host slice
	NumCmds  int
}

type c01Region struct {
	Addr uint64
	Data []byte
}

// ---- hand-assembled kernels -----------------------------------------------------------------
// ABI: s[0:1] kernarg pointer, s2 work-group id x, v0 work-item id x. Kernargs: in pointer, out pointer.
// After the prologue v1 = global id, v[4:5] = in + gid*4, v[8:9] = out + gid*4.

const c01V = 256 // VGPR operand code base in 9-bit source fields

func c01F(format string, op uint32, f map[string]uint32) desc {
	return desc{format: format, op: op, f: f}
}

func c01Lit(d desc, lit uint32) desc { d.hasLit, d.literal = true, lit; return d }

type c01Kernel struct {
	name   string
	wg     int
	lds    uint32
	planes int // size of in and out in units of grid dwords
	body   func(add func(desc), grid int)
}

func c01Prologue(add func(desc), log2wg uint32) {
	add(c02D("smem", 2, 4, 0, 0, 1))                // s_load_dwordx4 s[4:7], s[0:1], 0
	add(c02D("sopp", 12, 0))                        // s_waitcnt 0
	add(c02D("sop2", 28, 8, 2, 128+log2wg))         // s_lshl_b32 s8, s2, log2wg
	add(c02D("vop2", 25, 1, 8, 0))                  // v_add_u32 v1, vcc, s8, v0
	add(c02D("vop2", 18, 2, 128+2, 1))              // v_lshlrev_b32 v2, 2, v1
	add(c02D("vop1", 1, 3, 5))                      // v_mov_b32 v3, s5
	add(c02D("vop2", 25, 4, 4, 2))                  // v_add_u32 v4, vcc, s4, v2
	add(c02D("vop1", 1, 5, 128))                    // v_mov_b32 v5, 0
	add(c02D("vop2", 28, 5, c01V+3, 5))             // v_addc_u32 v5, vcc, v3, v5, vcc
	add(c02D("vop1", 1, 3, 7))                      // v_mov_b32 v3, s7
	add(c02D("vop2", 25, 8, 6, 2))                  // v_add_u32 v8, vcc, s6, v2
	add(c02D("vop1", 1, 9, 128))                    // v_mov_b32 v9, 0
	add(c02D("vop2", 28, 9, c01V+3, 9))             // v_addc_u32 v9, vcc, v3, v9, vcc
}

// advance the 64-bit address pair v[lo:lo+1] by one plane (grid*4 bytes)
func c01NextPlane(add func(desc), lo uint32, grid int) {
	add(c01Lit(c02D("vop2", 25, lo, 255, lo), uint32(grid*4))) // v_add_u32 vlo, vcc, lit, vlo
	add(c02D("vop1", 1, 3, 128))                               // v_mov_b32 v3, 0
	add(c02D("vop2", 28, lo+1, c01V+3, lo+1))                  // v_addc_u32 vlo+1, vcc, v3, vlo+1, vcc
}

func c01Load(add func(desc), op, vdst uint32) { add(c02D("flat", op, vdst, 4, 0, 0, 0x7f)) }
func c01Store(add func(desc), op, data uint32) { add(c02D("flat", op, 0, 8, data, 0, 0x7f)) }
func c01Wait(add func(desc))                  { add(c02D("sopp", 12, 0)) }

func c01Vop3a(op, vdst, s0, s1, s2 uint32) desc {
	return c01F("vop3a", op, map[string]uint32{"vdst": vdst, "src0": s0, "src1": s1, "src2": s2})
}

var c01Kernels = []c01Kernel{
	{name: "scale-xor", wg: 64, planes: 1, body: func(add func(desc), grid int) {
		c01Load(add, 20, 10)
		c01Wait(add)
		add(c02D("vop2", 8, 11, 128+3, 10))                       // v_mul_u32_u24 v11, 3, v10
		add(c02D("vop2", 25, 11, c01V+1, 11))                     // v_add_u32 v11, vcc, v1, v11
		add(c01Lit(c02D("vop2", 21, 11, 255, 11), 0xdeadbeef))    // v_xor_b32 v11, lit, v11
		c01Store(add, 28, 11)
	}},
	{name: "float", wg: 64, planes: 2, body: func(add func(desc), grid int) {
		c01Load(add, 20, 10)
		c01NextPlane(add, 4, grid)
		c01Load(add, 20, 11)
		c01Wait(add)
		add(c02D("vop2", 1, 12, c01V+10, 11))  // v_add_f32 v12, v10, v11
		add(c02D("vop2", 5, 13, c01V+10, 11))  // v_mul_f32 v13, v10, v11
		add(c02D("vop2", 2, 12, c01V+12, 13))  // v_sub_f32 v12, v12, v13
		add(c02D("vop2", 11, 13, 242, 13))     // v_max_f32 v13, 1.0, v13
		add(c02D("vop1", 5, 14, c01V+1))       // v_cvt_f32_i32 v14, v1
		add(c02D("vop2", 1, 13, c01V+14, 13))  // v_add_f32 v13, v14, v13
		c01Store(add, 28, 12)
		c01NextPlane(add, 8, grid)
		c01Store(add, 28, 13)
	}},
	{name: "bytes", wg: 64, planes: 1, body: func(add func(desc), grid int) {
		c01Load(add, 16, 10) // ubyte
		c01Load(add, 17, 11) // sbyte
		c01Load(add, 18, 12) // ushort
		c01Load(add, 20, 13) // dword
		c01Wait(add)
		add(c02D("vop2", 25, 10, c01V+10, 11)) // v10 += v11
		add(c02D("vop2", 21, 12, c01V+12, 13)) // v12 ^= v13
		add(c02D("vop2", 18, 10, 128+9, 10))   // v_lshlrev_b32 v10, 9, v10
		add(c02D("vop2", 25, 12, c01V+12, 10)) // v12 += v10
		c01Store(add, 28, 12)
	}},
	{name: "bits-vop3", wg: 64, planes: 2, body: func(add func(desc), grid int) {
		c01Load(add, 20, 10)
		c01Wait(add)
		add(c02D("vop2", 16, 11, 128+5, 10))                     // v_lshrrev_b32 v11, 5, v10
		add(c02D("vop2", 17, 12, 128+7, 10))                     // v_ashrrev_i32 v12, 7, v10
		add(c02D("vop2", 19, 11, c01V+11, 12))                   // v_and_b32
		add(c02D("vop1", 43, 13, c01V+10))                       // v_not_b32
		add(c02D("vop1", 44, 14, c01V+10))                       // v_bfrev_b32
		add(c02D("vop2", 20, 13, c01V+13, 14))                   // v_or_b32
		add(c01Vop3a(456, 14, c01V+10, 128+4, 128+9))            // v_bfe_u32 v14, v10, 4, 9
		add(c01Vop3a(451, 15, c01V+14, c01V+1, c01V+11))         // v_mad_u32_u24 v15, v14, v1, v11
		add(c01Vop3a(645, 16, c01V+10, c01V+13, 0))              // v_mul_lo_u32 v16, v10, v13
		add(c01Vop3a(646, 17, c01V+10, c01V+13, 0))              // v_mul_hi_u32 v17, v10, v13
		add(c02D("vop2", 21, 15, c01V+15, 16))                   // v_xor_b32 v15, v15, v16
		c01Store(add, 28, 15)
		c01NextPlane(add, 8, grid)
		c01Store(add, 28, 17)
	}},
	{name: "scalar", wg: 64, planes: 1, body: func(add func(desc), grid int) {
		add(c01Lit(c02D("sop2", 0, 10, 2, 255), 0xfffffff0))        // s_add_u32 s10, s2, lit
		add(c02D("sop2", 4, 11, 8, 128+1))                          // s_addc_u32 s11, s8, 1
		add(c02D("sop2", 36, 12, 10, 11))                           // s_mul_i32 s12, s10, s11
		add(c02D("sop2", 30, 13, 12, 128+3))                        // s_lshr_b32 s13, s12, 3
		add(c01Lit(c02D("sop2", 38, 14, 12, 255), 0x00070004))      // s_bfe_i32 s14, s12, lit
		add(c01F("sopc", 10, map[string]uint32{"ssrc0": 14, "ssrc1": 128 + 40})) // s_cmp_lt_u32 s14, 40
		add(c02D("sop2", 10, 15, 13, 14))                           // s_cselect_b32 s15, s13, s14
		add(c01F("sopk", 0, map[string]uint32{"sdst": 16, "simm16": 0xfff3}))    // s_movk_i32 s16, -13
		add(c01F("sopk", 15, map[string]uint32{"sdst": 16, "simm16": 77}))       // s_mulk_i32 s16, 77
		add(c02D("sopp", 5, 1))                                     // s_cbranch_scc1 +1
		add(c02D("sop2", 16, 15, 15, 16))                           // s_xor_b32 s15, s15, s16 (skipped when scc)
		add(c01F("sop1", 4, map[string]uint32{"sdst": 17, "ssrc0": 15}))         // s_not_b32 s17, s15
		c01Load(add, 20, 10)
		c01Wait(add)
		add(c02D("vop2", 25, 10, 17, 10))                           // v_add_u32 v10, vcc, s17, v10
		add(c02D("vop2", 21, 10, 16, 10))                           // v_xor_b32 v10, s16, v10
		c01Store(add, 28, 10)
	}},
	{name: "divergent", wg: 64, planes: 1, body: func(add func(desc), grid int) {
		c01Load(add, 20, 10)
		c01Wait(add)
		add(c01F("vopc", 204, map[string]uint32{"src0": c01V + 10, "vsrc1": 1}))   // v_cmp_gt_u32 vcc, v10, v1
		add(c01F("sop1", 32, map[string]uint32{"sdst": 12, "ssrc0": 106}))         // s_and_saveexec_b64 s[12:13], vcc
		add(c01Lit(c02D("vop2", 25, 10, 255, 10), 1000))                           // v_add_u32 v10, vcc, 1000, v10
		add(c01F("sop1", 1, map[string]uint32{"sdst": 126, "ssrc0": 12}))          // s_mov_b64 exec, s[12:13]
		add(c01F("vopc", 193, map[string]uint32{"src0": c01V + 10, "vsrc1": 1}))   // v_cmp_lt_i32 vcc, v10, v1
		add(c02D("vop2", 0, 11, c01V+10, 1))                                       // v_cndmask_b32 v11, v10, v1, vcc
		c01Store(add, 28, 11)
	}},
	{name: "lds-barrier", wg: 256, lds: 1024, planes: 1, body: func(add func(desc), grid int) {
		c01Load(add, 20, 10)
		add(c02D("vop2", 18, 11, 128+2, 0)) // v_lshlrev_b32 v11, 2, v0
		c01Wait(add)
		add(c01F("ds", 13, map[string]uint32{"addr": 11, "data0": 10})) // ds_write_b32 v11, v10
		c01Wait(add)
		add(c02D("sopp", 10, 0)) // s_barrier
		add(c01Lit(c02D("vop2", 26, 12, 255, 11), 1020)) // v_sub_u32 v12, vcc, 1020, v11
		add(c01F("ds", 54, map[string]uint32{"addr": 12, "vdst": 13})) // ds_read_b32 v13, v12
		c01Wait(add)
		add(c02D("vop2", 25, 13, c01V+13, 10)) // v_add_u32 v13, vcc, v13, v10
		c01Store(add, 28, 13)
	}},
	{name: "wide", wg: 64, planes: 2, body: func(add func(desc), grid int) {
		// in/out are read as pairs: item gid handles the 8 bytes at offset gid*8
		add(c02D("vop2", 25, 4, c01V+2, 4))   // v4 += gid*4 (so that v[4:5] = in + gid*8)
		add(c02D("vop1", 1, 3, 128))
		add(c02D("vop2", 28, 5, c01V+3, 5))
		add(c02D("vop2", 25, 8, c01V+2, 8))
		add(c02D("vop1", 1, 3, 128))
		add(c02D("vop2", 28, 9, c01V+3, 9))
		add(c02D("smem", 1, 12, 0, 0, 1))     // s_load_dwordx2 s[12:13], s[0:1], 0
		c01Load(add, 21, 10)                  // flat_load_dwordx2 v[10:11]
		c01Wait(add)
		add(c01Vop3a(655, 12, 128+3, c01V+10, 0))                 // v_lshlrev_b64 v[12:13], 3, v[10:11]
		add(c01F("vop3b", 488, map[string]uint32{"vdst": 14, "sdst": 106, "src0": c01V + 10, "src1": c01V + 1, "src2": c01V + 12})) // v_mad_u64_u32 v[14:15], vcc, v10, v1, v[12:13]
		add(c02D("vop2", 25, 14, 12, 14))                         // v_add_u32 v14, vcc, s12, v14
		add(c02D("vop1", 1, 3, 13))                               // v_mov_b32 v3, s13
		add(c02D("vop2", 28, 15, c01V+3, 15))                     // v_addc_u32 v15, vcc, v3, v15, vcc
		c01Store(add, 29, 14)                                     // flat_store_dwordx2
	}},
	{name: "two-barriers", wg: 128, lds: 512, planes: 1, body: func(add func(desc), grid int) {
		c01Load(add, 20, 10)
		add(c02D("vop2", 18, 11, 128+2, 0)) // v11 = v0*4
		c01Wait(add)
		add(c01F("ds", 13, map[string]uint32{"addr": 11, "data0": 10}))
		c01Wait(add)
		add(c02D("sopp", 10, 0))
		add(c01Lit(c02D("vop2", 21, 12, 255, 11), 256))                // v12 = v11 ^ 256 : partner in the other wavefront
		add(c01F("ds", 54, map[string]uint32{"addr": 12, "vdst": 13})) // v13 = lds[partner]
		c01Wait(add)
		add(c02D("sopp", 10, 0))
		add(c02D("vop2", 25, 13, c01V+13, 1))                          // v13 += gid
		add(c01F("ds", 13, map[string]uint32{"addr": 11, "data0": 13}))
		c01Wait(add)
		add(c02D("sopp", 10, 0))
		add(c01Lit(c02D("vop2", 21, 12, 255, 11), 4))                  // neighbour lane
		add(c01F("ds", 54, map[string]uint32{"addr": 12, "vdst": 14}))
		c01Wait(add)
		add(c02D("vop2", 21, 14, c01V+14, 13))                         // v14 ^= v13
		c01Store(add, 28, 14)
	}},
}

func c01Assemble(k c01Kernel, grid int) []byte {
	var b []byte
	add := func(d desc) { b = append(b, encodeDesc(d)...) }
	c01Prologue(add, uint32(bits.TrailingZeros(uint(k.wg))))
	k.body(add, grid)
	add(c02D("sopp", 1, 0)) // s_endpgm
	return b
}

func c01Flags(co *insts.KernelCodeObject) string {
	fl := []bool{co.EnableSgprPrivateSegmentBuffer, co.EnableSgprDispatchPtr, co.EnableSgprQueuePtr,
		co.EnableSgprKernargSegmentPtr, co.EnableSgprDispatchID, co.EnableSgprFlatScratchInit,
		co.EnableSgprPrivateSegmentSize, co.EnableSgprGridWorkgroupCountX, co.EnableSgprGridWorkgroupCountY,
		co.EnableSgprGridWorkgroupCountZ, co.EnableSgprWorkGroupIDX(), co.EnableSgprWorkGroupIDY(), co.EnableSgprWorkGroupIDZ()}
	s := ""
	for _, f := range fl {
		if f {
			s += "1"
		} else {
			s += "0"
		}
	}
	return s
}

func c01DataBytes(seed uint64, n int) []byte {
	return NewRng(seed ^ 0xC01DEE9).Bytes(n)
}

// ---- child ------------------------------------------------------------------------------------

type c01KernArgs struct {
	In  driver.Ptr
	Out driver.Ptr
}

func c01DeepChild(args []string) {
	if len(args) < 2 {
		os.Exit(2)
	}
	var spec c01DeepSpec
	sb, err := os.ReadFile(args[0])
	if err == nil {
		err = json.Unmarshal(sb, &spec)
	}
	if err != nil {
		os.Exit(2)
	}
	res := c01DeepResult{}
	save := func() {
		b, _ := json.Marshal(res)
		tmp := args[1] + ".tmp"
		if os.WriteFile(tmp, b, 0o644) == nil {
			_ = os.Rename(tmp, args[1])
		}
	}
	save()
	dir := filepath.Dir(args[1])
	s := simulation.MakeBuilder().WithoutMonitoring().WithOutputFileName(filepath.Join(dir, "akita_sim")).Build()
	emusystem.MakeBuilder().WithSimulation(s).WithNumGPUs(1).WithArchitecture(arch.GCN3).Build()
	drv := s.GetComponentByName("Driver").(*driver.Driver)
	drv.Run()
	ctx := drv.Init()

	var in, out0 []byte
	var dIn, dOut driver.Ptr
	queue := drv.CreateCommandQueue(ctx)
	switch spec.Kind {
	case "copy":
		// 16 guard bytes behind the copied range in both buffers
		n := spec.N + 16
		in = c01DataBytes(spec.Seed, n)
		out0 = c01DataBytes(spec.Seed+1, n)
		dIn = drv.AllocateMemory(ctx, uint64(n))
		dOut = drv.AllocateMemory(ctx, uint64(n))
		drv.MemCopyH2D(ctx, dIn, in)
		drv.MemCopyH2D(ctx, dOut, out0)
		drv.EnqueueMemCopyD2D(queue, dOut, dIn, spec.N)
		res.Name = "copyKernel"
	default:
		k := c01Kernels[spec.Kern%len(c01Kernels)]
		res.Name = k.name
		n := spec.Grid * k.planes * 4
		in = c01DataBytes(spec.Seed, n)
		if k.name == "float" {
			// ordinary floats and signed zeros (no infinities: the sign of a generated NaN is C03V's subject)
			r := NewRng(spec.Seed)
			for i := 0; i+4 <= n; i += 4 {
				var v uint32
				switch r.Intn(12) {
				case 0:
					v = r.PickU32(0, 0x80000000, 0x3f800000, 0xbf800000, 0x00800000, 0x3effffff)
				default:
					v = math.Float32bits(float32(r.Intn(2000)-1000) / float32(1+r.Intn(64)))
				}
				binary.LittleEndian.PutUint32(in[i:], v)
			}
		}
		out0 = c01DataBytes(spec.Seed+1, n)
		dIn = drv.AllocateMemory(ctx, uint64(n))
		dOut = drv.AllocateMemory(ctx, uint64(n))
		drv.MemCopyH2D(ctx, dIn, in)
		drv.MemCopyH2D(ctx, dOut, out0)
		co := &insts.KernelCodeObject{KernelCodeObjectMeta: &insts.KernelCodeObjectMeta{}, Version: insts.CodeObjectV3}
		co.Data = c01Assemble(k, spec.Grid)
		co.EnableSgprKernargSegmentPtr = true
		co.ComputePgmRsrc2 = 1 << 7 // work-group id x; work-item id x only
		co.KernargSegmentByteSize = 16
		co.GroupSegmentByteSize = k.lds
		co.WFSgprCount, co.WIVgprCount = 32, 24
		ka := c01KernArgs{In: dIn, Out: dOut}
		drv.EnqueueLaunchKernel(queue, co, [3]uint32{uint32(spec.Grid), 1, 1}, [3]uint16{uint16(k.wg), 1, 1}, &ka)
	}
	var lk *driver.LaunchKernelCommand
	for _, c := range queue.VerifCommands() {
		if x, ok := c.(*driver.LaunchKernelCommand); ok {
			lk = x
		}
	}
	res.NumCmds = len(queue.VerifCommands())
	if spec.Kind == "copy" {
		var d2h *driver.MemCopyD2HCommand
		var h2d *driver.MemCopyH2DCommand
		for _, c := range queue.VerifCommands() {
			switch x := c.(type) {
			case *driver.MemCopyD2HCommand:
				d2h = x
			case *driver.MemCopyH2DCommand:
				// the launch enqueues host-to-device copies of code, arguments and packet; the tail copy's
				// source is a byte slice
				if _, ok := x.Src.([]byte); ok && d2h != nil {
					h2d = x
				}
			}
		}
		if d2h != nil && h2d != nil {
			res.TailSrc, res.TailDst = uint64(d2h.Src), uint64(h2d.Dst)
			a, okA := d2h.Dst.([]byte)
			b, okB := h2d.Src.([]byte)
			if okA && okB {
				res.TailLen = len(a)
				res.TailBufs = len(a) == len(b) && (len(a) == 0 || &a[0] == &b[0])
			}
		}
		if lk != nil {
			if ka, ok := c01LaunchArgs(queue, lk).(*driver.KernelMemCopyArgs); ok {
				res.KernN = ka.N
			}
		}
	}
	if lk == nil && spec.Kind == "copy" {
		// fewer than four bytes: no kernel launch, only the tail copy
		res.NoLaunch = true
		res.Regions = []c01Region{{uint64(dIn), in}, {uint64(dOut), out0}}
		res.OutAddr = uint64(dOut)
		drv.DrainCommandQueue(queue)
		res.Out = make([]byte, len(out0))
		drv.MemCopyD2H(ctx, res.Out, dOut)
		inAfter := make([]byte, len(in))
		drv.MemCopyD2H(ctx, inAfter, dIn)
		if string(inAfter) != string(in) {
			res.Fault = "input buffer modified"
		}
		res.Done = true
		save()
		os.Exit(0)
	}
	if lk == nil {
		res.Fault = "no launch command in the queue"
		save()
		os.Exit(0)
	}
	co := lk.CodeObject
	res.Code = co.Data
	res.Flags = c01Flags(co)
	if co.Version == insts.CodeObjectV5 {
		res.V5 = 1
	}
	res.WI = int(co.EnableVgprWorkItemID())
	res.CO = lk.Packet.KernelObject
	res.Entry = co.KernelCodeEntryByteOffset
	res.Grid = [3]uint32{lk.Packet.GridSizeX, lk.Packet.GridSizeY, lk.Packet.GridSizeZ}
	res.WG = [3]uint16{lk.Packet.WorkgroupSizeX, lk.Packet.WorkgroupSizeY, lk.Packet.WorkgroupSizeZ}
	res.KA = lk.Packet.KernargAddress
	res.PA = uint64(lk.DPacket)
	res.Regions = []c01Region{{uint64(dIn), in}, {uint64(dOut), out0}}
	res.OutAddr = uint64(dOut)

	drv.DrainCommandQueue(queue)

	res.Out = make([]byte, len(out0))
	drv.MemCopyD2H(ctx, res.Out, dOut)
	res.KABytes = make([]byte, co.KernargSegmentByteSize)
	drv.MemCopyD2H(ctx, res.KABytes, driver.Ptr(res.KA))
	res.PABytes = make([]byte, 64)
	drv.MemCopyD2H(ctx, res.PABytes, driver.Ptr(res.PA))
	inAfter := make([]byte, len(in))
	drv.MemCopyD2H(ctx, inAfter, dIn)
	if string(inAfter) != string(in) {
		res.Fault = "input buffer modified"
	}
	res.Done = true
	save()
	os.Exit(0)
}

func (r *Rng) PickU32(xs ...uint32) uint32 { return xs[r.Intn(len(xs))] }

// the (patched) kernel-argument struct of a launch: the source of the host-to-device copy to KernargAddress
func c01LaunchArgs(q *driver.CommandQueue, lk *driver.LaunchKernelCommand) interface{} {
	for _, c := range q.VerifCommands() {
		if h, ok := c.(*driver.MemCopyH2DCommand); ok && uint64(h.Dst) == lk.Packet.KernargAddress {
			return h.Src
		}
	}
	return nil
}

// ---- parent -----------------------------------------------------------------------------------

func c01RunDeep(dir string, spec c01DeepSpec, limit time.Duration) c01DeepResult {
	must(os.MkdirAll(dir, 0o755))
	sf, rf := filepath.Join(dir, "spec.json"), filepath.Join(dir, "result.json")
	b, _ := json.Marshal(spec)
	must(os.WriteFile(sf, b, 0o644))
	exe, _ := os.Executable()
	cmd := exec.Command(exe, "child", "c01deep", sf, rf)
	cmd.Dir = dir
	cmd.Env = append(os.Environ(), "GOMEMLIMIT=3GiB")
	var errb strings.Builder
	cmd.Stderr = &errb
	done := make(chan error, 1)
	if err := cmd.Start(); err != nil {
		return c01DeepResult{Fault: "start:" + err.Error()}
	}
	go func() { done <- cmd.Wait() }()
	fault := ""
	select {
	case err := <-done:
		if err != nil {
			fault = "exit:" + err.Error() + " " + logTail(errb.String(), 400)
		}
	case <-time.After(limit):
		_ = cmd.Process.Kill()
		<-done
		fault = "hang"
	}
	var res c01DeepResult
	if rb, err := os.ReadFile(rf); err == nil {
		_ = json.Unmarshal(rb, &res)
	}
	if fault != "" {
		res.Fault = fault
	} else if !res.Done && res.Fault == "" {
		res.Fault = "incomplete"
	}
	_ = os.RemoveAll(dir)
	return res
}

func c01CaseLine(res c01DeepResult) string {
	regs := []string{}
	for _, g := range res.Regions {
		regs = append(regs, fmt.Sprintf("%x:%s", g.Addr, hex.EncodeToString(g.Data)))
	}
	return fmt.Sprintf("c01 emu arch=gcn3 code=%s co=%x entry=%d grid=%d,%d,%d wg=%d,%d,%d flags=%s v5=%d wi=%d ka=%x:%s pkt=%x:%s mem=%s out=%x:%d",
		hex.EncodeToString(res.Code), res.CO, res.Entry, res.Grid[0], res.Grid[1], res.Grid[2], res.WG[0], res.WG[1], res.WG[2],
		res.Flags, res.V5, res.WI, res.KA, hex.EncodeToString(res.KABytes), res.PA, hex.EncodeToString(res.PABytes),
		strings.Join(regs, "/"), res.OutAddr, len(res.Out))
}

// correspondence cases and plan oracles of one device-to-device copy
func c01CopyCases(r *Run, spec c01DeepSpec, res c01DeepResult, id string) {
	n := spec.N
	src, dst := res.Regions[0].Addr, res.Regions[1].Addr
	// the plan: grid and N of the launch, offset and length of the tail copy
	words := 0
	if !res.NoLaunch {
		words = int(res.Grid[0])
		r.Checked("deep-copy-plan")
		if res.KernN != int64(words) || res.Grid[1] != 1 || res.Grid[2] != 1 || res.WG != [3]uint16{64, 1, 1} {
			r.Failf("C01.deep.copy-plan.launch", id, "grid=%v wg=%v N=%d", res.Grid, res.WG, res.KernN)
		}
	}
	off := uint64(words) * 4
	if res.TailLen > 0 {
		r.Checked("deep-copy-plan")
		if res.TailSrc-src != res.TailDst-dst || !res.TailBufs {
			r.Failf("C01.deep.copy-plan.tail", id, "tail copy src+%d -> dst+%d, same host slice: %v", res.TailSrc-src, res.TailDst-dst, res.TailBufs)
		}
		off = res.TailSrc - src
	}
	r.Case(fmt.Sprintf("c01 d2dplan num=%d", n), fmt.Sprintf("words=%d tail=%d:%d", words, off, res.TailLen))
	tail := fmt.Sprintf("tail=%x:%x:%d", res.TailDst, res.TailSrc, res.TailLen)
	if res.NoLaunch {
		r.Count("deep-copy-no-launch")
		regs := []string{}
		for _, g := range res.Regions {
			regs = append(regs, fmt.Sprintf("%x:%s", g.Addr, hex.EncodeToString(g.Data)))
		}
		r.Case(fmt.Sprintf("c01 d2dtail mem=%s %s out=%x:%d", strings.Join(regs, "/"), tail, res.OutAddr, len(res.Out)),
			hex.EncodeToString(res.Out))
		return
	}
	line := c01CaseLine(res)
	r.Case("c01 d2d"+strings.TrimPrefix(line, "c01 emu")+" "+tail, hex.EncodeToString(res.Out))
}

// host references of the integer kernels (oracle, independent of the Lean model)
func c01Reference(name string, grid int, in, out0 []byte, wg int) []byte {
	w := func(b []byte, i int) uint32 { return binary.LittleEndian.Uint32(b[i*4:]) }
	ref := append([]byte(nil), out0...)
	put := func(i int, v uint32) { binary.LittleEndian.PutUint32(ref[i*4:], v) }
	switch name {
	case "scale-xor":
		for g := 0; g < grid; g++ {
			put(g, (((w(in, g)&0xffffff)*3)+uint32(g))^0xdeadbeef)
		}
	case "divergent":
		for g := 0; g < grid; g++ {
			v := w(in, g)
			if v > uint32(g) {
				v += 1000
			}
			if int32(v) < int32(g) {
				v = uint32(g)
			}
			put(g, v)
		}
	case "lds-barrier":
		for g := 0; g < grid; g++ {
			base := g / wg * wg
			p := base + (wg - 1 - g%wg)
			var other uint32
			if p < grid {
				other = w(in, p)
			}
			put(g, other+w(in, g))
		}
	default:
		return nil
	}
	return ref
}

func runC01Deep(r *Run, rng *Rng, replay string) {
	var specs []c01DeepSpec
	copyN := []int{1, 4, 5, 255, 256, 260, 1000, 1023}
	grids := map[int][]int{64: {64, 100}, 128: {128, 200}, 256: {256, 300}}
	if r.Tier == "thorough" {
		copyN = append(copyN, 2, 3, 7, 8, 64, 252, 253, 257, 511, 512, 777, 1024, 1500, 2048)
		grids = map[int][]int{64: {64, 100, 1, 63, 65, 192, 256}, 128: {128, 200, 1, 129, 384}, 256: {256, 300, 1, 255, 512}}
	}
	for i, n := range copyN {
		specs = append(specs, c01DeepSpec{Kind: "copy", Seed: r.Seed*100 + uint64(i), N: n})
	}
	for ki, k := range c01Kernels {
		for gi, g := range grids[k.wg] {
			specs = append(specs, c01DeepSpec{Kind: "kern", Seed: r.Seed*1000 + uint64(ki*10+gi), Kern: ki, Grid: g})
		}
	}
	results := make([]c01DeepResult, len(specs))
	sem := make(chan struct{}, 8)
	var wg sync.WaitGroup
	for i := range specs {
		wg.Add(1)
		go func(i int) {
			defer wg.Done()
			sem <- struct{}{}
			defer func() { <-sem }()
			dir := filepath.Join(r.OutDir, fmt.Sprintf("deep-%d", i))
			// a hang is the driver's lost wake-up (property C12), not this property's subject: repeat
			for try := 0; try < 3; try++ {
				results[i] = c01RunDeep(dir, specs[i], 60*time.Second)
				if results[i].Fault != "hang" {
					break
				}
			}
		}(i)
	}
	wg.Wait()
	copyCodeDone := false
	for i, spec := range specs {
		res := results[i]
		id := fmt.Sprintf("%s kernel=%s n=%d grid=%d seed=%d (replay: <harness> child c01deeprun %s %d %d %d %d)",
			spec.Kind, res.Name, spec.N, spec.Grid, spec.Seed, spec.Kind, spec.Seed, spec.N, spec.Kern, spec.Grid)
		r.Count("deep-" + spec.Kind)
		if res.Fault != "" {
			r.Checked("deep-run")
			r.Failf("C01.deep.run-fails", id, "fault=%q", res.Fault)
			continue
		}
		r.Count("deep-kernel-" + res.Name)
		r.CountN("deep-code-bytes", len(res.Code))
		if spec.Kind == "copy" {
			c01CopyCases(r, spec, res, id)
		} else {
			r.Case(c01CaseLine(res), hex.EncodeToString(res.Out))
		}
		if spec.Kind == "copy" && !res.NoLaunch && !copyCodeDone {
			// the bytes the real loader extracted from amd/driver/memcopy.hsaco vs the literal the proofs are about
			copyCodeDone = true
			r.Case("c01 copycode", hex.EncodeToString(res.Code))
		}
		in, out0 := res.Regions[0].Data, res.Regions[1].Data
		if spec.Kind == "copy" {
			n := spec.N
			r.Checked("deep-copy-prefix")
			if string(res.Out[:n]) != string(in[:n]) {
				r.Failf("C01.deep.copy-prefix", id, "the first %d bytes of dst differ from src", n)
			}
			// exact range: nothing behind dst+n changes (the tail of the last dword used to be overwritten)
			r.Checked("deep-copy-frame")
			if string(res.Out[n:]) != string(out0[n:]) {
				first := n
				for first < len(out0) && res.Out[first] == out0[first] {
					first++
				}
				r.Failf("C01.deep.copy-frame", id, "byte %d of dst (behind the %d requested bytes) changed", first, n)
			}
			if n%4 != 0 {
				r.Count("deep-copy-unaligned-length")
			}
			continue
		}
		k := c01Kernels[spec.Kern%len(c01Kernels)]
		if ref := c01Reference(k.name, spec.Grid, in, out0, k.wg); ref != nil {
			r.Checked("deep-host-reference")
			if string(ref) != string(res.Out) {
				first := 0
				for first < len(ref) && ref[first] == res.Out[first] {
					first++
				}
				r.Failf("C01.deep.host-reference."+k.name, id, "output differs from the host reference at byte %d (work-item %d)", first, first/4)
			}
		}
	}
}

// `<exe> child c01deeprun <kind> <seed> <n> <kern> <grid>`: replay one case and print the case line and the output.
func init() {
	childFuncs["c01deeprun"] = func(args []string) {
		var spec c01DeepSpec
		if len(args) >= 5 {
			spec.Kind = args[0]
			fmt.Sscan(args[1], &spec.Seed)
			fmt.Sscan(args[2], &spec.N)
			fmt.Sscan(args[3], &spec.Kern)
			fmt.Sscan(args[4], &spec.Grid)
		}
		dir, _ := os.MkdirTemp(os.Getenv("VERIF_WL_DIR"), "c01deep")
		res := c01RunDeep(filepath.Join(dir, "x"), spec, 120*time.Second)
		_ = os.RemoveAll(dir)
		if res.Fault != "" {
			fmt.Println("fault:", res.Fault)
			return
		}
		fmt.Println(c01CaseLine(res))
		fmt.Println(hex.EncodeToString(res.Out))
	}
}
