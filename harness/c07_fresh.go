package main

import (
	"encoding/binary"
	"fmt"
	"strings"

	"github.com/sarchlab/akita/v4/mem/vm"
	"github.com/sarchlab/akita/v4/sim"
	"github.com/sarchlab/mgpusim/v4/amd/emu"
	"github.com/sarchlab/mgpusim/v4/amd/insts"
	"github.com/sarchlab/mgpusim/v4/amd/kernels"
	"github.com/sarchlab/mgpusim/v4/amd/protocol"
)

// "No write disturbs another wavefront" across TIME on one emulation compute unit: a wavefront that
// starts after earlier work-groups finished on the same CU has the state of a wavefront on a brand-new
// CU — whatever the earlier ones wrote to their SGPRs, VGPRs, M0, VCC, SCC or EXEC. The real
// emu.ComputeUnit, disassembler and ALU run 1-3 "dirtying" work-groups (random literal moves into
// scalar, vector and special registers) and then an observer work-group (`s_endpgm` only); its state at
// `s_endpgm` is compared with the same observer run first on a new CU (differential, no model of the
// initial values needed).

type c07FreshMem struct{ words map[uint64]uint32 }

func (m *c07FreshMem) Read(pid vm.PID, addr, n uint64) []byte {
	out := make([]byte, n)
	for i := uint64(0); i+4 <= n; i += 4 {
		w, ok := m.words[addr+i]
		if !ok {
			w = 0xBF810000 // s_endpgm
		}
		binary.LittleEndian.PutUint32(out[i:], w)
	}
	return out
}
func (m *c07FreshMem) Write(vm.PID, uint64, []byte) {}

type c07FreshObs struct{ states []string }

func (o *c07FreshObs) Func(ctx sim.HookCtx) {
	wf, ok := ctx.Item.(*emu.Wavefront)
	if !ok {
		return
	}
	inst, ok := ctx.Detail.(*insts.Inst)
	if !ok || inst.FormatType != insts.SOPP || inst.Opcode != 1 {
		return
	}
	var b strings.Builder
	fmt.Fprintf(&b, "m0=%x vcc=%x scc=%d exec=%x s=", wf.M0, wf.VCC(), wf.SCC(), wf.EXEC())
	for i := 0; i < 32; i++ {
		fmt.Fprintf(&b, "%x,", wf.SRegValue(i))
	}
	b.WriteString(" v=")
	for _, l := range []int{0, 1, 31, 63} {
		for i := 0; i < 12; i++ {
			fmt.Fprintf(&b, "%x,", wf.VRegValue(l, i))
		}
	}
	o.states = append(o.states, b.String())
}

type c07FreshConn struct{ sim.HookableBase }

func (c *c07FreshConn) Name() string              { return "c07FreshConn" }
func (c *c07FreshConn) PlugIn(sim.Port)           {}
func (c *c07FreshConn) Unplug(sim.Port)           {}
func (c *c07FreshConn) NotifyAvailable(sim.Port)  {}
func (c *c07FreshConn) NotifySend()               {}

func c07FreshRunWG(eng sim.Engine, cu *emu.ComputeUnit, addr uint64, nwf int) string {
	co := &insts.KernelCodeObject{KernelCodeObjectMeta: &insts.KernelCodeObjectMeta{}}
	co.WFSgprCount, co.WIVgprCount = 32, 12
	pkt := &kernels.HsaKernelDispatchPacket{WorkgroupSizeX: uint16(64 * nwf), WorkgroupSizeY: 1, WorkgroupSizeZ: 1,
		GridSizeX: uint32(64 * nwf), GridSizeY: 1, GridSizeZ: 1, KernelObject: addr}
	wg := kernels.NewWorkGroup()
	wg.CodeObject, wg.Packet = co, pkt
	wg.SizeX, wg.SizeY, wg.SizeZ = 64*nwf, 1, 1
	wg.CurrSizeX, wg.CurrSizeY, wg.CurrSizeZ = 64*nwf, 1, 1
	b := protocol.MapWGReqBuilder{}.WithSrc(sim.RemotePort("Dispatcher.Port")).WithDst(cu.ToDispatcher.AsRemote()).WithPID(1).WithWG(wg)
	for k := 0; k < nwf; k++ {
		wf := kernels.NewWavefront()
		wf.CodeObject, wf.Packet, wf.WG = co, pkt, wg
		wf.InitExecMask = ^uint64(0)
		wf.FirstWiFlatID = 64 * k
		wg.Wavefronts = append(wg.Wavefronts, wf)
		b = b.AddWf(protocol.WfDispatchLocation{Wavefront: wf})
	}
	if cu.ToDispatcher.Deliver(b.Build()) != nil {
		return "cannot deliver MapWGReq"
	}
	if err := eng.Run(); err != nil {
		return err.Error()
	}
	if _, ok := cu.ToDispatcher.RetrieveOutgoing().(*protocol.WGCompletionMsg); !ok {
		return "no WGCompletionMsg"
	}
	return ""
}

func c07FreshScenario(r *Run, rng *Rng) {
	mem := &c07FreshMem{words: map[uint64]uint32{}}
	var desc []string
	nDirty := rng.Range(1, 3)
	for k := 0; k < nDirty; k++ {
		pc := uint64(0x1000 * (k + 1))
		n := rng.Range(1, 10)
		for j := 0; j < n; j++ {
			lit := uint32(rng.U64()) | 1
			var w uint32
			var what string
			switch rng.Intn(6) {
			case 0:
				w, what = 0xBEFC00FF, "m0" // s_mov_b32 m0, lit
			case 1:
				w, what = 0xBEEA00FF, "vcc_lo" // s_mov_b32 vcc_lo, lit
			case 2:
				w, what = 0xBEEB00FF, "vcc_hi"
			case 3:
				n := uint32(rng.Range(0, 31))
				w, what = 0xBE8000FF|n<<16, fmt.Sprintf("s%d", n)
			default:
				n := uint32(rng.Range(0, 11))
				w, what = 0x7E0002FF|n<<17, fmt.Sprintf("v%d", n) // v_mov_b32 vN, lit
			}
			mem.words[pc], mem.words[pc+4] = w, lit
			pc += 8
			desc = append(desc, fmt.Sprintf("wg%d:%s=%x", k, what, lit))
		}
		if rng.Chance(30) {
			mem.words[pc] = 0xBF048080 // s_cmp_lg_u32 0, 0 -> SCC... keep simple: s_cmp_eq_u32 0,0 sets SCC=1
			mem.words[pc] = 0xBF008080
			pc += 4
			desc = append(desc, fmt.Sprintf("wg%d:scc=1", k))
		}
	}
	nwfObs := rng.Range(1, 2)
	line := fmt.Sprintf("fresh-wavefront dirty=%d obs-wfs=%d ; %s", nDirty, nwfObs, strings.Join(desc, " "))
	run := func(withDirty bool) (string, string) {
		eng := sim.NewSerialEngine()
		cu := emu.NewComputeUnit("CU", eng, insts.NewDisassembler(), emu.NewALU(mem), mem)
		cu.ToDispatcher.SetConnection(&c07FreshConn{})
		obs := &c07FreshObs{}
		cu.AcceptHook(obs)
		if withDirty {
			for k := 0; k < nDirty; k++ {
				if f := c07FreshRunWG(eng, cu, uint64(0x1000*(k+1)), rng.Range(1, 2)); f != "" {
					return "", f
				}
			}
		}
		before := len(obs.states)
		if f := c07FreshRunWG(eng, cu, 0x100000, nwfObs); f != "" {
			return "", f
		}
		return strings.Join(obs.states[before:], " | "), ""
	}
	var a, b, fa, fb string
	// the reference (observer alone on a new CU) runs FIRST, so that state kept anywhere in the
	// process by the dirtying work-groups cannot reach it
	if f := catch(func() { b, fb = run(false) }); f != "" {
		fb = f
	}
	if f := catch(func() { a, fa = run(true) }); f != "" {
		fa = f
	}
	if fa != "" || fb != "" {
		r.Note("c07 fresh scenario skipped: %s / %s", fa, fb)
		r.Count("fresh.skipped")
		return
	}
	r.Checked("fresh-wavefront-state")
	r.Count("fresh.scenario")
	if a != b {
		r.Failf("C07.emu.fresh-wavefront-state", line, "a wavefront started after finished work-groups on the same CU does not start like one on a new CU:\n after: %s\n new:   %s", a, b)
	}
}

func init() {
	// reproducibility (C05): a run must not depend on what ran earlier in the same process
	register("C05", func(r *Run, rng *Rng, _ string) {
		r.OracleOnly = true
		defer func() { r.OracleOnly = false }()
		for i := 0; i < 40; i++ {
			c07FreshScenario(r, rng)
		}
	})
	// timing = emulation (C02) for device buffers needs the driver's flush decisions to be right
	// when kernels and copies overlap on different queues
	register("C02", func(r *Run, rng *Rng, _ string) {
		r.OracleOnly = true
		defer func() { r.OracleOnly = false }()
		for i := 0; i < 60; i++ {
			c11FlushScenario(r, rng)
		}
	})
	register("C07", func(r *Run, rng *Rng, _ string) {
		n := 60
		if r.Tier == "thorough" {
			n = 1500
		}
		for i := 0; i < n; i++ {
			c07FreshScenario(r, rng)
		}
	})
}
