package main

import (
	"fmt"
	"os"
	"sort"
	"strings"
	"time"
)

func init() { c05Runs = c05RunPairs }

// observables of one run, as a canonical string (final memory, simulated time, counters)
func c05Obs(res WorkloadResult, withTime bool) string {
	var p []string
	p = append(p, fmt.Sprintf("fault=%q ran=%v verify=%v", res.Fault, res.Ran, res.VerifyOK))
	for _, b := range res.Buffers {
		p = append(p, fmt.Sprintf("buf(%d,%x,%d)=%x", b.Ctx, b.VAddr, b.Size, b.Hash))
	}
	if withTime {
		p = append(p, fmt.Sprintf("simtime=%v", res.SimTime))
		var ks []string
		for k := range res.Counters {
			ks = append(ks, k)
		}
		sort.Strings(ks)
		for _, k := range ks {
			p = append(p, fmt.Sprintf("%s=%v", k, res.Counters[k]))
		}
	}
	return strings.Join(p, " ")
}

// c05RunPairs repeats whole simulations in separate processes under different GOMAXPROCS and
// compares every observable (serial engine), or the functional results only (parallel engine).
func c05RunPairs(r *Run, rng *Rng) {
	WorkloadDir = r.OutDir
	type wl struct {
		bench  string
		timing bool
		gpus   []int
		par    bool
	}
	wls := []wl{
		{"fir", false, []int{1}, false},
		{"fir", true, []int{1}, false},
		{"matrixtranspose", true, []int{1}, false},
		{"vectoradd", false, []int{1, 2}, false},
		{"fir", true, []int{1}, true},
		// functional results with the parallel engine: a kernel that uses LDS on many compute units
		{"matrixtranspose", false, []int{1}, true},
	}
	if r.Tier == "thorough" {
		for _, b := range []string{"kmeans", "bitonicsort", "simpleconvolution", "floydwarshall", "atax", "aes", "fastwalshtransform"} {
			wls = append(wls, wl{b, false, []int{1}, false}, wl{b, true, []int{1}, false})
		}
		wls = append(wls, wl{"matrixtranspose", true, []int{1, 2}, false}, wl{"vectoradd", true, []int{1, 2}, true})
	}
	known := map[string]bool{}
	for _, b := range BenchNames() {
		known[b] = true
	}
	procs := []string{"1", "16", "2"}
	results := make([][]WorkloadResult, len(procs))
	var specs []WorkloadSpec
	for _, w := range wls {
		if !known[w.bench] {
			continue
		}
		s := WorkloadSpec{Bench: w.bench, Params: DefaultParams(w.bench), Arch: "gcn3", Timing: w.timing, GPUType: "r9nano",
			GPUs: w.gpus, Parallel: w.par, Seed: int64(r.Seed)}
		if w.bench == "matrixtranspose" && w.par && !w.timing {
			s.Params = map[string]int{"width": 256} // 16 work-groups: several compute units emulate at once
		}
		specs = append(specs, s)
	}
	old := os.Getenv("GOMAXPROCS")
	for i, p := range procs {
		os.Setenv("GOMAXPROCS", p)
		results[i] = RunWorkloads(specs, 8, 240*time.Second)
	}
	if old == "" {
		os.Unsetenv("GOMAXPROCS")
	} else {
		os.Setenv("GOMAXPROCS", old)
	}
	// the same simulation as the first one of a process and after another simulation in the process
	{
		var ws []WorkloadSpec
		for _, cfg := range []struct {
			bench, arch, gpu string
			timing           bool
		}{{"vectoradd", "cdna3", "mi300a", true}, {"fir", "gcn3", "r9nano", true}, {"matrixtranspose", "gcn3", "", false}} {
			if !known[cfg.bench] {
				continue
			}
			for _, warm := range []int{0, 1} {
				ws = append(ws, WorkloadSpec{Bench: cfg.bench, Params: DefaultParams(cfg.bench), Arch: cfg.arch, Timing: cfg.timing,
					GPUType: cfg.gpu, GPUs: []int{1}, Seed: int64(r.Seed), Knobs: map[string]int{"warm": warm}})
			}
		}
		res := RunWorkloads(ws, 8, 300*time.Second)
		for j := 0; j+1 < len(ws); j += 2 {
			r.Checked("warm-pair")
			r.Count("warm." + ws[j].Bench)
			cold, warm := c05Obs(res[j], true), c05Obs(res[j+1], true)
			strip := func(o string) string { return strings.ReplaceAll(strings.ReplaceAll(o, " warm=1", ""), " warm_fault=1", "") }
			if strip(cold) != strip(warm) {
				r.Failf("C05.rerun-differs."+ws[j].Bench, ws[j].String()+" first in its process vs after another simulation in the same process",
					"GOMAXPROCS=0: %s  |  GOMAXPROCS=0: %s", strip(cold), strip(warm))
			}
		}
	}
	for j, s := range specs {
		withTime := !s.Parallel
		ref := c05Obs(results[0][j], withTime)
		id := s.String()
		r.Count("runs." + s.Bench)
		for i := 1; i < len(procs); i++ {
			r.Checked("run-pair")
			o := c05Obs(results[i][j], withTime)
			if o != ref {
				r.Failf("C05.rerun-differs."+s.Bench, id, "GOMAXPROCS=%s: %s  |  GOMAXPROCS=%s: %s", procs[0], ref, procs[i], o)
			}
		}
		if results[0][j].Fault != "" || !results[0][j].Ran {
			r.Note("workload %s did not run to completion (%s) — reproducibility compared on the partial observables", id, results[0][j].Fault)
		}
	}
}
