package main

import (
	"fmt"
	"os"
	"strings"

	"github.com/sarchlab/akita/v4/mem/vm"
	"github.com/sarchlab/akita/v4/sim"
	"github.com/sarchlab/mgpusim/v4/amd/driver"
	"github.com/sarchlab/mgpusim/v4/amd/insts"
)

func init() { register("C05", runC05) }

// c05Devices builds a driver whose allocator has a CPU of cpuSize bytes, GPUs of the given
// sizes, and unified devices (size 0) over random GPU subsets.
func c05Devices(rng *Rng, sizes []uint64) *driver.Driver {
	pt := vm.NewPageTable(12)
	d := driver.MakeBuilder().WithEngine(&fakeEngine{}).WithPageTable(pt).WithLog2PageSize(12).Build("Driver")
	d.VerifResetMemory(pt, sizes[0])
	for _, g := range sizes[1:] {
		if g == 0 {
			// a unified device over the first GPU(s); it owns no memory of its own
			d.CreateUnifiedGPU(nil, []int{1})
			continue
		}
		var port sim.Port
		d.RegisterGPU(port, driver.DeviceProperties{CUCount: 4, DRAMSize: g})
	}
	return d
}

func runC05(r *Run, rng *Rng, replay string) {
	if only := os.Getenv("C05_ONLY"); only != "" && only != "base" {
		return
	}
	thorough := r.Tier == "thorough"

	// (1) deviceIDByPAddr: the real loop over the device MAP (iteration order changes from call
	// to call) against the model over the registration order, plus repeat-call agreement.
	ncfg := 60
	if thorough {
		ncfg = 1500
	}
	for c := 0; c < ncfg; c++ {
		n := rng.Range(1, 6)
		sizes := []uint64{uint64(rng.Range(1, 8)) * 4096}
		for i := 0; i < n; i++ {
			sizes = append(sizes, uint64(rng.Range(1, 8))*4096)
		}
		// unified devices (no memory of their own) are created after all GPUs are registered,
		// as the runner does
		for i := rng.Intn(3); i > 0; i-- {
			sizes = append(sizes, 0)
		}
		d := c05Devices(rng, sizes)
		total := uint64(0)
		var ss []string
		for _, s := range sizes {
			total += s
			ss = append(ss, fmt.Sprint(s))
		}
		for k := 0; k < 12; k++ {
			var p uint64
			switch rng.Intn(4) {
			case 0:
				p = rng.U64() % (total + 3*4096)
			case 1: // a boundary
				acc := uint64(0)
				j := rng.Intn(len(sizes))
				for i := 0; i <= j; i++ {
					acc += sizes[i]
				}
				p = 4096 + acc - uint64(rng.Intn(2))
			case 2:
				p = 0
			default:
				p = 4096 + total - 1
			}
			line := fmt.Sprintf("c05 devid 12 %s %d", strings.Join(ss, ","), p)
			var id int
			f := catch(func() { id = d.VerifDeviceIDByPAddr(p) })
			out := fmt.Sprint(id)
			if f != "" {
				out = "fault:" + strings.TrimPrefix(f, "explicit:")
			}
			r.Case(line, out)
			r.Count("devid")
			// map-order stress: Go randomises the start of every map range
			r.Checked("devid-repeat")
			for rep := 0; rep < 40; rep++ {
				var id2 int
				f2 := catch(func() { id2 = d.VerifDeviceIDByPAddr(p) })
				if f2 != f || id2 != id {
					r.Failf("C05.map-order.deviceIDByPAddr", line, "repeat call answered %d/%q, first %d/%q", id2, f2, id, f)
					break
				}
			}
		}
	}

	// (2) decoder instances: built from two map iterations (format list, VOP1 copies); every
	// instance must decode a corpus identically.
	ninst := 12
	nwords := 3000
	if thorough {
		ninst, nwords = 60, 40000
	}
	ref := insts.NewDisassembler()
	corpus := make([][]byte, nwords)
	refOut := make([]string, nwords)
	rows := ref.VerifRows()
	for i := range corpus {
		var buf []byte
		if i%2 == 0 && len(rows) > 0 {
			it := rows[rng.Intn(len(rows))]
			w := fillWord(rng, it.Format, uint32(it.Opcode))
			buf = []byte{byte(w), byte(w >> 8), byte(w >> 16), byte(w >> 24)}
			buf = append(buf, rng.Bytes(8)...)
		} else {
			buf = rng.Bytes(12)
		}
		corpus[i] = buf
		refOut[i], _ = decodeCanon(ref, buf)
	}
	for k := 0; k < ninst; k++ {
		d := insts.NewDisassembler()
		r.Checked("decoder-instance")
		for i, buf := range corpus {
			o, _ := decodeCanon(d, buf)
			if o != refOut[i] {
				r.Failf("C05.map-order.decoder", "c04 dec gcn3 "+hexb(buf), "instance %d decodes to %s, reference instance to %s", k, o, refOut[i])
				break
			}
		}
	}
	r.CountN("decoder.instances", ninst)
	r.CountN("decoder.words", nwords)

	// (3) whole-simulation reproducibility (runs pairs of complete simulations in child
	// processes); provided by c05_runs.go when the workload runner is available.
	if c05Runs != nil {
		c05Runs(r, rng)
	}
}

// c05Runs is set by c05_runs.go.
var c05Runs func(r *Run, rng *Rng)

